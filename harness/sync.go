// Synchronous-network runs (C08, C09, C16): every pending payload is delivered (random order, duplicates,
// also to nodes still at the previous height) before the earliest armed timer fires. Optional faults:
// validators silent from the start, a subset cut off for a period and healed, a validator restarted with
// empty consensus state.
package main

import (
	"bufio"
	"fmt"
	"math/rand"
	"time"

	"github.com/nspcc-dev/dbft"
)

type syncOpts struct {
	mode string // "c08" fault free, "c09s" silent from start, "c09p" partition+heal, "c09r" restart, "c16" dynamic block time
}

func syncRuns(w *bufio.Writer, seed int64, from, to int, o syncOpts, stats map[string]int) {
	for run := from; run < to; run++ {
		syncRun(w, rand.New(rand.NewSource(runSeed(seed^0x5a5a, run))), run, o, stats)
	}
}

func syncRun(w *bufio.Writer, rng *rand.Rand, run int, o syncOpts, stats map[string]int) {
	N := 1 + rng.Intn(7)
	startHeight := uint32(rng.Intn(3)) // 0: first block after genesis
	amev := int64(-1)
	if rng.Intn(2) == 0 {
		amev = int64(startHeight) + int64(rng.Intn(3))
	}
	dyn := rng.Intn(3) == 0
	tpb := time.Second
	maxTpb := 3 * time.Second
	varyMax := false // c16: the application reports another maximum block time at every second height (it may change with every block)
	maxAt := func(h uint32) time.Duration {
		if h%2 == 0 {
			return maxTpb + maxTpb/2
		}
		return maxTpb
	}
	silent := map[int]bool{}
	cut := map[int]bool{}
	cutFrom, cutLen := -1, 0
	restartNode, restartAt := -1, -1
	txMode := 0 // c16: 0 never, 1 always (pool non-empty), 2 a transaction appears during the extended wait, 3 right after the proposal that ends it
	switch o.mode {
	case "c09s":
		N = 4 + rng.Intn(7)
		k := rng.Intn((N-1)/3 + 1)
		for len(silent) < k {
			silent[rng.Intn(N)] = true
		}
	case "c09p":
		N = 4 + rng.Intn(4)
		k := 1 + rng.Intn(N-1)
		for len(cut) < k {
			cut[rng.Intn(N)] = true
		}
		cutFrom = rng.Intn(60)
		cutLen = 1 + rng.Intn(120)
	case "c09r":
		N = 4 + rng.Intn(4)
		restartNode = rng.Intn(N)
		restartAt = rng.Intn(80)
	case "c09x": // exactly F silent from the start plus a restart of a live validator (anti-MEV mostly on)
		N = 4 + rng.Intn(4)
		for len(silent) < (N-1)/3 {
			silent[rng.Intn(N)] = true
		}
		for restartNode < 0 || silent[restartNode] {
			restartNode = rng.Intn(N)
		}
		restartAt = rng.Intn(60)
		if rng.Intn(4) != 0 {
			amev = int64(startHeight)
		}
	case "c16":
		dyn = true
		ratio := []int64{2, 3, 3, 10, 1}[rng.Intn(5)]
		maxTpb = time.Duration(ratio) * tpb
		if ratio == 1 {
			maxTpb = tpb + tpb/2
		}
		txMode = rng.Intn(4)
		varyMax = rng.Intn(3) == 0
	}
	fmt.Fprintf(w, "RUN %d N %d CFG 1000000 %d %d\n", run, N, amev, b2i(dyn))
	stats[fmt.Sprintf("%s:N=%d", o.mode, N)]++
	mon := newMonitor(run)
	all := make([]*node, N)
	mk := func(i int) *node {
		s := rng.Int63()
		n := newNode(i, mkVals(N), amev, w, func(n *node) {
			n.dyn = dyn
			n.rng = rand.New(rand.NewSource(s))
			n.wantTx = map[uint64]bool{}
			n.mon = mon
			n.tr = newTracker()
			n.tpb, n.maxTpb = tpb, maxTpb
			if varyMax {
				n.maxTpbAt = maxAt
			}
			if o.mode == "c16" {
				n.usePool = true
				if txMode == 1 {
					n.pool = []uint64{1}
				}
			}
		})
		n.height = startHeight
		return n
	}
	var nodes []*node
	for i := range all {
		all[i] = mk(i)
		if !silent[i] {
			nodes = append(nodes, all[i])
		}
	}
	injected := false
	reproposed := false
	// c09x, every second run: the restart hits the primary of a later view right after it has proposed (its peers then hold
	// its proposal, and it must take it back from their recovery messages)
	restartOnLateProposal := o.mode == "c09x" && rng.Intn(2) == 0
	if restartOnLateProposal {
		restartNode, restartAt = -1, -1
	}
	curStep := 0
	lazy := map[int]bool{}
	fired := map[int]int{} // c16 mode 3: subscriptions of a node the application has used up
	waited := false
	ledgerSyncs := 0
	reset := func(n *node) {
		if o.mode == "c16" && txMode == 1 {
			n.pool = []uint64{uint64(n.height)*10 + 1}
		}
		if o.mode == "c16" && (txMode == 2 || txMode == 3) {
			n.pool = nil
			injected = false
		}
		// the re-initialisation replays the payloads kept for the new height and may decide it at once: the application then
		// re-initialises the node again
		for k := 0; k < 8; k++ {
			before := n.height
			n.op(fmt.Sprintf("R %d", n.lastTS), func() { n.d.Reset(n.lastTS) })
			if n.height == before {
				break
			}
		}
	}
	for _, n := range nodes {
		before := n.height
		n.start(0)
		if n.height != before { // single validator: decided inside Start
			reset(n)
		}
	}
	cvrr, maxView := 0, byte(0)
	var pending, held []pend
	type prop struct {
		at    time.Time
		empty bool
		max   time.Duration // the maximum block time of the proposal's height
	}
	var props []prop
	lastHeightSeen := uint32(0)
	collect := func(step int) {
		for _, n := range nodes {
			for _, p := range n.out {
				if p.T == dbft.ChangeViewType || p.T == dbft.RecoveryRequestType {
					cvrr++
				}
				if restartOnLateProposal && restartNode < 0 && p.T == dbft.PrepareRequestType && p.V >= 1 && !silent[n.id] {
					restartNode, restartAt = n.id, curStep+1
				}
				if p.T == dbft.PrepareRequestType && p.Hgt > lastHeightSeen {
					lastHeightSeen = p.Hgt
					mx := maxTpb
					if varyMax {
						mx = maxAt(p.Hgt)
					}
					props = append(props, prop{n.tm.now, len(p.Body.(prepReq).hashes) == 0, mx})
				}
				for _, m := range nodes {
					j := m.id
					if j == n.id {
						continue
					}
					inCut := cutFrom >= 0 && step >= cutFrom && step < cutFrom+cutLen
					if inCut && cut[j] != cut[n.id] {
						continue // lost across the partition
					}
					pending = append(pending, pend{j, p})
					if rng.Intn(10) == 0 {
						pending = append(pending, pend{j, p}) // duplicate
					}
				}
			}
			n.out = nil
		}
	}
	_ = held
	collect(0)
	heights := 4
	target := startHeight + uint32(heights)
	budget := 1500 + 300*N
	for step := 0; step < budget; step++ {
		curStep = step
		done := true
		for _, n := range nodes {
			if n.height < target {
				done = false
			}
		}
		if done {
			break
		}
		if step == restartAt && restartNode >= 0 {
			// restart with empty consensus state: a fresh instance on the node's ledger
			old := all[restartNode]
			n := mk(restartNode)
			n.height, n.tip, n.lastTS = old.height, old.tip, old.lastTS
			n.tm.now = old.tm.now
			all[restartNode] = n
			for i, m := range nodes {
				if m.id == restartNode {
					nodes[i] = n
				}
			}
			mon.byz[restartNode] = true // a node that forgot its state counts as faulty for C01/C03
			nOut := len(n.out)
			n.start(n.lastTS)
			// the old instance had already proposed at the height it is restarted in: the fresh one either proposes
			// again (equivocation) or is handed its own forgotten proposal by its peers
			_ = nOut
			// (known finding D18). That is inevitable only for the primary of view 0, which proposes at once when started; a
			// restarted primary of a later view re-enters that view through recovery and must take its own proposal back
			if _, atView0 := old.tr.proposals[0]; old.tr.height == old.d.BlockIndex && atView0 {
				reproposed = true
			}
			restartAt = -1
			collect(step)
			continue
		}
		if len(pending) > 0 {
			i := rng.Intn(len(pending))
			pd := pending[i]
			pending = append(pending[:i], pending[i+1:]...)
			n := all[pd.to]
			before := n.height
			n.recv(pd.p)
			if n.d.ViewNumber > maxView {
				maxView = n.d.ViewNumber
			}
			if n.height != before {
				if rng.Intn(4) == 0 {
					lazy[n.id] = true // slow ledger: Reset comes later, payloads keep arriving meanwhile
				} else {
					reset(n)
				}
			}
			if lazy[n.id] && n.height == before && (rng.Intn(5) == 0 || n.d.VerifSnapshot().BlockProcessed && !hasPendingFor(pending, n.id)) {
				delete(lazy, n.id)
				reset(n)
			}
		} else {
			// time may pass once while a slow node is not yet re-initialised, but only if that cannot by itself cost a
			// view: the others form a quorum and the slow node is not the next primary
			allowWait := false
			if len(lazy) > 0 && !waited && len(nodes)-len(lazy) >= nodes[0].d.M() {
				allowWait = true
				for _, n := range nodes {
					if lazy[n.id] {
						for _, m := range nodes {
							if !lazy[m.id] && m.d.BlockIndex == n.d.BlockIndex+1 && int(m.d.PrimaryIndex) == n.d.MyIndex {
								allowWait = false
							}
						}
					}
				}
			}
			if len(lazy) > 0 && allowWait && rng.Intn(2) == 0 {
				waited = true
			} else if len(lazy) > 0 {
				waited = false
				for _, n := range nodes {
					if lazy[n.id] {
						delete(lazy, n.id)
						reset(n)
					}
				}
				collect(step)
				continue
			}
			// ledger synchronisation: a node that fell behind nodes it can reach gets their blocks from the
			// ledger layer and is re-initialised by the application
			synced := false
			inCut := cutFrom >= 0 && step >= cutFrom && step < cutFrom+cutLen
			for _, n := range nodes {
				var src *node
				for _, m := range nodes {
					if m.height > n.height && (src == nil || m.height > src.height) && !(inCut && cut[m.id] != cut[n.id]) {
						src = m
					}
				}
				if src != nil {
					n.height, n.tip, n.lastTS = src.height, src.tip, src.lastTS
					stats[o.mode+":ledger-sync"]++
					ledgerSyncs++
					reset(n)
					synced = true
				}
			}
			if synced {
				collect(step)
				continue
			}
			var best *node
			for _, n := range nodes {
				if n.tm.armed && !lazy[n.id] && (best == nil || n.tm.deadline.Before(best.tm.deadline)) {
					best = n
				}
			}
			if best == nil {
				if len(lazy) > 0 {
					for _, n := range nodes {
						if lazy[n.id] {
							delete(lazy, n.id)
							reset(n)
						}
					}
					collect(step)
					continue
				}
				break
			}
			if best.tm.deadline.After(best.tm.now) {
				// c16 mode 2: a transaction shows up during the primary's extended wait
				if o.mode == "c16" && txMode == 2 && !injected {
					for _, n := range nodes {
						if n.d.IsPrimary() && n.subs > 0 && n.d.VerifSnapshot().TxSubscriptionOn {
							injected = true
							mid := n.tm.now.Add(best.tm.deadline.Sub(n.tm.now) / 2)
							for _, m := range nodes {
								m.tm.now = mid
								m.pool = []uint64{uint64(m.height)*10 + 7}
							}
							at := n.tm.now
							nOut := len(n.out)
							hBefore := n.height
							n.op("N", func() { n.d.OnNewTransaction() })
							mon.tick("C16")
							found := false
							for _, p := range n.out[nOut:] {
								if p.T == dbft.PrepareRequestType {
									found = true
								}
							}
							if n.height != hBefore {
								reset(n)
							}
							if !found {
								mon.nhit(n, "C16", "notification-no-proposal", fmt.Sprintf("primary %d notified of a new transaction at %v during the extended wait did not propose", n.id, at.UnixNano()))
							}
							break
						}
					}
					if injected {
						collect(step)
						continue
					}
				}
				for _, n := range nodes {
					n.tm.now = best.tm.deadline
				}
			}
			h, v := best.tm.h, best.tm.v
			best.tm.armed = false
			before := best.height
			nOutT := len(best.out)
			best.op(fmt.Sprintf("T %d %d", h, v), func() { best.d.OnTimeout(h, v) })
			if best.height != before {
				reset(best)
			} else if o.mode == "c16" && txMode == 3 && best.subs > fired[best.id] {
				// the application's subscription is single-use and the library cannot cancel it: a transaction that shows up right
				// after the proposal (before any answer to it has arrived) still makes the application call OnNewTransaction
				proposed := false
				for _, p := range best.out[nOutT:] {
					if p.T == dbft.PrepareRequestType {
						proposed = true
					}
				}
				if proposed {
					fired[best.id] = best.subs
					for _, m := range nodes {
						m.pool = []uint64{uint64(m.height)*10 + 9}
					}
					stats["c16-late-notifications"]++
					best.op("N", func() { best.d.OnNewTransaction() })
				}
			}
		}
		collect(step)
	}
	// verdicts
	hs := ""
	stuck := false
	for _, n := range nodes {
		hs += fmt.Sprintf(" %d", n.height)
		if n.height < target {
			stuck = true
		}
	}
	rep := nodes[0]
	switch o.mode {
	case "c08", "c16":
		mon.tick("C08")
		if stuck {
			mon.nhit(rep, "C08", "not-decided", fmt.Sprintf("fault-free synchronous run N=%d amev=%d dyn=%v start=%d: heights%s, target %d", N, amev, dyn, startHeight, hs, target))
		}
		if ledgerSyncs > 0 {
			mon.nhit(rep, "C08", "height-not-decided-by-consensus", fmt.Sprintf("fault-free synchronous run N=%d amev=%d dyn=%v start=%d: %d times a validator did not decide a height from the delivered messages and had to be brought up by the ledger", N, amev, dyn, startHeight, ledgerSyncs))
		}
		if cvrr > 0 || maxView > 0 {
			mon.nhit(rep, "C08", "view-change-or-recovery", fmt.Sprintf("fault-free synchronous run N=%d amev=%d dyn=%v start=%d: %d ChangeView/RecoveryRequest broadcasts, max view %d", N, amev, dyn, startHeight, cvrr, maxView))
		}
		if o.mode == "c16" {
			mon.tick("C16")
			if cvrr > 0 {
				mon.nhit(rep, "C16", "idle-view-change", fmt.Sprintf("idle run N=%d txMode=%d max/min=%v: %d ChangeView/RecoveryRequest broadcasts", N, txMode, maxTpb.Seconds()/tpb.Seconds(), cvrr))
			}
			for i := 1; i < len(props); i++ {
				gap := props[i].at.Sub(props[i-1].at)
				if gap < tpb {
					mon.nhit(rep, "C16", "proposals-too-close", fmt.Sprintf("proposals %d and %d are %v apart, minimum %v", i-1, i, gap, tpb))
				}
				if props[i].empty && gap < props[i].max {
					mon.nhit(rep, "C16", "empty-proposal-early", fmt.Sprintf("empty proposal %d only %v after the previous one, maximum block time of that height %v", i, gap, props[i].max))
				}
			}
		}
	default:
		mon.tick("C09")
		if stuck {
			sig := "stalled/" + o.mode
			if reproposed {
				sig = "stalled/restart-of-a-primary-that-had-proposed"
			}
			mon.nhit(rep, "C09", sig, fmt.Sprintf("run N=%d mode=%s silent=%d cut=%v[%d+%d] restart=%d: heights%s, target %d", N, o.mode, len(silent), cut, cutFrom, cutLen, restartNode, hs, target))
		}
		if o.mode == "c09s" && int(maxView) > len(silent) {
			mon.nhit(rep, "C09", "view-above-silent-count", fmt.Sprintf("run N=%d with %d silent validators reached view %d", N, len(silent), maxView))
		}
	}
	stats[fmt.Sprintf("%s:maxView=%d", o.mode, maxView)]++
	endRun(w, mon, nodes...)
}

func hasPendingFor(p []pend, id int) bool {
	for _, x := range p {
		if x.to == id {
			return true
		}
	}
	return false
}
