// C19: monitors and correspondence data for the bundled reference implementations (internal/consensus, internal/crypto,
// internal/merkle). Lines:
//   H256 <hex data> <hex digest>            crypto.Hash256 (compared with the Coq SHA-256)
//   MK <n> <hex leaf>*n <hex root>          merkle root (compared with the Coq Merkle model over the Coq SHA-256)
//   MON C19 <signature> | <description>     property monitor hits;  MONCNT C19 <n>  checks evaluated
package main

import (
	"bufio"
	"bytes"
	crand "crypto/rand"
	"encoding/hex"
	"fmt"
	"math/rand"

	"github.com/nspcc-dev/dbft"
	"github.com/nspcc-dev/dbft/internal/consensus"
	"github.com/nspcc-dev/dbft/internal/crypto"
	"github.com/nspcc-dev/dbft/internal/merkle"
)

type U = crypto.Uint256

func refCmd(w *bufio.Writer, seed int64, n int) {
	rng := rand.New(rand.NewSource(seed ^ 0x19))
	checks := 0
	hit := func(sig, f string, a ...any) { fmt.Fprintf(w, "MON C19 %s | %s\n", sig, fmt.Sprintf(f, a...)) }
	rh := func() U {
		var h U
		rng.Read(h[:])
		return h
	}
	// ---- correspondence data
	for i := 0; i < n/4+8; i++ {
		l := rng.Intn(150)
		if i < 8 {
			l = []int{0, 1, 55, 56, 63, 64, 65, 119}[i]
		}
		b := make([]byte, l)
		rng.Read(b)
		d := crypto.Hash256(b)
		fmt.Fprintf(w, "H256 %s- %s\n", hex.EncodeToString(b), hex.EncodeToString(d[:]))
	}
	for i := 0; i < n/4+20; i++ {
		k := 1 + rng.Intn(17)
		if i < 20 {
			k = i + 1
		}
		ls := make([]U, k)
		s := fmt.Sprintf("MK %d", k)
		for j := range ls {
			ls[j] = rh()
			s += " " + hex.EncodeToString(ls[j][:])
		}
		r := merkle.NewMerkleTree(ls...).Root().Hash
		fmt.Fprintf(w, "%s %s\n", s, hex.EncodeToString(r[:]))
		// monitor: any single leaf change / swap of two different leaves changes the root
		checks++
		j := rng.Intn(k)
		m := append([]U{}, ls...)
		m[j] = rh()
		if merkle.NewMerkleTree(m...).Root().Hash == r {
			hit("merkle-leaf-change", "root unchanged after changing leaf %d of %d", j, k)
		}
		if k >= 2 {
			a, b := rng.Intn(k), rng.Intn(k)
			if ls[a] != ls[b] {
				m = append([]U{}, ls...)
				m[a], m[b] = m[b], m[a]
				if merkle.NewMerkleTree(m...).Root().Hash == r {
					hit("merkle-order-change", "root unchanged after swapping leaves %d and %d of %d", a, b, k)
				}
			}
		}
		if k%2 == 1 && k >= 3 { // known finding D11: duplicating the last leaf of an odd list
			m = append(append([]U{}, ls...), ls[k-1])
			if merkle.NewMerkleTree(m...).Root().Hash == r {
				hit("merkle-duplicate-last-leaf", "root of %d leaves equals the root of the %d leaves with the last one repeated", k, k+1)
			}
		}
	}
	// ---- payloads of every kind
	mkBody := func(t dbft.MessageType, variant int) any {
		switch t {
		case dbft.ChangeViewType:
			return consensus.NewChangeView(byte(1+variant), dbft.CVTimeout, uint64(1_000_000_000*(7+variant)))
		case dbft.PrepareRequestType:
			hs := []U{{1}, {2}, {3}}
			if variant == 1 {
				hs = []U{{2}, {1}, {3}}
			}
			if variant == 2 {
				hs = []U{{1}, {2}}
			}
			ts, nonce := uint64(5_000_000_000), uint64(77)
			if variant == 3 {
				ts += 1_000_000_000
			}
			if variant == 4 {
				nonce++
			}
			return consensus.NewPrepareRequest(ts, nonce, hs)
		case dbft.PrepareResponseType:
			return consensus.NewPrepareResponse(U{byte(9 + variant)})
		case dbft.CommitType:
			s := make([]byte, 64)
			s[3] = byte(1 + variant)
			return consensus.NewCommit(s)
		case dbft.PreCommitType:
			return consensus.NewPreCommit([]byte{0, 0, 1, byte(variant)})
		case dbft.RecoveryRequestType:
			return consensus.NewRecoveryRequest(uint64(1_000_000_000 * (3 + variant)))
		}
		return nil
	}
	kinds := []dbft.MessageType{dbft.ChangeViewType, dbft.PrepareRequestType, dbft.PrepareResponseType, dbft.CommitType, dbft.PreCommitType, dbft.RecoveryRequestType}
	nvar := map[dbft.MessageType]int{dbft.ChangeViewType: 2, dbft.PrepareRequestType: 5, dbft.PrepareResponseType: 2, dbft.CommitType: 2, dbft.PreCommitType: 2, dbft.RecoveryRequestType: 2}
	roundTrip := func(p dbft.ConsensusPayload[U]) (dbft.ConsensusPayload[U], error) {
		data := p.(*consensus.Payload).MarshalUnsigned()
		q := new(consensus.Payload)
		err := q.UnmarshalUnsigned(data)
		return q, err
	}
	for _, t := range kinds {
		base := consensus.NewConsensusPayload(t, 10, 2, 1, mkBody(t, 0))
		h0 := base.Hash()
		checks++
		if consensus.NewConsensusPayload(t, 10, 2, 1, mkBody(t, 0)).Hash() != h0 {
			hit("hash-not-a-function-of-content", "two equal payloads of type %v have different hashes", t)
		}
		muts := map[string]dbft.ConsensusPayload[U]{
			"height":          consensus.NewConsensusPayload(t, 11, 2, 1, mkBody(t, 0)),
			"validator-index": consensus.NewConsensusPayload(t, 10, 3, 1, mkBody(t, 0)),
			"view":            consensus.NewConsensusPayload(t, 10, 2, 2, mkBody(t, 0)),
		}
		if t != dbft.ChangeViewType { // (a ChangeView's new view number is derived from the view: covered by "view")
			for v := 1; v < nvar[t]; v++ {
				muts[fmt.Sprintf("body-%d", v)] = consensus.NewConsensusPayload(t, 10, 2, 1, mkBody(t, v))
			}
		}
		for name, m := range muts {
			checks++
			if m.Hash() == h0 {
				hit("hash-ignores-"+name, "payload type %v: hash unchanged after changing %s", t, name)
			}
		}
		for _, t2 := range kinds {
			if t2 != t {
				checks++
				// same header fields, other type (and its body)
				if consensus.NewConsensusPayload(t2, 10, 2, 1, mkBody(t2, 0)).Hash() == h0 {
					hit("hash-ignores-type", "payload types %v and %v hash alike", t, t2)
				}
			}
		}
		// the same object, index changed after a first Hash(): the hash must follow the content
		checks++
		same := consensus.NewConsensusPayload(t, 10, 2, 1, mkBody(t, 0))
		_ = same.Hash()
		same.SetValidatorIndex(3)
		if same.Hash() != muts["validator-index"].Hash() {
			hit("hash-stale-after-set-validator-index", "payload type %v: Hash() after SetValidatorIndex differs from the hash of an equal fresh payload", t)
		}
		// codec
		checks++
		q, err := roundTrip(base)
		if err != nil {
			hit("decode-rejects-own-encoding", "payload type %v: %v", t, err)
		} else {
			if q.Hash() != h0 || q.Type() != t || q.Height() != 10 || q.ValidatorIndex() != 2 || q.ViewNumber() != 1 {
				hit("roundtrip-differs", "payload type %v: decode(encode(p)) differs from p", t)
			}
			if !bytes.Equal(q.(*consensus.Payload).MarshalUnsigned(), base.(*consensus.Payload).MarshalUnsigned()) {
				hit("roundtrip-differs", "payload type %v: re-encoding differs", t)
			}
			// decoding into a used object
			checks++
			other := consensus.NewConsensusPayload(t, 99, 7, 3, mkBody(t, 0)).(*consensus.Payload)
			_ = other.Hash()
			if err := other.UnmarshalUnsigned(base.(*consensus.Payload).MarshalUnsigned()); err == nil && other.Hash() != h0 {
				hit("hash-stale-after-decode", "payload type %v: hash of a reused decode target is not the hash of the decoded content", t)
			}
		}
	}
	// recovery message: packed payloads survive the codec, a rebuilt proposal has the original's hash
	{
		checks++
		req := consensus.NewConsensusPayload(dbft.PrepareRequestType, 10, 1, 0, mkBody(dbft.PrepareRequestType, 0))
		rm := consensus.NewRecoveryMessage(nil)
		rm.AddPayload(req)
		rm.AddPayload(consensus.NewConsensusPayload(dbft.PrepareResponseType, 10, 2, 0, consensus.NewPrepareResponse(req.Hash())))
		rm.AddPayload(consensus.NewConsensusPayload(dbft.CommitType, 10, 2, 0, mkBody(dbft.CommitType, 0)))
		rm.AddPayload(consensus.NewConsensusPayload(dbft.PreCommitType, 10, 3, 0, mkBody(dbft.PreCommitType, 0)))
		rm.AddPayload(consensus.NewConsensusPayload(dbft.ChangeViewType, 10, 3, 0, mkBody(dbft.ChangeViewType, 0)))
		rp := consensus.NewConsensusPayload(dbft.RecoveryMessageType, 10, 0, 0, rm)
		q, err := roundTrip(rp)
		if err != nil {
			hit("decode-rejects-own-encoding", "recovery message: %v", err)
		} else {
			r2 := q.GetRecoveryMessage()
			rebuilt := r2.GetPrepareRequest(q, nil, 1)
			if rebuilt == nil || rebuilt.Hash() != req.Hash() {
				hit("rebuilt-request-hash", "the PrepareRequest rebuilt from a decoded recovery message does not have the original's hash")
			}
			for _, resp := range r2.GetPrepareResponses(q, nil) {
				if resp.GetPrepareResponse().PreparationHash() != req.Hash() {
					hit("rebuilt-response-hash", "a rebuilt PrepareResponse does not name the original proposal")
				}
			}
			if len(r2.GetCommits(q, nil)) == 1 && len(r2.GetPreCommits(q, nil)) == 1 && len(r2.GetChangeViews(q, nil)) == 1 && len(r2.GetPrepareResponses(q, nil)) == 0 && r2.PreparationHash() == nil {
				// known finding D19: the decoder does not restore preparationHash when the request itself is packed
				hit("recovery-codec-loses-responses-packed-with-request", "decode(encode(recovery message holding the PrepareRequest and a PrepareResponse)) yields no PrepareResponse: PreparationHash is nil after decoding")
			} else if len(r2.GetCommits(q, nil)) != 1 || len(r2.GetPreCommits(q, nil)) != 1 || len(r2.GetChangeViews(q, nil)) != 1 || len(r2.GetPrepareResponses(q, nil)) != 1 {
				hit("recovery-codec-drops-payloads", "decode(encode(recovery message)) carries %d commits %d pre-commits %d change views %d responses, 1 each expected",
					len(r2.GetCommits(q, nil)), len(r2.GetPreCommits(q, nil)), len(r2.GetChangeViews(q, nil)), len(r2.GetPrepareResponses(q, nil)))
			}
		}
	}
	{
		checks++
		ph := U{42}
		rm := consensus.NewRecoveryMessage(&ph)
		rm.AddPayload(consensus.NewConsensusPayload(dbft.PrepareResponseType, 10, 2, 0, consensus.NewPrepareResponse(ph)))
		rm.AddPayload(consensus.NewConsensusPayload(dbft.PrepareResponseType, 10, 3, 0, consensus.NewPrepareResponse(ph)))
		q, err := roundTrip(consensus.NewConsensusPayload(dbft.RecoveryMessageType, 10, 0, 0, rm))
		if err != nil {
			hit("decode-rejects-own-encoding", "recovery message without request: %v", err)
		} else if rs := q.GetRecoveryMessage().GetPrepareResponses(q, nil); len(rs) != 2 || rs[0].GetPrepareResponse().PreparationHash() != ph || rs[1].ValidatorIndex() != 3 {
			hit("recovery-codec-drops-payloads", "decode(encode(recovery message with two responses)) yields %d responses", len(rs))
		}
	}
	// ---- recovery-message compaction / reconstruction: generated packing sequences, printed for the Coq model
	// (Ref/Recovery.v) and judged by monitors of their own.  All numbers in hex.
	//   RMNEW <hash|->   RMADD <kind> <height> <view> <index> <body...>   RMHDR <height> <view> <index> <ind>
	//   RMOUT <stage> <canonical dump>     stage 0 = on the sender, stage 1 = after encode/decode of the recovery payload
	{
		hx := func(b []byte) string { return hex.EncodeToString(b) }
		dump := func(rm dbft.RecoveryMessage[U], hdr dbft.ConsensusPayload[U], ind uint16) string {
			hd := func(p dbft.ConsensusPayload[U]) string {
				return fmt.Sprintf("%x.%x.%x", p.Height(), p.ViewNumber(), p.ValidatorIndex())
			}
			join := func(l []string) string {
				if len(l) == 0 {
					return "-"
				}
				s := l[0]
				for _, x := range l[1:] {
					s += "," + x
				}
				return s
			}
			req := "-"
			if q := rm.GetPrepareRequest(hdr, nil, ind); q != nil {
				pq := q.GetPrepareRequest()
				hs := ""
				for i, h := range pq.TransactionHashes() {
					if i > 0 {
						hs += "+"
					}
					hs += hx(h[:])
				}
				if pq.Timestamp()%1_000_000_000 != 0 {
					hit("rebuilt-request-timestamp", "a rebuilt PrepareRequest has a timestamp that is not a whole number of seconds")
				}
				req = fmt.Sprintf("%s.%x.%x.%s", hd(q), pq.Timestamp()/1_000_000_000, pq.Nonce(), hs)
			}
			var resp, cv, pc, cm []string
			for _, p := range rm.GetPrepareResponses(hdr, nil) {
				h := p.GetPrepareResponse().PreparationHash()
				resp = append(resp, hd(p)+"."+hx(h[:]))
			}
			for _, p := range rm.GetChangeViews(hdr, nil) {
				cv = append(cv, fmt.Sprintf("%s.%x", hd(p), p.GetChangeView().NewViewNumber())) // (the interface has no timestamp getter)
			}
			for _, p := range rm.GetPreCommits(hdr, nil) {
				d := p.GetPreCommit().Data()
				v := uint32(0)
				for _, b := range d {
					v = v<<8 | uint32(b)
				}
				pc = append(pc, fmt.Sprintf("%s.%x", hd(p), v))
			}
			for _, p := range rm.GetCommits(hdr, nil) {
				cm = append(cm, hd(p)+"."+hx(p.GetCommit().Signature()))
			}
			return fmt.Sprintf("req=%s resp=%s cv=%s pc=%s cm=%s", req, join(resp), join(cv), join(pc), join(cm))
		}
		ncase := n/4 + 30
		for c := 0; c < ncase; c++ {
			height := uint32(rng.Intn(1 << 20))
			view := byte(rng.Intn(4))
			if rng.Intn(10) == 0 {
				view = byte(252 + rng.Intn(4))
			}
			var ph *U
			if rng.Intn(3) == 0 {
				h := rh()
				ph = &h
				fmt.Fprintf(w, "RMNEW %s\n", hx(h[:]))
			} else {
				fmt.Fprintf(w, "RMNEW -\n")
			}
			rm := consensus.NewRecoveryMessage(ph)
			var lastReq dbft.ConsensusPayload[U]
			type sent struct {
				idx uint16
				sig []byte
				mg  uint32
			}
			var cms, pcs []sent
			ncv, nresp := 0, 0
			k := rng.Intn(9)
			for j := 0; j < k; j++ {
				ph_, pv := height, view
				if rng.Intn(4) == 0 { // a payload of another view (commits and ChangeViews of earlier views are packed too)
					pv = byte(rng.Intn(256))
				}
				if rng.Intn(12) == 0 {
					ph_ = uint32(rng.Intn(1 << 20))
				}
				idx := uint16(rng.Intn(7))
				if rng.Intn(20) == 0 {
					idx = uint16(rng.Intn(1 << 16))
				}
				var p dbft.ConsensusPayload[U]
				switch kind := rng.Intn(12); {
				case kind < 2:
					nv, ts := byte(rng.Intn(256)), uint64(rng.Uint32())
					p = consensus.NewConsensusPayload(dbft.ChangeViewType, ph_, idx, pv, consensus.NewChangeView(nv, dbft.CVTimeout, ts*1_000_000_000))
					fmt.Fprintf(w, "RMADD CV %x %x %x %x %x\n", ph_, pv, idx, nv, ts)
					ncv++
				case kind < 4:
					ts, nonce := uint64(rng.Uint32()), rng.Uint64()
					if rng.Intn(5) == 0 {
						ts = 0xffffffff
					}
					hs := make([]U, rng.Intn(4))
					s := ""
					for i := range hs {
						hs[i] = rh()
						s += " " + hx(hs[i][:])
					}
					p = consensus.NewConsensusPayload(dbft.PrepareRequestType, ph_, idx, pv, consensus.NewPrepareRequest(ts*1_000_000_000, nonce, hs))
					pqh := p.Hash() // the model takes the payload hash as a given function of the content: the value is handed over
					fmt.Fprintf(w, "RMADD PQ %x %x %x %x %x %x%s %s\n", ph_, pv, idx, ts, nonce, len(hs), s, hx(pqh[:]))
					lastReq = p
				case kind < 7:
					h := rh()
					if lastReq != nil && rng.Intn(3) > 0 {
						h = lastReq.Hash()
					}
					p = consensus.NewConsensusPayload(dbft.PrepareResponseType, ph_, idx, pv, consensus.NewPrepareResponse(h))
					fmt.Fprintf(w, "RMADD PR %x %x %x %s\n", ph_, pv, idx, hx(h[:]))
					nresp++
				case kind < 9:
					sig := make([]byte, 64)
					rng.Read(sig)
					p = consensus.NewConsensusPayload(dbft.CommitType, ph_, idx, pv, consensus.NewCommit(sig))
					fmt.Fprintf(w, "RMADD CM %x %x %x %s\n", ph_, pv, idx, hx(sig))
					cms = append(cms, sent{idx: idx, sig: sig})
				case kind < 11:
					mg := rng.Uint32()
					if rng.Intn(4) == 0 {
						mg = []uint32{0, 1, 0xff, 0x100, 0xffffffff, 0x01000000}[rng.Intn(6)]
					}
					d := []byte{byte(mg >> 24), byte(mg >> 16), byte(mg >> 8), byte(mg)}
					p = consensus.NewConsensusPayload(dbft.PreCommitType, ph_, idx, pv, consensus.NewPreCommit(d))
					fmt.Fprintf(w, "RMADD PC %x %x %x %x\n", ph_, pv, idx, mg)
					pcs = append(pcs, sent{idx: idx, mg: mg})
				default:
					p = consensus.NewConsensusPayload(dbft.RecoveryRequestType, ph_, idx, pv, consensus.NewRecoveryRequest(uint64(rng.Uint32())*1_000_000_000))
					fmt.Fprintf(w, "RMADD RR %x %x %x\n", ph_, pv, idx)
				}
				rm.AddPayload(p)
			}
			hidx := uint16(rng.Intn(7))
			ind := uint16(rng.Intn(7))
			if lastReq != nil && rng.Intn(4) > 0 {
				ind = lastReq.ValidatorIndex()
			}
			rp := consensus.NewConsensusPayload(dbft.RecoveryMessageType, height, hidx, view, rm)
			fmt.Fprintf(w, "RMHDR %x %x %x %x\n", height, view, hidx, ind)
			for stage := 0; stage < 2; stage++ {
				hdr, m := rp, dbft.RecoveryMessage[U](rm)
				if stage == 1 {
					q, err := roundTrip(rp)
					if err != nil {
						hit("decode-rejects-own-encoding", "generated recovery message: %v", err)
						break
					}
					hdr, m = q, q.GetRecoveryMessage()
				}
				fmt.Fprintf(w, "RMOUT %d %s\n", stage, dump(m, hdr, ind))
				// monitors, independent of the model
				checks++
				if lastReq != nil {
					q := m.GetPrepareRequest(hdr, nil, ind)
					if q == nil {
						hit("rebuilt-request-missing", "a recovery message that packs a PrepareRequest rebuilds none (stage %d)", stage)
					} else if lastReq.Height() == height && lastReq.ViewNumber() == view && lastReq.ValidatorIndex() == ind && q.Hash() != lastReq.Hash() {
						hit("rebuilt-request-hash", "the PrepareRequest rebuilt from a recovery message of its height and view does not have the original's hash (stage %d)", stage)
					}
				}
				rs := m.GetPrepareResponses(hdr, nil)
				want := U{}
				have := false
				if lastReq != nil {
					want, have = lastReq.Hash(), true
				} else if ph != nil {
					want, have = *ph, true
				}
				if have && len(rs) != nresp {
					if stage == 1 && lastReq != nil && len(rs) == 0 && nresp > 0 {
						hit("recovery-codec-loses-responses-packed-with-request", "decode(encode(recovery message holding the PrepareRequest and %d PrepareResponses)) yields no PrepareResponse", nresp)
					} else {
						hit("recovery-drops-payloads", "%d PrepareResponses packed, %d rebuilt (stage %d)", nresp, len(rs), stage)
					}
				}
				for _, r := range rs {
					if have && r.GetPrepareResponse().PreparationHash() != want {
						hit("rebuilt-response-hash", "a rebuilt PrepareResponse does not name the packed proposal (stage %d)", stage)
					}
				}
				gc, gp, gv := m.GetCommits(hdr, nil), m.GetPreCommits(hdr, nil), m.GetChangeViews(hdr, nil)
				if len(gc) != len(cms) || len(gp) != len(pcs) || len(gv) != ncv {
					hit("recovery-drops-payloads", "packed %d commits %d pre-commits %d change views, rebuilt %d %d %d (stage %d)", len(cms), len(pcs), ncv, len(gc), len(gp), len(gv), stage)
				} else {
					for i, p := range gc {
						if p.ValidatorIndex() != cms[i].idx || !bytes.Equal(p.GetCommit().Signature(), cms[i].sig) || p.Height() != height {
							hit("rebuilt-commit-differs", "rebuilt Commit %d has another signer or signature than the packed one (stage %d)", i, stage)
						}
					}
					for i, p := range gp {
						d := p.GetPreCommit().Data()
						if p.ValidatorIndex() != pcs[i].idx || len(d) != 4 || (uint32(d[0])<<24|uint32(d[1])<<16|uint32(d[2])<<8|uint32(d[3])) != pcs[i].mg {
							hit("rebuilt-precommit-differs", "rebuilt PreCommit %d has another sender or data than the packed one (stage %d)", i, stage)
						}
					}
				}
			}
		}
	}
	// ---- encode/decode of generated payloads of every packable kind, printed for the model's `transmit_payload`
	//   PT <kind> <height> <view> <index> <body...>      PTOUT <canonical dump of decode(encode(p))>
	{
		hx := func(b []byte) string { return hex.EncodeToString(b) }
		for c := 0; c < n/4+30; c++ {
			ph_, pv, idx := uint32(rng.Intn(1<<20)), byte(rng.Intn(256)), uint16(rng.Intn(1<<16))
			if c%16 == 0 {
				ph_ = 0xffffffff
			}
			var p dbft.ConsensusPayload[U]
			switch c % 5 {
			case 0:
				nv, ts := byte(rng.Intn(256)), uint64(rng.Uint32())
				if rng.Intn(2) == 0 {
					nv = pv + 1 // what the library itself sends
				}
				p = consensus.NewConsensusPayload(dbft.ChangeViewType, ph_, idx, pv, consensus.NewChangeView(nv, dbft.CVTimeout, ts*1_000_000_000))
				fmt.Fprintf(w, "PT CV %x %x %x %x %x\n", ph_, pv, idx, nv, ts)
			case 1:
				ts, nonce := uint64(rng.Uint32()), rng.Uint64()
				hs := make([]U, rng.Intn(4))
				s := ""
				for i := range hs {
					hs[i] = rh()
					s += " " + hx(hs[i][:])
				}
				p = consensus.NewConsensusPayload(dbft.PrepareRequestType, ph_, idx, pv, consensus.NewPrepareRequest(ts*1_000_000_000, nonce, hs))
				fmt.Fprintf(w, "PT PQ %x %x %x %x %x %x%s -\n", ph_, pv, idx, ts, nonce, len(hs), s)
			case 2:
				h := rh()
				p = consensus.NewConsensusPayload(dbft.PrepareResponseType, ph_, idx, pv, consensus.NewPrepareResponse(h))
				fmt.Fprintf(w, "PT PR %x %x %x %s\n", ph_, pv, idx, hx(h[:]))
			case 3:
				sig := make([]byte, 64)
				rng.Read(sig)
				p = consensus.NewConsensusPayload(dbft.CommitType, ph_, idx, pv, consensus.NewCommit(sig))
				fmt.Fprintf(w, "PT CM %x %x %x %s\n", ph_, pv, idx, hx(sig))
			default:
				mg := rng.Uint32()
				p = consensus.NewConsensusPayload(dbft.PreCommitType, ph_, idx, pv, consensus.NewPreCommit([]byte{byte(mg >> 24), byte(mg >> 16), byte(mg >> 8), byte(mg)}))
				fmt.Fprintf(w, "PT PC %x %x %x %x\n", ph_, pv, idx, mg)
			}
			checks++
			q, err := roundTrip(p)
			if err != nil {
				hit("decode-rejects-own-encoding", "generated payload type %v: %v", p.Type(), err)
				continue
			}
			hd := fmt.Sprintf("%x.%x.%x", q.Height(), q.ViewNumber(), q.ValidatorIndex())
			switch q.Type() {
			case dbft.ChangeViewType:
				fmt.Fprintf(w, "PTOUT CV %s.%x\n", hd, q.GetChangeView().NewViewNumber())
			case dbft.PrepareRequestType:
				pq := q.GetPrepareRequest()
				s := ""
				for i, h := range pq.TransactionHashes() {
					if i > 0 {
						s += "+"
					}
					s += hx(h[:])
				}
				fmt.Fprintf(w, "PTOUT PQ %s.%x.%x.%s\n", hd, pq.Timestamp()/1_000_000_000, pq.Nonce(), s)
			case dbft.PrepareResponseType:
				h := q.GetPrepareResponse().PreparationHash()
				fmt.Fprintf(w, "PTOUT PR %s.%s\n", hd, hx(h[:]))
			case dbft.CommitType:
				fmt.Fprintf(w, "PTOUT CM %s.%s\n", hd, hx(q.GetCommit().Signature()))
			case dbft.PreCommitType:
				d := q.GetPreCommit().Data()
				v := uint32(0)
				for _, b := range d {
					v = v<<8 | uint32(b)
				}
				fmt.Fprintf(w, "PTOUT PC %s.%x\n", hd, v)
			default:
				fmt.Fprintf(w, "PTOUT ?? %s\n", hd)
			}
			if q2, err := roundTrip(q); err != nil || !bytes.Equal(q2.(*consensus.Payload).MarshalUnsigned(), q.(*consensus.Payload).MarshalUnsigned()) || q2.Hash() != q.Hash() {
				hit("roundtrip-differs", "generated payload type %v: a decoded payload is not reproduced by encode/decode", q.Type())
			}
		}
	}
	// decoders fail cleanly on arbitrary bytes
	good := consensus.NewConsensusPayload(dbft.PrepareRequestType, 10, 1, 0, mkBody(dbft.PrepareRequestType, 0)).(*consensus.Payload).MarshalUnsigned()
	for i := 0; i < n; i++ {
		checks++
		var data []byte
		if i%2 == 0 {
			data = make([]byte, rng.Intn(200))
			rng.Read(data)
		} else {
			data = append([]byte{}, good...)
			for k := 0; k < 1+rng.Intn(4); k++ {
				data[rng.Intn(len(data))] ^= byte(1 + rng.Intn(255))
			}
			if rng.Intn(4) == 0 {
				data = data[:rng.Intn(len(data))]
			}
		}
		func() {
			defer func() {
				if r := recover(); r != nil {
					hit("decoder-panics", "UnmarshalUnsigned panicked on %s: %v", hex.EncodeToString(data), r)
				}
			}()
			q := new(consensus.Payload)
			if err := q.UnmarshalUnsigned(data); err == nil {
				_ = q.Hash()
			}
		}()
	}
	// blocks: the hash binds index, previous hash, timestamp, nonce, transaction list and order; signatures do not matter
	{
		txh := []U{{1}, {2}, {3}}
		mk := func(ts uint64, idx uint32, prev U, nonce uint64, hs []U) dbft.Block[U] {
			b := consensus.NewBlock(ts, idx, prev, nonce, hs)
			txs := make([]dbft.Transaction[U], len(hs))
			for i := range hs {
				t := consensus.Tx64(uint64(i))
				txs[i] = &t
			}
			b.SetTransactions(txs)
			return b
		}
		b0 := mk(5e9, 7, U{4}, 9, txh)
		h0 := b0.Hash()
		for name, b := range map[string]dbft.Block[U]{
			"timestamp": mk(6e9, 7, U{4}, 9, txh), "index": mk(5e9, 8, U{4}, 9, txh), "previous-hash": mk(5e9, 7, U{5}, 9, txh),
			"nonce": mk(5e9, 7, U{4}, 10, txh), "transaction-order": mk(5e9, 7, U{4}, 9, []U{{2}, {1}, {3}}), "transaction-list": mk(5e9, 7, U{4}, 9, []U{{1}, {2}}),
		} {
			checks++
			if b.Hash() == h0 {
				hit("block-hash-ignores-"+name, "block hash unchanged after changing %s", name)
			}
		}
		checks++
		if mk(5e9, 7, U{4}, 9, []U{{1}, {2}, {3}, {3}}).Hash() == h0 {
			hit("merkle-duplicate-last-leaf", "block hash of transactions [a,b,c] equals that of [a,b,c,c]")
		}
		// the same for every size of the transaction list, the empty one (an empty, non-nil list: what CreateBlock sets when the
		// proposal has no transactions) included, with generated field values; the hash is a function of the content: two
		// blocks built from the same values have the same hash
		for k := 0; k <= 6; k++ {
			for rep := 0; rep < 4; rep++ {
				hs := make([]U, k)
				for i := range hs {
					rng.Read(hs[i][:])
				}
				ts, idx, nonce := uint64(1+rng.Intn(1e6))*1e9, uint32(rng.Intn(1<<20)), rng.Uint64()
				var prev U
				rng.Read(prev[:])
				b := mk(ts, idx, prev, nonce, hs)
				h := b.Hash()
				checks++
				if h == (U{}) {
					hit("block-hash-zero", "a complete block with %d transactions has the zero hash", k)
				}
				if mk(ts, idx, prev, nonce, hs).Hash() != h {
					hit("block-hash-not-a-function-of-content", "two blocks built from the same values (%d transactions) have different hashes", k)
				}
				prev2 := prev
				prev2[3] ^= 0x40
				for name, c := range map[string]dbft.Block[U]{
					"timestamp": mk(ts+1e9, idx, prev, nonce, hs), "index": mk(ts, idx+1, prev, nonce, hs),
					"previous-hash": mk(ts, idx, prev2, nonce, hs), "nonce": mk(ts, idx, prev, nonce^(1<<uint(rng.Intn(64))), hs),
				} {
					checks++
					if c.Hash() == h {
						hit("block-hash-ignores-"+name, "block hash unchanged after changing %s (%d transactions)", name, k)
					}
				}
				if k >= 1 {
					hs2 := append([]U{}, hs...)
					hs2[rng.Intn(k)][7] ^= 1
					checks++
					if mk(ts, idx, prev, nonce, hs2).Hash() == h {
						hit("block-hash-ignores-transaction-list", "block hash unchanged after changing one of %d transaction hashes", k)
					}
				}
				if k >= 2 && hs[0] != hs[k-1] {
					hs2 := append([]U{}, hs...)
					hs2[0], hs2[k-1] = hs2[k-1], hs2[0]
					checks++
					if mk(ts, idx, prev, nonce, hs2).Hash() == h {
						hit("block-hash-ignores-transaction-order", "block hash unchanged after swapping two of %d transaction hashes", k)
					}
				}
			}
		}
		priv, pub := crypto.Generate(crand.Reader)
		priv2, pub2 := crypto.Generate(crand.Reader)
		_ = priv2
		checks++
		if err := b0.Sign(priv); err != nil {
			hit("sign-fails", "%v", err)
		} else {
			if b0.Hash() != h0 {
				hit("block-hash-depends-on-signature", "block hash changed after Sign")
			}
			if b0.Verify(pub, b0.Signature()) != nil {
				hit("signature-rejected", "a block signature does not verify under the signer's key")
			}
			if b0.Verify(pub2, b0.Signature()) == nil {
				hit("signature-accepted-under-other-key", "a block signature verifies under another key")
			}
			other := mk(6e9, 7, U{4}, 9, txh)
			if other.Verify(pub, b0.Signature()) == nil {
				hit("signature-accepted-for-other-data", "a block signature verifies for a different block")
			}
			bad := append([]byte{}, b0.Signature()...)
			bad[5] ^= 1
			if b0.Verify(pub, bad) == nil {
				hit("signature-accepted-when-altered", "an altered signature verifies")
			}
		}
	}
	fmt.Fprintf(w, "MONCNT C19 %d\n", checks)
}
