// C19: monitors and correspondence data for the bundled reference implementations (internal/consensus, internal/crypto,
// internal/merkle). Lines:
//   H256 <hex data> <hex digest>            crypto.Hash256 (compared with the Coq SHA-256)
//   MK <n> <hex leaf>*n <hex root>          merkle root (compared with the Coq Merkle model over the Coq SHA-256)
//   MON C19 <signature> | <description>     property monitor hits;  MONCNT C19 <n>  checks evaluated
package main

import (
	"bufio"
	"bytes"
	crand "crypto/rand"
	"encoding/hex"
	"fmt"
	"math/rand"

	"github.com/nspcc-dev/dbft"
	"github.com/nspcc-dev/dbft/internal/consensus"
	"github.com/nspcc-dev/dbft/internal/crypto"
	"github.com/nspcc-dev/dbft/internal/merkle"
)

type U = crypto.Uint256

func refCmd(w *bufio.Writer, seed int64, n int) {
	rng := rand.New(rand.NewSource(seed ^ 0x19))
	checks := 0
	hit := func(sig, f string, a ...any) { fmt.Fprintf(w, "MON C19 %s | %s\n", sig, fmt.Sprintf(f, a...)) }
	rh := func() U {
		var h U
		rng.Read(h[:])
		return h
	}
	// ---- correspondence data
	for i := 0; i < n/4+8; i++ {
		l := rng.Intn(150)
		if i < 8 {
			l = []int{0, 1, 55, 56, 63, 64, 65, 119}[i]
		}
		b := make([]byte, l)
		rng.Read(b)
		d := crypto.Hash256(b)
		fmt.Fprintf(w, "H256 %s- %s\n", hex.EncodeToString(b), hex.EncodeToString(d[:]))
	}
	for i := 0; i < n/4+20; i++ {
		k := 1 + rng.Intn(17)
		if i < 20 {
			k = i + 1
		}
		ls := make([]U, k)
		s := fmt.Sprintf("MK %d", k)
		for j := range ls {
			ls[j] = rh()
			s += " " + hex.EncodeToString(ls[j][:])
		}
		r := merkle.NewMerkleTree(ls...).Root().Hash
		fmt.Fprintf(w, "%s %s\n", s, hex.EncodeToString(r[:]))
		// monitor: any single leaf change / swap of two different leaves changes the root
		checks++
		j := rng.Intn(k)
		m := append([]U{}, ls...)
		m[j] = rh()
		if merkle.NewMerkleTree(m...).Root().Hash == r {
			hit("merkle-leaf-change", "root unchanged after changing leaf %d of %d", j, k)
		}
		if k >= 2 {
			a, b := rng.Intn(k), rng.Intn(k)
			if ls[a] != ls[b] {
				m = append([]U{}, ls...)
				m[a], m[b] = m[b], m[a]
				if merkle.NewMerkleTree(m...).Root().Hash == r {
					hit("merkle-order-change", "root unchanged after swapping leaves %d and %d of %d", a, b, k)
				}
			}
		}
		if k%2 == 1 && k >= 3 { // known finding D11: duplicating the last leaf of an odd list
			m = append(append([]U{}, ls...), ls[k-1])
			if merkle.NewMerkleTree(m...).Root().Hash == r {
				hit("merkle-duplicate-last-leaf", "root of %d leaves equals the root of the %d leaves with the last one repeated", k, k+1)
			}
		}
	}
	// ---- payloads of every kind
	mkBody := func(t dbft.MessageType, variant int) any {
		switch t {
		case dbft.ChangeViewType:
			return consensus.NewChangeView(byte(1+variant), dbft.CVTimeout, uint64(1_000_000_000*(7+variant)))
		case dbft.PrepareRequestType:
			hs := []U{{1}, {2}, {3}}
			if variant == 1 {
				hs = []U{{2}, {1}, {3}}
			}
			if variant == 2 {
				hs = []U{{1}, {2}}
			}
			ts, nonce := uint64(5_000_000_000), uint64(77)
			if variant == 3 {
				ts += 1_000_000_000
			}
			if variant == 4 {
				nonce++
			}
			return consensus.NewPrepareRequest(ts, nonce, hs)
		case dbft.PrepareResponseType:
			return consensus.NewPrepareResponse(U{byte(9 + variant)})
		case dbft.CommitType:
			s := make([]byte, 64)
			s[3] = byte(1 + variant)
			return consensus.NewCommit(s)
		case dbft.PreCommitType:
			return consensus.NewPreCommit([]byte{0, 0, 1, byte(variant)})
		case dbft.RecoveryRequestType:
			return consensus.NewRecoveryRequest(uint64(1_000_000_000 * (3 + variant)))
		}
		return nil
	}
	kinds := []dbft.MessageType{dbft.ChangeViewType, dbft.PrepareRequestType, dbft.PrepareResponseType, dbft.CommitType, dbft.PreCommitType, dbft.RecoveryRequestType}
	nvar := map[dbft.MessageType]int{dbft.ChangeViewType: 2, dbft.PrepareRequestType: 5, dbft.PrepareResponseType: 2, dbft.CommitType: 2, dbft.PreCommitType: 2, dbft.RecoveryRequestType: 2}
	roundTrip := func(p dbft.ConsensusPayload[U]) (dbft.ConsensusPayload[U], error) {
		data := p.(*consensus.Payload).MarshalUnsigned()
		q := new(consensus.Payload)
		err := q.UnmarshalUnsigned(data)
		return q, err
	}
	for _, t := range kinds {
		base := consensus.NewConsensusPayload(t, 10, 2, 1, mkBody(t, 0))
		h0 := base.Hash()
		checks++
		if consensus.NewConsensusPayload(t, 10, 2, 1, mkBody(t, 0)).Hash() != h0 {
			hit("hash-not-a-function-of-content", "two equal payloads of type %v have different hashes", t)
		}
		muts := map[string]dbft.ConsensusPayload[U]{
			"height":          consensus.NewConsensusPayload(t, 11, 2, 1, mkBody(t, 0)),
			"validator-index": consensus.NewConsensusPayload(t, 10, 3, 1, mkBody(t, 0)),
			"view":            consensus.NewConsensusPayload(t, 10, 2, 2, mkBody(t, 0)),
		}
		if t != dbft.ChangeViewType { // (a ChangeView's new view number is derived from the view: covered by "view")
			for v := 1; v < nvar[t]; v++ {
				muts[fmt.Sprintf("body-%d", v)] = consensus.NewConsensusPayload(t, 10, 2, 1, mkBody(t, v))
			}
		}
		for name, m := range muts {
			checks++
			if m.Hash() == h0 {
				hit("hash-ignores-"+name, "payload type %v: hash unchanged after changing %s", t, name)
			}
		}
		for _, t2 := range kinds {
			if t2 != t {
				checks++
				// same header fields, other type (and its body)
				if consensus.NewConsensusPayload(t2, 10, 2, 1, mkBody(t2, 0)).Hash() == h0 {
					hit("hash-ignores-type", "payload types %v and %v hash alike", t, t2)
				}
			}
		}
		// the same object, index changed after a first Hash(): the hash must follow the content
		checks++
		same := consensus.NewConsensusPayload(t, 10, 2, 1, mkBody(t, 0))
		_ = same.Hash()
		same.SetValidatorIndex(3)
		if same.Hash() != muts["validator-index"].Hash() {
			hit("hash-stale-after-set-validator-index", "payload type %v: Hash() after SetValidatorIndex differs from the hash of an equal fresh payload", t)
		}
		// codec
		checks++
		q, err := roundTrip(base)
		if err != nil {
			hit("decode-rejects-own-encoding", "payload type %v: %v", t, err)
		} else {
			if q.Hash() != h0 || q.Type() != t || q.Height() != 10 || q.ValidatorIndex() != 2 || q.ViewNumber() != 1 {
				hit("roundtrip-differs", "payload type %v: decode(encode(p)) differs from p", t)
			}
			if !bytes.Equal(q.(*consensus.Payload).MarshalUnsigned(), base.(*consensus.Payload).MarshalUnsigned()) {
				hit("roundtrip-differs", "payload type %v: re-encoding differs", t)
			}
			// decoding into a used object
			checks++
			other := consensus.NewConsensusPayload(t, 99, 7, 3, mkBody(t, 0)).(*consensus.Payload)
			_ = other.Hash()
			if err := other.UnmarshalUnsigned(base.(*consensus.Payload).MarshalUnsigned()); err == nil && other.Hash() != h0 {
				hit("hash-stale-after-decode", "payload type %v: hash of a reused decode target is not the hash of the decoded content", t)
			}
		}
	}
	// recovery message: packed payloads survive the codec, a rebuilt proposal has the original's hash
	{
		checks++
		req := consensus.NewConsensusPayload(dbft.PrepareRequestType, 10, 1, 0, mkBody(dbft.PrepareRequestType, 0))
		rm := consensus.NewRecoveryMessage(nil)
		rm.AddPayload(req)
		rm.AddPayload(consensus.NewConsensusPayload(dbft.PrepareResponseType, 10, 2, 0, consensus.NewPrepareResponse(req.Hash())))
		rm.AddPayload(consensus.NewConsensusPayload(dbft.CommitType, 10, 2, 0, mkBody(dbft.CommitType, 0)))
		rm.AddPayload(consensus.NewConsensusPayload(dbft.PreCommitType, 10, 3, 0, mkBody(dbft.PreCommitType, 0)))
		rm.AddPayload(consensus.NewConsensusPayload(dbft.ChangeViewType, 10, 3, 0, mkBody(dbft.ChangeViewType, 0)))
		rp := consensus.NewConsensusPayload(dbft.RecoveryMessageType, 10, 0, 0, rm)
		q, err := roundTrip(rp)
		if err != nil {
			hit("decode-rejects-own-encoding", "recovery message: %v", err)
		} else {
			r2 := q.GetRecoveryMessage()
			rebuilt := r2.GetPrepareRequest(q, nil, 1)
			if rebuilt == nil || rebuilt.Hash() != req.Hash() {
				hit("rebuilt-request-hash", "the PrepareRequest rebuilt from a decoded recovery message does not have the original's hash")
			}
			for _, resp := range r2.GetPrepareResponses(q, nil) {
				if resp.GetPrepareResponse().PreparationHash() != req.Hash() {
					hit("rebuilt-response-hash", "a rebuilt PrepareResponse does not name the original proposal")
				}
			}
			if len(r2.GetCommits(q, nil)) == 1 && len(r2.GetPreCommits(q, nil)) == 1 && len(r2.GetChangeViews(q, nil)) == 1 && len(r2.GetPrepareResponses(q, nil)) == 0 && r2.PreparationHash() == nil {
				// known finding D19: the decoder does not restore preparationHash when the request itself is packed
				hit("recovery-codec-loses-responses-packed-with-request", "decode(encode(recovery message holding the PrepareRequest and a PrepareResponse)) yields no PrepareResponse: PreparationHash is nil after decoding")
			} else if len(r2.GetCommits(q, nil)) != 1 || len(r2.GetPreCommits(q, nil)) != 1 || len(r2.GetChangeViews(q, nil)) != 1 || len(r2.GetPrepareResponses(q, nil)) != 1 {
				hit("recovery-codec-drops-payloads", "decode(encode(recovery message)) carries %d commits %d pre-commits %d change views %d responses, 1 each expected",
					len(r2.GetCommits(q, nil)), len(r2.GetPreCommits(q, nil)), len(r2.GetChangeViews(q, nil)), len(r2.GetPrepareResponses(q, nil)))
			}
		}
	}
	{
		checks++
		ph := U{42}
		rm := consensus.NewRecoveryMessage(&ph)
		rm.AddPayload(consensus.NewConsensusPayload(dbft.PrepareResponseType, 10, 2, 0, consensus.NewPrepareResponse(ph)))
		rm.AddPayload(consensus.NewConsensusPayload(dbft.PrepareResponseType, 10, 3, 0, consensus.NewPrepareResponse(ph)))
		q, err := roundTrip(consensus.NewConsensusPayload(dbft.RecoveryMessageType, 10, 0, 0, rm))
		if err != nil {
			hit("decode-rejects-own-encoding", "recovery message without request: %v", err)
		} else if rs := q.GetRecoveryMessage().GetPrepareResponses(q, nil); len(rs) != 2 || rs[0].GetPrepareResponse().PreparationHash() != ph || rs[1].ValidatorIndex() != 3 {
			hit("recovery-codec-drops-payloads", "decode(encode(recovery message with two responses)) yields %d responses", len(rs))
		}
	}
	// decoders fail cleanly on arbitrary bytes
	good := consensus.NewConsensusPayload(dbft.PrepareRequestType, 10, 1, 0, mkBody(dbft.PrepareRequestType, 0)).(*consensus.Payload).MarshalUnsigned()
	for i := 0; i < n; i++ {
		checks++
		var data []byte
		if i%2 == 0 {
			data = make([]byte, rng.Intn(200))
			rng.Read(data)
		} else {
			data = append([]byte{}, good...)
			for k := 0; k < 1+rng.Intn(4); k++ {
				data[rng.Intn(len(data))] ^= byte(1 + rng.Intn(255))
			}
			if rng.Intn(4) == 0 {
				data = data[:rng.Intn(len(data))]
			}
		}
		func() {
			defer func() {
				if r := recover(); r != nil {
					hit("decoder-panics", "UnmarshalUnsigned panicked on %s: %v", hex.EncodeToString(data), r)
				}
			}()
			q := new(consensus.Payload)
			if err := q.UnmarshalUnsigned(data); err == nil {
				_ = q.Hash()
			}
		}()
	}
	// blocks: the hash binds index, previous hash, timestamp, nonce, transaction list and order; signatures do not matter
	{
		txh := []U{{1}, {2}, {3}}
		mk := func(ts uint64, idx uint32, prev U, nonce uint64, hs []U) dbft.Block[U] {
			b := consensus.NewBlock(ts, idx, prev, nonce, hs)
			txs := make([]dbft.Transaction[U], len(hs))
			for i := range hs {
				t := consensus.Tx64(uint64(i))
				txs[i] = &t
			}
			b.SetTransactions(txs)
			return b
		}
		b0 := mk(5e9, 7, U{4}, 9, txh)
		h0 := b0.Hash()
		for name, b := range map[string]dbft.Block[U]{
			"timestamp": mk(6e9, 7, U{4}, 9, txh), "index": mk(5e9, 8, U{4}, 9, txh), "previous-hash": mk(5e9, 7, U{5}, 9, txh),
			"nonce": mk(5e9, 7, U{4}, 10, txh), "transaction-order": mk(5e9, 7, U{4}, 9, []U{{2}, {1}, {3}}), "transaction-list": mk(5e9, 7, U{4}, 9, []U{{1}, {2}}),
		} {
			checks++
			if b.Hash() == h0 {
				hit("block-hash-ignores-"+name, "block hash unchanged after changing %s", name)
			}
		}
		checks++
		if mk(5e9, 7, U{4}, 9, []U{{1}, {2}, {3}, {3}}).Hash() == h0 {
			hit("merkle-duplicate-last-leaf", "block hash of transactions [a,b,c] equals that of [a,b,c,c]")
		}
		// the same for every size of the transaction list, the empty one (an empty, non-nil list: what CreateBlock sets when the
		// proposal has no transactions) included, with generated field values; the hash is a function of the content: two
		// blocks built from the same values have the same hash
		for k := 0; k <= 6; k++ {
			for rep := 0; rep < 4; rep++ {
				hs := make([]U, k)
				for i := range hs {
					rng.Read(hs[i][:])
				}
				ts, idx, nonce := uint64(1+rng.Intn(1e6))*1e9, uint32(rng.Intn(1<<20)), rng.Uint64()
				var prev U
				rng.Read(prev[:])
				b := mk(ts, idx, prev, nonce, hs)
				h := b.Hash()
				checks++
				if h == (U{}) {
					hit("block-hash-zero", "a complete block with %d transactions has the zero hash", k)
				}
				if mk(ts, idx, prev, nonce, hs).Hash() != h {
					hit("block-hash-not-a-function-of-content", "two blocks built from the same values (%d transactions) have different hashes", k)
				}
				prev2 := prev
				prev2[3] ^= 0x40
				for name, c := range map[string]dbft.Block[U]{
					"timestamp": mk(ts+1e9, idx, prev, nonce, hs), "index": mk(ts, idx+1, prev, nonce, hs),
					"previous-hash": mk(ts, idx, prev2, nonce, hs), "nonce": mk(ts, idx, prev, nonce^(1<<uint(rng.Intn(64))), hs),
				} {
					checks++
					if c.Hash() == h {
						hit("block-hash-ignores-"+name, "block hash unchanged after changing %s (%d transactions)", name, k)
					}
				}
				if k >= 1 {
					hs2 := append([]U{}, hs...)
					hs2[rng.Intn(k)][7] ^= 1
					checks++
					if mk(ts, idx, prev, nonce, hs2).Hash() == h {
						hit("block-hash-ignores-transaction-list", "block hash unchanged after changing one of %d transaction hashes", k)
					}
				}
				if k >= 2 && hs[0] != hs[k-1] {
					hs2 := append([]U{}, hs...)
					hs2[0], hs2[k-1] = hs2[k-1], hs2[0]
					checks++
					if mk(ts, idx, prev, nonce, hs2).Hash() == h {
						hit("block-hash-ignores-transaction-order", "block hash unchanged after swapping two of %d transaction hashes", k)
					}
				}
			}
		}
		priv, pub := crypto.Generate(crand.Reader)
		priv2, pub2 := crypto.Generate(crand.Reader)
		_ = priv2
		checks++
		if err := b0.Sign(priv); err != nil {
			hit("sign-fails", "%v", err)
		} else {
			if b0.Hash() != h0 {
				hit("block-hash-depends-on-signature", "block hash changed after Sign")
			}
			if b0.Verify(pub, b0.Signature()) != nil {
				hit("signature-rejected", "a block signature does not verify under the signer's key")
			}
			if b0.Verify(pub2, b0.Signature()) == nil {
				hit("signature-accepted-under-other-key", "a block signature verifies under another key")
			}
			other := mk(6e9, 7, U{4}, 9, txh)
			if other.Verify(pub, b0.Signature()) == nil {
				hit("signature-accepted-for-other-data", "a block signature verifies for a different block")
			}
			bad := append([]byte{}, b0.Signature()...)
			bad[5] ^= 1
			if b0.Verify(pub, bad) == nil {
				hit("signature-accepted-when-altered", "an altered signature verifies")
			}
		}
	}
	fmt.Fprintf(w, "MONCNT C19 %d\n", checks)
}
