// Auxiliary correspondence commands for the small hand-written models (C06 quorum, C18 timer, C19 reference code).
package main

import (
	"bufio"
	"fmt"
	"io"
	"math/rand"
	"time"

	"github.com/nspcc-dev/dbft/timer"
)

func auxMain(w *bufio.Writer, cmd string, a []string) bool {
	switch cmd {
	case "quorum":
		quorumCmd(w, atoi64(a[0]), a[1])
	case "timer":
		timerCmd(w, atoi64(a[0]), atoi(a[1]))
	case "ref":
		refCmd(w, atoi64(a[0]), atoi(a[1]))
	default:
		return false
	}
	return true
}

// quorumCmd builds real contexts through Start with N validators on a ledger of height h-1 and prints what the
// library itself computes: "Q <N> <BlockIndex> <F> <M> <primary(view 0)> ... <primary(view 255)>".
func quorumCmd(w *bufio.Writer, seed int64, tier string) {
	rng := rand.New(rand.NewSource(seed))
	var ns []int
	limit := 256
	if tier == "thorough" {
		limit = 4096
	}
	for n := 1; n <= limit; n++ {
		ns = append(ns, n)
	}
	extra := 60
	if tier == "thorough" {
		extra = 3000
	}
	for i := 0; i < extra; i++ {
		ns = append(ns, 1+rng.Intn(65535))
	}
	ns = append(ns, 65535, 65534, 32768)
	sink := bufio.NewWriter(io.Discard)
	for _, N := range ns {
		hs := []uint32{0, 1, 2, uint32(N - 1), uint32(N), uint32(N + 1), 1<<31 - 2, 1<<31 - 1, 1 << 31, 1<<32 - 3, 1<<32 - 2, 1<<32 - 1, rng.Uint32(), rng.Uint32()}
		if N > 600 && tier != "thorough" {
			hs = []uint32{0, 1<<32 - 1, rng.Uint32()}
		}
		n := newNode(0, mkVals(N), -1, sink)
		n.muted = 1 // nothing is recorded: only the library's own arithmetic is read
		for _, h := range hs {
			n.height = h - 1 // CurrentHeight(); BlockIndex = CurrentHeight()+1 (uint32 arithmetic)
			if !n.started {
				n.d.Start(0)
				n.started = true
			} else {
				n.d.Reset(0)
			}
			d := n.d
			fmt.Fprintf(w, "Q %d %d %d %d %d", d.N(), d.BlockIndex, d.F(), d.M(), d.PrimaryIndex)
			for v := 0; v < 256; v++ {
				fmt.Fprintf(w, " %d", d.GetPrimaryIndex(byte(v)))
			}
			fmt.Fprintln(w)
		}
	}
}

// timerCmd drives the real timer.Timer through seeded Reset/Extend/sleep/read sequences (n sequences, 16 at a time) and
// prints, per operation, the monotonic time just before it (ns since the start of the sequence) and what a non-blocking
// receive on C() returned. The extracted Coq timer model replays the same sequence (driver --timer).
func timerCmd(w *bufio.Writer, seed int64, n int) {
	type res struct{ lines []string }
	out := make([]res, n)
	sem := make(chan struct{}, 16)
	done := make(chan int, n)
	for i := 0; i < n; i++ {
		go func(i int) {
			sem <- struct{}{}
			defer func() { <-sem; done <- i }()
			rng := rand.New(rand.NewSource(runSeed(seed^0x7157, i)))
			t := timer.New()
			start := time.Now()
			at := func() int64 { return int64(time.Since(start)) }
			var ls []string
			ms := func(k int) time.Duration { return time.Duration(k) * time.Millisecond }
			read := func() {
				a0 := at()
				select {
				case <-t.C():
					ls = append(ls, fmt.Sprintf("READ %d %d 1 %d %d", a0, at(), t.Height(), t.View()))
				default:
					ls = append(ls, fmt.Sprintf("READ %d %d 0 %d %d", a0, at(), t.Height(), t.View()))
				}
			}
			reset := func(d time.Duration) {
				h, v := uint32(rng.Intn(5)), byte(rng.Intn(3))
				a0 := at()
				t.Reset(h, v, d)
				ls = append(ls, fmt.Sprintf("RESET %d %d %d %d %d", a0, at(), h, v, int64(d)))
			}
			extend := func(d time.Duration) {
				a0 := at()
				t.Extend(d)
				ls = append(ls, fmt.Sprintf("EXTEND %d %d %d", a0, at(), int64(d)))
			}
			sleep := func(d time.Duration) { time.Sleep(d); ls = append(ls, fmt.Sprintf("SLEEP %d", int64(d))) }
			switch rng.Intn(4) {
			case 0: // expired and unread, then extended in two steps whose partial sums straddle the elapsed time
				d := ms(5 + rng.Intn(20))
				reset(d)
				sleep(d + ms(40+rng.Intn(40)))
				el := time.Since(start)
				e := el - d - ms(10)
				if e < ms(1) {
					e = ms(1)
				}
				extend(e)
				read2 := rng.Intn(2) == 0
				if rng.Intn(2) == 0 { // the extended deadline stays in the past: the overdue expiry must still be delivered
					read()
					sleep(ms(20))
					read()
				}
				extend(ms(30 + rng.Intn(30)))
				read()
				if read2 {
					sleep(ms(10))
					read()
				}
				sleep(ms(150))
				read()
			case 1: // a zero-duration reset after a timer that has already expired (its expiry read or left unread), then reads
				d := ms(5 + rng.Intn(20))
				reset(d)
				sleep(d + ms(30+rng.Intn(40)))
				if rng.Intn(2) == 0 {
					read()
				}
				reset(0)
				if rng.Intn(2) == 0 {
					read()
				}
				sleep(ms(20 + rng.Intn(30)))
				read()
				if rng.Intn(2) == 0 {
					reset(0)
					sleep(ms(20))
					read()
				}
				sleep(ms(130))
				read()
			default:
				for k := 0; k < 8+rng.Intn(8); k++ {
					switch rng.Intn(5) {
					case 0:
						reset([]time.Duration{0, ms(5), ms(15), ms(30), ms(60)}[rng.Intn(5)])
					case 1:
						extend([]time.Duration{0, ms(5), ms(20), ms(45)}[rng.Intn(4)])
					case 2:
						sleep(ms(1 + rng.Intn(35)))
					default:
						read()
					}
				}
				sleep(ms(130))
				read()
				read()
			}
			out[i] = res{ls}
		}(i)
	}
	for i := 0; i < n; i++ {
		<-done
	}
	for i, r := range out {
		fmt.Fprintf(w, "SEQ %d\n", i)
		for _, l := range r.lines {
			fmt.Fprintln(w, l)
		}
	}
}
