package main

import "bufio"

func auxMain(w *bufio.Writer, cmd string, a []string) bool { return false }
