// Auxiliary correspondence commands for the small hand-written models (C06 quorum, C18 timer, C19 reference code).
package main

import (
	"bufio"
	"fmt"
	"io"
	"math/rand"
)

func auxMain(w *bufio.Writer, cmd string, a []string) bool {
	switch cmd {
	case "quorum":
		quorumCmd(w, atoi64(a[0]), a[1])
	case "timer":
		timerCmd(w, atoi64(a[0]), atoi(a[1]))
	case "ref":
		refCmd(w, atoi64(a[0]), atoi(a[1]))
	default:
		return false
	}
	return true
}

// quorumCmd builds real contexts through Start with N validators on a ledger of height h-1 and prints what the
// library itself computes: "Q <N> <BlockIndex> <F> <M> <primary(view 0)> ... <primary(view 255)>".
func quorumCmd(w *bufio.Writer, seed int64, tier string) {
	rng := rand.New(rand.NewSource(seed))
	var ns []int
	limit := 256
	if tier == "thorough" {
		limit = 4096
	}
	for n := 1; n <= limit; n++ {
		ns = append(ns, n)
	}
	extra := 60
	if tier == "thorough" {
		extra = 3000
	}
	for i := 0; i < extra; i++ {
		ns = append(ns, 1+rng.Intn(65535))
	}
	ns = append(ns, 65535, 65534, 32768)
	sink := bufio.NewWriter(io.Discard)
	for _, N := range ns {
		hs := []uint32{0, 1, 2, uint32(N - 1), uint32(N), uint32(N + 1), 1<<31 - 2, 1<<31 - 1, 1 << 31, 1<<32 - 3, 1<<32 - 2, 1<<32 - 1, rng.Uint32(), rng.Uint32()}
		if N > 600 && tier != "thorough" {
			hs = []uint32{0, 1<<32 - 1, rng.Uint32()}
		}
		n := newNode(0, mkVals(N), -1, sink)
		n.muted = 1 // nothing is recorded: only the library's own arithmetic is read
		for _, h := range hs {
			n.height = h - 1 // CurrentHeight(); BlockIndex = CurrentHeight()+1 (uint32 arithmetic)
			if !n.started {
				n.d.Start(0)
				n.started = true
			} else {
				n.d.Reset(0)
			}
			d := n.d
			fmt.Fprintf(w, "Q %d %d %d %d %d", d.N(), d.BlockIndex, d.F(), d.M(), d.PrimaryIndex)
			for v := 0; v < 256; v++ {
				fmt.Fprintf(w, " %d", d.GetPrimaryIndex(byte(v)))
			}
			fmt.Fprintln(w)
		}
	}
}

func timerCmd(w *bufio.Writer, seed int64, n int) {}
func refCmd(w *bufio.Writer, seed int64, n int)   {}
