// G1/G2 generators: random multi-node system runs under virtual time with loss, duplication, reordering,
// timeouts, Byzantine actors speaking under their own identities, application oracles that reject / fail /
// withhold, validator rotation, watch-only nodes, dynamic block time, skipped heights; plus probe inputs
// (inadmissible and duplicate payloads, stale timeouts, unrequested transactions) injected into sampled states.
// Every random choice of run r derives from runSeed(seed, r), so any run replays alone.
package main

import (
	"os"
	"bufio"
	"fmt"
	"io"
	"math/rand"
	"sort"
	"strings"

	"github.com/nspcc-dev/dbft"
)

func runSeed(seed int64, run int) int64 {
	x := uint64(seed)*0x9E3779B97F4A7C15 + uint64(run)*0xBF58476D1CE4E5B9 + 0x94D049BB133111EB
	x ^= x >> 30
	x *= 0xBF58476D1CE4E5B9
	x ^= x >> 27
	x *= 0x94D049BB133111EB
	x ^= x >> 31
	return int64(x >> 1)
}

type pend struct {
	to int
	p  *Payload
}

func genRuns(w *bufio.Writer, seed int64, from, to int, stats map[string]int) {
	for run := from; run < to; run++ {
		genRun(w, rand.New(rand.NewSource(runSeed(seed, run))), run, stats)
	}
}

func genRun(w *bufio.Writer, rng *rand.Rand, run int, stats map[string]int) { genRunAt(w, rng, run, stats, 0, nil) }

// genRunAt: the same run with the virtual clock origin moved by shift ns; obs (if not nil) collects the C14 observables.
func genRunAt(w *bufio.Writer, rng *rand.Rand, run int, stats map[string]int, shift int64, obs *[]string) {
	N := 1 + rng.Intn(7)
	if rng.Intn(12) == 0 {
		N = 8 + rng.Intn(5)
	}
	amev := int64(-1)
	switch rng.Intn(4) {
	case 0:
		amev = int64(rng.Intn(3)) + 3 // switches on during the run (start height is 2)
	case 1:
		amev = 0
	}
	dyn := rng.Intn(3) == 0
	rot := rng.Intn(3) == 0
	resize := !rot && N >= 3 && rng.Intn(4) == 0 // the validator list shrinks and grows between heights
	flaky := rng.Intn(2) == 0
	F := (N - 1) / 3
	nbyz := 0
	if F > 0 {
		nbyz = rng.Intn(F + 1)
	}
	woNode := -1
	if rng.Intn(4) == 0 {
		woNode = rng.Intn(N)
	}
	outsider := rng.Intn(6) == 0 // one extra node whose key is not in the validator list
	inc := []uint64{1000000, 1000000, 1000, 1, 7, 1000000000}[rng.Intn(6)]
	tpb := []int64{1e9, 1e9, 15e9, 200e6}[rng.Intn(4)]
	startHeight := uint32(2)
	if rng.Intn(8) == 0 {
		startHeight = 0 // first block after genesis
	}
	fmt.Fprintf(w, "RUN %d N %d CFG %d %d %d\n", run, N, inc, amev, b2i(dyn))
	stats["increment-of-this-run"] = int(inc)
	stats[fmt.Sprintf("N=%d", N)]++
	stats[fmt.Sprintf("amev=%v", amev >= 0)]++
	stats[fmt.Sprintf("dyn=%v", dyn)]++
	stats[fmt.Sprintf("resize=%v", resize)]++
	stats[fmt.Sprintf("byz=%d", nbyz)]++
	base := mkVals(N)
	mon := newMonitor(run)
	total := N
	if outsider {
		total++
	}
	nodes := make([]*node, total)
	for len(mon.byz) < nbyz {
		mon.byz[rng.Intn(N)] = true
	}
	byz := mon.byz
	for i := range nodes {
		s := rng.Int63()
		i := i
		nodes[i] = newNode(i, append([]dbft.PublicKey{}, base...), amev, w, func(n *node) {
			n.dyn, n.rot, n.flaky, n.base = dyn, rot, flaky, base
			n.resize = resize
			n.rng = rand.New(rand.NewSource(s))
			n.wantTx = map[uint64]bool{}
			n.wo = i == woNode
			n.mon = mon
			n.tr = newTracker()
			n.inc = inc
			n.tpb = timeDur(tpb)
			n.maxTpb = timeDur(tpb * []int64{4, 5, 6, 8, 12, 16}[rng.Intn(6)] / 4) // maximum block time from 1x to 4x the block time
			n.epoch += shift
			n.s14 = obs
		})
		nodes[i].height = startHeight
	}
	live := func(i int) bool { return !byz[i] }
	var lives []*node
	for _, n := range nodes {
		if live(n.id) {
			lives = append(lives, n)
			n.start(0)
		}
	}
	var pending, delivered []pend
	var seen []*Payload
	collect := func() {
		for _, n := range nodes {
			for _, p := range n.out {
				seen = append(seen, p)
				for j := range nodes {
					if j != n.id && live(j) && rng.Intn(20) != 0 {
						pending = append(pending, pend{j, p})
					}
				}
			}
			n.out = nil
		}
	}
	// the application calls Reset after a decision - at once, or (a slow ledger) some events later: until then the decided
	// node keeps receiving payloads, timeouts, transactions and new-transaction notifications (C05 quiescence)
	deferred := map[int]bool{}
	doReset := func(n *node) {
		delete(deferred, n.id)
		n.op(fmt.Sprintf("R %d", n.lastTS), func() { n.d.Reset(n.lastTS) })
	}
	after := func(n *node, before uint32) {
		if n.height != before {
			if rng.Intn(25) == 0 {
				n.height += uint32(1 + rng.Intn(2)) // ledger synchronised by other means: heights skipped
				n.tip = toks(8, n.height)
				stats["skipped-heights"]++
			}
			if rng.Intn(3) == 0 {
				deferred[n.id] = true
				stats["deferred-resets"]++
				return
			}
			doReset(n)
		}
	}
	lateResets := func() {
		for _, n := range nodes {
			if deferred[n.id] && rng.Intn(6) == 0 {
				doReset(n)
			}
		}
	}
	randHash := func() H {
		if len(seen) > 0 && rng.Intn(2) == 0 {
			return seen[rng.Intn(len(seen))].Hash()
		}
		return toks(rng.Intn(5), rng.Intn(5))
	}
	idxOf := func(b int, h uint32) uint16 {
		if rot { // index of key b+100 at that height
			k := int(h) % N
			return uint16(((b-k)%N + N) % N)
		}
		return uint16(b)
	}
	byzPayload := func(b int) *Payload {
		ref := lives[rng.Intn(len(lives))]
		h := uint32(int(ref.height) + rng.Intn(3))
		v := byte(rng.Intn(3))
		if rng.Intn(3) == 0 {
			v = ref.d.ViewNumber
		}
		idx := idxOf(b, h)
		switch rng.Intn(7) {
		case 0:
			return &Payload{dbft.CommitType, h, v, idx, commit{sigv{b + 100, randHash()}}}
		case 1:
			return &Payload{dbft.PreCommitType, h, v, idx, preCommit{sigv{b + 100, randHash()}}}
		case 2:
			return &Payload{dbft.PrepareResponseType, h, v, idx, prepResp{randHash()}}
		case 3:
			return &Payload{dbft.ChangeViewType, h, v, idx, chView{byte(1 + rng.Intn(3)), 0, uint64(ref.epoch + int64(rng.Intn(1000)))}}
		case 4:
			return &Payload{dbft.PrepareRequestType, h, v, idx, prepReq{uint64(ref.epoch + rng.Int63n(9e9)), uint64(rng.Intn(99)), []H{Tx(uint64(h)*10 + 1).Hash()}}}
		case 5:
			return &Payload{dbft.RecoveryRequestType, h, v, idx, recReq{uint64(ref.epoch + int64(rng.Intn(1000)))}}
		default:
			rm := &recMsg{}
			for k := 0; k < rng.Intn(6) && len(seen) > 0; k++ {
				p := seen[rng.Intn(len(seen))]
				if p.T != dbft.RecoveryMessageType {
					c := *p
					rm.ps = append(rm.ps, &c)
				}
			}
			return &Payload{dbft.RecoveryMessageType, h, v, idx, rm}
		}
	}
	// G2 probe: one inadmissible / duplicate input for node n in its current state
	probe := func(n *node) {
		d := n.d
		h, v := d.BlockIndex, d.ViewNumber
		nv := len(d.Validators)
		pi := uint16(d.GetPrimaryIndex(v))
		other := uint16(rng.Intn(nv))
		var p *Payload
		kind := rng.Intn(11)
		stats[fmt.Sprintf("probe-%d", kind)]++
		switch kind {
		case 0: // index outside the list
			p = byzPayload(0)
			p.Hgt, p.Idx = h, uint16(nv+rng.Intn(3))
		case 1: // past height
			p = byzPayload(0)
			if h == 0 {
				return
			}
			p.Hgt = h - 1 - uint32(rng.Intn(int(min(h, 2))))
			p.Idx = other
		case 2: // current-view proposal from a non-primary
			if nv < 2 {
				return
			}
			for other == pi {
				other = uint16(rng.Intn(nv))
			}
			p = &Payload{dbft.PrepareRequestType, h, v, other, prepReq{uint64(n.epoch + rng.Int63n(1e12)), 1, []H{Tx(5).Hash()}}}
		case 3: // proposal / response for a lower view
			if v == 0 {
				return
			}
			if rng.Intn(2) == 0 {
				p = &Payload{dbft.PrepareRequestType, h, v - 1, uint16(d.GetPrimaryIndex(v - 1)), prepReq{uint64(n.epoch + rng.Int63n(1e12)), 1, nil}}
			} else {
				p = &Payload{dbft.PrepareResponseType, h, v - 1, other, prepResp{randHash()}}
			}
		case 4: // response from the primary
			p = &Payload{dbft.PrepareResponseType, h, v, pi, prepResp{randHash()}}
		case 5: // pre-commit while anti-MEV is off (admissible otherwise: forging an identity is outside the model)
			if amevOn(n, h) {
				return
			}
			p = &Payload{dbft.PreCommitType, h, v, other, preCommit{sigv{int(other) + 100, randHash()}}}
		case 6: // unrequested transaction
			before := n.height
			x := uint64(900000 + rng.Intn(1000))
			n.op(fmt.Sprintf("X %d", x), func() { n.d.OnTransaction(Tx(x)) })
			after(n, before)
			return
		case 7: // timeout for another height or view
			hh, vv := h, v
			if rng.Intn(2) == 0 {
				hh += uint32(1 + rng.Intn(2))
			} else {
				vv += byte(1 + rng.Intn(2))
			}
			n.op(fmt.Sprintf("T %d %d", hh, vv), func() { n.d.OnTimeout(hh, vv) })
			return
		default: // re-delivery of a stored payload
			tbls := [][]dbft.ConsensusPayload[H]{d.PreparationPayloads, d.CommitPayloads, d.PreCommitPayloads, d.ChangeViewPayloads}
			var cands []*Payload
			for _, t := range tbls {
				for _, q := range t {
					if q != nil {
						cands = append(cands, q.(*Payload))
					}
				}
			}
			if len(cands) == 0 {
				return
			}
			p = cands[rng.Intn(len(cands))]
		}
		before := n.height
		n.recv(p)
		after(n, before)
	}
	collect()
	steps := 70*N + 120
	for step := 0; step < steps; step++ {
		r := rng.Intn(100)
		switch {
		case len(pending) > 0 && r < 66:
			i := rng.Intn(len(pending))
			pd := pending[i]
			pending = append(pending[:i], pending[i+1:]...)
			if rng.Intn(6) == 0 {
				delivered = append(delivered, pd)
			}
			n := nodes[pd.to]
			before := n.height
			n.recv(pd.p)
			after(n, before)
		case len(delivered) > 0 && r < 72:
			pd := delivered[rng.Intn(len(delivered))]
			n := nodes[pd.to]
			before := n.height
			n.recv(pd.p)
			after(n, before)
		case nbyz > 0 && r < 80:
			var bs []int
			for b := range byz {
				bs = append(bs, b)
			}
			sort.Ints(bs)
			b := bs[rng.Intn(len(bs))]
			p := byzPayload(b)
			n := lives[rng.Intn(len(lives))]
			before := n.height
			n.recv(p)
			after(n, before)
			if rng.Intn(3) == 0 {
				seen = append(seen, p)
			}
		case r < 84:
			probe(lives[rng.Intn(len(lives))])
		case r < 90:
			// supply a transaction some live node asked for
			var cand []*node
			for _, n := range lives {
				if len(n.wantTx) > 0 {
					cand = append(cand, n)
				}
			}
			if len(cand) == 0 {
				continue
			}
			n := cand[rng.Intn(len(cand))]
			var ids []uint64
			for x := range n.wantTx {
				ids = append(ids, x)
			}
			sort.Slice(ids, func(a, b int) bool { return ids[a] < ids[b] })
			x := ids[rng.Intn(len(ids))]
			delete(n.wantTx, x)
			before := n.height
			n.op(fmt.Sprintf("X %d", x), func() { n.d.OnTransaction(Tx(x)) })
			after(n, before)
		case r == 99 && rng.Intn(2) == 0:
			// the ledger is synchronised by other means while the node is still working on the height (no block was accepted
			// through the library): the application re-initialises the node for the new height
			n := lives[rng.Intn(len(lives))]
			if deferred[n.id] {
				continue
			}
			n.height += uint32(1 + rng.Intn(2))
			n.tip = toks(8, n.height)
			stats["external-blocks"]++
			doReset(n)
		case dyn && r < 93:
			n := lives[rng.Intn(len(lives))]
			for _, m := range lives { // half of the time a node that has decided and was not reset yet, when there is one
				if deferred[m.id] && rng.Intn(2) == 0 {
					n = m
					break
				}
			}
			before := n.height
			n.op("N", func() { n.d.OnNewTransaction() })
			after(n, before)
		default:
			var best *node
			for _, n := range lives {
				if n.tm.armed && (best == nil || n.tm.deadline.Before(best.tm.deadline)) {
					best = n
				}
			}
			if best == nil {
				continue
			}
			if best.tm.deadline.After(best.tm.now) {
				for _, n := range nodes {
					n.tm.now = best.tm.deadline
				}
			}
			if rng.Intn(30) == 0 { // a clock that steps back
				best.tm.now = best.tm.now.Add(-timeDur(int64(rng.Intn(3_000_000_000))))
			}
			h, v := best.tm.h, best.tm.v
			best.tm.armed = false
			before := best.height
			best.op(fmt.Sprintf("T %d %d", h, v), func() { best.d.OnTimeout(h, v) })
			after(best, before)
		}
		collect()
		lateResets()
		collect()
	}
	endRun(w, mon, nodes...)
}

// shiftRuns (C14): every run is executed twice on the real library, with virtual clock origins E and E+D (D a multiple of the
// timestamp increment; the second execution also happens later in wall-clock time). The sequences of payload kinds, relative
// timestamps and requested timer durations must be identical.
func shiftRuns(w *bufio.Writer, seed int64, from, to int, stats map[string]int) {
	offsets := []int64{7e9 * 514, -7e9 * 514, 7e9 * 45051428, -7e9 * 45051428, 7e9 * 54061714, 7e9} // multiples of every increment used (1, 7, 1e3, 1e6, 1e9 ns): about 1 h, 10 y, 12 y (beyond today's wall clock), 7 s
	for run := from; run < to; run++ {
		D := offsets[run%len(offsets)]
		sink := bufio.NewWriter(io.Discard)
		runInc := int64(0)
		exec := func(shift int64) []string {
			var o []string
			st := map[string]int{}
			if run%25 == 23 {
				// another fixed script: a backup whose peers' payloads are the same in both executions (the timestamps they carry do
				// not move with this node's clock) goes through a height and is re-initialised for the next one
				backupHeightChangeAt(sink, shift, &o)
				runInc = 1000000
				return o
			}
			if run%25 == 24 {
				// a fixed script instead of a random run: the node asks for view 1 on a timeout, then M peers ask for view 2 and it
				// repeats its request with the reason "agreement" - the one payload whose timestamp is read in check.go
				cvAgreementAt(sink, shift, &o)
				runInc = 1000000
				return o
			}
			genRunAt(sink, rand.New(rand.NewSource(runSeed(seed, run))), run, st, shift, &o)
			runInc = int64(st["increment-of-this-run"])
			return o
		}
		if run%2 == 1 {
			// every other run: an offset that is a multiple of THIS run's timestamp increment only (not of a millisecond or a
			// second unless the increment is): sub-millisecond grids must shift too
			exec(0)
			D = runInc * []int64{7, 301, 100003, -13}[(run/2)%4]
		}
		same := func(x, y []string) int {
			for i := 0; i < len(x) || i < len(y); i++ {
				if i >= len(x) || i >= len(y) || x[i] != y[i] {
					return i
				}
			}
			return -1
		}
		// the library iterates Go maps when it replays cached payloads, so two executions with the SAME clock can
		// differ; such runs say nothing about clocks and are skipped (counted)
		a, b := exec(0), exec(D)
		if os.Getenv("VERIF_DUMP_SHIFT") != "" {
			for i := 0; i < len(a) || i < len(b); i++ {
				x, y := "", ""
				if i < len(a) {
					x = a[i]
				}
				if i < len(b) {
					y = b[i]
				}
				mark := " "
				if x != y {
					mark = "!"
				}
				fmt.Fprintf(os.Stderr, "%s %4d A %s\n%s %4d B %s\n", mark, i, x, mark, i, y)
			}
		}
		stats["shift-runs"]++
		stats[fmt.Sprintf("shift-D=%d", D)]++
		fmt.Fprintf(w, "RUN %d N 0 CFG 0 0 0\n", run)
		fmt.Fprintf(w, "MONCNT C14 %d\n", len(a))
		if diff := same(a, b); diff >= 0 {
			// two executions with the SAME clock can differ too (map iteration order): collect the outcomes of repeated
			// executions on both sides; only disjoint outcome sets are a dependence on the clock
			key := func(l []string) string { return strings.Join(l, "\n") }
			as, bs := map[string]bool{key(a): true}, map[string]bool{key(b): true}
			shared := false
			for i := 0; i < 12 && !shared; i++ {
				as[key(exec(0))] = true
				bs[key(exec(D))] = true
				for k := range as {
					if bs[k] {
						shared = true
					}
				}
			}
			if shared {
				stats["shift-nondeterministic-but-clock-independent"]++
			} else {
				get := func(l []string, i int) string {
					if i < len(l) {
						return l[i]
					}
					return "<end>"
				}
				fmt.Fprintf(w, "MON C14 shift-variant | run %d: clocks E and E%+dns diverge at observable #%d: [%s] vs [%s] (%d/%d distinct outcomes, none shared)\n", run, D, diff, get(a, diff), get(b, diff), len(as), len(bs))
			}
		}
		fmt.Fprintf(w, "ENDRUN\n")
	}
}

func cvAgreementAt(w *bufio.Writer, shift int64, obs *[]string) {
	n := mkScenNode(nil, 0, mkVals(4), -1, w, func(n *node) { n.epoch += shift; n.s14 = obs })
	n.start(0)
	for _, i := range []uint16{1, 2, 3} { // the peers have been heard of: a timeout asks for a view change, not for recovery
		n.recv(&Payload{dbft.RecoveryRequestType, 1, 0, i, recReq{uint64(n.epoch) + 5}})
	}
	n.tm.armed = false
	n.op("T 1 0", func() { n.d.OnTimeout(1, 0) })
	n.tm.now = n.tm.now.Add(timeDur(1500000000))
	for _, i := range []uint16{1, 2, 3} {
		n.recv(&Payload{dbft.ChangeViewType, 1, 0, i, chView{2, 0, 0}})
	}
}

// backupHeightChangeAt (C14): validator 0 of 4 is a backup at heights 1 and 2. The proposal and the commits it is given are
// byte-for-byte the same whatever its own clock shows; it commits, accepts the block and is re-initialised. Every timer it asks
// for - the first one of height 2 included, which subtracts the time since the block's creation started - must be the same
// under every clock offset: the node may measure elapsed time with its own clock only.
func backupHeightChangeAt(w *bufio.Writer, shift int64, obs *[]string) {
	n := mkScenNode(nil, 0, mkVals(4), -1, w, func(n *node) { n.epoch += shift; n.s14 = obs })
	fixed := uint64(n.epoch-shift) + 5000000000
	n.start(0)
	req := &Payload{dbft.PrepareRequestType, 1, 0, 1, prepReq{fixed, 9, nil}}
	n.recv(req)
	n.tm.now = n.tm.now.Add(timeDur(700000000))
	n.recv(&Payload{dbft.PrepareResponseType, 1, 0, 2, prepResp{req.Hash()}})
	n.recv(&Payload{dbft.PrepareResponseType, 1, 0, 3, prepResp{req.Hash()}})
	blk := &Block{idx: 1, prev: "", ts: fixed, nonce: 9}
	before := n.height
	n.recv(&Payload{dbft.CommitType, 1, 0, 1, commit{sigv{101, blk.Hash()}}})
	n.recv(&Payload{dbft.CommitType, 1, 0, 2, commit{sigv{102, blk.Hash()}}})
	n.tm.now = n.tm.now.Add(timeDur(300000000))
	if n.height != before {
		n.op(fmt.Sprintf("R %d", n.lastTS), func() { n.d.Reset(n.lastTS) })
	} else {
		n.obs14("NOT-DECIDED")
	}
}
