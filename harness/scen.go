// G3 corpus: scripted scenarios for the paths named in the properties' anchors and for every defect found
// (DESIGN.md section 9). They run first in every check; the monitors decide what they show.
package main

import (
	"bufio"
	"fmt"
	"sort"

	"github.com/nspcc-dev/dbft"
)

// mkScenNode builds a monitored node for a scripted scenario.
func mkScenNode(mon *monitor, id int, vals []dbft.PublicKey, amev int64, w *bufio.Writer, pre ...func(*node)) *node {
	pre = append(pre, func(n *node) { n.mon = mon; n.tr = newTracker() })
	return newNode(id, vals, amev, w, pre...)
}

func endRun(w *bufio.Writer, mon *monitor, nodes ...*node) {
	hs := ""
	for _, n := range nodes {
		hs += fmt.Sprintf(" %d", n.height)
	}
	var ks []string
	for k := range mon.counts {
		ks = append(ks, k)
	}
	sort.Strings(ks)
	for _, k := range ks {
		fmt.Fprintf(w, "MONCNT %s %d\n", k, mon.counts[k])
	}
	fmt.Fprintf(w, "ENDRUN%s\n", hs)
}

func (n *node) start(ts uint64) {
	n.op(fmt.Sprintf("S %d", ts), func() { n.d.Start(ts) })
	n.started = true
}

func scenarios(w *bufio.Writer) {
	garbage := sigv{999, "7,7"}
	run := 1000
	begin := func(N int, amev int64, dyn int) *monitor {
		fmt.Fprintf(w, "RUN %d N %d CFG 1000000 %d %d\n", run, N, amev, dyn)
		m := newMonitor(run)
		run++
		return m
	}
	// D1: early garbage commits are counted (N=4, we are index 2, height 1, primary 1)
	{
		mon := begin(4, -1, 0)
		n := mkScenNode(mon, 2, mkVals(4), -1, w)
		n.start(0)
		n.recv(&Payload{dbft.CommitType, 1, 0, 0, commit{garbage}})
		n.recv(&Payload{dbft.CommitType, 1, 0, 3, commit{garbage}})
		req := &Payload{dbft.PrepareRequestType, 1, 0, 1, prepReq{5000000, 9, []H{Tx(42).Hash()}}}
		n.recv(req)
		blk := &Block{idx: 1, prev: "", ts: 5000000, nonce: 9, hashes: []H{Tx(42).Hash()}}
		n.recv(&Payload{dbft.CommitType, 1, 0, 1, commit{sigv{101, blk.Hash()}}})
		fmt.Fprintf(w, "NOTE D1 height after = %d (1 means block accepted with one valid commit)\n", n.height)
		endRun(w, mon, n)
	}
	// D8 (repaired): nil block + M early commits must not panic
	{
		mon := begin(4, -1, 0)
		n := mkScenNode(mon, 2, mkVals(4), -1, w)
		n.nilBlock = true
		n.start(0)
		for _, i := range []uint16{0, 3, 1} {
			n.recv(&Payload{dbft.CommitType, 1, 0, i, commit{garbage}})
		}
		req := &Payload{dbft.PrepareRequestType, 1, 0, 1, prepReq{5000000, 9, nil}}
		n.recv(req)
		n.recv(&Payload{dbft.PrepareResponseType, 1, 0, 0, prepResp{req.Hash()}})
		endRun(w, mon, n)
	}
	// D7 (repaired): responses that reach the primary before it proposes must match its own request
	{
		mon := begin(4, -1, 0)
		n := mkScenNode(mon, 2, mkVals(4), -1, w)
		n.height = 4 // height 5: primary 1
		n.start(0)
		n.height = 5 // height 6: primary 2 = us
		n.op("R 0", func() { n.d.Reset(0) })
		n.recv(&Payload{dbft.PrepareResponseType, 6, 0, 0, prepResp{"1,2,3"}})
		n.recv(&Payload{dbft.PrepareResponseType, 6, 0, 3, prepResp{"1,2,3"}})
		n.tm.armed = false
		n.op("T 6 0", func() { n.d.OnTimeout(6, 0) })
		endRun(w, mon, n)
	}
	// D4 (repaired): watch-only flag set, key in the list, primary at start
	{
		mon := begin(4, -1, 0)
		n := mkScenNode(mon, 1, mkVals(4), -1, w)
		n.wo = true
		n.start(0)
		endRun(w, mon, n)
	}
	// D3 (repaired): OnTransaction bookkeeping across a nested view change
	{
		mon := begin(4, -1, 0)
		n := mkScenNode(mon, 2, mkVals(4), -1, w)
		n.missing = map[uint64]bool{666: true, 1: true, 2: true}
		n.badTx = map[uint64]bool{666: true}
		n.start(0)
		n.recv(&Payload{dbft.PrepareRequestType, 1, 1, 0, prepReq{7000000, 3, []H{Tx(1).Hash(), Tx(2).Hash()}}}) // future view: cached
		n.recv(&Payload{dbft.ChangeViewType, 1, 0, 0, chView{1, 0, 0}})
		n.recv(&Payload{dbft.ChangeViewType, 1, 0, 3, chView{1, 0, 0}})
		n.recv(&Payload{dbft.PrepareRequestType, 1, 0, 1, prepReq{5000000, 9, []H{Tx(666).Hash()}}})
		n.op("X 666", func() { n.d.OnTransaction(Tx(666)) })
		n.op("X 1", func() { n.d.OnTransaction(Tx(1)) })
		n.op("X 2", func() { n.d.OnTransaction(Tx(2)) })
		fmt.Fprintf(w, "NOTE D3 view=%d missing=%d responded=%v\n", n.d.ViewNumber, len(n.d.MissingTransactions), n.d.ResponseSent())
		endRun(w, mon, n)
	}
	// a transaction requested for the proposal of an abandoned view is not "requested" in the next view
	{
		mon := begin(4, -1, 0)
		n := mkScenNode(mon, 2, mkVals(4), -1, w)
		n.missing = map[uint64]bool{11: true, 12: true}
		n.start(0)
		n.recv(&Payload{dbft.PrepareRequestType, 1, 0, 1, prepReq{5000000, 9, []H{Tx(11).Hash()}}})
		n.recv(&Payload{dbft.ChangeViewType, 1, 0, 0, chView{1, 0, 0}})
		n.recv(&Payload{dbft.ChangeViewType, 1, 0, 3, chView{1, 0, 0}})
		n.recv(&Payload{dbft.ChangeViewType, 1, 0, 1, chView{1, 0, 0}})
		n.recv(&Payload{dbft.PrepareRequestType, 1, 1, 0, prepReq{7000000, 3, []H{Tx(12).Hash()}}})
		n.op("X 11", func() { n.d.OnTransaction(Tx(11)) })
		n.op("X 12", func() { n.d.OnTransaction(Tx(12)) })
		endRun(w, mon, n)
	}
	// D9 (repaired): inboxes of skipped heights are dropped
	{
		mon := begin(4, -1, 0)
		n := mkScenNode(mon, 2, mkVals(4), -1, w)
		n.start(0)
		n.recv(&Payload{dbft.CommitType, 2, 0, 0, commit{garbage}})
		n.recv(&Payload{dbft.CommitType, 3, 0, 0, commit{garbage}})
		n.height = 3 // ledger synchronised by other means: heights 2 and 3 skipped
		n.op("R 0", func() { n.d.Reset(0) })
		endRun(w, mon, n)
	}
	// D17 (repaired): first height after genesis, backups must not time out at once
	{
		mon := begin(4, -1, 0)
		n := mkScenNode(mon, 2, mkVals(4), -1, w)
		n.start(0)
		fmt.Fprintf(w, "NOTE D17 first timer deadline offset = %d\n", n.tm.deadline.Sub(n.tm.now))
		endRun(w, mon, n)
	}
	// D15: change views asking 2,2,5 form an unnoticed quorum for view 2; a duplicate then changes the view
	{
		mon := begin(4, -1, 0)
		n := mkScenNode(mon, 2, mkVals(4), -1, w)
		n.start(0)
		cv := &Payload{dbft.ChangeViewType, 1, 0, 0, chView{2, 0, 0}}
		n.recv(cv)
		n.recv(&Payload{dbft.ChangeViewType, 1, 0, 1, chView{2, 0, 0}})
		n.recv(&Payload{dbft.ChangeViewType, 1, 0, 3, chView{5, 0, 0}})
		fmt.Fprintf(w, "NOTE D15 view before duplicate = %d\n", n.d.ViewNumber)
		n.recv(cv)
		fmt.Fprintf(w, "NOTE D15 view after duplicate = %d\n", n.d.ViewNumber)
		endRun(w, mon, n)
	}
	// D10: the back-off shift overflows int64 at high views (timePerBlock 2^40 ns)
	{
		mon := begin(4, -1, 0)
		n := mkScenNode(mon, 2, mkVals(4), -1, w, func(n *node) { n.tpb = 1 << 40 })
		n.start(0)
		for v := byte(1); v <= 24; v++ {
			for _, i := range []uint16{0, 1, 3} {
				n.recv(&Payload{dbft.ChangeViewType, 1, v - 1, i, chView{v, 0, 0}})
			}
		}
		fmt.Fprintf(w, "NOTE D10 view=%d\n", n.d.ViewNumber)
		endRun(w, mon, n)
	}
	// anti-MEV, single height, all four honest: pre-commit / pre-block / commit / block in order
	{
		mon := begin(4, 0, 0)
		nodes := make([]*node, 4)
		for i := range nodes {
			nodes[i] = mkScenNode(mon, i, mkVals(4), 0, w)
			nodes[i].height = 0
		}
		for _, n := range nodes {
			n.start(0)
		}
		pump(nodes, 400, nil)
		endRun(w, mon, nodes...)
	}
	// dynamic block time: primary defers an empty proposal, then is notified
	{
		mon := begin(4, -1, 1)
		n := mkScenNode(mon, 1, mkVals(4), -1, w, func(n *node) { n.dyn = true; n.usePool = true })
		n.height = 4 // height 5, primary 1 = us, not started with a proposal because Start forces
		n.start(0)
		n.height = 8 // height 9: primary 1 again
		n.op("R 0", func() { n.d.Reset(0) })
		n.tm.now = n.tm.deadline
		n.tm.armed = false
		n.op("T 9 0", func() { n.d.OnTimeout(9, 0) })
		n.pool = []uint64{77}
		n.op("N", func() { n.d.OnNewTransaction() })
		endRun(w, mon, n)
	}
	// C12: the last requested transaction completes a block that fails verification while two of the four validators
	// have not been heard from: the answer must still be a ChangeView (a RecoveryRequest alone is not an answer)
	{
		mon := begin(4, -1, 0)
		n := mkScenNode(mon, 2, mkVals(4), -1, w)
		n.missing = map[uint64]bool{666: true, 21: true}
		n.badTx = map[uint64]bool{666: true}
		n.start(0)
		n.recv(&Payload{dbft.PrepareRequestType, 1, 0, 1, prepReq{5000000, 9, []H{Tx(21).Hash(), Tx(666).Hash()}}})
		n.op("X 21", func() { n.d.OnTransaction(Tx(21)) })
		n.op("X 666", func() { n.d.OnTransaction(Tx(666)) })
		endRun(w, mon, n)
	}
	// D20 (repaired): a node that has become primary of view 1 gets its own PrepareRequest of that view back (as after a
	// restart, from a recovery message) before it proposes: it must not answer it with a PrepareResponse - that overwrote the
	// request in its own (the primary's) slot and the next PrepareResponse panicked in onPrepareResponse
	{
		mon := begin(4, -1, 0)
		n := mkScenNode(mon, 0, mkVals(4), -1, w)
		n.start(0)
		for _, i := range []uint16{1, 2, 3} {
			n.recv(&Payload{dbft.ChangeViewType, 1, 0, i, chView{1, 0, 0}})
		}
		own := &Payload{dbft.PrepareRequestType, 1, 1, 0, prepReq{7000000, 3, nil}}
		n.recv(own)
		n.recv(&Payload{dbft.PrepareResponseType, 1, 1, 2, prepResp{own.Hash()}})
		n.recv(&Payload{dbft.PrepareResponseType, 1, 1, 3, prepResp{own.Hash()}})
		fmt.Fprintf(w, "NOTE D20 view=%d commitSent=%v\n", n.d.ViewNumber, n.d.CommitSent())
		endRun(w, mon, n)
	}
	// C16: a subscribed backup receives the proposal (with a transaction it has to fetch) and only then the
	// new-transaction notification: it must not ask for a view change, and answers once the transaction arrives
	{
		mon := begin(4, -1, 1)
		n := mkScenNode(mon, 2, mkVals(4), -1, w, func(n *node) { n.dyn = true; n.usePool = true })
		n.missing = map[uint64]bool{31: true}
		n.start(0)
		n.tm.now = n.tm.deadline
		n.tm.armed = false
		n.op("T 1 0", func() { n.d.OnTimeout(1, 0) }) // empty pool: subscribes and keeps waiting
		req := &Payload{dbft.PrepareRequestType, 1, 0, 1, prepReq{5000000, 9, []H{Tx(31).Hash()}}}
		n.recv(req)
		n.recv(&Payload{dbft.PrepareResponseType, 1, 0, 0, prepResp{req.Hash()}})
		n.recv(&Payload{dbft.PrepareResponseType, 1, 0, 3, prepResp{req.Hash()}})
		n.op("N", func() { n.d.OnNewTransaction() })
		n.op("X 31", func() { n.d.OnTransaction(Tx(31)) })
		endRun(w, mon, n)
	}
	// C10: a lagging backup has cached ChangeViews of the next height from M validators; when its ledger catches up and it is
	// re-initialised, the replay of the cache moves it to view 1 from inside the initialisation of view 0: the timer must end
	// up armed for (height, view 1), and the timeout for that epoch must be handled (first-round seeded change C10)
	{
		mon := begin(4, -1, 0)
		n := mkScenNode(mon, 1, mkVals(4), -1, w)
		n.start(0)
		for _, i := range []uint16{0, 2, 3} {
			n.recv(&Payload{dbft.ChangeViewType, 2, 0, i, chView{1, 0, 0}})
		}
		n.height = 1
		n.op("R 0", func() { n.d.Reset(0) })
		fmt.Fprintf(w, "NOTE C10 nested view change in replay: height=%d view=%d\n", n.d.BlockIndex, n.d.ViewNumber)
		n.tm.armed = false
		n.op("T 2 1", func() { n.d.OnTimeout(2, 1) })
		endRun(w, mon, n)
	}
	// C08 (fourth-round seeded change C08d): anti-MEV, N=4, fault-free, every message delivered - but node 3 gets the round in
	// an unlucky order: the proposal, two PreCommits, all three Commits, the third PreCommit (the pre-block is processed while
	// the node has not sent its own PreCommit) and only then the PrepareResponses. Its own PreCommit must still be followed by
	// the verification of the kept Commits, its own Commit and the block
	{
		mon := begin(4, 0, 0)
		nodes := make([]*node, 4)
		for i := range nodes {
			nodes[i] = mkScenNode(mon, i, mkVals(4), 0, w)
			nodes[i].height = 0
		}
		for _, n := range nodes {
			n.start(0)
		}
		type env struct {
			from, to int
			p        *Payload
		}
		var q []env
		collect := func() {
			for _, n := range nodes {
				for _, p := range n.out {
					for _, m := range nodes {
						if m.id != n.id {
							q = append(q, env{n.id, m.id, p})
						}
					}
				}
				n.out = nil
			}
		}
		deliver := func(ok func(e env) bool) bool {
			collect()
			for i, e := range q {
				if ok(e) {
					q = append(q[:i:i], q[i+1:]...)
					nodes[e.to].recv(e.p)
					collect()
					return true
				}
			}
			return false
		}
		for deliver(func(e env) bool { return e.p.T == dbft.PrepareRequestType }) {
		}
		for deliver(func(e env) bool { return e.to != 3 }) {
		}
		one := func(t dbft.MessageType, from int) {
			deliver(func(e env) bool { return e.to == 3 && e.p.T == t && e.from == from })
		}
		one(dbft.PreCommitType, 0)
		one(dbft.PreCommitType, 1)
		one(dbft.CommitType, 0)
		one(dbft.CommitType, 1)
		one(dbft.CommitType, 2)
		one(dbft.PreCommitType, 2)
		for deliver(func(e env) bool { return true }) {
		}
		fmt.Fprintf(w, "NOTE C08 unlucky order at node 3: heights %d %d %d %d\n", nodes[0].height, nodes[1].height, nodes[2].height, nodes[3].height)
		mon.tick("C08")
		if nodes[3].height != 1 {
			mon.nhit(nodes[3], "C08", "undecided-after-full-delivery", fmt.Sprintf("node 3 has not decided height 1 (ledger height %d) although every message of the fault-free anti-MEV round was delivered to it", nodes[3].height))
		}
		endRun(w, mon, nodes...)
	}
	// C11 / C13 (fourth-round seeded change C11d): a node whose key is not in the validator list (the application does not
	// call it watch-only) receives proposals that the application rejects - the PrepareRequest itself, then a proposal whose
	// block fails verification: nothing may be broadcast and nothing may panic (a ChangeView of its own has no slot to go to)
	{
		mon := begin(4, -1, 0)
		n := mkScenNode(mon, 5, mkVals(4), -1, w)
		n.badTx = map[uint64]bool{666: true}
		n.start(0)
		n.rejectVerify = map[string]bool{"VPREQ": true}
		n.recv(&Payload{dbft.PrepareRequestType, 1, 0, 1, prepReq{5000000, 9, nil}})
		n.rejectVerify = nil
		n.recv(&Payload{dbft.PrepareRequestType, 1, 0, 1, prepReq{5000000, 9, []H{Tx(666).Hash()}}})
		endRun(w, mon, n)
	}
	// C07 / C13 (fourth-round seeded change C07d): a validator restarted in watch-only mode (the application still reports its
	// key) receives a PreCommit bearing its own index - its earlier incarnation's - and the PreCommits of M-1 others: it has not
	// itself broadcast a PreCommit, and must neither sign nor broadcast
	{
		mon := begin(4, 0, 0)
		n := mkScenNode(mon, 2, mkVals(4), 0, w, func(n *node) { n.wo = true })
		n.height = 0
		n.start(0)
		n.recv(&Payload{dbft.PrepareRequestType, 1, 0, 1, prepReq{5000000, 9, nil}})
		pb := &PreBlock{idx: 1, prev: "", ts: 5000000, nonce: 9}
		for _, i := range []uint16{2, 0, 1} {
			n.recv(&Payload{dbft.PreCommitType, 1, 0, i, preCommit{sigv{100 + int(i), pb.Hash()}}})
		}
		endRun(w, mon, n)
	}
	// C03 witness V1: a node asks for a view change, follows it, proposes in the new view as its primary, signs its Commit, and is
	// then called again (a timeout): the ChangeView precedes the signature, what follows it is a recovery message
	{
		mon := begin(4, -1, 0)
		n := mkScenNode(mon, 0, mkVals(4), -1, w)
		n.start(0)
		n.recv(&Payload{dbft.ChangeViewType, 1, 0, 1, chView{1, 0, 0}})
		n.recv(&Payload{dbft.ChangeViewType, 1, 0, 2, chView{1, 0, 0}})
		n.tm.now = n.tm.deadline
		n.tm.armed = false
		n.op("T 1 0", func() { n.d.OnTimeout(1, 0) })
		fmt.Fprintf(w, "NOTE V1 view=%d primary=%v\n", n.d.ViewNumber, n.d.IsPrimary())
		n.tm.now = n.tm.deadline
		n.tm.armed = false
		n.op("T 1 1", func() { n.d.OnTimeout(1, 1) })
		var req *Payload
		for _, p := range n.out {
			if p.T == dbft.PrepareRequestType {
				req = p
			}
		}
		if req != nil {
			n.recv(&Payload{dbft.PrepareResponseType, 1, 1, 1, prepResp{req.Hash()}})
			n.recv(&Payload{dbft.PrepareResponseType, 1, 1, 2, prepResp{req.Hash()}})
		}
		fmt.Fprintf(w, "NOTE V1 commitSent=%v\n", n.d.CommitSent())
		n.tm.now = n.tm.deadline
		n.tm.armed = false
		n.op("T 1 1", func() { n.d.OnTimeout(1, 1) })
		endRun(w, mon, n)
	}
	// C13 (third-round seeded change C13c, first caught through a generated history only): a watch-only validator is given M-1
	// PrepareResponses before the proposal they answer, then the proposal with all its transactions: it must not commit
	{
		mon := begin(4, -1, 0)
		n := mkScenNode(mon, 2, mkVals(4), -1, w, func(n *node) { n.wo = true })
		n.start(0)
		req := &Payload{dbft.PrepareRequestType, 1, 0, 1, prepReq{5000000, 9, nil}}
		n.recv(&Payload{dbft.PrepareResponseType, 1, 0, 0, prepResp{req.Hash()}})
		n.recv(&Payload{dbft.PrepareResponseType, 1, 0, 3, prepResp{req.Hash()}})
		n.recv(req)
		endRun(w, mon, n)
	}
	// C05 (sixth-round seeded change C05e): a backup takes part in height 1 (it notes when the creation of that block started), then
	// its ledger is synchronised past heights 2 and 3 a minute later and it is re-initialised for height 4: the first timer of
	// that height is the full one - nothing remembered from height 1 may shorten it
	{
		mon := begin(4, -1, 0)
		n := mkScenNode(mon, 2, mkVals(4), -1, w)
		n.start(0)
		n.recv(&Payload{dbft.PrepareRequestType, 1, 0, 1, prepReq{5000000, 9, nil}})
		n.tm.now = n.tm.now.Add(timeDur(60000000000))
		n.height = 3
		n.tip = toks(8, n.height)
		n.op("R 0", func() { n.d.Reset(0) })
		mon.tick("C05")
		if d := n.tm.deadline.Sub(n.tm.now); !n.tm.armed || d != 2*n.tpb {
			mon.nhit(n, "C05", "timer-shortened-by-an-earlier-height", fmt.Sprintf("node 2, a backup re-initialised for height %d after a ledger synchronisation, armed its timer for %v (armed=%v), the full interval is %v", n.d.BlockIndex, d, n.tm.armed, 2*n.tpb))
		}
		endRun(w, mon, n)
	}
	// C07 (sixth-round seeded change C07e): anti-MEV, four honest nodes; node 3 receives everything of height 1 except the Commits, so
	// it processes the pre-block but never accepts the block itself; the ledger brings it to height 2, where the round is
	// delivered in full: its Commit at height 2 must again wait for the pre-block callback of height 2
	{
		mon := begin(4, 0, 0)
		nodes := make([]*node, 4)
		for i := range nodes {
			nodes[i] = mkScenNode(mon, i, mkVals(4), 0, w)
			nodes[i].height = 0
		}
		for _, n := range nodes {
			n.start(0)
		}
		pump(nodes, 400, func(from int, p *Payload, to int) bool { return to == 3 && p.T == dbft.CommitType })
		if nodes[0].height == 1 && nodes[3].height == 0 {
			n3 := nodes[3]
			n3.height, n3.tip, n3.lastTS = nodes[0].height, nodes[0].tip, nodes[0].lastTS
			n3.out = nil
			n3.op(fmt.Sprintf("R %d", n3.lastTS), func() { n3.d.Reset(n3.lastTS) })
			p2 := nodes[2] // primary of height 2
			for _, n := range nodes {
				n.tm.now = p2.tm.deadline
			}
			p2.tm.armed = false
			p2.op("T 2 0", func() { p2.d.OnTimeout(2, 0) })
			pump(nodes, 400, nil)
		}
		fmt.Fprintf(w, "NOTE C07 stale pre-block flag: heights %d %d %d %d\n", nodes[0].height, nodes[1].height, nodes[2].height, nodes[3].height)
		endRun(w, mon, nodes...)
	}
	// C08 / C05 (first- and second-round seeded changes C08, C08b, first caught through random synchronous runs only): payloads of
	// the next height reach a node early - the proposal while it still collects the commits of its height, a response after it
	// has handed over the block but before the application re-initialises it; both are kept and replayed by the Reset: the node
	// answers the proposal of the new height without any retransmission
	{
		mon := begin(4, -1, 0)
		n := mkScenNode(mon, 0, mkVals(4), -1, w)
		n.start(0)
		req1 := &Payload{dbft.PrepareRequestType, 1, 0, 1, prepReq{5000000, 9, nil}}
		n.recv(req1)
		n.recv(&Payload{dbft.PrepareResponseType, 1, 0, 2, prepResp{req1.Hash()}})
		n.recv(&Payload{dbft.PrepareResponseType, 1, 0, 3, prepResp{req1.Hash()}})
		req2 := &Payload{dbft.PrepareRequestType, 2, 0, 2, prepReq{7000000, 11, nil}}
		n.recv(req2) // early: the node is still collecting the commits of height 1
		blk := &Block{idx: 1, prev: "", ts: 5000000, nonce: 9}
		n.recv(&Payload{dbft.CommitType, 1, 0, 1, commit{sigv{101, blk.Hash()}}})
		n.recv(&Payload{dbft.CommitType, 1, 0, 2, commit{sigv{102, blk.Hash()}}})
		n.recv(&Payload{dbft.PrepareResponseType, 2, 0, 3, prepResp{req2.Hash()}}) // early: decided, not yet re-initialised
		n.out = nil
		if n.height == 1 {
			n.op(fmt.Sprintf("R %d", n.lastTS), func() { n.d.Reset(n.lastTS) })
		}
		answered := false
		for _, p := range n.out {
			if p.T == dbft.PrepareResponseType && p.Hgt == 2 {
				answered = true
			}
		}
		mon.tick("C08")
		if n.height != 1 || !answered || n.d.PreparationPayloads[3] == nil {
			mon.nhit(n, "C08", "early-payload-lost", fmt.Sprintf("node 0 (ledger height %d) was given the proposal of height 2 and a response to it before its re-initialisation: answered=%v, response of validator 3 kept=%v", n.height, answered, n.d.PreparationPayloads[3] != nil))
			mon.nhit(n, "C05", "early-payload-lost", "payloads of the next height received before the re-initialisation were not replayed by it")
		}
		endRun(w, mon, n)
	}
	// C08 / C05 (seventh-round seeded change C08f): the proposal of the height after next reaches a node two heights early; it is
	// kept through two re-initialisations and answered when its height comes
	{
		mon := begin(4, -1, 0)
		n := mkScenNode(mon, 0, mkVals(4), -1, w)
		n.start(0)
		req3 := &Payload{dbft.PrepareRequestType, 3, 0, 3, prepReq{9000000, 13, nil}}
		n.recv(req3) // two heights early
		req1 := &Payload{dbft.PrepareRequestType, 1, 0, 1, prepReq{5000000, 9, nil}}
		n.recv(req1)
		n.recv(&Payload{dbft.PrepareResponseType, 1, 0, 2, prepResp{req1.Hash()}})
		n.recv(&Payload{dbft.PrepareResponseType, 1, 0, 3, prepResp{req1.Hash()}})
		b1 := &Block{idx: 1, prev: "", ts: 5000000, nonce: 9}
		n.recv(&Payload{dbft.CommitType, 1, 0, 1, commit{sigv{101, b1.Hash()}}})
		n.recv(&Payload{dbft.CommitType, 1, 0, 2, commit{sigv{102, b1.Hash()}}})
		if n.height == 1 {
			n.op(fmt.Sprintf("R %d", n.lastTS), func() { n.d.Reset(n.lastTS) })
			req2 := &Payload{dbft.PrepareRequestType, 2, 0, 2, prepReq{7000000, 11, nil}}
			n.recv(req2)
			n.recv(&Payload{dbft.PrepareResponseType, 2, 0, 1, prepResp{req2.Hash()}})
			n.recv(&Payload{dbft.PrepareResponseType, 2, 0, 3, prepResp{req2.Hash()}})
			b2 := &Block{idx: 2, prev: b1.Hash(), ts: 7000000, nonce: 11}
			n.recv(&Payload{dbft.CommitType, 2, 0, 1, commit{sigv{101, b2.Hash()}}})
			n.recv(&Payload{dbft.CommitType, 2, 0, 2, commit{sigv{102, b2.Hash()}}})
		}
		answered := false
		if n.height == 2 {
			n.out = nil
			n.op(fmt.Sprintf("R %d", n.lastTS), func() { n.d.Reset(n.lastTS) })
			for _, p := range n.out {
				if p.T == dbft.PrepareResponseType && p.Hgt == 3 {
					answered = true
				}
			}
		}
		mon.tick("C08")
		if n.height != 2 || !answered {
			mon.nhit(n, "C08", "early-payload-lost", fmt.Sprintf("node 0 (ledger height %d) was given the proposal of height 3 while it worked on height 1: answered at height 3 = %v", n.height, answered))
			mon.nhit(n, "C05", "early-payload-lost", "a payload received two heights early was not replayed when its height came")
		}
		endRun(w, mon, n)
	}
	// C05 / C15 (seventh-round seeded change C05f): a backup accepts a proposal stamped an hour ahead of its clock; the height is
	// then finished elsewhere (ledger synchronisation) and the node, primary of the next height, proposes: its timestamp comes
	// from the previous block and its own clock, not from the abandoned proposal
	{
		mon := begin(4, -1, 0)
		n := mkScenNode(mon, 2, mkVals(4), -1, w)
		n.start(0)
		ahead := uint64(n.tm.now.UnixNano()) + 3600000000000
		n.recv(&Payload{dbft.PrepareRequestType, 1, 0, 1, prepReq{ahead / 1000000 * 1000000, 9, nil}})
		n.height = 1
		n.tip = toks(8, n.height)
		n.lastTS = uint64(n.tm.now.UnixNano()) / 1000000 * 1000000
		n.out = nil
		n.op(fmt.Sprintf("R %d", n.lastTS), func() { n.d.Reset(n.lastTS) })
		n.tm.now = n.tm.deadline
		n.tm.armed = false
		n.op("T 2 0", func() { n.d.OnTimeout(2, 0) })
		mon.tick("C05")
		for _, p := range n.out {
			if p.T == dbft.PrepareRequestType {
				if ts := p.Body.(prepReq).ts; ts > uint64(n.tm.now.UnixNano()) {
					mon.nhit(n, "C05", "proposal-timestamp-from-an-abandoned-height", fmt.Sprintf("node 2 proposes height 2 with timestamp %d, ahead of its clock %d: the timestamp of the proposal it had accepted at the abandoned height 1", ts, n.tm.now.UnixNano()))
				}
			}
		}
		endRun(w, mon, n)
	}
	// C07 (seventh-round seeded change C07f): anti-MEV starts at height 3; a node works on height 2 when the application's ledger
	// already reports height 2 (the block came by other means, Reset not yet called): the M-th preparation must still lead to a
	// Commit, not to a PreCommit - what counts is the height the node works on
	{
		mon := begin(4, 3, 0)
		n := mkScenNode(mon, 0, mkVals(4), 3, w)
		n.height = 1
		n.start(0)
		req := &Payload{dbft.PrepareRequestType, 2, 0, 2, prepReq{5000000, 9, nil}}
		n.recv(req)
		n.height = 2 // the ledger moves on; the application has not re-initialised the node yet
		n.recv(&Payload{dbft.PrepareResponseType, 2, 0, 1, prepResp{req.Hash()}})
		n.height = 1
		endRun(w, mon, n)
	}
	// C10 (seventh-round seeded change C10f): the application lowers its block times in the middle of a height; the primary, whose
	// pool is empty, subscribes and re-arms with the values of the height's initialisation (maximum - minimum >= 0)
	{
		mon := begin(4, -1, 1)
		n := mkScenNode(mon, 1, mkVals(4), -1, w, func(n *node) { n.dyn = true; n.usePool = true; n.tpb = 10 * timeDur(1000000000); n.maxTpb = 20 * timeDur(1000000000) })
		n.height = 3
		n.start(0) // height 4: a backup
		n.height = 4
		n.op("R 0", func() { n.d.Reset(0) }) // height 5: primary
		n.tpb, n.maxTpb = timeDur(1000000000), 5*timeDur(1000000000)
		n.tm.now = n.tm.deadline
		n.tm.armed = false
		n.op("T 5 0", func() { n.d.OnTimeout(5, 0) })
		endRun(w, mon, n)
	}
}

// pump delivers every broadcast payload to every other node in FIFO order until quiet (or max deliveries).
func pump(nodes []*node, max int, drop func(from int, p *Payload, to int) bool) {
	type pend struct {
		to int
		p  *Payload
	}
	var q []pend
	collect := func() {
		for _, n := range nodes {
			for _, p := range n.out {
				for _, m := range nodes {
					if m.id != n.id && (drop == nil || !drop(n.id, p, m.id)) {
						q = append(q, pend{m.id, p})
					}
				}
			}
			n.out = nil
		}
	}
	collect()
	for i := 0; i < max && len(q) > 0; i++ {
		pd := q[0]
		q = q[1:]
		n := nodes[pd.to]
		before := n.height
		n.recv(pd.p)
		if n.height != before {
			n.op(fmt.Sprintf("R %d", n.lastTS), func() { n.d.Reset(n.lastTS) })
		}
		collect()
	}
}

// C01 witness: N=4, validator 1 (primary of height 1, view 0) is Byzantine and equivocates.
func forkScenario(w *bufio.Writer) {
	fmt.Fprintf(w, "RUN 2000 N 4 CFG 1000000 -1 0\n")
	mon := newMonitor(2000)
	mon.byz[1] = true
	mk := func(id int) *node {
		n := mkScenNode(mon, id, mkVals(4), -1, w)
		n.start(0)
		return n
	}
	i, j, k := mk(0), mk(2), mk(3)
	R := &Payload{dbft.PrepareRequestType, 1, 0, 1, prepReq{5000000, 1, []H{Tx(1).Hash()}}}
	R2 := &Payload{dbft.PrepareRequestType, 1, 0, 1, prepReq{5000000, 2, []H{Tx(2).Hash()}}}
	// j and k get R2, answer it, exchange responses and commits
	j.recv(R2)
	k.recv(R2)
	move := func(from *node, to ...*node) {
		for _, p := range from.out {
			for _, t := range to {
				t.recv(p)
			}
		}
	}
	jOut := append([]*Payload{}, j.out...)
	kOut := append([]*Payload{}, k.out...)
	j.out, k.out = nil, nil
	for _, p := range kOut {
		j.recv(p)
	}
	for _, p := range jOut {
		k.recv(p)
	}
	// now both hold 3 preparations (Z's request + two responses) and have committed; collect their commits
	var commits []*Payload
	for _, p := range append(append([]*Payload{}, j.out...), k.out...) {
		if p.T == dbft.CommitType {
			commits = append(commits, p)
		}
	}
	// i receives the honest commits for block(R2) BEFORE any proposal
	for _, p := range commits {
		i.recv(p)
	}
	// then Z's proposal R for i and Z's own valid commit on block(R)
	i.recv(R)
	blkR := &Block{idx: 1, prev: "", ts: 5000000, nonce: 1, hashes: []H{Tx(1).Hash()}}
	i.recv(&Payload{dbft.CommitType, 1, 0, 1, commit{sigv{101, blkR.Hash()}}})
	// j and k finish on block(R2) with Z's commit on it
	blkR2 := &Block{idx: 1, prev: "", ts: 5000000, nonce: 2, hashes: []H{Tx(2).Hash()}}
	zc := &Payload{dbft.CommitType, 1, 0, 1, commit{sigv{101, blkR2.Hash()}}}
	move(j, k)
	move(k, j)
	j.recv(zc)
	k.recv(zc)
	fmt.Fprintf(w, "NOTE fork: heights i=%d j=%d k=%d tips differ=%v\n", i.height, j.height, k.height, i.tip != j.tip)
	endRun(w, mon, i, j, k)
	forkScenarioAmev(w)
}

// the same fork at an anti-MEV height (findings D1p + D2): the equivocating primary Z (validator 1) gives R2 to j and k and
// R to i; the honest pre-commits and commits for block(R2) reach i before any proposal, are never verified, and together with
// Z's own valid pre-commit and commit for block(R) complete i's certificates although i never sent a PreCommit itself.
func forkScenarioAmev(w *bufio.Writer) {
	fmt.Fprintf(w, "RUN 2001 N 4 CFG 1000000 0 0\n")
	mon := newMonitor(2001)
	mon.byz[1] = true
	mk := func(id int) *node {
		n := mkScenNode(mon, id, mkVals(4), 0, w)
		n.start(0)
		return n
	}
	i, j, k := mk(0), mk(2), mk(3)
	R := &Payload{dbft.PrepareRequestType, 1, 0, 1, prepReq{5000000, 1, []H{Tx(1).Hash()}}}
	R2 := &Payload{dbft.PrepareRequestType, 1, 0, 1, prepReq{5000000, 2, []H{Tx(2).Hash()}}}
	pbR := &PreBlock{idx: 1, prev: "", ts: 5000000, nonce: 1, hashes: []H{Tx(1).Hash()}}
	pbR2 := &PreBlock{idx: 1, prev: "", ts: 5000000, nonce: 2, hashes: []H{Tx(2).Hash()}}
	blkR := &Block{idx: 1, prev: "", ts: 5000000, nonce: 1, hashes: []H{Tx(1).Hash()}, final: true}
	blkR2 := &Block{idx: 1, prev: "", ts: 5000000, nonce: 2, hashes: []H{Tx(2).Hash()}, final: true}
	var fromJK []*Payload
	take := func(n *node) []*Payload {
		o := append([]*Payload{}, n.out...)
		n.out = nil
		fromJK = append(fromJK, o...)
		return o
	}
	j.recv(R2)
	k.recv(R2)
	for round := 0; round < 4; round++ { // responses, pre-commits, commits between j and k, with Z's pre-commit for block(R2)
		jo, ko := take(j), take(k)
		for _, p := range ko {
			j.recv(p)
		}
		for _, p := range jo {
			k.recv(p)
		}
		if round == 1 {
			zp := &Payload{dbft.PreCommitType, 1, 0, 1, preCommit{sigv{101, pbR2.Hash()}}}
			j.recv(zp)
			k.recv(zp)
		}
	}
	// i receives the honest pre-commits and commits for block(R2) BEFORE any proposal
	for _, p := range fromJK {
		if p.T == dbft.PreCommitType || p.T == dbft.CommitType {
			i.recv(p)
		}
	}
	i.recv(R)
	i.recv(&Payload{dbft.PreCommitType, 1, 0, 1, preCommit{sigv{101, pbR.Hash()}}})
	i.recv(&Payload{dbft.CommitType, 1, 0, 1, commit{sigv{101, blkR.Hash()}}})
	zc := &Payload{dbft.CommitType, 1, 0, 1, commit{sigv{101, blkR2.Hash()}}}
	j.recv(zc)
	k.recv(zc)
	fmt.Fprintf(w, "NOTE fork/amev: heights i=%d j=%d k=%d tips differ=%v\n", i.height, j.height, k.height, i.tip != j.tip)
	endRun(w, mon, i, j, k)
	raceScenario(w)
}

// a view change racing a commit (C01/C03): honest 1 (primary of view 0), 2, 3 and Byzantine 0 (primary of view 1) at
// height 1. Node 3 commits X in view 0; 1 and 2 ask for view 1; 1 then finishes view 0 on the commits of 3 and 0 and
// accepts X; 2 moves to view 1; the same ChangeViews reach the committed node 3, which must stay in view 0; the Byzantine
// primary of view 1 proposes Y and commits it. With the commit lock intact Y can gather at most two commits.
func raceScenario(w *bufio.Writer) {
	fmt.Fprintf(w, "RUN 2002 N 4 CFG 1000000 -1 0\n")
	mon := newMonitor(2002)
	mon.byz[0] = true
	mk := func(id int) *node {
		n := mkScenNode(mon, id, mkVals(4), -1, w)
		n.start(0)
		return n
	}
	n1, n2, n3 := mk(1), mk(2), mk(3)
	pick := func(n *node, t dbft.MessageType, v byte) *Payload {
		var r *Payload
		for _, p := range n.out {
			if p.T == t && p.V == v {
				r = p
			}
		}
		n.out = nil
		return r
	}
	give := func(n *node, ps ...*Payload) {
		for _, p := range ps {
			if p != nil {
				n.recv(p)
			}
		}
	}
	reqV0 := pick(n1, dbft.PrepareRequestType, 0)
	if reqV0 == nil {
		fmt.Fprintf(w, "NOTE race: primary did not propose\n")
		endRun(w, mon, n1, n2, n3)
		return
	}
	give(n2, reqV0)
	resp2 := pick(n2, dbft.PrepareResponseType, 0)
	give(n3, reqV0)
	resp3 := pick(n3, dbft.PrepareResponseType, 0)
	give(n3, resp2)
	cm3 := pick(n3, dbft.CommitType, 0)
	if cm3 == nil {
		fmt.Fprintf(w, "NOTE race: node 3 did not commit\n")
		endRun(w, mon, n1, n2, n3)
		return
	}
	hashX := cm3.Body.(commit).s.hash
	cm0 := &Payload{dbft.CommitType, 1, 0, 0, commit{sigv{100, hashX}}}
	cv0 := &Payload{dbft.ChangeViewType, 1, 0, 0, chView{1, 0, 0}}
	timeout := func(n *node) {
		n.tm.armed = false
		n.op("T 1 0", func() { n.d.OnTimeout(1, 0) })
	}
	give(n2, cv0)
	timeout(n2)
	cv2 := pick(n2, dbft.ChangeViewType, 0)
	give(n1, resp2, cv0, cm3)
	timeout(n1)
	cv1 := pick(n1, dbft.ChangeViewType, 0)
	give(n1, cm0, resp3) // more than F committed: node 1 finishes view 0 and accepts X
	pick(n1, dbft.CommitType, 0)
	give(n2, cv1)             // ChangeViews {0,1,2}: node 2 moves to view 1
	give(n3, cv2, cv0, cv1)   // the committed node must not follow
	n3.out = nil
	reqV1 := &Payload{dbft.PrepareRequestType, 1, 1, 0, prepReq{12345000000000, 42, nil}}
	give(n2, reqV1)
	resp2v1 := pick(n2, dbft.PrepareResponseType, 1)
	give(n3, resp2v1, reqV1)
	var resp3v1, cm3v1 *Payload
	for _, p := range n3.out {
		if p.V == 1 && p.T == dbft.PrepareResponseType {
			resp3v1 = p
		}
		if p.V == 1 && p.T == dbft.CommitType {
			cm3v1 = p
		}
	}
	n3.out = nil
	blkY := &Block{idx: 1, prev: "", ts: 12345000000000, nonce: 42, hashes: nil}
	cm0v1 := &Payload{dbft.CommitType, 1, 1, 0, commit{sigv{100, blkY.Hash()}}}
	give(n2, resp3v1)
	cm2v1 := pick(n2, dbft.CommitType, 1)
	give(n2, cm3v1, cm0v1)
	give(n3, cm2v1, cm0v1)
	fmt.Fprintf(w, "NOTE race: views 1=%d 2=%d 3=%d heights %d %d %d\n", n1.d.ViewNumber, n2.d.ViewNumber, n3.d.ViewNumber, n1.height, n2.height, n3.height)
	endRun(w, mon, n1, n2, n3)
	lateForkScenario(w)
}

// the fork that would follow if a Commit arriving while the proposal is held but a transaction is still missing were left
// unverified (third-round seeded change C01c): the equivocating primary Z (validator 1) gives R2 to j and k and R - with a
// transaction i lacks - to i; the honest commits for block(R2) reach i after R but before the transaction. The library
// verifies them against the header of R on arrival and drops them, so i never accepts block(R): no fork on the real code.
func lateForkScenario(w *bufio.Writer) {
	fmt.Fprintf(w, "RUN 2003 N 4 CFG 1000000 -1 0\n")
	mon := newMonitor(2003)
	mon.byz[1] = true
	mk := func(id int) *node {
		n := mkScenNode(mon, id, mkVals(4), -1, w)
		n.start(0)
		return n
	}
	i, j, k := mk(0), mk(2), mk(3)
	i.missing = map[uint64]bool{1: true}
	R := &Payload{dbft.PrepareRequestType, 1, 0, 1, prepReq{5000000, 1, []H{Tx(1).Hash()}}}
	R2 := &Payload{dbft.PrepareRequestType, 1, 0, 1, prepReq{5000000, 2, []H{Tx(2).Hash()}}}
	j.recv(R2)
	k.recv(R2)
	jOut := append([]*Payload{}, j.out...)
	kOut := append([]*Payload{}, k.out...)
	j.out, k.out = nil, nil
	for _, p := range kOut {
		j.recv(p)
	}
	for _, p := range jOut {
		k.recv(p)
	}
	var commits []*Payload
	for _, p := range append(append([]*Payload{}, j.out...), k.out...) {
		if p.T == dbft.CommitType {
			commits = append(commits, p)
		}
	}
	// i holds Z's proposal R but not its transaction when the honest commits for block(R2) arrive
	i.recv(R)
	for _, p := range commits {
		i.recv(p)
	}
	i.missing = nil
	i.op("X 1", func() { i.d.OnTransaction(Tx(1)) })
	blkR := &Block{idx: 1, prev: "", ts: 5000000, nonce: 1, hashes: []H{Tx(1).Hash()}}
	i.recv(&Payload{dbft.CommitType, 1, 0, 1, commit{sigv{101, blkR.Hash()}}})
	blkR2 := &Block{idx: 1, prev: "", ts: 5000000, nonce: 2, hashes: []H{Tx(2).Hash()}}
	zc := &Payload{dbft.CommitType, 1, 0, 1, commit{sigv{101, blkR2.Hash()}}}
	for _, p := range j.out {
		k.recv(p)
	}
	for _, p := range k.out {
		j.recv(p)
	}
	j.recv(zc)
	k.recv(zc)
	fmt.Fprintf(w, "NOTE late fork: heights i=%d j=%d k=%d\n", i.height, j.height, k.height)
	endRun(w, mon, i, j, k)
}
