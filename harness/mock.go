// Go side of the node correspondence: mock application (ideal signatures, canonical-encoding hashes),
// virtual timer, and the recording node wrapper. Every API call made on the real *dbft.DBFT is written as an
// OP line, every callback (arguments and answer) as a C line, and the complete state after the call as an FP
// line, in the token format that coq/extraction/driver.ml parses.
package main

import (
	"bufio"
	"sort"
	"fmt"
	"math/rand"
	"strconv"
	"strings"
	"time"

	"github.com/nspcc-dev/dbft"
	"go.uber.org/zap"
	"go.uber.org/zap/zapcore"
)

// ---------- canonical encodings (must equal the Coq ones) ----------
type H string // comma separated integer tokens

func (h H) String() string { return string(h) }
func toks(xs ...any) H {
	var sb []string
	for _, x := range xs {
		switch v := x.(type) {
		case H:
			if v != "" {
				sb = append(sb, string(v))
			}
		case []H:
			for _, y := range v {
				sb = append(sb, strconv.Itoa(ntok(y)))
				if y != "" {
					sb = append(sb, string(y))
				}
			}
		default:
			sb = append(sb, fmt.Sprint(v))
		}
	}
	return H(strings.Join(sb, ","))
}
func ntok(h H) int {
	if h == "" {
		return 0
	}
	return strings.Count(string(h), ",") + 1
}
func lenHash(h H) H { return toks(ntok(h), h) } // "n,t1..tn"
func outHash(h H) string {
	return strings.TrimSpace(strconv.Itoa(ntok(h)) + " " + strings.ReplaceAll(string(h), ",", " "))
}

type Tx uint64

func (t Tx) Hash() H { return toks(9, uint64(t)) }

type sigv struct {
	key  int
	hash H
}

func (s sigv) bytes() []byte { return []byte(fmt.Sprintf("%d|%s", s.key, s.hash)) }
func parseSig(b []byte) sigv {
	p := strings.SplitN(string(b), "|", 2)
	if len(p) != 2 {
		return sigv{-1, ""}
	}
	k, _ := strconv.Atoi(p[0])
	return sigv{k, H(p[1])}
}

type (
	prepReq struct {
		ts, nonce uint64
		hashes    []H
	}
	prepResp  struct{ ph H }
	chView    struct {
		nv     byte
		reason dbft.ChangeViewReason
		ts     uint64
	}
	commit    struct{ s sigv }
	preCommit struct{ s sigv }
	recReq    struct{ ts uint64 }
	recMsg    struct{ ps []*Payload }
)

func (p prepReq) Timestamp() uint64            { return p.ts }
func (p prepReq) Nonce() uint64                { return p.nonce }
func (p prepReq) TransactionHashes() []H       { return p.hashes }
func (p prepResp) PreparationHash() H          { return p.ph }
func (c chView) NewViewNumber() byte           { return c.nv }
func (c chView) Reason() dbft.ChangeViewReason { return c.reason }
func (c commit) Signature() []byte             { return c.s.bytes() }
func (c preCommit) Data() []byte               { return c.s.bytes() }
func (r recReq) Timestamp() uint64             { return r.ts }

type Payload struct {
	T    dbft.MessageType
	Hgt  uint32
	V    byte
	Idx  uint16
	Body any
}

func (m *recMsg) AddPayload(p dbft.ConsensusPayload[H]) {
	if p.Type() != dbft.RecoveryMessageType {
		c := *p.(*Payload)
		m.ps = append(m.ps, &c)
	}
}
func (m *recMsg) get(t dbft.MessageType) (r []dbft.ConsensusPayload[H]) {
	for _, p := range m.ps {
		if p.T == t {
			c := *p
			r = append(r, &c)
		}
	}
	return
}
func (m *recMsg) GetPrepareRequest(_ dbft.ConsensusPayload[H], _ []dbft.PublicKey, _ uint16) dbft.ConsensusPayload[H] {
	if r := m.get(dbft.PrepareRequestType); len(r) > 0 {
		return r[0]
	}
	return nil
}
func (m *recMsg) GetPrepareResponses(dbft.ConsensusPayload[H], []dbft.PublicKey) []dbft.ConsensusPayload[H] {
	return m.get(dbft.PrepareResponseType)
}
func (m *recMsg) GetChangeViews(dbft.ConsensusPayload[H], []dbft.PublicKey) []dbft.ConsensusPayload[H] {
	return m.get(dbft.ChangeViewType)
}
func (m *recMsg) GetPreCommits(dbft.ConsensusPayload[H], []dbft.PublicKey) []dbft.ConsensusPayload[H] {
	return m.get(dbft.PreCommitType)
}
func (m *recMsg) GetCommits(dbft.ConsensusPayload[H], []dbft.PublicKey) []dbft.ConsensusPayload[H] {
	return m.get(dbft.CommitType)
}
func (m *recMsg) PreparationHash() *H { return nil }

func (p *Payload) ViewNumber() byte                            { return p.V }
func (p *Payload) Type() dbft.MessageType                      { return p.T }
func (p *Payload) Payload() any                                { return p.Body }
func (p *Payload) GetChangeView() dbft.ChangeView              { return p.Body.(dbft.ChangeView) }
func (p *Payload) GetPrepareRequest() dbft.PrepareRequest[H]   { return p.Body.(dbft.PrepareRequest[H]) }
func (p *Payload) GetPrepareResponse() dbft.PrepareResponse[H] { return p.Body.(dbft.PrepareResponse[H]) }
func (p *Payload) GetPreCommit() dbft.PreCommit                { return p.Body.(dbft.PreCommit) }
func (p *Payload) GetCommit() dbft.Commit                      { return p.Body.(dbft.Commit) }
func (p *Payload) GetRecoveryRequest() dbft.RecoveryRequest    { return p.Body.(dbft.RecoveryRequest) }
func (p *Payload) GetRecoveryMessage() dbft.RecoveryMessage[H] { return p.Body.(dbft.RecoveryMessage[H]) }
func (p *Payload) ValidatorIndex() uint16                      { return p.Idx }
func (p *Payload) SetValidatorIndex(i uint16)                  { p.Idx = i }
func (p *Payload) Height() uint32                              { return p.Hgt }

func bodyEnc(b any) H {
	switch v := b.(type) {
	case chView:
		return toks(v.nv, byte(v.reason), v.ts)
	case prepReq:
		return toks(v.ts, v.nonce, len(v.hashes), v.hashes)
	case prepResp:
		return lenHash(v.ph)
	case commit:
		return toks(v.s.key, lenHash(v.s.hash))
	case preCommit:
		return toks(v.s.key, lenHash(v.s.hash))
	case recReq:
		return toks(v.ts)
	}
	panic("body")
}
func (p *Payload) enc0() H { return toks(int(p.T), p.Hgt, p.V, p.Idx, bodyEnc(p.Body)) }
func (p *Payload) Hash() H {
	if rm, ok := p.Body.(*recMsg); ok {
		var inner []H
		for _, q := range rm.ps {
			inner = append(inner, q.enc0())
		}
		return toks(65, p.Hgt, p.V, p.Idx, len(rm.ps), inner)
	}
	return p.enc0()
}

// token form for the history file (space separated, bodies structurally, not as hash)
func bodyOut(b any) string {
	switch v := b.(type) {
	case chView:
		return fmt.Sprintf("%d %d %d", v.nv, byte(v.reason), v.ts)
	case prepReq:
		s := fmt.Sprintf("%d %d %d", v.ts, v.nonce, len(v.hashes))
		for _, h := range v.hashes {
			s += " " + outHash(h)
		}
		return s
	case prepResp:
		return outHash(v.ph)
	case commit:
		return fmt.Sprintf("%d %s", v.s.key, outHash(v.s.hash))
	case preCommit:
		return fmt.Sprintf("%d %s", v.s.key, outHash(v.s.hash))
	case recReq:
		return fmt.Sprint(v.ts)
	case *recMsg:
		s := fmt.Sprint(len(v.ps))
		for _, q := range v.ps {
			s += " " + q.out()
		}
		return s
	}
	panic("bodyOut")
}
func (p *Payload) out() string {
	return strings.TrimSpace(fmt.Sprintf("%d %d %d %d %s", int(p.T), p.Hgt, p.V, p.Idx, bodyOut(p.Body)))
}

type Block struct {
	idx        uint32
	prev       H
	ts, nonce  uint64
	hashes     []H
	final      bool
	txs        []dbft.Transaction[H]
	sig        []byte
	n          *node
}

func (b *Block) Hash() H {
	k := 1
	if b.final {
		k = 2
	}
	return toks(k, b.idx, lenHash(b.prev), b.ts, b.nonce, len(b.hashes), b.hashes)
}
func (b *Block) PrevHash() H       { return b.prev }
func (b *Block) MerkleRoot() H     { return "" }
func (b *Block) Index() uint32     { return b.idx }
func (b *Block) Signature() []byte { return b.sig }
func (b *Block) Sign(k dbft.PrivateKey) error {
	b.n.logf("SIGN %s", outHash(b.Hash()))
	b.n.mon.event(b.n, "SIGN")
	b.sig = sigv{k.(int), b.Hash()}.bytes()
	return nil
}
func (b *Block) Verify(k dbft.PublicKey, s []byte) error {
	v := parseSig(s)
	if v.key != k.(int) || v.hash != b.Hash() {
		return fmt.Errorf("bad sig")
	}
	return nil
}
func (b *Block) Transactions() []dbft.Transaction[H]     { return b.txs }
func (b *Block) SetTransactions(t []dbft.Transaction[H]) { b.txs = t }

type PreBlock struct {
	idx       uint32
	prev      H
	ts, nonce uint64
	hashes    []H
	txs       []dbft.Transaction[H]
	data      []byte
	n         *node
}

func (b *PreBlock) Hash() H { return toks(3, b.idx, lenHash(b.prev), b.ts, b.nonce, len(b.hashes), b.hashes) }
func (b *PreBlock) Data() []byte { return b.data }
func (b *PreBlock) SetData(k dbft.PrivateKey) error {
	b.n.logf("SETDATA %s", outHash(b.Hash()))
	b.n.mon.event(b.n, "SETDATA")
	b.data = sigv{k.(int), b.Hash()}.bytes()
	return nil
}
func (b *PreBlock) Verify(k dbft.PublicKey, d []byte) error {
	v := parseSig(d)
	if v.key != k.(int) || v.hash != b.Hash() {
		return fmt.Errorf("bad data")
	}
	return nil
}
func (b *PreBlock) Transactions() []dbft.Transaction[H]     { return b.txs }
func (b *PreBlock) SetTransactions(t []dbft.Transaction[H]) { b.txs = t }

// ---------- virtual timer ----------
type VTimer struct {
	n        *node
	now      time.Time
	h        uint32
	v        byte
	deadline time.Time
	armed    bool
}

func (t *VTimer) Now() time.Time { t.n.logf("NOW %d", t.now.UnixNano()); return t.now }
func (t *VTimer) Reset(h uint32, v byte, d time.Duration) {
	t.n.logf("TRESET %d %d %d", h, v, int64(d))
	t.n.obs14("TRESET %d %d %d", h, v, int64(d))
	t.n.mon.timerReset(t.n, h, v, d)
	t.h, t.v, t.deadline, t.armed = h, v, t.now.Add(d), true
}
func (t *VTimer) Extend(d time.Duration) {
	t.n.logf("TEXTEND %d", int64(d))
	t.n.obs14("TEXTEND %d", int64(d))
	t.n.mon.effect(t.n, "TEXTEND")
	t.deadline = t.deadline.Add(d)
}
func (t *VTimer) Height() uint32      { t.n.logf("THEIGHT %d", t.h); return t.h }
func (t *VTimer) View() byte          { t.n.logf("TVIEW %d", t.v); return t.v }
func (t *VTimer) C() <-chan time.Time { return nil }

// ---------- node ----------
type node struct {
	id     int
	d      *dbft.DBFT[H]
	tm     *VTimer
	w      *bufio.Writer
	out    []*Payload
	height uint32
	tip    H
	lastTS uint64
	vals   []dbft.PublicKey
	skipRecv bool
	amev   int64
	wo, nilBlock bool
	missing map[uint64]bool
	badTx   map[uint64]bool
	pool    []uint64
	usePool bool
	rng     *rand.Rand
	flaky   bool
	dyn     bool
	rot     bool
	resize  bool // validator list of size sizeAt(height) taken from the head of base
	base    []dbft.PublicKey
	wantTx  map[uint64]bool
	subs    int
	mon     *monitor
	tr      *tracker // per-node monitor state
	started bool
	s14     *[]string // C14: normalised observables (payload kinds, relative timestamps, timer durations)
	muted   int
	opIdx   int
	inc     uint64 // TimestampIncrement
	tpb     time.Duration
	maxTpb  time.Duration
	maxTpbAt func(h uint32) time.Duration // when set: the maximum block time the application reports for height h
	epoch   int64 // virtual clock origin (ns)
	lastVerified []uint64
	rejectVerify map[string]bool // kinds of Verify* callbacks that reject (probes)
	failPre, failBlk int // number of upcoming ProcessPreBlock / ProcessBlock failures
}

func (n *node) obs14(f string, a ...any) {
	if n.s14 != nil {
		*n.s14 = append(*n.s14, fmt.Sprintf("%d ", n.id)+fmt.Sprintf(f, a...))
	}
}

// rel renders a payload with absolute timestamps made relative to the clock origin and nonces / content hashes
// masked (they differ between two executions because the nonce comes from crypto/rand)
func (p *Payload) rel(epoch int64) string {
	hd := fmt.Sprintf("%d %d %d %d", int(p.T), p.Hgt, p.V, p.Idx)
	switch v := p.Body.(type) {
	case chView:
		return fmt.Sprintf("%s nv=%d r=%d ts=%d", hd, v.nv, byte(v.reason), int64(v.ts)-epoch)
	case prepReq:
		return fmt.Sprintf("%s ts=%d ntx=%d", hd, int64(v.ts)-epoch, len(v.hashes))
	case recReq:
		return fmt.Sprintf("%s ts=%d", hd, int64(v.ts)-epoch)
	case *recMsg:
		s := hd + fmt.Sprintf(" k=%d", len(v.ps))
		for _, q := range v.ps {
			s += " [" + q.rel(epoch) + "]"
		}
		return s
	}
	return hd
}

func (n *node) logf(f string, a ...any) {
	if n.muted > 0 { // a monitor is querying the library: not part of the recorded history
		return
	}
	fmt.Fprintf(n.w, "C "+f+"\n", a...)
}
func b2i(b bool) int {
	if b {
		return 1
	}
	return 0
}

type logCore struct{ n *node }

func (c logCore) Enabled(zapcore.Level) bool            { return true }
func (c logCore) With([]zapcore.Field) zapcore.Core     { return c }
func (c logCore) Sync() error                           { return nil }
func (c logCore) Check(e zapcore.Entry, ce *zapcore.CheckedEntry) *zapcore.CheckedEntry {
	if e.Message == "received message" || e.Message == "too big validator index" || e.Level >= zapcore.DPanicLevel {
		return ce.AddCore(e, c)
	}
	return ce
}
func (c logCore) Write(e zapcore.Entry, fs []zapcore.Field) error {
	if e.Message != "received message" && e.Message != "too big validator index" {
		return nil
	}
	enc := zapcore.NewMapObjectEncoder()
	for _, f := range fs {
		f.AddTo(enc)
	}
	m := enc.Fields
	c.n.mon.noteTaken(c.n)
	if e.Message == "received message" {
		c.n.mon.noteReceive(c.n, map[string]int{"ChangeView": 0, "PrepareRequest": 32, "PrepareResponse": 33, "Commit": 48, "PreCommit": 49, "RecoveryRequest": 64, "RecoveryMessage": 65}[fmt.Sprint(m["type"])], uint16(toInt(m["from"])), uint32(toInt(m["height"])), byte(toInt(m["view"])))
	}
	if c.n.skipRecv {
		c.n.skipRecv = false
		return nil
	}
	if e.Message == "too big validator index" {
		// this log line of a nested OnReceive names the sender only: height and view are reported as -1 (wildcard of the model's selector)
		c.n.logf("RECV 0 %v -1 -1", m["from"])
		return nil
	}
	t := map[string]int{"ChangeView": 0, "PrepareRequest": 32, "PrepareResponse": 33, "Commit": 48, "PreCommit": 49, "RecoveryRequest": 64, "RecoveryMessage": 65}[fmt.Sprint(m["type"])]
	c.n.logf("RECV %d %v %v %v", t, m["from"], m["height"], m["view"])
	return nil
}

func newNode(id int, vals []dbft.PublicKey, amev int64, w *bufio.Writer, pre ...func(*node)) *node {
	n := &node{id: id, vals: vals, w: w, amev: amev, inc: 1000000, tpb: time.Second, maxTpb: 3 * time.Second, epoch: 1_600_000_000_000_000_123}
	for _, f := range pre {
		f(n)
	}
	n.tm = &VTimer{n: n, now: time.Unix(0, n.epoch)}
	opts := []func(*dbft.Config[H]){
		dbft.WithTimer[H](n.tm),
		dbft.WithLogger[H](zap.New(logCore{n}, zap.WithFatalHook(zapcore.WriteThenPanic))),
		dbft.WithTimePerBlock[H](func() time.Duration { n.logf("TPB %d", int64(n.tpb)); return n.tpb }),
		dbft.WithTimestampIncrement[H](n.inc),
		dbft.WithGetKeyPair[H](func(ps []dbft.PublicKey) (int, dbft.PrivateKey, dbft.PublicKey) {
			for j, p := range ps {
				if p.(int) == n.id+100 {
					n.logf("KEYPAIR %d %d", j, n.id+100)
					return j, n.id + 100, p
				}
			}
			n.logf("KEYPAIR -1 -1")
			return -1, nil, nil
		}),
		dbft.WithCurrentHeight[H](func() uint32 { n.logf("HEIGHT %d", n.height); return n.height }),
		dbft.WithCurrentBlockHash[H](func() H { n.logf("PREV %s", outHash(n.tip)); return n.tip }),
		dbft.WithGetValidators[H](func(...dbft.Transaction[H]) []dbft.PublicKey {
			if n.rot {
				k := int(n.height+1) % len(n.base)
				n.vals = append(append([]dbft.PublicKey{}, n.base[k:]...), n.base[:k]...)
			}
			if n.resize {
				n.vals = append([]dbft.PublicKey{}, n.base[:sizeAt(n.height+1, len(n.base))]...)
			}
			if n.muted == 0 {
				var sb strings.Builder
				fmt.Fprint(&sb, len(n.vals))
				for _, v := range n.vals {
					fmt.Fprintf(&sb, " %d", v.(int))
				}
				n.logf("VALS %s", sb.String())
			}
			return n.vals
		}),
		dbft.WithWatchOnly[H](func() bool { n.logf("WO %d", b2i(n.wo)); return n.wo }),
		dbft.WithGetVerified[H](func() []dbft.Transaction[H] {
			k := int(n.height % 3)
			if n.usePool {
				k = len(n.pool)
			}
			var r []dbft.Transaction[H]
			s := fmt.Sprint(k)
			for i := 0; i < k; i++ {
				t := Tx(uint64(n.height)*10 + uint64(i) + 1000*uint64(n.id%3)) // pools differ between proposers
				if n.usePool {
					t = Tx(n.pool[i])
				}
				r = append(r, t)
				s += fmt.Sprintf(" %d", uint64(t))
			}
			n.logf("GETVER %s", s)
			n.lastVerified = n.lastVerified[:0]
			for _, t := range r {
				n.lastVerified = append(n.lastVerified, uint64(t.(Tx)))
			}
			return r
		}),
		dbft.WithGetTx[H](func(h H) dbft.Transaction[H] {
			var a, x uint64
			fmt.Sscanf(strings.ReplaceAll(string(h), ",", " "), "%d %d", &a, &x)
			if n.missing[x] || (n.flaky && n.rng.Intn(3) == 0) {
				n.logf("GETTX %s 0", outHash(h))
				if n.wantTx != nil {
					n.wantTx[x] = true
				}
				return nil
			}
			n.logf("GETTX %s 1 %d", outHash(h), x)
			return Tx(x)
		}),
		dbft.WithRequestTx[H](func(hs ...H) {
			n.mon.requestTx(n, hs)
			s := fmt.Sprint(len(hs))
			for _, h := range hs {
				s += " " + outHash(h)
			}
			n.logf("REQTX %s", s)
		}),
		dbft.WithStopTxFlow[H](func() { n.logf("STOP"); n.mon.effect(n, "STOP") }),
		dbft.WithVerifyBlock[H](func(b dbft.Block[H]) bool {
			if b == nil {
				n.logf("VBLOCK 0 1 1")
				n.mon.verifiedBlock(n, "", true)
				return true
			}
			ok := true
			for _, t := range b.Transactions() {
				if t != nil && n.badTx[uint64(t.(Tx))] {
					ok = false
				}
			}
			n.logf("VBLOCK %s 0 %d", outHash(b.Hash()), b2i(ok))
			n.mon.verifiedBlock(n, b.Hash(), ok)
			return ok
		}),
		dbft.WithVerifyPrepareRequest[H](func(p dbft.ConsensusPayload[H]) error { if n.rejectVerify["VPREQ"] || (n.flaky && n.rng.Intn(40) == 0) { n.logf("VPREQ %s 0", p.(*Payload).out()); return fmt.Errorf("rejected") }; n.logf("VPREQ %s 1", p.(*Payload).out()); return nil }),
		dbft.WithVerifyPrepareResponse[H](func(p dbft.ConsensusPayload[H]) error { if n.rejectVerify["VPRESP"] || (n.flaky && n.rng.Intn(40) == 0) { n.logf("VPRESP %s 0", p.(*Payload).out()); return fmt.Errorf("rejected") }; n.logf("VPRESP %s 1", p.(*Payload).out()); return nil }),
		dbft.WithVerifyCommit[H](func(p dbft.ConsensusPayload[H]) error { if n.rejectVerify["VCOMMIT"] || (n.flaky && n.rng.Intn(40) == 0) { n.logf("VCOMMIT %s 0", p.(*Payload).out()); return fmt.Errorf("rejected") }; n.logf("VCOMMIT %s 1", p.(*Payload).out()); return nil }),
		dbft.WithBroadcast[H](func(p dbft.ConsensusPayload[H]) {
			n.logf("BCAST %s", p.(*Payload).out())
			n.obs14("BCAST %s", p.(*Payload).rel(n.epoch))
			n.mon.broadcast(n, p.(*Payload))
			c := *p.(*Payload)
			n.out = append(n.out, &c)
		}),
		dbft.WithProcessBlock[H](func(b dbft.Block[H]) error {
			fail := n.failBlk > 0 || (n.flaky && n.amev >= 0 && uint32(n.amev) <= b.Index() && n.rng.Intn(10) == 0)
			n.mon.processBlock(n, b.(*Block), fail)
			if fail {
				if n.failBlk > 0 {
					n.failBlk--
				}
				n.logf("PBLOCK %s 1", outHash(b.Hash()))
				return fmt.Errorf("not yet")
			}
			n.logf("PBLOCK %s 0", outHash(b.Hash()))
			n.height, n.tip, n.lastTS = b.Index(), b.Hash(), b.(*Block).ts
			return nil
		}),
		dbft.WithNewBlockFromContext[H](func(c *dbft.Context[H]) dbft.Block[H] {
			if n.nilBlock || (n.flaky && n.rng.Intn(60) == 0) {
				n.logf("NEWBLOCK 0")
				n.mon.event(n, "NEWBLOCKNIL")
				return nil
			}
			n.logf("NEWBLOCK 1")
			n.mon.event(n, "NEWBLOCK")
			return &Block{idx: c.BlockIndex, prev: c.PrevHash, ts: c.Timestamp, nonce: c.Nonce, hashes: c.TransactionHashes,
				final: n.amev >= 0 && uint32(n.amev) <= c.BlockIndex, n: n}
		}),
		dbft.WithNewConsensusPayload[H](func(c *dbft.Context[H], t dbft.MessageType, m any) dbft.ConsensusPayload[H] {
			return &Payload{T: t, Hgt: c.BlockIndex, V: c.ViewNumber, Idx: uint16(c.MyIndex), Body: m}
		}),
		dbft.WithNewPrepareRequest[H](func(ts, nonce uint64, hs []H) dbft.PrepareRequest[H] {
			n.logf("NONCE %d", nonce)
			return prepReq{ts, nonce, hs}
		}),
		dbft.WithNewPrepareResponse[H](func(h H) dbft.PrepareResponse[H] { return prepResp{h} }),
		dbft.WithNewChangeView[H](func(nv byte, r dbft.ChangeViewReason, ts uint64) dbft.ChangeView { return chView{nv, r, ts} }),
		dbft.WithNewCommit[H](func(s []byte) dbft.Commit { return commit{parseSig(s)} }),
		dbft.WithNewRecoveryRequest[H](func(ts uint64) dbft.RecoveryRequest { return recReq{ts} }),
		dbft.WithNewRecoveryMessage[H](func() dbft.RecoveryMessage[H] { return &recMsg{} }),
	}
	if amev >= 0 {
		opts = append(opts,
			dbft.WithAntiMEVExtensionEnablingHeight[H](amev),
			dbft.WithNewPreCommit[H](func(d []byte) dbft.PreCommit { return preCommit{parseSig(d)} }),
			dbft.WithVerifyPreCommit[H](func(p dbft.ConsensusPayload[H]) error { if n.rejectVerify["VPRECOMMIT"] || (n.flaky && n.rng.Intn(40) == 0) { n.logf("VPRECOMMIT %s 0", p.(*Payload).out()); return fmt.Errorf("rejected") }; n.logf("VPRECOMMIT %s 1", p.(*Payload).out()); return nil }),
			dbft.WithVerifyPreBlock[H](func(b dbft.PreBlock[H]) bool {
				n.mon.event(n, "VPREBLOCK")
				if b == nil {
					n.logf("VPREBLOCK 0 1 1")
					n.mon.verifiedBlock(n, "", true)
				} else {
					n.logf("VPREBLOCK %s 0 1", outHash(b.(*PreBlock).Hash()))
					n.mon.verifiedBlock(n, b.(*PreBlock).Hash(), true)
				}
				return true
			}),
			dbft.WithNewPreBlockFromContext[H](func(c *dbft.Context[H]) dbft.PreBlock[H] {
				n.logf("NEWPREBLOCK 1")
				n.mon.event(n, "NEWPREBLOCK")
				return &PreBlock{idx: c.BlockIndex, prev: c.PrevHash, ts: c.Timestamp, nonce: c.Nonce, hashes: c.TransactionHashes, n: n}
			}),
			dbft.WithProcessPreBlock[H](func(b dbft.PreBlock[H]) error {
				fail := n.failPre > 0 || (n.flaky && n.rng.Intn(10) == 0)
				n.mon.processPreBlock(n, b.(*PreBlock), fail)
				if fail {
					if n.failPre > 0 {
						n.failPre--
					}
					n.logf("PPREBLOCK %s 1", outHash(b.(*PreBlock).Hash()))
					return fmt.Errorf("not yet")
				}
				n.logf("PPREBLOCK %s 0", outHash(b.(*PreBlock).Hash()))
				return nil
			}),
		)
	}
	if n.dyn {
		opts = append(opts,
			dbft.WithMaxTimePerBlock[H](func() time.Duration {
				m := n.maxTpb
				if n.maxTpbAt != nil {
					m = n.maxTpbAt(n.height + 1)
				}
				n.logf("MAXTPB %d", int64(m))
				return m
			}),
			dbft.WithSubscribeForTxs[H](func() { n.logf("SUB"); n.subs++; n.mon.event(n, "SUB") }))
	}
	var err error
	n.d, err = dbft.New[H](opts...)
	if err != nil {
		panic(err)
	}
	return n
}

func toInt(x any) int64 {
	switch v := x.(type) {
	case int64:
		return v
	case uint64:
		return int64(v)
	case int:
		return int64(v)
	case uint32:
		return int64(v)
	case uint16:
		return int64(v)
	case uint8:
		return int64(v)
	}
	var r int64
	fmt.Sscan(fmt.Sprint(x), &r)
	return r
}

func cnt[T any](l []T, f func(T) bool) int {
	c := 0
	for _, x := range l {
		if f(x) {
			c++
		}
	}
	return c
}
func tblOut(l []dbft.ConsensusPayload[H]) string {
	var sb []string
	for _, p := range l {
		if p == nil {
			sb = append(sb, "-")
		} else {
			sb = append(sb, "+ "+p.(*Payload).out())
		}
	}
	return strings.Join(sb, " ")
}
func blockOut(b dbft.Block[H]) string {
	if b == nil {
		return "0"
	}
	k := b.(*Block)
	s := fmt.Sprintf("1 %d", b2i(k.final))
	if k.sig == nil {
		s += " 0"
	} else {
		v := parseSig(k.sig)
		s += fmt.Sprintf(" 1 %d %s", v.key, outHash(v.hash))
	}
	s += txsOut(k.txs)
	s += fmt.Sprintf(" %d %s %d %d %d", k.idx, outHash(k.prev), k.ts, k.nonce, len(k.hashes))
	for _, h := range k.hashes {
		s += " " + outHash(h)
	}
	return s
}
func preBlockOut(b dbft.PreBlock[H]) string {
	if b == nil {
		return "0"
	}
	k := b.(*PreBlock)
	s := "1"
	if k.data == nil {
		s += " 0"
	} else {
		v := parseSig(k.data)
		s += fmt.Sprintf(" 1 %d %s", v.key, outHash(v.hash))
	}
	s += txsOut(k.txs)
	s += fmt.Sprintf(" %d %s %d %d %d", k.idx, outHash(k.prev), k.ts, k.nonce, len(k.hashes))
	for _, h := range k.hashes {
		s += " " + outHash(h)
	}
	return s
}
func txsOut(txs []dbft.Transaction[H]) string {
	if txs == nil {
		return " 0"
	}
	s := fmt.Sprintf(" 1 %d", len(txs))
	for _, t := range txs {
		if t == nil {
			s += " -1"
		} else {
			s += fmt.Sprintf(" %d", uint64(t.(Tx)))
		}
	}
	return s
}

// fpString renders the complete state of the instance (exported Context + unexported fields through the
// verif hook) in the canonical form shared with driver.ml; sections are separated by "|".
func (n *node) fpString() string {
	d := n.d
	vs := d.VerifSnapshot()
	lbt, pst := int64(-1), int64(-1)
	if !vs.LastBlockTime.IsZero() {
		lbt = vs.LastBlockTime.UnixNano()
	}
	if !vs.PrepareSentTime.IsZero() {
		pst = vs.PrepareSentTime.UnixNano()
	}
	var sb []string
	add := func(f string, a ...any) { sb = append(sb, fmt.Sprintf(f, a...)) }
	add("%d %d %d %d %s %d %d", d.BlockIndex, d.ViewNumber, d.MyIndex, d.PrimaryIndex, outHash(d.PrevHash), d.Timestamp, d.Nonce)
	add("| %d", len(d.Validators))
	for _, v := range d.Validators {
		add("%d", v.(int))
	}
	add("| %d", len(d.TransactionHashes))
	for _, h := range d.TransactionHashes {
		add("%s", outHash(h))
	}
	add("| %d", len(d.MissingTransactions))
	for _, h := range d.MissingTransactions {
		add("%s", outHash(h))
	}
	var txs []string
	for h := range d.Transactions {
		txs = append(txs, outHash(h))
	}
	sort.Strings(txs)
	add("| %d %s", len(txs), strings.Join(txs, " "))
	add("| %s | %s | %s | %s | %s", tblOut(d.PreparationPayloads), tblOut(d.PreCommitPayloads), tblOut(d.CommitPayloads), tblOut(d.ChangeViewPayloads), tblOut(d.LastChangeViewPayloads))
	add("|")
	for _, hv := range d.LastSeenMessage {
		if hv == nil {
			add("-")
		} else {
			add("+ %d %d", hv.Height, hv.View)
		}
	}
	add("| %d %d %d %d %d %d %d %d %d", b2i(vs.BlockProcessed), b2i(vs.PreBlockProcessed), b2i(vs.TxSubscriptionOn), vs.LastBlockTimestamp, lbt, vs.LastBlockIndex, vs.LastBlockView, int64(vs.TimePerBlock), int64(vs.MaxTimePerBlock))
	add("| %d %d %d", pst, vs.RttIdx, int64(vs.RttAvg))
	key := -1
	if d.Priv != nil {
		key = d.Priv.(int)
	}
	add("| %d %d %d %d %d %d %d", b2i(vs.HasHeader), b2i(vs.HasBlock), b2i(vs.HasPreHeader), b2i(vs.HasPreBlock), b2i(vs.Recovering), b2i(vs.CacheReady), key)
	// cache, sorted
	var cs []string
	for h, kinds := range vs.Cache {
		for kind, m := range kinds {
			for idx, p := range m {
				cs = append(cs, fmt.Sprintf("%010d %s %05d %s", h, map[string]string{"prepare": "a", "chViews": "b", "preCommit": "c", "commit": "d"}[kind], idx, p.(*Payload).out()))
			}
		}
		if len(kinds["prepare"])+len(kinds["chViews"])+len(kinds["preCommit"])+len(kinds["commit"]) == 0 {
			cs = append(cs, fmt.Sprintf("%010d e", h))
		}
	}
	sort.Strings(cs)
	add("| %d %s", len(cs), strings.Join(cs, " ; "))
	add("| %s", blockOut(vs.Header))
	add("| %s", preBlockOut(vs.PreHeader))
	k := 0
	rt := ""
	for i, t := range vs.RttTimes {
		if t != 0 {
			k++
			rt += fmt.Sprintf(" %d %d", i, int64(t))
		}
	}
	add("| %d%s", k, rt)
	return strings.Join(strings.Fields(strings.Join(sb, " ")), " ")
}
func (n *node) fp() { fmt.Fprintf(n.w, "FP %s\n", n.fpString()) }

// op performs one API call on the real library: OP line, the callbacks it causes (C lines, written by the mock),
// then the FP line (or a PANIC line).
func (n *node) op(desc string, f func()) {
	fmt.Fprintf(n.w, "OP %d %s\n", n.id, desc)
	n.opIdx++
	n.mon.before(n, desc)
	defer func() {
		if r := recover(); r != nil {
			fmt.Fprintf(n.w, "PANIC %v\n", strings.ReplaceAll(fmt.Sprint(r), "\n", " "))
			n.mon.hit("C11", "panic", fmt.Sprintf("node %d op [%s] panicked: %v", n.id, desc, r))
		}
	}()
	f()
	n.fp()
	n.mon.after(n, desc)
}

func mkVals(n int) []dbft.PublicKey {
	v := make([]dbft.PublicKey, n)
	for i := range v {
		v[i] = i + 100
	}
	return v
}
func (n *node) recv(p *Payload) {
	c := *p
	n.skipRecv = true
	n.op("M "+c.out(), func() { n.d.OnReceive(&c) })
	n.skipRecv = false
}

// expectedValidators is the list GetValidators reports when the ledger is at height h-1 (what the callback computes, without logging)
func (n *node) expectedValidators(h uint32) []dbft.PublicKey {
	if len(n.base) == 0 {
		return n.vals
	}
	if n.rot {
		k := int(h) % len(n.base)
		return append(append([]dbft.PublicKey{}, n.base[k:]...), n.base[:k]...)
	}
	if n.resize {
		return append([]dbft.PublicKey{}, n.base[:sizeAt(h, len(n.base))]...)
	}
	return n.vals
}

// sizeAt is the number of validators at a height in the resize mode of the generator: N, N-1, N, N-2, ...
func sizeAt(h uint32, n int) int {
	switch h % 4 {
	case 0:
		return n - 1
	case 2:
		if n >= 4 {
			return n - 2
		}
		return n - 1
	}
	return n
}
