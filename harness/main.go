// verifh: harness driving the real nspcc-dev/dbft library (built from /repo with -tags verif).
//
//	verifh gen  <seed> <from> <to>         random system runs + probes (histories on stdout)
//	verifh scen | fork                     corpus scenarios
//	verifh sync <mode> <seed> <from> <to>  synchronous runs (c08 c09s c09p c09r c16)
//	verifh shift <seed> <from> <to> <D>    C14: the same runs with the virtual clock moved by D ns
//	verifh quorum | timer | codec ...      see aux.go
package main

import (
	"bufio"
	"fmt"
	"os"
	"sort"
	"strconv"
	"time"
)

// capWriter aborts the process when a run produces an absurd amount of output (disk is limited).
type capWriter struct {
	f   *os.File
	n   int64
	max int64
}

func (c *capWriter) Write(p []byte) (int, error) {
	c.n += int64(len(p))
	if c.n > c.max {
		fmt.Fprintln(os.Stderr, "verifh: output cap exceeded, aborting")
		os.Exit(3)
	}
	return c.f.Write(p)
}

func timeDur(x int64) time.Duration { return time.Duration(x) }

func atoi(s string) int { v, _ := strconv.Atoi(s); return v }
func atoi64(s string) int64 {
	v, _ := strconv.ParseInt(s, 10, 64)
	return v
}

func printStats(stats map[string]int) {
	var ks []string
	for k := range stats {
		ks = append(ks, k)
	}
	sort.Strings(ks)
	for _, k := range ks {
		fmt.Fprintf(os.Stderr, "STAT %s %d\n", k, stats[k])
	}
}

func main() {
	if len(os.Args) < 2 {
		fmt.Fprintln(os.Stderr, "usage: verifh gen|scen|fork|sync|shift|quorum|timer|codec ...")
		os.Exit(2)
	}
	w := bufio.NewWriterSize(&capWriter{f: os.Stdout, max: 4 << 30}, 1<<20)
	defer w.Flush()
	stats := map[string]int{}
	defer printStats(stats)
	a := os.Args[2:]
	switch os.Args[1] {
	case "gen":
		genRuns(w, atoi64(a[0]), atoi(a[1]), atoi(a[2]), stats)
	case "shift":
		shiftRuns(w, atoi64(a[0]), atoi(a[1]), atoi(a[2]), stats)
	case "scen":
		scenarios(w)
	case "fork":
		forkScenario(w)
	case "sync":
		syncRuns(w, atoi64(a[1]), atoi(a[2]), atoi(a[3]), syncOpts{mode: a[0]}, stats)
	default:
		if !auxMain(w, os.Args[1], a) {
			fmt.Fprintln(os.Stderr, "unknown command", os.Args[1])
			os.Exit(2)
		}
	}
}
