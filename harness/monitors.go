// Property monitors: each property's decidable predicate evaluated directly on what the real library does
// (independent of the Coq model). A hit is written into the history stream as
//   MON <prop> <signature> | <description>
// The signature is the cause classification matched against /verif/known_findings.json.
package main

import (
	"fmt"
	"sort"
	"strings"

	"github.com/nspcc-dev/dbft"
)

type hitRec struct {
	prop, sig, desc string
	run, node, op   int
}

type monitor struct {
	run      int
	hits     []hitRec
	counts   map[string]int                // checks evaluated per property (coverage)
	accepted map[uint32]map[H][]int        // height -> block hash -> accepting nodes
	tainted  map[uint32]map[int]string     // height -> node -> signature of a C02 hit at its acceptance
	byz      map[int]bool
	quiet    bool
}

func newMonitor(run int) *monitor {
	return &monitor{run: run, counts: map[string]int{}, accepted: map[uint32]map[H][]int{}, tainted: map[uint32]map[int]string{}, byz: map[int]bool{}}
}

// per-node monitor state, reset per height where noted
type tracker struct {
	height      uint32 // height the per-height fields belong to
	decided     bool
	decidedAtOp bool   // the height was already decided when the current API call began
	curDesc     string // the current API call
	commit      *H
	precommit   *H
	lockView    int // -1: not locked
	proposals   map[byte]H
	responses   map[byte]H
	lastOwnView int
	verifiedOK  map[H]bool
	early       map[uint16]bool // commit slot filled while no header was available
	earlyPre    map[uint16]bool // pre-commit slot filled while no pre-block was available
	nilAt       map[uint16]bool // commit stored in a call in which NewBlockFromContext returned nil (it could not be verified then)
	preSent     bool
	blockNil    bool // NewBlockFromContext returned nil at this height: stored commits could not be verified then
	preOKs      int
	blockOKs    int
	wanted      map[H]bool // hashes of the last RequestTx
	wantedView  byte
	wantedSet   bool
	answered    bool
	lastStartTS uint64
	recvs       int // payloads the library took in (received / refused for their index) during the current API call
	expReplay   int // payloads cached for the height a Reset is about to initialise: each must be replayed
	signs       int // block signatures requested since the last Start/Reset (one initialisation epoch)
	fpBefore    string
	effects     []string
	viewBefore  byte
	heightBefore uint32
	inadmissible string
	c12ok       bool
	reqEpochH   uint32          // epoch of requestedEpoch
	reqEpochV   byte
	requestedEpoch map[H]bool   // every hash passed to RequestTx in the current (height, view)
}

func newTracker() *tracker { return &tracker{lockView: -1} }

func (t *tracker) roll(h uint32) {
	if t.height == h && t.proposals != nil {
		return
	}
	t.height = h
	t.decided = false
	t.commit, t.precommit = nil, nil
	t.lockView = -1
	t.proposals, t.responses = map[byte]H{}, map[byte]H{}
	t.lastOwnView = -1
	t.verifiedOK = map[H]bool{}
	t.early, t.earlyPre = map[uint16]bool{}, map[uint16]bool{}
	t.nilAt = map[uint16]bool{}
	t.preSent = false
	t.blockNil = false
	t.preOKs, t.blockOKs = 0, 0
	t.wanted, t.wantedSet, t.answered = nil, false, false
}

func (m *monitor) hit(prop, sig, desc string) {
	if m == nil {
		return
	}
	m.hits = append(m.hits, hitRec{prop: prop, sig: sig, desc: desc, run: m.run})
}
func (m *monitor) nhit(n *node, prop, sig, desc string) {
	if m == nil {
		return
	}
	m.hits = append(m.hits, hitRec{prop: prop, sig: sig, desc: desc, run: m.run, node: n.id, op: n.opIdx})
	fmt.Fprintf(n.w, "MON %s %s | %s\n", prop, sig, desc)
}
func (m *monitor) tick(prop string) {
	if m != nil {
		m.counts[prop]++
	}
}

func amevOn(n *node, h uint32) bool { return n.amev >= 0 && uint32(n.amev) <= h }

func (n *node) honestValidator() bool { return n.d.MyIndex >= 0 && !n.wo }

// ---- callbacks ----

func (m *monitor) timerReset(n *node, h uint32, v byte, d interface{ Nanoseconds() int64 }) {
	if m == nil {
		return
	}
	n.muted++
	defer func() { n.muted-- }()
	m.tick("C10")
	if d.Nanoseconds() < 0 {
		sig := "negative-duration"
		// timePerBlock << (view+2) does not fit int64: the back-off shift itself overflowed
		if sh := uint(n.d.ViewNumber) + 2; sh >= 63 || int64(n.tpb) >= (int64(1)<<62)>>(sh-1) {
			sig = "negative-duration/shift-overflow"
		}
		m.nhit(n, "C10", sig, fmt.Sprintf("node %d armed timer (%d,%d) with negative duration %d", n.id, h, v, d.Nanoseconds()))
	}
	if n.tr != nil {
		n.tr.effects = append(n.tr.effects, "TRESET")
		m.tick("C05")
		if t := n.tr; t.decidedAtOp && t.decided && !strings.HasPrefix(t.curDesc, "R ") && !strings.HasPrefix(t.curDesc, "S ") {
			m.nhit(n, "C05", "timer-armed-after-decision", fmt.Sprintf("node %d re-armed its timer on [%s] after deciding height %d", n.id, t.curDesc, n.d.BlockIndex))
		}
	}
}

// solicited: the API call delivers a RecoveryRequest or a ChangeView
func solicited(desc string) bool {
	f := strings.Fields(desc)
	if len(f) < 2 || f[0] != "M" {
		return false
	}
	return f[1] == fmt.Sprint(int(dbft.RecoveryRequestType)) || f[1] == fmt.Sprint(int(dbft.ChangeViewType))
}

func (m *monitor) event(n *node, kind string) {
	if m == nil || n.tr == nil {
		return
	}
	n.muted++
	defer func() { n.muted-- }()
	t := n.tr
	t.effects = append(t.effects, kind)
	h := n.d.BlockIndex
	t.roll(h)
	switch kind {
	case "NEWBLOCKNIL":
		t.blockNil = true
	case "NEWPREBLOCK", "SETDATA", "VPREBLOCK":
		m.tick("C07")
		if !amevOn(n, h) {
			m.nhit(n, "C07", "amev-off-"+strings.ToLower(kind), fmt.Sprintf("node %d: %s at height %d where anti-MEV is disabled", n.id, kind, h))
		}
	case "NEWBLOCK", "SIGN":
		m.tick("C07")
		if amevOn(n, h) && t.preOKs == 0 {
			m.nhit(n, "C07", "final-block-before-preblock", fmt.Sprintf("node %d: %s at anti-MEV height %d before the pre-block was processed", n.id, kind, h))
		}
	}
	if kind == "SIGN" {
		// the statement of Properties/C03.v an_honest_node_signs_at_most_one_block_per_epoch, observed on the real library
		m.tick("C03")
		t.signs++
		if t.signs > 1 {
			m.nhit(n, "C03", "second-block-signature", fmt.Sprintf("node %d asked for a block signature %d times since its last Start/Reset (height %d, view %d)", n.id, t.signs, h, n.d.ViewNumber))
		}
	}
	if (kind == "SIGN" || kind == "SETDATA") && !n.honestValidator() {
		m.nhit(n, "C13", "watch-only-signs", fmt.Sprintf("watch-only node %d produced %s", n.id, kind))
	}
}

func (m *monitor) effect(n *node, kind string) {
	if m == nil || n.tr == nil {
		return
	}
	n.muted++
	defer func() { n.muted-- }()
	n.tr.effects = append(n.tr.effects, kind)
}

func (m *monitor) verifiedBlock(n *node, h H, ok bool) {
	if m == nil || n.tr == nil {
		return
	}
	n.muted++
	defer func() { n.muted-- }()
	n.tr.roll(n.d.BlockIndex)
	if ok {
		n.tr.verifiedOK[h] = true // (h is empty for a nil block the application chose to accept)
	}
}

func (m *monitor) requestTx(n *node, hs []H) {
	if m == nil || n.tr == nil {
		return
	}
	n.muted++
	defer func() { n.muted-- }()
	t := n.tr
	t.effects = append(t.effects, "REQTX")
	t.roll(n.d.BlockIndex)
	t.wanted = map[H]bool{}
	if t.requestedEpoch == nil || t.reqEpochH != n.d.BlockIndex || t.reqEpochV != n.d.ViewNumber {
		t.requestedEpoch, t.reqEpochH, t.reqEpochV = map[H]bool{}, n.d.BlockIndex, n.d.ViewNumber
	}
	for _, h := range hs {
		t.wanted[h] = true
		t.requestedEpoch[h] = true
	}
	t.wantedView, t.wantedSet, t.answered = n.d.ViewNumber, true, false
}

// holdsAllTx: every transaction of the proposal is present (by hash, not by count)
func holdsAllTx(d *dbft.DBFT[H]) bool {
	for _, h := range d.TransactionHashes {
		if tx, ok := d.Transactions[h]; !ok || tx == nil {
			return false
		}
	}
	return true
}

func prepHashOf(p dbft.ConsensusPayload[H]) H { return p.GetPrepareResponse().PreparationHash() }

func (m *monitor) broadcast(n *node, p *Payload) {
	if m == nil || n.tr == nil {
		return
	}
	n.muted++
	defer func() { n.muted-- }()
	d := n.d
	t := n.tr
	h := d.BlockIndex
	t.roll(h)
	t.effects = append(t.effects, fmt.Sprintf("BCAST%d", int(p.T)))
	m.tick("C13")
	if !n.honestValidator() {
		m.nhit(n, "C13", "watch-only-broadcast", fmt.Sprintf("watch-only node %d broadcast %s", n.id, p.out()))
	}
	// C16: a new-transaction notification makes a primary propose or a backup re-arm its timer; it never makes a node ask
	// for a view change or for recovery state
	if t.curDesc == "N" {
		m.tick("C16")
		if p.T == dbft.ChangeViewType || p.T == dbft.RecoveryRequestType {
			m.nhit(n, "C16", "view-change-on-notification", fmt.Sprintf("node %d broadcast type %d on a new-transaction notification at (%d,%d)", n.id, p.T, h, d.ViewNumber))
		}
	}
	m.tick("C05")
	if t.decided && p.T != dbft.RecoveryMessageType {
		m.nhit(n, "C05", "broadcast-after-decision", fmt.Sprintf("node %d broadcast type %d after deciding height %d", n.id, p.T, h))
	}
	// after the decision a recovery message is only a reply: to a received RecoveryRequest (or a ChangeView, which the code
	// answers the same way)
	if t.decidedAtOp && t.decided && p.T == dbft.RecoveryMessageType && !solicited(t.curDesc) {
		m.nhit(n, "C05", "unsolicited-recovery-after-decision", fmt.Sprintf("node %d broadcast a recovery message on [%s] after deciding height %d", n.id, t.curDesc, h))
	}
	if m.byz[n.id] { // restarted with forgotten state: counted faulty, the honest-node clauses below do not apply
		return
	}
	// C03: own-view monotonicity
	m.tick("C03")
	if int(p.V) < t.lastOwnView {
		m.nhit(n, "C03", "own-view-decreased", fmt.Sprintf("node %d: own payload view %d after %d at height %d", n.id, p.V, t.lastOwnView, h))
	}
	if int(p.V) > t.lastOwnView {
		t.lastOwnView = int(p.V)
	}
	if t.lockView >= 0 && int(d.ViewNumber) != t.lockView {
		m.nhit(n, "C03", "view-moved-after-commit", fmt.Sprintf("node %d moved from view %d to %d after its (pre)commit at height %d", n.id, t.lockView, d.ViewNumber, h))
	}
	primary := d.PreparationPayloads[d.PrimaryIndex]
	countPreps := func() (cnt int, hasReq bool) {
		if primary == nil || primary.Type() != dbft.PrepareRequestType {
			return 0, false
		}
		rh := primary.Hash()
		for _, q := range d.PreparationPayloads {
			if q == nil || q.ViewNumber() != d.ViewNumber {
				continue
			}
			if q.Type() == dbft.PrepareRequestType && q.Hash() == rh {
				cnt++
			} else if q.Type() == dbft.PrepareResponseType && prepHashOf(q) == rh {
				cnt++
			}
		}
		return cnt, true
	}
	switch p.T {
	case dbft.PrepareRequestType:
		if old, ok := t.proposals[p.V]; ok && old != p.Hash() {
			m.nhit(n, "C03", "two-proposals", fmt.Sprintf("node %d: two different proposals in view %d at height %d", n.id, p.V, h))
		}
		t.proposals[p.V] = p.Hash()
		// C15
		m.tick("C15")
		r := p.Body.(prepReq)
		now := uint64(n.tm.now.UnixNano()) / n.inc * n.inc
		want := t.lastStartTS + n.inc
		if now > want {
			want = now
		}
		if r.ts != want || r.ts <= t.lastStartTS {
			m.nhit(n, "C15", "timestamp", fmt.Sprintf("node %d proposal ts=%d, previous block ts=%d, clock=%d inc=%d (want %d)", n.id, r.ts, t.lastStartTS, n.tm.now.UnixNano(), n.inc, want))
		}
		ok := len(r.hashes) == len(n.lastVerified)
		for i := range r.hashes {
			if ok && r.hashes[i] != Tx(n.lastVerified[i]).Hash() {
				ok = false
			}
		}
		if !ok {
			m.nhit(n, "C15", "transactions", fmt.Sprintf("node %d proposal lists %d hashes, pool callback returned %v", n.id, len(r.hashes), n.lastVerified))
		}
		if r.ts != d.Timestamp || r.nonce != d.Nonce || len(r.hashes) != len(d.TransactionHashes) {
			m.nhit(n, "C15", "context-mismatch", fmt.Sprintf("node %d proposal differs from its context", n.id))
		}
	case dbft.PrepareResponseType:
		if old, ok := t.responses[p.V]; ok && old != p.Hash() {
			m.nhit(n, "C03", "two-responses", fmt.Sprintf("node %d: two different responses in view %d at height %d", n.id, p.V, h))
		}
		t.responses[p.V] = p.Hash()
		t.answered = true
		m.tick("C04")
		switch {
		case primary == nil || primary.Type() != dbft.PrepareRequestType:
			m.nhit(n, "C04", "response-without-proposal", fmt.Sprintf("node %d responded at (%d,%d) without holding a proposal", n.id, h, d.ViewNumber))
		case uint(primary.ValidatorIndex()) != d.GetPrimaryIndex(d.ViewNumber):
			m.nhit(n, "C04", "response-to-non-primary", fmt.Sprintf("node %d responded to a proposal from %d, primary is %d", n.id, primary.ValidatorIndex(), d.GetPrimaryIndex(d.ViewNumber)))
		case p.Body.(prepResp).ph != primary.Hash():
			m.nhit(n, "C04", "response-names-other-hash", fmt.Sprintf("node %d response does not name the held proposal", n.id))
		case !holdsAllTx(d):
			m.nhit(n, "C04", "response-missing-transactions", fmt.Sprintf("node %d responded holding %d of %d transactions", n.id, len(d.Transactions), len(d.TransactionHashes)))
		default:
			var bh H
			if amevOn(n, h) {
				if pb := d.PreBlock(); pb != nil {
					bh = pb.(*PreBlock).Hash()
				}
			} else if vs := d.VerifSnapshot(); vs.Block != nil {
				bh = vs.Block.Hash()
			}
			if !t.verifiedOK[bh] {
				m.nhit(n, "C04", "response-without-verification", fmt.Sprintf("node %d responded at (%d,%d) but the block verification callback did not accept %s", n.id, h, d.ViewNumber, bh))
			}
		}
	case dbft.ChangeViewType:
		if t.lockView >= 0 {
			m.nhit(n, "C03", "changeview-after-commit", fmt.Sprintf("node %d asked for a view change after its (pre)commit at height %d", n.id, h))
		}
		t.answered = true
	case dbft.CommitType, dbft.PreCommitType:
		ref := &t.commit
		if p.T == dbft.PreCommitType {
			ref = &t.precommit
		}
		ph := p.Hash()
		if *ref != nil && **ref != ph {
			m.nhit(n, "C03", "two-commits", fmt.Sprintf("node %d two different payloads of type %d at height %d", n.id, p.T, h))
		}
		*ref = &ph
		if t.lockView < 0 {
			t.lockView = int(d.ViewNumber)
		}
		if p.T == dbft.PreCommitType {
			t.preSent = true
			m.tick("C07")
			if !amevOn(n, h) {
				m.nhit(n, "C07", "amev-off-precommit", fmt.Sprintf("node %d broadcast a PreCommit at height %d where anti-MEV is disabled", n.id, h))
			}
		}
		gateBy := (p.T == dbft.CommitType && !amevOn(n, h)) || (p.T == dbft.PreCommitType && amevOn(n, h))
		if gateBy {
			m.tick("C04")
			cnt, hasReq := countPreps()
			if !hasReq {
				m.nhit(n, "C04", "commit-without-proposal", fmt.Sprintf("node %d sent type %d at (%d,%d) without holding the proposal", n.id, p.T, h, d.ViewNumber))
			} else if cnt < mOf(d) {
				m.nhit(n, "C04", "commit-without-quorum", fmt.Sprintf("node %d sent type %d at (%d,%d) holding %d matching preparations, M=%d", n.id, p.T, h, d.ViewNumber, cnt, mOf(d)))
			} else if !holdsAllTx(d) {
				m.nhit(n, "C04", "commit-missing-transactions", fmt.Sprintf("node %d sent type %d without all transactions", n.id, p.T))
			}
		}
		if p.T == dbft.CommitType && amevOn(n, h) {
			m.tick("C07")
			cnt := 0
			for _, q := range d.PreCommitPayloads {
				if q != nil && q.ViewNumber() == d.ViewNumber {
					cnt++
				}
			}
			switch {
			case !t.preSent:
				m.nhit(n, "C07", "commit-before-own-precommit", fmt.Sprintf("node %d committed at anti-MEV height %d without having sent a PreCommit", n.id, h))
			case cnt < mOf(d):
				m.nhit(n, "C07", "commit-without-precommit-quorum", fmt.Sprintf("node %d committed at anti-MEV height %d with %d pre-commits, M=%d", n.id, h, cnt, mOf(d)))
			case t.preOKs == 0:
				m.nhit(n, "C07", "commit-before-preblock", fmt.Sprintf("node %d committed at anti-MEV height %d before ProcessPreBlock succeeded", n.id, h))
			}
		}
	case dbft.RecoveryMessageType:
		// every copy of an own commit / pre-commit inside a recovery message equals the original
		for _, q := range p.Body.(*recMsg).ps {
			if int(q.Idx) != d.MyIndex {
				continue
			}
			if q.T == dbft.CommitType && t.commit != nil && q.Hash() != *t.commit {
				m.nhit(n, "C03", "retransmitted-commit-differs", fmt.Sprintf("node %d recovery message carries a different own commit", n.id))
			}
			if q.T == dbft.PreCommitType && t.precommit != nil && q.Hash() != *t.precommit {
				m.nhit(n, "C03", "retransmitted-commit-differs", fmt.Sprintf("node %d recovery message carries a different own pre-commit", n.id))
			}
		}
	}
}

func (m *monitor) processPreBlock(n *node, b *PreBlock, fail bool) {
	if m == nil || n.tr == nil {
		return
	}
	n.muted++
	defer func() { n.muted-- }()
	d := n.d
	t := n.tr
	t.roll(d.BlockIndex)
	t.effects = append(t.effects, "PPREBLOCK")
	m.tick("C07")
	m.tick("C02")
	if !amevOn(n, d.BlockIndex) {
		m.nhit(n, "C07", "amev-off-processpreblock", fmt.Sprintf("node %d: ProcessPreBlock at height %d where anti-MEV is disabled", n.id, d.BlockIndex))
	}
	if t.preOKs > 0 {
		m.nhit(n, "C07", "preblock-twice", fmt.Sprintf("node %d: ProcessPreBlock again after it succeeded at height %d", n.id, d.BlockIndex))
	}
	valid, counted, early := 0, 0, 0
	for i, c := range d.PreCommitPayloads {
		if c != nil && c.ViewNumber() == d.ViewNumber {
			counted++
			if b.Verify(d.Validators[i], c.GetPreCommit().Data()) == nil {
				valid++
			} else if t.earlyPre[uint16(i)] {
				early++
			}
		}
	}
	if valid < mOf(d) {
		sig := "too-few-precommits"
		if counted >= mOf(d) {
			sig = "invalid-precommit-counted"
			if counted-valid == early {
				sig = "early-precommit-unverified"
			}
		}
		m.nhit(n, "C02", sig, fmt.Sprintf("node %d hands over pre-block %d with %d valid of %d counted pre-commits, M=%d", n.id, b.idx, valid, counted, mOf(d)))
	}
	if !fail {
		t.preOKs++
	}
}

func (m *monitor) processBlock(n *node, b *Block, fail bool) {
	if m == nil || n.tr == nil {
		return
	}
	n.muted++
	defer func() { n.muted-- }()
	d := n.d
	t := n.tr
	t.roll(d.BlockIndex)
	t.effects = append(t.effects, "PBLOCK")
	m.tick("C02")
	valid, counted, early, nilrc := 0, 0, 0, 0
	for i, c := range d.CommitPayloads {
		if c != nil && c.ViewNumber() == d.ViewNumber {
			counted++
			if b.Verify(d.Validators[i], c.GetCommit().Signature()) == nil {
				valid++
			} else if t.early[uint16(i)] {
				early++
			} else if t.nilAt[uint16(i)] {
				nilrc++
			}
		}
	}
	c02sig := ""
	if valid < mOf(d) {
		sig := "too-few-commits"
		if counted >= mOf(d) {
			sig = "invalid-commit-counted"
			if nilrc > 0 && counted-valid == early+nilrc {
				// the commit arrived while the proposal was held, but the application's NewBlockFromContext returned nil in that very
				// call: the library could not verify it then and never verifies it later (D2r)
				sig = "commit-unverified/block-unavailable-at-receipt"
			} else if counted-valid == early {
				sig = "early-commit-unverified"
				if amevOn(n, d.BlockIndex) {
					// the code verifies stored commits when it sends its own Commit after its own PreCommit: an
					// unverified early commit is known (D2) only for a node that never sent a PreCommit
					sig = "early-commit-unverified/amev/no-own-precommit"
					if d.MyIndex >= 0 && d.MyIndex < len(d.PreCommitPayloads) && d.PreCommitPayloads[d.MyIndex] != nil {
						sig = "early-commit-unverified/amev/own-precommit-sent"
						if t.blockNil { // the application's NewBlockFromContext returned nil when the stored commits were to be verified (D2n)
							sig = "early-commit-unverified/amev/block-unavailable-at-verification"
						}
					}
				}
			}
		}
		c02sig = sig
		m.nhit(n, "C02", sig, fmt.Sprintf("node %d accepts height %d with %d valid of %d counted commits, M=%d", n.id, b.idx, valid, counted, mOf(d)))
	}
	// the block extends the tip and is the primary's proposal
	if b.idx != n.height+1 || b.prev != n.tip {
		m.nhit(n, "C02", "not-extending-tip", fmt.Sprintf("node %d accepts block %d prev %q on tip %d %q", n.id, b.idx, b.prev, n.height, n.tip))
	}
	req := d.PreparationPayloads[d.PrimaryIndex]
	if req == nil || req.Type() != dbft.PrepareRequestType {
		m.nhit(n, "C02", "no-proposal", fmt.Sprintf("node %d accepts block %d without holding the proposal", n.id, b.idx))
	} else {
		r := req.GetPrepareRequest()
		ok := r.Timestamp() == b.ts && r.Nonce() == b.nonce && len(r.TransactionHashes()) == len(b.hashes) && len(b.txs) == len(b.hashes)
		for i := range b.hashes {
			if ok && (b.hashes[i] != r.TransactionHashes()[i] || b.txs[i] == nil || b.txs[i].Hash() != b.hashes[i]) {
				ok = false
			}
		}
		if !ok {
			m.nhit(n, "C02", "not-the-proposal", fmt.Sprintf("node %d accepts block %d that differs from the held proposal", n.id, b.idx))
			if d.MyIndex >= 0 && uint(d.MyIndex) == d.PrimaryIndex {
				// C15: the primary's own block for its proposal is built from the values it proposed
				m.tick("C15")
				m.nhit(n, "C15", "own-block-not-the-proposal", fmt.Sprintf("primary %d of view %d hands over block %d that is not built from the values it proposed", n.id, d.ViewNumber, b.idx))
			}
		}
	}
	m.tick("C05")
	if t.decided || t.blockOKs > 0 {
		m.nhit(n, "C05", "second-processblock", fmt.Sprintf("node %d: ProcessBlock again at height %d", n.id, b.idx))
	}
	if fail {
		return
	}
	t.blockOKs++
	t.decided = true
	// C01
	if !m.byz[n.id] {
		m.tick("C01")
		if m.accepted[b.idx] == nil {
			m.accepted[b.idx] = map[H][]int{}
			m.tainted[b.idx] = map[int]string{}
		}
		m.accepted[b.idx][b.Hash()] = append(m.accepted[b.idx][b.Hash()], n.id)
		if c02sig != "" {
			m.tainted[b.idx][n.id] = c02sig
		}
		if len(m.accepted[b.idx]) > 1 {
			sig := "fork"
			for _, s := range m.tainted[b.idx] {
				if strings.HasPrefix(s, "early-commit-unverified") {
					sig = "fork-via-" + s
				}
			}
			var hs []string
			for k, v := range m.accepted[b.idx] {
				hs = append(hs, fmt.Sprintf("%v:%s", v, k))
			}
			sort.Strings(hs)
			m.nhit(n, "C01", sig, fmt.Sprintf("different blocks accepted at height %d: %s", b.idx, strings.Join(hs, " / ")))
		}
	}
}

// noteReceive is called from the log hook for every (also nested) OnReceive that passes the index check.
func (m *monitor) noteTaken(n *node) {
	if m != nil && n.tr != nil {
		n.tr.recvs++
	}
}
func (m *monitor) noteReceive(n *node, typ int, from uint16, height uint32, view byte) {
	if m == nil || n.tr == nil || !n.started {
		return
	}
	n.muted++
	defer func() { n.muted-- }()
	d := n.d
	if height != d.BlockIndex || int(from) >= len(d.Validators) {
		return
	}
	t := n.tr
	t.roll(d.BlockIndex)
	switch dbft.MessageType(typ) {
	case dbft.CommitType:
		if view <= d.ViewNumber && d.CommitPayloads[from] == nil {
			// "early": stored at a moment at which the library cannot verify it - before the proposal is held, or
			// (anti-MEV) before the final header can be built; a commit that arrives while the proposal is held must be verified
			t.early[from] = !d.RequestSentOrReceived() || (amevOn(n, d.BlockIndex) && d.Header() == nil)
		}
	case dbft.PreCommitType:
		if view <= d.ViewNumber && d.PreCommitPayloads[from] == nil {
			t.earlyPre[from] = d.PreHeader() == nil || len(d.TransactionHashes) != len(d.Transactions)
		}
	}
}

// ---- per-op checks ----

func (m *monitor) before(n *node, desc string) {
	if m == nil || n.tr == nil {
		return
	}
	n.muted++
	defer func() { n.muted-- }()
	t := n.tr
	t.effects = t.effects[:0]
	t.viewBefore, t.heightBefore = n.d.ViewNumber, n.d.BlockIndex
	t.roll(n.d.BlockIndex)
	t.decidedAtOp, t.curDesc = t.decided, desc
	t.inadmissible = ""
	t.recvs, t.expReplay = 0, 0
	if strings.HasPrefix(desc, "S ") || strings.HasPrefix(desc, "R ") {
		fmt.Sscanf(desc[2:], "%d", &t.lastStartTS)
		t.signs = 0
	}
	if strings.HasPrefix(desc, "R ") && n.started {
		for _, byIdx := range n.d.VerifSnapshot().Cache[n.height+1] {
			t.expReplay += len(byIdx)
		}
	}
	if strings.HasPrefix(desc, "X ") && t.wantedSet {
		// the obligation stands only while the node stays in the view of the proposal, is a backup that has
		// not asked to leave it, and has not decided
		vs := n.d.VerifSnapshot()
		t.c12ok = t.height == n.d.BlockIndex && t.wantedView == n.d.ViewNumber && n.honestValidator() && !n.d.ViewChanging() && !vs.BlockProcessed && n.d.IsBackup()
		if !t.c12ok {
			t.wantedSet = false
		}
	}
	if n.started {
		t.inadmissible = classifyInadmissible(n, desc)
		if t.inadmissible != "" {
			t.fpBefore = n.fpString()
			fmt.Fprintf(n.w, "TAG inadmissible:%s\n", strings.SplitN(t.inadmissible, "+", 2)[0])
		}
	}
}

// fpSansLastSeen blanks the LastSeenMessage section (section 10).
func fpSansLastSeen(fp string) string {
	parts := strings.Split(fp, "|")
	if len(parts) > 10 {
		parts[10] = " * "
	}
	return strings.Join(parts, "|")
}

func (m *monitor) after(n *node, desc string) {
	if m == nil || n.tr == nil {
		return
	}
	n.muted++
	defer func() { n.muted-- }()
	d := n.d
	t := n.tr
	if strings.HasPrefix(desc, "S ") || strings.HasPrefix(desc, "R ") {
		t.roll(d.BlockIndex)
		m.tick("C05")
		vs := d.VerifSnapshot()
		if d.BlockIndex != n.height+1 && !(d.BlockIndex == n.height && vs.BlockProcessed) {
			// (a single-validator network may decide inside the call and the mock advances its ledger)
			m.nhit(n, "C05", "reset-wrong-height", fmt.Sprintf("node %d after %s: BlockIndex %d, ledger height %d", n.id, desc, d.BlockIndex, n.height))
		}
		for h := range vs.Cache {
			if h < d.BlockIndex {
				m.nhit(n, "C05", "stale-cache", fmt.Sprintf("node %d after %s at height %d still caches payloads of height %d", n.id, desc, d.BlockIndex, h))
			}
		}
		if len(d.Validators) != len(n.vals) {
			m.nhit(n, "C05", "stale-validators", fmt.Sprintf("node %d after %s: validator list not refreshed", n.id, desc))
		}
		// what was kept for this height is handed to the node again, and a subscription is never inherited from an earlier height
		if strings.HasPrefix(desc, "R ") && t.recvs < t.expReplay {
			m.nhit(n, "C05", "kept-payloads-not-replayed", fmt.Sprintf("node %d after %s: %d payloads were kept for height %d, %d were replayed", n.id, desc, t.expReplay, d.BlockIndex, t.recvs))
			m.tick("C17")
			m.nhit(n, "C17", "kept-payloads-not-replayed", fmt.Sprintf("node %d after %s (the call the simulation makes after every block): %d payloads were kept for height %d, %d were replayed", n.id, desc, t.expReplay, d.BlockIndex, t.recvs))
		}
		if vs.TxSubscriptionOn {
			sub := false
			for _, e := range t.effects {
				if e == "SUB" {
					sub = true
				}
			}
			if !sub {
				m.nhit(n, "C05", "subscription-of-an-earlier-height", fmt.Sprintf("node %d after %s is subscribed for transactions without having subscribed in this call", n.id, desc))
			}
		}
		// the validator list is the one the application reports for this height
		if exp := n.expectedValidators(d.BlockIndex); exp != nil {
			m.tick("C06")
			same := len(exp) == len(d.Validators)
			for i := 0; same && i < len(exp); i++ {
				same = exp[i] == d.Validators[i]
			}
			if !same {
				m.nhit(n, "C06", "validator-list-of-an-earlier-height", fmt.Sprintf("node %d after %s works with %d validators, the application reports %d for height %d", n.id, desc, len(d.Validators), len(exp), d.BlockIndex))
				m.nhit(n, "C05", "validator-list-of-an-earlier-height", fmt.Sprintf("node %d after %s works with %d validators, the application reports %d for height %d", n.id, desc, len(d.Validators), len(exp), d.BlockIndex))
			}
		}
		// every per-validator table is taken afresh for the validator list of this height: one slot per validator
		for name, l := range map[string]int{"PreparationPayloads": len(d.PreparationPayloads), "PreCommitPayloads": len(d.PreCommitPayloads),
			"CommitPayloads": len(d.CommitPayloads), "ChangeViewPayloads": len(d.ChangeViewPayloads),
			"LastChangeViewPayloads": len(d.LastChangeViewPayloads), "LastSeenMessage": len(d.LastSeenMessage)} {
			if l != len(d.Validators) {
				m.nhit(n, "C05", "table-size-of-an-earlier-height", fmt.Sprintf("node %d after %s: %s has %d slots for %d validators", n.id, desc, name, l, len(d.Validators)))
				break
			}
		}
	}
	if strings.HasPrefix(desc, "M 48 ") {
		var hh, vv, from int
		if k, _ := fmt.Sscanf(desc[5:], "%d %d %d", &hh, &vv, &from); k == 3 && uint32(hh) == d.BlockIndex && from >= 0 && from < len(d.CommitPayloads) && d.CommitPayloads[from] != nil {
			for _, e := range t.effects {
				if e == "NEWBLOCKNIL" {
					t.nilAt[uint16(from)] = true
				}
			}
		}
	}
	if nv := len(d.Validators); nv > 0 && n.started {
		m.tick("C06")
		exp := ((int(d.BlockIndex)-int(d.ViewNumber))%nv + nv) % nv
		if int(d.PrimaryIndex) != exp {
			m.nhit(n, "C06", "cached-primary-index-wrong", fmt.Sprintf("node %d at (%d,%d) with %d validators holds PrimaryIndex %d, (h-v) mod N is %d", n.id, d.BlockIndex, d.ViewNumber, nv, d.PrimaryIndex, exp))
		}
	}
	if !n.started {
		return
	}
	vs := d.VerifSnapshot()
	// C05: a payload for a future height (or a future view of this height) must be kept for the epoch it belongs to
	if strings.HasPrefix(desc, "M ") {
		var typ, h, v, idx int
		f := strings.Fields(desc)
		fmt.Sscanf(f[1], "%d", &typ)
		fmt.Sscanf(f[2], "%d", &h)
		fmt.Sscanf(f[3], "%d", &v)
		fmt.Sscanf(f[4], "%d", &idx)
		kind := map[int]string{32: "prepare", 33: "prepare", 0: "chViews", 49: "preCommit", 48: "commit"}[typ]
		if kind != "" && idx < len(d.Validators) && uint32(h) > t.heightBefore && d.BlockIndex == t.heightBefore {
			m.tick("C05")
			if _, ok := vs.Cache[uint32(h)][kind][uint16(idx)]; !ok {
				m.nhit(n, "C05", "future-payload-not-kept", fmt.Sprintf("node %d at height %d dropped a payload of type %d for the future height %d", n.id, d.BlockIndex, typ, h))
			}
		}
	}
	// C10: "undecided" is what the application knows - its ledger is still one block short of the height the node works on
	// (ProcessBlock has not succeeded for it) - not the library's own flag
	undecided := d.BlockIndex == n.height+1
	if n.honestValidator() && undecided && vs.BlockProcessed {
		m.nhit(n, "C10", "decided-flag-without-an-accepted-block", fmt.Sprintf("node %d at (%d,%d) after [%s] regards the height as decided, but no block of that height was accepted by ProcessBlock", n.id, d.BlockIndex, d.ViewNumber, desc))
	}
	if n.honestValidator() && undecided {
		m.tick("C10")
		if !n.tm.armed || n.tm.h != d.BlockIndex || n.tm.v != d.ViewNumber {
			m.nhit(n, "C10", "timer-not-armed", fmt.Sprintf("node %d undecided at (%d,%d) after [%s] but timer armed=%v for (%d,%d)", n.id, d.BlockIndex, d.ViewNumber, desc, n.tm.armed, n.tm.h, n.tm.v))
		}
	}
	// C04: entering a higher view within a height needs M change views
	if d.BlockIndex == t.heightBefore && d.ViewNumber > t.viewBefore {
		m.tick("C04")
		cnt := 0
		for _, p := range d.LastChangeViewPayloads {
			if p != nil && p.GetChangeView().NewViewNumber() >= d.ViewNumber {
				cnt++
			}
		}
		if cnt < mOf(d) {
			m.nhit(n, "C04", "view-entered-without-quorum", fmt.Sprintf("node %d entered view %d at height %d holding %d change views for it, M=%d", n.id, d.ViewNumber, d.BlockIndex, cnt, mOf(d)))
		}
	}
	// C11: inadmissible inputs change nothing but LastSeenMessage and cause no effect
	if t.inadmissible != "" {
		m.tick("C11")
		cls := t.inadmissible
		reply := strings.HasSuffix(cls, "+reply")
		cls = strings.TrimSuffix(cls, "+reply")
		seen := strings.HasSuffix(cls, "+seen")
		cls = strings.TrimSuffix(cls, "+seen")
		var eff []string
		for _, e := range t.effects {
			if reply && e == "BCAST65" {
				continue
			}
			eff = append(eff, e)
		}
		after := n.fpString()
		same := after == t.fpBefore
		if !same && seen {
			same = fpSansLastSeen(after) == fpSansLastSeen(t.fpBefore)
		}
		if !same || len(eff) > 0 {
			m.nhit(n, "C11", "inadmissible-"+cls, fmt.Sprintf("node %d: input [%s] (%s) changed state=%v effects=%v", n.id, desc, cls, !same, eff))
		}
	}
	// C12: every requested transaction supplied while still in the view and not view-changing => answered
	if strings.HasPrefix(desc, "X ") && t.wantedSet && t.c12ok {
		var x uint64
		fmt.Sscanf(desc[2:], "%d", &x)
		if t.wanted[Tx(x).Hash()] {
			delete(t.wanted, Tx(x).Hash())
			if len(t.wanted) == 0 {
				m.tick("C12")
				t.wantedSet = false
				if !t.answered {
					sig := "no-answer"
					if n.d.CommitSent() || n.d.PreCommitSent() {
						// the transaction set was completed from the pool by a later processMissingTx (sendRecoveryRequest) and
						// the node went on to (pre-)commit on the others' preparations without ever responding (D21)
						sig = "no-answer/committed-without-response"
					}
					m.nhit(n, "C12", sig, fmt.Sprintf("node %d got every requested transaction of the proposal of (%d,%d) and neither responded nor asked for a view change", n.id, t.heightBefore, t.wantedView))
				}
			}
		}
	}
}

// classifyInadmissible names the class of an input that the protocol defines as inadmissible (C11), or "".
// The suffix "+seen" marks classes for which noting the sender as alive (LastSeenMessage) is permitted.
func classifyInadmissible(n *node, desc string) string {
	d := n.d
	f := strings.Fields(desc)
	switch f[0] {
	case "T":
		var h, v int
		fmt.Sscanf(f[1], "%d", &h)
		fmt.Sscanf(f[2], "%d", &v)
		if uint32(h) != d.BlockIndex || byte(v) != d.ViewNumber {
			return "stale-timeout"
		}
	case "X":
		// requested = passed to the RequestTx callback since the node entered its current (height, view)
		var x uint64
		fmt.Sscanf(f[1], "%d", &x)
		t := n.tr
		inProposal := false
		for _, h := range d.TransactionHashes {
			if h == Tx(x).Hash() {
				inProposal = true
			}
		}
		if inProposal && t.requestedEpoch != nil && t.reqEpochH == d.BlockIndex && t.reqEpochV == d.ViewNumber && t.requestedEpoch[Tx(x).Hash()] {
			return ""
		}
		return "unrequested-transaction"
	case "M":
		var typ, h, v, idx int
		fmt.Sscanf(f[1], "%d", &typ)
		fmt.Sscanf(f[2], "%d", &h)
		fmt.Sscanf(f[3], "%d", &v)
		fmt.Sscanf(f[4], "%d", &idx)
		if idx >= len(d.Validators) {
			return "index-out-of-range"
		}
		if uint32(h) < d.BlockIndex {
			return "past-height"
		}
		if uint32(h) != d.BlockIndex {
			return ""
		}
		t := dbft.MessageType(typ)
		pi := int(d.GetPrimaryIndex(d.ViewNumber))
		if dup := duplicateClass(n, desc, t, idx); dup != "" {
			return dup
		}
		switch {
		case t == dbft.PrepareRequestType && byte(v) == d.ViewNumber && idx != pi:
			return "proposal-from-non-primary+seen"
		case (t == dbft.PrepareRequestType || t == dbft.PrepareResponseType) && byte(v) < d.ViewNumber:
			return "lower-view-preparation+seen"
		case t == dbft.PrepareResponseType && byte(v) == d.ViewNumber && idx == pi:
			return "response-from-primary+seen"
		case t == dbft.PreCommitType && !amevOn(n, d.BlockIndex) && byte(v) <= d.ViewNumber:
			return "precommit-amev-off+seen"
		}
	}
	return ""
}

// duplicateClass: the payload's slot already holds a payload with the same content.
func duplicateClass(n *node, desc string, t dbft.MessageType, idx int) string {
	d := n.d
	var tbl []dbft.ConsensusPayload[H]
	switch t {
	case dbft.PrepareRequestType, dbft.PrepareResponseType:
		tbl = d.PreparationPayloads
	case dbft.CommitType:
		tbl = d.CommitPayloads
	case dbft.PreCommitType:
		tbl = d.PreCommitPayloads
	case dbft.ChangeViewType:
		tbl = d.ChangeViewPayloads
	default:
		return ""
	}
	if idx >= len(tbl) || tbl[idx] == nil {
		return ""
	}
	if "M "+tbl[idx].(*Payload).out() != desc {
		return ""
	}
	if (t == dbft.PrepareRequestType || t == dbft.PrepareResponseType) && tbl[idx].ViewNumber() != d.ViewNumber {
		return ""
	}
	if t == dbft.ChangeViewType {
		return "duplicate-changeview+seen+reply"
	}
	return "duplicate+seen+reply"
}

func (m *monitor) summary() string {
	var sb []string
	for _, h := range m.hits {
		sb = append(sb, fmt.Sprintf("%s %s run=%d node=%d op=%d | %s", h.prop, h.sig, h.run, h.node, h.op, h.desc))
	}
	return strings.Join(sb, "\n")
}

// mOf is the quorum size M = N - F, F = (N-1)/3, computed by the monitor itself (not through the library's Context.M)
func mOf(d *dbft.DBFT[H]) int {
	n := len(d.Validators)
	return n - (n-1)/3
}
