module github.com/nspcc-dev/dbft/verifharness

go 1.24

require (
	github.com/nspcc-dev/dbft v0.0.0
	go.uber.org/zap v1.27.0
)

require go.uber.org/multierr v1.10.0 // indirect

replace github.com/nspcc-dev/dbft => /repo
