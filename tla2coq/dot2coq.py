#!/usr/bin/env python3
"""Edge cross-check: sample edges from a (possibly truncated) TLC dot dump and emit a Coq file that checks
init_b on the first state and next_b on every sampled edge, generically for any generated Spec.v.
usage: dot2coq.py graph.dot Spec.v <line limit> <#edges> <const args for d_Next, e.g. "[3] [] [0;1;2;3]"> <const args for d_Init>"""
import re, sys, random

path, spec, limit, nedges, next_args, init_args, specmod = sys.argv[1], sys.argv[2], int(sys.argv[3]), int(sys.argv[4]), sys.argv[5], sys.argv[6], sys.argv[7]

# --- record / state layouts from the generated Coq file
src = open(spec).read()
records = {}   # name -> [(field, coqtype)]
for m in re.finditer(r'Record (\w+)_t := mk_(\w+) \{ (.*?) \}\.', src):
    records[m.group(1)] = [(f.split(' : ')[0].strip()[len(m.group(1)) + 1:], f.split(' : ')[1].strip()) for f in m.group(3).split(';')]
st = re.search(r'Record state := mk_state \{ (.*?) \}\.', src).group(1)
statevars = [(f.split(' : ')[0].strip()[2:], f.split(' : ')[1].strip()) for f in st.split(';')]

# --- TLC value parser
def parse_value(s, i):
    while s[i] == ' ': i += 1
    c = s[i]
    if c == '"':
        j = s.index('"', i + 1); return ('str', s[i + 1:j]), j + 1
    if c.isdigit() or c == '-':
        j = i + 1
        while j < len(s) and s[j].isdigit(): j += 1
        return ('int', int(s[i:j])), j
    if c == '{':
        i += 1; items = []
        while True:
            while s[i] == ' ': i += 1
            if s[i] == '}': return ('set', items), i + 1
            v, i = parse_value(s, i); items.append(v)
            while s[i] == ' ': i += 1
            if s[i] == ',': i += 1
    if c == '[':
        i += 1; fields = {}
        while True:
            while s[i] == ' ': i += 1
            if s[i] == ']': return ('rec', fields), i + 1
            j = i
            while s[j] not in ' |': j += 1
            name = s[i:j]; i = s.index('|->', j) + 3
            v, i = parse_value(s, i); fields[name] = v
            while s[i] == ' ': i += 1
            if s[i] == ',': i += 1
    if c == '(':   # function  ( 0 :> v @@ 1 :> v )
        i += 1; pairs = []
        while True:
            while s[i] == ' ': i += 1
            if s[i] == ')': return ('fun', pairs), i + 1
            k, i = parse_value(s, i); i = s.index(':>', i) + 2
            v, i = parse_value(s, i); pairs.append((k, v))
            while s[i] == ' ': i += 1
            if s.startswith('@@', i): i += 2
    if c == '<':   # tuple/sequence used as function over 1..n - not expected
        raise ValueError('tuple')
    raise ValueError('cannot parse at %d: %r' % (i, s[i:i + 30]))

def parse_state(lbl):
    lbl = lbl.replace('\\n', ' ').replace('\\"', '"').replace('\\\\', '\\')
    vals = {}
    parts = re.split(r'/\\ (\w+) = ', lbl)
    for k in range(1, len(parts), 2):
        vals[parts[k]] = parse_value(parts[k + 1].strip() + ' ', 0)[0]
    return vals

def coq_of(v, ty):
    ty = ty.strip()
    if ty.startswith('(') and ty.endswith(')'): ty = ty[1:-1].strip()
    if ty == 'Z': return '(%d)' % v[1]
    if ty == 'string': return '"%s"' % v[1]
    if ty == 'bool': return 'true' if v[1] == 'TRUE' else 'false'
    if ty.startswith('list '):
        return '[' + '; '.join(coq_of(x, ty[5:]) for x in v[1]) + ']'
    if ty.startswith('Z -> '):
        cod = ty[5:]
        d = 'ERR'
        for rn in records:
            if cod == rn + '_t':
                d = '(mk_%s %s)' % (rn, ' '.join({'Z': '0', 'string': '"none"'}.get(t, '[]') for _, t in records[rn]))
        if cod == 'Z': d = '0'
        return '(fun q => ' + ''.join('if Z.eqb q %d then %s else ' % (k[1], coq_of(x, cod)) for k, x in v[1]) + d + ')'
    if ty.endswith('_t'):
        rn = ty[:-2]
        return '(mk_%s %s)' % (rn, ' '.join(coq_of(v[1][f], t) for f, t in records[rn]))
    raise ValueError('type ' + ty)

def coq_state(vals):
    return '(mk_state %s)' % ' '.join(coq_of(vals[n], t) for n, t in statevars)

states = {}; edges = []; first = None
node_re = re.compile(r'^(-?\d+) \[label="(.*?)",(?:style|tooltip)')
edge_re = re.compile(r'^(-?\d+) -> (-?\d+) \[label="([^"]*)"')
with open(path, errors='replace') as f:
    for i, line in enumerate(f):
        if i > limit: break
        m = edge_re.match(line)
        if m: edges.append((m.group(1), m.group(2), m.group(3))); continue
        m = node_re.match(line)
        if m and m.group(1) not in states:
            try:
                states[m.group(1)] = parse_state(m.group(2))
                if first is None: first = m.group(1)
            except Exception as e:
                pass
good = [(a, b, l) for a, b, l in edges if a in states and b in states]
random.seed(1); random.shuffle(good); good = good[:nedges]
print('From Coq Require Import List ZArith Bool String.\nFrom DbftV Require Import TlaPrelude %s.\nImport ListNotations.\nOpen Scope Z_scope. Open Scope string_scope.' % specmod)
print('Definition edges : list (state * state) := [')
print(';\n'.join('(%s, %s)' % (coq_state(states[a]), coq_state(states[b])) for a, b, l in good))
print('].')
print('Definition nx := d_Next %s.' % next_args)
print('Definition init_ok := d_Init %s %s.' % (init_args, coq_state(states[first])))
print('Definition bad_edges := List.length (filter (fun e => negb (nx (fst e) (snd e))) edges).')
print('Definition R := Eval vm_compute in (init_ok, List.length edges, bad_edges).\nPrint R.')
from collections import Counter
sys.stderr.write('states %d edges %d sampled %d %s\n' % (len(states), len(edges), len(good), dict(Counter(re.sub(r'\(.*', '', l) for _, _, l in good))))
