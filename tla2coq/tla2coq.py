#!/usr/bin/env python3
"""Translator: SANY XML (tla2sany.xml.XMLExporter) -> typed Gallina boolean transition checker.
usage: tla2coq.py spec.xml ModuleName > Spec.v   (run by gen.sh on every check; fails closed on anything it cannot type)"""
import sys, re
import xml.etree.ElementTree as ET

INT, BOOL, STR = ('int',), ('bool',), ('str',)
def REC(n): return ('rec', n)
def SET(t): return ('set', t)
def FUN(t): return ('fun', t)

class Unsupported(Exception): pass

class Tr:
    def __init__(self, xml, mod):
        self.root = ET.parse(xml).getroot()
        self.mod = mod
        self.ents = {}
        for e in self.root.find('context').findall('entry'):
            node = [c for c in e if c.tag != 'UID'][0]
            self.ents[e.find('UID').text] = node
        self.records = {}      # name -> [(field, type, typeset-node)]
        self.vartypes = {}     # variable name -> type
        self.deflevel = {}     # uid -> level
        self.defs = []         # (uid, node) top-level, in order
        self.sigs = {}         # uid -> (coqname, nparams, level, rettype)
        self.localnames = {}   # uid -> coq local var name (LET)
        for uid, n in self.ents.items():
            if n.tag == 'ModuleNode' and n.find('uniquename').text == mod:
                self.modnode = n
        for c in self.modnode:
            if c.tag == 'UserDefinedOpKindRef':
                uid = c.find('UID').text
                n = self.ents[uid]
                if n.find('location/filename').text == mod:
                    self.defs.append((uid, n))
        self.consts = []; self.vars = []
        for c in self.modnode:
            if c.tag == 'OpDeclNodeRef':
                n = self.ents[c.find('UID').text]
                (self.consts if n.find('kind').text == '2' else self.vars).append(n.find('uniquename').text)

    # ---------- helpers
    def ref(self, opnode):
        r = opnode[0]
        n = self.ents[r.find('UID').text]
        return r.find('UID').text, n
    def opname(self, n):
        uid, d = self.ref(n.find('operator'))
        return d.find('uniquename').text, uid, d
    def operands(self, n): return list(n.find('operands'))

    def coqty(self, t):
        k = t[0]
        if k == 'int': return 'Z'
        if k == 'bool': return 'bool'
        if k == 'str': return 'string'
        if k == 'rec': return t[1] + '_t'
        if k == 'set': return '(list %s)' % self.coqty(t[1])
        if k == 'fun': return '(Z -> %s)' % self.coqty(t[1])
        raise Unsupported(str(t))
    def eqb(self, t):
        k = t[0]
        if k == 'int': return 'Z.eqb'
        if k == 'bool': return 'Bool.eqb'
        if k == 'str': return 'String.eqb'
        if k == 'rec': return t[1] + '_eqb'
        if k == 'set': return '(set_eqb %s)' % self.eqb(t[1])
        if k == 'fun': return '(fun_eqb RM %s)' % self.eqb(t[1])
        raise Unsupported(str(t))

    # ---------- record / variable type discovery
    def elemtype_of_typeset(self, n):
        """type of the ELEMENTS of a type-set expression"""
        if n.tag == 'OpApplNode':
            name, uid, d = self.opname(n)
            if name == '$SetEnumerate':
                ts = [self.tr(o, {})[1] for o in self.operands(n)]
                return ts[0] if ts else INT
            if name == 'Nat' or name == 'Int': return INT
            if name == 'SUBSET': return SET(self.elemtype_of_typeset(self.operands(n)[0]))
            if name == '$SetOfFcns': return FUN(self.elemtype_of_typeset(self.operands(n)[1]))
            if d.tag == 'OpDeclNode': return INT          # RM, RMFault ...: sets of node ids
            if d.tag == 'UserDefinedOpKind':
                if name in self.records: return REC(name)
                return self.elemtype_of_typeset(d.find('body')[0])
            if name == '$SetOfRcds': raise Unsupported('anonymous record set')
            if name == '..': return INT
        raise Unsupported('typeset ' + ET.tostring(n, encoding='unicode')[:200])

    def discover(self):
        for uid, d in self.defs:
            b = d.find('body')[0]
            if b.tag == 'OpApplNode' and self.opname(b)[0] == '$SetOfRcds':
                self.records[d.find('uniquename').text] = None
        for uid, d in self.defs:
            nm = d.find('uniquename').text
            if nm in self.records:
                fields = []
                for p in self.operands(d.find('body')[0]):
                    f, ts = self.operands(p)
                    fields.append((f.find('StringValue').text, self.elemtype_of_typeset(ts), ts))
                self.records[nm] = fields
        for uid, d in self.defs:
            if d.find('uniquename').text == 'TypeOK':
                b = d.find('body')[0]
                conj = self.operands(b) if self.opname(b)[0] in ('$ConjList', '\\land') else [b]
                for c in conj:
                    op = self.opname(c)[0]; a, ts = self.operands(c)
                    v = self.opname(a)[0]
                    if op == '\\in': self.vartypes[v] = self.elemtype_of_typeset(ts)
                    elif op == '\\subseteq': self.vartypes[v] = SET(self.elemtype_of_typeset(ts))
                    else: raise Unsupported('TypeOK conjunct ' + op)

    # ---------- membership in a type set (for TypeOK)
    def in_typeset(self, x, xt, n):
        name, uid, d = self.opname(n)
        if name in ('Nat',): return '(0 <=? %s)' % x
        if name == 'Int': return 'true'
        if name == '$SetEnumerate' or d.tag == 'OpDeclNode':
            s, st = self.tr(n, {})
            return '(set_mem %s %s %s)' % (self.eqb(xt), x, s)
        if name == 'SUBSET':
            return '(forallb (fun y => %s) %s)' % (self.in_typeset('y', xt[1], self.operands(n)[0]), x)
        if name == '$SetOfFcns':
            dom, cod = self.operands(n)
            ds, _ = self.tr(dom, {})
            return '(forallb (fun q => %s) %s)' % (self.in_typeset('(%s q)' % x, xt[1], cod), ds)
        if d.tag == 'UserDefinedOpKind':
            if name in self.records:
                parts = ['(let fv := %s_%s %s in %s)' % (name, f, x, self.in_typeset('fv', ft, ts)) for f, ft, ts in self.records[name]]
                return '(' + ' && '.join(parts) + ')'
            return self.in_typeset(x, xt, d.find('body')[0])
        raise Unsupported('in_typeset ' + name)

    # ---------- expression translation: returns (coq, type)
    def tr(self, n, env):
        t = n.tag
        if t == 'StringNode': return '"%s"%%string' % n.find('StringValue').text, STR
        if t == 'NumeralNode': return '%s%%Z' % n.find('IntValue').text, INT
        if t == 'LetInNode':
            env2 = dict(env); out = []
            for dref in n.find('opDefs'):
                uid = dref.find('UID').text; d = self.ents[uid]
                if d.find('arity').text != '0': raise Unsupported('LET with params')
                nm = 'l_' + re.sub(r'\W', '_', d.find('uniquename').text)
                body, bt = self.tr(d.find('body')[0], env2)
                env2['#' + uid] = (nm, bt)
                out.append('let %s := %s in ' % (nm, body))
            b, bt = self.tr(n.find('body')[0], env2)
            return '(' + ''.join(out) + b + ')', bt
        if t != 'OpApplNode': raise Unsupported(t)
        name, uid, d = self.opname(n)
        args = self.operands(n)
        # bound variable / LET-bound / formal parameter
        if d.tag == 'FormalParamNode':
            if name not in env: raise Unsupported('unbound ' + name)
            return env[name]
        if d.tag == 'OpDeclNode':
            if d.find('kind').text == '2':
                return name, (INT if name == 'MaxView' or not name.startswith('RM') and name not in ('RM',) and self.consttype(name) == INT else SET(INT))
            raise Unsupported('bare variable outside state context: ' + name) if 's' not in env else None
        if d.tag == 'UserDefinedOpKind' and '#' + uid in env:
            return env['#' + uid]
        f = getattr(self, 'op_' + self.mangle(name), None)
        if f is not None and d.tag != 'UserDefinedOpKind' or (f is not None and d.find('location/filename').text != self.mod):
            return f(n, args, env)
        if d.tag == 'UserDefinedOpKind':
            cn, npar, lvl, rt = self.sigs[uid]
            a = [self.tr(x, env)[0] for x in args]
            st = []
            if lvl >= 1: st.append(env['$s'])
            if lvl >= 2: st.append(env["$s'"])
            return '(' + ' '.join([cn] + a + st) + ')', rt
        raise Unsupported('operator ' + name)

    def consttype(self, name):
        return INT if name == 'MaxView' or name.startswith('Max') else SET(INT)

    def mangle(self, s):
        m = {'$ConjList': 'conj', '\\land': 'conj', '$DisjList': 'disj', '\\lor': 'disj', '\\lnot': 'not', '=>': 'imp',
             '=': 'eq', '/=': 'neq', '\\in': 'in', '\\notin': 'notin', '\\subseteq': 'subseteq', '\\union': 'union', '\\cup': 'union', '\\cap': 'inter', '\\intersect': 'inter',
             '\\': 'setminus', '$SetEnumerate': 'setenum', '$SubsetOf': 'subsetof', '$SetOfAll': 'setofall',
             '$BoundedExists': 'exists', '$BoundedForall': 'forall', '$BoundedChoose': 'choose', '$RcdConstructor': 'rcd',
             '$RcdSelect': 'sel', '$FcnApply': 'app', '$FcnConstructor': 'fcn', '$Except': 'except', '$IfThenElse': 'ite',
             "'": 'prime', 'UNCHANGED': 'unchanged', 'Cardinality': 'card', '+': 'add', '-': 'sub', '*': 'mul', '%': 'mod',
             '\\div': 'div', '<': 'lt', '>': 'gt', '\\leq': 'le', '=<': 'le', '\\geq': 'ge', '>=': 'ge', '..': 'range', 'TRUE': 'true', 'FALSE': 'false'}
        return m.get(s, 'UNKNOWN_' + re.sub(r'\W', '_', s))

    # state variables
    def var(self, name, env, primed=False):
        s = env["$s'"] if primed else env['$s']
        return '(v_%s %s)' % (name, s), self.vartypes[name]

    def tr(self, n, env):  # noqa: F811  (final version, dispatching variables first)
        t = n.tag
        if t == 'StringNode': return '"%s"%%string' % n.find('StringValue').text, STR
        if t == 'NumeralNode': return '%s%%Z' % n.find('IntValue').text, INT
        if t == 'LetInNode':
            env2 = dict(env); out = []; closers = 0
            for dref in n.find('opDefs'):
                uid = dref.find('UID').text; d = self.ents[uid]
                if d.find('arity').text != '0': raise Unsupported('LET with params')
                nm = 'l_' + re.sub(r'\W', '_', d.find('uniquename').text)
                bn = d.find('body')[0]
                if bn.tag == 'OpApplNode' and self.opname(bn)[0] == '$BoundedChoose':
                    # LET y == CHOOSE x \in S : P IN body   ~~>   exists y in S, P y && body   (angelic; body must be boolean)
                    cv, ds, dt, env3 = self.bound(bn, env2, rename=nm)
                    p = self.bools(self.operands(bn), env3)[0]
                    env2['#' + uid] = (cv, dt[1])
                    # rename the bound variable to the LET name so that later references see it
                    out.append('existsb (fun %s => %s && (' % (cv, p)); closers += 1
                    out.append('')  # placeholder
                    env2['$choose_dom_' + uid] = ds
                    out[-1] = '@@DOM' + ds + '@@'
                    continue
                body, bt = self.tr(bn, env2)
                env2['#' + uid] = (nm, bt)
                out.append('let %s := %s in ' % (nm, body))
            b, bt = self.tr(n.find('body')[0], env2)
            if closers and bt != BOOL: raise Unsupported('LET-CHOOSE with non-boolean body')
            # assemble: each angelic choose wraps the rest
            res = b
            pending = []
            i = len(out) - 1
            parts = out
            # rebuild from the inside out
            k = len(parts) - 1
            while k >= 0:
                if parts[k].startswith('@@DOM'):
                    dom = parts[k][5:-2]; head = parts[k-1]
                    res = '(' + head + res + ')) ' + dom + ')'
                    k -= 2
                else:
                    res = '(' + parts[k] + res + ')'
                    k -= 1
            return res, bt
        if t != 'OpApplNode': raise Unsupported(t)
        name, uid, d = self.opname(n)
        args = self.operands(n)
        if d.tag == 'FormalParamNode':
            if name not in env: raise Unsupported('unbound ' + name)
            return env[name]
        if d.tag == 'OpDeclNode':
            if d.find('kind').text == '2': return name, self.consttype(name)
            return self.var(name, env)
        if d.tag == 'UserDefinedOpKind' and '#' + uid in env: return env['#' + uid]
        if d.tag == 'UserDefinedOpKind' and d.find('location/filename').text == self.mod:
            if uid not in self.sigs: raise Unsupported('uses skipped definition ' + name)
            cn, npar, lvl, rt = self.sigs[uid]
            a = [self.tr(x, env)[0] for x in args]
            st = []
            if lvl >= 1: st.append(env['$s'])
            if lvl >= 2: st.append(env["$s'"])
            return '(' + ' '.join([cn] + a + st) + ')', rt
        f = getattr(self, 'op_' + self.mangle(name), None)
        if f is None: raise Unsupported('operator ' + name)
        return f(n, args, env)

    # ---------- operators
    def bools(self, args, env):
        r = []
        for a in args:
            c, t = self.tr(a, env)
            if t != BOOL: raise Unsupported('expected bool')
            r.append(c)
        return r
    def op_conj(self, n, a, env):
        bs = [b for b in self.bools(a, env) if b != 'true']
        return ('(' + ' && '.join(bs) + ')' if bs else 'true'), BOOL
    def op_disj(self, n, a, env): return '(' + ' || '.join(self.bools(a, env)) + ')', BOOL
    def op_not(self, n, a, env): return '(negb %s)' % self.bools(a, env)[0], BOOL
    def op_imp(self, n, a, env): x, y = self.bools(a, env); return '(implb %s %s)' % (x, y), BOOL
    def op_true(self, n, a, env): return 'true', BOOL
    def op_false(self, n, a, env): return 'false', BOOL
    def op_eq(self, n, a, env):
        x, xt = self.tr(a[0], env)
        if a[1].tag == 'OpApplNode' and self.opname(a[1])[0] == '$SetEnumerate' and not self.operands(a[1]):
            return '(set_is_empty %s)' % x, BOOL
        y, yt = self.tr(a[1], env)
        if xt != yt: raise Unsupported('eq types %s %s' % (xt, yt))
        return '(%s %s %s)' % (self.eqb(xt), x, y), BOOL
    def op_neq(self, n, a, env): c, _ = self.op_eq(n, a, env); return '(negb %s)' % c, BOOL
    def op_in(self, n, a, env):
        x, xt = self.tr(a[0], env); s, st = self.tr(a[1], env)
        return '(set_mem %s %s %s)' % (self.eqb(xt), x, s), BOOL
    def op_notin(self, n, a, env): c, _ = self.op_in(n, a, env); return '(negb %s)' % c, BOOL
    def op_subseteq(self, n, a, env):
        x, xt = self.tr(a[0], env); y, yt = self.tr(a[1], env)
        return '(set_subset %s %s %s)' % (self.eqb(xt[1]), x, y), BOOL
    def op_union(self, n, a, env):
        x, xt = self.tr(a[0], env); y, yt = self.tr(a[1], env); return '(%s ++ %s)' % (x, y), xt
    def op_inter(self, n, a, env):
        x, xt = self.tr(a[0], env); y, yt = self.tr(a[1], env)
        return '(set_inter %s %s %s)' % (self.eqb(xt[1]), x, y), xt
    def op_setminus(self, n, a, env):
        x, xt = self.tr(a[0], env); y, yt = self.tr(a[1], env)
        return '(set_diff %s %s %s)' % (self.eqb(xt[1]), x, y), xt
    def op_setenum(self, n, a, env):
        if not a: raise Unsupported('empty set literal outside equality')
        xs = [self.tr(x, env) for x in a]
        return '[' + '; '.join(c for c, _ in xs) + ']', SET(xs[0][1])
    def bound(self, n, env, rename=None):
        bs = list(n.find('boundSymbols'))
        if len(bs) != 1: raise Unsupported('multiple bounds')
        b = bs[0]
        fps = b.findall('FormalParamNodeRef')
        if len(fps) != 1: raise Unsupported('tuple bound')
        v = self.ents[fps[0].find('UID').text].find('uniquename').text
        dom = [c for c in b if c.tag not in ('FormalParamNodeRef', 'tuple')][0]
        ds, dt = self.tr(dom, env)
        cv = rename or ('b_' + v)
        env2 = dict(env); env2[v] = (cv, dt[1])
        return cv, ds, dt, env2
    def op_subsetof(self, n, a, env):
        cv, ds, dt, env2 = self.bound(n, env); p = self.bools(a, env2)[0]
        return '(filter (fun %s => %s) %s)' % (cv, p, ds), dt
    def op_setofall(self, n, a, env):
        cv, ds, dt, env2 = self.bound(n, env); e, et = self.tr(a[0], env2)
        return '(map (fun %s => %s) %s)' % (cv, e, ds), SET(et)
    def op_exists(self, n, a, env):
        cv, ds, dt, env2 = self.bound(n, env); p = self.bools(a, env2)[0]
        return '(existsb (fun %s => %s) %s)' % (cv, p, ds), BOOL
    def op_forall(self, n, a, env):
        cv, ds, dt, env2 = self.bound(n, env); p = self.bools(a, env2)[0]
        return '(forallb (fun %s => %s) %s)' % (cv, p, ds), BOOL
    def op_choose(self, n, a, env):
        cv, ds, dt, env2 = self.bound(n, env); p = self.bools(a, env2)[0]
        if dt[1] != INT: raise Unsupported('CHOOSE over non-int outside LET')
        return '(choose_z (fun %s => %s) %s)' % (cv, p, ds), INT
    def op_rcd(self, n, a, env):
        names = [self.operands(p)[0].find('StringValue').text for p in a]
        for rn, fields in self.records.items():
            if set(f for f, _, _ in fields) == set(names):
                fs = {}
                for p in a:
                    f, v = self.operands(p); fn = f.find('StringValue').text
                    if v.tag == 'OpApplNode' and self.opname(v)[0] == '$SetEnumerate' and not self.operands(v):
                        fs[fn] = ('[]', [t for g, t, _ in fields if g == fn][0])
                    else:
                        fs[fn] = self.tr(v, env)
                return '(mk_%s %s)' % (rn, ' '.join(fs[f][0] for f, _, _ in fields)), REC(rn)
        raise Unsupported('record with fields %s' % sorted(names))
    def op_sel(self, n, a, env):
        x, xt = self.tr(a[0], env); f = a[1].find('StringValue').text
        if xt[0] != 'rec': raise Unsupported('select on ' + str(xt))
        ft = [t for g, t, _ in self.records[xt[1]] if g == f][0]
        return '(%s_%s %s)' % (xt[1], f, x), ft
    def op_app(self, n, a, env):
        f, ft = self.tr(a[0], env); x, xt = self.tr(a[1], env)
        return '(%s %s)' % (f, x), ft[1]
    def op_fcn(self, n, a, env):
        cv, ds, dt, env2 = self.bound(n, env); e, et = self.tr(a[0], env2)
        return '(fun %s => %s)' % (cv, e), FUN(et)
    def op_except(self, n, a, env):
        f, ft = self.tr(a[0], env)
        cur = f
        for p in a[1:]:
            path, val = self.operands(p)
            pe = self.operands(path)
            idx, _ = self.tr(pe[0], env)
            v, vt = self.tr(val, env)
            if len(pe) == 1:
                cur = '(fupd %s %s (fun _ => %s))' % (cur, idx, v)
            elif len(pe) == 2:
                fld = pe[1].find('StringValue').text; rn = ft[1][1]
                cur = '(fupd %s %s (fun old => %s_set_%s old %s))' % (cur, idx, rn, fld, v)
            else: raise Unsupported('deep EXCEPT')
        return cur, ft
    def op_ite(self, n, a, env):
        c = self.bools(a[:1], env)[0]; x, xt = self.tr(a[1], env); y, yt = self.tr(a[2], env)
        return '(if %s then %s else %s)' % (c, x, y), xt
    def op_prime(self, n, a, env):
        name, uid, d = self.opname(a[0])
        return self.var(name, env, primed=True)
    def flatten_vars(self, x):
        name, uid, d = self.opname(x)
        if name == '$Tuple':
            r = []
            for y in self.operands(x): r += self.flatten_vars(y)
            return r
        if d.tag == 'OpDeclNode': return [name]
        if d.tag == 'UserDefinedOpKind': return self.flatten_vars(d.find('body')[0])
        raise Unsupported('UNCHANGED of ' + name)
    def op_unchanged(self, n, a, env):
        vs = self.flatten_vars(a[0])
        if not vs: return 'true', BOOL
        parts = ['(%s %s %s)' % (self.eqb(self.vartypes[v]), self.var(v, env, True)[0], self.var(v, env)[0]) for v in vs]
        return '(' + ' && '.join(parts) + ')', BOOL
    def op_card(self, n, a, env):
        s, st = self.tr(a[0], env); return '(card %s %s)' % (self.eqb(st[1]), s), INT
    def arith(self, a, env): return [self.tr(x, env)[0] for x in a]
    def op_add(self, n, a, env): x, y = self.arith(a, env); return '(%s + %s)' % (x, y), INT
    def op_sub(self, n, a, env): x, y = self.arith(a, env); return '(%s - %s)' % (x, y), INT
    def op_mul(self, n, a, env): x, y = self.arith(a, env); return '(%s * %s)' % (x, y), INT
    def op_mod(self, n, a, env): x, y = self.arith(a, env); return '(%s mod %s)' % (x, y), INT
    def op_div(self, n, a, env): x, y = self.arith(a, env); return '(%s / %s)' % (x, y), INT
    def op_lt(self, n, a, env): x, y = self.arith(a, env); return '(%s <? %s)' % (x, y), BOOL
    def op_gt(self, n, a, env): x, y = self.arith(a, env); return '(%s >? %s)' % (x, y), BOOL
    def op_le(self, n, a, env): x, y = self.arith(a, env); return '(%s <=? %s)' % (x, y), BOOL
    def op_ge(self, n, a, env): x, y = self.arith(a, env); return '(%s >=? %s)' % (x, y), BOOL
    def op_range(self, n, a, env): x, y = self.arith(a, env); return '(zrange %s %s)' % (x, y), SET(INT)

    # ---------- emission
    def emit(self):
        self.discover()
        out = []
        w = out.append
        w('(* GENERATED by tla2coq.py from module %s - do not edit *)' % self.mod)
        w('From Coq Require Import List ZArith Bool String.\nFrom DbftV Require Import TlaPrelude.\nImport ListNotations.\nOpen Scope Z_scope.\n')
        for rn, fields in self.records.items():
            w('Record %s_t := mk_%s { %s }.' % (rn, rn, '; '.join('%s_%s : %s' % (rn, f, self.coqty(t)) for f, t, _ in fields)))
            w('Definition %s_eqb (a b : %s_t) : bool := %s.' % (rn, rn, ' && '.join('%s (%s_%s a) (%s_%s b)' % (self.eqb(t), rn, f, rn, f) for f, t, _ in fields)))
            for f, t, _ in fields:
                w('Definition %s_set_%s (r : %s_t) (x : %s) : %s_t := mk_%s %s.' % (rn, f, rn, self.coqty(t), rn, rn,
                  ' '.join('x' if g == f else '(%s_%s r)' % (rn, g) for g, _, _ in fields)))
        w('Record state := mk_state { %s }.' % '; '.join('v_%s : %s' % (v, self.coqty(self.vartypes[v])) for v in self.vars))
        w('\nSection Spec.')
        for c in self.consts: w('Variable %s : %s.' % (c, self.coqty(self.consttype(c))))
        skipped = []
        for uid, d in self.defs:
            nm = d.find('uniquename').text
            lvl = int(d.find('level').text)
            if nm in self.records: continue
            if lvl >= 3: skipped.append(nm); continue
            params = [self.ents[p.find('FormalParamNodeRef/UID').text].find('uniquename').text for p in d.findall('params/leibnizparam')]
            env = {p: ('p_' + p, INT) for p in params}
            env['$s'] = 's'; env["$s'"] = "s'"
            cn = 'd_' + nm
            try:
                if nm == 'TypeOK':
                    parts = []
                    b = d.find('body')[0]
                    conj = self.operands(b) if self.opname(b)[0] in ('$ConjList', '\\land') else [b]
                    for c in conj:
                        op = self.opname(c)[0]; a, ts = self.operands(c); v = self.opname(a)[0]
                        x, xt = self.var(v, env)
                        if op == '\\in': parts.append(self.in_typeset(x, xt, ts))
                        else: parts.append('(forallb (fun y => %s) %s)' % (self.in_typeset('y', xt[1], ts), x))
                    body, bt = '(' + ' && '.join(parts) + ')', BOOL
                else:
                    body, bt = self.tr(d.find('body')[0], env)
            except Unsupported as e:
                skipped.append('%s (%s)' % (nm, e)); continue
            self.sigs[uid] = (cn, len(params), lvl, bt)
            ps = ''.join(' (p_%s : Z)' % p for p in params)
            st = (' (s : state)' if lvl >= 1 else '') + (" (s' : state)" if lvl >= 2 else '')
            w('Definition %s%s%s : %s :=\n  %s.' % (cn, ps, st, self.coqty(bt), body))
        # the ASSUME clauses of the module: the hypotheses under which the invariants are claimed
        conj = []
        for c in self.modnode:
            if c.tag == 'AssumeNodeRef':
                a = self.ents[c.find('UID').text]
                b = a.find('body')[0]
                parts = self.operands(b) if (b.tag == 'OpApplNode' and self.opname(b)[0] in ('$ConjList', '\\land')) else [b]
                for q in parts:
                    try:
                        nm = self.opname(q)[0] if q.tag == 'OpApplNode' else ''
                        ops = self.operands(q) if q.tag == 'OpApplNode' else []
                        if nm in ('\\in', '\\subseteq') and ops[1].tag == 'OpApplNode' and self.opname(ops[1])[0] in ('Nat', 'Int'):
                            x, xt = self.tr(ops[0], {})
                            conj.append(self.in_typeset(x, xt, ops[1]) if nm == '\\in' else '(forallb (fun y => %s) %s)' % (self.in_typeset('y', xt[1], ops[1]), x))
                        else:
                            conj.append(self.bools([q], {})[0])
                    except Unsupported as e:
                        skipped.append('ASSUME conjunct (%s)' % e)
        w('Definition d_ASSUME : bool :=\n  (%s).' % ' && '.join(conj or ['true']))
        w('End Spec.')
        w('(* skipped: %s *)' % '; '.join(skipped))
        return '\n'.join(out)

if __name__ == '__main__':
    print(Tr(sys.argv[1], sys.argv[2]).emit())
