(* C19 correspondence driver: crypto.Hash256 and merkle roots printed by the real code vs the extracted Coq functions *)
open Rmodel
let rec pos_of_int n = if n = 1 then XH else if n land 1 = 0 then XO (pos_of_int (n lsr 1)) else XI (pos_of_int (n lsr 1))
let n_of_int n = if n = 0 then N0 else Npos (pos_of_int n)
let rec int_of_pos = function XH -> 1 | XO p -> 2 * int_of_pos p | XI p -> 2 * int_of_pos p + 1
let int_of_n = function N0 -> 0 | Npos p -> int_of_pos p
let bytes_of_hex (s : string) = List.init (String.length s / 2) (fun i -> n_of_int (int_of_string ("0x" ^ String.sub s (2 * i) 2)))
let hex_of_bytes l = String.concat "" (List.map (fun b -> Printf.sprintf "%02x" (int_of_n b)) l)
let () =
  let ic = open_in Sys.argv.(1) in
  let nh = ref 0 and nm = ref 0 and bad = ref 0 in
  (try while true do
    let line = input_line ic in
    (match String.split_on_char ' ' line with
     | ["H256"; data; digest] ->
         incr nh;
         let data = String.sub data 0 (String.length data - 1) in
         let got = hex_of_bytes (hash256 (bytes_of_hex data)) in
         if got <> digest then (incr bad; Printf.printf "RDIFF H256 data=%s impl=%s model=%s\n" data digest got)
     | "MK" :: k :: rest ->
         incr nm;
         let k = int_of_string k in
         let leaves = List.filteri (fun i _ -> i < k) rest and root = List.nth rest k in
         (match merkle_root (List.map bytes_of_hex leaves) with
          | Some r -> let got = hex_of_bytes r in if got <> root then (incr bad; Printf.printf "RDIFF MK n=%d impl=%s model=%s\n" k root got)
          | None -> incr bad; Printf.printf "RDIFF MK n=%d model has no root\n" k)
     | _ -> ())
  done with End_of_file -> ());
  Printf.printf "RSUMMARY hashes %d trees %d disagreements %d\n" !nh !nm !bad
