(* C19 correspondence driver: crypto.Hash256 and merkle roots printed by the real code vs the extracted Coq functions *)
open Rmodel
let rec pos_of_int n = if n = 1 then XH else if n land 1 = 0 then XO (pos_of_int (n lsr 1)) else XI (pos_of_int (n lsr 1))
let n_of_int n = if n = 0 then N0 else Npos (pos_of_int n)
let rec int_of_pos = function XH -> 1 | XO p -> 2 * int_of_pos p | XI p -> 2 * int_of_pos p + 1
let int_of_n = function N0 -> 0 | Npos p -> int_of_pos p
let bytes_of_hex (s : string) = List.init (String.length s / 2) (fun i -> n_of_int (int_of_string ("0x" ^ String.sub s (2 * i) 2)))
let hex_of_bytes l = String.concat "" (List.map (fun b -> Printf.sprintf "%02x" (int_of_n b)) l)
(* numbers of any size in hex (a nonce is 64 bits wide: beyond OCaml's int) *)
let ndouble = function N0 -> N0 | Npos p -> Npos (XO p)
let nsuccdouble = function N0 -> Npos XH | Npos p -> Npos (XI p)
let n_of_hex (s : string) =
  let acc = ref N0 in
  String.iter (fun c ->
    let d = int_of_string ("0x" ^ String.make 1 c) in
    for k = 3 downto 0 do acc := if (d lsr k) land 1 = 1 then nsuccdouble !acc else ndouble !acc done) s;
  !acc
let rec bits_of_pos = function XH -> [1] | XO p -> 0 :: bits_of_pos p | XI p -> 1 :: bits_of_pos p   (* least significant first *)
let hex_of_n = function
  | N0 -> "0"
  | Npos p ->
      let rec nibbles = function
        | [] -> []
        | a :: b :: c :: d :: t -> (a + 2 * b + 4 * c + 8 * d) :: nibbles t
        | l -> [List.fold_right (fun x acc -> x + 2 * acc) l 0] in
      String.concat "" (List.rev_map (Printf.sprintf "%x") (nibbles (bits_of_pos p)))
(* the canonical dump of harness/ref.go, from the model's values *)
let join = function [] -> "-" | l -> String.concat "," l
let hd p = Printf.sprintf "%s.%s.%s" (hex_of_n p.p_height) (hex_of_n p.p_view) (hex_of_n p.p_index)
let dump m r ind =
  let req = match get_request m r ind with
    | Some ({ p_body = BPrepareRequest (ts, nonce, hs); _ } as q) ->
        Printf.sprintf "%s.%s.%s.%s" (hd q) (hex_of_n ts) (hex_of_n nonce) (String.concat "+" (List.map hex_of_bytes hs))
    | Some _ -> "?" | None -> "-" in
  let each f l = join (List.map (fun p -> hd p ^ "." ^ f p.p_body) l) in
  Printf.sprintf "req=%s resp=%s cv=%s pc=%s cm=%s" req
    (each (function BPrepareResponse h -> hex_of_bytes h | _ -> "?") (get_responses m r))
    (each (function BChangeView (nv, _) -> hex_of_n nv | _ -> "?") (get_cvs m r))
    (each (function BPreCommit mg -> hex_of_n mg | _ -> "?") (get_precommits m r))
    (each (function BCommit sg -> hex_of_bytes sg | _ -> "?") (get_commits m r))

let () =
  let ic = open_in Sys.argv.(1) in
  let nh = ref 0 and nm = ref 0 and bad = ref 0 in
  let nr = ref 0 and nadd = ref 0 in
  (* the recovery message being packed: its payloads in order, the hashes handed over for the packed proposals, the header *)
  let rm_init = ref None and rm_ps = ref [] and rm_hashes = ref [] and rm_hdr = ref None in
  let mkp h v i b = { p_height = n_of_hex h; p_view = n_of_hex v; p_index = n_of_hex i; p_body = b } in
  let rec take k l = if k = 0 then [] else match l with [] -> [] | x :: t -> x :: take (k - 1) t in
  let npt = ref 0 and pt = ref None in
  let parse_payload on_hash kind h v i rest =
    (match kind, rest with
     | "CV", [nv; ts] -> mkp h v i (BChangeView (n_of_hex nv, n_of_hex ts))
     | "PQ", ts :: nonce :: k :: more ->
         let k = int_of_string ("0x" ^ k) in
         let p = mkp h v i (BPrepareRequest (n_of_hex ts, n_of_hex nonce, List.map bytes_of_hex (take k more))) in
         on_hash p (List.nth more k); p
     | "PR", [ph] -> mkp h v i (BPrepareResponse (bytes_of_hex ph))
     | "CM", [sg] -> mkp h v i (BCommit (bytes_of_hex sg))
     | "PC", [mg] -> mkp h v i (BPreCommit (n_of_hex mg))
     | _ -> mkp h v i BOther) in
  (try while true do
    let line = input_line ic in
    (match String.split_on_char ' ' line with
     | ["H256"; data; digest] ->
         incr nh;
         let data = String.sub data 0 (String.length data - 1) in
         let got = hex_of_bytes (hash256 (bytes_of_hex data)) in
         if got <> digest then (incr bad; Printf.printf "RDIFF H256 data=%s impl=%s model=%s\n" data digest got)
     | "MK" :: k :: rest ->
         incr nm;
         let k = int_of_string k in
         let leaves = List.filteri (fun i _ -> i < k) rest and root = List.nth rest k in
         (match merkle_root (List.map bytes_of_hex leaves) with
          | Some r -> let got = hex_of_bytes r in if got <> root then (incr bad; Printf.printf "RDIFF MK n=%d impl=%s model=%s\n" k root got)
          | None -> incr bad; Printf.printf "RDIFF MK n=%d model has no root\n" k)
     | "PT" :: kind :: h :: v :: i :: rest -> pt := Some (parse_payload (fun _ _ -> ()) kind h v i rest)
     | ["PTOUT"; kind; impl] ->
         incr npt;
         (match !pt with
          | None -> incr bad; Printf.printf "RDIFF PT output without a payload\n"
          | Some p ->
              let q = transmit_payload p in
              let got = (match q.p_body with
                | BChangeView (nv, _) -> "CV " ^ hd q ^ "." ^ hex_of_n nv
                | BPrepareRequest (ts, nonce, hs) -> Printf.sprintf "PQ %s.%s.%s.%s" (hd q) (hex_of_n ts) (hex_of_n nonce) (String.concat "+" (List.map hex_of_bytes hs))
                | BPrepareResponse hh -> "PR " ^ hd q ^ "." ^ hex_of_bytes hh
                | BCommit sg -> "CM " ^ hd q ^ "." ^ hex_of_bytes sg
                | BPreCommit mg -> "PC " ^ hd q ^ "." ^ hex_of_n mg
                | BOther -> "?? " ^ hd q) in
              if got <> kind ^ " " ^ impl then (incr bad; Printf.printf "RDIFF PT impl=[%s %s] model=[%s]\n" kind impl got))
     | ["RMNEW"; ph] ->
         rm_init := (if ph = "-" then None else Some (bytes_of_hex ph)); rm_ps := []; rm_hashes := []; rm_hdr := None
     | "RMADD" :: kind :: h :: v :: i :: rest ->
         incr nadd;
         let p = parse_payload (fun p hh -> rm_hashes := (p, bytes_of_hex hh) :: !rm_hashes) kind h v i rest in
         rm_ps := p :: !rm_ps
     | ["RMHDR"; h; v; i; ind] -> rm_hdr := Some (mkp h v i BOther, n_of_hex ind)
     | "RMOUT" :: stage :: _ ->
         incr nr;
         (match !rm_hdr with
          | None -> incr bad; Printf.printf "RDIFF RM output without a header\n"
          | Some (r, ind) ->
              let hashes = !rm_hashes in
              let phash p = try List.assoc p hashes with Not_found -> [] in
              let m = build phash (new_rmsg !rm_init) (List.rev !rm_ps) in
              let m = if stage = "1" then transmit m else m in
              let got = dump m r ind in
              let impl = String.sub line (8) (String.length line - 8) in
              if got <> impl then (incr bad; Printf.printf "RDIFF RM stage=%s impl=[%s] model=[%s]\n" stage impl got))
     | _ -> ())
  done with End_of_file -> ());
  Printf.printf "RSUMMARY hashes %d trees %d disagreements %d recovery-dumps %d packed %d payload-codec %d\n" !nh !nm !bad !nr !nadd !npt
