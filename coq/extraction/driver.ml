(* Correspondence driver: replays harness histories through the extracted node model.
   For every API call the model is started from the state the *implementation* was in before the call (parsed from
   the previous fingerprint of that node), fed the recorded callbacks as script, and must (1) consume exactly those
   callbacks and (2) end in the state the implementation ended in. Disagreements are reported one per line with the
   op, the kind (MISMATCH at callback k / DIFF in fingerprint sections / PANIC...) so that the check can project
   them per property. *)
open Model

let rec pos_of_int n = if n = 1 then XH else if n land 1 = 0 then XO (pos_of_int (n lsr 1)) else XI (pos_of_int (n lsr 1))
let z_of_int n = if n = 0 then Z0 else if n > 0 then Zpos (pos_of_int n) else Zneg (pos_of_int (-n))
let rec int_of_pos = function XH -> 1 | XO p -> 2 * int_of_pos p | XI p -> 2 * int_of_pos p + 1
let int_of_z = function Z0 -> 0 | Zpos p -> int_of_pos p | Zneg p -> - (int_of_pos p)
let rec int_of_nat = function O -> 0 | S n -> 1 + int_of_nat n

(* token stream *)
type ts = { mutable toks : string list }
let next t = match t.toks with x :: r -> t.toks <- r; x | [] -> failwith "eof tokens"
let z_of_string_raw (s : string) : z =
  let neg = String.length s > 0 && s.[0] = '-' in
  let acc = ref Z0 in
  String.iteri (fun i c -> if not (neg && i = 0) then acc := Z.add (Z.mul !acc (z_of_int 10)) (z_of_int (Char.code c - 48))) s;
  if neg then Z.opp !acc else !acc
let zmemo : (string, z) Hashtbl.t = Hashtbl.create 4096
let z_of_string s = try Hashtbl.find zmemo s with Not_found -> let v = z_of_string_raw s in (if Hashtbl.length zmemo < 200000 then Hashtbl.add zmemo s v); v
let zi t = z_of_string (next t)
let ii t = int_of_string (next t)
let bb t = next t <> "0"
let rec rep n f = if n = 0 then [] else let x = f () in x :: rep (n - 1) f
let hash t = let n = ii t in rep n (fun () -> zi t)

let mtype_of_code = function
  | 0 -> ChangeViewT | 32 -> PrepareRequestT | 33 -> PrepareResponseT | 48 -> CommitT | 49 -> PreCommitT
  | 64 -> RecoveryRequestT | 65 -> RecoveryMessageT | _ -> failwith "mtype"

let body0 code t = match code with
  | 0 -> let nv = zi t in let r = zi t in let s = zi t in BChangeView (nv, r, s)
  | 32 -> let s = zi t in let n = zi t in let k = ii t in BPrepareRequest (s, n, rep k (fun () -> hash t))
  | 33 -> BPrepareResponse (hash t)
  | 48 -> let k = zi t in BCommit { sg_key = k; sg_hash = hash t }
  | 49 -> let k = zi t in BPreCommit { sg_key = k; sg_hash = hash t }
  | 64 -> BRecoveryRequest (zi t)
  | _ -> failwith "body0"
let payload0 t =
  let code = ii t in let h = zi t in let v = zi t in let i = zi t in
  { p0_height = h; p0_view = v; p0_idx = i; p0_body = body0 code t }
let payload t =
  let code = ii t in let h = zi t in let v = zi t in let i = zi t in
  if code = 65 then let k = ii t in { p_height = h; p_view = v; p_idx = i; p_body = BRecoveryMessage (rep k (fun () -> payload0 t)) }
  else { p_height = h; p_view = v; p_idx = i; p_body = B0 (body0 code t) }

let call t = match next t with
  | "NOW" -> CNow (zi t) | "HEIGHT" -> CHeight (zi t) | "PREV" -> CPrevHash (hash t)
  | "VALS" -> let n = ii t in CValidators (rep n (fun () -> zi t))
  | "KEYPAIR" -> let i = zi t in CKeyPair (i, zi t)
  | "WO" -> CWatchOnly (bb t) | "TPB" -> CTimePerBlock (zi t) | "MAXTPB" -> CMaxTimePerBlock (zi t)
  | "GETVER" -> let n = ii t in CGetVerified (rep n (fun () -> zi t))
  | "GETTX" -> let h = hash t in if bb t then CGetTx (h, Some (zi t)) else CGetTx (h, None)
  | "VBLOCK" -> let h = hash t in let n = bb t in CVerifyBlock (h, n, bb t)
  | "VPREBLOCK" -> let h = hash t in let n = bb t in CVerifyPreBlock (h, n, bb t)
  | "VPREQ" -> let p = payload t in CVerifyPrepareRequest (p, bb t)
  | "VPRESP" -> let p = payload t in CVerifyPrepareResponse (p, bb t)
  | "VCOMMIT" -> let p = payload t in CVerifyCommit (p, bb t)
  | "VPRECOMMIT" -> let p = payload t in CVerifyPreCommit (p, bb t)
  | "NEWBLOCK" -> CNewBlock (bb t) | "NEWPREBLOCK" -> CNewPreBlock (bb t) | "NONCE" -> CNonce (zi t)
  | "RECV" -> let c = ii t in let f = zi t in let h = zi t in CRecv (mtype_of_code c, f, h, zi t)
  | "BCAST" -> CBroadcast (payload t)
  | "TRESET" -> let h = zi t in let v = zi t in CTimerReset (h, v, zi t)
  | "TEXTEND" -> CTimerExtend (zi t) | "THEIGHT" -> CTimerHeight (zi t) | "TVIEW" -> CTimerView (zi t)
  | "PBLOCK" -> let h = hash t in CProcessBlock (h, bb t)
  | "PPREBLOCK" -> let h = hash t in CProcessPreBlock (h, bb t)
  | "REQTX" -> let n = ii t in CRequestTx (rep n (fun () -> hash t))
  | "SUB" -> CSubscribe | "STOP" -> CStopTxFlow | "SIGN" -> CSign (hash t) | "SETDATA" -> CSetData (hash t)
  | "FATAL" -> CFatal
  | s -> failwith ("call " ^ s)

let event t = match next t with
  | "S" -> EStart (zi t) | "R" -> EReset (zi t) | "M" -> EReceive (payload t)
  | "T" -> let h = zi t in ETimeout (h, zi t) | "X" -> ETransaction (zi t) | "N" -> ENewTransaction
  | s -> failwith ("event " ^ s)

let rec z_to_string (z : z) : string =
  match z with
  | Z0 -> "0"
  | Zneg p -> "-" ^ z_to_string (Zpos p)
  | Zpos _ ->
      let ten = z_of_int 10 in
      let rec go z acc = match z with
        | Z0 -> acc
        | _ -> let (q, r) = Z.div_eucl z ten in go q (string_of_int (int_of_z r) ^ acc) in
      go z ""
let smemo : (z, string) Hashtbl.t = Hashtbl.create 4096
let zs z = try Hashtbl.find smemo z with Not_found -> let v = z_to_string z in (if Hashtbl.length smemo < 200000 then Hashtbl.add smemo z v); v
let out_hash (h : z list) = String.concat " " (string_of_int (List.length h) :: List.map zs h)
let out_body0 = function
  | BChangeView (nv, r, t) -> Printf.sprintf "%s %s %s" (zs nv) (zs r) (zs t)
  | BPrepareRequest (t, n, hs) -> String.concat " " ([zs t; zs n; string_of_int (List.length hs)] @ List.map out_hash hs)
  | BPrepareResponse h -> out_hash h
  | BCommit s -> zs s.sg_key ^ " " ^ out_hash s.sg_hash
  | BPreCommit s -> zs s.sg_key ^ " " ^ out_hash s.sg_hash
  | BRecoveryRequest t -> zs t
let code0 = function BChangeView _ -> 0 | BPrepareRequest _ -> 32 | BPrepareResponse _ -> 33 | BCommit _ -> 48 | BPreCommit _ -> 49 | BRecoveryRequest _ -> 64
let out_payload0 (p : payload0) = Printf.sprintf "%d %s %s %s %s" (code0 p.p0_body) (zs p.p0_height) (zs p.p0_view) (zs p.p0_idx) (out_body0 p.p0_body)
let out_payload (p : payload) = match p.p_body with
  | B0 b -> Printf.sprintf "%d %s %s %s %s" (code0 b) (zs p.p_height) (zs p.p_view) (zs p.p_idx) (out_body0 b)
  | BRecoveryMessage ps -> String.concat " " ([ "65"; zs p.p_height; zs p.p_view; zs p.p_idx; string_of_int (List.length ps)] @ List.map out_payload0 ps)
let tbl_out l = String.concat " " (List.map (function None -> "-" | Some p -> "+ " ^ out_payload p) l)
let b2i b = if b then "1" else "0"
let pad n w = let s = zs n in String.make (max 0 (w - String.length s)) '0' ^ s
let sig_out = function None -> ["0"] | Some (g : sigv) -> ["1"; zs g.sg_key; out_hash g.sg_hash]
let txs_out = function None -> ["0"] | Some l -> "1" :: string_of_int (List.length l) :: List.map zs l
let fp (s : nstate) =
  let txs = List.sort compare (List.map (fun (h, _) -> out_hash h) s.transactions) in
  let cache =
    List.concat_map (fun (h, ib) ->
      let ent k l = List.map (fun (i, p) -> Printf.sprintf "%s %s %s %s" (pad h 10) k (pad i 5) (out_payload p)) l in
      let es = ent "a" ib.ib_prepare @ ent "b" ib.ib_chviews @ ent "c" ib.ib_precommit @ ent "d" ib.ib_commit in
      if es = [] then [Printf.sprintf "%s e" (pad h 10)] else es) s.cache in
  let cache = List.sort compare cache in
  let parts = [
    Printf.sprintf "%s %s %s %s %s %s %s" (zs s.blockIndex) (zs s.viewNumber) (zs s.myIndex) (zs s.primaryIndex) (out_hash s.prevHash) (zs s.timestamp) (zs s.nonce);
    "| " ^ String.concat " " (string_of_int (List.length s.validators) :: List.map zs s.validators);
    "| " ^ String.concat " " (string_of_int (List.length s.transactionHashes) :: List.map out_hash s.transactionHashes);
    "| " ^ String.concat " " (string_of_int (List.length s.missingTransactions) :: List.map out_hash s.missingTransactions);
    "| " ^ String.concat " " (string_of_int (List.length txs) :: txs);
    "| " ^ tbl_out s.preparationPayloads; "| " ^ tbl_out s.preCommitPayloads; "| " ^ tbl_out s.commitPayloads;
    "| " ^ tbl_out s.changeViewPayloads; "| " ^ tbl_out s.lastChangeViewPayloads;
    "| " ^ String.concat " " (List.map (function None -> "-" | Some (h, v) -> Printf.sprintf "+ %s %s" (zs h) (zs v)) s.lastSeenMessage);
    Printf.sprintf "| %s %s %s %s %s %s %s %s %s" (b2i s.blockProcessed) (b2i s.preBlockProcessed) (b2i s.txSubscriptionOn) (zs s.lastBlockTimestamp)
      (match s.lastBlockTime with Some t -> zs t | None -> "-1") (zs s.lastBlockIndex) (zs s.lastBlockView) (zs s.timePerBlock) (zs s.maxTimePerBlock);
    Printf.sprintf "| %s %s %s" (match s.prepareSentTime with Some t -> zs t | None -> "-1") (zs s.rtt_idx) (zs s.rtt_avg);
    Printf.sprintf "| %s %s %s %s %s %s %s" (b2i (s.header <> None)) (b2i s.block_set) (b2i (s.preheader <> None)) (b2i s.preblock_set) (b2i s.recovering) (b2i s.cache_ready) (zs s.myKey);
    "| " ^ String.concat " " [string_of_int (List.length cache); String.concat " ; " cache];
    "| " ^ (match s.header with None -> "0" | Some b ->
       String.concat " " ([ "1"; b2i b.b_final ] @ sig_out b.b_sig @ txs_out b.b_txs @ [zs b.b_index; out_hash b.b_prev; zs b.b_ts; zs b.b_nonce; string_of_int (List.length b.b_hashes)] @ List.map out_hash b.b_hashes));
    "| " ^ (match s.preheader with None -> "0" | Some b ->
       String.concat " " ([ "1" ] @ sig_out b.pb_data @ txs_out b.pb_txs @ [zs b.pb_index; out_hash b.pb_prev; zs b.pb_ts; zs b.pb_nonce; string_of_int (List.length b.pb_hashes)] @ List.map out_hash b.pb_hashes));
    "| " ^ (let nz = List.filter (fun (_, t) -> t <> Z0) (List.mapi (fun i t -> (i, t)) s.rtt_times) in
            String.concat " " (string_of_int (List.length nz) :: List.concat_map (fun (i, t) -> [string_of_int i; zs t]) nz)) ] in
  String.concat " " (List.filter (fun x -> x <> "") (String.split_on_char ' ' (String.concat " " parts)))


(* ---- fingerprint -> state (the inverse of fp) ---- *)
let expect t s = let x = next t in if x <> s then failwith ("fp parse: expected " ^ s ^ " got " ^ x)
let peek t = match t.toks with x :: _ -> x | [] -> ""
let tbl_in t =
  let rec go acc = match peek t with
    | "-" -> ignore (next t); go (None :: acc)
    | "+" -> ignore (next t); let p = payload t in go (Some p :: acc)
    | _ -> List.rev acc in
  go []
let sig_in t = if bb t then (let k = zi t in let h = hash t in Some { sg_key = k; sg_hash = h }) else None
let txs_in t = if bb t then (let n = ii t in Some (rep n (fun () -> zi t))) else None
let state_of_fp (toks : string list) : nstate =
  let t = { toks } in
  let bi = zi t in let vn = zi t in let mi = zi t in let pi = zi t in let prev = hash t in let ts = zi t in let nonce = zi t in
  expect t "|"; let nv = ii t in let vals = rep nv (fun () -> zi t) in
  expect t "|"; let n = ii t in let ths = rep n (fun () -> hash t) in
  expect t "|"; let n = ii t in let miss = rep n (fun () -> hash t) in
  expect t "|"; let n = ii t in let txs = rep n (fun () -> let h = hash t in (h, (match h with [_; x] -> x | _ -> failwith "tx hash"))) in
  expect t "|"; let prep = tbl_in t in
  expect t "|"; let pc = tbl_in t in
  expect t "|"; let cm = tbl_in t in
  expect t "|"; let cv = tbl_in t in
  expect t "|"; let lcv = tbl_in t in
  expect t "|";
  let rec seen acc = match peek t with
    | "-" -> ignore (next t); seen (None :: acc)
    | "+" -> ignore (next t); let h = zi t in let v = zi t in seen (Some (h, v) :: acc)
    | _ -> List.rev acc in
  let ls = seen [] in
  expect t "|"; let bp = bb t in let pbp = bb t in let sub = bb t in let lbts = zi t in let lbt = zi t in let lbi = zi t in
  let lbv = zi t in let tpb = zi t in let mtpb = zi t in
  expect t "|"; let pst = zi t in let ridx = zi t in let ravg = zi t in
  expect t "|"; let _hh = bb t in let hb = bb t in let _hph = bb t in let hpb = bb t in let recov = bb t in let cready = bb t in let mykey = zi t in
  expect t "|"; let nc = ii t in
  let cache = ref [] in
  let put h kind i p =
    let ib = try List.assoc h !cache with Not_found -> { ib_prepare = []; ib_chviews = []; ib_precommit = []; ib_commit = [] } in
    let ib' = match kind with
      | "a" -> { ib with ib_prepare = ib.ib_prepare @ [(i, p)] } | "b" -> { ib with ib_chviews = ib.ib_chviews @ [(i, p)] }
      | "c" -> { ib with ib_precommit = ib.ib_precommit @ [(i, p)] } | "d" -> { ib with ib_commit = ib.ib_commit @ [(i, p)] }
      | _ -> failwith "cache kind" in
    cache := (h, ib') :: List.remove_assoc h !cache in
  for k = 1 to nc do
    let h = zi t in
    (match next t with
     | "e" -> if not (List.mem_assoc h !cache) then cache := (h, { ib_prepare = []; ib_chviews = []; ib_precommit = []; ib_commit = [] }) :: !cache
     | kind -> let i = zi t in let p = payload t in put h kind i p);
    if k < nc then expect t ";"
  done;
  expect t "|";
  let header = if bb t then begin
      let fin = bb t in let sg = sig_in t in let tx = txs_in t in let idx = zi t in let pv = hash t in let bts = zi t in let bn = zi t in
      let nh = ii t in let hs = rep nh (fun () -> hash t) in
      Some { b_index = idx; b_prev = pv; b_ts = bts; b_nonce = bn; b_hashes = hs; b_final = fin; b_sig = sg; b_txs = tx } end else None in
  expect t "|";
  let preheader = if bb t then begin
      let sg = sig_in t in let tx = txs_in t in let idx = zi t in let pv = hash t in let bts = zi t in let bn = zi t in
      let nh = ii t in let hs = rep nh (fun () -> hash t) in
      Some { pb_index = idx; pb_prev = pv; pb_ts = bts; pb_nonce = bn; pb_hashes = hs; pb_data = sg; pb_txs = tx } end else None in
  expect t "|";
  let k = ii t in
  let nz = rep k (fun () -> let i = ii t in let v = zi t in (i, v)) in
  let rtt = List.init 70 (fun i -> try List.assoc i nz with Not_found -> Z0) in
  let opt x = if x = z_of_int (-1) then None else Some x in
  { blockIndex = bi; viewNumber = vn; validators = vals; myIndex = mi; primaryIndex = pi; myKey = mykey; prevHash = prev;
    timestamp = ts; nonce = nonce; transactionHashes = ths; missingTransactions = miss; transactions = txs;
    preparationPayloads = prep; preCommitPayloads = pc; commitPayloads = cm; changeViewPayloads = cv; lastChangeViewPayloads = lcv;
    lastSeenMessage = ls; header = header; block_set = hb; preheader = preheader; preblock_set = hpb;
    blockProcessed = bp; preBlockProcessed = pbp; lastBlockTimestamp = lbts; lastBlockTime = opt lbt; lastBlockIndex = lbi;
    lastBlockView = lbv; timePerBlock = tpb; maxTimePerBlock = mtpb; txSubscriptionOn = sub; prepareSentTime = opt pst;
    rtt_times = rtt; rtt_idx = ridx; rtt_avg = ravg; cache = List.rev !cache; cache_ready = cready; recovering = recov }

let sections (s : string) = List.map String.trim (String.split_on_char '|' s)
let diff_sections a b =
  let sa = sections a and sb = sections b in
  let rec go i xs ys = match xs, ys with
    | x :: xs', y :: ys' -> (if x <> y then [i] else []) @ go (i + 1) xs' ys'
    | [], [] -> [] | _ -> [i] in
  go 0 sa sb

(* C06: lines "Q N BlockIndex F M PrimaryIndex p0 .. p255" printed by the real library *)
let quorum_mode file =
  let ic = open_in file in
  let n = ref 0 and bad = ref 0 and vals = ref 0 in
  (try while true do
    let line = input_line ic in
    let t = { toks = List.filter (fun s -> s <> "") (String.split_on_char ' ' line) } in
    if next t = "Q" then begin
      incr n;
      let nn = zi t in let h = zi t in let f = zi t in let m = zi t in let pidx = zi t in
      let ps = List.map z_of_string t.toks in
      let okf = quorum_F nn = f and okm = quorum_M nn = m and okp = quorum_primary h Z0 nn = pidx in
      let badv = ref (-1) in
      List.iteri (fun v p -> incr vals; if quorum_primary h (z_of_int v) nn <> p && !badv < 0 then badv := v) ps;
      if not (okf && okm && okp && !badv < 0 && List.length ps = 256) then begin
        incr bad;
        Printf.printf "QDIFF N=%s BlockIndex=%s impl F=%s M=%s primary=%s model F=%s M=%s primary=%s first-bad-view=%d\n"
          (zs nn) (zs h) (zs f) (zs m) (zs pidx) (zs (quorum_F nn)) (zs (quorum_M nn)) (zs (quorum_primary h Z0 nn)) !badv end
    end
  done with End_of_file -> ());
  Printf.printf "QSUMMARY contexts %d values %d disagreements %d\n" !n (!vals + 3 * !n) !bad

let () =
  if Array.length Sys.argv > 2 && Sys.argv.(1) = "--quorum" then (quorum_mode Sys.argv.(2); exit 0);
  let ic = if Array.length Sys.argv > 1 then open_in Sys.argv.(1) else stdin in
  let states : (int, nstate) Hashtbl.t = Hashtbl.create 16 in
  let cfg = ref { cfg_inc = z_of_int 1000000; cfg_amev = z_of_int (-1); cfg_dyn = false } in
  let ops = ref 0 and bad = ref 0 and calls = ref 0 and lineno = ref 0 and run = ref 0 in
  let cur : (int * event * string) option ref = ref None in
  let script = ref [] and kinds = ref [] and tags = ref [] in
  let sigs : (string, int) Hashtbl.t = Hashtbl.create 1024 in
  let note_sig desc outcome =
    let opk = (match String.split_on_char ' ' desc with "M" :: t :: _ -> "M" ^ t | k :: _ -> k | [] -> "?") in
    let ks = List.sort_uniq compare !kinds in
    let key = opk ^ ":" ^ outcome ^ ":" ^ String.concat "," ks in
    Hashtbl.replace sigs key (1 + try Hashtbl.find sigs key with Not_found -> 0) in
  let disagree n desc fmt = incr bad; Printf.printf "DISAGREE run=%d line=%d node=%d tags=%s op=[%s] " !run !lineno n (String.concat "," ("-" :: !tags)) desc; Printf.printf fmt in
  (try while true do
    let line = input_line ic in
    incr lineno;
    let t = { toks = List.filter (fun s -> s <> "") (String.split_on_char ' ' line) } in
    (match (try next t with _ -> "") with
     | "RUN" ->
         Hashtbl.reset states;
         run := ii t; ignore (next t); ignore (next t); ignore (next t);
         let inc = zi t in let am = zi t in let dyn = bb t in
         cfg := { cfg_inc = inc; cfg_amev = am; cfg_dyn = dyn }
     | "OP" -> let n = ii t in let desc = String.concat " " t.toks in cur := Some (n, event t, desc); script := []; kinds := []; tags := []
     | "TAG" -> tags := t.toks @ !tags
     | "C" -> (match t.toks with k :: _ -> kinds := k :: !kinds | [] -> ()); script := call t :: !script; incr calls
     | "PANIC" ->
         (match !cur with
          | None -> ()
          | Some (n, ev, desc) ->
              incr ops;
              (match step !cfg (try Hashtbl.find states n with Not_found -> fresh_state) ev (List.rev !script) with
               | Panic -> Printf.printf "PANIC-AGREED run=%d line=%d node=%d op=[%s]\n" !run !lineno n desc; note_sig desc "panic"
               | _ -> disagree n desc "kind=PANIC-IMPL-ONLY\n");
              Hashtbl.remove states n);
         cur := None
     | "FP" ->
         (match !cur with
          | None -> ()
          | Some (n, ev, desc) ->
              incr ops;
              let s = (match ev with EStart _ -> fresh_state (* Start is the first call on a new instance *)
                                   | _ -> (try Hashtbl.find states n with Not_found -> fresh_state)) in
              let want = String.concat " " t.toks in
              let sc = List.rev !script in
              (match step !cfg s ev sc with
               | Ok (s', _) ->
                   let got = fp s' in
                   if got <> want then
                     disagree n desc "kind=DIFF sections=%s\n  impl  %s\n  model %s\n" (String.concat "," (List.map string_of_int (diff_sections want got))) want got
                   else note_sig desc "ok"
               | Mismatch p ->
                   let k = int_of_nat p in
                   let ks = List.rev !kinds in
                   let ck = (try List.nth ks k with _ -> "END") in
                   let rest = List.sort_uniq compare (List.filteri (fun i _ -> i >= k) ks) in
                   disagree n desc "kind=MISMATCH pos=%d of=%d code_call=%s rest=%s\n" k (List.length sc) ck (String.concat "," ("END" :: rest))
               | Panic -> disagree n desc "kind=MODEL-PANIC\n"
               | Fatal -> disagree n desc "kind=MODEL-FATAL\n"
               | OutOfFuel -> disagree n desc "kind=MODEL-FUEL\n");
              (* resynchronise on the implementation's state *)
              (try Hashtbl.replace states n (state_of_fp t.toks)
               with e -> Printf.printf "FPPARSE-ERROR line=%d %s\n" !lineno (Printexc.to_string e); incr bad; Hashtbl.remove states n));
         cur := None
     | _ -> ())
  done with End_of_file -> ());
  Hashtbl.iter (fun k v -> Printf.printf "SIG %s %d\n" k v) sigs;
  Printf.printf "SUMMARY ops %d callbacks %d disagreements %d distinct_signatures %d\n" !ops !calls !bad (Hashtbl.length sigs)
