(* Extraction of the executable node model for the correspondence driver.
   ExtrOcamlBasic only: bool, option, list, prod, unit, sumbool map to OCaml's; nat, positive, N, Z stay Coq datatypes. *)
From DbftV Require Import Model.
Require Extraction. Require Import ExtrOcamlBasic.
Extraction Language OCaml.
Extraction "model.ml" step fresh_state mkCfg somes zlen.
