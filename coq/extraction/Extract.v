(* Extraction of the executable node model for the correspondence driver.
   ExtrOcamlBasic only: bool, option, list, prod, unit, sumbool map to OCaml's; nat, positive, N, Z stay Coq datatypes. *)
From DbftV Require Import Model.
From DbftV Require Quorum.
Require Extraction. Require Import ExtrOcamlBasic.
Extraction Language OCaml.
Definition quorum_F := Quorum.F.
Definition quorum_M := Quorum.M.
Definition quorum_primary := Quorum.primary.
Extraction "model.ml" step fresh_state mkCfg somes zlen quorum_F quorum_M quorum_primary.
