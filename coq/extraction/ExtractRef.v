(* Extraction of the reference-code model (C19): Hash256 and the Merkle root. ExtrOcamlBasic only. *)
From DbftV Require Import Sha256 RefModel.
Require Extraction. Require Import ExtrOcamlBasic.
Extraction Language OCaml.
Extraction "rmodel.ml" hash256 merkle_root.
