(* Extraction of the reference-code model (C19): Hash256, the Merkle root, and the recovery-message compaction /
   reconstruction (Ref/Recovery.v). ExtrOcamlBasic only. *)
From DbftV Require Import Sha256 RefModel Recovery.
Require Extraction. Require Import ExtrOcamlBasic.
Extraction Language OCaml.
Extraction "rmodel.ml" hash256 merkle_root new_rmsg add build transmit get_request get_responses get_cvs get_precommits get_commits transmit_payload.
