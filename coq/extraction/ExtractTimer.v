(* Extraction of the timer model (C18) for the correspondence driver tdriver.ml. ExtrOcamlBasic only. *)
From DbftV Require Import TimerModel.
Require Extraction. Require Import ExtrOcamlBasic.
Extraction Language OCaml.
Extraction "tmodel.ml" TimerModel.init TimerModel.step TimerModel.ReadC.
