(* C18 correspondence driver: replays the operation sequences that the real timer.Timer executed through the extracted
   Coq timer model. Two copies of the model bracket the unknown instants inside each call: E assumes every call took
   effect at its start (earliest deadlines), L at its end (latest deadlines).
     value read although E (clock = end of the read) has nothing to deliver          -> EARLY  (never-early clause, strict)
     nothing read although L (clock = start of the read - tolerance) has an expiry   -> LATE   (scheduling tolerance)
     value read with Height()/View() other than the model's latest reset             -> EPOCH *)
open Tmodel

let rec pos_of_int n = if n = 1 then XH else if n land 1 = 0 then XO (pos_of_int (n lsr 1)) else XI (pos_of_int (n lsr 1))
let z_of_int n = if n = 0 then Z0 else if n > 0 then Zpos (pos_of_int n) else Zneg (pos_of_int (-n))
let rec int_of_pos = function XH -> 1 | XO p -> 2 * int_of_pos p | XI p -> 2 * int_of_pos p + 1
let int_of_z = function Z0 -> 0 | Zpos p -> int_of_pos p | Zneg p -> - (int_of_pos p)

let at (m : timer) (t : int) : timer = { m with now = z_of_int t }
let consume (m : timer) : timer =
  match m.tt with
  | Some r -> { m with tt = Some { r with consumed = true }; fresh = false }
  | None -> { m with ch = None; fresh = false }

let () =
  let ic = open_in Sys.argv.(1) in
  let tol_late = (try int_of_string Sys.argv.(2) with _ -> 80_000_000) in
  let e = ref init and l = ref init in
  let seqs = ref 0 and ops = ref 0 and reads = ref 0 and values = ref 0 and bad = ref 0 and seq = ref (-1) and k = ref 0 in
  let diff kind detail = incr bad; Printf.printf "TDIFF seq=%d op=%d kind=%s %s\n" !seq !k kind detail in
  (try while true do
    let line = input_line ic in
    let t = List.filter (fun s -> s <> "") (String.split_on_char ' ' line) in
    (match t with
     | ["SEQ"; i] -> incr seqs; seq := int_of_string i; k := 0; e := init; l := init
     | ["RESET"; a0; a1; h; v; d] ->
         incr ops; incr k;
         let h = z_of_int (int_of_string h) and v = z_of_int (int_of_string v) and d = z_of_int (int_of_string d) in
         e := snd (step (at !e (int_of_string a0)) (OReset (h, v, d)));
         l := snd (step (at !l (int_of_string a1)) (OReset (h, v, d)))
     | ["EXTEND"; a0; a1; d] ->
         incr ops; incr k;
         let d = z_of_int (int_of_string d) in
         e := snd (step (at !e (int_of_string a0)) (OExtend d));
         l := snd (step (at !l (int_of_string a1)) (OExtend d))
     | ["READ"; r0; r1; got; h; v] ->
         incr ops; incr k; incr reads;
         let r0 = int_of_string r0 and r1 = int_of_string r1 in
         if got = "1" then begin
           incr values;
           (match fst (readC (at !e r1)) with
            | None -> diff "EARLY" (Printf.sprintf "an expiry was delivered at <= %d ns but the model (earliest possible deadline) has none: s=%d d=%d" r1 (int_of_z !e.s) (int_of_z !e.d))
            | Some (mh, mv) ->
                if int_of_z mh <> int_of_string h || int_of_z mv <> int_of_string v then
                  diff "EPOCH" (Printf.sprintf "Height/View %s/%s, latest reset %d/%d" h v (int_of_z mh) (int_of_z mv)));
           e := consume (at !e r1); l := consume (at !l r1)
         end else begin
           (match fst (readC (at !l (r0 - tol_late))) with
            | Some _ -> diff "LATE" (Printf.sprintf "no expiry at %d ns although the model (latest possible deadline) delivers one %d ns earlier: s=%d d=%d" r0 tol_late (int_of_z !l.s) (int_of_z !l.d))
            | None -> ());
           e := at !e r1; l := at !l r1
         end
     | _ -> ())
  done with End_of_file -> ());
  Printf.printf "TSUMMARY seqs %d ops %d reads %d values %d disagreements %d\n" !seqs !ops !reads !values !bad
