(* C20: safety of the GENERATED model of formal-models/dbft/dbft.tla for every finite RM, unbounded views, every fault set
   with |RMFault| <= F: refinement of the generated next-state checker to a small abstract skeleton + inductive invariant. *)
From Coq Require Import List ZArith Bool String Lia.
From DbftV Require Import TlaPrelude Spec_dbft.
Import ListNotations.
Open Scope Z_scope.

(* ---------- reflection of the prelude operators ---------- *)
Section Refl.
Context {A : Type} (eqb : A -> A -> bool) (eqb_spec : forall a b, eqb a b = true <-> a = b).
Lemma set_mem_spec x l : set_mem eqb x l = true <-> In x l.
Proof. unfold set_mem. rewrite existsb_exists. split.
  - intros (y & Hy & E). apply eqb_spec in E. subst; auto.
  - intros H. exists x. split; auto. apply eqb_spec; auto. Qed.
Lemma set_subset_spec a b : set_subset eqb a b = true <-> incl a b.
Proof. unfold set_subset. rewrite forallb_forall. split; intros H x Hx; [apply set_mem_spec|apply set_mem_spec]; auto. Qed.
Lemma set_eqb_spec a b : set_eqb eqb a b = true <-> (forall x, In x a <-> In x b).
Proof. unfold set_eqb. rewrite andb_true_iff, !set_subset_spec. unfold incl. split; [intros [H1 H2] x; split; auto|intros H; split; intros x; apply H]. Qed.
Lemma dedup_In x l : In x (dedup eqb l) <-> In x l.
Proof. induction l as [|a l IH]; cbn; [tauto|]. destruct (set_mem eqb a l) eqn:E.
  - rewrite IH. split; auto. intros [->|H]; auto. apply set_mem_spec; auto.
  - cbn. rewrite IH. tauto. Qed.
Lemma dedup_NoDup l : NoDup (dedup eqb l).
Proof. induction l as [|a l IH]; cbn; [constructor|]. destruct (set_mem eqb a l) eqn:E; auto.
  constructor; auto. rewrite dedup_In. intros H. apply set_mem_spec in H. congruence. Qed.
End Refl.

Lemma fun_eqb_spec {B} dom (eqb : B -> B -> bool) (eqb_spec : forall a b, eqb a b = true <-> a = b) f g :
  fun_eqb dom eqb f g = true <-> (forall r, In r dom -> f r = g r).
Proof. unfold fun_eqb. rewrite forallb_forall. split; intros H r Hr; apply eqb_spec; auto. Qed.

Lemma RMStates_eqb_spec a b : RMStates_eqb a b = true <-> a = b.
Proof. destruct a, b; unfold RMStates_eqb; cbn. rewrite andb_true_iff, String.eqb_eq, Z.eqb_eq.
  split; [intros [-> ->]; auto|intros [=]; auto]. Qed.
Lemma Messages_eqb_spec a b : Messages_eqb a b = true <-> a = b.
Proof. destruct a, b; unfold Messages_eqb; cbn. rewrite !andb_true_iff, String.eqb_eq, !Z.eqb_eq.
  split; [intros [[-> ->] ->]; auto|intros [=]; auto]. Qed.

Section Safety.
Variables RM RMFault RMDead : list Z.
Variable MaxView : Z.
(* sets are represented by duplicate-free lists; the constants satisfy the module's ASSUME, translated with the rest of the spec *)
Hypothesis RM_nodup : NoDup RM.
Hypothesis Fault_nodup : NoDup RMFault.
Hypothesis Assume : d_ASSUME RMFault MaxView RMDead RM = true.
Lemma assume_fault : Z.of_nat (List.length (dedup Z.eqb RMFault)) <= d_F RM /\ Z.of_nat (List.length (dedup Z.eqb (RMFault ++ RMDead))) <= d_F RM.
Proof.
  pose proof Assume as A. unfold d_ASSUME in A. repeat (apply andb_true_iff in A; destruct A as [A ?]).
  repeat match goal with H : (_ <=? _) = true |- _ => apply Z.leb_le in H end. unfold card in *. split; assumption.
Qed.

Notation Nx := (d_Next RMFault RMDead RM).
Notation ty s q := (RMStates_type (v_rmState s q)).
Notation vw s q := (RMStates_view (v_rmState s q)).
Notation Mq := (d_M RM).

Inductive Reach : state -> Prop :=
| R0 s : d_Init RM s = true -> Reach s
| RS s s' : Reach s -> Nx s s' = true -> Reach s'.

(* ---------- abstract skeleton ---------- *)
Definition str := String.string.
Definition senders_ge (ms : list Messages_t) (t : string) (v : Z) (k : Z) : Prop :=
  exists l, NoDup l /\ k <= Z.of_nat (List.length l) /\ forall x, In x l -> In (mk_Messages t x v) ms.
Definition rm_upd s s' r (x : RMStates_t) := forall q, In q RM -> v_rmState s' q = if Z.eqb q r then x else v_rmState s q.
Definition rm_same s s' := forall q, In q RM -> v_rmState s' q = v_rmState s q.
Definition ms_add s s' m := forall x, In x (v_msgs s') <-> In x (v_msgs s) \/ x = m.
Definition ms_same s s' := forall x, In x (v_msgs s') <-> In x (v_msgs s).
Definition setty s r t := mk_RMStates t (vw s r).

Definition node_types : list str := ["initialized"; "prepareSent"; "commitSent"; "cv"; "blockAccepted"; "bad"; "dead"]%string.
Definition msg_types : list str := ["PrepareRequest"; "PrepareResponse"; "Commit"; "ChangeView"]%string.
Inductive AbsNext (s s' : state) : Prop :=
| A_send r (t0 : list str) t1 mt : In r RM -> In (ty s r) t0 ->
    (forall x, In x t0 -> x <> "commitSent" /\ x <> "blockAccepted" /\ x <> "dead" /\ x <> "bad")%string ->
    (t1 <> "blockAccepted" /\ t1 <> "bad" /\ (mt = "Commit" -> t1 = "commitSent"))%string ->
    rm_upd s s' r (setty s r t1) -> ms_add s s' (mk_Messages mt r (vw s r)) -> In t1 node_types -> In mt msg_types -> t1 <> "dead"%string -> AbsNext s s'
| A_accept r : In r RM -> ty s r <> "bad"%string -> ty s r <> "dead"%string ->
    senders_ge (v_msgs s) "Commit" (vw s r) Mq ->
    rm_upd s s' r (setty s r "blockAccepted") -> ms_same s s' -> AbsNext s s'
| A_recvcv r : In r RM -> (ty s r <> "bad" /\ ty s r <> "dead" /\ ty s r <> "blockAccepted" /\ ty s r <> "commitSent")%string ->
    rm_upd s s' r (mk_RMStates "initialized" (vw s r + 1)) -> ms_same s s' -> AbsNext s s'
| A_bebad r : In r RMFault -> rm_upd s s' r (setty s r "bad") -> ms_same s s' -> AbsNext s s'
| A_fsend r mt : In r RM -> ty s r = "bad"%string -> rm_same s s' -> ms_add s s' (mk_Messages mt r (vw s r)) -> In mt msg_types -> AbsNext s s'
| A_fdocv r : In r RM -> ty s r = "bad"%string -> rm_upd s s' r (mk_RMStates (ty s r) (vw s r + 1)) -> ms_same s s' -> AbsNext s s'
| A_die r : In r RM -> rm_upd s s' r (setty s r "dead") -> ms_same s s' -> In r RMDead -> AbsNext s s'
| A_stutter : rm_same s s' -> ms_same s s' -> AbsNext s s'.

(* ---------- refinement: every generated transition is an abstract one ---------- *)
Ltac breflect := repeat match goal with
  | H : _ && _ = true |- _ => apply andb_true_iff in H; destruct H
  | H : _ || _ = true |- _ => apply orb_true_iff in H; destruct H
  | H : negb _ = true |- _ => apply negb_true_iff in H
  | H : String.eqb _ _ = true |- _ => apply String.eqb_eq in H
  | H : String.eqb _ _ = false |- _ => apply String.eqb_neq in H
  | H : fun_eqb _ _ _ _ = true |- _ => rewrite (fun_eqb_spec _ _ RMStates_eqb_spec) in H
  | H : set_eqb _ _ _ = true |- _ => rewrite (set_eqb_spec _ Messages_eqb_spec) in H
  | H : set_mem Z.eqb _ _ = true |- _ => rewrite (set_mem_spec _ Z.eqb_eq) in H
  end.

Lemma fupd_upd s s' r u : (forall q, In q RM -> v_rmState s' q = fupd (v_rmState s) r u q) -> rm_upd s s' r (u (v_rmState s r)).
Proof. intros H q Hq. rewrite (H q Hq). reflexivity. Qed.
Lemma fupd2_upd s s' r u0 u1 : (forall q, In q RM -> v_rmState s' q = fupd (fupd (v_rmState s) r u0) r u1 q) -> rm_upd s s' r (u1 (u0 (v_rmState s r))).
Proof. intros H q Hq. rewrite (H q Hq). unfold fupd. rewrite Z.eqb_refl. destruct (Z.eqb q r); reflexivity. Qed.
Lemma add_app s s' m : (forall x, In x (v_msgs s') <-> In x (v_msgs s ++ [m])) -> ms_add s s' m.
Proof. intros H x. rewrite H, in_app_iff. cbn. intuition. Qed.

Lemma card_commit_senders ms v k :
  card Messages_eqb (filter (fun m => String.eqb (Messages_type m) "Commit" && Z.eqb (Messages_view m) v) ms) >=? k = true ->
  senders_ge ms "Commit" v k.
Proof.
  intros H. apply Z.geb_le in H. unfold card in H.
  set (l := dedup Messages_eqb _) in H.
  assert (Hl : forall m, In m l -> In m ms /\ Messages_type m = "Commit"%string /\ Messages_view m = v).
  { intros m Hm. unfold l in Hm. rewrite (dedup_In _ Messages_eqb_spec) in Hm. apply filter_In in Hm. destruct Hm as [Hm Hp].
    apply andb_true_iff in Hp. destruct Hp as [Hp1 Hp2]. apply String.eqb_eq in Hp1. apply Z.eqb_eq in Hp2. auto. }
  assert (Nl : NoDup l) by apply (dedup_NoDup _ Messages_eqb_spec).
  exists (map Messages_rm l). split; [|split].
  - clearbody l. clear H. induction l as [|a l IH]; cbn; [constructor|]. inversion Nl; subst. constructor.
    + intros Hin. apply in_map_iff in Hin. destruct Hin as (b & Hb & Hbl).
      destruct (Hl a (or_introl eq_refl)) as (_ & Ta & Va). destruct (Hl b (or_intror Hbl)) as (_ & Tb & Vb).
      assert (a = b) by (destruct a, b; cbn in *; congruence). subst. contradiction.
    + apply IH; auto. intros m Hm. apply Hl. right; auto.
  - rewrite map_length. auto.
  - intros x Hx. apply in_map_iff in Hx. destruct Hx as (m & <- & Hm). destruct (Hl m Hm) as (Hin & T & V).
    destruct m; cbn in *; subst; auto.
Qed.

Ltac use_fupd := match goal with
  | H : forall q, In q RM -> v_rmState ?s' q = fupd (fupd (v_rmState ?s) ?r ?u0) ?r ?u1 q |- _ => exact (fupd2_upd s s' r u0 u1 H)
  | H : forall q, In q RM -> v_rmState ?s' q = fupd (v_rmState ?s) ?r ?u q |- _ => exact (fupd_upd s s' r u H) end.

Ltac fin := auto; try use_fupd; try (apply add_app; auto; fail); try (cbn; intuition congruence);
  try (let x := fresh in let Hx := fresh in intros x Hx; cbn in Hx;
       repeat (destruct Hx as [<-|Hx]; [repeat split; discriminate|]); destruct Hx);
  try (repeat split; auto; discriminate).

Lemma gen_refines_abs s s' : Nx s s' = true -> AbsNext s s'.
Proof.
  unfold d_Next. intros H. apply orb_true_iff in H. destruct H as [H|H].
  - unfold d_Terminating in H. breflect. apply A_stutter; auto.
  - apply existsb_exists in H. destruct H as (r & Hr & H).
    repeat match type of H with (_ || _) = true => apply orb_true_iff in H; destruct H as [H|H] end.
    + unfold d_RMSendPrepareRequest in H. breflect.
      apply (A_send s s' r ["initialized"%string] "prepareSent"%string "PrepareRequest"%string); fin.
    + unfold d_RMSendPrepareResponse in H. breflect;
      apply (A_send s s' r ["initialized"%string; "cv"%string] "prepareSent"%string "PrepareResponse"%string); fin.
    + unfold d_RMSendCommit in H. breflect;
      apply (A_send s s' r ["prepareSent"%string; "cv"%string] "commitSent"%string "Commit"%string); fin.
    + unfold d_RMAcceptBlock in H. breflect. apply (A_accept s s' r); fin. apply card_commit_senders; auto.
    + unfold d_RMSendChangeView in H. cbv zeta in H. breflect;
      apply (A_send s s' r ["initialized"%string; "prepareSent"%string] "cv"%string "ChangeView"%string); fin.
    + unfold d_RMReceiveChangeView in H. breflect. apply (A_recvcv s s' r); fin.
    + unfold d_RMDie in H. breflect. apply (A_die s s' r); fin.
    + unfold d_RMBeBad in H. breflect. apply (A_bebad s s' r); fin.
    + unfold d_RMFaultySendCV in H. cbv zeta in H. breflect. apply (A_fsend s s' r "ChangeView"%string); fin.
    + unfold d_RMFaultyDoCV in H. breflect. apply (A_fdocv s s' r); fin.
    + unfold d_RMFaultySendCommit in H. cbv zeta in H. breflect. apply (A_fsend s s' r "Commit"%string); fin.
    + unfold d_RMFaultySendPReq in H. cbv zeta in H. breflect. apply (A_fsend s s' r "PrepareRequest"%string); fin.
    + unfold d_RMFaultySendPResp in H. cbv zeta in H. breflect. apply (A_fsend s s' r "PrepareResponse"%string); fin.
Qed.

(* ---------- invariants of the abstract skeleton ---------- *)
Definition locked (t : str) := (t = "commitSent" \/ t = "blockAccepted" \/ t = "dead")%string.
Record Inv (s : state) : Prop := {
  inv_bad : forall r, In r RM -> ty s r = "bad"%string -> In r RMFault;
  inv_rm : forall m, In m (v_msgs s) -> In (Messages_rm m) RM;
  inv_commit : forall m, In m (v_msgs s) -> Messages_type m = "Commit"%string -> ~ In (Messages_rm m) RMFault ->
      locked (ty s (Messages_rm m)) /\ vw s (Messages_rm m) = Messages_view m;
  inv_acc : forall r, In r RM -> ty s r = "blockAccepted"%string -> senders_ge (v_msgs s) "Commit" (vw s r) Mq
}.

Lemma senders_mono (a b : list Messages_t) t v k : (forall m, In m a -> In m b) -> senders_ge a t v k -> senders_ge b t v k.
Proof. intros HS (l & Hn & Hk & Hl). exists l; repeat split; auto. Qed.

Lemma inv_init s : d_Init RM s = true -> Inv s.
Proof.
  unfold d_Init. intros H. apply andb_true_iff in H. destruct H as [H1 H2].
  rewrite (fun_eqb_spec _ _ RMStates_eqb_spec) in H1. unfold set_is_empty in H2. destruct (v_msgs s) eqn:E; [|discriminate].
  split.
  - intros r Hr Hb. rewrite (H1 r Hr) in Hb. discriminate.
  - intros m Hm. rewrite E in Hm. destruct Hm.
  - intros m Hm. rewrite E in Hm. destruct Hm.
  - intros r Hr Hb. rewrite (H1 r Hr) in Hb. discriminate.
Qed.

(* what one abstract step does to one node of RM and to the message set *)
Definition node_step (s s' : state) (q : Z) : Prop :=
  v_rmState s' q = v_rmState s q \/
  (vw s' q = vw s q /\
     ((ty s' q = "bad"%string /\ In q RMFault) \/ ty s' q = "dead"%string \/
      (ty s' q = "blockAccepted"%string /\ senders_ge (v_msgs s) "Commit" (vw s q) Mq) \/
      (~ locked (ty s q) /\ ty s q <> "bad"%string /\ ty s' q <> "bad"%string /\ ty s' q <> "blockAccepted"%string))) \/
  (~ locked (ty s q) /\ ty s' q <> "blockAccepted"%string /\ (ty s' q = "bad"%string -> ty s q = "bad"%string)).

Lemma upd_at s s' r x q : rm_upd s s' r x -> In q RM -> (q = r /\ v_rmState s' q = x) \/ (q <> r /\ v_rmState s' q = v_rmState s q).
Proof. intros H Hq. rewrite (H q Hq). destruct (Z.eqb_spec q r); auto. Qed.

Lemma abs_node s s' q : AbsNext s s' -> In q RM -> node_step s s' q.
Proof.
  unfold node_step, locked, setty.
  intros Hn Hq. destruct Hn as [r t0 t1 mt Hr Ht0 Hall Ht1 Hu Hm|r Hr Hb Hd Hs Hu Hm|r Hr Hc Hu Hm|r Hr Hu Hm|r mt Hr Hb Hsame Hm|r Hr Hb Hu Hm|r Hr Hu Hm|Hsame Hm].
  - destruct (upd_at _ _ _ _ q Hu Hq) as [[-> E]|[_ E]]; [|left; auto]. right; left. rewrite E. cbn. split; auto.
    right; right; right. destruct (Hall _ Ht0) as (A & B & C & D). destruct Ht1 as (T1 & T2 & _).
    repeat split; auto. intros [X|[X|X]]; congruence.
  - destruct (upd_at _ _ _ _ q Hu Hq) as [[-> E]|[_ E]]; [|left; auto]. right; left. rewrite E. cbn. split; auto.
  - destruct (upd_at _ _ _ _ q Hu Hq) as [[-> E]|[_ E]]; [|left; auto]. right; right. rewrite E. cbn.
    destruct Hc as (A & B & C & D). repeat split; try discriminate. intros [X|[X|X]]; congruence.
  - destruct (upd_at _ _ _ _ q Hu Hq) as [[-> E]|[_ E]]; [|left; auto]. right; left. rewrite E. cbn. split; auto.
  - left. apply Hsame; auto.
  - destruct (upd_at _ _ _ _ q Hu Hq) as [[-> E]|[_ E]]; [|left; auto]. right; right. rewrite E. cbn. rewrite Hb.
    repeat split; auto; try discriminate. intros [X|[X|X]]; discriminate.
  - destruct (upd_at _ _ _ _ q Hu Hq) as [[-> E]|[_ E]]; [|left; auto]. right; left. rewrite E. cbn. split; auto.
  - left. apply Hsame; auto.
Qed.

Lemma abs_msgs_mono s s' : AbsNext s s' -> forall m, In m (v_msgs s) -> In m (v_msgs s').
Proof.
  intros Hn m Hm. destruct Hn as [r t0 t1 mt Hr Ht0 Hall Ht1 Hu Ha|r Hr Hb Hd Hs Hu Ha|r Hr Hc Hu Ha|r Hr Hu Ha|r mt Hr Hb Hsame Ha|r Hr Hb Hu Ha|r Hr Hu Ha|Hsame Ha];
  apply Ha; auto.
Qed.

Lemma abs_msgs_new s s' : AbsNext s s' -> forall m, In m (v_msgs s') ->
  In m (v_msgs s) \/
  exists r mt, In r RM /\ m = mk_Messages mt r (vw s r) /\
    (ty s r = "bad"%string \/ (mt = "Commit"%string -> ty s' r = "commitSent"%string /\ vw s' r = vw s r)).
Proof.
  intros Hn m Hm. destruct Hn as [r t0 t1 mt Hr Ht0 Hall Ht1 Hu Ha|r Hr Hb Hd Hs Hu Ha|r Hr Hc Hu Ha|r Hr Hu Ha|r mt Hr Hb Hsame Ha|r Hr Hb Hu Ha|r Hr Hu Ha|Hsame Ha];
  apply Ha in Hm; auto.
  - destruct Hm as [Hm| ->]; auto. right. exists r, mt. repeat split; auto. right. intros ->.
    destruct Ht1 as (_ & _ & Hcm). rewrite (Hu r Hr), Z.eqb_refl. cbn. split; auto.
  - destruct Hm as [Hm| ->]; auto. right. exists r, mt. repeat split; auto.
Qed.

Lemma inv_step s s' : Inv s -> AbsNext s s' -> Inv s'.
Proof.
  intros [Hbad Hrm Hc Hacc] Hn. split.
  - intros q Hq Hb. destruct (abs_node s s' q Hn Hq) as [E|[[Ev [[_ H]|[H|[[H _]|(_ & _ & H & _)]]]]|(_ & _ & H)]]; try congruence; auto.
    + rewrite E in Hb. auto.
  - intros m Hm. destruct (abs_msgs_new s s' Hn m Hm) as [Ho|(r & mt & Hr & -> & _)]; auto.
  - intros m Hm Hty Hnf. unfold locked in *.
    destruct (abs_msgs_new s s' Hn m Hm) as [Ho|(r & mt & Hr & -> & Hk)].
    + destruct (Hc m Ho Hty Hnf) as [Hl Hv]. pose proof (Hrm m Ho) as Hq.
      destruct (abs_node s s' _ Hn Hq) as [E|[[Ev [[_ H]|[H|[[H _]|(H & _)]]]]|(H & _)]]; try contradiction.
      * rewrite E. auto.
      * rewrite Ev. auto.
      * rewrite Ev. auto.
    + cbn [Messages_type Messages_rm Messages_view] in *. subst mt. destruct Hk as [Hk|Hk].
      * exfalso. apply Hnf. apply Hbad; auto.
      * destruct (Hk eq_refl) as [-> ->]. auto.
  - intros q Hq Ha.
    destruct (abs_node s s' q Hn Hq) as [E|[[Ev [[H _]|[H|[[_ H]|(_ & _ & _ & H)]]]]|(_ & H & _)]]; try congruence.
    + rewrite E in *. eapply senders_mono; [apply (abs_msgs_mono _ _ Hn)|]. auto.
    + rewrite Ev. eapply senders_mono; [apply (abs_msgs_mono _ _ Hn)|]. auto.
Qed.

Lemma inv_reach s : Reach s -> Inv s.
Proof. induction 1; [apply inv_init; auto|eapply inv_step; eauto using gen_refines_abs]. Qed.

(* ---------- pigeonhole over Z indices ---------- *)
Definition zmem (l : list Z) (x : Z) : bool := if in_dec Z.eq_dec x l then true else false.
Lemma NoDup_app_disj (a b : list Z) : NoDup a -> NoDup b -> (forall x, In x a -> ~ In x b) -> NoDup (a ++ b).
Proof. induction a as [|x a IH]; cbn; auto. intros Na Nb Hd. inversion Na; subst. constructor.
  - rewrite in_app_iff. intros [H|H]; auto. apply (Hd x); auto. - apply IH; auto. Qed.
Lemma inter_length (l1 l2 U : list Z) : NoDup l1 -> NoDup l2 -> incl l1 U -> incl l2 U ->
  (List.length l1 + List.length l2 <= List.length U + List.length (filter (zmem l2) l1))%nat.
Proof.
  intros N1 N2 I1 I2.
  assert (Hlen : List.length l1 = (List.length (filter (zmem l2) l1) + List.length (filter (fun x => negb (zmem l2 x)) l1))%nat).
  { clear. induction l1 as [|a l IH]; cbn; auto. destruct (zmem l2 a); cbn; lia. }
  assert (Hd : NoDup (filter (fun x => negb (zmem l2 x)) l1 ++ l2)).
  { apply NoDup_app_disj; auto. - apply NoDup_filter; auto.
    - intros x Hx Hx2. apply filter_In in Hx. destruct Hx as [_ Hx]. unfold zmem in Hx.
      destruct (in_dec Z.eq_dec x l2); [discriminate|contradiction]. }
  assert (Hi : incl (filter (fun x => negb (zmem l2 x)) l1 ++ l2) U).
  { intros x Hx. apply in_app_iff in Hx. destruct Hx as [Hx|Hx]; auto. apply filter_In in Hx. apply I1, Hx. }
  pose proof (NoDup_incl_length Hd Hi) as Hl. rewrite app_length in Hl. lia.
Qed.

Lemma dedup_id (l : list Z) : NoDup l -> dedup Z.eqb l = l.
Proof. induction 1 as [|x l Hx Hn IH]; cbn; auto. destruct (set_mem Z.eqb x l) eqn:E.
  - apply (set_mem_spec _ Z.eqb_eq) in E. contradiction. - rewrite IH; auto. Qed.
Lemma Fault_le : Z.of_nat (List.length RMFault) <= d_F RM.
Proof. destruct assume_fault as [H _]. rewrite (dedup_id _ Fault_nodup) in H. exact H. Qed.


Theorem InvTwoBlocksAccepted_holds s : Reach s -> d_InvTwoBlocksAccepted RM s = true.
Proof.
  intros HR. destruct (inv_reach s HR) as [Hbad Hrm Hc Hacc].
  unfold d_InvTwoBlocksAccepted. apply forallb_forall. intros r1 Hr1. apply forallb_forall. intros r2 Hr2.
  unfold set_diff in Hr2. apply filter_In in Hr2. destruct Hr2 as [Hr2 _].
  destruct (String.eqb (ty s r1) "blockAccepted") eqn:E1; [|reflexivity].
  destruct (String.eqb (ty s r2) "blockAccepted") eqn:E2; [|reflexivity].
  apply String.eqb_eq in E1, E2. cbn [negb orb]. apply Z.eqb_eq.
  destruct (Hacc r1 Hr1 E1) as (l1 & N1 & L1 & H1). destruct (Hacc r2 Hr2 E2) as (l2 & N2 & L2 & H2).
  assert (I1 : incl l1 RM) by (intros y Hy; apply (Hrm _ (H1 y Hy))).
  assert (I2 : incl l2 RM) by (intros y Hy; apply (Hrm _ (H2 y Hy))).
  pose proof (inter_length l1 l2 RM N1 N2 I1 I2) as Hi.
  pose proof Fault_le as Fault_le'. unfold d_M, d_F, d_N, card in L1, L2, Fault_le'. rewrite (dedup_id RM RM_nodup) in *.
  set (n := Z.of_nat (List.length RM)) in *.
  assert (Hn : 1 <= n). { unfold n. destruct RM; [destruct Hr1|cbn; lia]. }
  set (c := filter (zmem l2) l1) in *.
  assert (Hex : exists x, In x c /\ ~ In x RMFault).
  { destruct (existsb (fun x => negb (zmem RMFault x)) c) eqn:Ex.
    - apply existsb_exists in Ex. destruct Ex as (x & Hx & Hnf). exists x. split; auto.
      unfold zmem in Hnf. destruct (in_dec Z.eq_dec x RMFault); [discriminate|auto].
    - exfalso. assert (Hinc : incl c RMFault).
      { intros x Hx. destruct (in_dec Z.eq_dec x RMFault) as [H|H]; auto.
        assert (existsb (fun x => negb (zmem RMFault x)) c = true).
        { apply existsb_exists. exists x; split; auto. unfold zmem. destruct (in_dec Z.eq_dec x RMFault); [contradiction|reflexivity]. }
        congruence. }
      assert (Nc : NoDup c) by (apply NoDup_filter; auto).
      pose proof (NoDup_incl_length Nc Hinc) as Hlen.
      assert (3 * ((n - 1) / 3) <= n - 1) by (apply Z.mul_div_le; lia).
      lia. }
  destruct Hex as (x & Hx & Hnf). apply filter_In in Hx. destruct Hx as [X1 X2].
  unfold zmem in X2. destruct (in_dec Z.eq_dec x l2) as [X2'|]; [|discriminate].
  destruct (Hc _ (H1 x X1) eq_refl Hnf) as [_ V1]. destruct (Hc _ (H2 x X2') eq_refl Hnf) as [_ V2]. cbn in V1, V2. congruence.
Qed.

(* ---------- TypeOK and InvFaultNodesCount, for every RM ---------- *)
Record TInv (s : state) : Prop := {
  ti_ty : forall q, In q RM -> In (ty s q) node_types /\ 0 <= vw s q;
  ti_ms : forall m, In m (v_msgs s) -> In (Messages_type m) msg_types /\ In (Messages_rm m) RM /\ 0 <= Messages_view m;
  ti_dead : forall q, In q RM -> ty s q = "dead"%string -> In q RMDead }.

Lemma tinv_init s : d_Init RM s = true -> TInv s.
Proof.
  unfold d_Init. intros H. apply andb_true_iff in H. destruct H as [H1 H2].
  rewrite (fun_eqb_spec _ _ RMStates_eqb_spec) in H1. unfold set_is_empty in H2. destruct (v_msgs s) eqn:E; [|discriminate].
  split.
  - intros q Hq. rewrite (H1 q Hq). cbn. split; [auto|lia].
  - intros m Hm. rewrite E in Hm. destruct Hm.
  - intros q Hq Hd. rewrite (H1 q Hq) in Hd. discriminate.
Qed.

Lemma tinv_step s s' : TInv s -> AbsNext s s' -> TInv s'.
Proof.
  intros [Hty Hms Hdead] Hn.
  assert (Hnode : forall q, In q RM ->
            v_rmState s' q = v_rmState s q \/
            (In (ty s' q) node_types /\ (vw s' q = vw s q \/ vw s' q = vw s q + 1) /\ (ty s' q = "dead"%string -> In q RMDead \/ ty s q = "dead"%string))).
  { intros q Hq. unfold setty in *.
    destruct Hn as [r t0 t1 mt Hr Ht0 Hall Ht1 Hu Hm Hnt Hmt Hnd|r Hr Hb Hd Hs Hu Hm|r Hr Hc Hu Hm|r Hr Hu Hm|r mt Hr Hb Hsame Hm Hmt|r Hr Hb Hu Hm|r Hr Hu Hm Hrd|Hsame Hm];
      try (left; apply Hsame; exact Hq);
      (destruct (upd_at _ _ _ _ q Hu Hq) as [[-> E]|[_ E]]; [right; rewrite E; cbn|left; exact E]).
    - split; [exact Hnt|split; [auto|]]. intros Hx. contradiction.
    - split; [cbn; auto 10|split; [auto|discriminate]].
    - split; [cbn; auto 10|split; [auto|discriminate]].
    - split; [cbn; auto 10|split; [auto|discriminate]].
    - split; [apply (Hty r Hr)|split; [auto|intros Hx; right; exact Hx]].
    - split; [cbn; auto 10|split; [auto|intros _; left; exact Hrd]]. }
  assert (Hmsg : forall m, In m (v_msgs s') -> In m (v_msgs s) \/ (In (Messages_type m) msg_types /\ exists r, In r RM /\ Messages_rm m = r /\ Messages_view m = vw s r)).
  { intros m Hm'.
    destruct Hn as [r t0 t1 mt Hr Ht0 Hall Ht1 Hu Ha Hnt Hmt Hnd|r Hr Hb Hd Hs Hu Ha|r Hr Hc Hu Ha|r Hr Hu Ha|r mt Hr Hb Hsame Ha Hmt|r Hr Hb Hu Ha|r Hr Hu Ha Hrd|Hsame Ha];
      apply Ha in Hm'; auto.
    - destruct Hm' as [Hm'| ->]; auto. right. cbn. split; [exact Hmt|exists r; auto].
    - destruct Hm' as [Hm'| ->]; auto. right. cbn. split; [exact Hmt|exists r; auto]. }
  split.
  - intros q Hq. destruct (Hnode q Hq) as [E|(A & B & _)]; [rewrite E; apply Hty, Hq|]. split; [exact A|]. destruct (Hty q Hq) as [_ Hv]. destruct B as [-> | ->]; lia.
  - intros m Hm'. destruct (Hmsg m Hm') as [Ho|(A & r & Hr & B & C)]; [apply Hms, Ho|]. split; [exact A|split; [rewrite B; exact Hr|]]. rewrite C. apply (Hty r Hr).
  - intros q Hq Hd. destruct (Hnode q Hq) as [E|(_ & _ & C)]; [rewrite E in Hd; apply (Hdead q Hq Hd)|]. destruct (C Hd) as [X|X]; [exact X|apply (Hdead q Hq X)].
Qed.
Lemma tinv_reach s : Reach s -> TInv s.
Proof. induction 1; [apply tinv_init; auto|eapply tinv_step; eauto using gen_refines_abs]. Qed.

Lemma In_types_mem (x : str) (l : list str) : In x l -> set_mem String.eqb x l = true.
Proof. intros H. unfold set_mem. apply existsb_exists. exists x. split; [exact H|apply String.eqb_refl]. Qed.

Theorem TypeOK_holds s : Reach s -> d_TypeOK RM s = true.
Proof.
  intros HR. destruct (tinv_reach s HR) as [Hty Hms _]. unfold d_TypeOK. apply andb_true_iff. split; apply forallb_forall.
  - intros q Hq. destruct (Hty q Hq) as [A B]. cbv zeta. apply andb_true_iff. split; [apply (In_types_mem _ _ A)|apply Z.leb_le, B].
  - intros m Hm. destruct (Hms m Hm) as (A & B & C). cbv zeta. rewrite !andb_true_iff. split; [split|].
    + apply (In_types_mem _ _ A).
    + apply (set_mem_spec _ Z.eqb_eq). exact B.
    + apply Z.leb_le, C.
Qed.

(* the permitted faulty and dead nodes number at most F together: Cardinality(RMFault \cup RMDead) <= F of the ASSUME *)
Theorem InvFaultNodesCount_holds s : Reach s -> d_InvFaultNodesCount RM s = true.
Proof.
  intros HR. destruct (inv_reach s HR) as [Hbad _ _ _]. destruct (tinv_reach s HR) as [_ _ Hdead].
  unfold d_InvFaultNodesCount. apply Z.leb_le. unfold card.
  set (P := fun b_r : Z => (String.eqb (ty s b_r) "bad" || String.eqb (ty s b_r) "dead")%bool).
  assert (Nf : NoDup (filter P RM)) by (apply NoDup_filter, RM_nodup).
  rewrite (dedup_id _ Nf).
  destruct assume_fault as [_ Hu].
  assert (H1 : (List.length (filter P RM) <= List.length (dedup Z.eqb (RMFault ++ RMDead)))%nat).
  { apply NoDup_incl_length; [exact Nf|]. intros x Hx. apply (dedup_In _ Z.eqb_eq). apply in_or_app.
    apply filter_In in Hx. destruct Hx as [Hr Hp]. unfold P in Hp. apply orb_true_iff in Hp. destruct Hp as [Hp|Hp]; apply String.eqb_eq in Hp.
    - left. apply (Hbad x Hr Hp).
    - right. apply (Hdead x Hr Hp). }
  lia.
Qed.
End Safety.
Print Assumptions InvTwoBlocksAccepted_holds.
Print Assumptions TypeOK_holds.
Print Assumptions InvFaultNodesCount_holds.
