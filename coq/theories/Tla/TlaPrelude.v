(* Design probe: semantics of the TLA+ operators used by the generated specs. *)
From Coq Require Import List ZArith Bool String.
Import ListNotations.
Open Scope Z_scope.

Section Sets.
Context {A : Type} (eqb : A -> A -> bool).
Definition set_mem (x : A) (l : list A) : bool := existsb (eqb x) l.
Definition set_subset (a b : list A) : bool := forallb (fun x => set_mem x b) a.
Definition set_eqb (a b : list A) : bool := set_subset a b && set_subset b a.
Definition set_diff (a b : list A) : list A := filter (fun x => negb (set_mem x b)) a.
Definition set_inter (a b : list A) : list A := filter (fun x => set_mem x b) a.
Fixpoint dedup (l : list A) : list A :=
  match l with [] => [] | x :: t => if set_mem x t then dedup t else x :: dedup t end.
Definition card (l : list A) : Z := Z.of_nat (List.length (dedup l)).
End Sets.
Definition set_is_empty {A} (l : list A) : bool := match l with [] => true | _ => false end.
Definition fun_eqb {B} (dom : list Z) (eqb : B -> B -> bool) (f g : Z -> B) : bool := forallb (fun r => eqb (f r) (g r)) dom.
Definition fupd {B} (f : Z -> B) (r : Z) (u : B -> B) : Z -> B := fun q => if Z.eqb q r then u (f r) else f q.
Definition choose_z (p : Z -> bool) (l : list Z) : Z := match find p l with Some x => x | None => -1 end.
Definition zrange (a b : Z) : list Z := map (fun i => a + Z.of_nat i) (seq 0 (Z.to_nat (b - a + 1))).
