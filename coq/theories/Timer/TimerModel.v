(* C18 - the logic of timer/timer.go over an abstract runtime (clock + runtime timers with
   one-slot channels). Assumed runtime semantics (trusted base): time.NewTimer(x) delivers one value on its own
   channel once the clock reaches creation time + x (at once if x <= 0) unless stopped before; Stop never delivers
   afterwards; channels hold one value. *)
From Coq Require Import ZArith Lia List Bool.
Import ListNotations.
Open Scope Z_scope.

Record rtimer := { deadline : Z; consumed : bool }.       (* the runtime timer currently referenced by t.tt *)
Record timer := {
  now : Z;                    (* runtime clock (monotonic) *)
  height : Z; view : Z;
  s : Z; d : Z;               (* start instant and total duration of the latest reset (+ extensions) *)
  tt : option rtimer;
  ch : option Z;              (* buffered value of the zero-duration channel *)
  fresh : bool                (* ghost: no expiry has been read since the latest Reset *)
}.

Definition Reset (t : timer) (h v dur : Z) : timer :=
  if dur =? 0
  then {| now := now t; height := h; view := v; s := now t; d := 0; tt := None; ch := Some (now t); fresh := true |}
  else {| now := now t; height := h; view := v; s := now t; d := dur;
          tt := Some {| deadline := now t + dur; consumed := false |}; ch := ch t; fresh := true |}.

Definition Extend (t : timer) (e : Z) : timer :=
  let d' := d t + e in
  let elapsed := now t - s t in
  if d' >? elapsed
  then {| now := now t; height := height t; view := view t; s := s t; d := d';
          tt := Some {| deadline := now t + (d' - elapsed); consumed := false |}; ch := ch t; fresh := fresh t |}
  else {| now := now t; height := height t; view := view t; s := s t; d := d'; tt := tt t; ch := ch t; fresh := fresh t |}.

Definition Advance (t : timer) (dt : Z) : timer :=
  {| now := now t + Z.max 0 dt; height := height t; view := view t; s := s t; d := d t; tt := tt t; ch := ch t; fresh := fresh t |}.

(* non-blocking receive on t.C(): Some (height, view) of the timer when an expiry is delivered *)
Definition ReadC (t : timer) : option (Z * Z) * timer :=
  match tt t with
  | Some r =>
      if (deadline r <=? now t) && negb (consumed r)
      then (Some (height t, view t),
            {| now := now t; height := height t; view := view t; s := s t; d := d t;
               tt := Some {| deadline := deadline r; consumed := true |}; ch := ch t; fresh := false |})
      else (None, t)
  | None =>
      match ch t with
      | Some _ => (Some (height t, view t),
                   {| now := now t; height := height t; view := view t; s := s t; d := d t; tt := None; ch := None; fresh := false |})
      | None => (None, t)
      end
  end.

Inductive op := OReset (h v dur : Z) | OExtend (e : Z) | OAdvance (dt : Z) | ORead.
Definition step (t : timer) (o : op) : option (Z * Z) * timer :=
  match o with
  | OReset h v dur => (None, Reset t h v dur)
  | OExtend e => (None, Extend t e)
  | OAdvance dt => (None, Advance t dt)
  | ORead => ReadC t
  end.

(* a fresh Timer has the zero time.Time as start instant: time.Since(zero) is (saturated) huge, so an Extend before the first
   Reset never arms anything; modelled by a start instant far in the past *)
Definition init : timer := {| now := 0; height := 0; view := 0; s := - 2 ^ 62; d := 0; tt := None; ch := None; fresh := false |}.

(* invariant A (safety): whatever C() can deliver now is not early for the latest (s, d) *)
Definition InvA (t : timer) : Prop :=
  (forall r, tt t = Some r -> deadline r = s t + d t \/ s t + d t <= now t) /\
  (tt t = None -> forall v, ch t = Some v -> s t + d t <= now t) /\
  s t <= now t.

Lemma invA_init : InvA init.
Proof. unfold InvA, init; cbn. repeat split; try discriminate; try lia. Qed.

Lemma invA_step t o : InvA t -> InvA (snd (step t o)).
Proof.
  intros (I1 & I2 & I4). destruct o as [h v dur|e|dt|]; cbn [step snd].
  - unfold Reset. destruct (dur =? 0) eqn:E; unfold InvA; cbn; repeat split; try discriminate; try lia.
    intros r [=]; subst. cbn. left; lia.
  - unfold Extend. destruct (d t + e >? now t - s t) eqn:E; unfold InvA; cbn.
    + apply Z.gtb_lt in E. repeat split; try discriminate; try lia. intros r [=]; subst; cbn. left; lia.
    + rewrite Z.gtb_ltb in E. apply Z.ltb_ge in E. repeat split; try lia.
      all: try (intros r Hr; right; lia). all: try (intros Hn v Hv; lia).
  - unfold Advance, InvA; cbn. repeat split; try lia.
    all: try (intros r Hr; destruct (I1 r Hr); [left; auto|right; lia]).
    all: try (intros Hn v Hv; specialize (I2 Hn v Hv); lia).
  - unfold ReadC. destruct (tt t) as [r|] eqn:Et.
    + destruct ((deadline r <=? now t) && negb (consumed r)) eqn:E; cbn [snd].
      * unfold InvA; cbn. repeat split; try discriminate; try lia. intros r' [=]; subst; cbn. destruct (I1 r eq_refl); auto.
      * unfold InvA. rewrite Et. auto.
    + destruct (ch t) eqn:Ec; cbn [snd].
      * unfold InvA; cbn. repeat split; try discriminate; try lia.
      * unfold InvA. rewrite Et, Ec. auto.
Qed.

Fixpoint run (t : timer) (ops : list op) : timer := match ops with [] => t | o :: r => run (snd (step t o)) r end.
Lemma invA_run ops : forall t, InvA t -> InvA (run t ops).
Proof. induction ops as [|o r IH]; cbn; auto. intros t Ht. apply IH, invA_step, Ht. Qed.

(* never early, and always the epoch of the latest reset, after any sequence of operations *)
Theorem never_early ops hv t' : ReadC (run init ops) = (Some hv, t') ->
  let t := run init ops in s t + d t <= now t /\ hv = (height t, view t).
Proof.
  intros H t. pose proof (invA_run ops init invA_init) as (I1 & I2 & I4). fold t in I1, I2, I4.
  unfold ReadC in H. fold t in H. destruct (tt t) as [r|] eqn:Et.
  - destruct ((deadline r <=? now t) && negb (consumed r)) eqn:E; [|discriminate]. injection H as <- _.
    apply andb_true_iff in E. destruct E as [E _]. apply Z.leb_le in E. split; auto. destruct (I1 r eq_refl); lia.
  - destruct (ch t) eqn:Ec; [|discriminate]. injection H as <- _. split; auto. apply (I2 eq_refl z eq_refl).
Qed.

(* invariant B (availability): the expiry of the latest reset, if not yet read, will be deliverable at s + d *)
Definition InvB (t : timer) : Prop :=
  fresh t = true ->
  (exists r, tt t = Some r /\ consumed r = false /\ deadline r <= s t + d t) \/ (tt t = None /\ ch t <> None).
Definition wf_op (o : op) := match o with OExtend e => 0 <= e | _ => True end.

Lemma invB_step t o : wf_op o -> InvB t -> InvB (snd (step t o)).
Proof.
  intros Hw IB. destruct o as [h v dur|e|dt|]; cbn [step snd].
  - unfold Reset. destruct (dur =? 0) eqn:E; unfold InvB; cbn; intros _.
    + right. split; auto. discriminate.
    + left. eexists; repeat split; eauto. cbn; lia.
  - cbn in Hw. unfold Extend. destruct (d t + e >? now t - s t) eqn:E; unfold InvB; cbn; intros Hf.
    + left. eexists; repeat split; eauto. cbn. lia.
    + destruct (IB Hf) as [(r & Hr & Hc & Hd)|[Hn Hc]]; [left|right]; auto. exists r. repeat split; auto. lia.
  - unfold Advance, InvB; cbn. exact IB.
  - unfold ReadC. destruct (tt t) as [r|] eqn:Et.
    + destruct ((deadline r <=? now t) && negb (consumed r)) eqn:E; cbn [snd].
      * unfold InvB; cbn. discriminate.
      * unfold InvB. rewrite Et. intros Hf. specialize (IB Hf). rewrite Et in IB. exact IB.
    + destruct (ch t) eqn:Ec; cbn [snd].
      * unfold InvB; cbn. discriminate.
      * unfold InvB. rewrite Et, Ec. intros Hf. specialize (IB Hf). rewrite Et, Ec in IB. exact IB.
Qed.
Lemma invB_run ops : Forall wf_op ops -> forall t, InvB t -> InvB (run t ops).
Proof. induction 1 as [|o r Ho Hr IH]; cbn; auto. intros t Ht. apply IH, invB_step; auto. Qed.

Theorem expiry_available ops : Forall wf_op ops -> let t := run init ops in
  fresh t = true -> s t + d t <= now t -> exists hv t', ReadC t = (Some hv, t').
Proof.
  intros Hw t Hf Hd. assert (IB : InvB t) by (apply invB_run; auto; intros [=]).
  destruct (IB Hf) as [(r & Hr & Hc & Hdl)|[Hn Hc]]; unfold ReadC.
  - rewrite Hr, Hc. assert (E : (deadline r <=? now t) = true) by (apply Z.leb_le; lia). rewrite E. cbn. eauto.
  - rewrite Hn. destruct (ch t); [eauto|congruence].
Qed.
Print Assumptions never_early.
Print Assumptions expiry_available.

(* no stale expiry: right after Reset with a positive duration C() has nothing, whatever was pending before *)
Lemma no_stale_after_reset ops h v dur : 0 < dur -> fst (ReadC (Reset (run init ops) h v dur)) = None.
Proof.
  intros Hd. unfold Reset. destruct (dur =? 0) eqn:E; [apply Z.eqb_eq in E; lia|].
  unfold ReadC. cbn. destruct (now (run init ops) + dur <=? now (run init ops)) eqn:E2; [apply Z.leb_le in E2; lia|]. reflexivity.
Qed.
Lemma zero_fires ops h v : fst (ReadC (Reset (run init ops) h v 0)) = Some (h, v).
Proof. unfold Reset. cbn. reflexivity. Qed.
