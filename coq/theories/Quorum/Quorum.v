(* C06 - quorum arithmetic and primary rotation, for every validator count. The definitions are the Go expressions
   of context.go (N, F, M, GetPrimaryIndex); Node/Model.v uses the same expressions (lemmas in Properties/C06.v). *)
From Coq Require Import ZArith Lia List Arith.
Import ListNotations.
From Coq Require Import ZifyBool.
Ltac Zify.zify_post_hook ::= Z.div_mod_to_equations.
Open Scope Z_scope.

Definition F (n : Z) : Z := Z.quot (n - 1) 3.            (* Go: (len-1)/3, truncated *)
Definition M (n : Z) : Z := n - F n.
Definition primary (h v n : Z) : Z :=                     (* Go: p := (int(h)-int(v)) % n; if p >= 0 {p} else {p+n} *)
  let p := Z.rem (h - v) n in if 0 <=? p then p else p + n.

Lemma F_def n : 1 <= n -> F n = (n - 1) / 3 /\ 3 * F n < n.
Proof. intros H. unfold F. rewrite Z.quot_div_nonneg by lia. split; [reflexivity|]. lia. Qed.
Lemma M_def n : M n = n - F n. Proof. reflexivity. Qed.
Lemma two_quorums_share_more_than_F n : 1 <= n -> 2 * M n - n >= F n + 1.
Proof. intros H. destruct (F_def n H) as [E L]. unfold M. lia. Qed.
Lemma quorum_without_faulty n : 1 <= n -> M n <= n - F n /\ 1 <= M n.
Proof. intros H. destruct (F_def n H) as [E L]. unfold M. rewrite E. lia. Qed.

Lemma primary_is_mod h v n : 1 <= n -> primary h v n = (h - v) mod n.
Proof.
  intros Hn. unfold primary.
  pose proof (Z.rem_bound_abs (h - v) n ltac:(lia)) as Hb.
  destruct (Z_le_gt_dec 0 (h - v)) as [Hp|Hp].
  - rewrite Z.rem_mod_nonneg by lia. pose proof (Z.mod_pos_bound (h - v) n ltac:(lia)).
    destruct (0 <=? (h - v) mod n) eqn:E; lia.
  - pose proof (Z.rem_nonpos (h - v) n ltac:(lia) ltac:(lia)) as Hr.
    pose proof (Z.quot_rem' (h - v) n) as Hq.
    destruct (0 <=? Z.rem (h - v) n) eqn:E.
    + assert (Z.rem (h - v) n = 0) by lia. rewrite H. apply Z.mod_unique with (q := Z.quot (h - v) n); lia.
    + apply Z.mod_unique with (q := Z.quot (h - v) n - 1); [lia|]. lia.
Qed.
Lemma primary_in_range h v n : 1 <= n -> 0 <= primary h v n < n.
Proof. intros Hn. rewrite primary_is_mod by lia. apply Z.mod_pos_bound; lia. Qed.

(* over n consecutive views (resp. heights) every validator is primary exactly once *)
Lemma rotation_views_inj h n v1 v2 : 1 <= n -> v1 <= v2 < v1 + n -> primary h v1 n = primary h v2 n -> v1 = v2.
Proof.
  intros Hn Hv. rewrite !primary_is_mod by lia. intros E.
  assert (H : (v2 - v1) mod n = 0).
  { replace (v2 - v1) with ((h - v1) - (h - v2)) by lia. rewrite Zminus_mod, E, Z.sub_diag. apply Z.mod_0_l; lia. }
  rewrite Z.mod_small in H by lia. lia.
Qed.
Lemma rotation_views_surj h n v0 k : 1 <= n -> 0 <= k < n -> exists v, v0 <= v < v0 + n /\ primary h v n = k.
Proof.
  intros Hn Hk. exists (v0 + (h - v0 - k) mod n).
  pose proof (Z.mod_pos_bound (h - v0 - k) n ltac:(lia)). split; [lia|].
  rewrite primary_is_mod by lia.
  replace (h - (v0 + (h - v0 - k) mod n)) with ((h - v0) - (h - v0 - k) mod n) by lia.
  rewrite Zminus_mod_idemp_r. replace (h - v0 - (h - v0 - k)) with k by lia. apply Z.mod_small; lia.
Qed.
Lemma rotation_heights_inj v n h1 h2 : 1 <= n -> h1 <= h2 < h1 + n -> primary h1 v n = primary h2 v n -> h1 = h2.
Proof.
  intros Hn Hh. rewrite !primary_is_mod by lia. intros E.
  assert (H : (h2 - h1) mod n = 0).
  { replace (h2 - h1) with ((h2 - v) - (h1 - v)) by lia. rewrite Zminus_mod, E, Z.sub_diag. apply Z.mod_0_l; lia. }
  rewrite Z.mod_small in H by lia. lia.
Qed.

(* the exactly-once clause does not survive the uint32 wrap of the height *)
Example rotation_across_wrap_refuted :
  primary (2 ^ 32 - 1) 0 3 = primary ((2 ^ 32 - 1 + 1) mod 2 ^ 32) 0 3.
Proof. vm_compute. reflexivity. Qed.

(* exactly once: on a window of n consecutive views (heights) the primary map is a bijection onto [0,n) *)
Lemma rotation_heights_surj v n h0 k : 1 <= n -> 0 <= k < n -> exists h, h0 <= h < h0 + n /\ primary h v n = k.
Proof.
  intros Hn Hk. exists (h0 + (k + v - h0) mod n).
  pose proof (Z.mod_pos_bound (k + v - h0) n ltac:(lia)). split; [lia|].
  rewrite primary_is_mod by lia.
  replace (h0 + (k + v - h0) mod n - v) with ((h0 - v) + (k + v - h0) mod n) by lia.
  rewrite Zplus_mod_idemp_r. replace (h0 - v + (k + v - h0)) with k by lia. apply Z.mod_small; lia.
Qed.

(* every node computes the same primary: the value depends on (h, v, n) only - it is a function; stated for the record *)
Lemma primary_deterministic h v n h' v' n' : h = h' -> v = v' -> n = n' -> primary h v n = primary h' v' n'.
Proof. intros -> -> ->. reflexivity. Qed.

(* BlockIndex = CurrentHeight()+1 in uint32 arithmetic stays a uint32 *)
Lemma height_wrap h : 0 <= h < 2 ^ 32 -> 0 <= (h + 1) mod 2 ^ 32 < 2 ^ 32.
Proof. intros _. apply Z.mod_pos_bound. lia. Qed.

(* ---- set form: two quorums share more than F members ---- *)
Section Pigeon.
Definition mem (l : list Z) (x : Z) : bool := if in_dec Z.eq_dec x l then true else false.
Lemma NoDup_app_disj (a b : list Z) : NoDup a -> NoDup b -> (forall x, In x a -> ~ In x b) -> NoDup (a ++ b).
Proof. induction a as [|x a IH]; cbn; auto. intros Na Nb Hd. inversion Na; subst. constructor.
  - rewrite in_app_iff. intros [H|H]; auto. apply (Hd x); auto. - apply IH; auto. Qed.
Lemma inter_length (l1 l2 U : list Z) : NoDup l1 -> NoDup l2 -> incl l1 U -> incl l2 U ->
  (length l1 + length l2 <= length U + length (filter (mem l2) l1))%nat.
Proof.
  intros N1 N2 I1 I2.
  assert (Hlen : length l1 = (length (filter (mem l2) l1) + length (filter (fun x => negb (mem l2 x)) l1))%nat).
  { clear. induction l1 as [|a l IH]; cbn; auto. destruct (mem l2 a); cbn; lia. }
  assert (Hd : NoDup (filter (fun x => negb (mem l2 x)) l1 ++ l2)).
  { apply NoDup_app_disj; auto. - apply NoDup_filter; auto.
    - intros x Hx Hx2. apply filter_In in Hx. destruct Hx as [_ Hx]. unfold mem in Hx.
      destruct (in_dec Z.eq_dec x l2); [discriminate|contradiction]. }
  assert (Hi : incl (filter (fun x => negb (mem l2 x)) l1 ++ l2) U).
  { intros x Hx. apply in_app_iff in Hx. destruct Hx as [Hx|Hx]; auto. apply filter_In in Hx. apply I1, Hx. }
  pose proof (NoDup_incl_length Hd Hi) as Hl. rewrite app_length in Hl. lia.
Qed.
End Pigeon.

Definition zrange (n : Z) : list Z := map Z.of_nat (seq 0 (Z.to_nat n)).
Lemma zrange_length n : 0 <= n -> Z.of_nat (length (zrange n)) = n.
Proof. intros. unfold zrange. rewrite map_length, seq_length. lia. Qed.
Lemma zrange_In n x : In x (zrange n) <-> 0 <= x < n.
Proof.
  unfold zrange. rewrite in_map_iff. split.
  - intros (k & <- & Hk). apply in_seq in Hk. lia.
  - intros H. exists (Z.to_nat x). split; [lia|]. apply in_seq. lia.
Qed.

Theorem quorum_intersection n (q1 q2 : list Z) :
  1 <= n -> NoDup q1 -> NoDup q2 ->
  (forall x, In x q1 -> 0 <= x < n) -> (forall x, In x q2 -> 0 <= x < n) ->
  M n <= Z.of_nat (length q1) -> M n <= Z.of_nat (length q2) ->
  F n + 1 <= Z.of_nat (length (filter (mem q2) q1)).
Proof.
  intros Hn N1 N2 R1 R2 L1 L2.
  assert (I1 : incl q1 (zrange n)) by (intros x Hx; apply zrange_In; auto).
  assert (I2 : incl q2 (zrange n)) by (intros x Hx; apply zrange_In; auto).
  pose proof (inter_length q1 q2 (zrange n) N1 N2 I1 I2) as Hi.
  pose proof (zrange_length n ltac:(lia)) as Hz.
  pose proof (two_quorums_share_more_than_F n Hn). lia.
Qed.

(* a quorum can be formed without any faulty validator when at most F are faulty *)
Theorem quorum_without_faulty_set n (faulty : list Z) :
  1 <= n -> Z.of_nat (length faulty) <= F n -> M n <= n - Z.of_nat (length faulty).
Proof. intros Hn Hf. unfold M. lia. Qed.
