(* Design probe: C06 - quorum arithmetic and primary rotation, for all N. *)
From Coq Require Import ZArith Lia List.
From Coq Require Import ZifyBool.
Ltac Zify.zify_post_hook ::= Z.div_mod_to_equations.
Open Scope Z_scope.

Definition F (n : Z) : Z := Z.quot (n - 1) 3.            (* Go: (len-1)/3, truncated *)
Definition M (n : Z) : Z := n - F n.
Definition primary (h v n : Z) : Z :=                     (* Go: p := (int(h)-int(v)) % n; if p >= 0 {p} else {p+n} *)
  let p := Z.rem (h - v) n in if 0 <=? p then p else p + n.

Lemma F_def n : 1 <= n -> F n = (n - 1) / 3 /\ 3 * F n < n.
Proof. intros H. unfold F. rewrite Z.quot_div_nonneg by lia. split; [reflexivity|]. lia. Qed.
Lemma M_def n : M n = n - F n. Proof. reflexivity. Qed.
Lemma two_quorums_share_more_than_F n : 1 <= n -> 2 * M n - n >= F n + 1.
Proof. intros H. destruct (F_def n H) as [E L]. unfold M. lia. Qed.
Lemma quorum_without_faulty n : 1 <= n -> M n <= n - F n /\ 1 <= M n.
Proof. intros H. destruct (F_def n H) as [E L]. unfold M. rewrite E. lia. Qed.

Lemma primary_is_mod h v n : 1 <= n -> primary h v n = (h - v) mod n.
Proof.
  intros Hn. unfold primary.
  pose proof (Z.rem_bound_abs (h - v) n ltac:(lia)) as Hb.
  destruct (Z_le_gt_dec 0 (h - v)) as [Hp|Hp].
  - rewrite Z.rem_mod_nonneg by lia. pose proof (Z.mod_pos_bound (h - v) n ltac:(lia)).
    destruct (0 <=? (h - v) mod n) eqn:E; lia.
  - pose proof (Z.rem_nonpos (h - v) n ltac:(lia) ltac:(lia)) as Hr.
    pose proof (Z.quot_rem' (h - v) n) as Hq.
    destruct (0 <=? Z.rem (h - v) n) eqn:E.
    + assert (Z.rem (h - v) n = 0) by lia. rewrite H. apply Z.mod_unique with (q := Z.quot (h - v) n); lia.
    + apply Z.mod_unique with (q := Z.quot (h - v) n - 1); [lia|]. lia.
Qed.
Lemma primary_in_range h v n : 1 <= n -> 0 <= primary h v n < n.
Proof. intros Hn. rewrite primary_is_mod by lia. apply Z.mod_pos_bound; lia. Qed.

(* over n consecutive views (resp. heights) every validator is primary exactly once *)
Lemma rotation_views_inj h n v1 v2 : 1 <= n -> v1 <= v2 < v1 + n -> primary h v1 n = primary h v2 n -> v1 = v2.
Proof.
  intros Hn Hv. rewrite !primary_is_mod by lia. intros E.
  assert (H : (v2 - v1) mod n = 0).
  { replace (v2 - v1) with ((h - v1) - (h - v2)) by lia. rewrite Zminus_mod, E, Z.sub_diag. apply Z.mod_0_l; lia. }
  rewrite Z.mod_small in H by lia. lia.
Qed.
Lemma rotation_views_surj h n v0 k : 1 <= n -> 0 <= k < n -> exists v, v0 <= v < v0 + n /\ primary h v n = k.
Proof.
  intros Hn Hk. exists (v0 + (h - v0 - k) mod n).
  pose proof (Z.mod_pos_bound (h - v0 - k) n ltac:(lia)). split; [lia|].
  rewrite primary_is_mod by lia.
  replace (h - (v0 + (h - v0 - k) mod n)) with ((h - v0) - (h - v0 - k) mod n) by lia.
  rewrite Zminus_mod_idemp_r. replace (h - v0 - (h - v0 - k)) with k by lia. apply Z.mod_small; lia.
Qed.
Lemma rotation_heights_inj v n h1 h2 : 1 <= n -> h1 <= h2 < h1 + n -> primary h1 v n = primary h2 v n -> h1 = h2.
Proof.
  intros Hn Hh. rewrite !primary_is_mod by lia. intros E.
  assert (H : (h2 - h1) mod n = 0).
  { replace (h2 - h1) with ((h2 - v) - (h1 - v)) by lia. rewrite Zminus_mod, E, Z.sub_diag. apply Z.mod_0_l; lia. }
  rewrite Z.mod_small in H by lia. lia.
Qed.

(* the exactly-once clause does not survive the uint32 wrap of the height *)
Example rotation_across_wrap_refuted :
  primary (2 ^ 32 - 1) 0 3 = primary ((2 ^ 32 - 1 + 1) mod 2 ^ 32) 0 3.
Proof. vm_compute. reflexivity. Qed.
Print Assumptions primary_is_mod.
Print Assumptions two_quorums_share_more_than_F.
