(* C19: the concrete reference computations tied to internal/crypto and internal/merkle:
   Hash256 = SHA-256 twice (Sha256.v), the Merkle root over 32-byte hashes with H l r := Hash256 (l ++ r). *)
From Coq Require Import List NArith.
From DbftV Require Import Sha256 Merkle.
Import ListNotations.

Definition bytes := list N.
Definition merkle_H (l r : bytes) : bytes := hash256 (l ++ r).
Definition merkle_root (leaves : list bytes) : option bytes := root bytes merkle_H leaves.

(* the structural theorems of Merkle.v instantiate to the concrete tree *)
Lemma merkle_root_dup_last a b c : merkle_root [a; b; c] = merkle_root [a; b; c; c].
Proof. apply root_dup_last_refuted. Qed.
Lemma merkle_root_binds_leaves :
  (forall a b c d, merkle_H a b = merkle_H c d -> a = c /\ b = d) ->   (* collision freedom of Hash256 on 64-byte inputs: a hypothesis *)
  forall l1 l2, length l1 = length l2 -> l1 <> [] -> merkle_root l1 = merkle_root l2 -> l1 = l2.
Proof. intros Hinj l1 l2. apply (root_inj_same_length bytes merkle_H Hinj). Qed.
