(* C19 - Merkle root as internal/merkle builds it (pairwise, last node paired with itself). *)
From Coq Require Import List Arith Lia.
Import ListNotations.

Section Merkle.
Variable hash : Type.
Variable H : hash -> hash -> hash.                     (* Hash256(left || right) *)
Hypothesis H_inj : forall a b c d, H a b = H c d -> a = c /\ b = d.   (* collision freedom: an assumption, named in the trusted base *)

Fixpoint level (l : list hash) : list hash :=
  match l with
  | [] => []
  | [a] => [H a a]
  | a :: b :: t => H a b :: level t
  end.

Lemma level_length l : length (level l) = (length l + 1) / 2.
Proof.
  assert (forall n l, length l <= n -> length (level l) = (length l + 1) / 2) as G.
  { induction n; intros l0 Hl.
    - destruct l0; cbn in *; [reflexivity|lia].
    - destruct l0 as [|a [|b t]]; cbn [level length]; try reflexivity.
      rewrite IHn by (cbn in Hl; lia). replace (S (S (length t)) + 1) with ((length t + 1) + 1 * 2) by lia.
      rewrite Nat.div_add by lia. lia. }
  apply (G (length l)); lia.
Qed.

Fixpoint root_fuel (n : nat) (l : list hash) : option hash :=
  match n with
  | O => None
  | S n' => match l with [] => None | [x] => Some x | _ => root_fuel n' (level l) end
  end.
Definition root (l : list hash) : option hash := root_fuel (S (length l)) l.

Lemma level_inj l1 l2 : length l1 = length l2 -> level l1 = level l2 -> l1 = l2.
Proof.
  assert (forall n l1 l2, length l1 <= n -> length l1 = length l2 -> level l1 = level l2 -> l1 = l2) as G.
  { induction n; intros a b Hn Hl He.
    - destruct a, b; cbn in *; try lia; auto.
    - destruct a as [|x [|y t]], b as [|x' [|y' t']]; cbn in Hl; try lia; auto; cbn [level] in He.
      + injection He as He. destruct (H_inj _ _ _ _ He) as [-> _]. reflexivity.
      + injection He as He Ht. destruct (H_inj _ _ _ _ He) as [-> ->]. f_equal. f_equal. apply IHn; auto; cbn in Hn; lia. }
  intros. apply (G (length l1)); auto.
Qed.

Lemma root_fuel_inj n : forall l1 l2, length l1 = length l2 -> length l1 < n -> l1 <> [] ->
  root_fuel n l1 = root_fuel n l2 -> l1 = l2.
Proof.
  induction n; intros l1 l2 Hl Hn Hne He; [lia|].
  destruct l1 as [|x [|y t]], l2 as [|x' [|y' t']]; cbn in Hl; try lia; try congruence.
  - cbn in He. congruence.
  - cbn [root_fuel] in He. apply level_inj; [cbn; lia|].
    apply IHn; auto.
    + rewrite !level_length. cbn [length]. rewrite Hl. reflexivity.
    + rewrite level_length. cbn [length] in *. apply Nat.div_lt_upper_bound; lia.
    + cbn. discriminate.
Qed.

(* any leaf or order change within a list of the same length changes the root *)
Theorem root_inj_same_length l1 l2 : length l1 = length l2 -> l1 <> [] -> root l1 = root l2 -> l1 = l2.
Proof. unfold root. intros Hl Hne He. rewrite <- Hl in He. apply (root_fuel_inj (S (length l1))); auto. Qed.

(* but appending a copy of the last leaf to an odd list does not: the tree cannot tell the two lists apart *)
Theorem root_dup_last_refuted a b c : root [a; b; c] = root [a; b; c; c].
Proof. reflexivity. Qed.
End Merkle.
