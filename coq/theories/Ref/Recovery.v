(* C19 - the recovery-message compaction and reconstruction of internal/consensus (recovery_message.go, compact.go,
   constructors.go, helpers.go): AddPayload packs payloads into compact entries, Get* rebuild payloads from them under
   the header of the recovery payload, EncodeBinary/DecodeBinary decide which fields travel.
   The gob byte format is NOT modelled: `transmit` records which fields the encoder writes and the decoder restores
   (a faithful byte codec for the auxiliary structures is assumed there and exercised on the real code).
   The payload hash is a function of the payload's content (message.go Hash = Hash256 of the encoding of exactly the
   fields below, version and prevHash being zero in every payload the reference constructors and fromPayload build):
   it is a section variable here. *)
From Coq Require Import List NArith Lia Bool.
Import ListNotations.
Local Open Scope N_scope.

Definition bytes := list N.

Inductive body :=
| BChangeView (newview ts : N)                       (* byte; uint32 seconds *)
| BPrepareRequest (ts nonce : N) (hashes : list bytes) (* uint32 seconds; uint64 *)
| BPrepareResponse (h : bytes)
| BCommit (sig : bytes)                              (* [64]byte *)
| BPreCommit (magic : N)                             (* uint32 *)
| BOther.                                            (* RecoveryRequest, RecoveryMessage: never packed *)

(* the message type is the constructor of the body *)
Record payload := mkP { p_height : N; p_view : N; p_index : N; p_body : body }.

Record cvc := mkCV { cv_index : N; cv_orig : N; cv_ts : N }.
Record pcc := mkPC { pc_view : N; pc_index : N; pc_data : bytes }.
Record cmc := mkCM { cm_view : N; cm_index : N; cm_sig : bytes }.
Record rmsg := mkR {
  r_prephash : option bytes;
  r_preps : list N;
  r_precommits : list pcc;
  r_commits : list cmc;
  r_cvs : list cvc;
  r_req : option (N * N * list bytes) }.             (* the packed PrepareRequest: seconds, nonce, hashes *)

Definition new_rmsg (ph : option bytes) : rmsg := mkR ph [] [] [] [] None.

(* helpers.go *)
Definition sec_to_ns (s : N) : N := (s * 1000000000) mod 2^64.
Definition ns_to_sec (n : N) : N := (n / 1000000000) mod 2^32.

(* binary.BigEndian.PutUint32 / Uint32 *)
Definition be32 (m : N) : bytes := [(m / 16777216) mod 256; (m / 65536) mod 256; (m / 256) mod 256; m mod 256].
Definition be32_dec (d : bytes) : N :=
  match d with
  | a :: b :: c :: e :: _ => ((a * 256 + b) * 256 + c) * 256 + e
  | _ => 0                                            (* Go panics here; never reached from packed entries: built_precommit_data *)
  end.

(* copy(cc.Signature[:], sig): exactly 64 bytes, zero padded *)
Fixpoint fit (n : nat) (l : bytes) : bytes :=
  match n with
  | O => []
  | S n' => match l with [] => 0 :: fit n' [] | x :: t => x :: fit n' t end
  end.
Definition fit64 := fit 64.

Section Recovery.
Variable phash : payload -> bytes.

(* AddPayload *)
Definition add (m : rmsg) (p : payload) : rmsg :=
  match p_body p with
  | BPrepareRequest ts nonce hs =>
      mkR (Some (phash p)) (r_preps m) (r_precommits m) (r_commits m) (r_cvs m) (Some (ts, nonce, hs))
  | BPrepareResponse _ =>
      mkR (r_prephash m) (r_preps m ++ [p_index p]) (r_precommits m) (r_commits m) (r_cvs m) (r_req m)
  | BChangeView _ _ =>
      mkR (r_prephash m) (r_preps m) (r_precommits m) (r_commits m) (r_cvs m ++ [mkCV (p_index p) (p_view p) 0]) (r_req m)
  | BPreCommit magic =>
      mkR (r_prephash m) (r_preps m) (r_precommits m ++ [mkPC (p_view p) (p_index p) (be32 magic)]) (r_commits m) (r_cvs m) (r_req m)
  | BCommit sig =>
      mkR (r_prephash m) (r_preps m) (r_precommits m) (r_commits m ++ [mkCM (p_view p) (p_index p) (fit64 sig)]) (r_cvs m) (r_req m)
  | BOther => m
  end.
Definition build (m : rmsg) (ps : list payload) : rmsg := fold_left add ps m.

(* fromPayload + SetValidatorIndex: height and view are those of the recovery payload r *)
Definition from (r : payload) (i : N) (b : body) : payload := mkP (p_height r) (p_view r) i b.

Definition get_request (m : rmsg) (r : payload) (ind : N) : option payload :=
  match r_req m with
  | None => None
  | Some (ts, nonce, hs) => Some (from r ind (BPrepareRequest (ns_to_sec (sec_to_ns ts)) nonce hs))
  end.
Definition get_responses (m : rmsg) (r : payload) : list payload :=
  match r_prephash m with
  | None => []
  | Some h => map (fun i => from r i (BPrepareResponse h)) (r_preps m)
  end.
Definition get_cvs (m : rmsg) (r : payload) : list payload :=
  map (fun c => from r (cv_index c) (BChangeView ((cv_orig c + 1) mod 256) (cv_ts c))) (r_cvs m).
Definition get_precommits (m : rmsg) (r : payload) : list payload :=
  map (fun c => from r (pc_index c) (BPreCommit (be32_dec (pc_data c)))) (r_precommits m).
Definition get_commits (m : rmsg) (r : payload) : list payload :=
  map (fun c => from r (cm_index c) (BCommit (cm_sig c))) (r_commits m).

(* DecodeBinary (EncodeBinary m): with the request packed, the preparation hash is not written and not restored *)
Definition transmit (m : rmsg) : rmsg :=
  mkR (match r_req m with Some _ => None | None => r_prephash m end)
      (r_preps m) (r_precommits m) (r_commits m) (r_cvs m) (r_req m).

(* ---------------------------------------------------------------------------------------- arithmetic *)
Lemma sec_ns_roundtrip s : s < 2^32 -> ns_to_sec (sec_to_ns s) = s.
Proof.
  intros Hs. unfold ns_to_sec, sec_to_ns.
  assert (2^32 = 4294967296) as E32 by reflexivity.
  assert (2^64 = 18446744073709551616) as E64 by reflexivity.
  rewrite E32, E64 in *.
  rewrite (N.mod_small (s * 1000000000)) by lia.
  rewrite N.div_mul by lia. apply N.mod_small. exact Hs.
Qed.

Lemma be32_roundtrip m : m < 2^32 -> be32_dec (be32 m) = m.
Proof.
  intros Hm. assert (2^32 = 4294967296) as E32 by reflexivity. rewrite E32 in Hm.
  unfold be32, be32_dec.
  pose proof (N.div_mod m 256 ltac:(lia)) as H0.
  pose proof (N.mod_lt m 256 ltac:(lia)) as L0.
  set (q0 := m / 256) in *. set (r0 := m mod 256) in *.
  assert (m / 65536 = q0 / 256) as E1 by (unfold q0; rewrite N.div_div by lia; reflexivity).
  assert (m / 16777216 = q0 / 256 / 256) as E2 by (unfold q0; rewrite !N.div_div by lia; reflexivity).
  rewrite E1, E2.
  pose proof (N.div_mod q0 256 ltac:(lia)) as H1.
  pose proof (N.mod_lt q0 256 ltac:(lia)) as L1.
  set (q1 := q0 / 256) in *. set (r1 := q0 mod 256) in *.
  pose proof (N.div_mod q1 256 ltac:(lia)) as H2.
  pose proof (N.mod_lt q1 256 ltac:(lia)) as L2.
  set (q2 := q1 / 256) in *. set (r2 := q1 mod 256) in *.
  assert (q2 < 256) as L3 by lia.
  rewrite (N.mod_small q2) by exact L3. lia.
Qed.

Lemma fit_length n l : length (fit n l) = n.
Proof. revert l; induction n as [|n IH]; intros [|x t]; cbn; auto. Qed.
Lemma fit_id n l : length l = n -> fit n l = l.
Proof. revert l; induction n as [|n IH]; intros [|x t] Hl; cbn in *; try discriminate; auto. f_equal. apply IH. lia. Qed.
Lemma fit64_idem l : fit64 (fit64 l) = fit64 l.
Proof. unfold fit64. apply fit_id, fit_length. Qed.

(* ---------------------------------------------------------------------------------------- what a payload is rebuilt as *)
(* the payload as the constructors of constructors.go build it: signatures are 64 bytes, numbers fit their fields *)
Definition wf_body (b : body) : Prop :=
  match b with
  | BChangeView nv ts => nv < 256 /\ ts < 2^32
  | BPrepareRequest ts _ _ => ts < 2^32
  | BCommit sig => length sig = 64%nat
  | BPreCommit magic => magic < 2^32
  | _ => True
  end.

Definition is_req (p : payload) := match p_body p with BPrepareRequest _ _ _ => true | _ => false end.
Definition is_resp (p : payload) := match p_body p with BPrepareResponse _ => true | _ => false end.
Definition is_commit (p : payload) := match p_body p with BCommit _ => true | _ => false end.
Definition is_precommit (p : payload) := match p_body p with BPreCommit _ => true | _ => false end.
Definition is_cv (p : payload) := match p_body p with BChangeView _ _ => true | _ => false end.

(* one payload, rebuilt under the header of r *)
Definition rebuild_commit (r p : payload) : payload :=
  from r (p_index p) (match p_body p with BCommit sig => BCommit (fit64 sig) | b => b end).
Definition rebuild_precommit (r p : payload) : payload :=
  from r (p_index p) (match p_body p with BPreCommit mg => BPreCommit (be32_dec (be32 mg)) | b => b end).
Definition rebuild_cv (r p : payload) : payload :=
  from r (p_index p) (BChangeView ((p_view p + 1) mod 256) 0).

Lemma add_commits m p r : get_commits (add m p) r = get_commits m r ++ (if is_commit p then [rebuild_commit r p] else []).
Proof.
  unfold add, get_commits, is_commit, rebuild_commit. destruct (p_body p); cbn [r_commits]; rewrite ?app_nil_r; auto.
  rewrite map_app. reflexivity.
Qed.
Lemma add_precommits m p r : get_precommits (add m p) r = get_precommits m r ++ (if is_precommit p then [rebuild_precommit r p] else []).
Proof.
  unfold add, get_precommits, is_precommit, rebuild_precommit. destruct (p_body p); cbn [r_precommits]; rewrite ?app_nil_r; auto.
  rewrite map_app. reflexivity.
Qed.
Lemma add_cvs m p r : get_cvs (add m p) r = get_cvs m r ++ (if is_cv p then [rebuild_cv r p] else []).
Proof.
  unfold add, get_cvs, is_cv, rebuild_cv. destruct (p_body p); cbn [r_cvs]; rewrite ?app_nil_r; auto.
  rewrite map_app. reflexivity.
Qed.

Definition sel (f : payload -> bool) (g : payload -> payload) (ps : list payload) : list payload := map g (filter f ps).

Lemma sel_app f g a b : sel f g (a ++ b) = sel f g a ++ sel f g b.
Proof. unfold sel. rewrite filter_app, map_app. reflexivity. Qed.

(* packed commits, pre-commits and ChangeViews are neither dropped nor duplicated nor reordered, whatever else is packed *)
Theorem build_commits ps : forall m r, get_commits (build m ps) r = get_commits m r ++ sel is_commit (rebuild_commit r) ps.
Proof.
  induction ps as [|p ps IH]; intros m r; cbn [build fold_left].
  - unfold sel; cbn. rewrite app_nil_r. reflexivity.
  - fold (build (add m p) ps). rewrite IH, add_commits, <- app_assoc. f_equal.
    unfold sel. cbn [filter]. destruct (is_commit p); reflexivity.
Qed.
Theorem build_precommits ps : forall m r, get_precommits (build m ps) r = get_precommits m r ++ sel is_precommit (rebuild_precommit r) ps.
Proof.
  induction ps as [|p ps IH]; intros m r; cbn [build fold_left].
  - unfold sel; cbn. rewrite app_nil_r. reflexivity.
  - fold (build (add m p) ps). rewrite IH, add_precommits, <- app_assoc. f_equal.
    unfold sel. cbn [filter]. destruct (is_precommit p); reflexivity.
Qed.
Theorem build_cvs ps : forall m r, get_cvs (build m ps) r = get_cvs m r ++ sel is_cv (rebuild_cv r) ps.
Proof.
  induction ps as [|p ps IH]; intros m r; cbn [build fold_left].
  - unfold sel; cbn. rewrite app_nil_r. reflexivity.
  - fold (build (add m p) ps). rewrite IH, add_cvs, <- app_assoc. f_equal.
    unfold sel. cbn [filter]. destruct (is_cv p); reflexivity.
Qed.

(* a well-formed Commit / PreCommit of the recovery payload's height and view is rebuilt as itself *)
Theorem rebuild_commit_id r p : is_commit p = true -> wf_body (p_body p) ->
  p_height p = p_height r -> p_view p = p_view r -> rebuild_commit r p = p.
Proof.
  unfold is_commit, rebuild_commit, from, wf_body. destruct p as [h v i b]; cbn [p_body p_index p_height p_view]. destruct b; try discriminate.
  intros _ Hl <- <-. unfold fit64. rewrite fit_id by exact Hl. reflexivity.
Qed.
Theorem rebuild_precommit_id r p : is_precommit p = true -> wf_body (p_body p) ->
  p_height p = p_height r -> p_view p = p_view r -> rebuild_precommit r p = p.
Proof.
  unfold is_precommit, rebuild_precommit, from, wf_body. destruct p as [h v i b]; cbn [p_body p_index p_height p_view]. destruct b; try discriminate.
  intros _ Hl <- <-. rewrite be32_roundtrip by exact Hl. reflexivity.
Qed.
(* signer and signature / data survive under ANY header: only height and view are taken from the recovery payload *)
Theorem rebuild_commit_keeps_signer_and_signature r p sig : p_body p = BCommit sig -> length sig = 64%nat ->
  p_index (rebuild_commit r p) = p_index p /\ p_body (rebuild_commit r p) = BCommit sig /\
  p_height (rebuild_commit r p) = p_height r /\ p_view (rebuild_commit r p) = p_view r.
Proof. intros E Hl. unfold rebuild_commit, from. rewrite E. cbn [p_body p_index p_height p_view]. unfold fit64. rewrite fit_id by exact Hl. auto. Qed.

(* a Commit of another view than the recovery payload's is NOT rebuilt as itself: the view kept in the compact entry is not
   used by GetCommits, the rebuilt payload bears the recovery payload's view (commits of other validators from earlier views
   travel relabelled; the node's own commit is of the node's view: Properties/C03.v) *)
Theorem rebuild_commit_relabels_another_view r p : p_view p <> p_view r -> rebuild_commit r p <> p.
Proof. intros Hv E. apply Hv. rewrite <- E at 1. reflexivity. Qed.

(* a ChangeView is NOT rebuilt as itself: the timestamp is dropped; the view it asks for is the sender's view + 1 *)
Theorem rebuild_cv_shape r p : p_body (rebuild_cv r p) = BChangeView ((p_view p + 1) mod 256) 0.
Proof. reflexivity. Qed.

(* ---------------------------------------------------------------------------------------- the proposal and its responses *)
Definition no_req (ps : list payload) := forallb (fun p => negb (is_req p)) ps = true.

Lemma add_req_frame m p : is_req p = false -> r_req (add m p) = r_req m /\ r_prephash (add m p) = r_prephash m.
Proof. unfold is_req, add. destruct (p_body p); try discriminate; auto. Qed.
Lemma build_req_frame ps : forall m, no_req ps -> r_req (build m ps) = r_req m /\ r_prephash (build m ps) = r_prephash m.
Proof.
  induction ps as [|p ps IH]; intros m Hn; cbn [build fold_left]; auto.
  unfold no_req in Hn. cbn [forallb] in Hn. apply andb_true_iff in Hn as [Hp Hn]. apply negb_true_iff in Hp.
  fold (build (add m p) ps). destruct (IH (add m p) Hn) as [-> ->]. apply add_req_frame, Hp.
Qed.
Lemma add_preps m p : r_preps (add m p) = r_preps m ++ (if is_resp p then [p_index p] else []).
Proof. unfold add, is_resp. destruct (p_body p); cbn [r_preps]; rewrite ?app_nil_r; auto. Qed.
Lemma build_preps ps : forall m, r_preps (build m ps) = r_preps m ++ map p_index (filter is_resp ps).
Proof.
  induction ps as [|p ps IH]; intros m; cbn [build fold_left filter map]; [rewrite app_nil_r; reflexivity|].
  fold (build (add m p) ps). rewrite IH, add_preps, <- app_assoc. destruct (is_resp p); reflexivity.
Qed.

(* the proposal packed last is rebuilt as itself under a recovery payload of its height and view, for its own index;
   hence with the original's hash - whatever was packed before and whatever (but a proposal) after it *)
Theorem rebuilt_request_is_the_original m before p after r :
  is_req p = true -> wf_body (p_body p) -> no_req after ->
  p_height r = p_height p -> p_view r = p_view p ->
  get_request (build m (before ++ p :: after)) r (p_index p) = Some p.
Proof.
  intros Hq Hw Hn Hh Hv. unfold build. rewrite fold_left_app. cbn [fold_left]. fold (build m before).
  fold (build (add (build m before) p) after).
  unfold get_request. destruct (build_req_frame after (add (build m before) p) Hn) as [-> _].
  unfold is_req in Hq. destruct p as [h v i b]; cbn [p_body p_index p_height p_view] in *. destruct b; try discriminate.
  unfold add; cbn [p_body r_req]. unfold wf_body in Hw. rewrite sec_ns_roundtrip by exact Hw. unfold from. rewrite Hh, Hv. reflexivity.
Qed.
Corollary rebuilt_request_has_the_original_hash m before p after r q :
  is_req p = true -> wf_body (p_body p) -> no_req after ->
  p_height r = p_height p -> p_view r = p_view p ->
  get_request (build m (before ++ p :: after)) r (p_index p) = Some q -> phash q = phash p.
Proof. intros Hq Hw Hn Hh Hv E. rewrite rebuilt_request_is_the_original in E by assumption. injection E as <-. reflexivity. Qed.

(* on the sender's side every rebuilt response names that proposal, one per packed response, in the packing order *)
Theorem rebuilt_responses_name_the_packed_request m before p after r :
  is_req p = true -> no_req after ->
  get_responses (build m (before ++ p :: after)) r =
  map (fun i => from r i (BPrepareResponse (phash p))) (r_preps (build m before) ++ map p_index (filter is_resp after)).
Proof.
  intros Hq Hn. unfold build. rewrite fold_left_app. cbn [fold_left]. fold (build m before).
  fold (build (add (build m before) p) after). unfold get_responses.
  destruct (build_req_frame after (add (build m before) p) Hn) as [_ ->].
  rewrite build_preps.
  unfold is_req in Hq. unfold add. destruct (p_body p); try discriminate. cbn [r_prephash r_preps]. reflexivity.
Qed.
(* without a packed proposal the responses name the hash the message was created with *)
Theorem rebuilt_responses_name_the_given_hash h ps r : no_req ps ->
  get_responses (build (new_rmsg (Some h)) ps) r = map (fun i => from r i (BPrepareResponse h)) (map p_index (filter is_resp ps)).
Proof.
  intros Hn. unfold get_responses. destruct (build_req_frame ps (new_rmsg (Some h)) Hn) as [_ ->].
  rewrite build_preps. reflexivity.
Qed.

(* ---------------------------------------------------------------------------------------- across the codec *)
Theorem transmit_keeps_commits m r : get_commits (transmit m) r = get_commits m r.       Proof. reflexivity. Qed.
Theorem transmit_keeps_precommits m r : get_precommits (transmit m) r = get_precommits m r. Proof. reflexivity. Qed.
Theorem transmit_keeps_cvs m r : get_cvs (transmit m) r = get_cvs m r.                   Proof. reflexivity. Qed.
Theorem transmit_keeps_request m r i : get_request (transmit m) r i = get_request m r i. Proof. reflexivity. Qed.
Theorem transmit_keeps_responses_without_request m r : r_req m = None -> get_responses (transmit m) r = get_responses m r.
Proof. intros E. unfold get_responses, transmit. cbn [r_prephash r_preps]. rewrite E. reflexivity. Qed.
(* known finding D19, for every message that packs the proposal: the receiver rebuilds no response at all *)
Theorem transmit_loses_responses_packed_with_request m r : r_req m <> None -> get_responses (transmit m) r = [].
Proof. intros E. unfold get_responses, transmit. cbn [r_prephash]. destruct (r_req m); [reflexivity|congruence]. Qed.

(* every pre-commit entry a message built from nothing holds has 4 data bytes (Uint32 in GetPreCommits cannot panic) *)
Lemma built_precommit_data ps : forall m, Forall (fun c => length (pc_data c) = 4%nat) (r_precommits m) ->
  Forall (fun c => length (pc_data c) = 4%nat) (r_precommits (build m ps)).
Proof.
  induction ps as [|p ps IH]; intros m Hm; cbn [build fold_left]; auto.
  apply IH. unfold add. destruct (p_body p); cbn [r_precommits]; auto.
  apply Forall_app; split; auto.
Qed.
End Recovery.

(* ---------------------------------------------------------------------------------------- the payload codec, field level *)
(* consensus_message.go DecodeBinary (EncodeBinary p): every field of a packable payload travels except the view a
   ChangeView asks for, which the decoder sets to the payload's view + 1 (a byte) *)
Definition transmit_payload (p : payload) : payload :=
  match p_body p with
  | BChangeView _ ts => mkP (p_height p) (p_view p) (p_index p) (BChangeView ((p_view p + 1) mod 256) ts)
  | _ => p
  end.

(* "encoding then decoding any payload the decoder accepts reproduces it": what a decoder returns is a fixed point *)
Theorem transmit_payload_idem p : transmit_payload (transmit_payload p) = transmit_payload p.
Proof. unfold transmit_payload. destruct p as [h v i b]; destruct b; reflexivity. Qed.

(* exactly the ChangeViews that ask for another view than the next one are changed by the codec *)
Theorem transmit_payload_id p :
  (forall nv ts, p_body p = BChangeView nv ts -> nv = (p_view p + 1) mod 256) <-> transmit_payload p = p.
Proof.
  unfold transmit_payload. destruct p as [h v i b]; destruct b; cbn [p_body p_view p_height p_index]; split; intros H; try reflexivity; try (intros; discriminate).
  - rewrite <- (H newview ts eq_refl). reflexivity.
  - intros nv ts0 E. injection E as <- <-. injection H as H. symmetry. exact H.
Qed.
