(* SHA-256 on byte lists in Gallina (for comparing Merkle roots and payload/block hashes with Go). *)
From Coq Require Import NArith Arith List.
Import ListNotations.
Open Scope N_scope.

Definition w32 (x : N) : N := N.land x 4294967295.
Definition add32 (a b : N) : N := w32 (a + b).
Definition rotr (x n : N) : N := w32 (N.lor (N.shiftr x n) (N.shiftl x (32 - n))).
Definition shr (x n : N) : N := N.shiftr x n.
Definition not32 (x : N) : N := N.lxor x 4294967295.

Definition Ch x y z := N.lxor (N.land x y) (N.land (not32 x) z).
Definition Maj x y z := N.lxor (N.lxor (N.land x y) (N.land x z)) (N.land y z).
Definition S0 x := N.lxor (N.lxor (rotr x 2) (rotr x 13)) (rotr x 22).
Definition S1 x := N.lxor (N.lxor (rotr x 6) (rotr x 11)) (rotr x 25).
Definition s0 x := N.lxor (N.lxor (rotr x 7) (rotr x 18)) (shr x 3).
Definition s1 x := N.lxor (N.lxor (rotr x 17) (rotr x 19)) (shr x 10).

Definition K : list N := [
 0x428a2f98;0x71374491;0xb5c0fbcf;0xe9b5dba5;0x3956c25b;0x59f111f1;0x923f82a4;0xab1c5ed5;
 0xd807aa98;0x12835b01;0x243185be;0x550c7dc3;0x72be5d74;0x80deb1fe;0x9bdc06a7;0xc19bf174;
 0xe49b69c1;0xefbe4786;0x0fc19dc6;0x240ca1cc;0x2de92c6f;0x4a7484aa;0x5cb0a9dc;0x76f988da;
 0x983e5152;0xa831c66d;0xb00327c8;0xbf597fc7;0xc6e00bf3;0xd5a79147;0x06ca6351;0x14292967;
 0x27b70a85;0x2e1b2138;0x4d2c6dfc;0x53380d13;0x650a7354;0x766a0abb;0x81c2c92e;0x92722c85;
 0xa2bfe8a1;0xa81a664b;0xc24b8b70;0xc76c51a3;0xd192e819;0xd6990624;0xf40e3585;0x106aa070;
 0x19a4c116;0x1e376c08;0x2748774c;0x34b0bcb5;0x391c0cb3;0x4ed8aa4a;0x5b9cca4f;0x682e6ff3;
 0x748f82ee;0x78a5636f;0x84c87814;0x8cc70208;0x90befffa;0xa4506ceb;0xbef9a3f7;0xc67178f2].
Definition H0 : list N := [0x6a09e667;0xbb67ae85;0x3c6ef372;0xa54ff53a;0x510e527f;0x9b05688c;0x1f83d9ab;0x5be0cd19].

(* padding: message ++ 0x80 ++ zeros ++ 64-bit big-endian bit length, to a multiple of 64 bytes *)
Definition be_bytes (n : nat) (x : N) : list N :=
  map (fun i => N.land (N.shiftr x (8 * N.of_nat (n - 1 - i)%nat)) 255) (seq 0 n).
Definition pad (msg : list N) : list N :=
  let l := length msg in
  let k := ((64 - (l + 9) mod 64) mod 64)%nat in
  msg ++ [128] ++ repeat 0 k ++ be_bytes 8 (8 * N.of_nat l).

Fixpoint words (bs : list N) : list N :=
  match bs with
  | a :: b :: c :: d :: t => (N.shiftl a 24 + N.shiftl b 16 + N.shiftl c 8 + d) :: words t
  | _ => []
  end.
Fixpoint chunks (n : nat) (fuel : nat) (l : list N) : list (list N) :=
  match fuel with O => [] | S f => match l with [] => [] | _ => firstn n l :: chunks n f (skipn n l) end end.

(* message schedule: W is kept newest-first *)
Fixpoint extend (n : nat) (w : list N) : list N :=
  match n with
  | O => w
  | S n' =>
      let x := add32 (add32 (s1 (nth 1 w 0)) (nth 6 w 0)) (add32 (s0 (nth 14 w 0)) (nth 15 w 0)) in
      extend n' (x :: w)
  end.

Definition round (st : list N) (kw : N * N) : list N :=
  match st with
  | [a;b;c;d;e;f;g;h] =>
      let t1 := add32 (add32 (add32 h (S1 e)) (add32 (Ch e f g) (fst kw))) (snd kw) in
      let t2 := add32 (S0 a) (Maj a b c) in
      [add32 t1 t2; a; b; c; add32 d t1; e; f; g]
  | _ => st
  end.

Definition compress (h : list N) (block : list N) : list N :=
  let w := rev (extend 48 (rev (words block))) in
  let st := fold_left round (combine K w) h in
  map (fun p => add32 (fst p) (snd p)) (combine h st).

Definition sha256 (msg : list N) : list N :=
  let p := pad msg in
  let hs := fold_left compress (chunks 64 (S (length p / 64)%nat) p) H0 in
  flat_map (be_bytes 4) hs.
Definition hash256 (msg : list N) : list N := sha256 (sha256 msg).

(* FIPS 180-2 test vector: "abc" *)
Example sha256_abc : sha256 [97; 98; 99] =
  [0xba;0x78;0x16;0xbf;0x8f;0x01;0xcf;0xea;0x41;0x41;0x40;0xde;0x5d;0xae;0x22;0x23;
   0xb0;0x03;0x61;0xa3;0x96;0x17;0x7a;0x9c;0xb4;0x10;0xff;0x61;0xf2;0x00;0x15;0xad].
Proof. vm_compute. reflexivity. Qed.
Example sha256_empty_head : firstn 4 (sha256 []) = [0xe3;0xb0;0xc4;0x42].
Proof. vm_compute. reflexivity. Qed.
