(* C03: the commit lock and the single signature, over the functions that can reach initializeConsensus.
   The judgements here carry the invariant Inv2 of P02.v as a precondition (a node that holds a header holds the proposal), so
   that a PrepareRequest arriving after the node has signed finds the proposal in place and is ignored. *)
From DbftV Require Export SignLReset.

Definition Z0 (vs : list key) (mi : Z) (g : tr_t) : Prop := KS mi g -> zlen vs <= 65536 -> nsign g = 0%nat.
(* conditional judgement: run only while nothing is signed *)
Definition kz {A} (x : M A) : Prop :=
  forall vs mi g0 s0, I3g vs mi g0 s0 -> Z0 vs mi g0 -> hx s0 x (fun _ s tr => I3g vs mi (g0 ++ tr) s).
(* judgement with Inv2 as a precondition, for the functions through which a PrepareRequest is received *)
Definition kqi {A} (x : M A) : Prop :=
  forall vs mi g0 s0, Inv2 s0 -> I3g vs mi g0 s0 -> hx s0 x (fun _ s tr => I3g vs mi (g0 ++ tr) s).
Definition ICq (ic : Z -> Z -> M unit) : Prop :=
  forall v t vs mi g0 s0, I3g vs mi g0 s0 -> (KS mi g0 -> 0 < v /\ (zlen vs <= 65536 -> nsign g0 = 0%nat)) ->
  hx s0 (ic v t) (fun _ s tr => I3g vs mi (g0 ++ tr) s).

Lemma kz_of_kq {A} (x : M A) : kq x -> kz x.
Proof. intros H vs mi g0 s0 H0 _. apply (H vs mi g0 s0 H0). Qed.
Lemma kz_ret {A} (a : A) : kz (ret a). Proof. apply kz_of_kq, kq_ret. Qed.
Lemma kz_panic {A} : kz (@panic A). Proof. apply kz_of_kq, kq_panic. Qed.
Lemma k3_frame {A} vs mi g0 s0 (x : M A) : k3 x -> I3g vs mi g0 s0 -> hx s0 x (fun _ s tr => I3g vs mi (g0 ++ tr) s /\ nsign tr = 0%nat).
Proof.
  intros Hx H0. destruct (KS_dec mi g0) as [Hk|Hk].
  - eapply x_conseq; [apply (Hx true vs mi (ViewNumber s0) (nsign g0) (signed_commit g0) s0); split; [exact (H0 Hk)|reflexivity]|].
    cbn. intros _ s n [P T]. split; [|apply (nosign_nsign _ T)]. intros _. rewrite nsign_app, (nosign_nsign _ T), Nat.add_0_r, (signed_commit_app _ _ (nosign_nsign _ T)). apply P.
  - eapply x_conseq; [apply (Hx false vs mi 0 0%nat None s0); exact I|].
    cbn. intros _ s n [_ T]. split; [|apply (nosign_nsign _ T)]. intros Hk2. exfalso. apply Hk. apply (KS_app _ _ _ Hk2).
Qed.
Lemma kz_bind0 {A B} (x : M A) (f : A -> M B) : k3 x -> (forall a, kz (f a)) -> kz (bind x f).
Proof.
  intros Hx Hf vs mi g0 s0 H0 Hz. eapply x_call; [apply (k3_frame vs mi g0 s0 x Hx H0)|]. intros a s1 n1 [P1 N1]. cbn beta.
  eapply x_conseq; [apply (Hf a vs mi (g0 ++ n1) s1 P1)|].
  - intros Hk Hs. apply KS_app in Hk. rewrite nsign_app, N1, (Hz (proj1 Hk) Hs). reflexivity.
  - cbn. intros b s n P. rewrite app_assoc. exact P.
Qed.
Lemma kz_bindz {A B} (x : M A) (f : A -> M B) : kz x -> (forall a, kq (f a)) -> kz (bind x f).
Proof.
  intros Hx Hf vs mi g0 s0 H0 Hz. eapply x_call; [apply (Hx vs mi g0 s0 H0 Hz)|]. intros a s1 n1 P1. cbn beta.
  eapply x_conseq; [apply (Hf a vs mi (g0 ++ n1) s1 P1)|]. cbn. intros b s n P. rewrite app_assoc. exact P.
Qed.
Lemma kz_assoc {A B C} (x : M A) (g : A -> M B) (f : B -> M C) : kz (bind x (fun a => bind (g a) f)) -> kz (bind (bind x g) f).
Proof. intros H vs mi g0 s0 H0 Hz. apply x_assoc. apply H; assumption. Qed.
Lemma kz_ret_bind {A B} (a : A) (f : A -> M B) : kz (f a) -> kz (bind (ret a) f).
Proof. intros H vs mi g0 s0 H0 Hz. apply x_ret_bind. apply H; assumption. Qed.
Lemma kz_get_bind {B} (f : nstate -> M B) : (forall s, kz (f s)) -> kz (bind get f).
Proof. intros H vs mi g0 s0 H0 Hz. apply x_get. apply H; assumption. Qed.

Lemma kqi_of_kq {A} (x : M A) : kq x -> kqi x.
Proof. intros H vs mi g0 s0 _ H0. apply (H vs mi g0 s0 H0). Qed.
Lemma kqi_ret {A} (a : A) : kqi (ret a). Proof. apply kqi_of_kq, kq_ret. Qed.
Lemma kqi_panic {A} : kqi (@panic A). Proof. apply kqi_of_kq, kq_panic. Qed.
Lemma kqi_bind {A B} (x : M A) (f : A -> M B) : K2 x -> kqi x -> (forall a, kqi (f a)) -> kqi (bind x f).
Proof.
  intros HK Hx Hf vs mi g0 s0 J0 H0. eapply x_call; [apply (x_conj _ _ _ _ (HK s0 J0) (Hx vs mi g0 s0 J0 H0))|].
  intros a s1 n1 [[J1 _] P1]. cbn beta.
  eapply x_conseq; [apply (Hf a vs mi (g0 ++ n1) s1 J1 P1)|]. cbn. intros b s n P. rewrite app_assoc. exact P.
Qed.
Lemma kqi_assoc {A B C} (x : M A) (g : A -> M B) (f : B -> M C) : kqi (bind x (fun a => bind (g a) f)) -> kqi (bind (bind x g) f).
Proof. intros H vs mi g0 s0 J0 H0. apply x_assoc. apply H; assumption. Qed.
Lemma kqi_ret_bind {A B} (a : A) (f : A -> M B) : kqi (f a) -> kqi (bind (ret a) f).
Proof. intros H vs mi g0 s0 J0 H0. apply x_ret_bind. apply H; assumption. Qed.
Lemma kqi_get_bind {B} (f : nstate -> M B) : (forall s, kqi (f s)) -> kqi (bind get f).
Proof. intros H vs mi g0 s0 J0 H0. apply x_get. apply H; assumption. Qed.
Lemma kqi_forM {T} (l : list T) (f : T -> M unit) : (forall a, K2 (f a)) -> (forall a, kqi (f a)) -> kqi (forM l f).
Proof. intros HK Hf. induction l as [|a l IH]; cbn [forM]; [apply kqi_ret|]. apply kqi_bind; auto. Qed.

Create HintDb kqidb discriminated.
Create HintDb kzdb discriminated.
Ltac solveK2 := solve [ eauto 3 with kpdb | kp_go leafK ].
Ltac solvek3 := solve [ eauto 3 with kpdb | k3_go ].
Ltac kqi_leaf :=
  first [ solve [eauto 3 with kqidb]
        | apply kqi_of_kq; first [ solve [eauto 3 with kqdb] | solve [apply kq_of_k3; solvek3] ] ].
Ltac kqi_go :=
  lazymatch goal with
  | |- kqi (bind (bind _ _) _) => apply kqi_assoc; kqi_go
  | |- kqi (bind (ret _) _) => apply kqi_ret_bind; kqi_go
  | |- kqi (bind get _) => apply kqi_get_bind; intro; kqi_go
  | |- kqi (bind (if ?b then _ else _) _) => destruct b; kqi_go
  | |- kqi (bind (match ?o with Some _ => _ | None => _ end) _) => destruct o; kqi_go
  | |- kqi (bind _ _) => first [ solve [apply kqi_of_kq; kq_go] | apply kqi_bind; [ solveK2 | first [kqi_leaf | solve [kqi_go]] | intro; kqi_go ] ]
  | |- kqi (ret _) => apply kqi_ret
  | |- kqi panic => apply kqi_panic
  | |- kqi (forM _ _) => apply kqi_forM; [ intro; solveK2 | intro; kqi_go ]
  | |- kqi (if ?b then _ else _) => destruct b; kqi_go
  | |- kqi (match ?o with Some _ => _ | None => _ end) => destruct o; kqi_go
  | |- kqi (match ?o with nil => _ | cons _ _ => _ end) => destruct o; kqi_go
  | |- kqi (let _ := _ in _) => cbv zeta; kqi_go
  | |- kqi _ => first [ kqi_leaf | idtac ]
  end.
Ltac kz_go :=
  lazymatch goal with
  | |- kz (bind (bind _ _) _) => apply kz_assoc; kz_go
  | |- kz (bind (ret _) _) => apply kz_ret_bind; kz_go
  | |- kz (bind get _) => apply kz_get_bind; intro; kz_go
  | |- kz (bind (if ?b then _ else _) _) => destruct b; kz_go
  | |- kz (bind (match ?o with Some _ => _ | None => _ end) _) => destruct o; kz_go
  | |- kz (bind _ _) =>
      first [ apply kz_bindz; [ solve [eauto 3 with kzdb] | intro; solve [kq_go] ]
            | apply kz_bind0; [ solvek3 | intro; kz_go ]
            | solve [apply kz_of_kq; kq_go] ]
  | |- kz (ret _) => apply kz_ret
  | |- kz panic => apply kz_panic
  | |- kz (if ?b then _ else _) => destruct b; kz_go
  | |- kz (match ?o with Some _ => _ | None => _ end) => destruct o; kz_go
  | |- kz (let _ := _ in _) => cbv zeta; kz_go
  | |- kz _ => first [ solve [eauto 3 with kzdb] | solve [apply kz_of_kq; first [solve [eauto 3 with kqdb] | apply kq_of_k3; solvek3]] | idtac ]
  end.

(* the own slot of a table, exactly: what CommitSent / PreCommitSent / ResponseSent return when the node is not told to watch only *)
Lemma os_spec tbl s0 : hx s0 (own_slot tbl)
  (fun r s tr => s = s0 /\ nsign tr = 0%nat /\ forall mi, KS mi tr -> r = isSome (slot (tbl s0) (MyIndex s0))).
Proof.
  unfold own_slot, WatchOnly. apply x_assoc. apply x_get. destruct (MyIndex s0 <? 0) eqn:Em.
  - apply x_ret_bind. apply x_ret. split; [reflexivity|split; [reflexivity|]]. intros mi _. unfold slot. rewrite Em. reflexivity.
  - unfold ask_watchonly. apply x_ask. intros wo c Hc. apply sel_WatchOnly in Hc. subst c. destruct wo.
    + apply x_ret. split; [reflexivity|split; [reflexivity|]]. intros mi Hk. exfalso.
      pose proof (KS_wo _ _ _ _ Hk (or_introl eq_refl)) as E. discriminate E.
    + apply x_get. apply x_tget. intros x Hi Hx. apply x_ret. split; [reflexivity|split; [reflexivity|]]. intros mi _.
      rewrite (slot_nth _ _ _ Hi Hx). reflexivity.
Qed.
(* nothing is signed while the own Commit slot is empty *)
Lemma unsigned_when_no_own_commit vs mi g s : I3g vs mi g s -> KS mi g -> slot (CommitPayloads s) (MyIndex s) = None -> zlen vs <= 65536 -> nsign g = 0%nat.
Proof. intros H Hk Ho Hs. pose proof (H Hk) as (_ & A2 & _ & _ & A5). apply (o1 _ _ _ _ (A5 Hs)). unfold own. rewrite <- A2. exact Ho. Qed.
(* ... and while the node holds no header *)
Lemma unsigned_when_no_header vs mi g s : I3g vs mi g s -> KS mi g -> header s = None -> zlen vs <= 65536 -> nsign g = 0%nat.
Proof.
  intros H Hk Hh Hs. pose proof (H Hk) as (_ & _ & _ & _ & A5). destruct (nsign g) eqn:E; [reflexivity|exfalso].
  destruct (o2 _ _ _ _ (A5 Hs) ltac:(discriminate)) as (c & b & _ & _ & _ & _ & _ & Hb & _). rewrite Hh in Hb. discriminate Hb.
Qed.
Lemma I3g_pad vs mi g n s : I3g vs mi g s -> nsign n = 0%nat -> I3g vs mi (g ++ n) s.
Proof. intros H Hn Hk. apply KS_app in Hk. rewrite nsign_app, Hn, Nat.add_0_r, (signed_commit_app _ _ Hn). apply H. apply Hk. Qed.


Section RecL.
Variable cfg : config.
Hint Resolve h_WatchOnly h_RSOR h_own_slot h_ResponseSent h_PreCommitSent h_CommitSent h_ViewChanging h_NotAccepting h_subscribe h_unsubscribe
  h_StopTxFlow h_changeTimer h_getTimestamp h_MakePreHeader h_CreatePreBlock h_broadcast h_rtt h_makeRecoveryMessage h_sendRecoveryMessage
  h_processMissingTx h_sendRecoveryRequest h_makeChangeView h_makePreCommit h_sendPreCommit h_verifyPreCommits h_extendTimer h_GetPrimaryIndex
  h_onRecoveryRequest h_cache_addMessage h_ask_recv h_MakeHeader h_CreateBlock h_makeCommit h_sendCommit h_verifyCommits h_checkCommit
  h_checkPreCommit h_checkPrepare h_onCommit h_onPreCommit h_updateExistingPayloads : kpdb.
Hint Extern 4 (kp Inv2 G2 _) => (apply K2_of_k2; intros; solve [eauto 3 with kpdb]) : kpdb.
Hint Resolve t_WatchOnly t_RSOR t_own_slot t_ResponseSent t_PreCommitSent t_CommitSent t_ViewChanging t_NotAccepting t_subscribe t_unsubscribe
  t_StopTxFlow t_changeTimer t_getTimestamp t_Fill t_MakePreHeader t_CreatePreBlock t_broadcast t_makePrepareRequest t_rtt
  t_makeRecoveryMessage t_sendRecoveryMessage t_processMissingTx t_sendRecoveryRequest t_makeChangeView t_makePrepareResponse
  t_sendPrepareResponse t_makePreCommit t_sendPreCommit t_verifyPreCommits t_extendTimer t_GetPrimaryIndex t_onRecoveryRequest
  t_cache_addMessage t_ask_recv t_MakeHeader t_CreateBlock t_checkCommit t_verifyCommits t_updateExistingPayloads t_onCommit : kpdb.
Hint Resolve q_sendCommit q_checkPreCommit q_checkPrepare q_sendPrepareRequest q_onPrepareResponse q_onPreCommit : kqdb.
Hint Resolve K_onPrepareResponse : kpdb.
Ltac fixapp := cbn; let s := fresh "s" in let n := fresh "n" in let P := fresh "P" in intros _ s n P; rewrite <- ?app_assoc in *; cbn [app] in *; exact P.

Section WithIcL.
Variable ic : Z -> Z -> M unit.
Hypothesis HicK : forall v t, K2 (ic v t).
Hypothesis Hic3 : ICq ic.
Let Kccv := K_checkChangeView ic HicK.
Let Kscv := K_sendChangeView ic HicK.
Let Kcab := K_createAndCheckBlock cfg ic HicK.
Let Kadd := K_addTransaction cfg ic HicK.
Let Kopr := K_onPrepareRequest cfg ic HicK.
Let Kocv := K_onChangeView cfg ic HicK.
Hint Resolve HicK Kccv Kscv Kcab Kadd Kopr Kocv : kpdb.

(* a view change is entered only while nothing is signed, and for a view above the current one *)
Lemma z_checkChangeView view : kz (checkChangeView ic view).
Proof.
  intros vs mi g0 s0 H0 Hz. unfold checkChangeView. apply x_get.
  destruct (ViewNumber s0 >=? view) eqn:Ev; [apply x_ret; rewrite app_nil_r; exact H0|]. cbv zeta.
  destruct (_ <? _); [apply x_ret; rewrite app_nil_r; exact H0|].
  rewrite Z.geb_leb in Ev. apply Z.leb_gt in Ev.
  assert (Hpos : KS mi g0 -> 0 < view) by (intros Hk; pose proof (H0 Hk) as (_ & _ & A3 & _); lia).
  eapply x_call; [apply (k3_frame vs mi g0 s0 _ t_WatchOnly H0)|]. intros wo s1 n1 [I1 N1]. cbn beta.
  match goal with |- hx _ (bind ?blk _) _ => assert (Hpre : k3 blk) by (destruct wo; k3_go) end.
  eapply x_call; [apply (k3_frame vs mi (g0 ++ n1) s1 _ Hpre I1)|]. intros [] s2 n2 [I2 N2]. cbn beta. apply x_get.
  eapply x_conseq; [apply (Hic3 view (lastBlockTimestamp s2) vs mi ((g0 ++ n1) ++ n2) s2 I2)|fixapp].
  intros Hk. pose proof Hk as Hk'. apply KS_app in Hk'. destruct Hk' as [Hk1 _]. apply KS_app in Hk1. destruct Hk1 as [Hk0 _].
  split; [exact (Hpos Hk0)|]. intros Hs. rewrite !nsign_app, N1, N2, (Hz Hk0 Hs). reflexivity.
Qed.
Hint Resolve z_checkChangeView : kzdb.
Lemma z_sendChangeView r : kz (sendChangeView ic r). Proof. unfold sendChangeView. kz_go. Qed.
Hint Resolve z_sendChangeView : kzdb.
Lemma z_createAndCheckBlock : kz (createAndCheckBlock cfg ic). Proof. unfold createAndCheckBlock. kz_go. Qed.
Hint Resolve z_createAndCheckBlock : kzdb.
Lemma z_addTransaction t : kz (addTransaction cfg ic t). Proof. unfold addTransaction. kz_go. Qed.
Hint Resolve z_addTransaction : kzdb.

(* a ChangeView of a peer is followed only while the node holds no Commit of its own *)
Lemma q_onChangeView m : kq (onChangeView cfg ic m).
Proof.
  intros vs mi g0 s0 H0. unfold onChangeView. apply x_get. cbv zeta.
  destruct (cv_newview m <=? ViewNumber s0); [apply (kq_of_k3 _ (t_onRecoveryRequest cfg m) vs mi g0 s0 H0)|].
  eapply x_call; [apply (os_spec CommitPayloads s0)|]. intros cs s1 n1 (-> & N1 & Hcs). cbn beta.
  eapply x_call with (Qx := fun ps s tr => s = s0 /\ nsign tr = 0%nat).
  { destruct cs; [apply x_ret; split; reflexivity|]. eapply x_conseq; [apply (os_spec PreCommitPayloads s0)|]. cbn. intros r s n (A & B & _). auto. }
  intros ps s2 n2 (-> & N2). cbn beta.
  assert (I2 : I3g vs mi ((g0 ++ n1) ++ n2) s0) by (apply I3g_pad; [apply I3g_pad; assumption|assumption]).
  destruct (cs || ps) eqn:Ecp.
  { eapply x_conseq; [apply (kq_of_k3 _ t_sendRecoveryMessage vs mi ((g0 ++ n1) ++ n2) s0 I2)|fixapp]. }
  apply orb_false_iff in Ecp. destruct Ecp as [-> _].
  assert (Hz : Z0 vs mi ((g0 ++ n1) ++ n2)).
  { intros Hk Hs. pose proof Hk as Hk'. apply KS_app in Hk'. destruct Hk' as [Hk1 _]. apply KS_app in Hk1. destruct Hk1 as [Hk0 Hkn1].
    rewrite !nsign_app, N1, N2, !Nat.add_0_r. apply (unsigned_when_no_own_commit vs mi g0 s0 H0 Hk0); [|exact Hs].
    specialize (Hcs mi Hkn1). destruct (slot (CommitPayloads s0) (MyIndex s0)); [discriminate Hcs|reflexivity]. }
  match goal with |- hx _ ?prog _ => assert (Hrest : kz prog) by kz_go end.
  eapply x_conseq; [apply (Hrest vs mi ((g0 ++ n1) ++ n2) s0 I2 Hz)|fixapp].
Qed.
Hint Resolve q_onChangeView : kqdb.

(* a PrepareRequest is acted upon only while no proposal is held - hence, by Inv2, while the node holds no header and has signed nothing *)
Lemma i_onPrepareRequest m : kqi (onPrepareRequest cfg ic m).
Proof.
  intros vs mi g0 s0 J0 H0. unfold onPrepareRequest.
  eapply x_call; [apply rsor_spec|]. intros rs s1 n1 (-> & -> & Hrs). cbn beta. cbn [app]. destruct rs.
  { assert (Hl : k3 (_ <- ViewChanging ;; ret tt)) by k3_go. eapply x_conseq; [apply (kq_of_k3 _ Hl vs mi g0 s0 H0)|fixapp]. }
  specialize (Hrs eq_refl).
  assert (Hh : header s0 = None).
  { destruct (header s0) as [b|] eqn:E; [|reflexivity]. destruct (i_h2 _ J0 b E) as [r Hr]. rewrite Hrs in Hr. discriminate Hr. }
  assert (Hz : Z0 vs mi g0) by (intros Hk Hs; apply (unsigned_when_no_header vs mi g0 s0 H0 Hk Hh Hs)).
  match goal with |- hx _ ?prog _ => assert (Hrest : kz prog) end.
  { kz_go. all: try (destruct (p_body m) as [[]|]; kz_go). }
  eapply x_conseq; [apply (Hrest vs mi g0 s0 H0 Hz)|fixapp].
Qed.
Hint Resolve i_onPrepareRequest : kqidb.

Lemma i_receive_common d m : (forall x, K2 (d x)) -> (forall x, kqi (d x)) -> kqi (receive_common d m).
Proof. intros HdK Hd. unfold receive_common. kqi_go. Qed.
Lemma i_dispatch0 m : kqi (dispatch0 cfg ic m). Proof. unfold dispatch0. destruct (p_type m); kqi_go. Qed.
Hint Resolve i_dispatch0 : kqidb.
Let Kd0 := K_dispatch0 cfg ic HicK.
Let Knr0 := K_nestedReceive0 cfg ic HicK.
Let Korm := K_onRecoveryMessage cfg ic HicK.
Let Kdis := K_dispatch cfg ic HicK.
Let Korc := K_OnReceive cfg ic HicK.
Hint Resolve Kd0 Knr0 Korm Kdis Korc : kpdb.
Lemma i_nestedReceive0 m : kqi (nestedReceive0 cfg ic m).
Proof.
  unfold nestedReceive0. apply kqi_bind; [solveK2|kqi_leaf|intros _].
  apply i_receive_common; [intros x; apply Kd0|intros x; apply i_dispatch0].
Qed.
Hint Resolve i_nestedReceive0 : kqidb.
Lemma i_onRecoveryMessage m : kqi (onRecoveryMessage cfg ic m).
Proof. unfold onRecoveryMessage. destruct (p_body m); [apply kqi_panic|]. cbv zeta. kqi_go. Qed.
Hint Resolve i_onRecoveryMessage : kqidb.
Lemma i_dispatch m : kqi (dispatch cfg ic m). Proof. unfold dispatch. destruct (p_type m); kqi_go. Qed.
Lemma i_OnReceive m : kqi (OnReceive cfg ic m).
Proof. unfold OnReceive. apply i_receive_common; [intros x; apply Kdis|intros x; apply i_dispatch]. Qed.
Hint Resolve i_OnReceive : kqidb.
Lemma i_replay_map n : forall entries, kqi (replay_map cfg ic n entries).
Proof.
  pose proof (K_replay_map cfg ic HicK) as HKr.
  induction n as [|n IH]; intros entries; destruct entries as [|e entries]; cbn [replay_map]; try apply kqi_ret. kqi_go.
Qed.
End WithIcL.
End RecL.
