(* C10 No lost wake-up, over the whole node model.
   Epoch = (BlockIndex, ViewNumber).  Every function either keeps the epoch at every instant (st), or - if it can reach
   the (re)initialisation - ends [Out]: epoch untouched throughout, or the last timer reset of its trace was made in the
   final epoch and the epoch did not move afterwards.  The (re)initialisation itself always ends by arming the timer
   when the node is a validator that is not watch-only ([Val]: the callbacks say so whenever asked). *)
From DbftV Require Export RT Gates.

Definition ep (s : nstate) : Z * Z := (BlockIndex s, ViewNumber s).
(* epoch and own index fixed; a decided height stays decided *)
Definition Iei (e : Z * Z) (i : Z) (b : bool) (s : nstate) : Prop := ep s = e /\ MyIndex s = i /\ (b = true -> blockProcessed s = true).
Definition Ge (e : Z * Z) (s : nstate) (c : call) : Prop := ep s = e.
Notation st x := (forall e i b, kp (Iei e i b) (Ge e) x).

Ltac leafE :=
  idtac; match goal with
  | H : Iei _ _ _ _ |- Iei _ _ _ _ => unfold Iei, ep in *; cbn; repeat match goal with |- context[if ?b then _ else _] => destruct b end;
      first [exact H | destruct H as (?A & ?B & ?C); split; [assumption|split; [assumption|intros _; reflexivity]]]
  | H : Iei _ _ _ _ |- Ge _ _ _ => exact (proj1 H)
  end.
Ltac st_go := let e := fresh "e" in let i := fresh "i" in let b := fresh "b" in intros e i b; kp_go leafE.

Section Stable.
Variable cfg : config.
Lemma e_WatchOnly : st WatchOnly. Proof. unfold WatchOnly. st_go. Qed.
Lemma e_RSOR : st RequestSentOrReceived. Proof. unfold RequestSentOrReceived. st_go. Qed.
Hint Resolve e_WatchOnly e_RSOR : kpdb.
Lemma e_own_slot tbl : st (own_slot tbl). Proof. unfold own_slot. st_go. Qed.
Lemma e_ResponseSent : st ResponseSent. Proof. apply e_own_slot. Qed.
Lemma e_PreCommitSent : st PreCommitSent. Proof. apply e_own_slot. Qed.
Lemma e_CommitSent : st CommitSent. Proof. apply e_own_slot. Qed.
Lemma e_ViewChanging : st ViewChanging. Proof. unfold ViewChanging. st_go. Qed.
Hint Resolve e_own_slot e_ResponseSent e_PreCommitSent e_CommitSent e_ViewChanging : kpdb.
Lemma e_NotAccepting : st NotAcceptingPayloadsDueToViewChanging. Proof. unfold NotAcceptingPayloadsDueToViewChanging. st_go. Qed.
Lemma e_subscribe : st subscribeForTransactions. Proof. unfold subscribeForTransactions. st_go. Qed.
Lemma e_unsubscribe : st unsubscribeFromTransactions. Proof. unfold unsubscribeFromTransactions. st_go. Qed.
Lemma e_StopTxFlow : st StopTxFlow. Proof. unfold StopTxFlow. st_go. Qed.
Lemma e_changeTimer d : st (changeTimer d). Proof. unfold changeTimer. st_go. Qed.
Hint Resolve e_NotAccepting e_subscribe e_unsubscribe e_StopTxFlow e_changeTimer : kpdb.
Lemma e_getTimestamp : st (getTimestamp cfg). Proof. unfold getTimestamp. st_go. Qed.
Hint Resolve e_getTimestamp : kpdb.
Lemma e_Fill f : st (Fill cfg f). Proof. unfold Fill. st_go. Qed.
Lemma e_MakeHeader : st (MakeHeader cfg). Proof. unfold MakeHeader. st_go. Qed.
Lemma e_MakePreHeader : st MakePreHeader. Proof. unfold MakePreHeader. st_go. Qed.
Hint Resolve e_Fill e_MakeHeader e_MakePreHeader : kpdb.
Lemma e_CreateBlock : st (CreateBlock cfg). Proof. unfold CreateBlock. st_go. Qed.
Lemma e_CreatePreBlock : st CreatePreBlock. Proof. unfold CreatePreBlock. st_go. Qed.
Lemma e_broadcast m : st (broadcast m). Proof. unfold broadcast. st_go. Qed.
Lemma e_makePrepareRequest f : st (makePrepareRequest cfg f). Proof. unfold makePrepareRequest. st_go. Qed.
Lemma e_rtt t : st (rtt_addTime t). Proof. unfold rtt_addTime. st_go. Qed.
Hint Resolve e_CreateBlock e_CreatePreBlock e_broadcast e_makePrepareRequest e_rtt : kpdb.
Lemma e_makeRecoveryMessage : st makeRecoveryMessage. Proof. unfold makeRecoveryMessage. st_go. Qed.
Hint Resolve e_makeRecoveryMessage : kpdb.
Lemma e_sendRecoveryMessage : st sendRecoveryMessage. Proof. unfold sendRecoveryMessage. st_go. Qed.
Lemma e_processMissingTx : st processMissingTx. Proof. unfold processMissingTx. st_go. Qed.
Hint Resolve e_sendRecoveryMessage e_processMissingTx : kpdb.
Lemma e_sendRecoveryRequest : st sendRecoveryRequest. Proof. unfold sendRecoveryRequest. st_go. Qed.
Lemma e_makeChangeView ts r : st (makeChangeView ts r). Proof. unfold makeChangeView. st_go. Qed.
Lemma e_makePrepareResponse : st makePrepareResponse. Proof. unfold makePrepareResponse. st_go. Qed.
Hint Resolve e_sendRecoveryRequest e_makeChangeView e_makePrepareResponse : kpdb.
Lemma e_sendPrepareResponse : st sendPrepareResponse. Proof. unfold sendPrepareResponse. st_go. Qed.
Lemma e_makePreCommit : st makePreCommit. Proof. unfold makePreCommit. st_go. Qed.
Lemma e_makeCommit : st (makeCommit cfg). Proof. unfold makeCommit. st_go. Qed.
Hint Resolve e_sendPrepareResponse e_makePreCommit e_makeCommit : kpdb.
Lemma e_sendPreCommit : st sendPreCommit. Proof. unfold sendPreCommit. st_go. Qed.
Lemma e_sendCommit : st (sendCommit cfg). Proof. unfold sendCommit. st_go. Qed.
Lemma e_verifyCommits : st (verifyCommitPayloadsAgainstHeader cfg). Proof. unfold verifyCommitPayloadsAgainstHeader. st_go. Qed.
Lemma e_verifyPreCommits : st verifyPreCommitPayloadsAgainstPreBlock. Proof. unfold verifyPreCommitPayloadsAgainstPreBlock. st_go. Qed.
Hint Resolve e_sendPreCommit e_sendCommit e_verifyCommits e_verifyPreCommits : kpdb.
Lemma e_checkCommit : st (checkCommit cfg). Proof. unfold checkCommit. st_go. Qed.
Hint Resolve e_checkCommit : kpdb.
Lemma e_checkPreCommit : st (checkPreCommit cfg). Proof. unfold checkPreCommit. st_go. Qed.
Hint Resolve e_checkPreCommit : kpdb.
Lemma e_checkPrepare : st (checkPrepare cfg). Proof. unfold checkPrepare. st_go. Qed.
Lemma e_extendTimer c : st (extendTimer cfg c). Proof. unfold extendTimer. st_go. Qed.
Lemma e_updateExistingPayloads m : st (updateExistingPayloads cfg m). Proof. unfold updateExistingPayloads. st_go. Qed.
Hint Resolve e_checkPrepare e_extendTimer e_updateExistingPayloads : kpdb.
Lemma e_GetPrimaryIndex s v : st (GetPrimaryIndex s v). Proof. unfold GetPrimaryIndex. st_go. Qed.
Hint Resolve e_GetPrimaryIndex : kpdb.
Lemma e_sendPrepareRequest f : st (sendPrepareRequest cfg f). Proof. unfold sendPrepareRequest. st_go. Qed.
Lemma e_onPrepareResponse m : st (onPrepareResponse cfg m). Proof. unfold onPrepareResponse. st_go. all: match goal with |- context[p_body ?p] => destruct (p_body p) as [[]|] end; kp_go leafE. Qed.
Lemma e_onRecoveryRequest m : st (onRecoveryRequest cfg m). Proof. unfold onRecoveryRequest. st_go. Qed.
Lemma e_onPreCommit m : st (onPreCommit cfg m). Proof. unfold onPreCommit. st_go. Qed.
Lemma e_onCommit m : st (onCommit cfg m). Proof. unfold onCommit. st_go. Qed.
Lemma e_cache_addMessage m : st (cache_addMessage m). Proof. unfold cache_addMessage. st_go. Qed.
Lemma e_ask_recv m : st (ask_recv m). Proof. unfold ask_recv. st_go. Qed.
End Stable.

(* ---------------- functions that can reach the (re)initialisation ---------------- *)
Definition StableT (e : Z * Z) (tr : tr_t) : Prop := Forall (fun sc => ep (fst sc) = e) tr.
Definition Rearmed (s : nstate) (tr : tr_t) : Prop :=
  exists tr1 sr h v d tr2, tr = tr1 ++ (sr, CTimerReset h v d) :: tr2 /\ ep sr = ep s /\ StableT (ep s) tr2.
Definition Out (s0 s : nstate) (tr : tr_t) : Prop :=
  (ep s = ep s0 /\ StableT (ep s0) tr /\ (blockProcessed s0 = true -> blockProcessed s = true)) \/ Rearmed s tr.
(* the node is a validator and not watch-only whenever the callbacks are asked *)
Definition Val (tr : tr_t) : Prop :=
  Forall (fun sc => match snd sc with CWatchOnly b => b = false | CKeyPair i _ => 0 <= i | _ => True end) tr.
Definition J {A} (x : M A) : Prop := forall s0, hx s0 x (fun _ s tr => Val tr -> 0 <= MyIndex s0 -> 0 <= MyIndex s /\ Out s0 s tr).

Lemma Val_app a b : Val (a ++ b) -> Val a /\ Val b. Proof. apply Forall_app. Qed.
Lemma Out_refl s : Out s s []. Proof. left. split; [reflexivity|split; [constructor|auto]]. Qed.
Lemma Out_app s0 s1 s2 t1 t2 : Out s0 s1 t1 -> Out s1 s2 t2 -> Out s0 s2 (t1 ++ t2).
Proof.
  intros [(E1 & S1 & D1)|(a & sr & h & v & d & b & -> & Er & Sb)] [(E2 & S2 & D2)|(a2 & sr2 & h2 & v2 & d2 & b2 & -> & Er2 & Sb2)].
  - left. split; [congruence|split; [|auto]]. apply Forall_app. split; [exact S1|]. rewrite <- E1. exact S2.
  - right. exists (t1 ++ a2), sr2, h2, v2, d2, b2. split; [rewrite app_assoc; reflexivity|auto].
  - right. exists a, sr, h, v, d, (b ++ t2). split; [rewrite <- app_assoc; reflexivity|]. split; [congruence|].
    apply Forall_app. rewrite E2. split; assumption.
  - right. exists ((a ++ (sr, CTimerReset h v d) :: b) ++ a2), sr2, h2, v2, d2, b2. split; [rewrite app_assoc; reflexivity|auto].
Qed.

Lemma J_ret {A} (a : A) : J (ret a). Proof. intros s0. apply x_ret. intros _ H0. split; [exact H0|apply Out_refl]. Qed.
Lemma J_bind {A B} (x : M A) (f : A -> M B) : J x -> (forall a, J (f a)) -> J (bind x f).
Proof.
  intros Hx Hf s0. eapply x_call; [apply (Hx s0)|]. intros a s1 n1 P1. cbn beta.
  eapply x_conseq; [apply (Hf a s1)|]. cbn. intros b s2 n2 P2 Hv H0. apply Val_app in Hv. destruct Hv as [V1 V2].
  destruct (P1 V1 H0) as [M1 O1]. destruct (P2 V2 M1) as [M2 O2]. split; [exact M2|eapply Out_app; eauto].
Qed.
Lemma J_assoc {A B C} (x : M A) (g : A -> M B) (f : B -> M C) : J (bind x (fun a => bind (g a) f)) -> J (bind (bind x g) f).
Proof. intros H s0. apply x_assoc. apply H. Qed.
Lemma J_ret_bind {A B} (a : A) (f : A -> M B) : J (f a) -> J (bind (ret a) f).
Proof. intros H s0. apply x_ret_bind. apply H. Qed.
Lemma J_get_bind {B} (f : nstate -> M B) : (forall s, J (f s)) -> J (bind get f).
Proof. intros H s0. apply x_get. apply H. Qed.
Lemma J_of_st {A} (x : M A) : st x -> J x.
Proof.
  intros H s0. eapply x_conseq; [apply (H (ep s0) (MyIndex s0) (blockProcessed s0) s0 (conj eq_refl (conj eq_refl (fun x => x))))|]. cbn. intros a s n [(E & M & D) T] _ H0.
  split; [rewrite M; exact H0|]. left. split; [exact E|split; [exact T|exact D]].
Qed.
Lemma J_panic {A} : J (@panic A). Proof. intros s0. apply x_panic. Qed.
Lemma J_forM {X} (l : list X) (f : X -> M unit) : (forall a, J (f a)) -> J (forM l f).
Proof. intros H. induction l as [|a l IH]; cbn [forM]; [apply J_ret|]. apply J_bind; [apply H|intros _; exact IH]. Qed.

Create HintDb jdb discriminated.
Ltac j_st := apply J_of_st; let e := fresh "e" in let i := fresh "i" in let b := fresh "b" in intros e i b; solve [eauto 3 with kpdb | kp_go leafE].
Ltac j_go :=
  lazymatch goal with
  | |- J (bind (bind _ _) _) => apply J_assoc; j_go
  | |- J (bind (ret _) _) => apply J_ret_bind; j_go
  | |- J (bind get _) => apply J_get_bind; intro; j_go
  | |- J (bind (if ?b then _ else _) _) => destruct b; j_go
  | |- J (bind (match ?o with Some _ => _ | None => _ end) _) => destruct o; j_go
  | |- J (bind _ _) => apply J_bind; [ | intro]; j_go
  | |- J (ret _) => apply J_ret
  | |- J panic => apply J_panic
  | |- J (forM _ _) => apply J_forM; intro; j_go
  | |- J (if ?b then _ else _) => destruct b; j_go
  | |- J (match ?o with Some _ => _ | None => _ end) => destruct o; j_go
  | |- J (match ?o with nil => _ | cons _ _ => _ end) => destruct o; j_go
  | |- J (let _ := _ in _) => cbv zeta; j_go
  | |- J _ => first [ solve [eauto 3 with jdb] | solve [j_st] | idtac ]
  end.

Section Reach.
Variable cfg : config.
Hint Resolve e_WatchOnly e_RSOR e_own_slot e_ResponseSent e_PreCommitSent e_CommitSent e_ViewChanging e_NotAccepting e_subscribe e_unsubscribe
  e_StopTxFlow e_changeTimer e_getTimestamp e_Fill e_MakeHeader e_MakePreHeader e_CreateBlock e_CreatePreBlock e_broadcast e_makePrepareRequest
  e_rtt e_makeRecoveryMessage e_sendRecoveryMessage e_processMissingTx e_sendRecoveryRequest e_makeChangeView e_makePrepareResponse
  e_sendPrepareResponse e_makePreCommit e_makeCommit e_sendPreCommit e_sendCommit e_verifyCommits e_verifyPreCommits e_checkCommit
  e_checkPreCommit e_checkPrepare e_extendTimer e_updateExistingPayloads e_GetPrimaryIndex e_sendPrepareRequest e_onPrepareResponse
  e_onRecoveryRequest e_onPreCommit e_onCommit e_cache_addMessage e_ask_recv : kpdb.

Section Rec.
Variable ic : Z -> Z -> M unit.
Hypothesis Hic : forall v t, J (ic v t).
Local Hint Resolve Hic : jdb.

Lemma j_checkChangeView view : J (checkChangeView ic view). Proof. unfold checkChangeView. j_go. Qed.
Local Hint Resolve j_checkChangeView : jdb.
Lemma j_sendChangeView r : J (sendChangeView ic r). Proof. unfold sendChangeView. j_go. Qed.
Local Hint Resolve j_sendChangeView : jdb.
Lemma j_createAndCheckBlock : J (createAndCheckBlock cfg ic). Proof. unfold createAndCheckBlock. j_go. Qed.
Local Hint Resolve j_createAndCheckBlock : jdb.
Lemma j_addTransaction t : J (addTransaction cfg ic t). Proof. unfold addTransaction. j_go. Qed.
Lemma j_onPrepareRequest m : J (onPrepareRequest cfg ic m).
Proof. unfold onPrepareRequest. j_go. destruct (p_body m) as [[]|]; j_go. Qed.
Lemma j_onChangeView m : J (onChangeView cfg ic m). Proof. unfold onChangeView. j_go. Qed.
Local Hint Resolve j_addTransaction j_onPrepareRequest j_onChangeView : jdb.
Lemma j_receive_common d m : (forall x, J (d x)) -> J (receive_common d m).
Proof. intros Hd. unfold receive_common. j_go. Qed.
Lemma j_dispatch0 m : J (dispatch0 cfg ic m). Proof. unfold dispatch0. destruct (p_type m); j_go. Qed.
Local Hint Resolve j_dispatch0 : jdb.
Lemma j_nestedReceive0 m : J (nestedReceive0 cfg ic m).
Proof. unfold nestedReceive0. apply J_bind; [j_go|intros _]. apply j_receive_common. intros x. apply j_dispatch0. Qed.
Local Hint Resolve j_nestedReceive0 : jdb.
Lemma j_onRecoveryMessage m : J (onRecoveryMessage cfg ic m).
Proof. unfold onRecoveryMessage. destruct (p_body m); [apply J_panic|]. cbv zeta. j_go. Qed.
Local Hint Resolve j_onRecoveryMessage : jdb.
Lemma j_dispatch m : J (dispatch cfg ic m). Proof. unfold dispatch. destruct (p_type m); j_go. Qed.
Lemma j_OnReceive m : J (OnReceive cfg ic m). Proof. unfold OnReceive. apply j_receive_common. apply j_dispatch. Qed.
Local Hint Resolve j_OnReceive : jdb.
Lemma j_replay_map n : forall entries, J (replay_map cfg ic n entries).
Proof. induction n as [|n IH]; intros entries; destruct entries as [|e entries]; cbn [replay_map]; try apply J_ret. j_go. Qed.
End Rec.

(* reset: under Val the node's index read from the key-pair callback is a position in the list *)
Lemma sel_KeyPair_idx s c ik :
  match c with
  | CKeyPair i k => if i =? -1 then Some (i, k) else
                    if (0 <=? i) && (i <? N s) && match nth_chk (Validators s) (Z.to_nat i) with Some k' => k' =? k | None => false end
                    then Some (i, k) else None
  | _ => None end = Some ik -> exists k, c = CKeyPair (fst ik) k.
Proof.
  destruct c; try discriminate. destruct (idx =? -1); [intros [= <-]; eauto|]. destruct (_ && _); [|discriminate]. intros [= <-]. eauto.
Qed.
Lemma Val_in tr s c : Val tr -> In (s, c) tr -> match c with CWatchOnly b => b = false | CKeyPair i _ => 0 <= i | _ => True end.
Proof. intros H Hin. unfold Val in H. rewrite Forall_forall in H. apply (H (s, c) Hin). Qed.

Lemma reset_idx view ts s0 : hx s0 (reset cfg view ts) (fun _ s tr => Val tr -> 0 <= MyIndex s).
Proof.
  unfold reset. apply x_modify. unfold unsubscribeFromTransactions at 1. apply x_modify.
  eapply x_call with (Qx := fun _ _ _ => True).
  { destruct (view =? 0).
    - xs. exact I. exact I.
    - apply x_get. eapply x_call; [apply (keep_changeviews_spec (fun _ => True))|]. intros l s1 n1 _. apply x_modify_last. exact I. }
  intros [] s1 n1 _. apply x_get. apply x_ask. intros ik c Hc. apply sel_KeyPair_idx in Hc. destruct Hc as [k ->].
  apply x_modify. apply x_modify.
  eapply x_call with (Qx := fun _ s tr => MyIndex s = fst ik).
  { destruct (view =? 0); [apply x_modify_last|apply x_ret]; reflexivity. }
  intros [] s2 n2 E2. apply x_modify. apply x_get. unfold GetPrimaryIndex. match goal with |- context[if ?b then panic else _] => destruct b end; [apply x_panic_bind|].
  apply x_ret_bind. apply x_modify. apply x_get.
  match goal with |- hx ?st _ _ => set (s4 := st) end.
  assert (E4 : MyIndex s4 = fst ik) by (unfold s4; cbn; exact E2).
  assert (Hfin : forall tr', Val (n1 ++ (s1, CKeyPair (fst ik) k) :: n2 ++ tr') -> 0 <= fst ik).
  { intros tr' Hv. apply (Val_in _ s1 (CKeyPair (fst ik) k) Hv). apply in_or_app. right. left. reflexivity. }
  destruct (MyIndex s4 >=? 0).
  - apply x_tset. intros l _ _. apply x_modify_last. intros Hv. change (0 <= MyIndex s4). rewrite E4. apply (Hfin [] Hv).
  - apply x_ret. intros Hv. rewrite E4. apply (Hfin [] Hv).
Qed.

Definition Jm {A} (x : M A) : Prop := forall s0, hx s0 x (fun _ s tr => Val tr -> 0 <= MyIndex s0 -> 0 <= MyIndex s).
Lemma J_Jm {A} (x : M A) : J x -> Jm x.
Proof. intros H s0. eapply x_conseq; [apply H|]. cbn. intros a s n P Hv H0. apply (P Hv H0). Qed.

Lemma sel_TimerReset (p : call -> bool) c : (if match c with CTimerReset h v d => p c | _ => false end then Some tt else None) = Some tt -> exists h v d, c = CTimerReset h v d.
Proof. destruct c; try discriminate. eauto. Qed.

Definition JR {A} (x : M A) : Prop := forall s0, hx s0 x (fun _ s tr => Val tr -> 0 <= MyIndex s /\ Rearmed s tr).
Lemma JR_J {A} (x : M A) : JR x -> J x.
Proof. intros H s0. eapply x_conseq; [apply H|]. cbn. intros a s n P Hv _. destruct (P Hv). split; [assumption|right; assumption]. Qed.

Lemma j_ic_body ic view ts : (forall v t, J (ic v t)) -> JR (initializeConsensus_body cfg ic view ts).
Proof.
  intros Hic s0. unfold initializeConsensus_body.
  eapply x_call; [apply (reset_idx view ts s0)|]. intros [] s1 n1 P1. cbn beta. apply x_get.
  eapply x_call.
  { apply (J_Jm (if IsPrimary s1 then ret tt else _ <- WatchOnly ;; ret tt)). j_go. }
  intros [] s2 n2 P2. cbn beta.
  eapply x_call; [apply (J_Jm StopTxFlow); j_go|]. intros [] s3 n3 P3. cbn beta.
  apply x_modify. apply x_get.
  match goal with |- hx ?st _ _ => set (s4 := st) end.
  assert (E4 : MyIndex s4 = MyIndex s3) by reflexivity.
  eapply x_call.
  { apply (J_Jm (match assoc_get (cache s4) (BlockIndex s4) with
                 | None => ret tt
                 | Some ib =>
                     modify (fun s => s <| cache := assoc_del (cache s) (BlockIndex s) |>) ;;;
                     replay_map cfg ic (length (ib_prepare ib)) (ib_prepare ib) ;;;
                     replay_map cfg ic (length (ib_chviews ib)) (ib_chviews ib) ;;;
                     replay_map cfg ic (length (ib_precommit ib)) (ib_precommit ib) ;;;
                     replay_map cfg ic (length (ib_commit ib)) (ib_commit ib)
                 end)).
    pose proof (j_replay_map ic Hic) as Hr. j_go. all: apply Hr. }
  intros [] s5 n5 P5. cbn beta.
  assert (P05 : Val (n1 ++ n2 ++ n3 ++ n5) -> 0 <= MyIndex s5).
  { intros Hv. apply Val_app in Hv. destruct Hv as [V1 Hv]. apply Val_app in Hv. destruct Hv as [V2 Hv]. apply Val_app in Hv. destruct Hv as [V3 V5].
    apply P5; [exact V5|]. rewrite E4. apply P3; [exact V3|]. apply P2; [exact V2|]. apply P1. exact V1. }
  unfold WatchOnly. apply x_assoc. apply x_get. destruct (MyIndex s5 <? 0) eqn:Em.
  { apply x_ret_bind. apply x_ret. intros Hv. exfalso. rewrite app_nil_r in Hv. apply Z.ltb_lt in Em. pose proof (P05 Hv). lia. }
  unfold ask_watchonly. apply x_ask. intros wo c Hc. apply sel_WatchOnly in Hc. subst c. destruct wo.
  { apply x_ret. intros Hv. exfalso. repeat (apply Val_app in Hv; destruct Hv as [_ Hv]).
    apply Forall_cons_iff in Hv. destruct Hv as [Hv _]. discriminate Hv. }
  apply x_get. cbv zeta.
  assert (Hfin : forall pre d, hx s5 (changeTimer d)
            (fun _ s tr => Val (n1 ++ n2 ++ n3 ++ n5 ++ (s5, CWatchOnly false) :: pre ++ tr) -> 0 <= MyIndex s /\ Rearmed s (n1 ++ n2 ++ n3 ++ n5 ++ (s5, CWatchOnly false) :: pre ++ tr))).
  { intros pre d. unfold changeTimer. apply x_get. unfold ask_unit. apply x_ask_last. intros [] c Hc. assert (Hc' : exists h v d', c = CTimerReset h v d') by (destruct c; try discriminate Hc; eauto). destruct Hc' as (h & v & d' & ->).
    intros Hv. split.
    - apply P05.
      assert (E : n1 ++ n2 ++ n3 ++ n5 ++ (s5, CWatchOnly false) :: pre ++ [(s5, CTimerReset h v d')] =
                  (n1 ++ n2 ++ n3 ++ n5) ++ (s5, CWatchOnly false) :: pre ++ [(s5, CTimerReset h v d')]) by (rewrite <- !app_assoc; reflexivity).
      rewrite E in Hv. apply Val_app in Hv. apply Hv.
    - exists (n1 ++ n2 ++ n3 ++ n5 ++ (s5, CWatchOnly false) :: pre), s5, h, v, d', []. split; [|split; [reflexivity|constructor]].
      rewrite <- ?app_assoc. cbn. rewrite <- ?app_assoc. reflexivity. }
  match goal with |- context[if ?b then _ else _] => destruct b end.
  - unfold ask_now. apply x_assoc. apply x_ask. intros t c Hc. apply x_ret_bind.
    eapply x_conseq; [apply (Hfin [(s5, c)])|]. cbn. intros _ s n P Hv. apply P; exact Hv.
  - apply x_ret_bind. eapply x_conseq; [apply (Hfin [])|]. cbn. intros _ s n P Hv. apply P; exact Hv.
Qed.

Lemma jr_initializeConsensus fuel : forall v t, JR (initializeConsensus cfg fuel v t).
Proof.
  induction fuel as [|f IH]; intros v t; cbn [initializeConsensus]; [intros s0; apply x_oof|].
  apply j_ic_body. intros v' t'. apply JR_J. apply IH.
Qed.
Lemma jr_init v t : JR (init cfg v t). Proof. apply jr_initializeConsensus. Qed.
Lemma j_init v t : J (init cfg v t). Proof. apply JR_J, jr_init. Qed.
Hint Resolve j_init : jdb.

Lemma Rearmed_Out s1 s2 t1 t2 : Rearmed s1 t1 -> Out s1 s2 t2 -> Rearmed s2 (t1 ++ t2).
Proof.
  intros R O. destruct (Out_app s1 s1 s2 t1 t2 (or_intror R) O) as [(E & S & _)|R2]; [|exact R2].
  (* the stable alternative of the composite cannot be what Out_app returned for a re-armed prefix; rebuild directly *)
  destruct R as (a & sr & h & v & d & b & -> & Er & Sb). destruct O as [(E2 & S2 & _)|(a2 & sr2 & h2 & v2 & d2 & b2 & -> & Er2 & Sb2)].
  - exists a, sr, h, v, d, (b ++ t2). split; [rewrite <- app_assoc; reflexivity|]. split; [congruence|]. apply Forall_app. rewrite E2. split; assumption.
  - exists ((a ++ (sr, CTimerReset h v d) :: b) ++ a2), sr2, h2, v2, d2, b2. split; [rewrite app_assoc; reflexivity|auto].
Qed.
Lemma JR_then_J {A B} (x : M A) (f : A -> M B) : JR x -> (forall a, J (f a)) -> JR (bind x f).
Proof.
  intros Hx Hf s0. eapply x_call; [apply (Hx s0)|]. intros a s1 n1 P1. cbn beta.
  eapply x_conseq; [apply (Hf a s1)|]. cbn. intros b s2 n2 P2 Hv. apply Val_app in Hv. destruct Hv as [V1 V2].
  destruct (P1 V1) as [M1 R1]. destruct (P2 V2 M1) as [M2 O2]. split; [exact M2|eapply Rearmed_Out; eauto].
Qed.

Lemma jr_Start ts : JR (Start cfg ts).
Proof.
  unfold Start. intros s0. apply x_modify.
  match goal with |- hx ?s1 _ _ => generalize s1 end. clear s0.
  change (JR (init cfg 0 ts ;;; s <- get ;; if IsPrimary s then (wo <- WatchOnly ;; if wo then ret tt else sendPrepareRequest cfg true) else ret tt)).
  apply JR_then_J; [apply jr_init|]. intros _. j_go.
Qed.
Lemma jr_Reset ts : JR (Reset cfg ts). Proof. apply jr_init. Qed.
Lemma j_OnTransaction t : J (OnTransaction cfg t).
Proof. unfold OnTransaction. pose proof (j_addTransaction (init cfg) j_init) as Ha. j_go. all: apply Ha. Qed.
Lemma j_onTimeout h v f : J (onTimeout cfg h v f).
Proof. unfold onTimeout. pose proof (j_sendChangeView (init cfg) j_init) as Hs. j_go. all: apply Hs. Qed.
Lemma j_OnNewTransaction : J (OnNewTransaction cfg).
Proof. unfold OnNewTransaction. pose proof j_onTimeout as Ht. j_go. all: apply Ht. Qed.
Lemma j_run_event e : J (run_event cfg e).
Proof.
  destruct e; cbn [run_event].
  - apply JR_J, jr_Start. - apply JR_J, jr_Reset. - apply j_OnReceive, j_init. - apply j_onTimeout. - apply j_OnTransaction. - apply j_OnNewTransaction.
Qed.

(* step level *)
Theorem epoch_step st ev sc st' tr : step cfg st ev sc = Ok (st', tr) -> Val tr -> 0 <= MyIndex st -> 0 <= MyIndex st' /\ Out st st' tr.
Proof.
  unfold step. pose proof (j_run_event ev st (mkM st sc []) eq_refl) as H.
  destruct (run_event cfg ev (mkM st sc [])) as [[a m]| | | |]; try discriminate.
  destruct H as (new & Ht & Hs & HP). cbn in Ht. destruct (script m); [|discriminate]. intros [= <- <-]. rewrite Ht. exact HP.
Qed.
Theorem rearm_step_start st ts sc st' tr : step cfg st (EStart ts) sc = Ok (st', tr) -> Val tr -> 0 <= MyIndex st' /\ Rearmed st' tr.
Proof.
  unfold step. cbn [run_event]. pose proof (jr_Start ts st (mkM st sc []) eq_refl) as H.
  destruct (Start cfg ts (mkM st sc [])) as [[a m]| | | |]; try discriminate.
  destruct H as (new & Ht & Hs & HP). cbn in Ht. destruct (script m); [|discriminate]. intros [= <- <-]. rewrite Ht. exact HP.
Qed.
Theorem rearm_step_reset st ts sc st' tr : step cfg st (EReset ts) sc = Ok (st', tr) -> Val tr -> 0 <= MyIndex st' /\ Rearmed st' tr.
Proof.
  unfold step. cbn [run_event]. pose proof (jr_Reset ts st (mkM st sc []) eq_refl) as H.
  destruct (Reset cfg ts (mkM st sc [])) as [[a m]| | | |]; try discriminate.
  destruct H as (new & Ht & Hs & HP). cbn in Ht. destruct (script m); [|discriminate]. intros [= <- <-]. rewrite Ht. exact HP.
Qed.

(* ---------------- a timeout for the node's epoch re-arms the timer ---------------- *)
Definition HasReset (tr : tr_t) : Prop := exists s h v d, In (s, CTimerReset h v d) tr.
Lemma HasReset_l a b : HasReset a -> HasReset (a ++ b). Proof. intros (s & h & v & d & H). exists s, h, v, d. apply in_or_app. auto. Qed.
Lemma HasReset_r a b : HasReset b -> HasReset (a ++ b). Proof. intros (s & h & v & d & H). exists s, h, v, d. apply in_or_app. auto. Qed.
Definition wb {A} (x : M A) : Prop := forall s0, hx s0 x (fun _ _ _ => True).
Lemma wb_J {A} (x : M A) : J x -> wb x. Proof. intros H s0. eapply x_conseq; [apply H|]. auto. Qed.
Lemma wb_st {A} (x : M A) : st x -> wb x. Proof. intros H. apply wb_J, J_of_st, H. Qed.
Lemma x_st {A B} s0 (x : M A) (f : A -> M B) Q : st x ->
  (forall a s1 n1, MyIndex s1 = MyIndex s0 -> hx s1 (f a) (fun b s n2 => Q b s (n1 ++ n2))) -> hx s0 (bind x f) Q.
Proof.
  intros Hx Hf. eapply x_call; [apply (Hx (ep s0) (MyIndex s0) false s0 (conj eq_refl (conj eq_refl (fun H => False_ind _ (Bool.diff_false_true H)))))|].
  intros a s1 n1 [(_ & M1 & _) _]. apply Hf. exact M1.
Qed.
Lemma x_wb {A B} s0 (x : M A) (f : A -> M B) Q : wb x -> (forall a s1 n1, hx s1 (f a) (fun b s n2 => Q b s (n1 ++ n2))) -> hx s0 (bind x f) Q.
Proof. intros Hx Hf. eapply x_call; [apply Hx|]. intros a s1 n1 _. apply Hf. Qed.
Lemma x_then_wb {A B} s0 (x : M A) (f : A -> M B) (P : tr_t -> Prop) :
  (forall a b, P a -> P (a ++ b)) -> hx s0 x (fun _ _ tr => P tr) -> (forall a, wb (f a)) -> hx s0 (bind x f) (fun _ _ tr => P tr).
Proof. intros Hm Hx Hf. eapply x_call; [apply Hx|]. intros a s1 n1 P1. eapply x_conseq; [apply (Hf a s1)|]. cbn. intros _ _ n2 _. apply Hm, P1. Qed.

Lemma hr_changeTimer d s0 : hx s0 (changeTimer d) (fun _ _ tr => HasReset tr).
Proof.
  unfold changeTimer. apply x_get. unfold ask_unit. apply x_ask_last. intros [] c Hc.
  assert (Hc' : exists h v d', c = CTimerReset h v d') by (destruct c; try discriminate Hc; eauto). destruct Hc' as (h & v & d' & ->).
  exists s0, h, v, d'. left. reflexivity.
Qed.

Lemma hr_sendPrepareRequest f s0 : hx s0 (sendPrepareRequest cfg f) (fun _ _ tr => HasReset tr).
Proof.
  unfold sendPrepareRequest. apply x_wb; [apply wb_st, e_makePrepareRequest|]. intros m1 s1 n1.
  apply x_wb. { destruct m1; [apply wb_J, J_ret|]. apply wb_J. j_go. } intros m2 s2 n2. destruct m2 as [msg|].
  - unfold unsubscribeFromTransactions at 1. apply x_modify. apply x_get. apply x_tset. intros l _ _. apply x_modify.
    apply x_wb; [apply wb_st, e_broadcast|]. intros [] s3 n3. apply x_wb; [apply wb_st, e_updateExistingPayloads|]. intros [] s4 n4.
    unfold ask_now at 1. apply x_ask. intros t c Hc. apply x_modify. apply x_get. cbv zeta.
    eapply x_conseq.
    { apply (x_then_wb _ _ _ HasReset HasReset_l); [apply hr_changeTimer|]. intros _. apply wb_st, e_checkPrepare. }
    cbn. intros _ _ n H. apply HasReset_r, HasReset_r, HasReset_r, HasReset_r. apply (HasReset_r [_]). exact H.
  - apply x_get. eapply x_conseq; [apply hr_changeTimer|]. cbn. intros _ _ n H. apply HasReset_r, HasReset_r. exact H.
Qed.

Lemma Val_cons s c tr : Val ((s, c) :: tr) -> match c with CWatchOnly b => b = false | CKeyPair i _ => 0 <= i | _ => True end /\ Val tr.
Proof. intros H. apply Forall_cons_iff in H. exact H. Qed.

Lemma hr_sendChangeView ic r s0 : (forall v t, J (ic v t)) -> 0 <= MyIndex s0 ->
  hx s0 (sendChangeView ic r) (fun _ _ tr => Val tr -> HasReset tr).
Proof.
  intros Hic H0. unfold sendChangeView, WatchOnly. apply x_assoc. apply x_get.
  destruct (MyIndex s0 <? 0) eqn:E; [apply Z.ltb_lt in E; lia|]. unfold ask_watchonly. apply x_ask. intros wo c Hc. apply sel_WatchOnly in Hc. subst c.
  destruct wo. { apply x_ret. intros Hv. apply Val_cons in Hv. destruct Hv as [Hv _]. discriminate Hv. }
  apply x_get. cbv zeta.
  eapply x_conseq.
  { apply (x_then_wb _ _ _ HasReset HasReset_l); [apply hr_changeTimer|]. intros _. apply wb_J.
    pose proof (j_checkChangeView ic Hic) as Hc. j_go; try apply Hc. }
  cbn. intros _ _ n H _. apply (HasReset_r [_]). exact H.
Qed.

Theorem timeout_rearms h v force s0 :
  blockProcessed s0 = false -> 0 <= MyIndex s0 -> h = BlockIndex s0 -> v = ViewNumber s0 ->
  hx s0 (onTimeout cfg h v force) (fun _ _ tr => Val tr -> HasReset tr).
Proof.
  intros Hb H0 -> ->. unfold onTimeout, WatchOnly. apply x_assoc. apply x_get.
  destruct (MyIndex s0 <? 0) eqn:E; [apply Z.ltb_lt in E; lia|]. unfold ask_watchonly. apply x_ask. intros wo c Hc. apply sel_WatchOnly in Hc. subst c.
  destruct wo. { apply x_get. cbn [orb]. apply x_ret. intros Hv. apply Val_cons in Hv. destruct Hv as [Hv _]. discriminate Hv. }
  apply x_get. rewrite Hb. cbn [orb]. rewrite !Z.eqb_refl. cbn [negb orb].
  apply x_st. { destruct (IsPrimary s0); intros e i b; [apply e_RSOR|apply kp_ret]. } intros rs s1 n1 M1.
  destruct (IsPrimary s0 && negb rs) eqn:Ea.
  { eapply x_conseq; [apply hr_sendPrepareRequest|]. cbn. intros _ _ n H _. apply (HasReset_r [_]), HasReset_r. exact H. }
  destruct ((IsPrimary s0 && rs) || IsBackup s0) eqn:Eb.
  2:{ exfalso. unfold IsBackup in Eb. destruct (IsPrimary s0), rs; cbn in *; try discriminate. all: destruct (MyIndex s0 >=? 0) eqn:Eg; try discriminate; rewrite Z.geb_leb in Eg; apply Z.leb_gt in Eg; lia. }
  apply x_st; [apply e_CommitSent|]. intros cs s2 n2 M2.
  apply x_st. { destruct cs; intros e i b; [apply kp_ret|apply e_PreCommitSent]. } intros ps s3 n3 M3.
  destruct (cs || ps).
  { apply x_wb; [apply wb_st, e_sendRecoveryMessage|]. intros [] s4 n4. apply x_get.
    eapply x_conseq; [apply hr_changeTimer|]. cbn. intros _ _ n H _. apply (HasReset_r [_]), HasReset_r, HasReset_r, HasReset_r, HasReset_r. exact H. }
  apply x_get.
  assert (Hct : forall d sx (Q : bool -> nstate -> tr_t -> Prop) (k : M bool),
            (forall c h v d', c = CTimerReset h v d' -> hx sx k (fun r s n => Q r s ((sx, c) :: n))) -> hx sx (changeTimer d ;;; k) Q).
  { intros d sx Q k Hk. unfold changeTimer. apply x_assoc. apply x_get. unfold ask_unit. apply x_ask. intros [] c Hc.
    assert (Hc' : exists h v d', c = CTimerReset h v d') by (destruct c; try discriminate Hc; eauto). destruct Hc' as (h & v & d' & ->). eapply Hk. reflexivity. }
  eapply x_call with (Qx := fun r s tr => MyIndex s = MyIndex s3 /\ (r = true -> HasReset tr)).
  { match goal with |- context[if ?b then _ else _] => destruct b end; [|apply x_ret; split; [reflexivity|discriminate]]. destruct force.
    - apply Hct. intros c h' v' d' ->. unfold unsubscribeFromTransactions. apply x_modify. apply x_ret. split; [reflexivity|]. intros _. exists s3, h', v', d'. left. reflexivity.
    - destruct (negb (txSubscriptionOn s3)); [|apply x_ret; split; [reflexivity|discriminate]].
      apply x_ask. intros txx c Hc. destruct (zlen txx =? 0); [|apply x_ret; split; [reflexivity|discriminate]].
      unfold subscribeForTransactions. apply x_assoc. apply x_modify. unfold ask_unit at 1. apply x_ask. intros [] c2 Hc2. apply x_get.
      apply Hct. intros c3 h' v' d' ->. apply x_ret. split; [reflexivity|]. intros _.
      match goal with |- HasReset (_ :: _ :: (?sx, _) :: _) => exists sx, h', v', d' end. right. right. left. reflexivity. }
  intros stop s4 n4 [M4 R4]. cbn beta. destruct stop.
  - apply x_ret. intros _. rewrite app_nil_r. apply (HasReset_r [_]), HasReset_r, HasReset_r, HasReset_r. apply R4. reflexivity.
  - eapply x_conseq; [apply (hr_sendChangeView (init cfg) CVTimeout s4 j_init); lia|]. cbn. intros _ _ n H Hv.
    apply (HasReset_r [_]), HasReset_r, HasReset_r, HasReset_r, HasReset_r. apply H.
    apply Val_cons in Hv. destruct Hv as [_ Hv]. repeat (apply Val_app in Hv; destruct Hv as [_ Hv]). exact Hv.
Qed.

(* ---------------- the timer as a ghost of the history ---------------- *)
Fixpoint lr (acc : option (Z * Z)) (tr : tr_t) : option (Z * Z) :=
  match tr with [] => acc | sc :: r => lr (match snd sc with CTimerReset h v _ => Some (h, v) | _ => acc end) r end.
Definition last_reset (tr : tr_t) : option (Z * Z) := lr None tr.
Definition tm_is (tm : option (Z * Z)) (h v : Z) : bool := match tm with Some (h', v') => (h' =? h) && (v' =? v) | None => false end.
(* the timer after an API call: armed by the last reset of the call; otherwise as before, except that delivering the expiry
   it was armed for consumes it *)
Definition timer_after (tm : option (Z * Z)) (ev : event) (tr : tr_t) : option (Z * Z) :=
  match last_reset tr with
  | Some hv => Some hv
  | None => match ev with ETimeout h v => if tm_is tm h v then None else tm | _ => tm end
  end.

Lemma lr_app acc a b : lr acc (a ++ b) = lr (lr acc a) b.
Proof. revert acc; induction a as [|x a IH]; intros acc; cbn; [reflexivity|apply IH]. Qed.
Definition ResetsAt (e : Z * Z) (tr : tr_t) : Prop := forall s h v d, In (s, CTimerReset h v d) tr -> (h, v) = e.
Lemma lr_at e tr : ResetsAt e tr -> forall acc, lr acc tr = acc \/ lr acc tr = Some e.
Proof.
  induction tr as [|[s c] r IH]; intros H acc; cbn; [auto|].
  assert (Hr : ResetsAt e r) by (intros s' h v d Hin; apply (H s' h v d); right; exact Hin).
  destruct c; try apply (IH Hr). destruct (IH Hr (Some (h, v))) as [E|E]; [|auto]. right. rewrite E. f_equal. apply (H s h v d). left. reflexivity.
Qed.
Lemma lr_some x tr : exists y, lr (Some x) tr = Some y.
Proof. revert x; induction tr as [|[s c] r IH]; intros x; cbn; [eauto|]. destruct c; apply IH. Qed.
Lemma lr_has tr : HasReset tr -> forall acc, lr acc tr <> None.
Proof.
  induction tr as [|[s c] r IH]; intros (s' & h & v & d & Hin) acc; [destruct Hin|]. cbn. destruct Hin as [E|Hin].
  - injection E as _ ->. destruct (lr_some (h, v) r) as [y ->]. discriminate.
  - apply IH. exists s', h, v, d. exact Hin.
Qed.

Lemma stable_resets e tr : trG (G cfg) tr -> StableT e tr -> ResetsAt e tr.
Proof.
  intros HG HS s h v d Hin. unfold trG in HG. rewrite Forall_forall in HG. unfold StableT in HS. rewrite Forall_forall in HS.
  pose proof (HG _ Hin) as [E1 E2]. pose proof (HS _ Hin) as E3. cbn in *. unfold ep in E3. congruence.
Qed.
Lemma rearmed_last s tr : trG (G cfg) tr -> Rearmed s tr -> last_reset tr = Some (ep s).
Proof.
  intros HG (a & sr & h & v & d & b & -> & Er & Sb). unfold last_reset. rewrite lr_app. cbn.
  apply trG_app_inv in HG. destruct HG as [_ HG]. apply Forall_cons_iff in HG. destruct HG as [[E1 E2] HGb]. cbn in E1, E2.
  assert (Ehv : (h, v) = ep s) by (rewrite <- Er; unfold ep; congruence).
  destruct (lr_at (ep s) b (stable_resets _ _ HGb Sb) (Some (h, v))) as [E|E]; rewrite E; [rewrite Ehv|]; reflexivity.
Qed.

Inductive Run : nstate -> option (Z * Z) -> Prop :=
| Run0 ts sc st tr : step cfg fresh_state (EStart ts) sc = Ok (st, tr) -> Val tr -> Run st (timer_after None (EStart ts) tr)
| RunS st tm ev sc st' tr : Run st tm -> step cfg st ev sc = Ok (st', tr) -> Val tr -> Run st' (timer_after tm ev tr).

Lemma step_onTimeout st h v sc st' tr (Q : unit -> nstate -> tr_t -> Prop) :
  hx st (onTimeout cfg h v false) Q -> step cfg st (ETimeout h v) sc = Ok (st', tr) -> Q tt st' tr.
Proof.
  intros H. unfold step. cbn [run_event]. unfold OnTimeout. specialize (H (mkM st sc []) eq_refl).
  destruct (onTimeout cfg h v false (mkM st sc [])) as [[[] m]| | | |]; try discriminate.
  destruct H as (new & Ht & Hs & HP). cbn in Ht. destruct (script m); [|discriminate]. intros [= <- <-]. rewrite Ht. exact HP.
Qed.

Theorem run_inv st tm : Run st tm -> Reach cfg st /\ 0 <= MyIndex st /\ (blockProcessed st = false -> tm = Some (ep st)).
Proof.
  induction 1 as [ts sc st tr Hs Hv|st tm ev sc st' tr HR IH Hs Hv].
  - assert (HRe : Reach cfg st) by (eapply ReachS; [apply Reach0|exact Hs]).
    pose proof (gates_history cfg _ _ _ _ _ (Reach0 cfg) Hs) as HG.
    destruct (rearm_step_start _ _ _ _ _ Hs Hv) as [M R]. split; [exact HRe|split; [exact M|]]. intros _.
    unfold timer_after. rewrite (rearmed_last _ _ HG R). reflexivity.
  - destruct IH as (HRe & M & IHt). assert (HRe' : Reach cfg st') by (eapply ReachS; eauto).
    pose proof (gates_history cfg _ _ _ _ _ HRe Hs) as HG. split; [exact HRe'|].
    assert (Hre : forall (R : Rearmed st' tr), timer_after tm ev tr = Some (ep st')).
    { intros R. unfold timer_after. rewrite (rearmed_last _ _ HG R). reflexivity. }
    assert (Hgen : 0 <= MyIndex st' /\ Out st st' tr) by (apply (epoch_step _ _ _ _ _ Hs Hv M)).
    destruct Hgen as [M' O]. split; [exact M'|]. intros Hb'.
    destruct O as [(E & S & D)|R]; [|apply (Hre R)].
    assert (Hb : blockProcessed st = false) by (destruct (blockProcessed st) eqn:Eb; [rewrite (D eq_refl) in Hb'; discriminate|reflexivity]).
    specialize (IHt Hb). unfold timer_after, last_reset.
    destruct (lr_at (ep st) tr (stable_resets _ _ HG S) None) as [El|El]; rewrite El; [|rewrite E; reflexivity].
    destruct ev; try (rewrite IHt, E; reflexivity).
    destruct (tm_is tm h v) eqn:Et; [|rewrite IHt, E; reflexivity].
    exfalso. rewrite IHt in Et. unfold tm_is, ep in Et. apply andb_true_iff in Et. destruct Et as [E1 E2]. apply Z.eqb_eq in E1, E2.
    pose proof (step_onTimeout _ _ _ _ _ _ _ (timeout_rearms h v false st Hb M (eq_sym E1) (eq_sym E2)) Hs Hv) as HH.
    apply (lr_has _ HH None). exact El.
Qed.
End Reach.
