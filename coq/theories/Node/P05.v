(* C05, re-initialisation and early payloads (node model), for EVERY state:
   - the (re)initialisation at view 0 (Start / Reset) leaves, before it replays the payloads kept for the new height, a
     state whose height, previous hash, validator list, own index and key and time-per-block are exactly what the callbacks
     answered, view 0, every payload table empty and sized to the new validator list, no proposal, no transactions, no
     header or block, nothing decided;
   - a payload for a future height is kept (in the future-message cache) and changes nothing else. *)
From DbftV Require Export Hoare Payload Tables.

Section P05.
Variable cfg : config.

Definition all_none {A} (n : Z) (t : list (option A)) : Prop := t = replicate n None.

Record fresh_epoch (s : nstate) (ph : hash) (h : Z) (vs : list key) (tpb : Z) (i : Z) (k : key) : Prop := {
  fe_bi : BlockIndex s = u32 (h + 1); fe_view : ViewNumber s = 0; fe_prev : PrevHash s = ph; fe_vals : Validators s = vs;
  fe_tpb : timePerBlock s = tpb; fe_my : MyIndex s = i; fe_key : MyKey s = k;
  fe_prep : all_none (zlen vs) (PreparationPayloads s); fe_pc : all_none (zlen vs) (PreCommitPayloads s);
  fe_cm : all_none (zlen vs) (CommitPayloads s); fe_cv : all_none (zlen vs) (ChangeViewPayloads s);
  fe_lcv : all_none (zlen vs) (LastChangeViewPayloads s);
  fe_txh : TransactionHashes s = []; fe_tx : Transactions s = []; fe_miss : MissingTransactions s = [];
  fe_hdr : header s = None; fe_phdr : preheader s = None; fe_bs : block_set s = false; fe_pbs : preblock_set s = false;
  fe_dec : blockProcessed s = false; fe_pdec : preBlockProcessed s = false; fe_sub : txSubscriptionOn s = false;
  fe_sent : prepareSentTime s = None }.

Lemma sel_PrevHash c x : match c with CPrevHash y => Some y | _ => None end = Some x -> c = CPrevHash x.
Proof. destruct c; intros [=]; subst; auto. Qed.
Lemma sel_Height c x : match c with CHeight y => Some y | _ => None end = Some x -> c = CHeight x.
Proof. destruct c; intros [=]; subst; auto. Qed.
Lemma sel_TPB c x : match c with CTimePerBlock y => Some y | _ => None end = Some x -> c = CTimePerBlock x.
Proof. destruct c; intros [=]; subst; auto. Qed.
Lemma sel_Validators c x : match c with CValidators y => if zlen y =? 0 then None else Some y | _ => None end = Some x -> c = CValidators x.
Proof. destruct c; try discriminate. destruct (zlen vs =? 0); intros [=]; subst; auto. Qed.

(* the first four callbacks of a view-0 reset are PrevHash, Height, Validators, TimePerBlock, and the state it leaves is
   the fresh epoch built from their answers and from the key-pair answer *)
Theorem reset_at_view_0_takes_everything_afresh ts s0 :
  hx s0 (reset cfg 0 ts) (fun _ s tr =>
    exists ph h vs tpb i k rest,
      map snd tr = CPrevHash ph :: CHeight h :: CValidators vs :: CTimePerBlock tpb :: rest /\
      In (CKeyPair i k) rest /\ fresh_epoch s ph h vs tpb i k /\ lastBlockTimestamp s = ts).
Proof.
  unfold reset, unsubscribeFromTransactions, GetPrimaryIndex. cbn [Z.eqb]. xs.
  all: repeat match goal with
       | H : match ?c with CPrevHash _ => _ | _ => _ end = Some _ |- _ => apply sel_PrevHash in H; subst c
       | H : match ?c with CHeight _ => _ | _ => _ end = Some _ |- _ => apply sel_Height in H; subst c
       | H : match ?c with CTimePerBlock _ => _ | _ => _ end = Some _ |- _ => apply sel_TPB in H; subst c
       | H : match ?c with CValidators _ => _ | _ => _ end = Some _ |- _ => apply sel_Validators in H; subst c
       end.
  all: match goal with H : match ?c with CKeyPair _ _ => _ | _ => _ end = Some ?ik |- _ =>
         assert (Hk : c = CKeyPair (fst ik) (snd ik)) by (destruct c; try discriminate H; destruct (_ =? -1); [injection H as <-; reflexivity|]; destruct (_ && _); [injection H as <-; reflexivity|discriminate H]); subst c end.
  all: do 7 eexists; split; [reflexivity|split; [|split; [constructor; unfold all_none, empty_tbl, N; cbn; try reflexivity|cbn; reflexivity]]].
  all: cbn; auto 10.
Qed.

(* a payload for a future height is kept for that height and changes nothing else *)
Definition inbox_with (ib : inbox) (m : payload) : inbox :=
  match p_type m with
  | PrepareRequestT | PrepareResponseT => ib <| ib_prepare := assoc_put (ib_prepare ib) (p_idx m) m |>
  | ChangeViewT => ib <| ib_chviews := assoc_put (ib_chviews ib) (p_idx m) m |>
  | PreCommitT => ib <| ib_precommit := assoc_put (ib_precommit ib) (p_idx m) m |>
  | CommitT => ib <| ib_commit := assoc_put (ib_commit ib) (p_idx m) m |>
  | _ => ib end.
Lemma assoc_get_put_same {A} (l : list (Z * A)) k v : assoc_get (assoc_put l k v) k = Some v.
Proof. induction l as [|[k' v'] r IH]; cbn; [rewrite Z.eqb_refl; reflexivity|]. destruct (k' =? k) eqn:E; cbn; [rewrite Z.eqb_refl; reflexivity|rewrite E; exact IH]. Qed.

Theorem future_height_payload_is_kept (ic : Z -> Z -> M unit) msg s0 :
  p_idx msg < N s0 -> BlockIndex s0 < p_height msg -> cache_ready s0 = true ->
  hx s0 (OnReceive cfg ic msg) (fun _ s tr =>
    tr = [] /\
    let old := match assoc_get (cache s0) (p_height msg) with Some x => x | None => empty_inbox end in
    s = s0 <| cache := assoc_put (cache s0) (p_height msg) (inbox_with old msg) |> /\
    assoc_get (cache s) (p_height msg) = Some (inbox_with old msg)).
Proof.
  intros Hi Hh Hc. unfold OnReceive, receive_common. apply x_get.
  destruct (p_idx msg >=? N s0) eqn:E1; [rewrite Z.geb_leb in E1; apply Z.leb_le in E1; lia|].
  destruct (p_height msg <? BlockIndex s0) eqn:E2; [apply Z.ltb_lt in E2; lia|].
  replace (p_height msg >? BlockIndex s0) with true by (symmetry; apply Z.gtb_lt; lia). cbn [orb].
  unfold cache_addMessage. apply x_get. rewrite Hc. cbn [negb]. cbv zeta. apply x_modify_last.
  split; [reflexivity|]. split; [unfold inbox_with; destruct (p_type msg); reflexivity|].
  cbn [cache set]. unfold inbox_with. destruct (p_type msg); apply assoc_get_put_same.
Qed.

(* the same for a payload of the node's height but a later view (other than ChangeView / recovery messages, which are
   handled at once) *)
Theorem future_view_payload_is_kept (ic : Z -> Z -> M unit) msg s0 :
  p_idx msg < N s0 -> p_height msg = BlockIndex s0 -> ViewNumber s0 < p_view msg ->
  p_type msg <> ChangeViewT -> p_type msg <> RecoveryMessageT -> cache_ready s0 = true ->
  hx s0 (OnReceive cfg ic msg) (fun _ s tr =>
    tr = [] /\
    let old := match assoc_get (cache s0) (p_height msg) with Some x => x | None => empty_inbox end in
    s = s0 <| cache := assoc_put (cache s0) (p_height msg) (inbox_with old msg) |> /\
    assoc_get (cache s) (p_height msg) = Some (inbox_with old msg)).
Proof.
  intros Hi Hh Hv T1 T2 Hc. unfold OnReceive, receive_common. apply x_get.
  destruct (p_idx msg >=? N s0) eqn:E1; [rewrite Z.geb_leb in E1; apply Z.leb_le in E1; lia|].
  destruct (p_height msg <? BlockIndex s0) eqn:E2; [apply Z.ltb_lt in E2; lia|].
  replace (p_view msg >? ViewNumber s0) with true by (symmetry; apply Z.gtb_lt; lia).
  replace (mtype_eqb (p_type msg) ChangeViewT) with false by (destruct (p_type msg); try reflexivity; contradiction).
  replace (mtype_eqb (p_type msg) RecoveryMessageT) with false by (destruct (p_type msg); try reflexivity; contradiction).
  cbn [negb andb]. rewrite orb_true_r.
  unfold cache_addMessage. apply x_get. rewrite Hc. cbn [negb]. cbv zeta. apply x_modify_last.
  split; [reflexivity|]. split; [unfold inbox_with; destruct (p_type msg); reflexivity|].
  cbn [cache set]. unfold inbox_with. destruct (p_type msg); apply assoc_get_put_same.
Qed.
End P05.
