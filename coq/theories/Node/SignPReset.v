(* C03, the lock after the PreCommit: (re)initialisation lemmas for SignP.v (SignLReset.v with the roles of the phases exchanged) *)
From DbftV Require Export SignP.

(* ---------------- (re)initialisation ---------------- *)

Section ResetP.
Variable cfg : config.
Hint Resolve u_WatchOnly u_RSOR u_own_slot u_ResponseSent u_PreCommitSent u_CommitSent u_ViewChanging u_NotAccepting u_subscribe u_unsubscribe
  u_StopTxFlow u_changeTimer u_getTimestamp u_Fill u_MakeHeader u_CreateBlock u_broadcast u_makePrepareRequest u_rtt
  u_makeRecoveryMessage u_sendRecoveryMessage u_processMissingTx u_sendRecoveryRequest u_makeChangeView u_makePrepareResponse
  u_sendPrepareResponse u_makeCommit u_sendCommit u_verifyCommits u_extendTimer u_GetPrimaryIndex u_onRecoveryRequest
  u_cache_addMessage u_ask_recv u_MakePreHeader u_CreatePreBlock u_checkCommit u_verifyPreCommits u_updateExistingPayloads u_onPreCommit : kpdb.
Hint Resolve pq_sendPreCommit pq_checkPreCommit pq_checkPrepare pq_sendPrepareRequest pq_onPrepareResponse pq_onPreCommit : krdb.

(* the initialisation at view 0 (Start, Reset) opens a new epoch: from any state, nothing is signed and the Commit table is empty *)
Lemma reset_0p ts s0 : hx s0 (reset cfg 0 ts) (fun _ s tr => nset tr = 0%nat /\ forall mi oc, KS mi tr -> I7 (Validators s) mi 0 oc s).
Proof.
  unfold reset. cbn [Z.eqb]. unfold unsubscribeFromTransactions, GetPrimaryIndex. xs.
  all: repeat match goal with
       | Hc : _ = Some ?a |- _ =>
           let t := type of a in
           lazymatch t with
           | (Z * key)%type => fail
           | _ => lazymatch type of Hc with
                  | context[match ?c with _ => _ end] =>
                      assert (is_setd c = false) by (destruct c; try reflexivity; discriminate Hc); clear Hc
                  end
           end
       end.
  all: match goal with Hc : _ = Some ?ik |- _ => apply sel_KeyPair3 in Hc; destruct Hc as [-> Hkey] end.
  all: split; [unfold nset; cbn [filter snd]; repeat match goal with H : is_setd _ = false |- _ => rewrite H; clear H end; reflexivity|].
  all: intros mi oc Hk;
       match type of Hk with context[CKeyPair (fst ?ik) (snd ?ik)] =>
         assert (Emi : fst ik = mi) by (eapply (KS_in _ _ _ _ _ Hk); repeat (first [left; reflexivity | right])) end.
  all: unfold I7; cbn [Validators MyIndex ViewNumber MyKey set]; cbn [Validators set] in Hkey.
  all: (split; [reflexivity|split; [exact Emi|split; [lia|split; [intros Hmi; rewrite <- Emi; apply Hkey; rewrite Emi; exact Hmi|]]]]).
  all: intros _; constructor; [reflexivity|intros Hx; exfalso; apply Hx; reflexivity|auto].
Qed.

(* a view change happens only while nothing is signed: the Commit table is kept, the node's index is the one the application
   reports again *)
Lemma reset_r view ts vs mi g0 s0 : I7g vs mi g0 s0 -> (KS mi g0 -> 0 < view /\ (zlen vs <= 65536 -> nset g0 = 0%nat)) ->
  hx s0 (reset cfg view ts) (fun _ s tr => I7g vs mi (g0 ++ tr) s /\ nset tr = 0%nat).
Proof.
  intros H0 Hv. destruct (view =? 0) eqn:Ev0.
  { (* not reachable under the hypothesis *)
    apply Z.eqb_eq in Ev0. subst view. eapply x_conseq; [apply (reset_0p ts s0)|]. cbn. intros _ s n [Hn _]. split; [|exact Hn]. intros Hk. exfalso.
    apply KS_app in Hk. destruct Hk as [Hk _]. pose proof (Hv Hk). lia. }
  unfold reset. apply x_modify. unfold unsubscribeFromTransactions at 1. apply x_modify. rewrite Ev0.
  apply Z.eqb_neq in Ev0.
  apply x_assoc. apply x_get. apply x_assoc. eapply x_call; [apply (keep_changeviews_spec (fun _ => True))|]. intros lk s1 n1 (-> & -> & _). cbn beta.
  unfold GetPrimaryIndex. xs.
  all: match goal with Hc : _ = Some ?ik |- _ => apply sel_KeyPair3 in Hc; destruct Hc as [-> Hkey] end.
  all: split; [|reflexivity].
  all: intros Hk; pose proof Hk as Hk'; apply KS_app in Hk'; destruct Hk' as [Hk0 Hk1]; destruct (Hv Hk0) as [Hlt Hz];
       pose proof (H0 Hk0) as (A1 & A2 & A3 & A4 & A5);
       match type of Hk1 with context[CKeyPair (fst ?ik) (snd ?ik)] =>
         assert (Emi : fst ik = mi) by (eapply (KS_in _ _ _ _ _ Hk1); left; reflexivity) end;
       rewrite nset_app; cbn [nset filter is_setd snd length app]; rewrite Nat.add_0_r.
  all: match goal with |- I7 _ _ _ ?o _ => generalize o; intros oc end.
  all: unfold I7; cbn [Validators MyIndex ViewNumber MyKey set]; cbn [Validators set] in Hkey.
  all: (split; [exact A1|split; [exact Emi|split; [lia|split; [intros Hmi; rewrite <- A1, <- Emi; apply Hkey; rewrite Emi; exact Hmi|]]]]).
  all: intros Hs; rewrite (Hz Hs); constructor; [reflexivity|intros Hx; exfalso; apply Hx; reflexivity|auto].
Qed.
End ResetP.
