(* C03: one block signature per epoch and the commit lock - initialisation, the API, histories *)
From DbftV Require Export SignLRec.
From DbftV Require Import Replay.

Section ApiL.
Variable cfg : config.
Hint Resolve h_WatchOnly h_RSOR h_own_slot h_ResponseSent h_PreCommitSent h_CommitSent h_ViewChanging h_NotAccepting h_subscribe h_unsubscribe
  h_StopTxFlow h_changeTimer h_getTimestamp h_MakePreHeader h_CreatePreBlock h_broadcast h_rtt h_makeRecoveryMessage h_sendRecoveryMessage
  h_processMissingTx h_sendRecoveryRequest h_makeChangeView h_makePreCommit h_sendPreCommit h_verifyPreCommits h_extendTimer h_GetPrimaryIndex
  h_onRecoveryRequest h_cache_addMessage h_ask_recv h_MakeHeader h_CreateBlock h_makeCommit h_sendCommit h_verifyCommits h_checkCommit
  h_checkPreCommit h_checkPrepare h_onCommit h_onPreCommit h_updateExistingPayloads : kpdb.
Hint Extern 4 (kp Inv2 G2 _) => (apply K2_of_k2; intros; solve [eauto 3 with kpdb]) : kpdb.
Hint Resolve t_WatchOnly t_RSOR t_own_slot t_ResponseSent t_PreCommitSent t_CommitSent t_ViewChanging t_NotAccepting t_subscribe t_unsubscribe
  t_StopTxFlow t_changeTimer t_getTimestamp t_Fill t_MakePreHeader t_CreatePreBlock t_broadcast t_makePrepareRequest t_rtt
  t_makeRecoveryMessage t_sendRecoveryMessage t_processMissingTx t_sendRecoveryRequest t_makeChangeView t_makePrepareResponse
  t_sendPrepareResponse t_makePreCommit t_sendPreCommit t_verifyPreCommits t_extendTimer t_GetPrimaryIndex t_onRecoveryRequest
  t_cache_addMessage t_ask_recv t_MakeHeader t_CreateBlock t_checkCommit t_verifyCommits t_updateExistingPayloads t_onCommit : kpdb.
Hint Resolve q_sendCommit q_checkPreCommit q_checkPrepare q_sendPrepareRequest q_onPrepareResponse q_onPreCommit : kqdb.
Hint Resolve K_onPrepareResponse : kpdb.
Ltac fixapp := cbn; let s := fresh "s" in let n := fresh "n" in let P := fresh "P" in intros _ s n P; rewrite <- ?app_assoc in *; cbn [app] in *; exact P.


Definition ic_rest (ic : Z -> Z -> M unit) (view : Z) : M unit :=
  s <- get ;;
  (if IsPrimary s then ret tt else _ <- WatchOnly ;; ret tt) ;;;
  StopTxFlow ;;;
  modify (fun s => s <| cache := filter (fun kv => negb (fst kv <? BlockIndex s)) (cache s) |>) ;;;
  s <- get ;;
  (match assoc_get (cache s) (BlockIndex s) with
   | None => ret tt
   | Some ib =>
       modify (fun s => s <| cache := assoc_del (cache s) (BlockIndex s) |>) ;;;
       replay_map cfg ic (length (ib_prepare ib)) (ib_prepare ib) ;;;
       replay_map cfg ic (length (ib_chviews ib)) (ib_chviews ib) ;;;
       replay_map cfg ic (length (ib_precommit ib)) (ib_precommit ib) ;;;
       replay_map cfg ic (length (ib_commit ib)) (ib_commit ib)
   end) ;;;
  wo <- WatchOnly ;;
  if wo then ret tt else
  s <- get ;;
  let timeout := if IsPrimary s && negb (recovering s)
                 then (if view =? 0 then timePerBlock s else 0)
                 else shl64 (timePerBlock s) (u8 (ViewNumber s + 1)) in
  timeout <- (if (u32 (lastBlockIndex s + 1) =? BlockIndex s) && isSome (lastBlockTime s) then
                t <- ask_now ;;
                let diff := match lastBlockTime s with Some t0 => sat64 (t - t0) | None => two63 - 1 end in
                ret (Z.max 0 (wrap64 (wrap64 (timeout - diff) - goquot (rtt_avg s) 2)))
              else ret timeout) ;;
  changeTimer timeout.
Lemma ic_body_unfold ic view ts : initializeConsensus_body cfg ic view ts = (reset cfg view ts ;;; ic_rest ic view).
Proof. reflexivity. Qed.

Lemma i_ic_rest ic view : (forall v t, K2 (ic v t)) -> ICq ic -> kqi (ic_rest ic view).
Proof.
  intros HicK Hic. pose proof (i_replay_map cfg ic HicK Hic) as Hr. pose proof (K_replay_map cfg ic HicK) as HKr.
  unfold ic_rest. kqi_go.
Qed.

Lemma q_ic_body ic : (forall v t, K2 (ic v t)) -> ICq ic -> ICq (initializeConsensus_body cfg ic).
Proof.
  intros HicK Hic view ts vs mi g0 s0 H0 Hv. rewrite ic_body_unfold.
  eapply x_call; [apply (x_conj _ _ _ _ (reset_spec cfg view ts s0) (reset_q cfg view ts vs mi g0 s0 H0 Hv))|].
  intros [] s1 n1 [(J1 & _) (I1 & _)]. cbn beta.
  eapply x_conseq; [apply (i_ic_rest ic view HicK Hic vs mi (g0 ++ n1) s1 J1 I1)|]. cbn. intros _ s n P. rewrite app_assoc. exact P.
Qed.
Lemma K2_initializeConsensus fuel v t : K2 (initializeConsensus cfg fuel v t).
Proof. intros s0 _. apply K_initializeConsensus. Qed.
Lemma q_initializeConsensus fuel : ICq (initializeConsensus cfg fuel).
Proof.
  induction fuel as [|f IH]; [intros v t vs mi g0 s0 _ _; apply x_oof|]. cbn [initializeConsensus].
  apply q_ic_body; [intros v t; apply K2_initializeConsensus|exact IH].
Qed.
Lemma q_init : ICq (init cfg). Proof. apply q_initializeConsensus. Qed.
Let HK := fun v t => K_init cfg v t.
Let HQ := q_init.

(* the first initialisation of an epoch: from any state *)
Lemma x_forall {A T} (i0 : T) s0 (x : M A) (Q : T -> A -> nstate -> tr_t -> Prop) :
  (forall i, hx s0 x (Q i)) -> hx s0 x (fun a s n => forall i, Q i a s n).
Proof.
  intros H m Hm. pose proof (H i0 m Hm) as H0. destruct (x m) as [[a m']| | | |] eqn:E; auto.
  destruct H0 as (n & T1 & S1 & _). exists n. split; [exact T1|split; [exact S1|]]. intros i.
  specialize (H i m Hm). rewrite E in H. destruct H as (n' & T' & S' & Q').
  assert (n' = n) by (rewrite T1 in T'; apply app_inv_head in T'; auto). subst n'. exact Q'.
Qed.
Definition Fresh3 (s : nstate) (tr : tr_t) : Prop := forall mi, KS mi tr -> I3 (Validators s) mi (nsign tr) (signed_commit tr) s.
Lemma Fresh3_I3g s tr mi : Fresh3 s tr -> I3g (Validators s) mi tr s.
Proof. intros H Hk. apply (H mi Hk). Qed.
Lemma I3g_Fresh3 s tr : (forall mi, exists vs, I3g vs mi tr s) -> Fresh3 s tr.
Proof. intros H mi Hk. destruct (H mi) as [vs Hv]. pose proof (Hv Hk) as HI. assert (E : Validators s = vs) by apply HI. rewrite E. exact HI. Qed.

Lemma init_0 ts s0 : hx s0 (init cfg 0 ts) (fun _ s tr => Inv2 s /\ Fresh3 s tr).
Proof.
  rewrite init_unfold. pose proof (q_initializeConsensus 257) as Hic. pose proof (K2_initializeConsensus 257) as HicK.
  revert Hic HicK. generalize (initializeConsensus cfg 257) as ic. intros ic Hic HicK. rewrite ic_body_unfold.
  eapply x_call; [apply (x_conj _ _ _ _ (reset_spec cfg 0 ts s0) (reset_0 cfg ts s0))|]. intros [] s1 n1 [(J1 & _) (N1 & P1)]. cbn beta.
  assert (HK2 : K2 (ic_rest ic 0)).
  { pose proof (K_replay_map cfg ic HicK) as HKr. unfold ic_rest. kp_go leafK. all: try apply HKr. }
  assert (HF : hx s1 (ic_rest ic 0) (fun _ s tr => forall mi, I3g (Validators s1) mi (n1 ++ tr) s)).
  { apply (x_forall 0 s1 _ (fun mi _ s tr => I3g (Validators s1) mi (n1 ++ tr) s)). intros mi.
    apply (i_ic_rest ic 0 HicK Hic (Validators s1) mi n1 s1 J1). intros Hk. rewrite N1. apply (P1 mi _ Hk). }
  eapply x_conseq; [apply (x_conj _ _ _ _ (HK2 s1 J1) HF)|].
  cbn. intros _ s n [[J _] P]. split; [exact J|]. apply I3g_Fresh3. intros mi. exists (Validators s1). apply P.
Qed.

Lemma fresh_Start ts s0 : Inv2 s0 -> hx s0 (Start cfg ts) (fun _ s tr => Inv2 s /\ Fresh3 s tr).
Proof.
  intros J0. assert (HF : hx s0 (Start cfg ts) (fun _ s tr => Fresh3 s tr)); [|eapply x_conseq; [apply (x_conj _ _ _ _ (K_Start cfg ts s0 J0) HF)|cbn; intros _ s n [[J _] F]; exact (conj J F)]].
  unfold Start. apply x_modify.
  eapply x_call; [apply init_0|]. intros [] s1 n1 [J1 F1]. cbn beta.
  assert (Hrest : kq (s <- get ;; if IsPrimary s then (wo <- WatchOnly ;; if wo then ret tt else sendPrepareRequest cfg true) else ret tt)) by kq_go.
  eapply x_conseq; [apply (x_forall 0 s1 _ (fun mi _ s tr => I3g (Validators s1) mi (n1 ++ tr) s))|].
  - intros mi. apply (Hrest (Validators s1) mi n1 s1). apply Fresh3_I3g. exact F1.
  - cbn. intros _ s n P. apply I3g_Fresh3. intros mi. exists (Validators s1). apply P.
Qed.
Lemma fresh_Reset ts s0 : hx s0 (Reset cfg ts) (fun _ s tr => Inv2 s /\ Fresh3 s tr).
Proof. apply init_0. Qed.

(* the guards of the remaining entry points: after CommitSent has answered "no", nothing is signed *)
Lemma kq_os_commit {B} (f : bool -> M B) : kq (f true) -> kz (f false) -> kq (bind CommitSent f).
Proof.
  intros Ht Hf vs mi g0 s0 H0. eapply x_call; [apply (os_spec CommitPayloads s0)|]. intros cs s1 n1 (-> & N1 & Hcs). cbn beta.
  assert (I1 : I3g vs mi (g0 ++ n1) s0) by (apply I3g_pad; assumption).
  destruct cs.
  - eapply x_conseq; [apply (Ht vs mi (g0 ++ n1) s0 I1)|]. cbn. intros b s n P. rewrite app_assoc. exact P.
  - eapply x_conseq; [apply (Hf vs mi (g0 ++ n1) s0 I1)|].
    + intros Hk Hs. apply KS_app in Hk. destruct Hk as [Hk0 Hk1]. rewrite nsign_app, N1, Nat.add_0_r.
      apply (unsigned_when_no_own_commit vs mi g0 s0 H0 Hk0); [|exact Hs].
      specialize (Hcs mi Hk1). destruct (slot (CommitPayloads s0) (MyIndex s0)); [discriminate Hcs|reflexivity].
    + cbn. intros b s n P. rewrite app_assoc. exact P.
Qed.
Ltac lvl0 := apply kq_of_k3; solvek3.
Lemma q_OnTransaction t : kq (OnTransaction cfg t).
Proof.
  assert (Ha : forall t, kz (addTransaction cfg (init cfg) t)) by (first [exact (z_addTransaction cfg (init cfg) HK HQ) | exact (z_addTransaction cfg (init cfg) HQ)]).
  unfold OnTransaction. apply kq_get_bind; intro s. destruct (negb (IsBackup s)); [apply kq_ret|].
  apply kq_bind; [lvl0|intro na]. destruct na; [apply kq_ret|].
  apply kq_bind; [lvl0|intro rs]. destruct (negb rs); [apply kq_ret|].
  apply kq_bind; [lvl0|intro x1]. destruct x1; [apply kq_ret|].
  apply kq_bind; [lvl0|intro x2]. destruct x2; [apply kq_ret|].
  apply kq_os_commit; [cbv beta iota; apply kq_ret|cbv beta iota; kz_go].
Qed.
Lemma q_onTimeout h v f : kq (onTimeout cfg h v f).
Proof.
  assert (Hs : forall r, kz (sendChangeView (init cfg) r)) by (first [exact (z_sendChangeView (init cfg) HK HQ) | exact (z_sendChangeView (init cfg) HQ) | exact (z_sendChangeView cfg (init cfg) HK HQ) | exact (z_sendChangeView cfg (init cfg) HQ)]).
  unfold onTimeout. apply kq_bind; [lvl0|intro wo]. apply kq_get_bind; intro s.
  destruct (wo || blockProcessed s); [apply kq_ret|]. destruct (_ || _); [apply kq_ret|].
  apply kq_bind; [destruct (IsPrimary s); [lvl0|apply kq_ret]|intro rs].
  destruct (IsPrimary s && negb rs); [apply q_sendPrepareRequest|].
  destruct (_ || _); [|apply kq_ret].
  apply kq_os_commit; [cbv beta iota; cbn [orb]; kq_go|cbv beta iota; cbn [orb]; kz_go].
Qed.
Lemma q_OnNewTransaction : kq (OnNewTransaction cfg).
Proof. unfold OnNewTransaction. pose proof q_onTimeout as Ht. kq_go. Qed.

Definition continues (e : event) : Prop := match e with EStart _ | EReset _ => False | _ => True end.
Lemma i_run_event e : continues e -> kqi (run_event cfg e).
Proof.
  destruct e; cbn [run_event continues]; intros Hc; try contradiction.
  - apply (i_OnReceive cfg (init cfg) HK HQ). - apply kqi_of_kq, q_onTimeout. - apply kqi_of_kq, q_OnTransaction. - apply kqi_of_kq, q_OnNewTransaction.
Qed.

(* histories of one epoch: a reachable state, Start or Reset, then any other calls; g is the trace since the initialisation *)
Inductive Epoch : nstate -> tr_t -> Prop :=
| EpochStart st ts sc st' tr : Reach cfg st -> step cfg st (EStart ts) sc = Ok (st', tr) -> Epoch st' tr
| EpochReset st ts sc st' tr : Reach cfg st -> step cfg st (EReset ts) sc = Ok (st', tr) -> Epoch st' tr
| EpochStep st g ev sc st' tr : Epoch st g -> continues ev -> step cfg st ev sc = Ok (st', tr) -> Epoch st' (g ++ tr).
Lemma epoch_reach st g : Epoch st g -> Reach cfg st.
Proof. induction 1; eapply ReachS; eauto. Qed.

Lemma step_hx st ev sc st' tr (Q : nstate -> tr_t -> Prop) :
  hx st (run_event cfg ev) (fun _ s n => Q s n) -> step cfg st ev sc = Ok (st', tr) -> Q st' tr.
Proof.
  intros H Hs. unfold step in Hs. specialize (H (mkM st sc []) eq_refl).
  destruct (run_event cfg ev (mkM st sc [])) as [[a m']| | | |]; try discriminate Hs.
  destruct H as (new & Ht & _ & HQ'). destruct (script m'); [|discriminate Hs]. injection Hs as <- <-. cbn in Ht. rewrite Ht. exact HQ'.
Qed.

Theorem epoch_inv st g : Epoch st g -> Fresh3 st g.
Proof.
  induction 1 as [st ts sc st' tr HR Hs|st ts sc st' tr HR Hs|st g ev sc st' tr HE IH Hc Hs].
  - apply (step_hx st (EStart ts) sc st' tr (fun s n => Inv2 s /\ Fresh3 s n) (fresh_Start ts st (proposal_reach cfg st HR)) Hs).
  - apply (step_hx st (EReset ts) sc st' tr (fun s n => Inv2 s /\ Fresh3 s n) (fresh_Reset ts st) Hs).
  - apply I3g_Fresh3. intros mi. exists (Validators st).
    apply (step_hx st ev sc st' tr (fun s n => I3g (Validators st) mi (g ++ n) s)); [|exact Hs].
    apply (i_run_event ev Hc (Validators st) mi g st (proposal_reach cfg st (epoch_reach st g HE))). apply Fresh3_I3g. exact IH.
Qed.

(* an honest node signs at most one block per epoch *)
Theorem one_signature_per_epoch st g mi :
  Epoch st g -> KS mi g -> zlen (Validators st) <= 65536 -> (nsign g <= 1)%nat.
Proof. intros HE Hk Hs. destruct (epoch_inv st g HE mi Hk) as (_ & _ & _ & _ & A5). apply (o4 _ _ _ _ (A5 Hs)). Qed.

(* once it has signed, its own Commit slot holds exactly the commit it built then; the node is still in the view of that commit,
   and its header is the block that was signed *)
Theorem signed_commit_is_kept st g mi :
  Epoch st g -> KS mi g -> zlen (Validators st) <= 65536 -> nsign g <> 0%nat ->
  exists c b, signed_commit g = Some c /\ slot (CommitPayloads st) mi = Some c /\ MyIndex st = mi /\ p_idx c = mi /\
              p_view c = ViewNumber st /\ sg_key (commit_sig c) = MyKey st /\ header st = Some b /\ sg_hash (commit_sig c) = block_hash b.
Proof.
  intros HE Hk Hs Hn. destruct (epoch_inv st g HE mi Hk) as (_ & A2 & _ & _ & A5).
  destruct (o2 _ _ _ _ (A5 Hs) Hn) as (c & b & C0 & C1 & C2 & C3 & C4 & C5 & C6). exists c, b. auto 10.
Qed.

Lemma signed_commit_prefix g tr : nsign g <> 0%nat -> signed_commit (g ++ tr) = signed_commit g.
Proof. induction g as [|[s c] r IH]; [intros H; exfalso; apply H; reflexivity|]. destruct c; cbn; try exact IH. reflexivity. Qed.
Lemma epoch_validators st g ev sc st' tr mi : Epoch st g -> continues ev -> step cfg st ev sc = Ok (st', tr) -> KS mi (g ++ tr) ->
  Validators st' = Validators st.
Proof.
  intros HE Hc Hs Hk.
  pose proof (step_hx st ev sc st' tr (fun s n => I3g (Validators st) mi (g ++ n) s)
                (i_run_event ev Hc (Validators st) mi g st (proposal_reach cfg st (epoch_reach st g HE)) (Fresh3_I3g _ _ _ (epoch_inv st g HE))) Hs Hk) as HI.
  apply HI.
Qed.

(* the commit lock: after the signature no call of the epoch changes the view, asks for another signature or touches the own slot *)
Theorem commit_lock st g ev sc st' tr mi :
  Epoch st g -> continues ev -> step cfg st ev sc = Ok (st', tr) -> KS mi (g ++ tr) -> zlen (Validators st) <= 65536 -> nsign g <> 0%nat ->
  ViewNumber st' = ViewNumber st /\ nsign tr = 0%nat /\ slot (CommitPayloads st') mi = slot (CommitPayloads st) mi /\ MyIndex st' = MyIndex st.
Proof.
  intros HE Hc Hs Hk Hsm Hn. pose proof Hk as Hk'. apply KS_app in Hk'. destruct Hk' as [Hk0 _].
  assert (HE' : Epoch st' (g ++ tr)) by (eapply EpochStep; eauto).
  assert (Hsm' : zlen (Validators st') <= 65536) by (rewrite (epoch_validators st g ev sc st' tr mi HE Hc Hs Hk); exact Hsm).
  assert (Hn' : nsign (g ++ tr) <> 0%nat) by (rewrite nsign_app; lia).
  destruct (signed_commit_is_kept st g mi HE Hk0 Hsm Hn) as (c & b & C0 & C1 & C2 & C3 & C4 & _).
  destruct (signed_commit_is_kept st' (g ++ tr) mi HE' Hk Hsm' Hn') as (c' & b' & D0 & D1 & D2 & D3 & D4 & _).
  rewrite (signed_commit_prefix g tr Hn), C0 in D0. injection D0 as <-.
  pose proof (one_signature_per_epoch st' (g ++ tr) mi HE' Hk Hsm') as H1. rewrite nsign_app in H1.
  split; [congruence|split; [lia|split; congruence]].
Qed.
End ApiL.

(* a replayed history that starts an epoch and continues it is an epoch; a boolean check of a recorded history against the
   hypotheses of the theorems, with its soundness (for the non-vacuity examples) *)
Definition continuesb (e : event) : bool := match e with EStart _ | EReset _ => false | _ => true end.
Lemma replay_epoch cfg : forall h s sf l g, Epoch cfg s g -> forallb continuesb (map fst h) = true -> replay cfg s h = Some (sf, l) ->
  Epoch cfg sf (g ++ concat (map snd l)).
Proof.
  induction h as [|[ev sc] r IH]; intros s sf l g HE Hc; cbn.
  - intros [= <- <-]. cbn. rewrite app_nil_r. exact HE.
  - cbn in Hc. apply andb_true_iff in Hc. destruct Hc as [Hc1 Hc2].
    destruct (step cfg s ev sc) as [[s' tr]| | | |] eqn:Es; try discriminate.
    destruct (replay cfg s' r) as [[sf' l']|] eqn:Er; [|discriminate]. intros [= <- <-]. cbn [map snd concat].
    rewrite app_assoc. apply (IH s' sf' l' (g ++ tr)); [|exact Hc2|exact Er].
    eapply EpochStep; [exact HE| |exact Es]. destruct ev; try discriminate Hc1; exact I.
Qed.
Definition epoch_okb (cfg : config) (h : list (event * list call)) (mi : Z) : bool :=
  match h with
  | (EStart ts, sc) :: r =>
      match step cfg fresh_state (EStart ts) sc with
      | Ok (s1, tr1) =>
          match replay cfg s1 r with
          | Some (sf, l) =>
              let g := tr1 ++ concat (map snd l) in
              forallb continuesb (map fst r) &&
              forallb (fun sc => match snd sc with CKeyPair i _ => i =? mi | CWatchOnly b => negb b | _ => true end) g &&
              (zlen (Validators sf) <=? 65536) && Nat.eqb (nsign g) 1
          | None => false end
      | _ => false end
  | _ => false end.
Lemma epoch_okb_sound cfg h mi : epoch_okb cfg h mi = true ->
  exists st g, Epoch cfg st g /\ KS mi g /\ zlen (Validators st) <= 65536 /\ nsign g = 1%nat.
Proof.
  unfold epoch_okb. destruct h as [|[ev sc] r]; [discriminate|]. destruct ev; try discriminate.
  destruct (step cfg fresh_state (EStart ts) sc) as [[s1 tr1]| | | |] eqn:Es; try discriminate.
  destruct (replay cfg s1 r) as [[sf l]|] eqn:Er; [|discriminate]. cbv zeta. intros H.
  apply andb_true_iff in H. destruct H as [H H4]. apply andb_true_iff in H. destruct H as [H H3]. apply andb_true_iff in H. destruct H as [H1 H2].
  exists sf, (tr1 ++ concat (map snd l)). split; [|split; [|split]].
  - apply (replay_epoch cfg r s1 sf l tr1); [eapply EpochStart; [apply Reach0|exact Es]|exact H1|exact Er].
  - unfold KS. rewrite Forall_forall. rewrite forallb_forall in H2. intros [s c] Hin. specialize (H2 _ Hin). cbn in *.
    destruct c; try exact I; [apply Z.eqb_eq in H2; exact H2|destruct b; [discriminate H2|reflexivity]].
  - apply Z.leb_le in H3. exact H3.
  - apply Nat.eqb_eq in H4. exact H4.
Qed.
(* ... and a history with one more call after the signature (the hypotheses of the commit-lock theorem) *)
Definition KSb (mi : Z) (g : tr_t) : bool :=
  forallb (fun sc => match snd sc with CKeyPair i _ => i =? mi | CWatchOnly b => negb b | _ => true end) g.
Lemma KSb_sound mi g : KSb mi g = true -> KS mi g.
Proof.
  unfold KSb, KS. rewrite Forall_forall, forallb_forall. intros H [s c] Hin. specialize (H _ Hin). cbn in *.
  destruct c; try exact I; [apply Z.eqb_eq in H; exact H|destruct b; [discriminate H|reflexivity]].
Qed.
Definition lock_okb (cfg : config) (h : list (event * list call)) (ev : event) (sc : list call) (mi : Z) : bool :=
  match h with
  | (EStart ts, sc0) :: r =>
      match step cfg fresh_state (EStart ts) sc0 with
      | Ok (s1, tr1) =>
          match replay cfg s1 r with
          | Some (sf, l) =>
              let g := tr1 ++ concat (map snd l) in
              match step cfg sf ev sc with
              | Ok (st', tr) =>
                  forallb continuesb (map fst r) && continuesb ev && KSb mi (g ++ tr) && (zlen (Validators sf) <=? 65536) && negb (Nat.eqb (nsign g) 0)
              | _ => false end
          | None => false end
      | _ => false end
  | _ => false end.
Lemma lock_okb_sound cfg h ev sc mi : lock_okb cfg h ev sc mi = true ->
  exists st g st' tr, Epoch cfg st g /\ continues ev /\ step cfg st ev sc = Ok (st', tr) /\ KS mi (g ++ tr) /\
                      zlen (Validators st) <= 65536 /\ nsign g <> 0%nat.
Proof.
  unfold lock_okb. destruct h as [|[e0 sc0] r]; [discriminate|]. destruct e0; try discriminate.
  destruct (step cfg fresh_state (EStart ts) sc0) as [[s1 tr1]| | | |] eqn:Es; try discriminate.
  destruct (replay cfg s1 r) as [[sf l]|] eqn:Er; [|discriminate]. cbv zeta.
  destruct (step cfg sf ev sc) as [[st' tr]| | | |] eqn:E2; try discriminate. intros H.
  apply andb_true_iff in H. destruct H as [H H5]. apply andb_true_iff in H. destruct H as [H H4]. apply andb_true_iff in H. destruct H as [H H3].
  apply andb_true_iff in H. destruct H as [H1 H2].
  exists sf, (tr1 ++ concat (map snd l)), st', tr. split; [|split; [|split; [|split; [|split]]]].
  - apply (replay_epoch cfg r s1 sf l tr1); [eapply EpochStart; [apply Reach0|exact Es]|exact H1|exact Er].
  - destruct ev; try discriminate H2; exact I.
  - exact E2.
  - apply KSb_sound. exact H3.
  - apply Z.leb_le in H4. exact H4.
  - apply negb_true_iff, Nat.eqb_neq in H5. exact H5.
Qed.
