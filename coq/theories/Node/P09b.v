(* C03 / C09: the recovery message a committed node sends in answer to a RecoveryRequest is a message of the node's own
   height and view, and it carries the node's own Commit whole (P09.v proves the carrying; here the epoch of the message
   is added, which is what the reconstruction on the receiving side depends on: Ref/Recovery.v
   `commit_rebuilt_under_its_own_height_and_view_is_the_original`). *)
From DbftV Require Export P09.

Section P09b.
Variable cfg : config.

Hint Resolve e_WatchOnly e_RSOR e_own_slot e_ResponseSent e_PreCommitSent e_CommitSent e_ViewChanging e_sendRecoveryMessage e_makeRecoveryMessage e_broadcast : kpdb.

(* the building block: wherever it is called from, sendRecoveryMessage of a node whose own Commit slot is filled broadcasts a
   recovery message of the node's height and view that carries that Commit whole, and changes nothing *)
Lemma sendRecoveryMessage_carries_own_commit s0 cm :
  0 <= MyIndex s0 -> slot (CommitPayloads s0) (MyIndex s0) = Some cm ->
  hx s0 sendRecoveryMessage (fun _ s tr =>
    Val tr -> s = s0 /\
    exists sb p, In (sb, CBroadcast p) tr /\ p_type p = RecoveryMessageT /\
      p_height p = BlockIndex s0 /\ p_view p = ViewNumber s0 /\ p_idx p = u16 (MyIndex s0) /\
      (forall q, In q (to_p0 cm) -> carries p q)).
Proof.
  intros H0 Hc.
  unfold sendRecoveryMessage, makeRecoveryMessage. apply x_assoc. apply x_get. cbv zeta. apply x_assoc.
  apply (x_probe _ _ _ _ _ (d_own_slot PreCommitPayloads s0 H0) (ow_own_slot PreCommitPayloads s0)). intros ps n3 Hps O3. apply x_assoc.
  apply (x_probe _ _ _ _ _ (d_own_slot CommitPayloads s0 H0) (ow_own_slot CommitPayloads s0)). intros cs2 n4 Hcs2 O4. apply x_ret_bind.
  unfold broadcast. apply x_get. unfold ask_unit. apply x_ask_last. intros [] c Hcb. apply sel_Broadcast in Hcb. subst c.
  intros Hv. split; [reflexivity|]. eexists _, _. split; [repeat (apply in_or_app; right); left; reflexivity|].
  split; [reflexivity|]. split; [reflexivity|]. split; [reflexivity|]. split; [reflexivity|].
  unfold carries, mk_payload. cbn [p_body set].
  assert (E2 : cs2 = true).
  { apply Val_app in Hv. destruct Hv as [_ Hv]. apply Val_app in Hv. destruct Hv as [V4 _].
    rewrite (Hcs2 V4), Hc. reflexivity. }
  subst cs2.
  intros q Hq. apply in_or_app. right. apply in_or_app. right. apply in_or_app. right. apply in_flat_map. exists cm. split; [apply (slot_in_somes _ _ _ Hc)|exact Hq].
Qed.

Theorem committed_node_answers_recovery_requests_in_its_epoch msg s0 cm :
  0 <= MyIndex s0 -> slot (CommitPayloads s0) (MyIndex s0) = Some cm ->
  hx s0 (onRecoveryRequest cfg msg) (fun _ s tr =>
    Val tr -> s = s0 /\
    exists sb p, In (sb, CBroadcast p) tr /\ p_type p = RecoveryMessageT /\
      p_height p = BlockIndex s0 /\ p_view p = ViewNumber s0 /\ p_idx p = u16 (MyIndex s0) /\
      (forall q, In q (to_p0 cm) -> carries p q)).
Proof.
  intros H0 Hc. unfold onRecoveryRequest.
  apply (x_probe _ _ _ _ _ (d_WatchOnly s0 H0) (ow_WatchOnly s0)). intros wo n1 Hw O1.
  destruct wo. { apply x_ret. intros Hv. rewrite app_nil_r in Hv. discriminate (Hw Hv). }
  apply (x_probe _ _ _ _ _ (d_own_slot CommitPayloads s0 H0) (ow_own_slot CommitPayloads s0)). intros cs n2 Hcs O2. apply x_get.
  destruct cs.
  2:{ eapply x_conseq with (Q' := fun _ _ _ => True).
    { apply wb_J. j_go. }
    cbn. intros _ s n _ Hv. exfalso. apply Val_app in Hv. destruct Hv as [_ Hv]. apply Val_app in Hv. destruct Hv as [V2 _].
    pose proof (Hcs V2) as Ex. rewrite Hc in Ex. discriminate Ex. }
  apply x_ret_bind. cbn [negb andb].
  unfold sendRecoveryMessage, makeRecoveryMessage. apply x_assoc. apply x_get. cbv zeta. apply x_assoc.
  apply (x_probe _ _ _ _ _ (d_own_slot PreCommitPayloads s0 H0) (ow_own_slot PreCommitPayloads s0)). intros ps n3 Hps O3. apply x_assoc.
  apply (x_probe _ _ _ _ _ (d_own_slot CommitPayloads s0 H0) (ow_own_slot CommitPayloads s0)). intros cs2 n4 Hcs2 O4. apply x_ret_bind.
  unfold broadcast. apply x_get. unfold ask_unit. apply x_ask_last. intros [] c Hcb. apply sel_Broadcast in Hcb. subst c.
  intros Hv. split; [reflexivity|]. eexists _, _. split; [repeat (apply in_or_app; right); left; reflexivity|].
  split; [reflexivity|]. split; [reflexivity|]. split; [reflexivity|]. split; [reflexivity|].
  unfold carries, mk_payload. cbn [p_body set].
  assert (E2 : cs2 = true).
  { apply Val_app in Hv. destruct Hv as [_ Hv]. apply Val_app in Hv. destruct Hv as [_ Hv]. apply Val_app in Hv. destruct Hv as [_ Hv]. apply Val_app in Hv. destruct Hv as [V4 _].
    rewrite (Hcs2 V4), Hc. reflexivity. }
  subst cs2.
  intros q Hq. apply in_or_app. right. apply in_or_app. right. apply in_or_app. right. apply in_flat_map. exists cm. split; [apply (slot_in_somes _ _ _ Hc)|exact Hq].
Qed.
End P09b.
