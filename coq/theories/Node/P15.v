(* C15 Honest proposals are well formed: what Fill / makePrepareRequest / the primary's own block are, for every state,
   every pool, every clock reading, every nonce. *)
From DbftV Require Export Hoare Payload.

Section P15.
Variable cfg : config.

(* Fill: either defers (dynamic block time, empty pool, not forced: state untouched) or consumes exactly
   GetVerified, Now, Nonce and leaves Timestamp = max (previous + increment) (clock truncated to the increment) *)
Theorem fill_spec force s0 :
  cfg_inc cfg <> 0 ->
  hx s0 (Fill cfg force) (fun r s tr =>
    match r with
    | false => s = s0 /\ cfg_dyn cfg = true /\ force = false /\ map snd tr = [CGetVerified []]
    | true => exists txs t n, map snd tr = [CGetVerified txs; CNow t; CNonce n] /\
              TransactionHashes s = map tx_hash txs /\ Nonce s = n /\
              Timestamp s = Z.max (u64 (lastBlockTimestamp s0 + cfg_inc cfg)) (u64 t / cfg_inc cfg * cfg_inc cfg) /\
              (forall x, In x txs -> tx_find (Transactions s) (tx_hash x) <> None) /\
              lastBlockTimestamp s = lastBlockTimestamp s0 /\ BlockIndex s = BlockIndex s0 /\ ViewNumber s = ViewNumber s0 /\
              MyIndex s = MyIndex s0 /\ PrevHash s = PrevHash s0
    end).
Proof.
  intros Hinc. unfold Fill, getTimestamp, ask_now. xs.
  all: repeat match goal with
              | H : match ?c with CGetVerified _ => _ | _ => _ end = Some _ |- _ => apply sel_GetVerified in H; subst c
              | H : match ?c with CNow _ => _ | _ => _ end = Some _ |- _ => apply sel_Now in H; subst c
              | H : match ?c with CNonce _ => _ | _ => _ end = Some _ |- _ => apply sel_Nonce in H; subst c
              end.
  all: try match goal with H : (cfg_inc cfg =? 0) = true |- _ => apply Z.eqb_eq in H; contradiction end.
  - (* deferred *)
    match goal with H : (_ && _ && _) = true |- _ => apply andb_true_iff in H; destruct H as [H1 H3]; apply andb_true_iff in H1; destruct H1 as [H1 H2] end.
    apply negb_true_iff in H2. apply Z.eqb_eq in H3. unfold zlen in H3.
    match goal with |- context[CGetVerified ?l] => destruct l; [|cbn in H3; lia] end. auto.
  - match goal with |- context[[(_, CGetVerified ?l); (_, CNow ?t); (_, CNonce ?n)]] => exists l, t, n end.
    split; [reflexivity|].
    match goal with |- context[if ?b then _ else _] => destruct b eqn:E1 end;
    cbn [TransactionHashes Nonce Timestamp lastBlockTimestamp BlockIndex ViewNumber MyIndex PrevHash Transactions set] in *; repeat split; auto.
    + apply Z.gtb_lt in E1. lia.
    + intros x Hx. apply tx_put_all_found_gen; auto.
    + rewrite Z.gtb_ltb in E1. apply Z.ltb_ge in E1. lia.
    + intros x Hx. apply tx_put_all_found_gen; auto.
Qed.

(* the block a node builds: when no header exists yet, the one MakeHeader creates carries the context's index, previous
   hash, timestamp, nonce and transaction hashes - the values the proposal was built from *)
Theorem makeheader_spec s0 :
  header s0 = None ->
  hx s0 (MakeHeader cfg) (fun r s tr => forall b, r = Some b ->
    b_index b = BlockIndex s0 /\ b_prev b = PrevHash s0 /\ b_ts b = Timestamp s0 /\ b_nonce b = Nonce s0 /\ b_hashes b = TransactionHashes s0 /\
    header s = Some b /\ Timestamp s = Timestamp s0 /\ Nonce s = Nonce s0 /\ TransactionHashes s = TransactionHashes s0).
Proof.
  intros Hh. unfold MakeHeader, RequestSentOrReceived. apply x_get. rewrite Hh. xs.
  all: try (intros b Hb; discriminate Hb).
  intros b [= <-]. cbn. repeat split; reflexivity.
Qed.

Lemma ts_strict last inc ts : 0 <= last -> 0 < inc -> last + inc < 18446744073709551616 -> u64 (last + inc) <= ts -> last < ts.
Proof. intros H1 H2 H3 H4. unfold u64 in H4. rewrite Z.mod_small in H4; lia. Qed.
End P15.
