(* C03: retransmission of the PreCommit (anti-MEV) and of the Commit inside recovery messages, stated on sendRecoveryMessage
   itself - the one place where the library builds a recovery message - from the state reached by ANY history of an epoch:
   after the pre-commit was built (after the signature) the message is of the pre-commit's (commit's) view and carries the
   pre-commit built at the data request (the commit built at the signature request) whole. *)
From Coq Require Import ZArith List.
From DbftV Require Import SignLApi SignPApi P09b.
Open Scope Z_scope.

Section RMP.
Variable cfg : config.

Hint Resolve e_WatchOnly e_RSOR e_own_slot e_ResponseSent e_PreCommitSent e_CommitSent e_ViewChanging e_sendRecoveryMessage e_makeRecoveryMessage e_broadcast : kpdb.

Lemma sendRecoveryMessage_carries_own_precommit s0 pc :
  0 <= MyIndex s0 -> slot (PreCommitPayloads s0) (MyIndex s0) = Some pc ->
  hx s0 sendRecoveryMessage (fun _ s tr =>
    Val tr -> s = s0 /\
    exists sb p, In (sb, CBroadcast p) tr /\ p_type p = RecoveryMessageT /\
      p_height p = BlockIndex s0 /\ p_view p = ViewNumber s0 /\ p_idx p = u16 (MyIndex s0) /\
      (forall q, In q (to_p0 pc) -> carries p q)).
Proof.
  intros H0 Hc.
  unfold sendRecoveryMessage, makeRecoveryMessage. apply x_assoc. apply x_get. cbv zeta. apply x_assoc.
  apply (x_probe _ _ _ _ _ (d_own_slot PreCommitPayloads s0 H0) (ow_own_slot PreCommitPayloads s0)). intros ps n3 Hps O3. apply x_assoc.
  apply (x_probe _ _ _ _ _ (d_own_slot CommitPayloads s0 H0) (ow_own_slot CommitPayloads s0)). intros cs2 n4 Hcs2 O4. apply x_ret_bind.
  unfold broadcast. apply x_get. unfold ask_unit. apply x_ask_last. intros [] c Hcb. apply sel_Broadcast in Hcb. subst c.
  intros Hv. split; [reflexivity|]. eexists _, _. split; [repeat (apply in_or_app; right); left; reflexivity|].
  split; [reflexivity|]. split; [reflexivity|]. split; [reflexivity|]. split; [reflexivity|].
  unfold carries, mk_payload. cbn [p_body set].
  assert (E2 : ps = true).
  { apply Val_app in Hv. destruct Hv as [V3 _]. rewrite (Hps V3), Hc. reflexivity. }
  subst ps.
  intros q Hq. apply in_or_app. right. apply in_or_app. right. apply in_or_app. left. apply in_flat_map. exists pc. split; [apply (slot_in_somes _ _ _ Hc)|exact Hq].
Qed.

Theorem recovery_message_after_the_precommit_carries_it st g mi :
  Epoch cfg st g -> KS mi g -> zlen (Validators st) <= 65536 -> nset g <> 0%nat -> 0 <= mi ->
  exists c, set_precommit g = Some c /\
    hx st sendRecoveryMessage (fun _ s tr =>
      Val tr -> s = st /\
      exists sb p, In (sb, CBroadcast p) tr /\ p_type p = RecoveryMessageT /\
        p_height p = BlockIndex st /\ p_view p = p_view c /\ p_idx p = u16 mi /\
        (forall q, In q (to_p0 c) -> carries p q)).
Proof.
  intros HE Hk Hs Hn H0.
  destruct (set_precommit_is_kept cfg st g mi HE Hk Hs Hn) as (c & b & C0 & C1 & C2 & C3 & C4 & _).
  exists c. split; [exact C0|].
  rewrite <- C2 in C1, H0.
  eapply x_conseq; [apply (sendRecoveryMessage_carries_own_precommit st c H0 C1)|].
  cbn beta. intros r s tr Hp Hv. destruct (Hp Hv) as (E & sb & p & A1 & A2 & A3 & A4 & A5 & A6).
  split; [exact E|]. exists sb, p. rewrite C4, <- C2. repeat split; assumption.
Qed.

Theorem recovery_message_after_the_signature_carries_the_signed_commit st g mi :
  Epoch cfg st g -> KS mi g -> zlen (Validators st) <= 65536 -> nsign g <> 0%nat -> 0 <= mi ->
  exists c, signed_commit g = Some c /\
    hx st sendRecoveryMessage (fun _ s tr =>
      Val tr -> s = st /\
      exists sb p, In (sb, CBroadcast p) tr /\ p_type p = RecoveryMessageT /\
        p_height p = BlockIndex st /\ p_view p = p_view c /\ p_idx p = u16 mi /\
        (forall q, In q (to_p0 c) -> carries p q)).
Proof.
  intros HE Hk Hs Hn H0.
  destruct (signed_commit_is_kept cfg st g mi HE Hk Hs Hn) as (c & b & C0 & C1 & C2 & C3 & C4 & _).
  exists c. split; [exact C0|].
  rewrite <- C2 in C1, H0.
  eapply x_conseq; [apply (sendRecoveryMessage_carries_own_commit st c H0 C1)|].
  cbn beta. intros r s tr Hp Hv. destruct (Hp Hv) as (E & sb & p & A1 & A2 & A3 & A4 & A5 & A6).
  split; [exact E|]. exists sb, p. rewrite C4, <- C2. repeat split; assumption.
Qed.
End RMP.
