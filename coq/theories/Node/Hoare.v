(* Proof layer for the node model: trace-aware Hoare triples over the script-consuming monad, forward symbolic
   execution rules (precondition = one explicit state), and the step tactic [xs].
   The trace records (state at the instant of the callback, callback); postconditions see the new trace segment. *)
From DbftV Require Export Model.

Definition tr_t := list (nstate * call).

(* partial correctness in Mismatch / OutOfFuel / Fatal (no state to talk about); Panic must be excluded *)
Definition hoare {A} (P : nstate -> Prop) (x : M A) (Q : A -> nstate -> tr_t -> Prop) : Prop :=
  forall m, P (st m) ->
  match x m with
  | Ok (a, m') => exists new, trace m' = trace m ++ new /\ script m = map snd new ++ script m' /\ Q a (st m') new
  | Panic => False
  | _ => True end.

(* the same, but a Panic outcome is also accepted (used for properties that do not need the sizing invariant) *)
Definition hoarep {A} (P : nstate -> Prop) (x : M A) (Q : A -> nstate -> tr_t -> Prop) : Prop :=
  forall m, P (st m) ->
  match x m with
  | Ok (a, m') => exists new, trace m' = trace m ++ new /\ script m = map snd new ++ script m' /\ Q a (st m') new
  | _ => True end.

Lemma hoare_hoarep {A} P (x : M A) Q : hoare P x Q -> hoarep P x Q.
Proof. intros H m Hp. specialize (H m Hp). destruct (x m) as [[a m']| | | |]; auto. Qed.

(* ---------------- exact-state triples ---------------- *)
Definition hx {A} (s0 : nstate) (x : M A) (Q : A -> nstate -> tr_t -> Prop) := hoarep (eq s0) x Q.

Lemma hx_intro {A} (P : nstate -> Prop) (x : M A) Q : (forall s0, P s0 -> hx s0 x Q) -> hoarep P x Q.
Proof. intros H m Hp. apply (H (st m) Hp m eq_refl). Qed.

Lemma x_ret {A} s0 (a : A) (Q : A -> nstate -> tr_t -> Prop) : Q a s0 [] -> hx s0 (ret a) Q.
Proof. intros H m Hm. cbn. exists []. rewrite app_nil_r. subst. auto. Qed.
Lemma x_ret_bind {A B} s0 (a : A) (f : A -> M B) Q : hx s0 (f a) Q -> hx s0 (bind (ret a) f) Q.
Proof. intros H m Hm. apply (H m Hm). Qed.
Lemma x_get {B} s0 (f : nstate -> M B) Q : hx s0 (f s0) Q -> hx s0 (bind get f) Q.
Proof. intros H m Hm. unfold bind, get. subst s0. apply (H m eq_refl). Qed.
Lemma x_get_last s0 (Q : nstate -> nstate -> tr_t -> Prop) : Q s0 s0 [] -> hx s0 get Q.
Proof. intros H m Hm. cbn. exists []. rewrite app_nil_r. subst. auto. Qed.
Lemma x_modify {B} s0 g (f : unit -> M B) Q : hx (g s0) (f tt) Q -> hx s0 (bind (modify g) f) Q.
Proof. intros H m Hm. subst s0. unfold bind, modify; cbn. apply (H (mkM (g (st m)) (script m) (trace m)) eq_refl). Qed.
Lemma x_modify_last s0 g (Q : unit -> nstate -> tr_t -> Prop) : Q tt (g s0) [] -> hx s0 (modify g) Q.
Proof. intros H m Hm. cbn. exists []. rewrite app_nil_r. subst. auto. Qed.
Lemma x_ask {A B} s0 (sel : call -> option A) (f : A -> M B) Q :
  (forall a c, sel c = Some a -> hx s0 (f a) (fun b s n => Q b s ((s0, c) :: n))) -> hx s0 (bind (ask sel) f) Q.
Proof.
  intros H m Hm. unfold bind, ask. destruct (script m) as [|c rest] eqn:E; auto. destruct (sel c) eqn:Es; auto.
  specialize (H a c Es (mkM (st m) rest (trace m ++ [(st m, c)])) Hm). cbn in H.
  destruct (f a _) as [[b m']| | | |]; auto. destruct H as (n & T & S & Hq). exists ((s0, c) :: n). cbn in *.
  rewrite T, S, <- app_assoc. subst s0. auto.
Qed.
Lemma x_ask_last {A} s0 (sel : call -> option A) (Q : A -> nstate -> tr_t -> Prop) :
  (forall a c, sel c = Some a -> Q a s0 [(s0, c)]) -> hx s0 (ask sel) Q.
Proof.
  intros H m Hm. unfold ask. destruct (script m) as [|c rest] eqn:E; auto. destruct (sel c) eqn:Es; auto.
  cbn. exists [(s0, c)]. subst s0. repeat split; auto.
Qed.
Lemma x_assoc {A B C} s0 (x : M A) (g : A -> M B) (f : B -> M C) Q :
  hx s0 (bind x (fun a => bind (g a) f)) Q -> hx s0 (bind (bind x g) f) Q.
Proof. intros H m Hm. specialize (H m Hm). unfold bind in *. destruct (x m) as [[a m']| | | |]; auto. Qed.
Lemma x_call {A B} s0 (x : M A) (Qx : A -> nstate -> tr_t -> Prop) (f : A -> M B) Q :
  hx s0 x Qx -> (forall a s1 n1, Qx a s1 n1 -> hx s1 (f a) (fun b s n2 => Q b s (n1 ++ n2))) -> hx s0 (bind x f) Q.
Proof.
  intros Hx Hf m Hm. unfold bind. specialize (Hx m Hm). destruct (x m) as [[a m']| | | |]; auto.
  destruct Hx as (n1 & T1 & S1 & Hq). specialize (Hf a (st m') n1 Hq m' eq_refl).
  destruct (f a m') as [[b m'']| | | |]; auto. destruct Hf as (n2 & T2 & S2 & Hr).
  exists (n1 ++ n2). rewrite T2, T1, S1, S2, map_app, !app_assoc. auto.
Qed.
Lemma x_conseq {A} s0 (x : M A) (Q Q' : A -> nstate -> tr_t -> Prop) :
  hx s0 x Q' -> (forall a s n, Q' a s n -> Q a s n) -> hx s0 x Q.
Proof. intros H HQ m Hm. specialize (H m Hm). destruct (x m) as [[a m']| | | |]; auto. destruct H as (n & ? & ? & ?). exists n; auto. Qed.
Lemma x_bind_unit_r {A} s0 (x : M A) Q : hx s0 (bind x ret) Q -> hx s0 x Q.
Proof. intros H m Hm. specialize (H m Hm). unfold bind, ret in H. destruct (x m) as [[a m']| | | |]; auto. Qed.
Lemma x_to_bind {A} s0 (x : M A) Q : hx s0 x Q -> hx s0 (bind x ret) Q.
Proof. intros H m Hm. specialize (H m Hm). unfold bind, ret. destruct (x m) as [[a m']| | | |]; auto. Qed.
Lemma x_panic {A} s0 (Q : A -> nstate -> tr_t -> Prop) : hx s0 panic Q.
Proof. intros m Hm. exact I. Qed.
Lemma x_panic_bind {A B} s0 (f : A -> M B) Q : hx s0 (bind panic f) Q.
Proof. intros m Hm. exact I. Qed.
Lemma x_fatal_bind {A B} s0 (f : A -> M B) Q : hx s0 (bind fatal f) Q.
Proof. intros m Hm. exact I. Qed.
Lemma x_fatal {A} s0 (Q : A -> nstate -> tr_t -> Prop) : hx s0 fatal Q.
Proof. intros m Hm. exact I. Qed.
Lemma x_oof {A} s0 (Q : A -> nstate -> tr_t -> Prop) : hx s0 out_of_fuel Q.
Proof. intros m Hm. exact I. Qed.
Lemma x_oof_bind {A B} s0 (f : A -> M B) Q : hx s0 (bind out_of_fuel f) Q.
Proof. intros m Hm. exact I. Qed.

Lemma x_conj {A} s0 (x : M A) (Q1 Q2 : A -> nstate -> tr_t -> Prop) :
  hx s0 x Q1 -> hx s0 x Q2 -> hx s0 x (fun a s n => Q1 a s n /\ Q2 a s n).
Proof.
  intros H1 H2 m Hm. specialize (H1 m Hm). specialize (H2 m Hm). destruct (x m) as [[a m']| | | |]; auto.
  destruct H1 as (n1 & T1 & S1 & Q1'). destruct H2 as (n2 & T2 & S2 & Q2').
  assert (n1 = n2) by (rewrite T1 in T2; apply app_inv_head in T2; exact T2). subst n2. exists n1. auto.
Qed.

(* checked table access: a Panic is accepted by hx, so no side condition; the successful read is exposed *)
Lemma x_tget {T B} s0 (l : list T) i (f : T -> M B) Q :
  (forall x, 0 <= i -> nth_chk l (Z.to_nat i) = Some x -> hx s0 (f x) Q) -> hx s0 (bind (tget l i) f) Q.
Proof.
  intros H m Hm. unfold bind, tget. destruct (i <? 0) eqn:E; [exact I|]. apply Z.ltb_ge in E.
  destruct (nth_chk l (Z.to_nat i)) eqn:En; [|exact I]. apply (H t E eq_refl m Hm).
Qed.
Lemma x_tget_last {T} s0 (l : list T) i (Q : T -> nstate -> tr_t -> Prop) :
  (forall x, 0 <= i -> nth_chk l (Z.to_nat i) = Some x -> Q x s0 []) -> hx s0 (tget l i) Q.
Proof. intros H. apply x_bind_unit_r. apply x_tget. intros x Hi Hx. apply x_ret. auto. Qed.
Lemma x_tset {T B} s0 (l : list T) i v (f : list T -> M B) Q :
  (forall l', 0 <= i -> set_chk l (Z.to_nat i) v = Some l' -> hx s0 (f l') Q) -> hx s0 (bind (tset l i v) f) Q.
Proof.
  intros H m Hm. unfold bind, tset. destruct (i <? 0) eqn:E; [exact I|]. apply Z.ltb_ge in E.
  destruct (set_chk l (Z.to_nat i) v) eqn:En; [|exact I]. apply (H l0 E eq_refl m Hm).
Qed.

(* loops *)
Lemma x_forM {T} (I : nstate -> tr_t -> Prop) (f : T -> M unit) (l : list T) :
  (forall a s n, In a l -> I s n -> hx s (f a) (fun _ s' n' => I s' (n ++ n'))) ->
  forall s n, I s n -> hx s (forM l f) (fun _ s' n' => I s' (n ++ n')).
Proof.
  induction l as [|a l IH]; intros Hf s n Hi; cbn [forM].
  - apply x_ret. rewrite app_nil_r. exact Hi.
  - eapply x_call; [apply (Hf a s n (or_introl eq_refl) Hi)|]. intros [] s1 n1 H1. cbn beta.
    eapply x_conseq; [apply (IH (fun a' s' n' Hin => Hf a' s' n' (or_intror Hin)) s1 (n ++ n1) H1)|].
    cbn. intros _ s2 n2 H2. rewrite app_assoc. exact H2.
Qed.

(* ---------------- the step tactic ---------------- *)
Ltac xs1 :=
  lazymatch goal with
  | |- hx _ (bind (bind _ _) _) _ => apply x_assoc
  | |- hx _ (bind get _) _ => apply x_get
  | |- hx _ (bind (gets _) _) _ => unfold gets at 1
  | |- hx _ (bind (ask_unit _) _) _ => unfold ask_unit at 1
  | |- hx _ (bind ask_now _) _ => unfold ask_now at 1
  | |- hx _ (bind ask_watchonly _) _ => unfold ask_watchonly at 1
  | |- hx _ (ask_unit _) _ => unfold ask_unit at 1
  | |- hx _ ask_now _ => unfold ask_now at 1
  | |- hx _ ask_watchonly _ => unfold ask_watchonly at 1
  | |- hx _ (bind (modify _) _) _ => apply x_modify
  | |- hx _ (bind (ask _) _) _ => apply x_ask; let a := fresh "a" in let c := fresh "c" in let Hc := fresh "Hc" in intros a c Hc
  | |- hx _ (bind (ret _) _) _ => apply x_ret_bind
  | |- hx _ (bind panic _) _ => apply x_panic_bind
  | |- hx _ (bind fatal _) _ => apply x_fatal_bind
  | |- hx _ (bind out_of_fuel _) _ => apply x_oof_bind
  | |- hx _ (bind (tget _ _) _) _ => apply x_tget; let x := fresh "x" in let Hi := fresh "Hi" in let Hx := fresh "Hx" in intros x Hi Hx
  | |- hx _ (bind (tset _ _ _) _) _ => apply x_tset; let l := fresh "l" in let Hi := fresh "Hi" in let Hl := fresh "Hl" in intros l Hi Hl
  | |- hx _ (bind (if ?b then _ else _) _) _ => let E := fresh "E" in destruct b eqn:E
  | |- hx _ (if ?b then _ else _) _ => let E := fresh "E" in destruct b eqn:E
  | |- hx _ (bind (match ?o with Some _ => _ | None => _ end) _) _ => let E := fresh "E" in destruct o eqn:E
  | |- hx _ (match ?o with Some _ => _ | None => _ end) _ => let E := fresh "E" in destruct o eqn:E
  | |- hx _ (modify _) _ => apply x_modify_last
  | |- hx _ (ask _) _ => apply x_ask_last; let a := fresh "a" in let c := fresh "c" in let Hc := fresh "Hc" in intros a c Hc
  | |- hx _ (tget _ _) _ => apply x_tget_last; let x := fresh "x" in let Hi := fresh "Hi" in let Hx := fresh "Hx" in intros x Hi Hx
  | |- hx _ (ret _) _ => apply x_ret
  | |- hx _ panic _ => apply x_panic
  | |- hx _ fatal _ => apply x_fatal
  | |- hx _ out_of_fuel _ => apply x_oof
  | |- hx _ get _ => apply x_get_last
  end.
Ltac xs := repeat xs1.

(* ---------------- inversion of the callback selectors ---------------- *)
Lemma sel_GetVerified c l : match c with CGetVerified x => Some x | _ => None end = Some l -> c = CGetVerified l.
Proof. destruct c; intros [=]; subst; auto. Qed.
Lemma sel_Now c t : match c with CNow x => Some x | _ => None end = Some t -> c = CNow t.
Proof. destruct c; intros [=]; subst; auto. Qed.
Lemma sel_Nonce c t : match c with CNonce x => Some x | _ => None end = Some t -> c = CNonce t.
Proof. destruct c; intros [=]; subst; auto. Qed.
Lemma sel_WatchOnly c b : match c with CWatchOnly x => Some x | _ => None end = Some b -> c = CWatchOnly b.
Proof. destruct c; intros [=]; subst; auto. Qed.
Lemma sel_NewBlock c b : match c with CNewBlock x => Some x | _ => None end = Some b -> c = CNewBlock b.
Proof. destruct c; intros [=]; subst; auto. Qed.
Lemma sel_NewPreBlock c b : match c with CNewPreBlock x => Some x | _ => None end = Some b -> c = CNewPreBlock b.
Proof. destruct c; intros [=]; subst; auto. Qed.

(* classification of callbacks (used by the effect-freedom judgements) *)
Definition is_broadcast (c : call) : bool := match c with CBroadcast _ => true | _ => false end.
Definition bcast_type (c : call) : option mtype := match c with CBroadcast p => Some (p_type p) | _ => None end.

(* hash_eqb / list_eqb reflect equality *)
Lemma list_eqb_Z_eq (a b : list Z) : list_eqb Z.eqb a b = true <-> a = b.
Proof.
  revert b; induction a as [|x a IH]; destruct b as [|y b]; cbn; split; try congruence; try discriminate; auto.
  - intros H. apply andb_true_iff in H. destruct H as [H1 H2]. apply Z.eqb_eq in H1. apply IH in H2. congruence.
  - intros [= -> ->]. apply andb_true_iff. split; [apply Z.eqb_refl|apply IH; auto].
Qed.
Lemma hash_eqb_eq (a b : hash) : hash_eqb a b = true <-> a = b.
Proof. apply list_eqb_Z_eq. Qed.
Lemma hash_eqb_refl (a : hash) : hash_eqb a a = true. Proof. apply hash_eqb_eq. reflexivity. Qed.

(* transactions map *)
Lemma tx_find_put_same l h t : tx_find (tx_put l h t) h = Some t.
Proof. induction l as [|[h' t'] r IH]; cbn; [rewrite hash_eqb_refl; reflexivity|].
  destruct (hash_eqb h' h) eqn:E; cbn; [rewrite hash_eqb_refl; reflexivity|rewrite E; exact IH]. Qed.
Lemma tx_find_put_other l h t h2 : hash_eqb h h2 = false -> tx_find (tx_put l h t) h2 = tx_find l h2.
Proof. intros Hn. induction l as [|[h' t'] r IH]; cbn; [rewrite Hn; reflexivity|].
  destruct (hash_eqb h' h) eqn:E; cbn.
  - apply hash_eqb_eq in E. subst h'. rewrite Hn. reflexivity.
  - destruct (hash_eqb h' h2); auto. Qed.
Lemma tx_find_put_keep l h t h2 : tx_find l h2 <> None -> tx_find (tx_put l h t) h2 <> None.
Proof. intros H. destruct (hash_eqb h h2) eqn:E.
  - apply hash_eqb_eq in E. subst. rewrite tx_find_put_same. discriminate.
  - rewrite tx_find_put_other; auto. Qed.
Lemma tx_put_fold_keep txs : forall l h, tx_find l h <> None ->
  tx_find (fold_left (fun acc t => tx_put acc (tx_hash t) t) txs l) h <> None.
Proof. induction txs as [|a r IH]; cbn; auto. intros l h H. apply IH. apply tx_find_put_keep. exact H. Qed.
Lemma tx_put_all_found_gen txs : forall l x, In x txs -> tx_find (fold_left (fun acc t => tx_put acc (tx_hash t) t) txs l) (tx_hash x) <> None.
Proof. induction txs as [|a r IH]; cbn; intros l x []; [subst; apply tx_put_fold_keep; rewrite tx_find_put_same; discriminate|apply IH; auto]. Qed.
