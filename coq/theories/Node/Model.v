(* Node model: dbft.go / check.go / send.go / context.go / helpers.go / rtt.go in Gallina.
   One definition per Go function, same order of side effects; follows the repaired code
   (fix commits D3 D4 D5 D7 D8 D9 D17, see known_findings.json). *)
From DbftV Require Export Types.
From DbftV Require Quorum.

Section Node.
Variable cfg : config.

(* ---------- small helpers ---------- *)
Definition isSome {A} (o : option A) : bool := match o with Some _ => true | None => false end.
Definition N (s : nstate) : Z := zlen (Validators s).
Definition F (s : nstate) : Z := goquot (N s - 1) 3.
Definition Mq (s : nstate) : Z := N s - F s.

Definition ask_now : M Z := ask (fun c => match c with CNow t => Some t | _ => None end).
Definition ask_watchonly : M bool := ask (fun c => match c with CWatchOnly b => Some b | _ => None end).
Definition ask_unit (p : call -> bool) : M unit := ask (fun c => if p c then Some tt else None).

Definition GetPrimaryIndex (s : nstate) (view : Z) : M Z :=
  if N s =? 0 then panic else
  let p := gorem (BlockIndex s - view) (N s) in ret (if p >=? 0 then p else p + N s).
Definition IsPrimary (s : nstate) : bool := MyIndex s =? PrimaryIndex s.
Definition IsBackup (s : nstate) : bool := (MyIndex s >=? 0) && negb (IsPrimary s).
Definition WatchOnly : M bool :=
  s <- get ;; if MyIndex s <? 0 then ret true else ask_watchonly.

Definition CountCommitted (s : nstate) : Z :=
  count (fun pr => isSome (fst pr) || isSome (snd pr)) (combine (CommitPayloads s) (PreCommitPayloads s)).
Definition CountFailed (s : nstate) : Z :=
  count (fun x => let '(hv, (c, pc)) := x in
           negb (isSome c) && negb (isSome pc) &&
           match hv with None => true | Some (h, v) => (h <? BlockIndex s) || (v <? ViewNumber s) end)
        (combine (LastSeenMessage s) (combine (CommitPayloads s) (PreCommitPayloads s))).
Definition MoreThanFNodesCommittedOrLost (s : nstate) : bool := CountCommitted s + CountFailed s >? F s.

Definition RequestSentOrReceived : M bool :=
  s <- get ;; x <- tget (PreparationPayloads s) (PrimaryIndex s) ;; ret (isSome x).
Definition own_slot (tbl : nstate -> list (option payload)) : M bool :=
  wo <- WatchOnly ;; if wo then ret false else s <- get ;; x <- tget (tbl s) (MyIndex s) ;; ret (isSome x).
Definition ResponseSent := own_slot PreparationPayloads.
Definition PreCommitSent := own_slot PreCommitPayloads.
Definition CommitSent := own_slot CommitPayloads.
Definition ViewChanging : M bool :=
  wo <- WatchOnly ;; if wo then ret false else
  s <- get ;; cv <- tget (ChangeViewPayloads s) (MyIndex s) ;;
  ret (match cv with Some p => cv_newview p >? ViewNumber s | None => false end).
Definition NotAcceptingPayloadsDueToViewChanging : M bool :=
  vc <- ViewChanging ;; s <- get ;; ret (vc && negb (MoreThanFNodesCommittedOrLost s)).

Definition amev_on (s : nstate) : bool := (cfg_amev cfg >=? 0) && (u32 (cfg_amev cfg) <=? BlockIndex s).
Definition hasAllTransactions (s : nstate) : bool := zlen (TransactionHashes s) =? zlen (Transactions s).

Fixpoint tx_put (l : list (hash * tx)) (h : hash) (t : tx) : list (hash * tx) :=
  match l with [] => [(h, t)] | (h', t') :: r => if hash_eqb h' h then (h, t) :: r else (h', t') :: tx_put r h t end.
Fixpoint tx_find (l : list (hash * tx)) (h : hash) : option tx :=
  match l with [] => None | (h', t') :: r => if hash_eqb h' h then Some t' else tx_find r h end.

Definition subscribeForTransactions : M unit :=
  modify (fun s => s <| txSubscriptionOn := true |>) ;;; ask_unit (fun c => match c with CSubscribe => true | _ => false end).
Definition unsubscribeFromTransactions : M unit := modify (fun s => s <| txSubscriptionOn := false |>).
Definition StopTxFlow : M unit := ask_unit (fun c => match c with CStopTxFlow => true | _ => false end).

Definition changeTimer (delay : Z) : M unit :=
  s <- get ;;
  ask_unit (fun c => match c with CTimerReset h v d => (h =? BlockIndex s) && (v =? ViewNumber s) && (d =? delay) | _ => false end).

(* ---------- context.go: reset ---------- *)
Definition empty_tbl {A} (n : Z) : list (option A) := replicate n None.

Fixpoint keep_changeviews (i : nat) (n : nat) (view : Z) (cvs last : list (option payload)) : M (list (option payload)) :=
  match n with
  | O => ret last
  | S n' =>
      m <- tget cvs (Z.of_nat i) ;;
      let v := match m with Some p => if cv_newview p >=? view then m else None | None => None end in
      last' <- tset last (Z.of_nat i) v ;;
      keep_changeviews (S i) n' view cvs last'
  end.

Definition reset (view ts : Z) : M unit :=
  modify (fun s => s <| MyIndex := -1 |> <| prepareSentTime := None |> <| lastBlockTimestamp := ts |>) ;;;
  unsubscribeFromTransactions ;;;
  (if view =? 0 then
     ph <- ask (fun c => match c with CPrevHash x => Some x | _ => None end) ;;
     h <- ask (fun c => match c with CHeight x => Some x | _ => None end) ;;
     vs <- ask (fun c => match c with CValidators x => if zlen x =? 0 then None else Some x | _ => None end) ;;   (* WF: never empty *)
     tpb <- ask (fun c => match c with CTimePerBlock x => Some x | _ => None end) ;;
     modify (fun s => s <| PrevHash := ph |> <| BlockIndex := u32 (h + 1) |> <| Validators := vs |> <| timePerBlock := tpb |>) ;;;
     (if cfg_dyn cfg then
        mx <- ask (fun c => match c with CMaxTimePerBlock x => Some x | _ => None end) ;;
        modify (fun s => s <| maxTimePerBlock := mx |>)
      else ret tt) ;;;
     modify (fun s => let n := N s in
               s <| LastChangeViewPayloads := empty_tbl n |> <| LastSeenMessage := empty_tbl n |>
                 <| blockProcessed := false |> <| preBlockProcessed := false |>)
   else
     s <- get ;;
     l <- keep_changeviews 0 (length (Validators s)) view (ChangeViewPayloads s) (LastChangeViewPayloads s) ;;
     modify (fun s => s <| LastChangeViewPayloads := l |>)) ;;;
  s <- get ;;
  ik <- ask (fun c => match c with
                      | CKeyPair i k =>                                   (* WF: -1 or a position holding the node's key *)
                          if i =? -1 then Some (i, k) else
                          if (0 <=? i) && (i <? N s) && match nth_chk (Validators s) (Z.to_nat i) with Some k' => k' =? k | None => false end
                          then Some (i, k) else None
                      | _ => None end) ;;
  modify (fun s => s <| MyIndex := fst ik |> <| MyKey := snd ik |>
                     <| header := None |> <| block_set := false |> <| preheader := None |> <| preblock_set := false |>) ;;;
  modify (fun s => let n := N s in s <| ChangeViewPayloads := empty_tbl n |>) ;;;
  (if view =? 0 then modify (fun s => let n := N s in s <| PreCommitPayloads := empty_tbl n |> <| CommitPayloads := empty_tbl n |>)
   else ret tt) ;;;
  modify (fun s => let n := N s in
            s <| PreparationPayloads := empty_tbl n |> <| Transactions := [] |> <| TransactionHashes := [] |>
              <| MissingTransactions := [] |>) ;;;
  s <- get ;;
  p <- GetPrimaryIndex s view ;;
  modify (fun s => s <| PrimaryIndex := p |> <| ViewNumber := view |>) ;;;
  s <- get ;;
  if MyIndex s >=? 0 then
    l <- tset (LastSeenMessage s) (MyIndex s) (Some (BlockIndex s, ViewNumber s)) ;;
    modify (fun s => s <| LastSeenMessage := l |>)
  else ret tt.

(* ---------- context.go: Fill, blocks ---------- *)
Definition getTimestamp : M Z :=
  t <- ask_now ;;
  if cfg_inc cfg =? 0 then panic else ret (u64 t / cfg_inc cfg * cfg_inc cfg).

Definition Fill (force : bool) : M bool :=
  txx <- ask (fun c => match c with CGetVerified l => Some l | _ => None end) ;;
  if cfg_dyn cfg && negb force && (zlen txx =? 0) then ret false else
  modify (fun s => s <| TransactionHashes := map tx_hash txx |>
                     <| Transactions := fold_left (fun acc t => tx_put acc (tx_hash t) t) txx (Transactions s) |>
                     <| Timestamp := u64 (lastBlockTimestamp s + cfg_inc cfg) |>) ;;;
  now <- getTimestamp ;;
  modify (fun s => if now >? Timestamp s then s <| Timestamp := now |> else s) ;;;
  n <- ask (fun c => match c with CNonce x => Some x | _ => None end) ;;   (* observed at NewPrepareRequest *)
  modify (fun s => s <| Nonce := n |>) ;;;
  ret true.

Definition MakeHeader : M (option blockobj) :=
  s <- get ;;
  match header s with
  | Some b => ret (Some b)
  | None =>
      rs <- RequestSentOrReceived ;;
      if negb rs then ret None else
      if amev_on s && negb (preBlockProcessed s) then ret None else
      ok <- ask (fun c => match c with CNewBlock b => Some b | _ => None end) ;;
      if ok then
        let b := mkBlock (BlockIndex s) (PrevHash s) (Timestamp s) (Nonce s) (TransactionHashes s) (amev_on s) None None in
        modify (fun s => s <| header := Some b |>) ;;; ret (Some b)
      else ret None
  end.

Definition MakePreHeader : M (option preblockobj) :=
  s <- get ;;
  match preheader s with
  | Some b => ret (Some b)
  | None =>
      rs <- RequestSentOrReceived ;;
      if negb rs then ret None else
      ok <- ask (fun c => match c with CNewPreBlock b => Some b | _ => None end) ;;
      if ok then
        let b := mkPreBlock (BlockIndex s) (PrevHash s) (Timestamp s) (Nonce s) (TransactionHashes s) None None in
        modify (fun s => s <| preheader := Some b |>) ;;; ret (Some b)
      else ret None
  end.

Definition ctx_txs (s : nstate) : list tx :=
  map (fun h => match tx_find (Transactions s) h with Some t => t | None => -1 end) (TransactionHashes s).

Definition CreateBlock : M (option blockobj) :=
  s <- get ;;
  if block_set s then ret (header s) else
  hb <- MakeHeader ;;
  match hb with
  | None => ret None
  | Some b =>
      s <- get ;;
      let b' := b <| b_txs := Some (ctx_txs s) |> in
      modify (fun s => s <| header := Some b' |> <| block_set := true |>) ;;; ret (Some b')
  end.

Definition CreatePreBlock : M (option preblockobj) :=
  s <- get ;;
  if preblock_set s then ret (preheader s) else
  hb <- MakePreHeader ;;
  match hb with
  | None => ret None
  | Some b =>
      s <- get ;;
      let b' := b <| pb_txs := Some (ctx_txs s) |> in
      modify (fun s => s <| preheader := Some b' |> <| preblock_set := true |>) ;;; ret (Some b')
  end.

(* ---------- send.go ---------- *)
Definition u16 (x : Z) := x mod 65536.
Definition mk_payload (s : nstate) (b : body) : payload := mkP (BlockIndex s) (ViewNumber s) (u16 (MyIndex s)) b.

Definition broadcast (msg : payload) : M unit :=
  s <- get ;;
  let msg' := msg <| p_idx := u16 (MyIndex s) |> in
  ask_unit (fun c => match c with CBroadcast p => payload_eqb p msg' | _ => false end).

Definition makePrepareRequest (force : bool) : M (option payload) :=
  ok <- Fill force ;;
  if negb ok then ret None else
  s <- get ;;
  ret (Some (mk_payload s (B0 (BPrepareRequest (Timestamp s) (Nonce s) (TransactionHashes s))))).

Definition rtt_addTime (t : Z) : M unit :=
  s <- get ;;
  old <- tget (rtt_times s) (rtt_idx s) ;;
  let t := if old =? 0 then t else Z.min t (wrap64 (2 * old)) in
  let avg := Z.max 0 (wrap64 (rtt_avg s + goquot (wrap64 (t - old)) rttLength)) in
  l <- tset (rtt_times s) (rtt_idx s) t ;;
  modify (fun s => s <| rtt_avg := avg |> <| rtt_times := l |> <| rtt_idx := gorem (rtt_idx s + 1) rttLength |>).

Definition count_view (v : Z) (l : list (option payload)) : Z :=
  count (fun o => match o with Some p => p_view p =? v | None => false end) l.

Definition to_p0 (p : payload) : list payload0 :=
  match p_body p with B0 b => [mkP0 (p_height p) (p_view p) (p_idx p) b] | BRecoveryMessage _ => [] end.
Definition somes {A} (l : list (option A)) : list A := flat_map (fun o => match o with Some x => [x] | None => [] end) l.

Definition makeRecoveryMessage : M payload :=
  s <- get ;;
  let preps := flat_map to_p0 (somes (PreparationPayloads s)) in
  let cvs := flat_map to_p0 (somes (LastChangeViewPayloads s)) in
  ps <- PreCommitSent ;;
  let pcs := if ps then flat_map to_p0 (somes (PreCommitPayloads s)) else [] in
  cs <- CommitSent ;;
  let cms := if cs then flat_map to_p0 (somes (CommitPayloads s)) else [] in
  ret (mk_payload s (BRecoveryMessage (preps ++ cvs ++ pcs ++ cms))).
Definition sendRecoveryMessage : M unit := m <- makeRecoveryMessage ;; broadcast m.

Definition processMissingTx : M unit :=
  s <- get ;;
  forM (TransactionHashes s) (fun h =>
    s <- get ;;
    match tx_find (Transactions s) h with
    | Some _ => ret tt
    | None =>
        r <- ask (fun c => match c with CGetTx h' r => if hash_eqb h' h then Some r else None | _ => None end) ;;
        match r with
        | None => modify (fun s => s <| MissingTransactions := MissingTransactions s ++ [h] |>)
        | Some t => modify (fun s => s <| Transactions := tx_put (Transactions s) h t |>)
        end
    end) ;;;
  s <- get ;;
  if negb (zlen (MissingTransactions s) =? 0) then
    ask_unit (fun c => match c with CRequestTx hs => list_eqb hash_eqb hs (MissingTransactions s) | _ => false end)
  else ret tt.

Definition sendRecoveryRequest : M unit :=
  rs <- RequestSentOrReceived ;;
  s <- get ;;
  (if rs && negb (hasAllTransactions s) then processMissingTx else ret tt) ;;;
  t <- ask_now ;;
  s <- get ;;
  broadcast (mk_payload s (B0 (BRecoveryRequest (u64 t)))).

Definition makeChangeView (ts reason : Z) : M payload :=
  s <- get ;;
  let msg := mk_payload s (B0 (BChangeView (u8 (ViewNumber s + 1)) reason ts)) in
  l <- tset (ChangeViewPayloads s) (MyIndex s) (Some msg) ;;
  modify (fun s => s <| ChangeViewPayloads := l |>) ;;; ret msg.

Definition makePrepareResponse : M payload :=
  s <- get ;;
  req <- tget (PreparationPayloads s) (PrimaryIndex s) ;;
  match req with
  | None => panic
  | Some r =>
      let msg := mk_payload s (B0 (BPrepareResponse (payload_hash r))) in
      l <- tset (PreparationPayloads s) (MyIndex s) (Some msg) ;;
      modify (fun s => s <| PreparationPayloads := l |>) ;;; ret msg
  end.
Definition sendPrepareResponse : M unit := m <- makePrepareResponse ;; StopTxFlow ;;; broadcast m.

Definition makePreCommit : M (option payload) :=
  s <- get ;;
  own <- tget (PreCommitPayloads s) (MyIndex s) ;;
  match own with
  | Some m => ret (Some m)
  | None =>
      pb <- CreatePreBlock ;;
      match pb with
      | None => ret None
      | Some b =>
          ask_unit (fun c => match c with CSetData h => hash_eqb h (preblock_hash b) | _ => false end) ;;;
          s <- get ;;
          let d := mkSig (MyKey s) (preblock_hash b) in
          modify (fun s => s <| preheader := Some (b <| pb_data := Some d |>) |>) ;;;
          ret (Some (mk_payload s (B0 (BPreCommit d))))
      end
  end.

Definition makeCommit : M (option payload) :=
  s <- get ;;
  own <- tget (CommitPayloads s) (MyIndex s) ;;
  match own with
  | Some m => ret (Some m)
  | None =>
      hb <- MakeHeader ;;
      match hb with
      | None => ret None
      | Some b =>
          ask_unit (fun c => match c with CSign h => hash_eqb h (block_hash b) | _ => false end) ;;;
          s <- get ;;
          let sg := mkSig (MyKey s) (block_hash b) in
          modify (fun s => s <| header := Some (b <| b_sig := Some sg |>) |>) ;;;
          ret (Some (mk_payload s (B0 (BCommit sg))))
      end
  end.

Definition sendPreCommit : M unit :=
  m <- makePreCommit ;;
  match m with
  | None => ret tt
  | Some msg =>
      s <- get ;; l <- tset (PreCommitPayloads s) (MyIndex s) (Some msg) ;;
      modify (fun s => s <| PreCommitPayloads := l |>) ;;; broadcast msg
  end.
Definition sendCommit : M unit :=
  m <- makeCommit ;;
  match m with
  | None => ret tt
  | Some msg =>
      s <- get ;; l <- tset (CommitPayloads s) (MyIndex s) (Some msg) ;;
      modify (fun s => s <| CommitPayloads := l |>) ;;; broadcast msg
  end.

(* ---------- verification of stored (pre)commits ---------- *)
Fixpoint filter_tbl (i : nat) (keep : nat -> payload -> bool) (l : list (option payload)) : list (option payload) :=
  match l with
  | [] => []
  | o :: t => (match o with Some p => if keep i p then Some p else None | None => None end) :: filter_tbl (S i) keep t
  end.

(* d.Validators[m.ValidatorIndex()] : panics when out of range *)
Definition verifyCommitPayloadsAgainstHeader : M unit :=
  s <- get ;;
  forM (seq 0 (length (CommitPayloads s))) (fun i =>
    s <- get ;;
    m <- tget (CommitPayloads s) (Z.of_nat i) ;;
    match m with
    | Some p =>
        if p_view p =? ViewNumber s then
          hb <- MakeHeader ;;
          match hb with
          | None => ret tt
          | Some b =>
              s <- get ;;
              pub <- tget (Validators s) (p_idx p) ;;
              if block_verify pub b (commit_sig p) then ret tt else
              l <- tset (CommitPayloads s) (Z.of_nat i) None ;; modify (fun s => s <| CommitPayloads := l |>)
          end
        else ret tt
    | None => ret tt
    end).

Definition verifyPreCommitPayloadsAgainstPreBlock : M unit :=
  s <- get ;;
  if negb (hasAllTransactions s) then ret tt else
  forM (seq 0 (length (PreCommitPayloads s))) (fun i =>
    s <- get ;;
    m <- tget (PreCommitPayloads s) (Z.of_nat i) ;;
    match m with
    | Some p =>
        if p_view p =? ViewNumber s then
          pb <- CreatePreBlock ;;
          match pb with
          | None => ret tt
          | Some b =>
              s <- get ;;
              pub <- tget (Validators s) (p_idx p) ;;
              if preblock_verify pub b (precommit_data p) then ret tt else
              l <- tset (PreCommitPayloads s) (Z.of_nat i) None ;; modify (fun s => s <| PreCommitPayloads := l |>)
          end
        else ret tt
    | None => ret tt
    end).

(* ---------- check.go (no view change inside) ---------- *)
Definition checkCommit : M unit :=
  s <- get ;;
  if negb (hasAllTransactions s) then ret tt else
  let cnt := count_view (ViewNumber s) (CommitPayloads s) in
  if cnt <? Mq s then ret tt else
  b <- CreateBlock ;;
  match b with
  | None => ret tt                                  (* no block can be constructed: return *)
  | Some blk =>
      err <- ask (fun c => match c with CProcessBlock h e => if hash_eqb h (block_hash blk) then Some e else None | _ => None end) ;;
      s <- get ;;
      if err then (if amev_on s then ret tt else ask_unit (fun c => match c with CFatal => true | _ => false end) ;;; fatal)
      else modify (fun s => s <| blockProcessed := true |>)
  end.


Definition checkPreCommit : M unit :=
  s <- get ;;
  if negb (hasAllTransactions s) then ret tt else
  let cnt := count_view (ViewNumber s) (PreCommitPayloads s) in
  if cnt <? Mq s then ret tt else
  pb <- CreatePreBlock ;;
  match pb with
  | None => ret tt                                  (* no pre-block can be constructed: return *)
  | Some b =>
  s <- get ;;
  cont <- (if negb (preBlockProcessed s) then
             err <- ask (fun c => match c with CProcessPreBlock h e => if hash_eqb h (preblock_hash b) then Some e else None | _ => None end) ;;
             if err then ret false else modify (fun s => s <| preBlockProcessed := true |>) ;;; ret true
           else ret true) ;;
  if negb cont then ret tt else
  ps <- PreCommitSent ;;
  if ps then
    verifyCommitPayloadsAgainstHeader ;;;
    sendCommit ;;;
    s <- get ;; changeTimer (timePerBlock s) ;;;
    checkCommit
  else
    _ <- WatchOnly ;; ret tt
  end.

Definition checkPrepare : M unit :=
  s <- get ;;
  (if negb (lastBlockIndex s =? BlockIndex s) || negb (lastBlockView s =? ViewNumber s) then
     t <- ask_now ;;
     modify (fun s => s <| lastBlockTime := Some t |> <| lastBlockIndex := BlockIndex s |> <| lastBlockView := ViewNumber s |>)
   else ret tt) ;;;
  s <- get ;;
  if negb (hasAllTransactions s) then ret tt else
  let cnt := count_view (ViewNumber s) (PreparationPayloads s) in
  let hasRequest := existsb (fun o => match o with Some p => mtype_eqb (p_type p) PrepareRequestT | None => false end) (PreparationPayloads s) in
  if hasRequest && (cnt >=? Mq s) then
    if amev_on s then
      sendPreCommit ;;; s <- get ;; changeTimer (timePerBlock s) ;;; checkPreCommit
    else
      sendCommit ;;; s <- get ;; changeTimer (timePerBlock s) ;;; checkCommit
  else ret tt.

Definition extendTimer (cnt : Z) : M unit :=
  cs <- CommitSent ;;
  if cs then ret tt else
  s <- get ;;
  ps <- (if amev_on s then PreCommitSent else ret false) ;;
  if ps then ret tt else
  vc <- ViewChanging ;;
  if vc then ret tt else
  s <- get ;;
  if Mq s =? 0 then panic else                     (* integer division by d.M() *)
  let d := goquot (wrap64 (cnt * timePerBlock s)) (Mq s) in
  ask_unit (fun c => match c with CTimerExtend x => x =? d | _ => false end).

Definition updateExistingPayloads (msg : payload) : M unit :=
  modify (fun s => s <| PreparationPayloads :=
     map (fun o => match o with
                   | Some m => if mtype_eqb (p_type m) PrepareResponseT && negb (hash_eqb (resp_prephash m) (payload_hash msg))
                               then None else Some m
                   | None => None end) (PreparationPayloads s) |>) ;;;
  s <- get ;;
  if amev_on s then verifyPreCommitPayloadsAgainstPreBlock else verifyCommitPayloadsAgainstHeader.

Definition sendPrepareRequest (force : bool) : M unit :=
  m <- makePrepareRequest force ;;
  m <- (match m with
        | Some x => ret (Some x)
        | None => subscribeForTransactions ;;; makePrepareRequest force
        end) ;;
  match m with
  | None =>
      s <- get ;; changeTimer (wrap64 (maxTimePerBlock s - timePerBlock s))
  | Some msg =>
      unsubscribeFromTransactions ;;;
      s <- get ;;
      l <- tset (PreparationPayloads s) (MyIndex s) (Some msg) ;;
      modify (fun s => s <| PreparationPayloads := l |>) ;;;
      broadcast msg ;;;
      updateExistingPayloads msg ;;;
      t <- ask_now ;;
      modify (fun s => s <| prepareSentTime := Some t |>) ;;;
      s <- get ;;
      let delay := shl64 (timePerBlock s) (u8 (ViewNumber s + 1)) in
      let delay := if ViewNumber s =? 0 then wrap64 (delay - timePerBlock s) else delay in
      changeTimer delay ;;;
      checkPrepare
  end.

(* ======== functions that can reach initializeConsensus: open recursion ======== *)
Section Rec.
Variable initializeConsensus : Z -> Z -> M unit.

Definition checkChangeView (view : Z) : M unit :=
  s <- get ;;
  if ViewNumber s >=? view then ret tt else
  let cnt := count (fun o => match o with Some p => cv_newview p >=? view | None => false end) (ChangeViewPayloads s) in
  if cnt <? Mq s then ret tt else
  wo <- WatchOnly ;;
  (if wo then ret tt else
     s <- get ;;
     own <- tget (ChangeViewPayloads s) (MyIndex s) ;;
     match own with
     | Some m => if cv_newview m <? view then
                   t <- ask_now ;; msg <- makeChangeView (u64 t) CVChangeAgreement ;; broadcast msg
                 else ret tt
     | None => ret tt
     end) ;;;
  s <- get ;;
  initializeConsensus view (lastBlockTimestamp s).

Definition sendChangeView (reason : Z) : M unit :=
  wo <- WatchOnly ;;
  if wo then ret tt else
  s <- get ;;
  let newView := u8 (ViewNumber s + 1) in
  changeTimer (shl64 (timePerBlock s) (u8 (newView + 1))) ;;;
  let nc := CountCommitted s in let nf := CountFailed s in
  if (reason =? CVTimeout) && (nc + nf >? F s) then sendRecoveryRequest else
  let reason := if negb (hasAllTransactions s) && (reason =? CVTimeout) then CVTxNotFound else reason in
  t <- ask_now ;;
  msg <- makeChangeView (u64 t) reason ;;
  StopTxFlow ;;;
  broadcast msg ;;;
  checkChangeView newView.

Definition createAndCheckBlock : M bool :=
  s <- get ;;
  ok <- (if amev_on s then
           b <- CreatePreBlock ;;
           ask (fun c => match c with
                         | CVerifyPreBlock h isnil r =>
                             match b with Some pb => if negb isnil && hash_eqb h (preblock_hash pb) then Some r else None
                                        | None => if isnil then Some r else None end
                         | _ => None end)
         else
           b <- CreateBlock ;;
           ask (fun c => match c with
                         | CVerifyBlock h isnil r =>
                             match b with Some bb => if negb isnil && hash_eqb h (block_hash bb) then Some r else None
                                        | None => if isnil then Some r else None end
                         | _ => None end)) ;;
  if ok then ret true else sendChangeView CVTxInvalid ;;; ret false.

Definition addTransaction (t : tx) : M unit :=
  modify (fun s => s <| Transactions := tx_put (Transactions s) (tx_hash t) t |>) ;;;
  s <- get ;;
  if negb (hasAllTransactions s) then ret tt else
  if IsPrimary s then ret tt else
  wo <- WatchOnly ;;
  if wo then ret tt else
  ok <- createAndCheckBlock ;;
  if negb ok then ret tt else
  verifyPreCommitPayloadsAgainstPreBlock ;;;
  extendTimer 2 ;;;
  sendPrepareResponse ;;;
  checkPrepare.

Definition onPrepareRequest (msg : payload) : M unit :=
  rs <- RequestSentOrReceived ;;
  if rs then _ <- ViewChanging ;; ret tt else       (* arguments of the "ignoring PrepareRequest" log line *)
  s <- get ;;
  if negb (ViewNumber s =? p_view msg) then ret tt else
  pi <- GetPrimaryIndex s (ViewNumber s) ;;
  if negb (p_idx msg =? pi) then ret tt else
  ok <- ask (fun c => match c with CVerifyPrepareRequest p r => if payload_eqb p msg then Some r else None | _ => None end) ;;
  if negb ok then sendChangeView CVBlockRejectedByPolicy else
  extendTimer 2 ;;;
  match p_body msg with
  | B0 (BPrepareRequest ts nonce hs) =>
      modify (fun s => s <| Timestamp := ts |> <| Nonce := nonce |> <| TransactionHashes := hs |>) ;;;
      processMissingTx ;;;
      updateExistingPayloads msg ;;;
      s <- get ;;
      l <- tset (PreparationPayloads s) (p_idx msg) (Some msg) ;;
      modify (fun s => s <| PreparationPayloads := l |>) ;;;
      s <- get ;;
      if negb (hasAllTransactions s) then ret tt else
      ok <- createAndCheckBlock ;;
      if negb ok then ret tt else
      wo <- WatchOnly ;;
      if wo then ret tt else
      s <- get ;;
      (if IsPrimary s then ret tt else sendPrepareResponse) ;;;    (* the primary's own request, recovered: no response *)
      checkPrepare
  | _ => panic
  end.

Definition onPrepareResponse (msg : payload) : M unit :=
  s <- get ;;
  if negb (ViewNumber s =? p_view msg) then ret tt else
  pi <- GetPrimaryIndex s (ViewNumber s) ;;
  if p_idx msg =? pi then ret tt else
  m <- tget (PreparationPayloads s) (p_idx msg) ;;
  skip <- (if isSome m then ret true else
             vc <- ViewChanging ;; s <- get ;; ret (vc && negb (MoreThanFNodesCommittedOrLost s))) ;;
  if skip then _ <- ViewChanging ;; ret tt else     (* arguments of the "ignoring PrepareResponse" log line *)
  ok <- ask (fun c => match c with CVerifyPrepareResponse p r => if payload_eqb p msg then Some r else None | _ => None end) ;;
  if negb ok then ret tt else
  s <- get ;;
  l <- tset (PreparationPayloads s) (p_idx msg) (Some msg) ;;
  modify (fun s => s <| PreparationPayloads := l |>) ;;;
  s <- get ;;
  req <- tget (PreparationPayloads s) pi ;;
  mismatch <- (match req with
               | Some r =>
                   match p_body r with
                   | B0 (BPrepareRequest _ _ _) =>
                       if negb (hash_eqb (resp_prephash msg) (payload_hash r)) then
                         l <- tset (PreparationPayloads s) (p_idx msg) None ;;
                         modify (fun s => s <| PreparationPayloads := l |>) ;;; ret true
                       else ret false
                   | _ => panic               (* m.GetPrepareRequest(): type assertion on a payload that is not a request *)
                   end
               | None => ret false
               end) ;;
  if mismatch then ret tt else
  s <- get ;;
  (if IsPrimary s && isSome (prepareSentTime s) && negb (recovering s) then
     t <- ask_now ;;
     match prepareSentTime s with Some t0 => rtt_addTime (sat64 (t - t0)) | None => ret tt end
   else ret tt) ;;;
  extendTimer 2 ;;;
  wo <- WatchOnly ;;
  if wo then ret tt else
  cs <- CommitSent ;;
  if cs then ret tt else
  s <- get ;;
  ps <- (if amev_on s then PreCommitSent else ret false) ;;
  if ps then ret tt else
  rs <- RequestSentOrReceived ;;
  if rs then checkPrepare else ret tt.

Definition onRecoveryRequest (msg : payload) : M unit :=
  wo <- WatchOnly ;;
  if wo then ret tt else
  cs <- CommitSent ;;
  s <- get ;;
  ps <- (if cs then ret true else if amev_on s then PreCommitSent else ret false) ;;
  if negb cs && negb ps then
    if N s =? 0 then panic else
    if gorem (MyIndex s - p_idx msg + N s - 1) (N s) >? F s then ret tt else sendRecoveryMessage
  else sendRecoveryMessage.

Definition onChangeView (msg : payload) : M unit :=
  s <- get ;;
  let nv := cv_newview msg in
  if nv <=? ViewNumber s then onRecoveryRequest msg else
  cs <- CommitSent ;;
  ps <- (if cs then ret true else PreCommitSent) ;;
  if cs || ps then sendRecoveryMessage else
  s <- get ;;
  m <- tget (ChangeViewPayloads s) (p_idx msg) ;;
  if match m with Some old => nv <? cv_newview old | None => false end then ret tt else
  l <- tset (ChangeViewPayloads s) (p_idx msg) (Some msg) ;;
  modify (fun s => s <| ChangeViewPayloads := l |>) ;;;
  checkChangeView nv.

Definition onPreCommit (msg : payload) : M unit :=
  s <- get ;;
  existing <- tget (PreCommitPayloads s) (p_idx msg) ;;
  if isSome existing then ret tt else
  l <- tset (PreCommitPayloads s) (p_idx msg) (Some msg) ;;
  modify (fun s => s <| PreCommitPayloads := l |>) ;;;
  if negb (ViewNumber s =? p_view msg) then ret tt else
  ok <- ask (fun c => match c with CVerifyPreCommit p r => if payload_eqb p msg then Some r else None | _ => None end) ;;
  if negb ok then
    s <- get ;; l <- tset (PreCommitPayloads s) (p_idx msg) None ;; modify (fun s => s <| PreCommitPayloads := l |>)
  else
  extendTimer 4 ;;;
  s <- get ;;
  if negb (hasAllTransactions s) then ret tt else
  pb <- CreatePreBlock ;;
  match pb with
  | None => ret tt
  | Some b =>
      s <- get ;;
      pub <- tget (Validators s) (p_idx msg) ;;
      if preblock_verify pub b (precommit_data msg) then checkPreCommit else
      l <- tset (PreCommitPayloads s) (p_idx msg) None ;; modify (fun s => s <| PreCommitPayloads := l |>)
  end.

Definition onCommit (msg : payload) : M unit :=
  s <- get ;;
  existing <- tget (CommitPayloads s) (p_idx msg) ;;
  if isSome existing then ret tt else
  l <- tset (CommitPayloads s) (p_idx msg) (Some msg) ;;
  modify (fun s => s <| CommitPayloads := l |>) ;;;
  if negb (ViewNumber s =? p_view msg) then ret tt else
  ok <- ask (fun c => match c with CVerifyCommit p r => if payload_eqb p msg then Some r else None | _ => None end) ;;
  if negb ok then
    s <- get ;; l <- tset (CommitPayloads s) (p_idx msg) None ;; modify (fun s => s <| CommitPayloads := l |>)
  else
  extendTimer 4 ;;;
  hb <- MakeHeader ;;
  match hb with
  | None => ret tt
  | Some b =>
      s <- get ;;
      pub <- tget (Validators s) (p_idx msg) ;;
      if block_verify pub b (commit_sig msg) then checkCommit else
      l <- tset (CommitPayloads s) (p_idx msg) None ;; modify (fun s => s <| CommitPayloads := l |>)
  end.

(* ---------- helpers.go: cache ---------- *)
Fixpoint assoc_put {A} (l : list (Z * A)) (k : Z) (v : A) : list (Z * A) :=
  match l with [] => [(k, v)] | (k', v') :: r => if k' =? k then (k, v) :: r else (k', v') :: assoc_put r k v end.
Fixpoint assoc_get {A} (l : list (Z * A)) (k : Z) : option A :=
  match l with [] => None | (k', v') :: r => if k' =? k then Some v' else assoc_get r k end.
Definition assoc_del {A} (l : list (Z * A)) (k : Z) : list (Z * A) := filter (fun kv => negb (fst kv =? k)) l.

Definition cache_addMessage (m : payload) : M unit :=
  s <- get ;;
  if negb (cache_ready s) then panic else       (* assignment to entry in nil map *)
  let ib := match assoc_get (cache s) (p_height m) with Some x => x | None => empty_inbox end in
  let ib' := match p_type m with
             | PrepareRequestT | PrepareResponseT => ib <| ib_prepare := assoc_put (ib_prepare ib) (p_idx m) m |>
             | ChangeViewT => ib <| ib_chviews := assoc_put (ib_chviews ib) (p_idx m) m |>
             | PreCommitT => ib <| ib_precommit := assoc_put (ib_precommit ib) (p_idx m) m |>
             | CommitT => ib <| ib_commit := assoc_put (ib_commit ib) (p_idx m) m |>
             | _ => ib end in
  modify (fun s => s <| cache := assoc_put (cache s) (p_height m) ib' |>).

(* ---------- OnReceive ---------- *)
Definition receive_common (dispatch : payload -> M unit) (msg : payload) : M unit :=
  s <- get ;;
  if p_idx msg >=? N s then ret tt else
  if p_height msg <? BlockIndex s then ret tt else
  if (p_height msg >? BlockIndex s) ||
     ((p_view msg >? ViewNumber s) && negb (mtype_eqb (p_type msg) ChangeViewT) && negb (mtype_eqb (p_type msg) RecoveryMessageT))
  then cache_addMessage msg else
  hv <- tget (LastSeenMessage s) (p_idx msg) ;;
  (if match hv with None => true | Some (h, v) => (h <? p_height msg) || (v <? p_view msg) end then
     l <- tset (LastSeenMessage s) (p_idx msg) (Some (p_height msg, p_view msg)) ;;
     modify (fun s => s <| LastSeenMessage := l |>)
   else ret tt) ;;;
  s <- get ;;
  if blockProcessed s && negb (mtype_eqb (p_type msg) RecoveryRequestT) then ret tt else
  dispatch msg.

Definition dispatch0 (msg : payload) : M unit :=
  match p_type msg with
  | ChangeViewT => onChangeView msg
  | PrepareRequestT => onPrepareRequest msg
  | PrepareResponseT => onPrepareResponse msg
  | CommitT => onCommit msg
  | PreCommitT => s <- get ;; if amev_on s then onPreCommit msg else ret tt
  | RecoveryRequestT => onRecoveryRequest msg
  | RecoveryMessageT => ret tt
  end.

Definition ask_recv (msg : payload) : M unit :=
  ask_unit (fun c => match c with
                     | CRecv t from h v =>
                         (* h = -1: the library's "too big validator index" log line, which names the sender only *)
                         (from =? p_idx msg) && ((h =? -1) || (mtype_eqb t (p_type msg) && (h =? p_height msg) && (v =? p_view msg)))
                     | _ => false end).
(* a nested d.OnReceive(m) call of a non-recovery payload *)
Definition nestedReceive0 (msg : payload) : M unit := ask_recv msg ;;; receive_common dispatch0 msg.

Definition onRecoveryMessage (msg : payload) : M unit :=
  match p_body msg with
  | B0 _ => panic
  | BRecoveryMessage inner =>
      let of_type t := map lift0 (filter (fun q => mtype_eqb (body0_type (p0_body q)) t) inner) in
      modify (fun s => s <| recovering := true |>) ;;;
      s <- get ;;
      stop <- (if p_view msg >? ViewNumber s then
                 cs <- CommitSent ;;
                 ps <- (if cs then ret true else PreCommitSent) ;;
                 if cs || ps then ret true else
                 forM (of_type ChangeViewT) nestedReceive0 ;;; ret false
               else ret false) ;;
      (if stop then ret tt else
         s <- get ;;
         go <- (if p_view msg =? ViewNumber s then
                  vc <- ViewChanging ;;
                  s <- get ;;
                  if negb vc || MoreThanFNodesCommittedOrLost s then
                    cs <- CommitSent ;;
                    if cs then ret false else
                    ps <- (if amev_on s then PreCommitSent else ret false) ;; ret (negb ps)
                  else ret false
                else ret false) ;;
         (if go then
            rs <- RequestSentOrReceived ;;
            (if negb rs then
               match of_type PrepareRequestT with
               | r :: _ => nestedReceive0 r
               | [] => ret tt
               end
             else ret tt) ;;;
            forM (of_type PrepareResponseT) nestedReceive0
          else ret tt) ;;;
         s <- get ;;
         if p_view msg <=? ViewNumber s then
           forM (of_type PreCommitT) nestedReceive0 ;;;
           forM (of_type CommitT) nestedReceive0
         else ret tt) ;;;
      modify (fun s => s <| recovering := false |>)
  end.

Definition dispatch (msg : payload) : M unit :=
  match p_type msg with RecoveryMessageT => onRecoveryMessage msg | _ => dispatch0 msg end.
Definition OnReceive (msg : payload) : M unit := receive_common dispatch msg.
Definition nestedReceive (msg : payload) : M unit := ask_recv msg ;;; OnReceive msg.

(* replay of one cached map: the next CRecv element selects which remaining key is processed *)
Fixpoint replay_map (n : nat) (entries : list (Z * payload)) : M unit :=
  match n, entries with
  | _, [] => ret tt
  | O, _ => ret tt
  | S n', _ =>
      k <- ask (fun c => match c with
                         | CRecv t from h v =>
                             match assoc_get entries from with
                             | Some m => if (h =? -1) || (mtype_eqb t (p_type m) && (h =? p_height m) && (v =? p_view m)) then Some from else None
                             | None => None end
                         | _ => None end) ;;
      match assoc_get entries k with
      | Some m => OnReceive m ;;; replay_map n' (assoc_del entries k)
      | None => ret tt
      end
  end.

Definition initializeConsensus_body (view ts : Z) : M unit :=
  reset view ts ;;;
  s <- get ;;
  (if IsPrimary s then ret tt else _ <- WatchOnly ;; ret tt) ;;;      (* role string for the log *)
  StopTxFlow ;;;
  modify (fun s => s <| cache := filter (fun kv => negb (fst kv <? BlockIndex s)) (cache s) |>) ;;;   (* getHeight drops passed heights *)
  s <- get ;;
  (match assoc_get (cache s) (BlockIndex s) with
   | None => ret tt
   | Some ib =>
       modify (fun s => s <| cache := assoc_del (cache s) (BlockIndex s) |>) ;;;
       replay_map (length (ib_prepare ib)) (ib_prepare ib) ;;;
       replay_map (length (ib_chviews ib)) (ib_chviews ib) ;;;
       replay_map (length (ib_precommit ib)) (ib_precommit ib) ;;;
       replay_map (length (ib_commit ib)) (ib_commit ib)
   end) ;;;
  wo <- WatchOnly ;;
  if wo then ret tt else
  s <- get ;;
  let timeout := if IsPrimary s && negb (recovering s)
                 then (if view =? 0 then timePerBlock s else 0)
                 else shl64 (timePerBlock s) (u8 (ViewNumber s + 1)) in
  timeout <- (if (u32 (lastBlockIndex s + 1) =? BlockIndex s) && isSome (lastBlockTime s) then
                t <- ask_now ;;
                let diff := match lastBlockTime s with Some t0 => sat64 (t - t0) | None => two63 - 1 end in
                ret (Z.max 0 (wrap64 (wrap64 (timeout - diff) - goquot (rtt_avg s) 2)))
              else ret timeout) ;;
  changeTimer timeout.
End Rec.

Fixpoint initializeConsensus (fuel : nat) (view ts : Z) : M unit :=
  match fuel with
  | O => out_of_fuel
  | S f => initializeConsensus_body (initializeConsensus f) view ts
  end.

(* ---------- API ---------- *)
Definition fuel0 : nat := 258.
Definition init := initializeConsensus fuel0.

Definition Start (ts : Z) : M unit :=
  modify (fun s => s <| cache := [] |> <| cache_ready := true |>) ;;;
  init 0 ts ;;;
  s <- get ;;
  if IsPrimary s then (wo <- WatchOnly ;; if wo then ret tt else sendPrepareRequest true) else ret tt.
Definition Reset (ts : Z) : M unit := init 0 ts.

Definition index_of (h : hash) (l : list hash) : Z :=
  (fix go (i : Z) (l : list hash) := match l with [] => -1 | x :: t => if hash_eqb x h then i else go (i + 1) t end) 0 l.
Definition delete_at {A} (i : Z) (l : list A) : list A := firstn (Z.to_nat i) l ++ skipn (Z.to_nat i + 1) l.

Definition OnTransaction (t : tx) : M unit :=
  s <- get ;;
  if negb (IsBackup s) then ret tt else
  na <- NotAcceptingPayloadsDueToViewChanging ;; if na then ret tt else
  rs <- RequestSentOrReceived ;; if negb rs then ret tt else
  x <- ResponseSent ;; if x then ret tt else
  x <- PreCommitSent ;; if x then ret tt else
  x <- CommitSent ;; if x then ret tt else
  s <- get ;;
  if blockProcessed s || (zlen (MissingTransactions s) =? 0) then ret tt else
  let i := index_of (tx_hash t) (MissingTransactions s) in
  if i <? 0 then ret tt else
  modify (fun s => s <| MissingTransactions := delete_at i (MissingTransactions s) |>) ;;;
  addTransaction init t.

Definition onTimeout (height view : Z) (force : bool) : M unit :=
  wo <- WatchOnly ;;
  s <- get ;;
  if wo || blockProcessed s then ret tt else
  if negb (height =? BlockIndex s) || negb (view =? ViewNumber s) then ret tt else
  rs <- (if IsPrimary s then RequestSentOrReceived else ret false) ;;
  if IsPrimary s && negb rs then
    sendPrepareRequest (negb (ViewNumber s =? 0) || txSubscriptionOn s || force)
  else if (IsPrimary s && rs) || IsBackup s then
    cs <- CommitSent ;;
    ps <- (if cs then ret true else PreCommitSent) ;;
    if cs || ps then
      sendRecoveryMessage ;;; s <- get ;; changeTimer (shl64 (timePerBlock s) 1)
    else
      s <- get ;;
      stop <- (if (ViewNumber s =? 0) && cfg_dyn cfg && IsBackup s then
                 if force then
                   changeTimer (shl64 (timePerBlock s) 1) ;;; unsubscribeFromTransactions ;;; ret true
                 else if negb (txSubscriptionOn s) then
                   txx <- ask (fun c => match c with CGetVerified l => Some l | _ => None end) ;;
                   if zlen txx =? 0 then
                     subscribeForTransactions ;;;
                     s <- get ;;
                     changeTimer (wrap64 (shl64 (maxTimePerBlock s) 1 - shl64 (timePerBlock s) 1)) ;;; ret true
                   else ret false
                 else ret false
               else ret false) ;;
      if stop then ret tt else sendChangeView init CVTimeout
  else ret tt.

Definition OnTimeout (h v : Z) : M unit := onTimeout h v false.
Definition OnNewTransaction : M unit :=
  s <- get ;;
  if negb (txSubscriptionOn s) then ret tt else
  h <- ask (fun c => match c with CTimerHeight x => Some x | _ => None end) ;;
  v <- ask (fun c => match c with CTimerView x => Some x | _ => None end) ;;
  onTimeout h v true.

Inductive event := EStart (ts : Z) | EReset (ts : Z) | EReceive (p : payload) | ETimeout (h v : Z)
                 | ETransaction (t : tx) | ENewTransaction.
Definition run_event (e : event) : M unit :=
  match e with
  | EStart ts => Start ts | EReset ts => Reset ts | EReceive p => OnReceive init p
  | ETimeout h v => OnTimeout h v | ETransaction t => OnTransaction t | ENewTransaction => OnNewTransaction
  end.
Definition step (s : nstate) (e : event) (sc : list call) : res (nstate * list (nstate * call)) :=
  match run_event e (mkM s sc []) with
  | Ok (_, m) => match script m with [] => Ok (st m, trace m) | _ => Mismatch (length (trace m)) end
  | Mismatch p => Mismatch p | Panic => Panic | Fatal => Fatal | OutOfFuel => OutOfFuel
  end.
End Node.

(* the quorum expressions of the model are those of Quorum.v (C06) *)
Lemma model_quorum_defs (s : nstate) (v : Z) :
  F s = Quorum.F (N s) /\ Mq s = Quorum.M (N s) /\
  (N s <> 0 -> forall m, GetPrimaryIndex s v m = Ok (Quorum.primary (BlockIndex s) v (N s), m)).
Proof.
  repeat split. intros Hn m. unfold GetPrimaryIndex, Quorum.primary, gorem.
  destruct (N s =? 0) eqn:E; [apply Z.eqb_eq in E; contradiction|].
  rewrite Z.geb_leb. reflexivity.
Qed.
