(* C11, last clause: no sequence of well-formed API calls, whatever the callbacks return, makes the node model panic.
   [nx] is the exact-state triple that EXCLUDES the Panic outcome (Mismatch = a script the callbacks cannot produce,
   Fatal and OutOfFuel remain accepted).  [Sz] is the sizing invariant that makes every checked table access succeed. *)
From DbftV Require Export Gates.

Definition nx {A} (s0 : nstate) (x : M A) (Q : A -> nstate -> tr_t -> Prop) := hoare (eq s0) x Q.
Lemma nx_hx {A} s0 (x : M A) Q : nx s0 x Q -> hx s0 x Q. Proof. apply hoare_hoarep. Qed.

Lemma n_ret {A} s0 (a : A) (Q : A -> nstate -> tr_t -> Prop) : Q a s0 [] -> nx s0 (ret a) Q.
Proof. intros H m Hm. cbn. exists []. rewrite app_nil_r. subst. auto. Qed.
Lemma n_ret_bind {A B} s0 (a : A) (f : A -> M B) Q : nx s0 (f a) Q -> nx s0 (bind (ret a) f) Q.
Proof. intros H m Hm. apply (H m Hm). Qed.
Lemma n_get {B} s0 (f : nstate -> M B) Q : nx s0 (f s0) Q -> nx s0 (bind get f) Q.
Proof. intros H m Hm. unfold bind, get. subst s0. apply (H m eq_refl). Qed.
Lemma n_get_last s0 (Q : nstate -> nstate -> tr_t -> Prop) : Q s0 s0 [] -> nx s0 get Q.
Proof. intros H m Hm. cbn. exists []. rewrite app_nil_r. subst. auto. Qed.
Lemma n_modify {B} s0 g (f : unit -> M B) Q : nx (g s0) (f tt) Q -> nx s0 (bind (modify g) f) Q.
Proof. intros H m Hm. subst s0. unfold bind, modify; cbn. apply (H (mkM (g (st m)) (script m) (trace m)) eq_refl). Qed.
Lemma n_modify_last s0 g (Q : unit -> nstate -> tr_t -> Prop) : Q tt (g s0) [] -> nx s0 (modify g) Q.
Proof. intros H m Hm. cbn. exists []. rewrite app_nil_r. subst. auto. Qed.
Lemma n_ask {A B} s0 (sel : call -> option A) (f : A -> M B) Q :
  (forall a c, sel c = Some a -> nx s0 (f a) (fun b s n => Q b s ((s0, c) :: n))) -> nx s0 (bind (ask sel) f) Q.
Proof.
  intros H m Hm. unfold bind, ask. destruct (script m) as [|c rest] eqn:E; auto. destruct (sel c) eqn:Es; auto.
  specialize (H a c Es (mkM (st m) rest (trace m ++ [(st m, c)])) Hm). cbn in H.
  destruct (f a _) as [[b m']| | | |]; auto. destruct H as (n & T & S & Hq). exists ((s0, c) :: n). cbn in *.
  rewrite T, S, <- app_assoc. subst s0. auto.
Qed.
Lemma n_ask_last {A} s0 (sel : call -> option A) (Q : A -> nstate -> tr_t -> Prop) :
  (forall a c, sel c = Some a -> Q a s0 [(s0, c)]) -> nx s0 (ask sel) Q.
Proof.
  intros H m Hm. unfold ask. destruct (script m) as [|c rest] eqn:E; auto. destruct (sel c) eqn:Es; auto.
  cbn. exists [(s0, c)]. subst s0. repeat split; auto.
Qed.
Lemma n_assoc {A B C} s0 (x : M A) (g : A -> M B) (f : B -> M C) Q :
  nx s0 (bind x (fun a => bind (g a) f)) Q -> nx s0 (bind (bind x g) f) Q.
Proof. intros H m Hm. specialize (H m Hm). unfold bind in *. destruct (x m) as [[a m']| | | |]; auto. Qed.
Lemma n_call {A B} s0 (x : M A) (Qx : A -> nstate -> tr_t -> Prop) (f : A -> M B) Q :
  nx s0 x Qx -> (forall a s1 n1, Qx a s1 n1 -> nx s1 (f a) (fun b s n2 => Q b s (n1 ++ n2))) -> nx s0 (bind x f) Q.
Proof.
  intros Hx Hf m Hm. unfold bind. specialize (Hx m Hm). destruct (x m) as [[a m']| | | |]; auto.
  destruct Hx as (n1 & T1 & S1 & Hq). specialize (Hf a (st m') n1 Hq m' eq_refl).
  destruct (f a m') as [[b m'']| | | |]; auto. destruct Hf as (n2 & T2 & S2 & Hr).
  exists (n1 ++ n2). rewrite T2, T1, S1, S2, map_app, !app_assoc. auto.
Qed.
Lemma n_conseq {A} s0 (x : M A) (Q Q' : A -> nstate -> tr_t -> Prop) :
  nx s0 x Q' -> (forall a s n, Q' a s n -> Q a s n) -> nx s0 x Q.
Proof. intros H HQ m Hm. specialize (H m Hm). destruct (x m) as [[a m']| | | |]; auto. destruct H as (n & ? & ? & ?). exists n; auto. Qed.
Lemma n_bind_unit_r {A} s0 (x : M A) Q : nx s0 (bind x ret) Q -> nx s0 x Q.
Proof. intros H m Hm. specialize (H m Hm). unfold bind, ret in H. destruct (x m) as [[a m']| | | |]; auto. Qed.
Lemma n_fatal {A} s0 (Q : A -> nstate -> tr_t -> Prop) : nx s0 fatal Q. Proof. intros m Hm. exact I. Qed.
Lemma n_fatal_bind {A B} s0 (f : A -> M B) Q : nx s0 (bind fatal f) Q. Proof. intros m Hm. exact I. Qed.
Lemma n_oof {A} s0 (Q : A -> nstate -> tr_t -> Prop) : nx s0 out_of_fuel Q. Proof. intros m Hm. exact I. Qed.
Lemma n_oof_bind {A B} s0 (f : A -> M B) Q : nx s0 (bind out_of_fuel f) Q. Proof. intros m Hm. exact I. Qed.

(* combining with a Panic-accepting triple (frames and gates proved in Gates.v are reused this way) *)
Lemma n_conj {A} s0 (x : M A) (Q1 Q2 : A -> nstate -> tr_t -> Prop) :
  nx s0 x Q1 -> hx s0 x Q2 -> nx s0 x (fun a s n => Q1 a s n /\ Q2 a s n).
Proof.
  intros H1 H2 m Hm. specialize (H1 m Hm). specialize (H2 m Hm). destruct (x m) as [[a m']| | | |]; auto.
  destruct H1 as (n1 & T1 & S1 & Q1'). destruct H2 as (n2 & T2 & S2 & Q2').
  assert (n1 = n2) by (rewrite T1 in T2; apply app_inv_head in T2; exact T2). subst n2. exists n1. auto.
Qed.

(* checked table access: the index must be shown to be in range *)
Lemma nth_chk_some {T} (l : list T) i : (i < length l)%nat -> exists x, nth_chk l i = Some x.
Proof. revert i; induction l as [|y t IH]; intros i Hi; cbn in Hi; [lia|]. destruct i; cbn; [eauto|]. apply IH. lia. Qed.
Lemma set_chk_some {T} (l : list T) i v : (i < length l)%nat -> exists l', set_chk l i v = Some l'.
Proof.
  revert i; induction l as [|y t IH]; intros i Hi; cbn in Hi; [lia|]. destruct i; cbn; [eauto|].
  destruct (IH i ltac:(lia)) as [l' ->]. eauto.
Qed.
Lemma n_tget {T B} s0 (l : list T) i (f : T -> M B) Q :
  0 <= i < zlen l -> (forall x, nth_chk l (Z.to_nat i) = Some x -> nx s0 (f x) Q) -> nx s0 (bind (tget l i) f) Q.
Proof.
  intros Hi H m Hm. unfold bind, tget. destruct (i <? 0) eqn:E; [apply Z.ltb_lt in E; lia|].
  destruct (nth_chk_some l (Z.to_nat i)) as [x Hx]; [unfold zlen in Hi; lia|]. rewrite Hx. apply (H x Hx m Hm).
Qed.
Lemma n_tget_last {T} s0 (l : list T) i (Q : T -> nstate -> tr_t -> Prop) :
  0 <= i < zlen l -> (forall x, nth_chk l (Z.to_nat i) = Some x -> Q x s0 []) -> nx s0 (tget l i) Q.
Proof. intros Hi H. apply n_bind_unit_r. apply n_tget; [exact Hi|]. intros x Hx. apply n_ret. auto. Qed.
Lemma n_tset {T B} s0 (l : list T) i v (f : list T -> M B) Q :
  0 <= i < zlen l -> (forall l', set_chk l (Z.to_nat i) v = Some l' -> nx s0 (f l') Q) -> nx s0 (bind (tset l i v) f) Q.
Proof.
  intros Hi H m Hm. unfold bind, tset. destruct (i <? 0) eqn:E; [apply Z.ltb_lt in E; lia|].
  destruct (set_chk_some l (Z.to_nat i) v) as [x Hx]; [unfold zlen in Hi; lia|]. rewrite Hx. apply (H x Hx m Hm).
Qed.
Lemma n_tset_last {T} s0 (l : list T) i v (Q : list T -> nstate -> tr_t -> Prop) :
  0 <= i < zlen l -> (forall l', set_chk l (Z.to_nat i) v = Some l' -> Q l' s0 []) -> nx s0 (tset l i v) Q.
Proof. intros Hi H. apply n_bind_unit_r. apply n_tset; [exact Hi|]. intros x Hx. apply n_ret. auto. Qed.

Lemma n_forM {T} (I : nstate -> tr_t -> Prop) (f : T -> M unit) (l : list T) :
  (forall a s n, In a l -> I s n -> nx s (f a) (fun _ s' n' => I s' (n ++ n'))) ->
  forall s n, I s n -> nx s (forM l f) (fun _ s' n' => I s' (n ++ n')).
Proof.
  induction l as [|a l IH]; intros Hf s n Hi; cbn [forM].
  - apply n_ret. rewrite app_nil_r. exact Hi.
  - eapply n_call; [apply (Hf a s n (or_introl eq_refl) Hi)|]. intros [] s1 n1 H1. cbn beta.
    eapply n_conseq; [apply (IH (fun a' s' n' Hin => Hf a' s' n' (or_intror Hin)) s1 (n ++ n1) H1)|].
    cbn. intros _ s2 n2 H2. rewrite app_assoc. exact H2.
Qed.

(* ---------------- the sizing invariant ---------------- *)
Definition primary_of (s : nstate) (v : Z) : Z := let p := gorem (BlockIndex s - v) (N s) in if p >=? 0 then p else p + N s.
Definition idx_ok (n : Z) (t : list (option payload)) : Prop := tall (fun p => 0 <= p_idx p < n) t.
Definition wfp (p : payload) : Prop :=
  0 <= p_idx p /\ match p_body p with BRecoveryMessage inner => Forall (fun q => 0 <= p0_idx q) inner | B0 _ => True end.
Definition wf_entries (l : list (Z * payload)) : Prop := Forall (fun kv => wfp (snd kv)) l.
Definition wf_inbox (ib : inbox) : Prop :=
  wf_entries (ib_prepare ib) /\ wf_entries (ib_chviews ib) /\ wf_entries (ib_precommit ib) /\ wf_entries (ib_commit ib).
Definition cache_wf (c : list (Z * inbox)) : Prop := Forall (fun kv => wf_inbox (snd kv)) c.

(* what survives from one height to the next without being rebuilt by the initialisation *)
Record Sz0 (s : nstate) : Prop := {
  sz_cr : cache_ready s = true;
  sz_cache : cache_wf (cache s);
  sz_rtt : zlen (rtt_times s) = rttLength;
  sz_ri : 0 <= rtt_idx s < rttLength }.

Record Sz (s : nstate) : Prop := {
  sz_0 : Sz0 s;
  sz_n : 0 < N s;
  sz_prep : zlen (PreparationPayloads s) = N s;
  sz_pc : zlen (PreCommitPayloads s) = N s;
  sz_cm : zlen (CommitPayloads s) = N s;
  sz_cv : zlen (ChangeViewPayloads s) = N s;
  sz_lcv : zlen (LastChangeViewPayloads s) = N s;
  sz_ls : zlen (LastSeenMessage s) = N s;
  sz_my : -1 <= MyIndex s < N s;
  sz_pi : 0 <= PrimaryIndex s < N s;
  sz_pf : PrimaryIndex s = primary_of s (ViewNumber s);
  sz_cmi : idx_ok (N s) (CommitPayloads s);
  sz_pci : idx_ok (N s) (PreCommitPayloads s) }.

Lemma zlen_set {T} (l l' : list T) i v : set_chk l i v = Some l' -> zlen l' = zlen l.
Proof. intros H. unfold zlen. erewrite set_chk_length; eauto. Qed.
Lemma zlen_nonneg {T} (l : list T) : 0 <= zlen l. Proof. unfold zlen. lia. Qed.
Lemma zlen_replicate {T} n (x : T) : 0 <= n -> zlen (replicate n x) = n.
Proof. intros H. unfold zlen, replicate. rewrite repeat_length. lia. Qed.
Lemma zlen_map {S T} (f : S -> T) l : zlen (map f l) = zlen l. Proof. unfold zlen. rewrite map_length. reflexivity. Qed.
Lemma idx_ok_set n t i v l : idx_ok n t -> (forall p, v = Some p -> 0 <= p_idx p < n) -> set_chk t i v = Some l -> idx_ok n l.
Proof. apply tall_set. Qed.
Lemma idx_ok_empty n m : idx_ok n (replicate m None). Proof. apply tall_empty. Qed.

Lemma primary_of_range s v : 0 < N s -> 0 <= primary_of s v < N s.
Proof.
  intros Hn. unfold primary_of, gorem. cbv zeta. pose proof (Z.rem_bound_abs (BlockIndex s - v) (N s) ltac:(lia)) as Hb.
  destruct (Z.rem (BlockIndex s - v) (N s) >=? 0) eqn:E.
  - rewrite Z.geb_leb in E. apply Z.leb_le in E. lia.
  - rewrite Z.geb_leb in E. apply Z.leb_gt in E. lia.
Qed.


(* what no function outside the (re)initialisation changes *)
Definition K (a b : nstate) : Prop :=
  Validators b = Validators a /\ MyIndex b = MyIndex a /\ PrimaryIndex b = PrimaryIndex a /\ BlockIndex b = BlockIndex a /\ ViewNumber b = ViewNumber a.
Lemma K_refl s : K s s. Proof. unfold K; auto. Qed.
Lemma K_trans a b c : K a b -> K b c -> K a c. Proof. unfold K. intros (A1&A2&A3&A4&A5) (B1&B2&B3&B4&B5). repeat split; congruence. Qed.
Lemma K_N a b : K a b -> N b = N a. Proof. intros (H&_). unfold N. rewrite H. reflexivity. Qed.

Section NoPanic.
Variable cfg : config.
Hypothesis inc_nz : cfg_inc cfg <> 0.

(* ---- step tactic for nx; table accesses leave their range obligation as the first goal ---- *)
Ltac ns1 :=
  lazymatch goal with
  | |- nx _ (bind (bind _ _) _) _ => apply n_assoc
  | |- nx _ (bind get _) _ => apply n_get
  | |- nx _ (bind (ask_unit _) _) _ => unfold ask_unit at 1
  | |- nx _ (bind ask_now _) _ => unfold ask_now at 1
  | |- nx _ (ask_unit _) _ => unfold ask_unit at 1
  | |- nx _ ask_now _ => unfold ask_now at 1
  | |- nx _ (bind (modify _) _) _ => apply n_modify
  | |- nx _ (bind (ask _) _) _ => apply n_ask; let a := fresh "a" in let c := fresh "c" in let Hc := fresh "Hc" in intros a c Hc
  | |- nx _ (bind (ret _) _) _ => apply n_ret_bind
  | |- nx _ (bind fatal _) _ => apply n_fatal_bind
  | |- nx _ (bind out_of_fuel _) _ => apply n_oof_bind
  | |- nx _ (bind (if ?b then _ else _) _) _ => let E := fresh "E" in destruct b eqn:E
  | |- nx _ (if ?b then _ else _) _ => let E := fresh "E" in destruct b eqn:E
  | |- nx _ (bind (match ?o with Some _ => _ | None => _ end) _) _ => let E := fresh "E" in destruct o eqn:E
  | |- nx _ (match ?o with Some _ => _ | None => _ end) _ => let E := fresh "E" in destruct o eqn:E
  | |- nx _ (modify _) _ => apply n_modify_last
  | |- nx _ (ask _) _ => apply n_ask_last; let a := fresh "a" in let c := fresh "c" in let Hc := fresh "Hc" in intros a c Hc
  | |- nx _ (ret _) _ => apply n_ret
  | |- nx _ fatal _ => apply n_fatal
  | |- nx _ out_of_fuel _ => apply n_oof
  | |- nx _ get _ => apply n_get_last
  end.
Ltac ns := repeat ns1.
Ltac ntget := apply n_tget; [|let x := fresh "x" in let Hx := fresh "Hx" in intros x Hx].
Ltac ntset := apply n_tset; [|let l := fresh "l" in let Hl := fresh "Hl" in intros l Hl].

(* results: state unchanged *)
Definition Same {A} (s0 : nstate) (P : A -> Prop) : A -> nstate -> tr_t -> Prop := fun a s _ => s = s0 /\ P a.

Lemma n_WatchOnly s0 : nx s0 WatchOnly (Same s0 (fun r => r = false -> 0 <= MyIndex s0)).
Proof.
  unfold WatchOnly. apply n_get. destruct (MyIndex s0 <? 0) eqn:E.
  - apply n_ret. split; [reflexivity|discriminate].
  - unfold ask_watchonly. apply n_ask_last. intros a c Hc. split; [reflexivity|]. intros _. apply Z.ltb_ge in E. exact E.
Qed.
Lemma n_RSOR s0 : Sz s0 -> nx s0 RequestSentOrReceived
  (Same s0 (fun r => r = true -> exists q, nth_chk (PreparationPayloads s0) (Z.to_nat (PrimaryIndex s0)) = Some (Some q))).
Proof.
  intros H. unfold RequestSentOrReceived. apply n_get. ntget. { destruct H. lia. }
  apply n_ret. split; [reflexivity|]. destruct x as [q|]; [eauto|discriminate].
Qed.
Lemma n_own_slot tbl s0 : (-1 <= MyIndex s0 < zlen (tbl s0)) -> nx s0 (own_slot tbl) (Same s0 (fun r => r = true -> 0 <= MyIndex s0)).
Proof.
  intros H. unfold own_slot. eapply n_call; [apply n_WatchOnly|]. intros wo s1 n1 [-> Hw]. destruct wo.
  - apply n_ret. split; [reflexivity|discriminate].
  - specialize (Hw eq_refl). apply n_get. ntget. { lia. } apply n_ret. split; auto.
Qed.
Lemma n_ViewChanging s0 : Sz s0 -> nx s0 ViewChanging (Same s0 (fun _ => True)).
Proof.
  intros H. unfold ViewChanging. eapply n_call; [apply n_WatchOnly|]. intros wo s1 n1 [-> Hw]. destruct wo.
  - apply n_ret. split; auto.
  - specialize (Hw eq_refl). apply n_get. ntget. { destruct H. lia. } apply n_ret. split; auto.
Qed.

(* Sz after a record update that leaves the sized components alone *)
Ltac sz_keep H :=
  let H0 := fresh "H0" in
  destruct H as [H0 ? ? ? ? ? ? ? ? ? ? ? ?]; destruct H0; constructor; [constructor|..];
  unfold N, primary_of, idx_ok in *; cbn in *; try assumption.
Ltac kk := unfold K; cbn; repeat split; reflexivity.

Definition NP {A} (x : M A) : Prop := forall s0, Sz s0 -> nx s0 x (fun _ s _ => Sz s /\ K s0 s).
Definition NPi {A} (x : M A) : Prop := forall s0, Sz s0 -> 0 <= MyIndex s0 -> nx s0 x (fun _ s _ => Sz s /\ K s0 s).
Lemma NP_NPi {A} (x : M A) : NP x -> NPi x. Proof. intros H s0 Hs _. apply H, Hs. Qed.

(* calling an NP function inside a symbolic execution *)
Lemma n_np {A B} s0 (x : M A) (f : A -> M B) Q :
  NP x -> Sz s0 -> (forall a s1 n1, Sz s1 -> K s0 s1 -> nx s1 (f a) (fun b s n2 => Q b s (n1 ++ n2))) -> nx s0 (bind x f) Q.
Proof. intros Hx Hs Hf. eapply n_call; [apply (Hx s0 Hs)|]. intros a s1 n1 [S1 K1]. apply Hf; auto. Qed.
Lemma n_np_last {A} s0 (x : M A) (Q : A -> nstate -> tr_t -> Prop) :
  NP x -> Sz s0 -> (forall a s1 n1, Sz s1 -> K s0 s1 -> Q a s1 n1) -> nx s0 x Q.
Proof. intros Hx Hs Hq. eapply n_conseq; [apply (Hx s0 Hs)|]. cbn. intros a s n [S1 K1]. auto. Qed.
Lemma n_same {A B} s0 (x : M A) P (f : A -> M B) Q :
  nx s0 x (Same s0 P) -> (forall a, P a -> nx s0 (f a) Q) -> nx s0 (bind x f) Q.
Proof. intros Hx Hf. eapply n_call; [apply Hx|]. intros a s1 n1 [-> Ha]. eapply n_conseq; [apply (Hf a Ha)|]. Abort.

Lemma np_subscribe : NP subscribeForTransactions.
Proof. intros s0 H. unfold subscribeForTransactions. ns. split; [sz_keep H|kk]. Qed.
Lemma np_unsubscribe : NP unsubscribeFromTransactions.
Proof. intros s0 H. unfold unsubscribeFromTransactions. ns. split; [sz_keep H|kk]. Qed.
Lemma np_StopTxFlow : NP StopTxFlow.
Proof. intros s0 H. unfold StopTxFlow. ns. split; [assumption|apply K_refl]. Qed.
Lemma np_changeTimer d : NP (changeTimer d).
Proof. intros s0 H. unfold changeTimer. ns. split; [assumption|apply K_refl]. Qed.

Ltac done_same H := split; [exact H|apply K_refl].

Lemma np_WatchOnly : NP WatchOnly.
Proof. intros s0 H. eapply n_conseq; [apply n_WatchOnly|]. intros a s n [-> _]. done_same H. Qed.
Lemma np_RSOR : NP RequestSentOrReceived.
Proof. intros s0 H. eapply n_conseq; [apply (n_RSOR s0 H)|]. intros a s n [-> _]. done_same H. Qed.
Lemma np_own_slot tbl : (forall s, Sz s -> zlen (tbl s) = N s) -> NP (own_slot tbl).
Proof. intros Ht s0 H. eapply n_conseq; [apply n_own_slot; rewrite (Ht s0 H); destruct H; lia|]. intros a s n [-> _]. done_same H. Qed.
Lemma np_ResponseSent : NP ResponseSent. Proof. apply np_own_slot. intros s H; apply H. Qed.
Lemma np_PreCommitSent : NP PreCommitSent. Proof. apply np_own_slot. intros s H; apply H. Qed.
Lemma np_CommitSent : NP CommitSent. Proof. apply np_own_slot. intros s H; apply H. Qed.
Lemma np_ViewChanging : NP ViewChanging.
Proof. intros s0 H. eapply n_conseq; [apply (n_ViewChanging s0 H)|]. intros a s n [-> _]. done_same H. Qed.

(* composition tactic for NP goals made of NP calls *)
Create HintDb npdb discriminated.
Lemma NP_ret {A} (a : A) : NP (ret a). Proof. intros s0 H. apply n_ret. done_same H. Qed.
Lemma NP_bind {A B} (x : M A) (f : A -> M B) : NP x -> (forall a, NP (f a)) -> NP (bind x f).
Proof.
  intros Hx Hf s0 H. eapply n_call; [apply (Hx s0 H)|]. intros a s1 n1 [S1 K1]. eapply n_conseq; [apply (Hf a s1 S1)|].
  cbn. intros b s n [S2 K2]. split; [exact S2|eapply K_trans; eauto].
Qed.
Lemma NP_assoc {A B C} (x : M A) (g : A -> M B) (f : B -> M C) : NP (bind x (fun a => bind (g a) f)) -> NP (bind (bind x g) f).
Proof. intros H s0 Hs. apply n_assoc. apply H, Hs. Qed.
Lemma NP_ret_bind {A B} (a : A) (f : A -> M B) : NP (f a) -> NP (bind (ret a) f).
Proof. intros H s0 Hs. apply n_ret_bind. apply H, Hs. Qed.
Lemma NP_get_bind {B} (f : nstate -> M B) : (forall s, Sz s -> nx s (f s) (fun _ s' _ => Sz s' /\ K s s')) -> NP (bind get f).
Proof. intros H s0 Hs. apply n_get. apply H, Hs. Qed.
Lemma NP_get_bind_u {B} (f : nstate -> M B) : (forall s, NP (f s)) -> NP (bind get f).
Proof. intros H s0 Hs. apply n_get. apply H, Hs. Qed.
Lemma NP_get : NP get. Proof. intros s0 H. apply n_get_last. done_same H. Qed.
Lemma NP_ask {A} (sel : call -> option A) : NP (ask sel). Proof. intros s0 H. apply n_ask_last. intros. done_same H. Qed.
Lemma NP_fatal {A} : NP (@fatal A). Proof. intros s0 _. apply n_fatal. Qed.
Lemma NP_oof {A} : NP (@out_of_fuel A). Proof. intros s0 _. apply n_oof. Qed.
Lemma NP_modify g : (forall s, Sz s -> Sz (g s) /\ K s (g s)) -> NP (modify g).
Proof. intros Hg s0 H. apply n_modify_last. apply Hg, H. Qed.
Lemma NP_forM {T} (l : list T) (f : T -> M unit) : (forall a, NP (f a)) -> NP (forM l f).
Proof.
  intros Hf. induction l as [|a l IH]; cbn [forM]; [apply NP_ret|]. apply NP_bind; [apply Hf|intros _; exact IH].
Qed.
Lemma NP_of_nx {A} (x : M A) : (forall s0, Sz s0 -> nx s0 x (fun _ s _ => Sz s /\ K s0 s)) -> NP x. Proof. auto. Qed.

Ltac np_go :=
  lazymatch goal with
  | |- NP (bind (bind _ _) _) => apply NP_assoc; np_go
  | |- NP (bind (ret _) _) => apply NP_ret_bind; np_go
  | |- NP (bind get _) => apply NP_get_bind_u; intro; np_go
  | |- NP (bind (if ?b then _ else _) _) => destruct b; np_go
  | |- NP (bind (match ?o with Some _ => _ | None => _ end) _) => destruct o; np_go
  | |- NP (bind _ _) => apply NP_bind; [ | intro]; np_go
  | |- NP (ret _) => apply NP_ret
  | |- NP get => apply NP_get
  | |- NP (ask _) => apply NP_ask
  | |- NP (ask_unit _) => unfold ask_unit; np_go
  | |- NP ask_now => unfold ask_now; np_go
  | |- NP fatal => apply NP_fatal
  | |- NP out_of_fuel => apply NP_oof
  | |- NP (forM _ _) => apply NP_forM; intro; np_go
  | |- NP (if ?b then _ else _) => destruct b; np_go
  | |- NP (match ?o with Some _ => _ | None => _ end) => destruct o; np_go
  | |- NP (let _ := _ in _) => cbv zeta; np_go
  | |- NP (modify _) => apply NP_modify; let s := fresh "s" in let H := fresh "H" in intros s H;
      repeat match goal with |- context[if ?b then _ else _] => destruct b end; (split; [first [exact H | sz_keep H]|first [apply K_refl | kk]])
  | |- NP _ => first [ solve [eauto 3 with npdb] | idtac ]
  end.
Hint Resolve np_WatchOnly np_RSOR np_ResponseSent np_PreCommitSent np_CommitSent np_ViewChanging np_subscribe np_unsubscribe np_StopTxFlow np_changeTimer : npdb.

Lemma np_NotAccepting : NP NotAcceptingPayloadsDueToViewChanging. Proof. unfold NotAcceptingPayloadsDueToViewChanging. np_go. Qed.
Lemma np_getTimestamp : NP (getTimestamp cfg).
Proof. unfold getTimestamp. apply NP_bind; [np_go|intros t]. destruct (cfg_inc cfg =? 0) eqn:E; [apply Z.eqb_eq in E; contradiction|apply NP_ret]. Qed.
Hint Resolve np_NotAccepting np_getTimestamp : npdb.
Lemma np_Fill f : NP (Fill cfg f). Proof. unfold Fill. np_go. Qed.
Lemma np_MakeHeader : NP (MakeHeader cfg). Proof. unfold MakeHeader. np_go. Qed.
Lemma np_MakePreHeader : NP MakePreHeader. Proof. unfold MakePreHeader. np_go. Qed.
Hint Resolve np_Fill np_MakeHeader np_MakePreHeader : npdb.
Lemma np_CreateBlock : NP (CreateBlock cfg). Proof. unfold CreateBlock. np_go. Qed.
Lemma np_CreatePreBlock : NP CreatePreBlock. Proof. unfold CreatePreBlock. np_go. Qed.
Lemma np_makePrepareRequest f : NP (makePrepareRequest cfg f). Proof. unfold makePrepareRequest. np_go. Qed.
Hint Resolve np_CreateBlock np_CreatePreBlock np_makePrepareRequest : npdb.

Lemma Mq_pos s : 0 < N s -> 0 < Mq s.
Proof. intros H. unfold Mq, F, goquot. pose proof (Z.quot_pos (N s - 1) 3 ltac:(lia) ltac:(lia)). assert (Z.quot (N s - 1) 3 <= N s - 1) by (apply Z.quot_le_upper_bound; lia). lia. Qed.

Lemma np_rtt t : NP (rtt_addTime t).
Proof.
  intros s0 H. unfold rtt_addTime. apply n_get. ntget. { destruct H as [[]]. lia. }
  cbv zeta. ntset. { destruct H as [[]]. lia. }
  apply n_modify_last. split; [|kk].
  pose proof (zlen_set _ _ _ _ Hl) as Hz.
  assert (Hr : 0 <= gorem (rtt_idx s0 + 1) rttLength < rttLength).
  { destruct H as [[_ _ _ Hi]]. unfold gorem, rttLength in *. pose proof (Z.rem_bound_pos (rtt_idx s0 + 1) 70 ltac:(lia) ltac:(lia)). lia. }
  destruct H as [H0 ? ? ? ? ? ? ? ? ? ? ? ?]; destruct H0; constructor; [constructor|..]; unfold N, primary_of, idx_ok in *; cbn in *; try assumption; try lia.
Qed.
Hint Resolve np_rtt : npdb.
Lemma np_broadcast m : NP (broadcast m). Proof. unfold broadcast. np_go. Qed.
Hint Resolve np_broadcast : npdb.
Lemma np_makeRecoveryMessage : NP makeRecoveryMessage. Proof. unfold makeRecoveryMessage. np_go. Qed.
Hint Resolve np_makeRecoveryMessage : npdb.
Lemma np_sendRecoveryMessage : NP sendRecoveryMessage. Proof. unfold sendRecoveryMessage. np_go. Qed.
Lemma np_processMissingTx : NP processMissingTx. Proof. unfold processMissingTx. np_go. Qed.
Hint Resolve np_sendRecoveryMessage np_processMissingTx : npdb.
Lemma np_sendRecoveryRequest : NP sendRecoveryRequest. Proof. unfold sendRecoveryRequest. np_go. Qed.
Hint Resolve np_sendRecoveryRequest : npdb.
Lemma np_extendTimer c : NP (extendTimer cfg c).
Proof.
  unfold extendTimer. apply NP_bind; [np_go|intros cs]. destruct cs; [apply NP_ret|]. apply NP_get_bind_u. intros s.
  apply NP_bind; [np_go|intros ps]. destruct ps; [apply NP_ret|]. apply NP_bind; [np_go|intros vc]. destruct vc; [apply NP_ret|].
  apply NP_get_bind. intros s1 H1. destruct (Mq s1 =? 0) eqn:E.
  - apply Z.eqb_eq in E. pose proof (Mq_pos s1 (sz_n _ H1)). lia.
  - cbv zeta. eapply n_conseq; [apply (NP_ask _ s1 H1)|]. auto.
Qed.
Hint Resolve np_extendTimer : npdb.

Lemma tall_nth P t i p : tall P t -> nth_chk t i = Some (Some p) -> P p.
Proof. intros H Hn. exact (H i p Hn). Qed.

Lemma np_verifyCommits : NP (verifyCommitPayloadsAgainstHeader cfg).
Proof.
  intros s0 H0. unfold verifyCommitPayloadsAgainstHeader. apply n_get.
  eapply n_conseq.
  { refine (n_forM (fun s _ => Sz s /\ K s0 s) _ _ _ s0 [] _); [|split; [exact H0|apply K_refl]].
    intros i s n Hin [Hs Hk]. apply in_seq in Hin. apply n_get.
    assert (Hi : 0 <= Z.of_nat i < zlen (CommitPayloads s)).
    { rewrite (sz_cm _ Hs), (K_N _ _ Hk), <- (sz_cm _ H0). unfold zlen. lia. }
    ntget. { exact Hi. } rewrite Nat2Z.id in Hx.
    destruct x as [p|]; [|apply n_ret; auto]. destruct (p_view p =? ViewNumber s); [|apply n_ret; auto].
    eapply n_np; [apply np_MakeHeader|exact Hs|]. intros hb s1 n1 S1 K1. destruct hb as [b|]; [|apply n_ret; split; [exact S1|eapply K_trans; eauto]].
    apply n_get.
    assert (Hp : 0 <= p_idx p < N s) by (apply (tall_nth _ _ _ _ (sz_cmi _ Hs) Hx)).
    ntget. { unfold N in *. destruct K1 as (E & _). rewrite E. exact Hp. }
    destruct (block_verify _ _ _); [apply n_ret; split; [exact S1|eapply K_trans; eauto]|].
    ntset. { rewrite (sz_cm _ S1), (K_N _ _ K1), <- (sz_cm _ Hs). exact Hi. }
    apply n_modify_last. split; [|eapply K_trans; [exact Hk|]; eapply K_trans; [exact K1|kk]].
    pose proof (zlen_set _ _ _ _ Hl) as Hz. assert (Hok : idx_ok (N s1) l) by (eapply idx_ok_set; [exact (sz_cmi _ S1)| |exact Hl]; intros ? [=]).
    destruct S1 as [H0' ? ? ? ? ? ? ? ? ? ? ? ?]; destruct H0'; constructor; [constructor|..]; unfold N, primary_of, idx_ok in *; cbn in *; try assumption; try lia. }
  cbn. intros _ s n H. exact H.
Qed.
Hint Resolve np_verifyCommits : npdb.

Ltac sz_split S := let H0' := fresh "H0" in
  destruct S as [H0' ? ? ? ? ? ? ? ? ? ? ? ?]; destruct H0'; constructor; [constructor|..]; unfold N, primary_of, idx_ok in *; cbn in *; try assumption; try lia.

Lemma np_verifyPreCommits : NP verifyPreCommitPayloadsAgainstPreBlock.
Proof.
  intros s0 H0. unfold verifyPreCommitPayloadsAgainstPreBlock. apply n_get.
  destruct (negb (hasAllTransactions s0)); [apply n_ret; split; [exact H0|apply K_refl]|].
  eapply n_conseq.
  { refine (n_forM (fun s _ => Sz s /\ K s0 s) _ _ _ s0 [] _); [|split; [exact H0|apply K_refl]].
    intros i s n Hin [Hs Hk]. apply in_seq in Hin. apply n_get.
    assert (Hi : 0 <= Z.of_nat i < zlen (PreCommitPayloads s)).
    { rewrite (sz_pc _ Hs), (K_N _ _ Hk), <- (sz_pc _ H0). unfold zlen. lia. }
    ntget. { exact Hi. } rewrite Nat2Z.id in Hx.
    destruct x as [p|]; [|apply n_ret; auto]. destruct (p_view p =? ViewNumber s); [|apply n_ret; auto].
    eapply n_np; [apply np_CreatePreBlock|exact Hs|]. intros hb s1 n1 S1 K1. destruct hb as [b|]; [|apply n_ret; split; [exact S1|eapply K_trans; eauto]].
    apply n_get.
    assert (Hp : 0 <= p_idx p < N s) by (apply (tall_nth _ _ _ _ (sz_pci _ Hs) Hx)).
    ntget. { unfold N in *. destruct K1 as (E & _). rewrite E. exact Hp. }
    destruct (preblock_verify _ _ _); [apply n_ret; split; [exact S1|eapply K_trans; eauto]|].
    ntset. { rewrite (sz_pc _ S1), (K_N _ _ K1), <- (sz_pc _ Hs). exact Hi. }
    apply n_modify_last. split; [|eapply K_trans; [exact Hk|]; eapply K_trans; [exact K1|kk]].
    pose proof (zlen_set _ _ _ _ Hl) as Hz.
    assert (Hok : idx_ok (N s1) l) by (eapply idx_ok_set; [exact (sz_pci _ S1)| |exact Hl]; intros ? [=]).
    sz_split S1. }
  cbn. intros _ s n H. exact H.
Qed.
Hint Resolve np_verifyPreCommits : npdb.

Lemma np_updateExistingPayloads m : NP (updateExistingPayloads cfg m).
Proof.
  unfold updateExistingPayloads. apply NP_bind; [|intros _; np_go].
  apply NP_modify. intros s H. split; [|kk]. pose proof (zlen_map (fun o : option payload => match o with
                   | Some m0 => if mtype_eqb (p_type m0) PrepareResponseT && negb (hash_eqb (resp_prephash m0) (payload_hash m))
                               then None else Some m0
                   | None => None end) (PreparationPayloads s)) as Hz.
  sz_split H.
Qed.
Hint Resolve np_updateExistingPayloads : npdb.
Lemma np_checkCommit : NP (checkCommit cfg). Proof. unfold checkCommit. np_go. Qed.
Hint Resolve np_checkCommit : npdb.

Lemma u16_range x n : 0 <= x < n -> 0 <= u16 x < n.
Proof. intros H. unfold u16. pose proof (Z.mod_pos_bound x 65536 ltac:(lia)). pose proof (Z.mod_le x 65536 ltac:(lia) ltac:(lia)). lia. Qed.
Lemma K_my a b : K a b -> MyIndex b = MyIndex a. Proof. intros (_&E&_). exact E. Qed.
Lemma K_pi a b : K a b -> PrimaryIndex b = PrimaryIndex a. Proof. intros (_&_&E&_). exact E. Qed.

Lemma np_makeChangeView ts r : NPi (makeChangeView ts r).
Proof.
  intros s0 H Hm. unfold makeChangeView. apply n_get. cbv zeta. ntset. { rewrite (sz_cv _ H). pose proof (sz_my _ H). lia. }
  apply n_modify. apply n_ret. split; [|kk]. pose proof (zlen_set _ _ _ _ Hl) as Hz. sz_split H.
Qed.

Definition has_req (s : nstate) : Prop := exists q, nth_chk (PreparationPayloads s) (Z.to_nat (PrimaryIndex s)) = Some (Some q).
Lemma np_makePrepareResponse s0 : Sz s0 -> 0 <= MyIndex s0 -> has_req s0 -> nx s0 makePrepareResponse (fun _ s _ => Sz s /\ K s0 s).
Proof.
  intros H Hm [q Hq]. unfold makePrepareResponse. apply n_get. ntget. { pose proof (sz_pi _ H). rewrite (sz_prep _ H). lia. }
  rewrite Hq in Hx. injection Hx as <-. cbv zeta.
  ntset. { rewrite (sz_prep _ H). pose proof (sz_my _ H). lia. }
  apply n_modify. apply n_ret. split; [|kk]. pose proof (zlen_set _ _ _ _ Hl) as Hz. sz_split H.
Qed.
Lemma np_sendPrepareResponse s0 : Sz s0 -> 0 <= MyIndex s0 -> has_req s0 -> nx s0 sendPrepareResponse (fun _ s _ => Sz s /\ K s0 s).
Proof.
  intros H Hm Hq. unfold sendPrepareResponse. eapply n_call; [apply (np_makePrepareResponse s0 H Hm Hq)|]. intros m s1 n1 [S1 K1].
  eapply n_np; [apply np_StopTxFlow|exact S1|]. intros [] s2 n2 S2 K2.
  eapply n_np_last; [apply np_broadcast|exact S2|]. intros [] s3 n3 S3 K3. split; [exact S3|]. eauto using K_trans.
Qed.

(* own (pre)commit: the payload that goes into the node's own slot carries an index inside the list *)
Lemma np_makePreCommit s0 : Sz s0 -> 0 <= MyIndex s0 ->
  nx s0 makePreCommit (fun r s _ => Sz s /\ K s0 s /\ forall m, r = Some m -> 0 <= p_idx m < N s).
Proof.
  intros H Hm. unfold makePreCommit. apply n_get. ntget. { rewrite (sz_pc _ H). pose proof (sz_my _ H). lia. }
  destruct x as [m|].
  - apply n_ret. split; [exact H|split; [apply K_refl|]]. intros m' [= <-]. apply (tall_nth _ _ _ _ (sz_pci _ H) Hx).
  - eapply n_np; [apply np_CreatePreBlock|exact H|]. intros pb s1 n1 S1 K1. destruct pb as [b|].
    + unfold ask_unit. apply n_ask. intros [] c Hc. apply n_get. cbv zeta. apply n_modify. apply n_ret.
      split; [sz_split S1|split; [eapply K_trans; [exact K1|kk]|]]. intros m [= <-]. unfold mk_payload. cbn [p_idx].
      unfold N. cbn [Validators set]. fold (N s1). apply u16_range. rewrite (K_my _ _ K1), (K_N _ _ K1). pose proof (sz_my _ H). lia.
    + apply n_ret. split; [exact S1|split; [exact K1|discriminate]].
Qed.
Lemma np_makeCommit s0 : Sz s0 -> 0 <= MyIndex s0 ->
  nx s0 (makeCommit cfg) (fun r s _ => Sz s /\ K s0 s /\ forall m, r = Some m -> 0 <= p_idx m < N s).
Proof.
  intros H Hm. unfold makeCommit. apply n_get. ntget. { rewrite (sz_cm _ H). pose proof (sz_my _ H). lia. }
  destruct x as [m|].
  - apply n_ret. split; [exact H|split; [apply K_refl|]]. intros m' [= <-]. apply (tall_nth _ _ _ _ (sz_cmi _ H) Hx).
  - eapply n_np; [apply np_MakeHeader|exact H|]. intros pb s1 n1 S1 K1. destruct pb as [b|].
    + unfold ask_unit. apply n_ask. intros [] c Hc. apply n_get. cbv zeta. apply n_modify. apply n_ret.
      split; [sz_split S1|split; [eapply K_trans; [exact K1|kk]|]]. intros m [= <-]. unfold mk_payload. cbn [p_idx].
      unfold N. cbn [Validators set]. fold (N s1). apply u16_range. rewrite (K_my _ _ K1), (K_N _ _ K1). pose proof (sz_my _ H). lia.
    + apply n_ret. split; [exact S1|split; [exact K1|discriminate]].
Qed.
Lemma np_sendPreCommit : NPi sendPreCommit.
Proof.
  intros s0 H Hm. unfold sendPreCommit. eapply n_call; [apply (np_makePreCommit s0 H Hm)|]. intros m s1 n1 (S1 & K1 & Hi). destruct m as [msg|].
  - apply n_get. ntset. { rewrite (sz_pc _ S1), (K_my _ _ K1), (K_N _ _ K1). pose proof (sz_my _ H). lia. }
    apply n_modify. specialize (Hi msg eq_refl).
    assert (S2 : Sz (s1 <| PreCommitPayloads := l |>)).
    { pose proof (zlen_set _ _ _ _ Hl) as Hz.
      assert (Hok : idx_ok (N s1) l) by (eapply idx_ok_set; [exact (sz_pci _ S1)| |exact Hl]; intros ? [= <-]; exact Hi). sz_split S1. }
    eapply n_np_last; [apply np_broadcast|exact S2|]. intros [] s3 n3 S3 K3. split; [exact S3|]. eapply K_trans; [exact K1|]. eapply K_trans; [|exact K3]. kk.
  - apply n_ret. auto.
Qed.
Lemma np_sendCommit : NPi (sendCommit cfg).
Proof.
  intros s0 H Hm. unfold sendCommit. eapply n_call; [apply (np_makeCommit s0 H Hm)|]. intros m s1 n1 (S1 & K1 & Hi). destruct m as [msg|].
  - apply n_get. ntset. { rewrite (sz_cm _ S1), (K_my _ _ K1), (K_N _ _ K1). pose proof (sz_my _ H). lia. }
    apply n_modify. specialize (Hi msg eq_refl).
    assert (S2 : Sz (s1 <| CommitPayloads := l |>)).
    { pose proof (zlen_set _ _ _ _ Hl) as Hz.
      assert (Hok : idx_ok (N s1) l) by (eapply idx_ok_set; [exact (sz_cmi _ S1)| |exact Hl]; intros ? [= <-]; exact Hi). sz_split S1. }
    eapply n_np_last; [apply np_broadcast|exact S2|]. intros [] s3 n3 S3 K3. split; [exact S3|]. eapply K_trans; [exact K1|]. eapply K_trans; [|exact K3]. kk.
  - apply n_ret. auto.
Qed.
End NoPanic.
