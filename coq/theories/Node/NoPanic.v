(* C11, last clause: no sequence of well-formed API calls, whatever the callbacks return, makes the node model panic.
   [nx] is the exact-state triple that EXCLUDES the Panic outcome (Mismatch = a script the callbacks cannot produce,
   Fatal and OutOfFuel remain accepted).  [Sz] is the sizing invariant that makes every checked table access succeed. *)
From DbftV Require Export Gates CvCount.

Definition nx {A} (s0 : nstate) (x : M A) (Q : A -> nstate -> tr_t -> Prop) := hoare (eq s0) x Q.
Lemma nx_hx {A} s0 (x : M A) Q : nx s0 x Q -> hx s0 x Q. Proof. apply hoare_hoarep. Qed.

Lemma n_ret {A} s0 (a : A) (Q : A -> nstate -> tr_t -> Prop) : Q a s0 [] -> nx s0 (ret a) Q.
Proof. intros H m Hm. cbn. exists []. rewrite app_nil_r. subst. auto. Qed.
Lemma n_ret_bind {A B} s0 (a : A) (f : A -> M B) Q : nx s0 (f a) Q -> nx s0 (bind (ret a) f) Q.
Proof. intros H m Hm. apply (H m Hm). Qed.
Lemma n_get {B} s0 (f : nstate -> M B) Q : nx s0 (f s0) Q -> nx s0 (bind get f) Q.
Proof. intros H m Hm. unfold bind, get. subst s0. apply (H m eq_refl). Qed.
Lemma n_get_last s0 (Q : nstate -> nstate -> tr_t -> Prop) : Q s0 s0 [] -> nx s0 get Q.
Proof. intros H m Hm. cbn. exists []. rewrite app_nil_r. subst. auto. Qed.
Lemma n_modify {B} s0 g (f : unit -> M B) Q : nx (g s0) (f tt) Q -> nx s0 (bind (modify g) f) Q.
Proof. intros H m Hm. subst s0. unfold bind, modify; cbn. apply (H (mkM (g (st m)) (script m) (trace m)) eq_refl). Qed.
Lemma n_modify_last s0 g (Q : unit -> nstate -> tr_t -> Prop) : Q tt (g s0) [] -> nx s0 (modify g) Q.
Proof. intros H m Hm. cbn. exists []. rewrite app_nil_r. subst. auto. Qed.
Lemma n_ask {A B} s0 (sel : call -> option A) (f : A -> M B) Q :
  (forall a c, sel c = Some a -> nx s0 (f a) (fun b s n => Q b s ((s0, c) :: n))) -> nx s0 (bind (ask sel) f) Q.
Proof.
  intros H m Hm. unfold bind, ask. destruct (script m) as [|c rest] eqn:E; auto. destruct (sel c) eqn:Es; auto.
  specialize (H a c Es (mkM (st m) rest (trace m ++ [(st m, c)])) Hm). cbn in H.
  destruct (f a _) as [[b m']| | | |]; auto. destruct H as (n & T & S & Hq). exists ((s0, c) :: n). cbn in *.
  rewrite T, S, <- app_assoc. subst s0. auto.
Qed.
Lemma n_ask_last {A} s0 (sel : call -> option A) (Q : A -> nstate -> tr_t -> Prop) :
  (forall a c, sel c = Some a -> Q a s0 [(s0, c)]) -> nx s0 (ask sel) Q.
Proof.
  intros H m Hm. unfold ask. destruct (script m) as [|c rest] eqn:E; auto. destruct (sel c) eqn:Es; auto.
  cbn. exists [(s0, c)]. subst s0. repeat split; auto.
Qed.
Lemma n_assoc {A B C} s0 (x : M A) (g : A -> M B) (f : B -> M C) Q :
  nx s0 (bind x (fun a => bind (g a) f)) Q -> nx s0 (bind (bind x g) f) Q.
Proof. intros H m Hm. specialize (H m Hm). unfold bind in *. destruct (x m) as [[a m']| | | |]; auto. Qed.
Lemma n_call {A B} s0 (x : M A) (Qx : A -> nstate -> tr_t -> Prop) (f : A -> M B) Q :
  nx s0 x Qx -> (forall a s1 n1, Qx a s1 n1 -> nx s1 (f a) (fun b s n2 => Q b s (n1 ++ n2))) -> nx s0 (bind x f) Q.
Proof.
  intros Hx Hf m Hm. unfold bind. specialize (Hx m Hm). destruct (x m) as [[a m']| | | |]; auto.
  destruct Hx as (n1 & T1 & S1 & Hq). specialize (Hf a (st m') n1 Hq m' eq_refl).
  destruct (f a m') as [[b m'']| | | |]; auto. destruct Hf as (n2 & T2 & S2 & Hr).
  exists (n1 ++ n2). rewrite T2, T1, S1, S2, map_app, !app_assoc. auto.
Qed.
Lemma n_conseq {A} s0 (x : M A) (Q Q' : A -> nstate -> tr_t -> Prop) :
  nx s0 x Q' -> (forall a s n, Q' a s n -> Q a s n) -> nx s0 x Q.
Proof. intros H HQ m Hm. specialize (H m Hm). destruct (x m) as [[a m']| | | |]; auto. destruct H as (n & ? & ? & ?). exists n; auto. Qed.
Lemma n_bind_unit_r {A} s0 (x : M A) Q : nx s0 (bind x ret) Q -> nx s0 x Q.
Proof. intros H m Hm. specialize (H m Hm). unfold bind, ret in H. destruct (x m) as [[a m']| | | |]; auto. Qed.
Lemma n_fatal {A} s0 (Q : A -> nstate -> tr_t -> Prop) : nx s0 fatal Q. Proof. intros m Hm. exact I. Qed.
Lemma n_fatal_bind {A B} s0 (f : A -> M B) Q : nx s0 (bind fatal f) Q. Proof. intros m Hm. exact I. Qed.
Lemma n_oof {A} s0 (Q : A -> nstate -> tr_t -> Prop) : nx s0 out_of_fuel Q. Proof. intros m Hm. exact I. Qed.
Lemma n_oof_bind {A B} s0 (f : A -> M B) Q : nx s0 (bind out_of_fuel f) Q. Proof. intros m Hm. exact I. Qed.

(* combining with a Panic-accepting triple (frames and gates proved in Gates.v are reused this way) *)
Lemma n_conj {A} s0 (x : M A) (Q1 Q2 : A -> nstate -> tr_t -> Prop) :
  nx s0 x Q1 -> hx s0 x Q2 -> nx s0 x (fun a s n => Q1 a s n /\ Q2 a s n).
Proof.
  intros H1 H2 m Hm. specialize (H1 m Hm). specialize (H2 m Hm). destruct (x m) as [[a m']| | | |]; auto.
  destruct H1 as (n1 & T1 & S1 & Q1'). destruct H2 as (n2 & T2 & S2 & Q2').
  assert (n1 = n2) by (rewrite T1 in T2; apply app_inv_head in T2; exact T2). subst n2. exists n1. auto.
Qed.

(* checked table access: the index must be shown to be in range *)
Lemma nth_chk_some {T} (l : list T) i : (i < length l)%nat -> exists x, nth_chk l i = Some x.
Proof. revert i; induction l as [|y t IH]; intros i Hi; cbn in Hi; [lia|]. destruct i; cbn; [eauto|]. apply IH. lia. Qed.
Lemma set_chk_some {T} (l : list T) i v : (i < length l)%nat -> exists l', set_chk l i v = Some l'.
Proof.
  revert i; induction l as [|y t IH]; intros i Hi; cbn in Hi; [lia|]. destruct i; cbn; [eauto|].
  destruct (IH i ltac:(lia)) as [l' ->]. eauto.
Qed.
Lemma n_tget {T B} s0 (l : list T) i (f : T -> M B) Q :
  0 <= i < zlen l -> (forall x, nth_chk l (Z.to_nat i) = Some x -> nx s0 (f x) Q) -> nx s0 (bind (tget l i) f) Q.
Proof.
  intros Hi H m Hm. unfold bind, tget. destruct (i <? 0) eqn:E; [apply Z.ltb_lt in E; lia|].
  destruct (nth_chk_some l (Z.to_nat i)) as [x Hx]; [unfold zlen in Hi; lia|]. rewrite Hx. apply (H x Hx m Hm).
Qed.
Lemma n_tget_last {T} s0 (l : list T) i (Q : T -> nstate -> tr_t -> Prop) :
  0 <= i < zlen l -> (forall x, nth_chk l (Z.to_nat i) = Some x -> Q x s0 []) -> nx s0 (tget l i) Q.
Proof. intros Hi H. apply n_bind_unit_r. apply n_tget; [exact Hi|]. intros x Hx. apply n_ret. auto. Qed.
Lemma n_tset {T B} s0 (l : list T) i v (f : list T -> M B) Q :
  0 <= i < zlen l -> (forall l', set_chk l (Z.to_nat i) v = Some l' -> nx s0 (f l') Q) -> nx s0 (bind (tset l i v) f) Q.
Proof.
  intros Hi H m Hm. unfold bind, tset. destruct (i <? 0) eqn:E; [apply Z.ltb_lt in E; lia|].
  destruct (set_chk_some l (Z.to_nat i) v) as [x Hx]; [unfold zlen in Hi; lia|]. rewrite Hx. apply (H x Hx m Hm).
Qed.
Lemma n_tset_last {T} s0 (l : list T) i v (Q : list T -> nstate -> tr_t -> Prop) :
  0 <= i < zlen l -> (forall l', set_chk l (Z.to_nat i) v = Some l' -> Q l' s0 []) -> nx s0 (tset l i v) Q.
Proof. intros Hi H. apply n_bind_unit_r. apply n_tset; [exact Hi|]. intros x Hx. apply n_ret. auto. Qed.

Lemma n_forM {T} (I : nstate -> tr_t -> Prop) (f : T -> M unit) (l : list T) :
  (forall a s n, In a l -> I s n -> nx s (f a) (fun _ s' n' => I s' (n ++ n'))) ->
  forall s n, I s n -> nx s (forM l f) (fun _ s' n' => I s' (n ++ n')).
Proof.
  induction l as [|a l IH]; intros Hf s n Hi; cbn [forM].
  - apply n_ret. rewrite app_nil_r. exact Hi.
  - eapply n_call; [apply (Hf a s n (or_introl eq_refl) Hi)|]. intros [] s1 n1 H1. cbn beta.
    eapply n_conseq; [apply (IH (fun a' s' n' Hin => Hf a' s' n' (or_intror Hin)) s1 (n ++ n1) H1)|].
    cbn. intros _ s2 n2 H2. rewrite app_assoc. exact H2.
Qed.

(* ---------------- the sizing invariant ---------------- *)
Definition primary_of (s : nstate) (v : Z) : Z := let p := gorem (BlockIndex s - v) (N s) in if p >=? 0 then p else p + N s.
Definition idx_ok (n : Z) (t : list (option payload)) : Prop := tall (fun p => 0 <= p_idx p < n) t.
Definition wfp (p : payload) : Prop :=
  0 <= p_idx p /\ match p_body p with BRecoveryMessage inner => Forall (fun q => 0 <= p0_idx q) inner | B0 _ => True end.
Definition wf_entries (l : list (Z * payload)) : Prop := Forall (fun kv => wfp (snd kv)) l.
Definition wf_inbox (ib : inbox) : Prop :=
  wf_entries (ib_prepare ib) /\ wf_entries (ib_chviews ib) /\ wf_entries (ib_precommit ib) /\ wf_entries (ib_commit ib).
Definition cache_wf (c : list (Z * inbox)) : Prop := Forall (fun kv => wf_inbox (snd kv)) c.

(* what survives from one height to the next without being rebuilt by the initialisation *)
Record Sz0 (s : nstate) : Prop := {
  sz_cr : cache_ready s = true;
  sz_cache : cache_wf (cache s);
  sz_rtt : zlen (rtt_times s) = rttLength;
  sz_ri : 0 <= rtt_idx s < rttLength }.

Record Sz (s : nstate) : Prop := {
  sz_0 : Sz0 s;
  sz_n : 0 < N s;
  sz_prep : zlen (PreparationPayloads s) = N s;
  sz_pc : zlen (PreCommitPayloads s) = N s;
  sz_cm : zlen (CommitPayloads s) = N s;
  sz_cv : zlen (ChangeViewPayloads s) = N s;
  sz_lcv : zlen (LastChangeViewPayloads s) = N s;
  sz_ls : zlen (LastSeenMessage s) = N s;
  sz_my : -1 <= MyIndex s < N s;
  sz_pi : 0 <= PrimaryIndex s < N s;
  sz_pf : PrimaryIndex s = primary_of s (ViewNumber s);
  sz_cmi : idx_ok (N s) (CommitPayloads s);
  sz_pci : idx_ok (N s) (PreCommitPayloads s);
  (* C04: in a view above 0 the node holds M kept change-view requests for that view or above *)
  sz_vi : 0 < ViewNumber s -> Mq s <= cnt_ge (ViewNumber s) (LastChangeViewPayloads s);
  (* the primary's slot holds a PrepareRequest if anything (onPrepareResponse type-asserts it) *)
  sz_k4 : forall q, nth_chk (PreparationPayloads s) (Z.to_nat (PrimaryIndex s)) = Some (Some q) -> p_type q = PrepareRequestT }.

Lemma zlen_set {T} (l l' : list T) i v : set_chk l i v = Some l' -> zlen l' = zlen l.
Proof. intros H. unfold zlen. erewrite set_chk_length; eauto. Qed.
Lemma zlen_nonneg {T} (l : list T) : 0 <= zlen l. Proof. unfold zlen. lia. Qed.
Lemma zlen_replicate {T} n (x : T) : 0 <= n -> zlen (replicate n x) = n.
Proof. intros H. unfold zlen, replicate. rewrite repeat_length. lia. Qed.
Lemma zlen_map {S T} (f : S -> T) l : zlen (map f l) = zlen l. Proof. unfold zlen. rewrite map_length. reflexivity. Qed.
Lemma idx_ok_set n t i v l : idx_ok n t -> (forall p, v = Some p -> 0 <= p_idx p < n) -> set_chk t i v = Some l -> idx_ok n l.
Proof. apply tall_set. Qed.
Lemma idx_ok_empty n m : idx_ok n (replicate m None). Proof. apply tall_empty. Qed.

Lemma primary_of_range s v : 0 < N s -> 0 <= primary_of s v < N s.
Proof.
  intros Hn. unfold primary_of, gorem. cbv zeta. pose proof (Z.rem_bound_abs (BlockIndex s - v) (N s) ltac:(lia)) as Hb.
  destruct (Z.rem (BlockIndex s - v) (N s) >=? 0) eqn:E.
  - rewrite Z.geb_leb in E. apply Z.leb_le in E. lia.
  - rewrite Z.geb_leb in E. apply Z.leb_gt in E. lia.
Qed.


(* what no function outside the (re)initialisation changes *)
Definition K (a b : nstate) : Prop :=
  Validators b = Validators a /\ MyIndex b = MyIndex a /\ PrimaryIndex b = PrimaryIndex a /\ BlockIndex b = BlockIndex a /\ ViewNumber b = ViewNumber a.
Lemma K_refl s : K s s. Proof. unfold K; auto. Qed.
Lemma K_trans a b c : K a b -> K b c -> K a c. Proof. unfold K. intros (A1&A2&A3&A4&A5) (B1&B2&B3&B4&B5). repeat split; congruence. Qed.
Lemma K_N a b : K a b -> N b = N a. Proof. intros (H&_). unfold N. rewrite H. reflexivity. Qed.

Section NoPanic.
Variable cfg : config.
Hypothesis inc_nz : cfg_inc cfg <> 0.

(* ---- step tactic for nx; table accesses leave their range obligation as the first goal ---- *)
Ltac ns1 :=
  lazymatch goal with
  | |- nx _ (bind (bind _ _) _) _ => apply n_assoc
  | |- nx _ (bind get _) _ => apply n_get
  | |- nx _ (bind (ask_unit _) _) _ => unfold ask_unit at 1
  | |- nx _ (bind ask_now _) _ => unfold ask_now at 1
  | |- nx _ (ask_unit _) _ => unfold ask_unit at 1
  | |- nx _ ask_now _ => unfold ask_now at 1
  | |- nx _ (bind (modify _) _) _ => apply n_modify
  | |- nx _ (bind (ask _) _) _ => apply n_ask; let a := fresh "a" in let c := fresh "c" in let Hc := fresh "Hc" in intros a c Hc
  | |- nx _ (bind (ret _) _) _ => apply n_ret_bind
  | |- nx _ (bind fatal _) _ => apply n_fatal_bind
  | |- nx _ (bind out_of_fuel _) _ => apply n_oof_bind
  | |- nx _ (bind (if ?b then _ else _) _) _ => let E := fresh "E" in destruct b eqn:E
  | |- nx _ (if ?b then _ else _) _ => let E := fresh "E" in destruct b eqn:E
  | |- nx _ (bind (match ?o with Some _ => _ | None => _ end) _) _ => let E := fresh "E" in destruct o eqn:E
  | |- nx _ (match ?o with Some _ => _ | None => _ end) _ => let E := fresh "E" in destruct o eqn:E
  | |- nx _ (modify _) _ => apply n_modify_last
  | |- nx _ (ask _) _ => apply n_ask_last; let a := fresh "a" in let c := fresh "c" in let Hc := fresh "Hc" in intros a c Hc
  | |- nx _ (ret _) _ => apply n_ret
  | |- nx _ fatal _ => apply n_fatal
  | |- nx _ out_of_fuel _ => apply n_oof
  | |- nx _ get _ => apply n_get_last
  end.
Ltac ns := repeat ns1.
Ltac ntget := apply n_tget; [|let x := fresh "x" in let Hx := fresh "Hx" in intros x Hx].
Ltac ntset := apply n_tset; [|let l := fresh "l" in let Hl := fresh "Hl" in intros l Hl].

(* results: state unchanged *)
Definition Same {A} (s0 : nstate) (P : A -> Prop) : A -> nstate -> tr_t -> Prop := fun a s _ => s = s0 /\ P a.

Lemma n_WatchOnly s0 : nx s0 WatchOnly (Same s0 (fun r => r = false -> 0 <= MyIndex s0)).
Proof.
  unfold WatchOnly. apply n_get. destruct (MyIndex s0 <? 0) eqn:E.
  - apply n_ret. split; [reflexivity|discriminate].
  - unfold ask_watchonly. apply n_ask_last. intros a c Hc. split; [reflexivity|]. intros _. apply Z.ltb_ge in E. exact E.
Qed.
Lemma n_RSOR s0 : Sz s0 -> nx s0 RequestSentOrReceived
  (Same s0 (fun r => r = true -> exists q, nth_chk (PreparationPayloads s0) (Z.to_nat (PrimaryIndex s0)) = Some (Some q))).
Proof.
  intros H. unfold RequestSentOrReceived. apply n_get. ntget. { destruct H. lia. }
  apply n_ret. split; [reflexivity|]. destruct x as [q|]; [eauto|discriminate].
Qed.
Lemma n_own_slot tbl s0 : (-1 <= MyIndex s0 < zlen (tbl s0)) -> nx s0 (own_slot tbl) (Same s0 (fun r => r = true -> 0 <= MyIndex s0)).
Proof.
  intros H. unfold own_slot. eapply n_call; [apply n_WatchOnly|]. intros wo s1 n1 [-> Hw]. destruct wo.
  - apply n_ret. split; [reflexivity|discriminate].
  - specialize (Hw eq_refl). apply n_get. ntget. { lia. } apply n_ret. split; auto.
Qed.
Lemma n_ViewChanging s0 : Sz s0 -> nx s0 ViewChanging (Same s0 (fun _ => True)).
Proof.
  intros H. unfold ViewChanging. eapply n_call; [apply n_WatchOnly|]. intros wo s1 n1 [-> Hw]. destruct wo.
  - apply n_ret. split; auto.
  - specialize (Hw eq_refl). apply n_get. ntget. { destruct H. lia. } apply n_ret. split; auto.
Qed.

(* Sz after a record update that leaves the sized components alone *)
Ltac sz_keep H :=
  let H0 := fresh "H0" in
  destruct H as [H0 ? ? ? ? ? ? ? ? ? ? ? ? ? ?]; destruct H0; constructor; [constructor|..];
  unfold Mq, F, N, primary_of, idx_ok in *; cbn in *; try assumption.
Ltac kk := unfold K; cbn; repeat split; reflexivity.

Definition NP {A} (x : M A) : Prop := forall s0, Sz s0 -> nx s0 x (fun _ s _ => Sz s /\ K s0 s).
Definition NPi {A} (x : M A) : Prop := forall s0, Sz s0 -> 0 <= MyIndex s0 -> nx s0 x (fun _ s _ => Sz s /\ K s0 s).
Lemma NP_NPi {A} (x : M A) : NP x -> NPi x. Proof. intros H s0 Hs _. apply H, Hs. Qed.

(* calling an NP function inside a symbolic execution *)
Lemma n_np {A B} s0 (x : M A) (f : A -> M B) Q :
  NP x -> Sz s0 -> (forall a s1 n1, Sz s1 -> K s0 s1 -> nx s1 (f a) (fun b s n2 => Q b s (n1 ++ n2))) -> nx s0 (bind x f) Q.
Proof. intros Hx Hs Hf. eapply n_call; [apply (Hx s0 Hs)|]. intros a s1 n1 [S1 K1]. apply Hf; auto. Qed.
Lemma n_np_last {A} s0 (x : M A) (Q : A -> nstate -> tr_t -> Prop) :
  NP x -> Sz s0 -> (forall a s1 n1, Sz s1 -> K s0 s1 -> Q a s1 n1) -> nx s0 x Q.
Proof. intros Hx Hs Hq. eapply n_conseq; [apply (Hx s0 Hs)|]. cbn. intros a s n [S1 K1]. auto. Qed.
Lemma n_same {A B} s0 (x : M A) P (f : A -> M B) Q :
  nx s0 x (Same s0 P) -> (forall a, P a -> nx s0 (f a) Q) -> nx s0 (bind x f) Q.
Proof. intros Hx Hf. eapply n_call; [apply Hx|]. intros a s1 n1 [-> Ha]. eapply n_conseq; [apply (Hf a Ha)|]. Abort.

Lemma np_subscribe : NP subscribeForTransactions.
Proof. intros s0 H. unfold subscribeForTransactions. ns. split; [sz_keep H|kk]. Qed.
Lemma np_unsubscribe : NP unsubscribeFromTransactions.
Proof. intros s0 H. unfold unsubscribeFromTransactions. ns. split; [sz_keep H|kk]. Qed.
Lemma np_StopTxFlow : NP StopTxFlow.
Proof. intros s0 H. unfold StopTxFlow. ns. split; [assumption|apply K_refl]. Qed.
Lemma np_changeTimer d : NP (changeTimer d).
Proof. intros s0 H. unfold changeTimer. ns. split; [assumption|apply K_refl]. Qed.

Ltac done_same H := split; [exact H|apply K_refl].

Lemma np_WatchOnly : NP WatchOnly.
Proof. intros s0 H. eapply n_conseq; [apply n_WatchOnly|]. intros a s n [-> _]. done_same H. Qed.
Lemma np_RSOR : NP RequestSentOrReceived.
Proof. intros s0 H. eapply n_conseq; [apply (n_RSOR s0 H)|]. intros a s n [-> _]. done_same H. Qed.
Lemma np_own_slot tbl : (forall s, Sz s -> zlen (tbl s) = N s) -> NP (own_slot tbl).
Proof. intros Ht s0 H. eapply n_conseq; [apply n_own_slot; rewrite (Ht s0 H); destruct H; lia|]. intros a s n [-> _]. done_same H. Qed.
Lemma np_ResponseSent : NP ResponseSent. Proof. apply np_own_slot. intros s H; apply H. Qed.
Lemma np_PreCommitSent : NP PreCommitSent. Proof. apply np_own_slot. intros s H; apply H. Qed.
Lemma np_CommitSent : NP CommitSent. Proof. apply np_own_slot. intros s H; apply H. Qed.
Lemma np_ViewChanging : NP ViewChanging.
Proof. intros s0 H. eapply n_conseq; [apply (n_ViewChanging s0 H)|]. intros a s n [-> _]. done_same H. Qed.

(* composition tactic for NP goals made of NP calls *)
Create HintDb npdb discriminated.
Lemma NP_ret {A} (a : A) : NP (ret a). Proof. intros s0 H. apply n_ret. done_same H. Qed.
Lemma NP_bind {A B} (x : M A) (f : A -> M B) : NP x -> (forall a, NP (f a)) -> NP (bind x f).
Proof.
  intros Hx Hf s0 H. eapply n_call; [apply (Hx s0 H)|]. intros a s1 n1 [S1 K1]. eapply n_conseq; [apply (Hf a s1 S1)|].
  cbn. intros b s n [S2 K2]. split; [exact S2|eapply K_trans; eauto].
Qed.
Lemma NP_assoc {A B C} (x : M A) (g : A -> M B) (f : B -> M C) : NP (bind x (fun a => bind (g a) f)) -> NP (bind (bind x g) f).
Proof. intros H s0 Hs. apply n_assoc. apply H, Hs. Qed.
Lemma NP_ret_bind {A B} (a : A) (f : A -> M B) : NP (f a) -> NP (bind (ret a) f).
Proof. intros H s0 Hs. apply n_ret_bind. apply H, Hs. Qed.
Lemma NP_get_bind {B} (f : nstate -> M B) : (forall s, Sz s -> nx s (f s) (fun _ s' _ => Sz s' /\ K s s')) -> NP (bind get f).
Proof. intros H s0 Hs. apply n_get. apply H, Hs. Qed.
Lemma NP_get_bind_u {B} (f : nstate -> M B) : (forall s, NP (f s)) -> NP (bind get f).
Proof. intros H s0 Hs. apply n_get. apply H, Hs. Qed.
Lemma NP_get : NP get. Proof. intros s0 H. apply n_get_last. done_same H. Qed.
Lemma NP_ask {A} (sel : call -> option A) : NP (ask sel). Proof. intros s0 H. apply n_ask_last. intros. done_same H. Qed.
Lemma NP_fatal {A} : NP (@fatal A). Proof. intros s0 _. apply n_fatal. Qed.
Lemma NP_oof {A} : NP (@out_of_fuel A). Proof. intros s0 _. apply n_oof. Qed.
Lemma NP_modify g : (forall s, Sz s -> Sz (g s) /\ K s (g s)) -> NP (modify g).
Proof. intros Hg s0 H. apply n_modify_last. apply Hg, H. Qed.
Lemma NP_forM {T} (l : list T) (f : T -> M unit) : (forall a, NP (f a)) -> NP (forM l f).
Proof.
  intros Hf. induction l as [|a l IH]; cbn [forM]; [apply NP_ret|]. apply NP_bind; [apply Hf|intros _; exact IH].
Qed.
Lemma NP_of_nx {A} (x : M A) : (forall s0, Sz s0 -> nx s0 x (fun _ s _ => Sz s /\ K s0 s)) -> NP x. Proof. auto. Qed.

Ltac np_go :=
  lazymatch goal with
  | |- NP (bind (bind _ _) _) => apply NP_assoc; np_go
  | |- NP (bind (ret _) _) => apply NP_ret_bind; np_go
  | |- NP (bind get _) => apply NP_get_bind_u; intro; np_go
  | |- NP (bind (if ?b then _ else _) _) => destruct b; np_go
  | |- NP (bind (match ?o with Some _ => _ | None => _ end) _) => destruct o; np_go
  | |- NP (bind _ _) => apply NP_bind; [ | intro]; np_go
  | |- NP (ret _) => apply NP_ret
  | |- NP get => apply NP_get
  | |- NP (ask _) => apply NP_ask
  | |- NP (ask_unit _) => unfold ask_unit; np_go
  | |- NP ask_now => unfold ask_now; np_go
  | |- NP fatal => apply NP_fatal
  | |- NP out_of_fuel => apply NP_oof
  | |- NP (forM _ _) => apply NP_forM; intro; np_go
  | |- NP (if ?b then _ else _) => destruct b; np_go
  | |- NP (match ?o with Some _ => _ | None => _ end) => destruct o; np_go
  | |- NP (let _ := _ in _) => cbv zeta; np_go
  | |- NP (modify _) => apply NP_modify; let s := fresh "s" in let H := fresh "H" in intros s H;
      repeat match goal with |- context[if ?b then _ else _] => destruct b end; (split; [first [exact H | sz_keep H]|first [apply K_refl | kk]])
  | |- NP _ => first [ solve [eauto 3 with npdb] | idtac ]
  end.
Hint Resolve np_WatchOnly np_RSOR np_ResponseSent np_PreCommitSent np_CommitSent np_ViewChanging np_subscribe np_unsubscribe np_StopTxFlow np_changeTimer : npdb.

Lemma np_NotAccepting : NP NotAcceptingPayloadsDueToViewChanging. Proof. unfold NotAcceptingPayloadsDueToViewChanging. np_go. Qed.
Lemma np_getTimestamp : NP (getTimestamp cfg).
Proof. unfold getTimestamp. apply NP_bind; [np_go|intros t]. destruct (cfg_inc cfg =? 0) eqn:E; [apply Z.eqb_eq in E; contradiction|apply NP_ret]. Qed.
Hint Resolve np_NotAccepting np_getTimestamp : npdb.
Lemma np_Fill f : NP (Fill cfg f). Proof. unfold Fill. np_go. Qed.
Lemma np_MakeHeader : NP (MakeHeader cfg). Proof. unfold MakeHeader. np_go. Qed.
Lemma np_MakePreHeader : NP MakePreHeader. Proof. unfold MakePreHeader. np_go. Qed.
Hint Resolve np_Fill np_MakeHeader np_MakePreHeader : npdb.
Lemma np_CreateBlock : NP (CreateBlock cfg). Proof. unfold CreateBlock. np_go. Qed.
Lemma np_CreatePreBlock : NP CreatePreBlock. Proof. unfold CreatePreBlock. np_go. Qed.
Lemma np_makePrepareRequest f : NP (makePrepareRequest cfg f). Proof. unfold makePrepareRequest. np_go. Qed.
Hint Resolve np_CreateBlock np_CreatePreBlock np_makePrepareRequest : npdb.

Lemma Mq_pos s : 0 < N s -> 0 < Mq s.
Proof. intros H. unfold Mq, F, goquot. pose proof (Z.quot_pos (N s - 1) 3 ltac:(lia) ltac:(lia)). assert (Z.quot (N s - 1) 3 <= N s - 1) by (apply Z.quot_le_upper_bound; lia). lia. Qed.

Lemma np_rtt t : NP (rtt_addTime t).
Proof.
  intros s0 H. unfold rtt_addTime. apply n_get. ntget. { destruct H as [[]]. lia. }
  cbv zeta. ntset. { destruct H as [[]]. lia. }
  apply n_modify_last. split; [|kk].
  pose proof (zlen_set _ _ _ _ Hl) as Hz.
  assert (Hr : 0 <= gorem (rtt_idx s0 + 1) rttLength < rttLength).
  { destruct H as [[_ _ _ Hi]]. unfold gorem, rttLength in *. pose proof (Z.rem_bound_pos (rtt_idx s0 + 1) 70 ltac:(lia) ltac:(lia)). lia. }
  destruct H as [H0 ? ? ? ? ? ? ? ? ? ? ? ? ? ?]; destruct H0; constructor; [constructor|..]; unfold Mq, F, N, primary_of, idx_ok in *; cbn in *; try assumption; try lia.
Qed.
Hint Resolve np_rtt : npdb.
Lemma np_broadcast m : NP (broadcast m). Proof. unfold broadcast. np_go. Qed.
Hint Resolve np_broadcast : npdb.
Lemma np_makeRecoveryMessage : NP makeRecoveryMessage. Proof. unfold makeRecoveryMessage. np_go. Qed.
Hint Resolve np_makeRecoveryMessage : npdb.
Lemma np_sendRecoveryMessage : NP sendRecoveryMessage. Proof. unfold sendRecoveryMessage. np_go. Qed.
Lemma np_processMissingTx : NP processMissingTx. Proof. unfold processMissingTx. np_go. Qed.
Hint Resolve np_sendRecoveryMessage np_processMissingTx : npdb.
Lemma np_sendRecoveryRequest : NP sendRecoveryRequest. Proof. unfold sendRecoveryRequest. np_go. Qed.
Hint Resolve np_sendRecoveryRequest : npdb.
Lemma np_extendTimer c : NP (extendTimer cfg c).
Proof.
  unfold extendTimer. apply NP_bind; [np_go|intros cs]. destruct cs; [apply NP_ret|]. apply NP_get_bind_u. intros s.
  apply NP_bind; [np_go|intros ps]. destruct ps; [apply NP_ret|]. apply NP_bind; [np_go|intros vc]. destruct vc; [apply NP_ret|].
  apply NP_get_bind. intros s1 H1. destruct (Mq s1 =? 0) eqn:E.
  - apply Z.eqb_eq in E. pose proof (Mq_pos s1 (sz_n _ H1)). lia.
  - cbv zeta. eapply n_conseq; [apply (NP_ask _ s1 H1)|]. auto.
Qed.
Hint Resolve np_extendTimer : npdb.

Lemma tall_nth P t i p : tall P t -> nth_chk t i = Some (Some p) -> P p.
Proof. intros H Hn. exact (H i p Hn). Qed.

Lemma np_verifyCommits : NP (verifyCommitPayloadsAgainstHeader cfg).
Proof.
  intros s0 H0. unfold verifyCommitPayloadsAgainstHeader. apply n_get.
  eapply n_conseq.
  { refine (n_forM (fun s _ => Sz s /\ K s0 s) _ _ _ s0 [] _); [|split; [exact H0|apply K_refl]].
    intros i s n Hin [Hs Hk]. apply in_seq in Hin. apply n_get.
    assert (Hi : 0 <= Z.of_nat i < zlen (CommitPayloads s)).
    { rewrite (sz_cm _ Hs), (K_N _ _ Hk), <- (sz_cm _ H0). unfold zlen. lia. }
    ntget. { exact Hi. } rewrite Nat2Z.id in Hx.
    destruct x as [p|]; [|apply n_ret; auto]. destruct (p_view p =? ViewNumber s); [|apply n_ret; auto].
    eapply n_np; [apply np_MakeHeader|exact Hs|]. intros hb s1 n1 S1 K1. destruct hb as [b|]; [|apply n_ret; split; [exact S1|eapply K_trans; eauto]].
    apply n_get.
    assert (Hp : 0 <= p_idx p < N s) by (apply (tall_nth _ _ _ _ (sz_cmi _ Hs) Hx)).
    ntget. { unfold N in *. destruct K1 as (E & _). rewrite E. exact Hp. }
    destruct (block_verify _ _ _); [apply n_ret; split; [exact S1|eapply K_trans; eauto]|].
    ntset. { rewrite (sz_cm _ S1), (K_N _ _ K1), <- (sz_cm _ Hs). exact Hi. }
    apply n_modify_last. split; [|eapply K_trans; [exact Hk|]; eapply K_trans; [exact K1|kk]].
    pose proof (zlen_set _ _ _ _ Hl) as Hz. assert (Hok : idx_ok (N s1) l) by (eapply idx_ok_set; [exact (sz_cmi _ S1)| |exact Hl]; intros ? [=]).
    destruct S1 as [H0' ? ? ? ? ? ? ? ? ? ? ? ? ? ?]; destruct H0'; constructor; [constructor|..]; unfold Mq, F, N, primary_of, idx_ok in *; cbn in *; try assumption; try lia. }
  cbn. intros _ s n H. exact H.
Qed.
Hint Resolve np_verifyCommits : npdb.

Ltac sz_split S := let H0' := fresh "H0" in
  destruct S as [H0' ? ? ? ? ? ? ? ? ? ? ? ? ? ?]; destruct H0'; constructor; [constructor|..]; unfold Mq, F, N, primary_of, idx_ok in *; cbn in *; try assumption; try lia.

Lemma np_verifyPreCommits : NP verifyPreCommitPayloadsAgainstPreBlock.
Proof.
  intros s0 H0. unfold verifyPreCommitPayloadsAgainstPreBlock. apply n_get.
  destruct (negb (hasAllTransactions s0)); [apply n_ret; split; [exact H0|apply K_refl]|].
  eapply n_conseq.
  { refine (n_forM (fun s _ => Sz s /\ K s0 s) _ _ _ s0 [] _); [|split; [exact H0|apply K_refl]].
    intros i s n Hin [Hs Hk]. apply in_seq in Hin. apply n_get.
    assert (Hi : 0 <= Z.of_nat i < zlen (PreCommitPayloads s)).
    { rewrite (sz_pc _ Hs), (K_N _ _ Hk), <- (sz_pc _ H0). unfold zlen. lia. }
    ntget. { exact Hi. } rewrite Nat2Z.id in Hx.
    destruct x as [p|]; [|apply n_ret; auto]. destruct (p_view p =? ViewNumber s); [|apply n_ret; auto].
    eapply n_np; [apply np_CreatePreBlock|exact Hs|]. intros hb s1 n1 S1 K1. destruct hb as [b|]; [|apply n_ret; split; [exact S1|eapply K_trans; eauto]].
    apply n_get.
    assert (Hp : 0 <= p_idx p < N s) by (apply (tall_nth _ _ _ _ (sz_pci _ Hs) Hx)).
    ntget. { unfold N in *. destruct K1 as (E & _). rewrite E. exact Hp. }
    destruct (preblock_verify _ _ _); [apply n_ret; split; [exact S1|eapply K_trans; eauto]|].
    ntset. { rewrite (sz_pc _ S1), (K_N _ _ K1), <- (sz_pc _ Hs). exact Hi. }
    apply n_modify_last. split; [|eapply K_trans; [exact Hk|]; eapply K_trans; [exact K1|kk]].
    pose proof (zlen_set _ _ _ _ Hl) as Hz.
    assert (Hok : idx_ok (N s1) l) by (eapply idx_ok_set; [exact (sz_pci _ S1)| |exact Hl]; intros ? [=]).
    sz_split S1. }
  cbn. intros _ s n H. exact H.
Qed.
Hint Resolve np_verifyPreCommits : npdb.

Lemma nth_chk_map' {S T} (f : S -> T) l i : nth_chk (map f l) i = option_map f (nth_chk l i).
Proof. revert i; induction l as [|y t IH]; intros i; destruct i; cbn; auto. Qed.
Lemma np_updateExistingPayloads m : NP (updateExistingPayloads cfg m).
Proof.
  unfold updateExistingPayloads. apply NP_bind; [|intros _; np_go].
  apply NP_modify. intros s H. split; [|kk].
  set (f := fun o : option payload => match o with
                   | Some m0 => if mtype_eqb (p_type m0) PrepareResponseT && negb (hash_eqb (resp_prephash m0) (payload_hash m))
                               then None else Some m0
                   | None => None end).
  pose proof (zlen_map f (PreparationPayloads s)) as Hz.
  assert (Hk : forall q, nth_chk (map f (PreparationPayloads s)) (Z.to_nat (PrimaryIndex s)) = Some (Some q) -> p_type q = PrepareRequestT).
  { intros q Hq. rewrite nth_chk_map' in Hq. destruct (nth_chk (PreparationPayloads s) (Z.to_nat (PrimaryIndex s))) as [[q0|]|] eqn:E; cbn in Hq; try discriminate.
    unfold f in Hq. destruct (_ && _); [discriminate|]. injection Hq as <-. apply (sz_k4 _ H _ E). }
  sz_split H.
Qed.
Hint Resolve np_updateExistingPayloads : npdb.
Lemma np_checkCommit : NP (checkCommit cfg). Proof. unfold checkCommit. np_go. Qed.
Hint Resolve np_checkCommit : npdb.

Lemma u16_range x n : 0 <= x < n -> 0 <= u16 x < n.
Proof. intros H. unfold u16. pose proof (Z.mod_pos_bound x 65536 ltac:(lia)). pose proof (Z.mod_le x 65536 ltac:(lia) ltac:(lia)). lia. Qed.
Lemma K_my a b : K a b -> MyIndex b = MyIndex a. Proof. intros (_&E&_). exact E. Qed.
Lemma K_pi a b : K a b -> PrimaryIndex b = PrimaryIndex a. Proof. intros (_&_&E&_). exact E. Qed.

Lemma np_makeChangeView ts r : NPi (makeChangeView ts r).
Proof.
  intros s0 H Hm. unfold makeChangeView. apply n_get. cbv zeta. ntset. { rewrite (sz_cv _ H). pose proof (sz_my _ H). lia. }
  apply n_modify. apply n_ret. split; [|kk]. pose proof (zlen_set _ _ _ _ Hl) as Hz. sz_split H.
Qed.

Definition has_req (s : nstate) : Prop := exists q, nth_chk (PreparationPayloads s) (Z.to_nat (PrimaryIndex s)) = Some (Some q).
Lemma k4_set_other s l i v : (forall q, nth_chk (PreparationPayloads s) (Z.to_nat (PrimaryIndex s)) = Some (Some q) -> p_type q = PrepareRequestT) ->
  set_chk (PreparationPayloads s) (Z.to_nat i) v = Some l -> 0 <= i -> 0 <= PrimaryIndex s -> i <> PrimaryIndex s ->
  forall q, nth_chk l (Z.to_nat (PrimaryIndex s)) = Some (Some q) -> p_type q = PrepareRequestT.
Proof. intros Hk Hl Hi Hp Hne q Hq. rewrite (nth_set_other _ _ _ _ _ Hl) in Hq by lia. apply Hk, Hq. Qed.
Lemma k4_set_req s l i m : (forall q, nth_chk (PreparationPayloads s) (Z.to_nat (PrimaryIndex s)) = Some (Some q) -> p_type q = PrepareRequestT) ->
  set_chk (PreparationPayloads s) (Z.to_nat i) (Some m) = Some l -> p_type m = PrepareRequestT ->
  forall q, nth_chk l (Z.to_nat (PrimaryIndex s)) = Some (Some q) -> p_type q = PrepareRequestT.
Proof.
  intros Hk Hl Ty q Hq. destruct (Nat.eq_dec (Z.to_nat i) (Z.to_nat (PrimaryIndex s))) as [E|E].
  - rewrite <- E, (nth_set_same _ _ _ _ Hl) in Hq. injection Hq as <-. exact Ty.
  - rewrite (nth_set_other _ _ _ _ _ Hl) in Hq by exact E. apply Hk, Hq.
Qed.

Lemma np_makePrepareResponse s0 : Sz s0 -> 0 <= MyIndex s0 -> MyIndex s0 <> PrimaryIndex s0 -> has_req s0 -> nx s0 makePrepareResponse (fun _ s _ => Sz s /\ K s0 s).
Proof.
  intros H Hm Hne [q Hq]. unfold makePrepareResponse. apply n_get. ntget. { pose proof (sz_pi _ H). rewrite (sz_prep _ H). lia. }
  rewrite Hq in Hx. injection Hx as <-. cbv zeta.
  ntset. { rewrite (sz_prep _ H). pose proof (sz_my _ H). lia. }
  apply n_modify. apply n_ret. split; [|kk]. pose proof (zlen_set _ _ _ _ Hl) as Hz.
  pose proof (k4_set_other s0 l _ _ (sz_k4 _ H) Hl Hm (proj1 (sz_pi _ H)) Hne) as Hk. sz_split H.
Qed.
Lemma np_sendPrepareResponse s0 : Sz s0 -> 0 <= MyIndex s0 -> MyIndex s0 <> PrimaryIndex s0 -> has_req s0 -> nx s0 sendPrepareResponse (fun _ s _ => Sz s /\ K s0 s).
Proof.
  intros H Hm Hne Hq. unfold sendPrepareResponse. eapply n_call; [apply (np_makePrepareResponse s0 H Hm Hne Hq)|]. intros m s1 n1 [S1 K1].
  eapply n_np; [apply np_StopTxFlow|exact S1|]. intros [] s2 n2 S2 K2.
  eapply n_np_last; [apply np_broadcast|exact S2|]. intros [] s3 n3 S3 K3. split; [exact S3|]. eauto using K_trans.
Qed.

(* own (pre)commit: the payload that goes into the node's own slot carries an index inside the list *)
Lemma np_makePreCommit s0 : Sz s0 -> 0 <= MyIndex s0 ->
  nx s0 makePreCommit (fun r s _ => Sz s /\ K s0 s /\ forall m, r = Some m -> 0 <= p_idx m < N s).
Proof.
  intros H Hm. unfold makePreCommit. apply n_get. ntget. { rewrite (sz_pc _ H). pose proof (sz_my _ H). lia. }
  destruct x as [m|].
  - apply n_ret. split; [exact H|split; [apply K_refl|]]. intros m' [= <-]. apply (tall_nth _ _ _ _ (sz_pci _ H) Hx).
  - eapply n_np; [apply np_CreatePreBlock|exact H|]. intros pb s1 n1 S1 K1. destruct pb as [b|].
    + unfold ask_unit. apply n_ask. intros [] c Hc. apply n_get. cbv zeta. apply n_modify. apply n_ret.
      split; [sz_split S1|split; [eapply K_trans; [exact K1|kk]|]]. intros m [= <-]. unfold mk_payload. cbn [p_idx].
      unfold N. cbn [Validators set]. fold (N s1). apply u16_range. rewrite (K_my _ _ K1), (K_N _ _ K1). pose proof (sz_my _ H). lia.
    + apply n_ret. split; [exact S1|split; [exact K1|discriminate]].
Qed.
Lemma np_makeCommit s0 : Sz s0 -> 0 <= MyIndex s0 ->
  nx s0 (makeCommit cfg) (fun r s _ => Sz s /\ K s0 s /\ forall m, r = Some m -> 0 <= p_idx m < N s).
Proof.
  intros H Hm. unfold makeCommit. apply n_get. ntget. { rewrite (sz_cm _ H). pose proof (sz_my _ H). lia. }
  destruct x as [m|].
  - apply n_ret. split; [exact H|split; [apply K_refl|]]. intros m' [= <-]. apply (tall_nth _ _ _ _ (sz_cmi _ H) Hx).
  - eapply n_np; [apply np_MakeHeader|exact H|]. intros pb s1 n1 S1 K1. destruct pb as [b|].
    + unfold ask_unit. apply n_ask. intros [] c Hc. apply n_get. cbv zeta. apply n_modify. apply n_ret.
      split; [sz_split S1|split; [eapply K_trans; [exact K1|kk]|]]. intros m [= <-]. unfold mk_payload. cbn [p_idx].
      unfold N. cbn [Validators set]. fold (N s1). apply u16_range. rewrite (K_my _ _ K1), (K_N _ _ K1). pose proof (sz_my _ H). lia.
    + apply n_ret. split; [exact S1|split; [exact K1|discriminate]].
Qed.
Lemma np_sendPreCommit : NPi sendPreCommit.
Proof.
  intros s0 H Hm. unfold sendPreCommit. eapply n_call; [apply (np_makePreCommit s0 H Hm)|]. intros m s1 n1 (S1 & K1 & Hi). destruct m as [msg|].
  - apply n_get. ntset. { rewrite (sz_pc _ S1), (K_my _ _ K1), (K_N _ _ K1). pose proof (sz_my _ H). lia. }
    apply n_modify. specialize (Hi msg eq_refl).
    assert (S2 : Sz (s1 <| PreCommitPayloads := l |>)).
    { pose proof (zlen_set _ _ _ _ Hl) as Hz.
      assert (Hok : idx_ok (N s1) l) by (eapply idx_ok_set; [exact (sz_pci _ S1)| |exact Hl]; intros ? [= <-]; exact Hi). sz_split S1. }
    eapply n_np_last; [apply np_broadcast|exact S2|]. intros [] s3 n3 S3 K3. split; [exact S3|]. eapply K_trans; [exact K1|]. eapply K_trans; [|exact K3]. kk.
  - apply n_ret. auto.
Qed.
Lemma np_sendCommit : NPi (sendCommit cfg).
Proof.
  intros s0 H Hm. unfold sendCommit. eapply n_call; [apply (np_makeCommit s0 H Hm)|]. intros m s1 n1 (S1 & K1 & Hi). destruct m as [msg|].
  - apply n_get. ntset. { rewrite (sz_cm _ S1), (K_my _ _ K1), (K_N _ _ K1). pose proof (sz_my _ H). lia. }
    apply n_modify. specialize (Hi msg eq_refl).
    assert (S2 : Sz (s1 <| CommitPayloads := l |>)).
    { pose proof (zlen_set _ _ _ _ Hl) as Hz.
      assert (Hok : idx_ok (N s1) l) by (eapply idx_ok_set; [exact (sz_cmi _ S1)| |exact Hl]; intros ? [= <-]; exact Hi). sz_split S1. }
    eapply n_np_last; [apply np_broadcast|exact S2|]. intros [] s3 n3 S3 K3. split; [exact S3|]. eapply K_trans; [exact K1|]. eapply K_trans; [|exact K3]. kk.
  - apply n_ret. auto.
Qed.

Lemma n_npi {A B} s0 (x : M A) (f : A -> M B) Q :
  NPi x -> Sz s0 -> 0 <= MyIndex s0 -> (forall a s1 n1, Sz s1 -> K s0 s1 -> nx s1 (f a) (fun b s n2 => Q b s (n1 ++ n2))) -> nx s0 (bind x f) Q.
Proof. intros Hx Hs Hm Hf. eapply n_call; [apply (Hx s0 Hs Hm)|]. intros a s1 n1 [S1 K1]. apply Hf; auto. Qed.
Lemma n_npi_last {A} s0 (x : M A) (Q : A -> nstate -> tr_t -> Prop) :
  NPi x -> Sz s0 -> 0 <= MyIndex s0 -> (forall a s1 n1, Sz s1 -> K s0 s1 -> Q a s1 n1) -> nx s0 x Q.
Proof. intros Hx Hs Hm Hq. eapply n_conseq; [apply (Hx s0 Hs Hm)|]. cbn. intros a s n [S1 K1]. auto. Qed.
Ltac ktr := repeat match goal with
  | |- K ?a ?a => apply K_refl
  | H : K ?a ?b |- K ?a ?b => exact H
  | H : K ?a ?b |- K ?a ?c => apply (K_trans a b c H)
  end.
Ltac fin S := split; [exact S|ktr].

Lemma np_checkPreCommit : NP (checkPreCommit cfg).
Proof.
  intros s0 H. unfold checkPreCommit. apply n_get. destruct (negb _); [apply n_ret; fin H|]. cbv zeta. destruct (_ <? _); [apply n_ret; fin H|].
  eapply n_np; [apply np_CreatePreBlock|exact H|]. intros pb s1 n1 S1 K1. destruct pb as [b|]; [|apply n_ret; fin S1].
  apply n_get.
  eapply n_call with (Qx := fun _ s _ => Sz s /\ K s1 s).
  { destruct (negb (preBlockProcessed s1)); [|apply n_ret; fin S1]. apply n_ask. intros err c Hc. destruct err; [apply n_ret; fin S1|].
    apply n_modify. apply n_ret. split; [sz_keep S1|kk]. }
  intros cont s2 n2 [S2 K2]. destruct (negb cont); [apply n_ret; fin S2|].
  eapply n_call; [apply n_own_slot; rewrite (sz_pc _ S2); apply (sz_my _ S2)|]. intros ps s3 n3 [-> Hps]. destruct ps.
  - specialize (Hps eq_refl). eapply n_np; [apply np_verifyCommits|exact S2|]. intros [] s4 n4 S4 K4.
    eapply n_npi; [apply np_sendCommit|exact S4|rewrite (K_my _ _ K4); exact Hps|]. intros [] s5 n5 S5 K5.
    apply n_get. eapply n_np; [apply np_changeTimer|exact S5|]. intros [] s6 n6 S6 K6.
    eapply n_np_last; [apply np_checkCommit|exact S6|]. intros [] s7 n7 S7 K7. fin S7.
  - eapply n_np; [apply np_WatchOnly|exact S2|]. intros wo s4 n4 S4 K4. apply n_ret. fin S4.
Qed.
Hint Resolve np_checkPreCommit : npdb.

Lemma np_checkPrepare : NPi (checkPrepare cfg).
Proof.
  intros s0 H Hm. unfold checkPrepare. apply n_get.
  eapply n_call with (Qx := fun _ s _ => Sz s /\ K s0 s).
  { destruct (_ || _); [|apply n_ret; fin H]. unfold ask_now. apply n_ask. intros t c Hc. apply n_modify_last. split; [sz_keep H|kk]. }
  intros [] s1 n1 [S1 K1]. apply n_get. destruct (negb _); [apply n_ret; fin S1|]. cbv zeta. destruct (_ && _); [|apply n_ret; fin S1].
  assert (Hm1 : 0 <= MyIndex s1) by (rewrite (K_my _ _ K1); exact Hm).
  destruct (amev_on cfg s1).
  - eapply n_npi; [apply np_sendPreCommit|exact S1|exact Hm1|]. intros [] s2 n2 S2 K2. apply n_get.
    eapply n_np; [apply np_changeTimer|exact S2|]. intros [] s3 n3 S3 K3.
    eapply n_np_last; [apply np_checkPreCommit|exact S3|]. intros [] s4 n4 S4 K4. fin S4.
  - eapply n_npi; [apply np_sendCommit|exact S1|exact Hm1|]. intros [] s2 n2 S2 K2. apply n_get.
    eapply n_np; [apply np_changeTimer|exact S2|]. intros [] s3 n3 S3 K3.
    eapply n_np_last; [apply np_checkCommit|exact S3|]. intros [] s4 n4 S4 K4. fin S4.
Qed.

Lemma np_sendPrepareRequest force : NPi (sendPrepareRequest cfg force).
Proof.
  intros s0 H Hm. unfold sendPrepareRequest.
  assert (Hmk : forall s, Sz s -> nx s (makePrepareRequest cfg force) (fun r s' _ => (Sz s' /\ K s s') /\ forall m, r = Some m -> p_type m = PrepareRequestT)).
  { intros s Ss. eapply n_conseq; [apply n_conj; [apply (np_makePrepareRequest force s Ss)|apply (t_makePrepareRequest cfg force s)]|].
    cbn. intros r s' n [A (_ & _ & B & _)]. split; [exact A|]. intros m Hm'. destruct (B m Hm') as [-> _]. reflexivity. }
  eapply n_call; [apply (Hmk s0 H)|]. intros m1 s1 n1 [[S1 K1] Ty1].
  eapply n_call with (Qx := fun r s _ => (Sz s /\ K s0 s) /\ forall m, r = Some m -> p_type m = PrepareRequestT).
  { destruct m1; [apply n_ret; split; [fin S1|exact Ty1]|]. eapply n_np; [apply np_subscribe|exact S1|]. intros [] s2 n2 S2 K2.
    eapply n_conseq; [apply (Hmk s2 S2)|]. cbn. intros m s3 n3 [[S3 K3] Ty3]. split; [fin S3|exact Ty3]. }
  intros m2 s2 n2 [[S2 K2] Ty2]. destruct m2 as [msg|].
  - specialize (Ty2 msg eq_refl).
    eapply n_np; [apply np_unsubscribe|exact S2|]. intros [] s3 n3 S3 K3. apply n_get.
    assert (Hm3 : 0 <= MyIndex s3) by (rewrite (K_my _ _ K3), (K_my _ _ K2); exact Hm).
    ntset. { rewrite (sz_prep _ S3). pose proof (sz_my _ S3). lia. }
    apply n_modify.
    assert (S4 : Sz (s3 <| PreparationPayloads := l |>)).
    { pose proof (zlen_set _ _ _ _ Hl) as Hz. pose proof (k4_set_req s3 l _ msg (sz_k4 _ S3) Hl Ty2) as Hk. sz_split S3. }
    assert (K4 : K s3 (s3 <| PreparationPayloads := l |>)) by kk.
    eapply n_np; [apply np_broadcast|exact S4|]. intros [] s5 n5 S5 K5.
    eapply n_np; [apply np_updateExistingPayloads|exact S5|]. intros [] s6 n6 S6 K6.
    unfold ask_now. apply n_ask. intros t c Hc. apply n_modify. apply n_get. cbv zeta.
    assert (S7 : Sz (s6 <| prepareSentTime := Some t |>)) by (sz_keep S6).
    assert (K7 : K s6 (s6 <| prepareSentTime := Some t |>)) by kk.
    eapply n_np; [apply np_changeTimer|exact S7|]. intros [] s8 n8 S8 K8.
    eapply n_npi_last; [apply np_checkPrepare|exact S8|..].
    + rewrite (K_my _ _ K8), (K_my _ _ K7), (K_my _ _ K6), (K_my _ _ K5), (K_my _ _ K4). exact Hm3.
    + intros [] s9 n9 S9 K9. fin S9.
  - apply n_get. eapply n_np_last; [apply np_changeTimer|exact S2|]. intros [] s3 n3 S3 K3. fin S3.
Qed.

(* ---------------- functions that can reach the (re)initialisation ---------------- *)
Definition NQ {A} (x : M A) : Prop := forall s0, Sz s0 -> nx s0 x (fun _ s _ => Sz s).
Lemma n_nq {A B} s0 (x : M A) (f : A -> M B) Q :
  NQ x -> Sz s0 -> (forall a s1 n1, Sz s1 -> nx s1 (f a) (fun b s n2 => Q b s (n1 ++ n2))) -> nx s0 (bind x f) Q.
Proof. intros Hx Hs Hf. eapply n_call; [apply (Hx s0 Hs)|]. intros a s1 n1 S1. apply Hf; auto. Qed.
Lemma NP_NQ {A} (x : M A) : NP x -> NQ x.
Proof. intros H s0 Hs. eapply n_conseq; [apply (H s0 Hs)|]. cbn. intros a s n [S1 _]. exact S1. Qed.

(* entering view v > 0 requires M requests for v or above in ChangeViewPayloads (checkChangeView has just counted them) *)
Definition CVq (view : Z) (s : nstate) : Prop := 0 < view -> Mq s <= cnt_ge view (ChangeViewPayloads s).
Definition ICok (ic : Z -> Z -> M unit) : Prop := forall v ts s0, Sz s0 -> CVq v s0 -> nx s0 (ic v ts) (fun _ s _ => Sz s).

Section Rec.
Variable ic : Z -> Z -> M unit.
Hypothesis Hic : ICok ic.

Lemma nq_checkChangeView view : NQ (checkChangeView ic view).
Proof.
  intros s0 H. unfold checkChangeView. apply n_get. destruct (_ >=? _); [apply n_ret; exact H|]. cbv zeta.
  destruct (_ <? Mq s0) eqn:Ec; [apply n_ret; exact H|]. apply Z.ltb_ge in Ec. fold (cnt_ge view (ChangeViewPayloads s0)) in Ec.
  eapply n_call; [apply n_WatchOnly|]. intros wo s1 n1 [-> Hw].
  eapply n_call with (Qx := fun _ s _ => Sz s /\ Validators s = Validators s0 /\ cnt_ge view (ChangeViewPayloads s0) <= cnt_ge view (ChangeViewPayloads s)).
  { destruct wo; [apply n_ret; split; [exact H|split; [reflexivity|lia]]|]. specialize (Hw eq_refl). apply n_get.
    ntget. { rewrite (sz_cv _ H). pose proof (sz_my _ H). lia. }
    destruct x as [m|]; [|apply n_ret; split; [exact H|split; [reflexivity|lia]]]. destruct (cv_newview m <? view) eqn:Em; [|apply n_ret; split; [exact H|split; [reflexivity|lia]]].
    unfold ask_now. apply n_ask. intros t c Hc. unfold makeChangeView. apply n_assoc. apply n_get. cbv zeta. apply n_assoc.
    ntset. { rewrite (sz_cv _ H). pose proof (sz_my _ H). lia. }
    apply n_assoc. apply n_modify. apply n_ret_bind.
    match goal with |- nx ?st _ _ => set (s2 := st) end.
    assert (S2 : Sz s2) by (unfold s2; pose proof (zlen_set _ _ _ _ Hl) as Hz; sz_split H).
    unfold broadcast. apply n_get. unfold ask_unit. apply n_ask_last. intros [] c2 Hc2.
    split; [exact S2|split; [reflexivity|]]. unfold s2. cbn [ChangeViewPayloads set]. unfold cnt_ge.
    eapply count_set_ge; [exact Hl|exact Hx|]. cbn. rewrite Z.geb_leb. apply Z.leb_gt. apply Z.ltb_lt in Em. exact Em. }
  intros [] s2 n2 (S2 & V2 & C2). apply n_get. eapply n_conseq; [apply (Hic _ _ s2 S2)|auto].
  intros _. unfold Mq, F, N in *. rewrite V2. lia.
Qed.

Lemma nq_sendChangeView r : NQ (sendChangeView ic r).
Proof.
  intros s0 H. unfold sendChangeView. eapply n_call; [apply n_WatchOnly|]. intros wo s1 n1 [-> Hw].
  destruct wo; [apply n_ret; exact H|]. specialize (Hw eq_refl). apply n_get. cbv zeta.
  eapply n_np; [apply np_changeTimer|exact H|]. intros [] s2 n2 S2 K2.
  destruct (_ && _).
  - eapply n_np_last; [apply np_sendRecoveryRequest|exact S2|]. intros [] s3 n3 S3 K3. exact S3.
  - unfold ask_now. apply n_ask. intros t c Hc.
    eapply n_npi; [apply np_makeChangeView|exact S2|rewrite (K_my _ _ K2); exact Hw|]. intros msg s3 n3 S3 K3.
    eapply n_np; [apply np_StopTxFlow|exact S3|]. intros [] s4 n4 S4 K4.
    eapply n_np; [apply np_broadcast|exact S4|]. intros [] s5 n5 S5 K5.
    eapply n_conseq; [apply (nq_checkChangeView _ s5 S5)|]. auto.
Qed.

(* the block check: when it answers true nothing but the (pre-)header changed *)
Lemma nq_createAndCheckBlock s0 : Sz s0 ->
  nx s0 (createAndCheckBlock cfg ic) (fun ok s _ => Sz s /\ (ok = true -> K s0 s /\ PreparationPayloads s = PreparationPayloads s0)).
Proof.
  intros H. unfold createAndCheckBlock. apply n_get.
  eapply n_call with (Qx := fun _ s _ => Sz s /\ K s0 s /\ PreparationPayloads s = PreparationPayloads s0).
  { destruct (amev_on cfg s0).
    - eapply n_call; [apply n_conj; [apply (np_CreatePreBlock s0 H)|apply (f_CreatePreBlock cfg s0)]|].
      intros b s1 n1 ((S1 & K1) & (R1 & _)). apply n_ask_last. intros ok c Hc. split; [exact S1|split; [exact K1|]]. apply R1.
    - eapply n_call; [apply n_conj; [apply (np_CreateBlock s0 H)|apply (f_CreateBlock cfg s0)]|].
      intros b s1 n1 ((S1 & K1) & (R1 & _)). apply n_ask_last. intros ok c Hc. split; [exact S1|split; [exact K1|]]. apply R1. }
  intros ok s1 n1 (S1 & K1 & P1). destruct ok.
  - apply n_ret. auto.
  - eapply n_nq; [apply nq_sendChangeView|exact S1|]. intros [] s2 n2 S2. apply n_ret. split; [exact S2|discriminate].
Qed.

Lemma vpc_prep s0 : hx s0 verifyPreCommitPayloadsAgainstPreBlock (fun _ s _ => PreparationPayloads s = PreparationPayloads s0).
Proof.
  unfold verifyPreCommitPayloadsAgainstPreBlock. apply x_get. destruct (negb _); [apply x_ret; reflexivity|].
  eapply x_conseq.
  { refine (x_forM (fun s _ => PreparationPayloads s = PreparationPayloads s0) _ _ _ s0 [] eq_refl).
    intros i s n Hin Hs. apply x_get. apply x_tget. intros x _ _. destruct x as [p|]; [|apply x_ret; exact Hs].
    destruct (_ =? _); [|apply x_ret; exact Hs].
    eapply x_rt; [apply (f_CreatePreBlock cfg)|]. intros pb s1 n1 R1 _. cbn beta.
    assert (P1 : PreparationPayloads s1 = PreparationPayloads s0) by (rewrite <- Hs; apply R1).
    destruct pb as [b|]; [|apply x_ret; exact P1]. apply x_get. apply x_tget. intros pub _ _.
    destruct (preblock_verify _ _ _); [apply x_ret; exact P1|]. apply x_tset. intros l _ _. apply x_modify_last. exact P1. }
  cbn. auto.
Qed.

Lemma has_req_keep a b : has_req a -> PreparationPayloads b = PreparationPayloads a -> PrimaryIndex b = PrimaryIndex a -> has_req b.
Proof. intros [q Hq] E1 E2. exists q. rewrite E1, E2. exact Hq. Qed.

(* the tail shared by addTransaction and onPrepareRequest: respond and look for a preparation quorum *)
Lemma n_respond s0 : Sz s0 -> 0 <= MyIndex s0 -> MyIndex s0 <> PrimaryIndex s0 -> has_req s0 ->
  nx s0 (sendPrepareResponse ;;; checkPrepare cfg) (fun _ s _ => Sz s).
Proof.
  intros H Hm Hne Hq. eapply n_call; [apply (np_sendPrepareResponse s0 H Hm Hne Hq)|]. intros [] s1 n1 [S1 K1].
  eapply n_npi_last; [apply np_checkPrepare|exact S1|rewrite (K_my _ _ K1); exact Hm|]. intros [] s2 n2 S2 _. exact S2.
Qed.

Lemma nq_addTransaction t s0 : Sz s0 -> has_req s0 -> nx s0 (addTransaction cfg ic t) (fun _ s _ => Sz s).
Proof.
  intros H Hq. unfold addTransaction. apply n_modify. apply n_get.
  set (s1 := s0 <| Transactions := tx_put (Transactions s0) (tx_hash t) t |>).
  assert (S1 : Sz s1) by (unfold s1; sz_keep H). assert (Q1 : has_req s1) by (destruct Hq as [q Hq]; exists q; exact Hq).
  destruct (negb _); [apply n_ret; exact S1|]. destruct (IsPrimary s1) eqn:Ep1; [apply n_ret; exact S1|].
  assert (Hne1 : MyIndex s1 <> PrimaryIndex s1) by (unfold IsPrimary in Ep1; apply Z.eqb_neq in Ep1; exact Ep1).
  eapply n_call; [apply n_WatchOnly|]. intros wo s2 n2 [-> Hw]. destruct wo; [apply n_ret; exact S1|]. specialize (Hw eq_refl).
  eapply n_call; [apply (nq_createAndCheckBlock s1 S1)|]. intros ok s3 n3 (S3 & Hok). destruct ok; cbn [negb]; [|apply n_ret; exact S3].
  destruct (Hok eq_refl) as [K3 P3].
  eapply n_call; [apply n_conj; [apply (np_verifyPreCommits s3 S3)|apply (vpc_prep s3)]|]. intros [] s4 n4 ((S4 & K4) & P4).
  eapply n_call; [apply n_conj; [apply (np_extendTimer 2 s4 S4)|apply (f_extendTimer cfg 2 s4)]|]. intros [] s5 n5 ((S5 & K5) & (R5 & _)).
  apply n_respond; [exact S5|rewrite (K_my _ _ K5), (K_my _ _ K4), (K_my _ _ K3); exact Hw| |].
  { rewrite (K_my _ _ K5), (K_my _ _ K4), (K_my _ _ K3), (K_pi _ _ K5), (K_pi _ _ K4), (K_pi _ _ K3). exact Hne1. }
  eapply has_req_keep; [exact Q1|..].
  - assert (E5 : PreparationPayloads s5 = PreparationPayloads s4) by apply R5. congruence.
  - rewrite (K_pi _ _ K5), (K_pi _ _ K4), (K_pi _ _ K3). reflexivity.
Qed.

Lemma GetPrimaryIndex_eq s v : 0 < N s -> GetPrimaryIndex s v = ret (primary_of s v).
Proof. intros H. unfold GetPrimaryIndex, primary_of. destruct (N s =? 0) eqn:E; [apply Z.eqb_eq in E; lia|reflexivity]. Qed.
Lemma K_primary_of a b v : K a b -> primary_of b v = primary_of a v.
Proof. intros Hk. unfold primary_of. rewrite (K_N _ _ Hk). destruct Hk as (_&_&_&E&_). rewrite E. reflexivity. Qed.
Lemma K_view a b : K a b -> ViewNumber b = ViewNumber a. Proof. intros (_&_&_&_&E). exact E. Qed.

Lemma nq_onPrepareRequest msg s0 : Sz s0 -> 0 <= p_idx msg < N s0 -> p_type msg = PrepareRequestT ->
  nx s0 (onPrepareRequest cfg ic msg) (fun _ s _ => Sz s).
Proof.
  intros H Hi Ty. unfold onPrepareRequest.
  eapply n_call; [apply (n_RSOR s0 H)|]. intros rs s1 n1 [-> _]. destruct rs.
  { eapply n_np; [apply np_ViewChanging|exact H|]. intros vc s2 n2 S2 _. apply n_ret. exact S2. }
  apply n_get. destruct (negb _); [apply n_ret; exact H|].
  rewrite (GetPrimaryIndex_eq _ _ (sz_n _ H)). apply n_ret_bind.
  destruct (p_idx msg =? _) eqn:Ep; cbn [negb]; [|apply n_ret; exact H]. apply Z.eqb_eq in Ep. rewrite <- (sz_pf _ H) in Ep.
  apply n_ask. intros ok c Hc. destruct ok; cbn [negb].
  2:{ eapply n_conseq; [apply (nq_sendChangeView _ s0 H)|]. auto. }
  eapply n_np; [apply np_extendTimer|exact H|]. intros [] s2 n2 S2 K2.
  unfold p_type in Ty. destruct (p_body msg) as [[]|] eqn:Eb; try discriminate Ty.
  apply n_modify.
  match goal with |- nx ?st _ _ => set (s3 := st) end.
  assert (S3 : Sz s3) by (unfold s3; sz_keep S2). assert (K3 : K s2 s3) by (unfold s3; kk).
  eapply n_np; [apply np_processMissingTx|exact S3|]. intros [] s4 n4 S4 K4.
  eapply n_np; [apply np_updateExistingPayloads|exact S4|]. intros [] s5 n5 S5 K5.
  assert (K05 : K s0 s5) by ktr.
  apply n_get. ntset. { rewrite (sz_prep _ S5), (K_N _ _ K05). exact Hi. }
  apply n_modify. apply n_get.
  match goal with |- nx ?st _ _ => set (s6 := st) end.
  assert (Tym : p_type msg = PrepareRequestT) by (unfold p_type; rewrite Eb; reflexivity).
  assert (S6 : Sz s6) by (unfold s6; pose proof (zlen_set _ _ _ _ Hl) as Hz; pose proof (k4_set_req s5 l _ msg (sz_k4 _ S5) Hl Tym) as Hk; sz_split S5).
  assert (K6 : K s0 s6) by (eapply K_trans; [exact K05|unfold s6; kk]).
  assert (Q6 : has_req s6).
  { exists msg. unfold s6. cbn [PreparationPayloads PrimaryIndex set]. rewrite (K_pi _ _ K05), <- Ep. eapply nth_set_same; exact Hl. }
  destruct (negb _); [apply n_ret; exact S6|].
  eapply n_call; [apply (nq_createAndCheckBlock s6 S6)|]. intros ok s7 n7 (S7 & Hok). destruct ok; cbn [negb]; [|apply n_ret; exact S7].
  destruct (Hok eq_refl) as [K7 P7].
  eapply n_call; [apply n_WatchOnly|]. intros wo s8 n8 [-> Hw]. destruct wo; [apply n_ret; exact S7|]. specialize (Hw eq_refl).
  apply n_get. destruct (IsPrimary s7) eqn:Ep7.
  - apply n_ret_bind. eapply n_npi_last; [apply np_checkPrepare|exact S7|exact Hw|]. intros [] s9 n9 S9 _. exact S9.
  - apply n_respond; [exact S7|exact Hw|unfold IsPrimary in Ep7; apply Z.eqb_neq in Ep7; exact Ep7|].
    eapply has_req_keep; [exact Q6|exact P7|apply (K_pi _ _ K7)].
Qed.

Lemma nq_onPrepareResponse msg s0 : Sz s0 -> 0 <= p_idx msg < N s0 -> nx s0 (onPrepareResponse cfg msg) (fun _ s _ => Sz s).
Proof.
  intros H Hi. unfold onPrepareResponse. apply n_get. destruct (negb _); [apply n_ret; exact H|].
  rewrite (GetPrimaryIndex_eq _ _ (sz_n _ H)). apply n_ret_bind. destruct (p_idx msg =? _) eqn:Epi; [apply n_ret; exact H|].
  apply Z.eqb_neq in Epi. rewrite <- (sz_pf _ H) in Epi.
  ntget. { rewrite (sz_prep _ H). exact Hi. }
  eapply n_call with (Qx := fun _ s _ => Sz s /\ K s0 s).
  { destruct (isSome x); [apply n_ret; fin H|]. eapply n_np; [apply np_ViewChanging|exact H|]. intros vc s1 n1 S1 K1. apply n_get. apply n_ret. fin S1. }
  intros skip s1 n1 [S1 K1]. destruct skip.
  { eapply n_np; [apply np_ViewChanging|exact S1|]. intros vc s2 n2 S2 _. apply n_ret. exact S2. }
  apply n_ask. intros ok c Hc. destruct ok; cbn [negb]; [|apply n_ret; exact S1].
  apply n_get. ntset. { rewrite (sz_prep _ S1), (K_N _ _ K1). exact Hi. }
  apply n_modify. apply n_get.
  match goal with |- nx ?st _ _ => set (s2 := st) end.
  assert (Epi1 : p_idx msg <> PrimaryIndex s1) by (rewrite (K_pi _ _ K1); exact Epi).
  assert (S2 : Sz s2).
  { unfold s2. pose proof (zlen_set _ _ _ _ Hl) as Hz.
    pose proof (k4_set_other s1 l _ _ (sz_k4 _ S1) Hl (proj1 Hi) (proj1 (sz_pi _ S1)) Epi1) as Hk. sz_split S1. }
  assert (K2 : K s0 s2) by (eapply K_trans; [exact K1|unfold s2; kk]).
  pose proof (primary_of_range s0 (ViewNumber s0) (sz_n _ H)) as Hpr.
  ntget. { rewrite (sz_prep _ S2), (K_N _ _ K2). exact Hpr. }
  assert (Hreq : forall r, x0 = Some r -> p_type r = PrepareRequestT).
  { intros r ->. apply (sz_k4 _ S2). rewrite (K_pi _ _ K2), (sz_pf _ H). exact Hx0. }
  eapply n_call with (Qx := fun _ s _ => Sz s /\ K s0 s).
  { destruct x0 as [r|]; [|apply n_ret; fin S2]. specialize (Hreq r eq_refl). unfold p_type in Hreq.
    destruct (p_body r) as [[]|]; try discriminate Hreq.
    destruct (negb _); [|apply n_ret; fin S2].
    ntset. { rewrite (sz_prep _ S2), (K_N _ _ K2). exact Hi. }
    apply n_modify. apply n_ret. split; [|eapply K_trans; [exact K2|kk]].
    pose proof (zlen_set _ _ _ _ Hl0) as Hz.
    assert (Epi2 : p_idx msg <> PrimaryIndex s2) by (rewrite (K_pi _ _ K2); exact Epi).
    pose proof (k4_set_other s2 l0 _ _ (sz_k4 _ S2) Hl0 (proj1 Hi) (proj1 (sz_pi _ S2)) Epi2) as Hk. sz_split S2. }
  intros mism s3 n3 [S3 K3]. destruct mism; [apply n_ret; exact S3|]. apply n_get.
  eapply n_call with (Qx := fun _ s _ => Sz s /\ K s0 s).
  { destruct (_ && _); [|apply n_ret; fin S3]. unfold ask_now. apply n_ask. intros t c2 Hc2.
    destruct (prepareSentTime s3); [|apply n_ret; fin S3]. eapply n_np_last; [apply np_rtt|exact S3|]. intros [] s4 n4 S4 K4. fin S4. }
  intros [] s4 n4 [S4 K4].
  eapply n_np; [apply np_extendTimer|exact S4|]. intros [] s5 n5 S5 K5.
  eapply n_call; [apply n_WatchOnly|]. intros wo s6 n6 [-> Hw]. destruct wo; [apply n_ret; exact S5|]. specialize (Hw eq_refl).
  eapply n_np; [apply np_CommitSent|exact S5|]. intros cs s6' n6' S6 K6. destruct cs; [apply n_ret; exact S6|]. apply n_get.
  eapply n_call with (Qx := fun _ s _ => Sz s /\ K s5 s).
  { destruct (amev_on cfg s6'); [|apply n_ret; split; [exact S6|exact K6]]. eapply n_np_last; [apply np_PreCommitSent|exact S6|]. intros ps s7 n7 S7 K7. split; [exact S7|ktr]. }
  intros ps s7 n7 [S7 K7]. destruct ps; [apply n_ret; exact S7|].
  eapply n_np; [apply np_RSOR|exact S7|]. intros rs s8 n8 S8 K8. destruct rs; [|apply n_ret; exact S8].
  eapply n_npi_last; [apply np_checkPrepare|exact S8|rewrite (K_my _ _ K8), (K_my _ _ K7); exact Hw|]. intros [] s9 n9 S9 _. exact S9.
Qed.

Lemma nq_onRecoveryRequest msg : NQ (onRecoveryRequest cfg msg).
Proof.
  intros s0 H. unfold onRecoveryRequest. eapply n_call; [apply n_WatchOnly|]. intros wo sw nw [-> Hw]. destruct wo; [apply n_ret; exact H|].
  eapply n_np; [apply np_CommitSent|exact H|]. intros cs s1 n1 S1 K1. apply n_get.
  eapply n_call with (Qx := fun _ s _ => Sz s).
  { destruct cs; [apply n_ret; exact S1|]. destruct (amev_on cfg s1); [|apply n_ret; exact S1].
    eapply n_np_last; [apply np_PreCommitSent|exact S1|]. intros ps s2 n2 S2 _. exact S2. }
  intros ps s2 n2 S2. destruct (negb cs && negb ps).
  - destruct (N s1 =? 0) eqn:E; [apply Z.eqb_eq in E; pose proof (sz_n _ S1); lia|]. destruct (_ >? _); [apply n_ret; exact S2|].
    eapply n_np_last; [apply np_sendRecoveryMessage|exact S2|]. intros [] s3 n3 S3 _. exact S3.
  - eapply n_np_last; [apply np_sendRecoveryMessage|exact S2|]. intros [] s3 n3 S3 _. exact S3.
Qed.

Lemma nq_onChangeView msg s0 : Sz s0 -> 0 <= p_idx msg < N s0 -> nx s0 (onChangeView cfg ic msg) (fun _ s _ => Sz s).
Proof.
  intros H Hi. unfold onChangeView. apply n_get. cbv zeta. destruct (_ <=? _); [apply (nq_onRecoveryRequest msg s0 H)|].
  eapply n_np; [apply np_CommitSent|exact H|]. intros cs s1 n1 S1 K1.
  eapply n_call with (Qx := fun _ s _ => Sz s /\ K s0 s).
  { destruct cs; [apply n_ret; fin S1|]. eapply n_np_last; [apply np_PreCommitSent|exact S1|]. intros ps s2 n2 S2 K2. fin S2. }
  intros ps s2 n2 [S2 K2]. destruct (cs || ps).
  { eapply n_np_last; [apply np_sendRecoveryMessage|exact S2|]. intros [] s3 n3 S3 _. exact S3. }
  apply n_get. ntget. { rewrite (sz_cv _ S2), (K_N _ _ K2). exact Hi. }
  match goal with |- context[if ?b then _ else _] => destruct b end; [apply n_ret; exact S2|].
  ntset. { rewrite (sz_cv _ S2), (K_N _ _ K2). exact Hi. }
  apply n_modify.
  eapply n_conseq; [apply nq_checkChangeView; pose proof (zlen_set _ _ _ _ Hl) as Hz; sz_split S2|]. auto.
Qed.

Lemma nq_onCommit msg s0 : Sz s0 -> 0 <= p_idx msg < N s0 -> nx s0 (onCommit cfg msg) (fun _ s _ => Sz s).
Proof.
  intros H Hi. unfold onCommit. apply n_get. ntget. { rewrite (sz_cm _ H). exact Hi. }
  destruct (isSome x); [apply n_ret; exact H|].
  ntset. { rewrite (sz_cm _ H). exact Hi. }
  apply n_modify.
  match goal with |- nx ?st _ _ => set (s1 := st) end.
  assert (S1 : Sz s1).
  { unfold s1. pose proof (zlen_set _ _ _ _ Hl) as Hz.
    assert (Hok : idx_ok (N s0) l) by (eapply idx_ok_set; [exact (sz_cmi _ H)| |exact Hl]; intros ? [= <-]; exact Hi). sz_split H. }
  assert (K1 : K s0 s1) by (unfold s1; kk).
  assert (Hclr : forall s, Sz s -> K s0 s -> nx s (s' <- get ;; l <- tset (CommitPayloads s') (p_idx msg) None ;; modify (fun s => s <| CommitPayloads := l |>)) (fun _ s _ => Sz s)).
  { intros s Ss Ks. apply n_get. ntset. { rewrite (sz_cm _ Ss), (K_N _ _ Ks). exact Hi. }
    apply n_modify_last. pose proof (zlen_set _ _ _ _ Hl0) as Hz.
    assert (Hok : idx_ok (N s) l0) by (eapply idx_ok_set; [exact (sz_cmi _ Ss)| |exact Hl0]; intros ? [=]). sz_split Ss. }
  destruct (negb _); [apply n_ret; exact S1|].
  apply n_ask. intros ok c Hc. destruct ok; cbn [negb]; [|apply (Hclr s1 S1 K1)].
  eapply n_np; [apply np_extendTimer|exact S1|]. intros [] s2 n2 S2 K2.
  eapply n_np; [apply np_MakeHeader|exact S2|]. intros hb s3 n3 S3 K3. destruct hb as [b|]; [|apply n_ret; exact S3].
  assert (K03 : K s0 s3) by ktr.
  apply n_get. ntget. { unfold N in *. destruct K03 as (E&_). rewrite E. exact Hi. }
  destruct (block_verify _ _ _).
  - eapply n_np_last; [apply np_checkCommit|exact S3|]. intros [] s4 n4 S4 _. exact S4.
  - ntset. { rewrite (sz_cm _ S3), (K_N _ _ K03). exact Hi. }
    apply n_modify_last. pose proof (zlen_set _ _ _ _ Hl0) as Hz.
    assert (Hok : idx_ok (N s3) l0) by (eapply idx_ok_set; [exact (sz_cmi _ S3)| |exact Hl0]; intros ? [=]). sz_split S3.
Qed.

Lemma nq_onPreCommit msg s0 : Sz s0 -> 0 <= p_idx msg < N s0 -> nx s0 (onPreCommit cfg msg) (fun _ s _ => Sz s).
Proof.
  intros H Hi. unfold onPreCommit. apply n_get. ntget. { rewrite (sz_pc _ H). exact Hi. }
  destruct (isSome x); [apply n_ret; exact H|].
  ntset. { rewrite (sz_pc _ H). exact Hi. }
  apply n_modify.
  match goal with |- nx ?st _ _ => set (s1 := st) end.
  assert (S1 : Sz s1).
  { unfold s1. pose proof (zlen_set _ _ _ _ Hl) as Hz.
    assert (Hok : idx_ok (N s0) l) by (eapply idx_ok_set; [exact (sz_pci _ H)| |exact Hl]; intros ? [= <-]; exact Hi). sz_split H. }
  assert (K1 : K s0 s1) by (unfold s1; kk).
  assert (Hclr : forall s, Sz s -> K s0 s -> nx s (s' <- get ;; l <- tset (PreCommitPayloads s') (p_idx msg) None ;; modify (fun s => s <| PreCommitPayloads := l |>)) (fun _ s _ => Sz s)).
  { intros s Ss Ks. apply n_get. ntset. { rewrite (sz_pc _ Ss), (K_N _ _ Ks). exact Hi. }
    apply n_modify_last. pose proof (zlen_set _ _ _ _ Hl0) as Hz.
    assert (Hok : idx_ok (N s) l0) by (eapply idx_ok_set; [exact (sz_pci _ Ss)| |exact Hl0]; intros ? [=]). sz_split Ss. }
  destruct (negb _); [apply n_ret; exact S1|].
  apply n_ask. intros ok c Hc. destruct ok; cbn [negb]; [|apply (Hclr s1 S1 K1)].
  eapply n_np; [apply np_extendTimer|exact S1|]. intros [] s2 n2 S2 K2. apply n_get. destruct (negb _); [apply n_ret; exact S2|].
  eapply n_np; [apply np_CreatePreBlock|exact S2|]. intros hb s3 n3 S3 K3. destruct hb as [b|]; [|apply n_ret; exact S3].
  assert (K03 : K s0 s3) by ktr.
  apply n_get. ntget. { unfold N in *. destruct K03 as (E&_). rewrite E. exact Hi. }
  destruct (preblock_verify _ _ _).
  - eapply n_np_last; [apply np_checkPreCommit|exact S3|]. intros [] s4 n4 S4 _. exact S4.
  - ntset. { rewrite (sz_pc _ S3), (K_N _ _ K03). exact Hi. }
    apply n_modify_last. pose proof (zlen_set _ _ _ _ Hl0) as Hz.
    assert (Hok : idx_ok (N s3) l0) by (eapply idx_ok_set; [exact (sz_pci _ S3)| |exact Hl0]; intros ? [=]). sz_split S3.
Qed.

(* association lists *)
Lemma Forall_assoc_put {T} (P : T -> Prop) l k v : Forall (fun kv => P (snd kv)) l -> P v -> Forall (fun kv : Z * T => P (snd kv)) (assoc_put l k v).
Proof.
  intros Hl Hv. induction l as [|[k' v'] r IH]; cbn; [constructor; [exact Hv|constructor]|].
  apply Forall_cons_iff in Hl. destruct Hl as [H1 H2]. destruct (k' =? k); constructor; auto.
Qed.
Lemma Forall_assoc_get {T} (P : T -> Prop) l k v : Forall (fun kv => P (snd kv)) l -> assoc_get l k = Some v -> P v.
Proof.
  intros Hl. induction l as [|[k' v'] r IH]; cbn; [discriminate|]. apply Forall_cons_iff in Hl. destruct Hl as [H1 H2].
  destruct (k' =? k); [intros [= <-]; exact H1|auto].
Qed.
Lemma Forall_assoc_del {T} (P : T -> Prop) (l : list (Z * T)) k : Forall (fun kv => P (snd kv)) l -> Forall (fun kv => P (snd kv)) (assoc_del l k).
Proof. intros H. unfold assoc_del. apply Forall_forall. intros x Hx. apply filter_In in Hx. rewrite Forall_forall in H. apply H, Hx. Qed.
Lemma wf_empty_inbox : wf_inbox empty_inbox. Proof. repeat split; constructor. Qed.

Lemma nq_cache_addMessage m : wfp m -> NQ (cache_addMessage m).
Proof.
  intros Hm s0 H. unfold cache_addMessage. apply n_get. rewrite (sz_cr _ (sz_0 _ H)). cbn [negb]. cbv zeta. apply n_modify_last.
  assert (Hib : wf_inbox match assoc_get (cache s0) (p_height m) with Some x => x | None => empty_inbox end).
  { destruct (assoc_get (cache s0) (p_height m)) eqn:E; [|apply wf_empty_inbox]. eapply (Forall_assoc_get wf_inbox); [exact (sz_cache _ (sz_0 _ H))|exact E]. }
  set (ib := match assoc_get (cache s0) (p_height m) with Some x => x | None => empty_inbox end) in *.
  assert (Hc : cache_wf (assoc_put (cache s0) (p_height m)
     match p_type m with
     | PrepareRequestT | PrepareResponseT => ib <| ib_prepare := assoc_put (ib_prepare ib) (p_idx m) m |>
     | ChangeViewT => ib <| ib_chviews := assoc_put (ib_chviews ib) (p_idx m) m |>
     | PreCommitT => ib <| ib_precommit := assoc_put (ib_precommit ib) (p_idx m) m |>
     | CommitT => ib <| ib_commit := assoc_put (ib_commit ib) (p_idx m) m |>
     | _ => ib end)).
  { apply (Forall_assoc_put wf_inbox); [exact (sz_cache _ (sz_0 _ H))|]. destruct Hib as (W1 & W2 & W3 & W4).
    destruct (p_type m); unfold wf_inbox; cbn; repeat split; auto; apply (Forall_assoc_put wfp); auto. }
  destruct H as [H0 ? ? ? ? ? ? ? ? ? ? ? ? ? ?]; destruct H0; constructor; [constructor|..]; unfold Mq, F, N, primary_of, idx_ok in *; cbn in *; try assumption.
Qed.

Lemma nq_receive_common (d : payload -> M unit) msg s0 : Sz s0 -> wfp msg ->
  (forall s, Sz s -> 0 <= p_idx msg < N s -> nx s (d msg) (fun _ s' _ => Sz s')) ->
  nx s0 (receive_common d msg) (fun _ s _ => Sz s).
Proof.
  intros H Hw Hd. unfold receive_common. apply n_get. destruct (p_idx msg >=? N s0) eqn:E1; [apply n_ret; exact H|].
  assert (Hi : 0 <= p_idx msg < N s0) by (rewrite Z.geb_leb in E1; apply Z.leb_gt in E1; destruct Hw; lia).
  destruct (_ <? _); [apply n_ret; exact H|]. destruct (_ || _).
  { eapply n_conseq; [apply (nq_cache_addMessage msg Hw s0 H)|]. auto. }
  ntget. { rewrite (sz_ls _ H). exact Hi. }
  eapply n_call with (Qx := fun _ s _ => Sz s /\ K s0 s).
  { match goal with |- context[if ?b then _ else _] => destruct b end; [|apply n_ret; fin H].
    ntset. { rewrite (sz_ls _ H). exact Hi. } apply n_modify_last. split; [pose proof (zlen_set _ _ _ _ Hl) as Hz; sz_split H|kk]. }
  intros [] s1 n1 [S1 K1]. apply n_get. destruct (_ && _); [apply n_ret; exact S1|].
  eapply n_conseq; [apply (Hd s1 S1); rewrite (K_N _ _ K1); exact Hi|]. auto.
Qed.

Lemma nq_dispatch0 msg s0 : Sz s0 -> 0 <= p_idx msg < N s0 -> nx s0 (dispatch0 cfg ic msg) (fun _ s _ => Sz s).
Proof.
  intros H Hi. unfold dispatch0. destruct (p_type msg) eqn:Ty.
  all: first [ apply nq_onChangeView; assumption | apply nq_onPrepareRequest; assumption | apply nq_onPrepareResponse; assumption
             | apply nq_onCommit; assumption | apply nq_onRecoveryRequest; assumption
             | apply n_get; destruct (amev_on cfg s0); [apply nq_onPreCommit; assumption|apply n_ret; exact H]
             | apply n_ret; exact H ].
Qed.

Lemma nq_nestedReceive0 msg : wfp msg -> NQ (nestedReceive0 cfg ic msg).
Proof.
  intros Hw s0 H. unfold nestedReceive0, ask_recv, ask_unit. apply n_ask. intros [] c Hc.
  eapply n_conseq; [apply (nq_receive_common _ msg s0 H Hw); intros s Ss Hi; apply nq_dispatch0; assumption|]. auto.
Qed.

Lemma NQ_forM {T} (P : T -> Prop) (l : list T) (f : T -> M unit) : (forall a, P a -> NQ (f a)) -> Forall P l -> NQ (forM l f).
Proof.
  intros Hf Hl. induction l as [|a l IH]; cbn [forM]; [intros s0 H; apply n_ret; exact H|].
  apply Forall_cons_iff in Hl. destruct Hl as [Ha Hl]. intros s0 H. eapply n_nq; [apply (Hf a Ha)|exact H|]. intros [] s1 n1 S1.
  eapply n_conseq; [apply (IH Hl s1 S1)|]. auto.
Qed.

Lemma lifted_wf inner (f : payload0 -> bool) : Forall (fun q => 0 <= p0_idx q) inner -> Forall wfp (map lift0 (filter f inner)).
Proof.
  intros H. apply Forall_forall. intros x Hx. apply in_map_iff in Hx. destruct Hx as (q & <- & Hq). apply filter_In in Hq.
  rewrite Forall_forall in H. split; [apply H, Hq|exact I].
Qed.

Lemma nq_onRecoveryMessage msg s0 : Sz s0 -> wfp msg -> p_type msg = RecoveryMessageT ->
  nx s0 (onRecoveryMessage cfg ic msg) (fun _ s _ => Sz s).
Proof.
  intros H [_ Hw] Ty. unfold onRecoveryMessage. unfold p_type in Ty. destruct (p_body msg) as [b|inner]; [destruct b; discriminate Ty|].
  cbv zeta. apply n_modify. apply n_get.
  match goal with |- nx ?st _ _ => set (s1 := st) end.
  assert (S1 : Sz s1) by (unfold s1; sz_keep H).
  pose proof (fun f => NQ_forM wfp _ _ (fun a Ha => nq_nestedReceive0 a Ha) (lifted_wf inner f Hw)) as Hfor.
  eapply n_call with (Qx := fun _ s _ => Sz s).
  { destruct (_ >? _); [|apply n_ret; exact S1].
    eapply n_np; [apply np_CommitSent|exact S1|]. intros cs s2 n2 S2 K2.
    eapply n_call with (Qx := fun _ s _ => Sz s).
    { destruct cs; [apply n_ret; exact S2|]. eapply n_np_last; [apply np_PreCommitSent|exact S2|]. intros ps s3 n3 S3 _. exact S3. }
    intros ps s3 n3 S3. destruct (cs || ps); [apply n_ret; exact S3|].
    eapply n_nq; [apply Hfor|exact S3|]. intros [] s4 n4 S4. apply n_ret. exact S4. }
  intros stop s2 n2 S2.
  eapply n_call with (Qx := fun _ s _ => Sz s).
  { destruct stop; [apply n_ret; exact S2|]. apply n_get.
    eapply n_call with (Qx := fun _ s _ => Sz s).
    { destruct (_ =? _); [|apply n_ret; exact S2].
      eapply n_np; [apply np_ViewChanging|exact S2|]. intros vc s3 n3 S3 K3. apply n_get.
      destruct (_ || _); [|apply n_ret; exact S3].
      eapply n_np; [apply np_CommitSent|exact S3|]. intros cs s4 n4 S4 K4. destruct cs; [apply n_ret; exact S4|].
      eapply n_call with (Qx := fun _ s _ => Sz s).
      { destruct (amev_on cfg s3); [|apply n_ret; exact S4]. eapply n_np_last; [apply np_PreCommitSent|exact S4|]. intros ps s5 n5 S5 _. exact S5. }
      intros ps s5 n5 S5. apply n_ret. exact S5. }
    intros go s3 n3 S3.
    eapply n_call with (Qx := fun _ s _ => Sz s).
    { destruct go; [|apply n_ret; exact S3].
      eapply n_np; [apply np_RSOR|exact S3|]. intros rs s4 n4 S4 K4.
      eapply n_call with (Qx := fun _ s _ => Sz s).
      { destruct (negb rs); [|apply n_ret; exact S4].
        pose proof (lifted_wf inner (fun q => mtype_eqb (body0_type (p0_body q)) PrepareRequestT) Hw) as Hl.
        destruct (map lift0 _) as [|r rest]; [apply n_ret; exact S4|]. apply Forall_cons_iff in Hl. destruct Hl as [Hr _].
        eapply n_conseq; [apply (nq_nestedReceive0 r Hr s4 S4)|]. auto. }
      intros [] s5 n5 S5. eapply n_conseq; [apply (Hfor _ s5 S5)|]. auto. }
    intros [] s4 n4 S4. apply n_get. destruct (_ <=? _); [|apply n_ret; exact S4].
    eapply n_nq; [apply Hfor|exact S4|]. intros [] s5 n5 S5. eapply n_conseq; [apply (Hfor _ s5 S5)|]. auto. }
  intros [] s3 n3 S3. apply n_modify_last. sz_keep S3.
Qed.

Lemma nq_dispatch msg s0 : Sz s0 -> wfp msg -> 0 <= p_idx msg < N s0 -> nx s0 (dispatch cfg ic msg) (fun _ s _ => Sz s).
Proof.
  intros H Hw Hi. unfold dispatch. destruct (p_type msg) eqn:Ty; try (apply nq_dispatch0; assumption).
  apply nq_onRecoveryMessage; assumption.
Qed.
Lemma nq_OnReceive msg : wfp msg -> NQ (OnReceive cfg ic msg).
Proof. intros Hw s0 H. unfold OnReceive. apply nq_receive_common; [exact H|exact Hw|]. intros s Ss Hi. apply nq_dispatch; assumption. Qed.

Lemma nq_replay_map n : forall entries, wf_entries entries -> NQ (replay_map cfg ic n entries).
Proof.
  induction n as [|n IH]; intros entries Hw s0 H; destruct entries as [|e entries']; cbn [replay_map]; try (apply n_ret; exact H).
  apply n_ask. intros k c Hc. destruct (assoc_get (e :: entries') k) as [m|] eqn:Em; [|apply n_ret; exact H].
  eapply n_nq; [apply nq_OnReceive; apply (Forall_assoc_get wfp _ _ _ Hw Em)|exact H|]. intros [] s1 n1 S1.
  eapply n_conseq; [apply (IH _ (Forall_assoc_del wfp _ k Hw) s1 S1)|]. auto.
Qed.
End Rec.

(* ---------------- (re)initialisation ---------------- *)
Lemma n_keep n : forall i view cvs last s0, (i + n <= length cvs)%nat -> length last = length cvs ->
  nx s0 (keep_changeviews i n view cvs last) (fun l s _ => s = s0 /\ length l = length last).
Proof.
  induction n as [|n IH]; intros i view cvs last s0 Hi Hl; cbn [keep_changeviews]; [apply n_ret; auto|].
  ntget. { unfold zlen. lia. } cbv zeta. ntset. { unfold zlen. lia. }
  pose proof (set_chk_length _ _ _ _ Hl0) as E.
  eapply n_conseq; [apply IH; [lia|congruence]|]. cbn. intros l' s n' [-> E2]. split; [reflexivity|congruence].
Qed.

Record Mid (view : Z) (s : nstate) : Prop := {
  md_0 : Sz0 s; md_n : 0 < N s; md_lcv : zlen (LastChangeViewPayloads s) = N s; md_ls : zlen (LastSeenMessage s) = N s;
  md_keep : view <> 0 -> zlen (PreCommitPayloads s) = N s /\ zlen (CommitPayloads s) = N s /\ idx_ok (N s) (CommitPayloads s) /\ idx_ok (N s) (PreCommitPayloads s);
  md_vi : 0 < view -> Mq s <= cnt_ge view (LastChangeViewPayloads s) }.

Definition PreIC (view : Z) (s : nstate) : Prop := Sz0 s /\ (view <> 0 -> Sz s /\ CVq view s).

Lemma n_reset_A view (ts : Z) s0 : PreIC view s0 ->
  nx s0 ((if view =? 0 then
            ph <- ask (fun c => match c with CPrevHash x => Some x | _ => None end) ;;
            h <- ask (fun c => match c with CHeight x => Some x | _ => None end) ;;
            vs <- ask (fun c => match c with CValidators x => if zlen x =? 0 then None else Some x | _ => None end) ;;
            tpb <- ask (fun c => match c with CTimePerBlock x => Some x | _ => None end) ;;
            modify (fun s => s <| PrevHash := ph |> <| BlockIndex := u32 (h + 1) |> <| Validators := vs |> <| timePerBlock := tpb |>) ;;;
            (if cfg_dyn cfg then
               mx <- ask (fun c => match c with CMaxTimePerBlock x => Some x | _ => None end) ;;
               modify (fun s => s <| maxTimePerBlock := mx |>)
             else ret tt) ;;;
            modify (fun s => let n := N s in
                      s <| LastChangeViewPayloads := empty_tbl n |> <| LastSeenMessage := empty_tbl n |>
                        <| blockProcessed := false |> <| preBlockProcessed := false |>)
          else
            s <- get ;;
            l <- keep_changeviews 0 (length (Validators s)) view (ChangeViewPayloads s) (LastChangeViewPayloads s) ;;
            modify (fun s => s <| LastChangeViewPayloads := l |>)))
     (fun _ s _ => Mid view s).
Proof.
  intros [P0 P1]. destruct (view =? 0) eqn:Ev.
  - apply Z.eqb_eq in Ev. apply n_ask. intros ph c1 H1. apply n_ask. intros h c2 H2. apply n_ask. intros vs c3 H3. apply n_ask. intros tpb c4 H4.
    assert (Hvs : 0 < zlen vs).
    { destruct c3; try discriminate H3. destruct (zlen vs0 =? 0) eqn:E; [discriminate H3|]. injection H3 as <-. apply Z.eqb_neq in E. pose proof (zlen_nonneg vs0). lia. }
    apply n_modify.
    assert (Hfin : forall s, Sz0 s -> 0 < N s -> nx s (modify (fun s => let n := N s in
                      s <| LastChangeViewPayloads := empty_tbl n |> <| LastSeenMessage := empty_tbl n |>
                        <| blockProcessed := false |> <| preBlockProcessed := false |>)) (fun _ s' _ => Mid view s')).
    { intros s Hs Hn. apply n_modify_last. cbv zeta. destruct Hs. constructor; [constructor|..]; unfold N, empty_tbl in *; cbn; try assumption.
      - apply zlen_replicate. lia. - apply zlen_replicate. lia. - intros Hne. contradiction. - intros Hv. lia. }
    destruct (cfg_dyn cfg).
    + apply n_assoc. apply n_ask. intros mx c5 H5. apply n_modify. apply Hfin; [destruct P0; constructor; cbn; assumption|unfold N; cbn; exact Hvs].
    + apply n_ret_bind. apply Hfin; [destruct P0; constructor; cbn; assumption|unfold N; cbn; exact Hvs].
  - apply Z.eqb_neq in Ev. destruct (P1 Ev) as [P1s P1q]. apply n_get.
    assert (L1 : length (LastChangeViewPayloads s0) = length (ChangeViewPayloads s0)) by (pose proof (sz_cv _ P1s); pose proof (sz_lcv _ P1s); unfold N, zlen in *; lia).
    assert (L2 : length (Validators s0) = length (ChangeViewPayloads s0)) by (pose proof (sz_cv _ P1s); unfold N, zlen in *; lia).
    eapply n_call.
    { apply n_conj; [apply n_keep; [lia|exact L1]|apply keep_spec]. }
    intros l s1 n1 [[-> Hl] [_ Hk]]. apply n_modify_last.
    assert (El : l = keepf view (ChangeViewPayloads s0)) by (apply Hk; [exact L1|intros j Hj; lia|exact L2]).
    destruct P1s as [Q0 ? ? ? ? ? ? ? ? ? ? ? ? ? ?]. destruct Q0. constructor; [constructor|..]; unfold N, zlen, idx_ok in *; cbn; try assumption; try lia.
    + intros _. split; [assumption|split; [assumption|split; assumption]].
    + intros Hv. rewrite El, cnt_keepf. apply (P1q Hv).
Qed.

Lemma GetPrimaryIndex_eq' s v : 0 < N s -> GetPrimaryIndex s v = ret (primary_of s v).
Proof. intros H. unfold GetPrimaryIndex, primary_of. destruct (N s =? 0) eqn:E; [apply Z.eqb_eq in E; exfalso; apply (Z.lt_irrefl 0); rewrite <- E at 2; exact H|reflexivity]. Qed.
Lemma sel_KeyPair s c ik :
  match c with
  | CKeyPair i k => if i =? -1 then Some (i, k) else
                    if (0 <=? i) && (i <? N s) && match nth_chk (Validators s) (Z.to_nat i) with Some k' => k' =? k | None => false end
                    then Some (i, k) else None
  | _ => None end = Some ik -> -1 <= fst ik < N s \/ (fst ik = -1).
Proof.
  destruct c; try discriminate. destruct (idx =? -1) eqn:E1.
  - intros [= <-]. apply Z.eqb_eq in E1. right. exact E1.
  - destruct (_ && _) eqn:E2; [|discriminate]. intros [= <-]. cbn [fst].
    apply andb_true_iff in E2. destruct E2 as [E2 _]. apply andb_true_iff in E2. destruct E2 as [A B]. apply Z.leb_le in A. apply Z.ltb_lt in B. left. lia.
Qed.

(* all tables but the preparations and the primary in place *)
Record Tab (s : nstate) : Prop := {
  tb_pc : zlen (PreCommitPayloads s) = N s; tb_cm : zlen (CommitPayloads s) = N s;
  tb_cmi : idx_ok (N s) (CommitPayloads s); tb_pci : idx_ok (N s) (PreCommitPayloads s) }.

Lemma n_reset view ts s0 : PreIC view s0 -> nx s0 (reset cfg view ts) (fun _ s _ => Sz s).
Proof.
  intros HP. unfold reset. apply n_modify. unfold unsubscribeFromTransactions at 1. apply n_modify.
  match goal with |- nx ?st _ _ => set (s0' := st) end.
  assert (HP' : PreIC view s0').
  { destruct HP as [P0 P1]. split; [destruct P0; constructor; cbn; assumption|]. intros Hv. destruct (P1 Hv) as [P1s P1q]. pose proof (sz_n _ P1s).
    split; [unfold s0'; sz_split P1s|exact P1q]. }
  eapply n_call; [apply (n_reset_A view ts s0' HP')|]. intros [] s1 n1 M1. apply n_get.
  apply n_ask. intros ik c Hc. apply sel_KeyPair in Hc.
  assert (Hmy : -1 <= fst ik < N s1) by (pose proof (md_n _ _ M1); destruct Hc; lia).
  apply n_modify. apply n_modify.
  eapply n_call with (Qx := fun _ s _ => Mid view s /\ Tab s /\ N s = N s1 /\ MyIndex s = fst ik /\ zlen (ChangeViewPayloads s) = N s /\ BlockIndex s = BlockIndex s1).
  { assert (Hcv : zlen (@empty_tbl payload (N s1)) = N s1) by (apply zlen_replicate; pose proof (md_n _ _ M1); lia).
    destruct (view =? 0) eqn:Ev.
    - apply Z.eqb_eq in Ev. apply n_modify_last. destruct M1 as [Q0 ? ? ? ? Hvi]. destruct Q0. unfold N, empty_tbl in *. cbn.
      split; [|split; [|split; [reflexivity|split; [reflexivity|split; [exact Hcv|reflexivity]]]]].
      + constructor; [constructor|..]; unfold N, empty_tbl; cbn; try assumption.
        * intros Hne. contradiction.
      + constructor; unfold N; cbn; rewrite ?zlen_replicate by lia; try reflexivity; apply tall_empty.
    - apply n_ret. apply Z.eqb_neq in Ev. destruct M1 as [Q0 ? ? ? Hk Hvi]. destruct Q0. destruct (Hk Ev) as (A & B & C & D). unfold N, empty_tbl, idx_ok in *. cbn.
      split; [|split; [|split; [reflexivity|split; [reflexivity|split; [exact Hcv|reflexivity]]]]].
      + constructor; [constructor|..]; unfold N, idx_ok; cbn; try assumption.
      + constructor; unfold N, idx_ok; cbn; assumption. }
  intros [] s2 n2 (M2 & T2 & N2 & My2 & Cv2 & B2). apply n_modify. apply n_get.
  match goal with |- nx ?st _ _ => set (s3 := st) end.
  assert (N3 : N s3 = N s2) by reflexivity.
  rewrite (GetPrimaryIndex_eq' s3 view) by (rewrite N3; apply (md_n _ _ M2)). apply n_ret_bind. apply n_modify. apply n_get.
  match goal with |- nx ?st _ _ => set (s4 := st) end.
  pose proof (md_n _ _ M2) as Hn2. pose proof (primary_of_range s3 view ltac:(rewrite N3; exact Hn2)) as Hpr.
  assert (Hprep : zlen (@empty_tbl payload (N s2)) = N s2) by (apply zlen_replicate; lia).
  assert (S4 : Sz s4).
  { destruct M2 as [Q0 ? ? ? Hk Hvi]. destruct Q0. destruct T2 as [A B C D].
    unfold s4, s3, Mq, F, N, empty_tbl, idx_ok, primary_of in *. cbn in *.
    constructor; [constructor|..]; unfold Mq, F, N, idx_ok, primary_of; cbn; try assumption; try lia.
    - reflexivity.
    - intros q Hq. unfold replicate in Hq. apply nth_chk_repeat in Hq. discriminate Hq. }
  destruct (MyIndex s4 >=? 0) eqn:Em.
  - rewrite Z.geb_leb in Em. apply Z.leb_le in Em.
    ntset. { rewrite (sz_ls _ S4). pose proof (sz_my _ S4). lia. }
    apply n_modify_last. pose proof (zlen_set _ _ _ _ Hl) as Hz. sz_split S4.
  - apply n_ret. exact S4.
Qed.

Lemma cache_wf_filter c (f : Z * inbox -> bool) : cache_wf c -> cache_wf (filter f c).
Proof. intros H. apply Forall_forall. intros x Hx. apply filter_In in Hx. unfold cache_wf in H. rewrite Forall_forall in H. apply H, Hx. Qed.

Lemma nq_ic_body ic view ts s0 : ICok ic -> PreIC view s0 ->
  nx s0 (initializeConsensus_body cfg ic view ts) (fun _ s _ => Sz s).
Proof.
  intros Hic HP. unfold initializeConsensus_body.
  eapply n_call; [apply (n_reset view ts s0 HP)|]. intros [] s1 n1 S1. apply n_get.
  eapply n_call with (Qx := fun _ s _ => Sz s).
  { destruct (IsPrimary s1); [apply n_ret; exact S1|]. eapply n_np; [apply np_WatchOnly|exact S1|]. intros wo s2 n2 S2 _. apply n_ret. exact S2. }
  intros [] s2 n2 S2.
  eapply n_np; [apply np_StopTxFlow|exact S2|]. intros [] s3 n3 S3 K3. apply n_modify. apply n_get.
  match goal with |- nx ?st _ _ => set (s4 := st) end.
  assert (S4 : Sz s4).
  { pose proof (cache_wf_filter (cache s3) (fun kv => negb (fst kv <? BlockIndex s3)) (sz_cache _ (sz_0 _ S3))) as Hf. unfold s4.
    destruct S3 as [Q0 ? ? ? ? ? ? ? ? ? ? ? ? ? ?]; destruct Q0; constructor; [constructor|..]; unfold Mq, F, N, primary_of, idx_ok in *; cbn in *; try assumption. }
  eapply n_call with (Qx := fun _ s _ => Sz s).
  { destruct (assoc_get (cache s4) (BlockIndex s4)) as [ib|] eqn:Eib; [|apply n_ret; exact S4].
    pose proof (Forall_assoc_get wf_inbox _ _ _ (sz_cache _ (sz_0 _ S4)) Eib) as (W1 & W2 & W3 & W4).
    apply n_modify.
    match goal with |- nx ?st _ _ => set (s5 := st) end.
    assert (S5 : Sz s5).
    { pose proof (Forall_assoc_del wf_inbox (cache s4) (BlockIndex s4) (sz_cache _ (sz_0 _ S4))) as Hd. unfold s5.
      destruct S4 as [Q0 ? ? ? ? ? ? ? ? ? ? ? ? ? ?]; destruct Q0; constructor; [constructor|..]; unfold Mq, F, N, primary_of, idx_ok in *; cbn in *; try assumption. }
    eapply n_nq; [apply (nq_replay_map ic Hic _ _ W1)|exact S5|]. intros [] s6 n6 S6.
    eapply n_nq; [apply (nq_replay_map ic Hic _ _ W2)|exact S6|]. intros [] s7 n7 S7.
    eapply n_nq; [apply (nq_replay_map ic Hic _ _ W3)|exact S7|]. intros [] s8 n8 S8.
    eapply n_conseq; [apply (nq_replay_map ic Hic _ _ W4 s8 S8)|]. auto. }
  intros [] s5 n5 S5.
  eapply n_np; [apply np_WatchOnly|exact S5|]. intros wo s6 n6 S6 K6. destruct wo; [apply n_ret; exact S6|]. apply n_get. cbv zeta.
  eapply n_call with (Qx := fun _ s _ => Sz s).
  { destruct (_ && _); [|apply n_ret; exact S6]. unfold ask_now. apply n_ask. intros t c Hc. apply n_ret. exact S6. }
  intros tmo s7 n7 S7. eapply n_np_last; [apply np_changeTimer|exact S7|]. intros [] s8 n8 S8 _. exact S8.
Qed.

Lemma nq_initializeConsensus fuel : forall view ts s0, PreIC view s0 -> nx s0 (initializeConsensus cfg fuel view ts) (fun _ s _ => Sz s).
Proof.
  induction fuel as [|f IH]; intros view ts s0 HP; cbn [initializeConsensus]; [apply n_oof|].
  apply nq_ic_body; [|exact HP]. intros v t s Ss Hq. apply IH. split; [apply (sz_0 _ Ss)|intros _; split; assumption].
Qed.
Lemma ic_init : ICok (init cfg).
Proof. intros v ts s0 H Hq. apply nq_initializeConsensus. split; [apply (sz_0 _ H)|intros _; split; assumption]. Qed.
Lemma nq_init0 ts : NQ (init cfg 0 ts).
Proof. intros s0 H. apply ic_init; [exact H|intros Hv; lia]. Qed.

(* ---------------- the API ---------------- *)
(* before Start only the round-trip table must be in place (it is, in a fresh instance) *)
Definition Fresh (s : nstate) : Prop := zlen (rtt_times s) = rttLength /\ 0 <= rtt_idx s < rttLength.
Lemma Fresh_fresh : Fresh fresh_state. Proof. split; [reflexivity|]. unfold rttLength. cbn. lia. Qed.

Lemma n_Start ts s0 : Fresh s0 \/ Sz s0 -> nx s0 (Start cfg ts) (fun _ s _ => Sz s).
Proof.
  intros H0. unfold Start. apply n_modify.
  eapply n_call.
  { apply nq_initializeConsensus. split; [|intros Hne; exfalso; apply Hne; reflexivity].
    destruct H0 as [[A B]|S]; [|destruct (sz_0 _ S)]; constructor; cbn; try assumption; try reflexivity; constructor. }
  intros [] s1 n1 S1. apply n_get. destruct (IsPrimary s1); [|apply n_ret; exact S1].
  eapply n_call; [apply n_WatchOnly|]. intros wo s2 n2 [-> Hw]. destruct wo; [apply n_ret; exact S1|].
  eapply n_npi_last; [apply np_sendPrepareRequest|exact S1|exact (Hw eq_refl)|]. intros [] s3 n3 S3 _. exact S3.
Qed.
Lemma nq_Reset ts : NQ (Reset cfg ts). Proof. apply nq_init0. Qed.

Lemma nq_OnTransaction t : NQ (OnTransaction cfg t).
Proof.
  intros s0 H. unfold OnTransaction. apply n_get. destruct (negb _); [apply n_ret; exact H|].
  eapply n_np; [apply np_NotAccepting|exact H|]. intros na s1 n1 S1 K1. destruct na; [apply n_ret; exact S1|].
  eapply n_call; [apply (n_RSOR s1 S1)|]. intros rs s2 n2 [-> Hrs]. destruct rs; cbn [negb]; [|apply n_ret; exact S1]. specialize (Hrs eq_refl).
  eapply n_call; [apply n_own_slot; rewrite (sz_prep _ S1); apply (sz_my _ S1)|]. intros x s2 n2a [-> _]. destruct x; [apply n_ret; exact S1|].
  eapply n_call; [apply n_own_slot; rewrite (sz_pc _ S1); apply (sz_my _ S1)|]. intros x s2 n2b [-> _]. destruct x; [apply n_ret; exact S1|].
  eapply n_call; [apply n_own_slot; rewrite (sz_cm _ S1); apply (sz_my _ S1)|]. intros x s2 n2c [-> _]. destruct x; [apply n_ret; exact S1|].
  apply n_get. destruct (_ || _); [apply n_ret; exact S1|]. cbv zeta. destruct (_ <? _); [apply n_ret; exact S1|]. apply n_modify.
  apply (nq_addTransaction (init cfg) ic_init).
  - sz_keep S1.
  - destruct Hrs as [q Hq]. exists q. exact Hq.
Qed.

Lemma nq_onTimeout h v force : NQ (onTimeout cfg h v force).
Proof.
  intros s0 H. unfold onTimeout. eapply n_call; [apply n_WatchOnly|]. intros wo s1 n1 [-> Hw]. apply n_get.
  destruct wo; cbn [orb]; [apply n_ret; exact H|]. specialize (Hw eq_refl). destruct (blockProcessed s0); [apply n_ret; exact H|].
  destruct (_ || _); [apply n_ret; exact H|].
  eapply n_call with (Qx := fun _ s _ => Sz s /\ K s0 s).
  { destruct (IsPrimary s0); [|apply n_ret; fin H]. eapply n_np_last; [apply np_RSOR|exact H|]. intros rs s2 n2 S2 K2. fin S2. }
  intros rs s2 n2 [S2 K2]. assert (Hm2 : 0 <= MyIndex s2) by (rewrite (K_my _ _ K2); exact Hw).
  destruct (_ && _).
  { eapply n_npi_last; [apply np_sendPrepareRequest|exact S2|exact Hm2|]. intros [] s3 n3 S3 _. exact S3. }
  destruct (_ || _); [|apply n_ret; exact S2].
  eapply n_np; [apply np_CommitSent|exact S2|]. intros cs s3 n3 S3 K3.
  eapply n_call with (Qx := fun _ s _ => Sz s).
  { destruct cs; [apply n_ret; exact S3|]. eapply n_np_last; [apply np_PreCommitSent|exact S3|]. intros ps s4 n4 S4 _. exact S4. }
  intros ps s4 n4 S4. destruct (cs || ps).
  { eapply n_np; [apply np_sendRecoveryMessage|exact S4|]. intros [] s5 n5 S5 K5. apply n_get.
    eapply n_np_last; [apply np_changeTimer|exact S5|]. intros [] s6 n6 S6 _. exact S6. }
  apply n_get.
  eapply n_call with (Qx := fun _ s _ => Sz s).
  { destruct (_ && _); [|apply n_ret; exact S4]. destruct force.
    - eapply n_np; [apply np_changeTimer|exact S4|]. intros [] s5 n5 S5 K5.
      eapply n_np; [apply np_unsubscribe|exact S5|]. intros [] s6 n6 S6 K6. apply n_ret. exact S6.
    - destruct (negb _); [|apply n_ret; exact S4]. apply n_ask. intros txx c Hc. destruct (_ =? _); [|apply n_ret; exact S4].
      eapply n_np; [apply np_subscribe|exact S4|]. intros [] s5 n5 S5 K5. apply n_get.
      eapply n_np; [apply np_changeTimer|exact S5|]. intros [] s6 n6 S6 K6. apply n_ret. exact S6. }
  intros stop s5 n5 S5. destruct stop; [apply n_ret; exact S5|].
  eapply n_conseq; [apply (nq_sendChangeView (init cfg) ic_init _ s5 S5)|]. auto.
Qed.
Lemma nq_OnTimeout h v : NQ (OnTimeout cfg h v). Proof. apply nq_onTimeout. Qed.
Lemma nq_OnNewTransaction : NQ (OnNewTransaction cfg).
Proof.
  intros s0 H. unfold OnNewTransaction. apply n_get. destruct (negb _); [apply n_ret; exact H|].
  apply n_ask. intros h c Hc. apply n_ask. intros v c2 Hc2. apply (nq_onTimeout h v true s0 H).
Qed.

(* well-formed API calls: payload indices are unsigned (the Go type is uint16), also inside recovery messages *)
Definition wf_event (e : event) : Prop := match e with EReceive p => wfp p | _ => True end.

Theorem no_panic_step st ev sc : Sz st -> wf_event ev -> step cfg st ev sc <> Panic /\ (forall st' tr, step cfg st ev sc = Ok (st', tr) -> Sz st').
Proof.
  intros HS Hw.
  assert (Hx : nx st (run_event cfg ev) (fun _ s _ => Sz s)).
  { destruct ev; cbn [run_event].
    - apply n_Start. right. exact HS.
    - apply nq_Reset. exact HS.
    - apply (nq_OnReceive (init cfg) ic_init p Hw st HS).
    - apply nq_OnTimeout. exact HS.
    - apply nq_OnTransaction. exact HS.
    - apply nq_OnNewTransaction. exact HS. }
  unfold step. specialize (Hx (mkM st sc []) eq_refl).
  destruct (run_event cfg ev (mkM st sc [])) as [[a m]| | | |]; try (split; [discriminate|discriminate]).
  - destruct Hx as (new & _ & _ & S'). split; [destruct (script m); discriminate|]. intros st' tr. destruct (script m); [|discriminate]. intros [= <- _]. exact S'.
  - destruct Hx.
Qed.

Theorem no_panic_first_start st ts sc : Fresh st -> step cfg st (EStart ts) sc <> Panic /\ (forall st' tr, step cfg st (EStart ts) sc = Ok (st', tr) -> Sz st').
Proof.
  intros HF. pose proof (n_Start ts st (or_introl HF) (mkM st sc []) eq_refl) as Hx. unfold step. cbn [run_event].
  destruct (Start cfg ts (mkM st sc [])) as [[a m]| | | |]; try (split; [discriminate|discriminate]).
  - destruct Hx as (new & _ & _ & S'). split; [destruct (script m); discriminate|]. intros st' tr. destruct (script m); [|discriminate]. intros [= <- _]. exact S'.
  - destruct Hx.
Qed.

(* histories: Start on a fresh instance, then any well-formed calls *)
Inductive Started : nstate -> Prop :=
| Started0 ts sc st tr : step cfg fresh_state (EStart ts) sc = Ok (st, tr) -> Started st
| StartedS st ev sc st' tr : Started st -> wf_event ev -> step cfg st ev sc = Ok (st', tr) -> Started st'.
Theorem started_sized st : Started st -> Sz st.
Proof.
  induction 1 as [ts sc st tr Hs|st ev sc st' tr HS IH Hw Hs].
  - apply (proj2 (no_panic_first_start fresh_state ts sc Fresh_fresh) _ _ Hs).
  - apply (proj2 (no_panic_step st ev sc IH Hw) _ _ Hs).
Qed.
Theorem no_panic st ev sc : Started st -> wf_event ev -> step cfg st ev sc <> Panic.
Proof. intros HS Hw. apply (no_panic_step st ev sc (started_sized st HS) Hw). Qed.
Theorem no_panic_at_start ts sc : step cfg fresh_state (EStart ts) sc <> Panic.
Proof. apply (no_panic_first_start fresh_state ts sc Fresh_fresh). Qed.
End NoPanic.
