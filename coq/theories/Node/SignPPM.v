(* C03: every PreCommit broadcast from the request for pre-commit data on is the PreCommit built at that request (SignLCM.v with the roles of the phases exchanged) *)
From DbftV Require Import Replay.
From DbftV Require Export TypedPM.

Definition npm (tr : tr_t) : nat := length (filter (fun sc => is_pm (snd sc)) tr).
Lemma nopm_npm tr : trG NoPM tr -> npm tr = 0%nat.
Proof. unfold trG, npm, NoPM. induction 1 as [|[s c] tr H _ IH]; [reflexivity|]. cbn in *. rewrite H. exact IH. Qed.
Lemma npm_in tr sc : npm tr = 0%nat -> In sc tr -> is_pm (snd sc) = false.
Proof.
  unfold npm. induction tr as [|x r IH]; [intros _ []|]. cbn [filter]. destruct (is_pm (snd x)) eqn:E; [discriminate|].
  intros H [<-|Hin]; [exact E|apply IH; assumption].
Qed.
Definition Lpc (g : tr_t) : Prop :=
  forall g1 s p g2, g = g1 ++ (s, CBroadcast p) :: g2 -> p_type p = PreCommitT -> nset g1 <> 0%nat ->
  exists c, set_precommit g1 = Some c /\ p = c <| p_idx := u16 (MyIndex s) |>.
Lemma Lpc_unsigned g : nset g = 0%nat -> Lpc g.
Proof. intros H g1 s p g2 -> _ Hn. exfalso. apply Hn. rewrite nset_app in H. lia. Qed.
Lemma is_pm_bcast p : p_type p = PreCommitT -> is_pm (CBroadcast p) = true.
Proof. intros H. cbn. rewrite H. reflexivity. Qed.
Lemma Lpc_app g n : Lpc g -> npm n = 0%nat -> Lpc (g ++ n).
Proof.
  intros HL Hn g1 s p g2 E Ty Hs. apply app_eq_app in E. destruct E as (l & [[E1 E2]|[E1 E2]]).
  - destruct l as [|x l'].
    + cbn in E2. assert (Hin : In (s, CBroadcast p) n) by (rewrite <- E2; left; reflexivity).
      pose proof (npm_in _ _ Hn Hin) as F. cbn [snd] in F. rewrite (is_pm_bcast _ Ty) in F. discriminate F.
    + injection E2 as <- E2. apply (HL g1 s p l'); [rewrite E1; reflexivity|exact Ty|exact Hs].
  - assert (Hin : In (s, CBroadcast p) n) by (rewrite E2; apply in_or_app; right; left; reflexivity).
    pose proof (npm_in _ _ Hn Hin) as F. cbn [snd] in F. rewrite (is_pm_bcast _ Ty) in F. discriminate F.
Qed.
Lemma Lpc_snoc g s c : Lpc g ->
  (forall p, c = CBroadcast p -> p_type p = PreCommitT -> nset g <> 0%nat -> exists c0, set_precommit g = Some c0 /\ p = c0 <| p_idx := u16 (MyIndex s) |>) ->
  Lpc (g ++ [(s, c)]).
Proof.
  intros HL Hc g1 s' p g2 E Ty Hs. apply app_eq_app in E. destruct E as (l & [[E1 E2]|[E1 E2]]).
  - destruct l as [|x l'].
    + cbn in E2. injection E2 as Es Ec _. subst s' c. rewrite app_nil_r in E1. subst g1. apply (Hc p eq_refl Ty Hs).
    + injection E2 as <- E2. apply (HL g1 s' p l'); [rewrite E1; reflexivity|exact Ty|exact Hs].
  - destruct l as [|x l']; [|destruct l'; discriminate E2]. cbn in E2. injection E2 as Es Ec. subst s c. rewrite app_nil_r in E1. subst g1. apply (Hc p eq_refl Ty Hs).
Qed.

Definition L6p (vs : list key) (mi : Z) (g : tr_t) : Prop := KS mi g -> zlen vs <= 65536 -> Lpc g.
Definition kmqp {A} (x : M A) : Prop :=
  forall vs mi g0 s0, TY s0 -> I7g vs mi g0 s0 -> L6p vs mi g0 -> hx s0 x (fun _ s tr => L6p vs mi (g0 ++ tr)).
Definition kmzp {A} (x : M A) : Prop :=
  forall vs mi g0 s0, TY s0 -> I7g vs mi g0 s0 -> Z0p vs mi g0 -> hx s0 x (fun _ s tr => L6p vs mi (g0 ++ tr)).
Definition kmp {A} (x : M A) : Prop :=
  forall vs mi g0 s0, Inv2 s0 -> TY s0 -> I7g vs mi g0 s0 -> L6p vs mi g0 -> hx s0 x (fun _ s tr => L6p vs mi (g0 ++ tr)).
Definition ICmp (ic : Z -> Z -> M unit) : Prop :=
  forall v t vs mi g0 s0, TY s0 -> I7g vs mi g0 s0 -> (KS mi g0 -> 0 < v /\ (zlen vs <= 65536 -> nset g0 = 0%nat)) ->
  hx s0 (ic v t) (fun _ s tr => L6p vs mi (g0 ++ tr)).

Lemma L6p_unsigned vs mi g : Z0p vs mi g -> L6p vs mi g.
Proof. intros Hz Hk Hs. apply Lpc_unsigned. apply (Hz Hk Hs). Qed.
Lemma L6p_pad vs mi g n : L6p vs mi g -> npm n = 0%nat -> L6p vs mi (g ++ n).
Proof. intros H Hn Hk Hs. apply KS_app in Hk. destruct Hk as [Hk _]. apply Lpc_app; [apply (H Hk Hs)|exact Hn]. Qed.

Lemma kmqp_of_kd {A} (x : M A) : ke x -> kmqp x.
Proof.
  intros Hx vs mi g0 s0 HT _ H5. eapply x_conseq; [apply (Hx s0 HT)|]. cbn. intros _ s n [_ T]. apply L6p_pad; [exact H5|apply nopm_npm; exact T].
Qed.
Lemma kmqp_ret {A} (a : A) : kmqp (ret a).
Proof. intros vs mi g0 s0 _ _ H. apply x_ret. rewrite app_nil_r. exact H. Qed.
Lemma kmqp_modify g : kmqp (modify g).
Proof. intros vs mi g0 s0 _ _ H. apply x_modify_last. rewrite app_nil_r. exact H. Qed.
Lemma kmqp_panic {A} : kmqp (@panic A). Proof. intros vs mi g0 s0 _ _ _. apply x_panic. Qed.
Lemma kmqp_fatal {A} : kmqp (@fatal A). Proof. intros vs mi g0 s0 _ _ _. apply x_fatal. Qed.
Lemma kmqp_oof {A} : kmqp (@out_of_fuel A). Proof. intros vs mi g0 s0 _ _ _. apply x_oof. Qed.
Lemma kmqp_bind {A B} (x : M A) (f : A -> M B) : kr x -> kt x -> kmqp x -> (forall a, kmqp (f a)) -> kmqp (bind x f).
Proof.
  intros Hq Ht Hx Hf vs mi g0 s0 HT H3 H5.
  eapply x_call; [apply (x_conj _ _ _ _ (Ht s0 HT) (x_conj _ _ _ _ (Hq vs mi g0 s0 H3) (Hx vs mi g0 s0 HT H3 H5)))|].
  intros a s1 n1 [[T1 _] [P3 P5]]. cbn beta. eapply x_conseq; [apply (Hf a vs mi (g0 ++ n1) s1 T1 P3 P5)|]. cbn. intros b s n P. rewrite app_assoc. exact P.
Qed.
Lemma kmqp_assoc {A B C} (x : M A) (g : A -> M B) (f : B -> M C) : kmqp (bind x (fun a => bind (g a) f)) -> kmqp (bind (bind x g) f).
Proof. intros H vs mi g0 s0 HT H3 H5. apply x_assoc. apply H; assumption. Qed.
Lemma kmqp_ret_bind {A B} (a : A) (f : A -> M B) : kmqp (f a) -> kmqp (bind (ret a) f).
Proof. intros H vs mi g0 s0 HT H3 H5. apply x_ret_bind. apply H; assumption. Qed.
Lemma kmqp_get_bind {B} (f : nstate -> M B) : (forall s, kmqp (f s)) -> kmqp (bind get f).
Proof. intros H vs mi g0 s0 HT H3 H5. apply x_get. apply H; assumption. Qed.
Lemma kmqp_forM {T} (l : list T) (f : T -> M unit) : (forall a, kr (f a)) -> (forall a, kt (f a)) -> (forall a, kmqp (f a)) -> kmqp (forM l f).
Proof. intros Hq Ht Hf. induction l as [|a l IH]; cbn [forM]; [apply kmqp_ret|]. apply kmqp_bind; auto. Qed.

Lemma kmzp_of_klq {A} (x : M A) : kmqp x -> kmzp x.
Proof. intros H vs mi g0 s0 HT H3 Hz. apply (H vs mi g0 s0 HT H3). apply L6p_unsigned. exact Hz. Qed.
Lemma kmzp_of_k3 {A} (x : M A) : k7 x -> kmzp x.
Proof.
  intros Hx vs mi g0 s0 _ H3 Hz. eapply x_conseq; [apply (k7_frame vs mi g0 s0 x Hx H3)|].
  cbn. intros _ s n [_ N]. apply L6p_unsigned. apply Z0p_pad; assumption.
Qed.
Lemma kmzp_ret {A} (a : A) : kmzp (ret a). Proof. apply kmzp_of_klq, kmqp_ret. Qed.
Lemma kmzp_panic {A} : kmzp (@panic A). Proof. apply kmzp_of_klq, kmqp_panic. Qed.
Lemma kmzp_bind0 {A B} (x : M A) (f : A -> M B) : k7 x -> kt x -> (forall a, kmzp (f a)) -> kmzp (bind x f).
Proof.
  intros Hx Ht Hf vs mi g0 s0 HT H3 Hz. eapply x_call; [apply (x_conj _ _ _ _ (Ht s0 HT) (k7_frame vs mi g0 s0 x Hx H3))|].
  intros a s1 n1 [[T1 _] [P1 N1]]. cbn beta.
  eapply x_conseq; [apply (Hf a vs mi (g0 ++ n1) s1 T1 P1 (Z0p_pad _ _ _ _ Hz N1))|]. cbn. intros b s n P. rewrite app_assoc. exact P.
Qed.
Lemma kmzp_bindz {A B} (x : M A) (f : A -> M B) : kzp x -> kt x -> kmzp x -> (forall a, kmqp (f a)) -> kmzp (bind x f).
Proof.
  intros Hq Ht Hx Hf vs mi g0 s0 HT H3 Hz.
  eapply x_call; [apply (x_conj _ _ _ _ (Ht s0 HT) (x_conj _ _ _ _ (Hq vs mi g0 s0 H3 Hz) (Hx vs mi g0 s0 HT H3 Hz)))|].
  intros a s1 n1 [[T1 _] [P3 P5]]. cbn beta. eapply x_conseq; [apply (Hf a vs mi (g0 ++ n1) s1 T1 P3 P5)|]. cbn. intros b s n P. rewrite app_assoc. exact P.
Qed.
Lemma kmzp_assoc {A B C} (x : M A) (g : A -> M B) (f : B -> M C) : kmzp (bind x (fun a => bind (g a) f)) -> kmzp (bind (bind x g) f).
Proof. intros H vs mi g0 s0 HT H3 Hz. apply x_assoc. apply H; assumption. Qed.
Lemma kmzp_ret_bind {A B} (a : A) (f : A -> M B) : kmzp (f a) -> kmzp (bind (ret a) f).
Proof. intros H vs mi g0 s0 HT H3 Hz. apply x_ret_bind. apply H; assumption. Qed.
Lemma kmzp_get_bind {B} (f : nstate -> M B) : (forall s, kmzp (f s)) -> kmzp (bind get f).
Proof. intros H vs mi g0 s0 HT H3 Hz. apply x_get. apply H; assumption. Qed.

Lemma kmp_of_klq {A} (x : M A) : kmqp x -> kmp x.
Proof. intros H vs mi g0 s0 _ HT H3 H5. apply (H vs mi g0 s0 HT H3 H5). Qed.
Lemma kmp_ret {A} (a : A) : kmp (ret a). Proof. apply kmp_of_klq, kmqp_ret. Qed.
Lemma kmp_panic {A} : kmp (@panic A). Proof. apply kmp_of_klq, kmqp_panic. Qed.
Lemma kmp_bind {A B} (x : M A) (f : A -> M B) : K2 x -> kri x -> kt x -> kmp x -> (forall a, kmp (f a)) -> kmp (bind x f).
Proof.
  intros HK Hq Ht Hx Hf vs mi g0 s0 J0 HT H3 H5.
  eapply x_call; [apply (x_conj _ _ _ _ (x_conj _ _ _ _ (HK s0 J0) (Ht s0 HT)) (x_conj _ _ _ _ (Hq vs mi g0 s0 J0 H3) (Hx vs mi g0 s0 J0 HT H3 H5)))|].
  intros a s1 n1 [[[J1 _] [T1 _]] [P3 P5]]. cbn beta.
  eapply x_conseq; [apply (Hf a vs mi (g0 ++ n1) s1 J1 T1 P3 P5)|]. cbn. intros b s n P. rewrite app_assoc. exact P.
Qed.
Lemma kmp_assoc {A B C} (x : M A) (g : A -> M B) (f : B -> M C) : kmp (bind x (fun a => bind (g a) f)) -> kmp (bind (bind x g) f).
Proof. intros H vs mi g0 s0 J0 HT H3 H5. apply x_assoc. apply H; assumption. Qed.
Lemma kmp_ret_bind {A B} (a : A) (f : A -> M B) : kmp (f a) -> kmp (bind (ret a) f).
Proof. intros H vs mi g0 s0 J0 HT H3 H5. apply x_ret_bind. apply H; assumption. Qed.
Lemma kmp_get_bind {B} (f : nstate -> M B) : (forall s, kmp (f s)) -> kmp (bind get f).
Proof. intros H vs mi g0 s0 J0 HT H3 H5. apply x_get. apply H; assumption. Qed.
Lemma kmp_forM {T} (l : list T) (f : T -> M unit) :
  (forall a, K2 (f a)) -> (forall a, kri (f a)) -> (forall a, kt (f a)) -> (forall a, kmp (f a)) -> kmp (forM l f).
Proof. intros HK Hq Ht Hf. induction l as [|a l IH]; cbn [forM]; [apply kmp_ret|]. apply kmp_bind; auto. Qed.

Create HintDb kmqpdb discriminated.
Create HintDb kmzpdb discriminated.
Create HintDb kmpdb discriminated.
Ltac solveke := solve [ eauto 3 with kpdb | ke_go ].
Ltac solvekt := solve [ eauto 3 with kpdb | apply kt_of_kc; solvekc | kn_go leafc ].
Ltac kmqp_leaf := first [ solve [eauto 3 with kmqpdb] | solve [apply kmqp_of_kd; solveke] ].
Ltac kmqp_go :=
  cbv beta iota zeta;
  lazymatch goal with
  | |- kmqp (bind (bind _ _) _) => apply kmqp_assoc; kmqp_go
  | |- kmqp (bind (ret _) _) => apply kmqp_ret_bind; kmqp_go
  | |- kmqp (bind get _) => apply kmqp_get_bind; intro; kmqp_go
  | |- kmqp (bind (if ?b then _ else _) _) => destruct b; kmqp_go
  | |- kmqp (bind (match ?o with Some _ => _ | None => _ end) _) => destruct o; kmqp_go
  | |- kmqp (bind _ _) => first [ kmqp_leaf | apply kmqp_bind; [ try solvekr | try solvekt | try first [kmqp_leaf | solve [kmqp_go]] | intro; kmqp_go ] ]
  | |- kmqp (ret _) => apply kmqp_ret
  | |- kmqp (modify _) => apply kmqp_modify
  | |- kmqp panic => apply kmqp_panic
  | |- kmqp fatal => apply kmqp_fatal
  | |- kmqp out_of_fuel => apply kmqp_oof
  | |- kmqp (forM _ _) => apply kmqp_forM; [ intro; solvekr | intro; solvekt | intro; kmqp_go ]
  | |- kmqp (if ?b then _ else _) => destruct b; kmqp_go
  | |- kmqp (match ?o with Some _ => _ | None => _ end) => destruct o; kmqp_go
  | |- kmqp (match ?o with nil => _ | cons _ _ => _ end) => destruct o; kmqp_go
  | |- kmqp (let _ := _ in _) => cbv zeta; kmqp_go
  | |- kmqp _ => first [ kmqp_leaf | idtac ]
  end.
Ltac kmzp_leaf := first [ solve [eauto 3 with kmzpdb] | solve [apply kmzp_of_k3; solvek7] | solve [apply kmzp_of_klq; kmqp_leaf] ].
Ltac kmzp_go :=
  lazymatch goal with
  | |- kmzp (bind (bind _ _) _) => apply kmzp_assoc; kmzp_go
  | |- kmzp (bind (ret _) _) => apply kmzp_ret_bind; kmzp_go
  | |- kmzp (bind get _) => apply kmzp_get_bind; intro; kmzp_go
  | |- kmzp (bind (if ?b then _ else _) _) => destruct b; kmzp_go
  | |- kmzp (bind (match ?o with Some _ => _ | None => _ end) _) => destruct o; kmzp_go
  | |- kmzp (bind _ _) =>
      first [ apply kmzp_bind0; [ solvek7 | solvekt | intro; kmzp_go ]
            | apply kmzp_bindz; [ solvekzp | solvekt | solve [eauto 3 with kmzpdb] | intro; solve [kmqp_go] ]
            | solve [apply kmzp_of_klq; kmqp_go] ]
  | |- kmzp (ret _) => apply kmzp_ret
  | |- kmzp panic => apply kmzp_panic
  | |- kmzp (if ?b then _ else _) => destruct b; kmzp_go
  | |- kmzp (match ?o with Some _ => _ | None => _ end) => destruct o; kmzp_go
  | |- kmzp (let _ := _ in _) => cbv zeta; kmzp_go
  | |- kmzp _ => first [ kmzp_leaf | idtac ]
  end.
Ltac kmp_leaf := first [ solve [eauto 3 with kmpdb] | solve [apply kmp_of_klq; kmqp_leaf] ].
Ltac kmp_go :=
  lazymatch goal with
  | |- kmp (bind (bind _ _) _) => apply kmp_assoc; kmp_go
  | |- kmp (bind (ret _) _) => apply kmp_ret_bind; kmp_go
  | |- kmp (bind get _) => apply kmp_get_bind; intro; kmp_go
  | |- kmp (bind (if ?b then _ else _) _) => destruct b; kmp_go
  | |- kmp (bind (match ?o with Some _ => _ | None => _ end) _) => destruct o; kmp_go
  | |- kmp (bind _ _) => first [ solve [apply kmp_of_klq; kmqp_go] | apply kmp_bind; [ solveK2 | solvekri | solvekt | first [kmp_leaf | solve [kmp_go]] | intro; kmp_go ] ]
  | |- kmp (ret _) => apply kmp_ret
  | |- kmp panic => apply kmp_panic
  | |- kmp (forM _ _) => apply kmp_forM; [ intro; solveK2 | intro; solvekri | intro; solvekt | intro; kmp_go ]
  | |- kmp (if ?b then _ else _) => destruct b; kmp_go
  | |- kmp (match ?o with Some _ => _ | None => _ end) => destruct o; kmp_go
  | |- kmp (match ?o with nil => _ | cons _ _ => _ end) => destruct o; kmp_go
  | |- kmp (let _ := _ in _) => cbv zeta; kmp_go
  | |- kmp _ => first [ kmp_leaf | idtac ]
  end.

Section RecPM.
Variable cfg : config.
Hint Resolve h_WatchOnly h_RSOR h_own_slot h_ResponseSent h_PreCommitSent h_CommitSent h_ViewChanging h_NotAccepting h_subscribe h_unsubscribe
  h_StopTxFlow h_changeTimer h_getTimestamp h_MakePreHeader h_CreatePreBlock h_broadcast h_rtt h_makeRecoveryMessage h_sendRecoveryMessage
  h_processMissingTx h_sendRecoveryRequest h_makeChangeView h_makePreCommit h_sendPreCommit h_verifyPreCommits h_extendTimer h_GetPrimaryIndex
  h_onRecoveryRequest h_cache_addMessage h_ask_recv h_MakeHeader h_CreateBlock h_makeCommit h_sendCommit h_verifyCommits h_checkCommit
  h_checkPreCommit h_checkPrepare h_onCommit h_onPreCommit h_updateExistingPayloads : kpdb.
Hint Extern 4 (kp Inv2 G2 _) => (apply K2_of_k2; intros; solve [eauto 3 with kpdb]) : kpdb.
Hint Resolve u_WatchOnly u_RSOR u_own_slot u_ResponseSent u_PreCommitSent u_CommitSent u_ViewChanging u_NotAccepting u_subscribe u_unsubscribe
  u_StopTxFlow u_changeTimer u_getTimestamp u_Fill u_MakeHeader u_CreateBlock u_broadcast u_makePrepareRequest u_rtt
  u_makeRecoveryMessage u_sendRecoveryMessage u_processMissingTx u_sendRecoveryRequest u_makeChangeView u_makePrepareResponse
  u_sendPrepareResponse u_makeCommit u_sendCommit u_verifyCommits u_extendTimer u_GetPrimaryIndex u_onRecoveryRequest
  u_cache_addMessage u_ask_recv u_MakePreHeader u_CreatePreBlock u_checkCommit u_verifyPreCommits u_updateExistingPayloads u_onPreCommit : kpdb.
Hint Resolve pq_sendPreCommit pq_checkPreCommit pq_checkPrepare pq_sendPrepareRequest pq_onPrepareResponse pq_onPreCommit : krdb.
Hint Resolve K_onPrepareResponse : kpdb.
Hint Resolve c_WatchOnly c_RSOR c_own_slot c_ResponseSent c_PreCommitSent c_CommitSent c_ViewChanging c_NotAccepting c_subscribe c_unsubscribe
  c_StopTxFlow c_changeTimer c_getTimestamp c_Fill c_MakePreHeader c_CreatePreBlock c_makePrepareRequest c_rtt c_sendRecoveryMessage
  c_processMissingTx c_sendRecoveryRequest c_sendPrepareResponse c_extendTimer c_GetPrimaryIndex c_onRecoveryRequest c_cache_addMessage
  c_ask_recv c_MakeHeader c_CreateBlock c_checkCommit c_sendPreCommit c_sendCommit c_verifyCommits c_verifyPreCommits c_checkPreCommit
  c_checkPrepare c_updateExistingPayloads c_sendPrepareRequest c_onPrepareResponse c_onPreCommit c_onCommit c_makeChangeView y_broadcast : kpdb.
Hint Extern 5 (kp TY AnyC _) => (apply kt_of_kc; solve [eauto 3 with kpdb]) : kpdb.
Hint Resolve e_WatchOnly e_RSOR e_own_slot e_ResponseSent e_PreCommitSent e_CommitSent e_ViewChanging e_NotAccepting e_subscribe e_unsubscribe
  e_StopTxFlow e_changeTimer e_getTimestamp e_Fill e_MakePreHeader e_CreatePreBlock e_makePrepareRequest e_rtt e_sendRecoveryMessage
  e_processMissingTx e_sendRecoveryRequest e_sendPrepareResponse e_extendTimer e_GetPrimaryIndex e_onRecoveryRequest e_cache_addMessage
  e_ask_recv e_MakeHeader e_CreateBlock e_checkCommit e_sendCommit e_checkPreCommit e_onPreCommit e_verifyCommits e_verifyPreCommits e_updateExistingPayloads e_onCommit
  e_makeChangeView : kpdb.
Ltac fixapp := cbn; let s := fresh "s" in let n := fresh "n" in let P := fresh "P" in intros _ s n P; rewrite <- ?app_assoc in *; cbn [app] in *; exact P.

(* what broadcast puts on the trace *)
Lemma bc_specp m s0 : hx s0 (broadcast m) (fun _ s tr => s = s0 /\ tr = [(s0, CBroadcast (m <| p_idx := u16 (MyIndex s0) |>))]).
Proof.
  unfold broadcast. apply x_get. unfold ask_unit. apply x_ask_last. intros a c Hc. destruct a. apply sel_Broadcast in Hc. subst c. split; reflexivity.
Qed.

(* sendCommit: the stored commit is the signed one once something is signed; the commit just built is the one of the signature *)
Lemma pmq_sendPreCommit : kmqp (sendPreCommit).
Proof.
  intros vs mi g0 s0 HT H0 H6. unfold sendPreCommit, makePreCommit. apply x_assoc. apply x_get. apply x_assoc. apply x_tget. intros own0 Hi Hown.
  destruct own0 as [m|].
  - apply x_ret_bind. apply x_get. apply x_tset. intros l _ Hl. apply x_modify.
    eapply x_conseq; [apply bc_specp|]. cbn. intros _ s n [-> ->]. intros Hk Hs. apply KS_app in Hk. destruct Hk as [Hk0 _].
    apply Lpc_snoc; [apply (H6 Hk0 Hs)|]. intros p [= <-] _ Hn. cbn [MyIndex set].
    destruct (H0 Hk0) as (A1 & A2 & A3 & A4 & A5). destruct (p2 _ _ _ _ (A5 Hs) Hn) as (c & b & C0 & C1 & _).
    exists c. split; [exact C0|]. unfold ownp in C1. rewrite <- A2, (slot_nth _ _ _ Hi Hown) in C1. injection C1 as <-. reflexivity.
  - apply x_assoc.
    eapply x_call; [apply (x_conj _ _ _ _ (e_CreatePreBlock s0 HT) (k7_frame vs mi g0 s0 _ u_CreatePreBlock H0))|]. intros hb s1 n1 [[T1 C1] [I1 N1]]. cbn beta.
    destruct hb as [b|].
    2:{ apply x_ret_bind. apply x_ret. rewrite app_nil_r. apply L6p_pad; [exact H6|apply nopm_npm; exact C1]. }
    unfold ask_unit at 1. apply x_assoc. apply x_ask. intros [] c Hc. apply x_assoc. apply x_get. apply x_assoc. apply x_modify. apply x_ret_bind.
    apply x_get. apply x_tset. intros l _ Hl. apply x_modify.
    eapply x_conseq; [apply bc_specp|]. cbn. intros _ s n [-> ->]. cbn [MyIndex set]. intros Hk Hs.
    assert (Esig : c = CSetData (preblock_hash b)).
    { destruct c; try discriminate Hc. destruct (hash_eqb bh (preblock_hash b)) eqn:E; [|discriminate Hc]. apply hash_eqb_eq in E. subst bh. reflexivity. }
    subst c. pose proof Hk as Hk'. apply KS_app in Hk'. destruct Hk' as [Hk0 Hk1]. apply KS_app in Hk1. destruct Hk1 as [Hk1 _].
    assert (Hk01 : KS mi (g0 ++ n1)) by (apply Forall_app; split; assumption).
    match goal with |- Lpc (g0 ++ n1 ++ [?a; ?b]) => replace (g0 ++ n1 ++ [a; b]) with (((g0 ++ n1) ++ [a]) ++ [b]) by (rewrite <- !app_assoc; reflexivity) end.
    assert (Hn0 : nset (g0 ++ n1) = 0%nat).
    { rewrite nset_app, N1, Nat.add_0_r. destruct (H0 Hk0) as (A1 & A2 & A3 & A4 & A5). apply (p1 _ _ _ _ (A5 Hs)). unfold ownp. rewrite <- A2. apply (slot_nth _ _ _ Hi Hown). }
    apply Lpc_snoc.
    + apply Lpc_snoc; [apply (L6p_pad vs mi g0 n1 H6 (nopm_npm _ C1) Hk01 Hs)|]. intros p Ep. discriminate Ep.
    + intros p [= <-] _ _. eexists. split; [apply set_precommit_first; exact Hn0|]. reflexivity.
Qed.
Hint Resolve pmq_sendPreCommit : kmqpdb.
Lemma pmq_checkPrepare : kmqp (checkPrepare cfg). Proof. unfold checkPrepare. kmqp_go. Qed.
Hint Resolve pmq_checkPrepare : kmqpdb.
Lemma pmq_sendPrepareRequest f : kmqp (sendPrepareRequest cfg f). Proof. unfold sendPrepareRequest, makePrepareRequest. kmqp_go. Qed.
Lemma pmq_onPrepareResponse m : kmqp (onPrepareResponse cfg m).
Proof.
  unfold onPrepareResponse. kmqp_go.
  all: try (match goal with |- context[p_body ?p] => destruct (p_body p) as [[]|] end;
            first [ solve [kmqp_go] | solve [kr_go] | solve [kn_go leafc] ]).
Qed.
Lemma pmq_onPreCommit m : p_type m = PreCommitT -> kmqp (onPreCommit cfg m).
Proof. intros Ty. apply kmqp_of_kd, e_onPreCommit. exact Ty. Qed.
Hint Resolve pmq_sendPrepareRequest pmq_onPrepareResponse pmq_onPreCommit : kmqpdb.

Section WithIcPM.
Variable ic : Z -> Z -> M unit.
Hypothesis HicK : forall v t, K2 (ic v t).
Hypothesis Hic3 : ICr ic.
Hypothesis Hict : forall v t, kt (ic v t).
Hypothesis Hic6p : ICmp ic.
Let Kccv := K_checkChangeView ic HicK.
Let Kscv := K_sendChangeView ic HicK.
Let Kcab := K_createAndCheckBlock cfg ic HicK.
Let Kadd := K_addTransaction cfg ic HicK.
Let Kopr := K_onPrepareRequest cfg ic HicK.
Let Kocv := K_onChangeView cfg ic HicK.
Let Kd0 := K_dispatch0 cfg ic HicK.
Let Knr0 := K_nestedReceive0 cfg ic HicK.
Let Korm := K_onRecoveryMessage cfg ic HicK.
Let Kdis := K_dispatch cfg ic HicK.
Let Korc := K_OnReceive cfg ic HicK.
Hint Resolve HicK Kccv Kscv Kcab Kadd Kopr Kocv Kd0 Knr0 Korm Kdis Korc : kpdb.
Let Tccv := T_checkChangeView ic Hict.
Let Tscv := T_sendChangeView ic Hict.
Let Tcab := T_createAndCheckBlock cfg ic Hict.
Let Tadd := T_addTransaction cfg ic Hict.
Let Topr := T_onPrepareRequest cfg ic Hict.
Let Tocv := T_onChangeView cfg ic Hict.
Let Td0 := T_dispatch0 cfg ic Hict.
Let Tnr0 := T_nestedReceive0 cfg ic Hict.
Let Torm := T_onRecoveryMessage cfg ic Hict.
Let Tdis := T_dispatch cfg ic Hict.
Let Torc := T_OnReceive cfg ic Hict.
Hint Resolve Hict Tccv Tscv Tcab Tadd Topr Tocv Td0 Tnr0 Torm Tdis Torc : kpdb.
Let Zccv := pz_checkChangeView cfg ic HicK Hic3.
Let Zscv := pz_sendChangeView cfg ic HicK Hic3.
Let Zcab := pz_createAndCheckBlock cfg ic HicK Hic3.
Let Zadd := pz_addTransaction cfg ic HicK Hic3.
Hint Resolve Zccv Zscv Zcab Zadd : kzpdb.
Let Qocv := pq_onChangeView cfg ic HicK Hic3.
Hint Resolve Qocv : krdb.
Let Iopr := pi_onPrepareRequest cfg ic HicK Hic3.
Let Id0 := pi_dispatch0 cfg ic HicK Hic3.
Let Inr0 := pi_nestedReceive0 cfg ic HicK Hic3.
Let Iorm := pi_onRecoveryMessage cfg ic HicK Hic3.
Let Idis := pi_dispatch cfg ic HicK Hic3.
Let Iorc := pi_OnReceive cfg ic HicK Hic3.
Hint Resolve Iopr Id0 Inr0 Iorm Idis Iorc : kridb.

(* the ChangeView of checkChangeView ("agreement") and the view change itself happen only while nothing is signed *)
Lemma pmz_checkChangeView view : kmzp (checkChangeView ic view).
Proof.
  intros vs mi g0 s0 HT H0 Hz. unfold checkChangeView. apply x_get.
  destruct (ViewNumber s0 >=? view) eqn:Ev; [apply x_ret; rewrite app_nil_r; apply L6p_unsigned; exact Hz|]. cbv zeta.
  destruct (_ <? _); [apply x_ret; rewrite app_nil_r; apply L6p_unsigned; exact Hz|].
  rewrite Z.geb_leb in Ev. apply Z.leb_gt in Ev.
  assert (Hpos : KS mi g0 -> 0 < view) by (intros Hk; pose proof (H0 Hk) as (_ & _ & A3 & _); lia).
  eapply x_call; [apply (x_conj _ _ _ _ (c_WatchOnly s0 HT) (k7_frame vs mi g0 s0 _ u_WatchOnly H0))|]. intros wo s1 n1 [[T1 _] [I1 N1]]. cbn beta.
  match goal with |- hx _ (bind ?blk _) _ => assert (Hpre : k7 blk) by (destruct wo; k7_go); assert (Hpt : kt blk) by (destruct wo; kn_go leafc) end.
  eapply x_call; [apply (x_conj _ _ _ _ (Hpt s1 T1) (k7_frame vs mi (g0 ++ n1) s1 _ Hpre I1))|]. intros [] s2 n2 [[T2 _] [I2 N2]]. cbn beta. apply x_get.
  eapply x_conseq; [apply (Hic6p view (lastBlockTimestamp s2) vs mi ((g0 ++ n1) ++ n2) s2 T2 I2)|fixapp].
  intros Hk. pose proof Hk as Hk'. apply KS_app in Hk'. destruct Hk' as [Hk1 _]. apply KS_app in Hk1. destruct Hk1 as [Hk0 _].
  split; [exact (Hpos Hk0)|]. intros Hs. rewrite !nset_app, N1, N2, (Hz Hk0 Hs). reflexivity.
Qed.
Hint Resolve pmz_checkChangeView : kmzpdb.
Lemma pmz_sendChangeView r : kmzp (sendChangeView ic r). Proof. unfold sendChangeView. kmzp_go. Qed.
Hint Resolve pmz_sendChangeView : kmzpdb.
Lemma pmz_createAndCheckBlock : kmzp (createAndCheckBlock cfg ic). Proof. unfold createAndCheckBlock. kmzp_go. Qed.
Hint Resolve pmz_createAndCheckBlock : kmzpdb.
Lemma pmz_addTransaction t : kmzp (addTransaction cfg ic t). Proof. unfold addTransaction. kmzp_go. Qed.
Hint Resolve pmz_addTransaction : kmzpdb.

Lemma pmq_onChangeView m : kmqp (onChangeView cfg ic m).
Proof.
  intros vs mi g0 s0 HT H0 H5. unfold onChangeView. apply x_get. cbv zeta.
  destruct (cv_newview m <=? ViewNumber s0); [apply (kmqp_of_kd _ (e_onRecoveryRequest cfg m) vs mi g0 s0 HT H0 H5)|].
  eapply x_call; [apply (x_conj _ _ _ _ (e_CommitSent s0 HT) (os_specp CommitPayloads s0))|]. intros cs s1 n1 [[_ C1] (-> & N1 & _)]. cbn beta.
  eapply x_call with (Qx := fun ps s tr => s = s0 /\ nset tr = 0%nat /\ npm tr = 0%nat /\
                                         (cs = false -> forall mi, KS mi tr -> ps = isSome (slot (PreCommitPayloads s0) (MyIndex s0)))).
  { destruct cs; [apply x_ret; split; [reflexivity|split; [reflexivity|split; [reflexivity|discriminate]]]|].
    eapply x_conseq; [apply (x_conj _ _ _ _ (e_PreCommitSent s0 HT) (os_specp PreCommitPayloads s0))|]. cbn.
    intros r s n [[_ C] (A & B & D)]. split; [exact A|split; [exact B|split; [apply nopm_npm; exact C|intros _; exact D]]]. }
  intros ps s2 n2 (-> & N2 & C2 & Hps). cbn beta.
  assert (I2 : I7g vs mi ((g0 ++ n1) ++ n2) s0) by (apply I7g_pad; [apply I7g_pad; assumption|assumption]).
  assert (V2 : L6p vs mi ((g0 ++ n1) ++ n2)) by (apply L6p_pad; [apply L6p_pad; [assumption|apply nopm_npm; exact C1]|assumption]).
  destruct (cs || ps) eqn:Ecp.
  { eapply x_conseq; [apply (kmqp_of_kd _ e_sendRecoveryMessage vs mi ((g0 ++ n1) ++ n2) s0 HT I2 V2)|fixapp]. }
  apply orb_false_iff in Ecp. destruct Ecp as [-> ->]. specialize (Hps eq_refl).
  assert (Hz : Z0p vs mi ((g0 ++ n1) ++ n2)).
  { intros Hk Hs. pose proof Hk as Hk'. apply KS_app in Hk'. destruct Hk' as [Hk1 Hkn2]. apply KS_app in Hk1. destruct Hk1 as [Hk0 Hkn1].
    rewrite !nset_app, N1, N2, !Nat.add_0_r. apply (unset_when_no_own_precommit vs mi g0 s0 H0 Hk0); [|exact Hs].
    specialize (Hps mi Hkn2). destruct (slot (PreCommitPayloads s0) (MyIndex s0)); [discriminate Hps|reflexivity]. }
  match goal with |- hx _ ?prog _ => assert (Hrest : kmzp prog) by kmzp_go end.
  eapply x_conseq; [apply (Hrest vs mi ((g0 ++ n1) ++ n2) s0 HT I2 Hz)|fixapp].
Qed.
Hint Resolve pmq_onChangeView : kmqpdb.

Lemma pm_onPrepareRequest m : kmp (onPrepareRequest cfg ic m).
Proof.
  intros vs mi g0 s0 J0 HT H0 H5. unfold onPrepareRequest.
  eapply x_call; [apply rsor_spec|]. intros rs s1 n1 (-> & -> & Hrs). cbn beta. cbn [app]. destruct rs.
  { assert (Hl : ke (_ <- ViewChanging ;; ret tt)) by ke_go. eapply x_conseq; [apply (kmqp_of_kd _ Hl vs mi g0 s0 HT H0 H5)|fixapp]. }
  specialize (Hrs eq_refl).
  assert (Hh : preheader s0 = None).
  { destruct (preheader s0) as [b|] eqn:E; [|reflexivity]. destruct (i_p2 _ J0 b E) as [r Hr]. rewrite Hrs in Hr. discriminate Hr. }
  assert (Hz : Z0p vs mi g0) by (intros Hk Hs; apply (unset_when_no_preheader vs mi g0 s0 H0 Hk Hh Hs)).
  match goal with |- hx _ ?prog _ => assert (Hrest : kmzp prog) end.
  { kmzp_go. all: try (destruct (p_body m) as [[]|]; kmzp_go). }
  eapply x_conseq; [apply (Hrest vs mi g0 s0 HT H0 Hz)|fixapp].
Qed.
Hint Resolve pm_onPrepareRequest : kmpdb.

Lemma pm_receive_common d m : (forall x, K2 (d x)) -> (forall x, kri (d x)) -> (forall x, kt (d x)) -> (forall x, kmp (d x)) -> kmp (receive_common d m).
Proof. intros HdK Hdq Hdt Hd. unfold receive_common. kmp_go. Qed.
Lemma pm_dispatch0 m : kmp (dispatch0 cfg ic m). Proof. unfold dispatch0. destruct (p_type m) eqn:Ty; kmp_go. Qed.
Hint Resolve pm_dispatch0 : kmpdb.
Lemma pm_nestedReceive0 m : kmp (nestedReceive0 cfg ic m).
Proof.
  unfold nestedReceive0. apply kmp_bind; [solveK2|solvekri|solvekt|kmp_leaf|intros _].
  apply pm_receive_common; [intros x; apply Kd0|intros x; apply Id0|intros x; apply Td0|intros x; apply pm_dispatch0].
Qed.
Hint Resolve pm_nestedReceive0 : kmpdb.
Lemma pm_onRecoveryMessage m : kmp (onRecoveryMessage cfg ic m).
Proof. unfold onRecoveryMessage. destruct (p_body m); [apply kmp_panic|]. cbv zeta. kmp_go. Qed.
Hint Resolve pm_onRecoveryMessage : kmpdb.
Lemma pm_dispatch m : kmp (dispatch cfg ic m). Proof. unfold dispatch. destruct (p_type m) eqn:Ty; kmp_go. Qed.
Lemma pm_OnReceive m : kmp (OnReceive cfg ic m).
Proof. unfold OnReceive. apply pm_receive_common; [intros x; apply Kdis|intros x; apply Idis|intros x; apply Tdis|intros x; apply pm_dispatch]. Qed.
Hint Resolve pm_OnReceive : kmpdb.
Lemma pm_replay_map n : forall entries, kmp (replay_map cfg ic n entries).
Proof.
  pose proof (K_replay_map cfg ic HicK) as HKr. pose proof (pi_replay_map cfg ic HicK Hic3) as Hqr. pose proof (T_replay_map cfg ic Hict) as Htr.
  induction n as [|n IH]; intros entries; destruct entries as [|e entries]; cbn [replay_map]; try apply kmp_ret. kmp_go.
Qed.
End WithIcPM.
End RecPM.

Section ApiPM.
Variable cfg : config.
Hint Resolve h_WatchOnly h_RSOR h_own_slot h_ResponseSent h_PreCommitSent h_CommitSent h_ViewChanging h_NotAccepting h_subscribe h_unsubscribe
  h_StopTxFlow h_changeTimer h_getTimestamp h_MakePreHeader h_CreatePreBlock h_broadcast h_rtt h_makeRecoveryMessage h_sendRecoveryMessage
  h_processMissingTx h_sendRecoveryRequest h_makeChangeView h_makePreCommit h_sendPreCommit h_verifyPreCommits h_extendTimer h_GetPrimaryIndex
  h_onRecoveryRequest h_cache_addMessage h_ask_recv h_MakeHeader h_CreateBlock h_makeCommit h_sendCommit h_verifyCommits h_checkCommit
  h_checkPreCommit h_checkPrepare h_onCommit h_onPreCommit h_updateExistingPayloads : kpdb.
Hint Extern 4 (kp Inv2 G2 _) => (apply K2_of_k2; intros; solve [eauto 3 with kpdb]) : kpdb.
Hint Resolve u_WatchOnly u_RSOR u_own_slot u_ResponseSent u_PreCommitSent u_CommitSent u_ViewChanging u_NotAccepting u_subscribe u_unsubscribe
  u_StopTxFlow u_changeTimer u_getTimestamp u_Fill u_MakeHeader u_CreateBlock u_broadcast u_makePrepareRequest u_rtt
  u_makeRecoveryMessage u_sendRecoveryMessage u_processMissingTx u_sendRecoveryRequest u_makeChangeView u_makePrepareResponse
  u_sendPrepareResponse u_makeCommit u_sendCommit u_verifyCommits u_extendTimer u_GetPrimaryIndex u_onRecoveryRequest
  u_cache_addMessage u_ask_recv u_MakePreHeader u_CreatePreBlock u_checkCommit u_verifyPreCommits u_updateExistingPayloads u_onPreCommit : kpdb.
Hint Resolve pq_sendPreCommit pq_checkPreCommit pq_checkPrepare pq_sendPrepareRequest pq_onPrepareResponse pq_onPreCommit : krdb.
Hint Resolve K_onPrepareResponse : kpdb.
Hint Resolve c_WatchOnly c_RSOR c_own_slot c_ResponseSent c_PreCommitSent c_CommitSent c_ViewChanging c_NotAccepting c_subscribe c_unsubscribe
  c_StopTxFlow c_changeTimer c_getTimestamp c_Fill c_MakePreHeader c_CreatePreBlock c_makePrepareRequest c_rtt c_sendRecoveryMessage
  c_processMissingTx c_sendRecoveryRequest c_sendPrepareResponse c_extendTimer c_GetPrimaryIndex c_onRecoveryRequest c_cache_addMessage
  c_ask_recv c_MakeHeader c_CreateBlock c_checkCommit c_sendPreCommit c_sendCommit c_verifyCommits c_verifyPreCommits c_checkPreCommit
  c_checkPrepare c_updateExistingPayloads c_sendPrepareRequest c_onPrepareResponse c_onPreCommit c_onCommit c_makeChangeView y_broadcast : kpdb.
Hint Extern 5 (kp TY AnyC _) => (apply kt_of_kc; solve [eauto 3 with kpdb]) : kpdb.
Hint Resolve e_WatchOnly e_RSOR e_own_slot e_ResponseSent e_PreCommitSent e_CommitSent e_ViewChanging e_NotAccepting e_subscribe e_unsubscribe
  e_StopTxFlow e_changeTimer e_getTimestamp e_Fill e_MakePreHeader e_CreatePreBlock e_makePrepareRequest e_rtt e_sendRecoveryMessage
  e_processMissingTx e_sendRecoveryRequest e_sendPrepareResponse e_extendTimer e_GetPrimaryIndex e_onRecoveryRequest e_cache_addMessage
  e_ask_recv e_MakeHeader e_CreateBlock e_checkCommit e_sendCommit e_checkPreCommit e_onPreCommit e_verifyCommits e_verifyPreCommits e_updateExistingPayloads e_onCommit
  e_makeChangeView : kpdb.

Hint Resolve pmq_sendPreCommit pmq_checkPrepare pmq_sendPrepareRequest pmq_onPrepareResponse pmq_onPreCommit : kmqpdb.
Lemma pm_ic_rest ic view : (forall v t, K2 (ic v t)) -> ICr ic -> (forall v t, kt (ic v t)) -> ICmp ic -> kmp (ic_rest cfg ic view).
Proof.
  intros HicK Hic Hict Hic6p. pose proof (pi_replay_map cfg ic HicK Hic) as Hr. pose proof (K_replay_map cfg ic HicK) as HKr.
  pose proof (T_replay_map cfg ic Hict) as Htr. pose proof (pm_replay_map cfg ic HicK Hic Hict Hic6p) as Hlr.
  unfold ic_rest. kmp_go.
Qed.
Lemma pm_ic_body ic : (forall v t, K2 (ic v t)) -> ICr ic -> (forall v t, kt (ic v t)) -> ICmp ic -> ICmp (initializeConsensus_body cfg ic).
Proof.
  intros HicK Hic Hict Hic6p view ts vs mi g0 s0 HT H0 Hv. rewrite ic_body_unfold.
  eapply x_call; [apply (x_conj _ _ _ _ (x_conj _ _ _ _ (reset_spec cfg view ts s0) (c_reset cfg view ts s0 HT)) (reset_r cfg view ts vs mi g0 s0 H0 Hv))|].
  intros [] s1 n1 [[(J1 & _) (T1 & _)] (I1 & N1)]. cbn beta.
  assert (V1 : L6p vs mi (g0 ++ n1)).
  { apply L6p_unsigned. intros Hk Hs. apply KS_app in Hk. destruct Hk as [Hk0 _]. destruct (Hv Hk0) as [_ Hz]. rewrite nset_app, N1, (Hz Hs). reflexivity. }
  eapply x_conseq; [apply (pm_ic_rest ic view HicK Hic Hict Hic6p vs mi (g0 ++ n1) s1 J1 T1 I1 V1)|]. cbn. intros _ s n P. rewrite app_assoc. exact P.
Qed.
Lemma pm_initializeConsensus fuel : ICmp (initializeConsensus cfg fuel).
Proof.
  induction fuel as [|f IH]; [intros v t vs mi g0 s0 _ _ _; apply x_oof|]. cbn [initializeConsensus].
  apply pm_ic_body; [intros v t; apply K2_initializeConsensus|apply pq_initializeConsensus|intros v t; apply T_initializeConsensus|exact IH].
Qed.
Lemma pm_init : ICmp (init cfg). Proof. apply pm_initializeConsensus. Qed.
Let HK := fun v t => K_init cfg v t.
Let HQ := pq_init cfg.
Let HT := fun v t => T_init cfg v t.
Let HMp := pm_init.

Definition Fresh6p (s : nstate) (tr : tr_t) : Prop := forall mi, L6p (Validators s) mi tr.
Lemma L6p_Fresh5 s tr : (forall mi, exists vs, I7g vs mi tr s /\ L6p vs mi tr) -> Fresh6p s tr.
Proof.
  intros H mi Hk Hs. destruct (H mi) as (vs & H3 & H5). pose proof (H3 Hk) as HI. assert (E : Validators s = vs) by apply HI.
  rewrite E in Hs. apply (H5 Hk Hs).
Qed.

Lemma init_0mp ts s0 : TY s0 -> hx s0 (init cfg 0 ts) (fun _ s tr => Fresh6p s tr).
Proof.
  intros HT0. rewrite init_unfold. pose proof (pq_initializeConsensus cfg 257) as Hic. pose proof (K2_initializeConsensus cfg 257) as HicK.
  pose proof (T_initializeConsensus cfg 257) as Hict. pose proof (pm_initializeConsensus 257) as Hic6p.
  revert Hic HicK Hict Hic6p. generalize (initializeConsensus cfg 257) as ic. intros ic Hic HicK Hict Hic6p. rewrite ic_body_unfold.
  eapply x_call; [apply (x_conj _ _ _ _ (x_conj _ _ _ _ (reset_spec cfg 0 ts s0) (c_reset cfg 0 ts s0 HT0)) (reset_0p cfg ts s0))|].
  intros [] s1 n1 [[(J1 & _) (T1 & _)] (N1 & P1)]. cbn beta.
  assert (HF : hx s1 (ic_rest cfg ic 0) (fun _ s tr => forall mi, I7g (Validators s1) mi (n1 ++ tr) s /\ L6p (Validators s1) mi (n1 ++ tr))).
  { apply (x_forall 0 s1 _ (fun mi _ s tr => I7g (Validators s1) mi (n1 ++ tr) s /\ L6p (Validators s1) mi (n1 ++ tr))). intros mi.
    assert (I1 : I7g (Validators s1) mi n1 s1) by (intros Hk; rewrite N1; apply (P1 mi _ Hk)).
    assert (V1 : L6p (Validators s1) mi n1) by (apply L6p_unsigned; intros _ _; exact N1).
    apply (x_conj _ _ _ _ (pi_ic_rest cfg ic 0 HicK Hic (Validators s1) mi n1 s1 J1 I1) (pm_ic_rest ic 0 HicK Hic Hict Hic6p (Validators s1) mi n1 s1 J1 T1 I1 V1)). }
  eapply x_conseq; [apply HF|]. cbn. intros _ s n P. apply L6p_Fresh5. intros mi. exists (Validators s1). apply P.
Qed.

Lemma fresh_Start6p ts s0 : TY s0 -> hx s0 (Start cfg ts) (fun _ s tr => Fresh6p s tr).
Proof.
  intros HT0. unfold Start. apply x_modify.
  match goal with |- hx ?st _ _ => assert (HT1 : TY st) by (destruct HT0; split; assumption) end.
  eapply x_call; [apply (x_conj _ _ _ _ (x_conj _ _ _ _ (init_0p cfg ts _) (T_init cfg 0 ts _ HT1)) (init_0mp ts _ HT1))|]. intros [] s1 n1 [[[J1 F1] [T1 _]] F5]. cbn beta.
  match goal with |- hx _ ?prog _ => assert (Hq : kr prog) by kr_go; assert (Hv : kmqp prog) by kmqp_go end.
  eapply x_conseq; [apply (x_forall 0 s1 _ (fun mi _ s tr => I7g (Validators s1) mi (n1 ++ tr) s /\ L6p (Validators s1) mi (n1 ++ tr)))|].
  - intros mi. apply (x_conj _ _ _ _ (Hq (Validators s1) mi n1 s1 (Fresh7_I7g _ _ _ F1)) (Hv (Validators s1) mi n1 s1 T1 (Fresh7_I7g _ _ _ F1) (F5 mi))).
  - cbn. intros _ s n P. apply L6p_Fresh5. intros mi. exists (Validators s1). apply P.
Qed.

Lemma kmqp_os_commit {B} (f : bool -> M B) : kmqp (f true) -> kmzp (f false) -> kmqp (bind PreCommitSent f).
Proof.
  intros Ht Hf vs mi g0 s0 HT0 H0 H5. eapply x_call; [apply (x_conj _ _ _ _ (e_PreCommitSent s0 HT0) (os_specp PreCommitPayloads s0))|].
  intros cs s1 n1 [[_ C1] (-> & N1 & Hcs)]. cbn beta.
  assert (I1 : I7g vs mi (g0 ++ n1) s0) by (apply I7g_pad; assumption).
  assert (V1 : L6p vs mi (g0 ++ n1)) by (apply L6p_pad; [assumption|apply nopm_npm; exact C1]).
  destruct cs.
  - eapply x_conseq; [apply (Ht vs mi (g0 ++ n1) s0 HT0 I1 V1)|]. cbn. intros b s n P. rewrite app_assoc. exact P.
  - eapply x_conseq; [apply (Hf vs mi (g0 ++ n1) s0 HT0 I1)|].
    + intros Hk Hs. apply KS_app in Hk. destruct Hk as [Hk0 Hk1]. rewrite nset_app, N1, Nat.add_0_r.
      apply (unset_when_no_own_precommit vs mi g0 s0 H0 Hk0); [|exact Hs].
      specialize (Hcs mi Hk1). destruct (slot (PreCommitPayloads s0) (MyIndex s0)); [discriminate Hcs|reflexivity].
    + cbn. intros b s n P. rewrite app_assoc. exact P.
Qed.
Ltac lvl0 := apply kr_of_k3; solvek7.
Ltac lvl0t := apply kt_of_kc; solvekc.
Ltac lvl0mp := apply kmqp_of_kd; solveke.
Lemma pmq_OnTransaction t : kmqp (OnTransaction cfg t).
Proof.
  assert (Ha : forall t, kmzp (addTransaction cfg (init cfg) t)) by (exact (pmz_addTransaction cfg (init cfg) HK HQ HT HMp)).
  assert (Haz : forall t, kzp (addTransaction cfg (init cfg) t)) by (exact (pz_addTransaction cfg (init cfg) HK HQ)).
  assert (Hat : forall t, kt (addTransaction cfg (init cfg) t)) by (exact (T_addTransaction cfg (init cfg) HT)).
  unfold OnTransaction. apply kmqp_get_bind; intro s. destruct (negb (IsBackup s)); [apply kmqp_ret|].
  apply kmqp_bind; [lvl0|lvl0t|lvl0mp|intro na]. destruct na; [apply kmqp_ret|].
  apply kmqp_bind; [lvl0|lvl0t|lvl0mp|intro rs]. destruct (negb rs); [apply kmqp_ret|].
  apply kmqp_bind; [lvl0|lvl0t|lvl0mp|intro x1]. destruct x1; [apply kmqp_ret|].
  apply kmqp_os_commit; [cbv beta iota; apply kmqp_ret|cbv beta iota; kmzp_go].
Qed.
Lemma pmq_onTimeout h v f : kmqp (onTimeout cfg h v f).
Proof.
  assert (Hs : forall r, kmzp (sendChangeView (init cfg) r)) by (exact (pmz_sendChangeView cfg (init cfg) HK HQ HT HMp)).
  assert (Hsz : forall r, kzp (sendChangeView (init cfg) r)) by (exact (pz_sendChangeView cfg (init cfg) HK HQ)).
  assert (Hst : forall r, kt (sendChangeView (init cfg) r)) by (exact (T_sendChangeView (init cfg) HT)).
  unfold onTimeout. apply kmqp_bind; [lvl0|lvl0t|lvl0mp|intro wo]. apply kmqp_get_bind; intro s.
  destruct (wo || blockProcessed s); [apply kmqp_ret|]. destruct (_ || _); [apply kmqp_ret|].
  apply kmqp_bind; [destruct (IsPrimary s); [lvl0|apply kr_ret]|destruct (IsPrimary s); [lvl0t|apply kp_ret]|destruct (IsPrimary s); [lvl0mp|apply kmqp_ret]|intro rs].
  destruct (IsPrimary s && negb rs); [apply pmq_sendPrepareRequest|].
  destruct (_ || _); [|apply kmqp_ret].
  apply kmqp_bind; [lvl0|lvl0t|lvl0mp|intro cs]. destruct cs; cbv beta iota; cbn [orb]; [kmqp_go|].
  apply kmqp_os_commit; [cbv beta iota; kmqp_go|cbv beta iota; kmzp_go].
Qed.
Lemma pmq_OnNewTransaction : kmqp (OnNewTransaction cfg).
Proof. unfold OnNewTransaction. pose proof (pq_onTimeout cfg) as Ht. pose proof pmq_onTimeout as Hv. pose proof (T_onTimeout cfg) as Htt. kmqp_go. Qed.

Lemma pm_run_event e : continues e -> kmp (run_event cfg e).
Proof.
  destruct e; cbn [run_event continues]; intros Hc; try contradiction.
  - apply (pm_OnReceive cfg (init cfg) HK HQ HT HMp). - apply kmp_of_klq, pmq_onTimeout. - apply kmp_of_klq, pmq_OnTransaction. - apply kmp_of_klq, pmq_OnNewTransaction.
Qed.

Theorem epoch_inv6p st g : Epoch cfg st g -> Fresh6p st g.
Proof.
  induction 1 as [st ts sc st' tr HR Hs|st ts sc st' tr HR Hs|st g ev sc st' tr HE IH Hc Hs].
  - apply (step_hx cfg st (EStart ts) sc st' tr (fun s n => Fresh6p s n) (fresh_Start6p ts st (typed_reach cfg st HR)) Hs).
  - apply (step_hx cfg st (EReset ts) sc st' tr (fun s n => Fresh6p s n) (init_0mp ts st (typed_reach cfg st HR)) Hs).
  - apply L6p_Fresh5. intros mi. exists (Validators st).
    apply (step_hx cfg st ev sc st' tr (fun s n => I7g (Validators st) mi (g ++ n) s /\ L6p (Validators st) mi (g ++ n))); [|exact Hs].
    pose proof (epoch_reach cfg st g HE) as HR.
    pose proof (proposal_reach cfg st HR) as J. pose proof (typed_reach cfg st HR) as HTy.
    pose proof (Fresh7_I7g _ _ mi (epoch_invp cfg st g HE)) as H3.
    apply (x_conj _ _ _ _ (pi_run_event cfg ev Hc (Validators st) mi g st J H3) (pm_run_event ev Hc (Validators st) mi g st J HTy H3 (IH mi))).
Qed.

(* from the first signature request on, every Commit the node broadcasts is the commit built at that request *)
Theorem every_precommit_broadcast_is_the_built_precommit st g mi g1 s p g2 :
  Epoch cfg st g -> KS mi g -> zlen (Validators st) <= 65536 ->
  g = g1 ++ (s, CBroadcast p) :: g2 -> p_type p = PreCommitT -> nset g1 <> 0%nat ->
  exists c, set_precommit g1 = Some c /\ p = c <| p_idx := u16 (MyIndex s) |>.
Proof. intros HE Hk Hs E Ty Hn. apply (epoch_inv6p st g HE mi Hk Hs g1 s p g2 E Ty Hn). Qed.
(* ... so two Commit broadcasts made after the signature - in the same call or in different calls of the epoch, at moments when
   the node reports the same index - carry the same payload *)
Corollary precommit_broadcasts_are_identical st g mi g1 s p g2 g1' s' p' g2' :
  Epoch cfg st g -> KS mi g -> zlen (Validators st) <= 65536 ->
  g = g1 ++ (s, CBroadcast p) :: g2 -> p_type p = PreCommitT -> nset g1 <> 0%nat ->
  g = g1' ++ (s', CBroadcast p') :: g2' -> p_type p' = PreCommitT -> nset g1' <> 0%nat ->
  MyIndex s = MyIndex s' -> p = p'.
Proof.
  intros HE Hk Hs E Ty Hn E' Ty' Hn' Hi.
  destruct (every_precommit_broadcast_is_the_built_precommit st g mi g1 s p g2 HE Hk Hs E Ty Hn) as (c & C1 & ->).
  destruct (every_precommit_broadcast_is_the_built_precommit st g mi g1' s' p' g2' HE Hk Hs E' Ty' Hn') as (c' & C1' & ->).
  assert (Ec : c = c').
  { assert (P1 : set_precommit g = Some c) by (rewrite E; rewrite (set_precommit_prefix g1 _ Hn); exact C1).
    assert (P2 : set_precommit g = Some c') by (rewrite E'; rewrite (set_precommit_prefix g1' _ Hn'); exact C1').
    rewrite P1 in P2. injection P2 as P2. exact P2. }
  rewrite Ec, Hi. reflexivity.
Qed.
End ApiPM.


