(* Typing of the PreCommit and Commit tables, and the functions that never broadcast a ChangeView.
   TY: every entry of PreCommitPayloads is a PreCommit and every entry of CommitPayloads is a Commit (what sendPreCommit / sendCommit
   re-broadcast when the own slot is already filled is therefore never a ChangeView).
   [kc x]: from every state satisfying TY, x preserves TY and broadcasts no payload of type ChangeView. *)
From DbftV Require Export SignLCV.

Definition is_cv (c : call) : bool := match c with CBroadcast p => mtype_eqb (p_type p) ChangeViewT | _ => false end.
Definition NoCV (s : nstate) (c : call) : Prop := is_cv c = false.
Definition AnyC (s : nstate) (c : call) : Prop := True.
Definition TYp := tall (fun p => p_type p = PreCommitT).
Definition TYc := tall (fun p => p_type p = CommitT).
Definition TY (s : nstate) : Prop := TYp (PreCommitPayloads s) /\ TYc (CommitPayloads s).
Notation kc x := (kp TY NoCV x).
Notation kt x := (kp TY AnyC x).

Lemma kt_of_kc {A} (x : M A) : kc x -> kt x.
Proof.
  intros H s0 H0. eapply x_conseq; [apply (H s0 H0)|]. cbn. intros _ s n [P T]. split; [exact P|].
  unfold trG in *. eapply Forall_impl; [|exact T]. intros [s' c] _. exact I.
Qed.

Ltac leafc :=
  cbv beta in *;
  lazymatch goal with
  | |- TY _ =>
      match goal with H : TY _ |- _ =>
        let H1 := fresh in let H2 := fresh in destruct H as [H1 H2];
        repeat match goal with |- context[if ?b then _ else _] => destruct b end;
        split; cbn [PreCommitPayloads CommitPayloads set]; assumption end
  | |- NoCV _ ?c => match goal with H : _ = Some _ |- _ => unfold NoCV; destruct c; try reflexivity; cbn in H; discriminate H end
  | |- AnyC _ _ => exact I
  end.
Lemma kp_panic_bind (I : nstate -> Prop) (G : nstate -> call -> Prop) {A B} (f : A -> M B) : kp I G (bind panic f).
Proof. intros s0 _. apply x_panic. Qed.
Ltac kn_go leaf :=
  cbv beta iota zeta;
  lazymatch goal with
  | |- kp _ _ (bind (bind _ _) _) => apply kp_assoc; kn_go leaf
  | |- kp _ _ (bind (ret _) _) => apply kp_ret_bind; kn_go leaf
  | |- kp _ _ (bind panic _) => apply kp_panic_bind
  | |- kp _ _ (bind get _) => apply kp_get_bind_u; intro; kn_go leaf
  | |- kp _ _ (bind (if ?b then _ else _) _) => destruct b; kn_go leaf
  | |- kp _ _ (bind (match ?o with Some _ => _ | None => _ end) _) => destruct o; kn_go leaf
  | |- kp _ _ (bind _ _) => apply kp_bind; [ | intro]; kn_go leaf
  | |- kp _ _ (ret _) => apply kp_ret
  | |- kp _ _ get => apply kp_get
  | |- kp _ _ (gets _) => apply kp_gets
  | |- kp _ _ (modify _) => apply kp_modify; intros; leaf
  | |- kp _ _ (ask _) => apply kp_ask; intros; leaf
  | |- kp _ _ (ask_unit _) => unfold ask_unit; kn_go leaf
  | |- kp _ _ ask_now => unfold ask_now; kn_go leaf
  | |- kp _ _ ask_watchonly => unfold ask_watchonly; kn_go leaf
  | |- kp _ _ panic => apply kp_panic
  | |- kp _ _ fatal => apply kp_fatal
  | |- kp _ _ out_of_fuel => apply kp_oof
  | |- kp _ _ (tget _ _) => apply kp_tget
  | |- kp _ _ (tset _ _ _) => apply kp_tset
  | |- kp _ _ (when _ _) => apply kp_when; kn_go leaf
  | |- kp _ _ (forM _ _) => apply kp_forM; intro; kn_go leaf
  | |- kp _ _ (if ?b then _ else _) => destruct b; kn_go leaf
  | |- kp _ _ (match ?o with Some _ => _ | None => _ end) => destruct o; kn_go leaf
  | |- kp _ _ (match ?o with nil => _ | cons _ _ => _ end) => destruct o; kn_go leaf
  | |- kp _ _ (match ?o with (_, _) => _ end) => destruct o; kn_go leaf
  | |- kp _ _ (let _ := _ in _) => cbv zeta; kn_go leaf
  | |- kp _ _ _ => first [ solve [eauto 3 with kpdb] | idtac ]
  end.
Ltac kc_go := kn_go leafc.

Lemma c_broadcast m : p_type m <> ChangeViewT -> kc (broadcast m).
Proof.
  intros Hm. unfold broadcast. apply kp_get_bind_u. intros s. unfold ask_unit. apply kp_ask. intros s' c a _ Hsel.
  assert (a = tt) by (destruct a; reflexivity). subst a. apply sel_Broadcast in Hsel. subst c. unfold NoCV, is_cv. rewrite p_type_set_idx.
  destruct (p_type m); try reflexivity. exfalso. apply Hm. reflexivity.
Qed.
#[export] Hint Extern 3 (kp TY NoCV (broadcast _)) => (apply c_broadcast; cbn; discriminate) : kpdb.
(* the typing alone: any broadcast *)
Lemma y_broadcast m : kt (broadcast m). Proof. unfold broadcast. kn_go leafc. Qed.

Section AutoC.
Variable cfg : config.
Lemma c_WatchOnly : kc WatchOnly. Proof. unfold WatchOnly. kc_go. Qed.
Lemma c_RSOR : kc RequestSentOrReceived. Proof. unfold RequestSentOrReceived. kc_go. Qed.
Hint Resolve c_WatchOnly c_RSOR : kpdb.
Lemma c_own_slot tbl : kc (own_slot tbl). Proof. unfold own_slot. kc_go. Qed.
Lemma c_ResponseSent : kc ResponseSent. Proof. apply c_own_slot. Qed.
Lemma c_PreCommitSent : kc PreCommitSent. Proof. apply c_own_slot. Qed.
Lemma c_CommitSent : kc CommitSent. Proof. apply c_own_slot. Qed.
Lemma c_ViewChanging : kc ViewChanging. Proof. unfold ViewChanging. kc_go. Qed.
Hint Resolve c_own_slot c_ResponseSent c_PreCommitSent c_CommitSent c_ViewChanging : kpdb.
Lemma c_NotAccepting : kc NotAcceptingPayloadsDueToViewChanging. Proof. unfold NotAcceptingPayloadsDueToViewChanging. kc_go. Qed.
Lemma c_subscribe : kc subscribeForTransactions. Proof. unfold subscribeForTransactions. kc_go. Qed.
Lemma c_unsubscribe : kc unsubscribeFromTransactions. Proof. unfold unsubscribeFromTransactions. kc_go. Qed.
Lemma c_StopTxFlow : kc StopTxFlow. Proof. unfold StopTxFlow. kc_go. Qed.
Lemma c_changeTimer d : kc (changeTimer d). Proof. unfold changeTimer. kc_go. Qed.
Hint Resolve c_NotAccepting c_subscribe c_unsubscribe c_StopTxFlow c_changeTimer : kpdb.
Lemma c_getTimestamp : kc (getTimestamp cfg). Proof. unfold getTimestamp. kc_go. Qed.
Hint Resolve c_getTimestamp : kpdb.
Lemma c_Fill f : kc (Fill cfg f). Proof. unfold Fill. kc_go. Qed.
Lemma c_MakePreHeader : kc MakePreHeader. Proof. unfold MakePreHeader. kc_go. Qed.
Hint Resolve c_Fill c_MakePreHeader : kpdb.
Lemma c_CreatePreBlock : kc CreatePreBlock. Proof. unfold CreatePreBlock. kc_go. Qed.
Lemma c_makePrepareRequest f : kc (makePrepareRequest cfg f). Proof. unfold makePrepareRequest. kc_go. Qed.
Lemma c_rtt t : kc (rtt_addTime t). Proof. unfold rtt_addTime. kc_go. Qed.
Hint Resolve c_CreatePreBlock c_makePrepareRequest c_rtt : kpdb.
Lemma c_sendRecoveryMessage : kc sendRecoveryMessage. Proof. unfold sendRecoveryMessage, makeRecoveryMessage. kc_go. Qed.
Lemma c_processMissingTx : kc processMissingTx. Proof. unfold processMissingTx. kc_go. Qed.
Hint Resolve c_sendRecoveryMessage c_processMissingTx : kpdb.
Lemma c_sendRecoveryRequest : kc sendRecoveryRequest. Proof. unfold sendRecoveryRequest. kc_go. Qed.
Hint Resolve c_sendRecoveryRequest : kpdb.
Lemma c_sendPrepareResponse : kc sendPrepareResponse. Proof. unfold sendPrepareResponse, makePrepareResponse. kc_go. Qed.
Hint Resolve c_sendPrepareResponse : kpdb.
Lemma c_extendTimer c : kc (extendTimer cfg c). Proof. unfold extendTimer. kc_go. Qed.
Lemma c_GetPrimaryIndex s v : kc (GetPrimaryIndex s v). Proof. unfold GetPrimaryIndex. kc_go. Qed.
Hint Resolve c_extendTimer c_GetPrimaryIndex : kpdb.
Lemma c_onRecoveryRequest m : kc (onRecoveryRequest cfg m). Proof. unfold onRecoveryRequest. kc_go. Qed.
Lemma c_cache_addMessage m : kc (cache_addMessage m). Proof. unfold cache_addMessage. kc_go. Qed.
Lemma c_ask_recv m : kc (ask_recv m). Proof. unfold ask_recv. kc_go. Qed.
Hint Resolve c_onRecoveryRequest c_cache_addMessage c_ask_recv : kpdb.
Lemma c_MakeHeader : kc (MakeHeader cfg). Proof. unfold MakeHeader. kc_go. Qed.
Hint Resolve c_MakeHeader : kpdb.
Lemma c_CreateBlock : kc (CreateBlock cfg). Proof. unfold CreateBlock. kc_go. Qed.
Hint Resolve c_CreateBlock : kpdb.
Lemma c_checkCommit : kc (checkCommit cfg). Proof. unfold checkCommit. kc_go. Qed.
Hint Resolve c_checkCommit : kpdb.
End AutoC.

(* ---------------- symbolic execution for the functions that write the two tables ---------------- *)
Ltac ty_tbl :=
  cbn [PreCommitPayloads CommitPayloads set] in *;
  first [ assumption
        | match goal with H : TY ?s |- tall _ (_ ?s) => first [exact (proj1 H) | exact (proj2 H)] end
        | match goal with Hl : set_chk _ _ _ = Some ?l |- tall _ ?l =>
            eapply tall_set; [ | | exact Hl];
            [ ty_tbl
            | let p := fresh "p" in let E := fresh "E" in intros p E; first [discriminate E | injection E as <-; first [assumption | reflexivity]] ] end
        | unfold empty_tbl; apply tall_empty ].
Ltac ty_solve :=
  first [ assumption
        | unfold TY, TYp, TYc in *; repeat match goal with H : tall _ _ /\ tall _ _ |- _ => destruct H end; split; ty_tbl ].
Ltac nocv Hc := unfold NoCV; match type of Hc with _ = Some _ => idtac end;
  match goal with |- is_cv ?c = false => destruct c; try reflexivity; cbn in Hc; discriminate Hc end.
Ltac trs_c := cbn beta; rewrite ?app_nil_r; repeat first [ assumption | apply trG_nil | apply trG_app | apply trG_cons ].
Ltac kx1 :=
  lazymatch goal with
  | |- hx _ (bind (bind _ _) _) _ => apply x_assoc
  | |- hx _ (bind get _) _ => apply x_get
  | |- hx _ (bind (ask_unit _) _) _ => unfold ask_unit at 1
  | |- hx _ (bind ask_now _) _ => unfold ask_now at 1
  | |- hx _ (bind ask_watchonly _) _ => unfold ask_watchonly at 1
  | |- hx _ (ask_unit _) _ => unfold ask_unit at 1
  | |- hx _ (bind (modify _) _) _ => apply x_modify
  | |- hx ?st (bind (ask _) _) _ =>
      apply x_ask; let a := fresh "a" in let c := fresh "c" in let Hc := fresh "Hc" in intros a c Hc;
      let Gc := fresh "Gc" in assert (Gc : NoCV st c) by (nocv Hc)
  | |- hx _ (bind (ret _) _) _ => apply x_ret_bind
  | |- hx _ (bind panic _) _ => apply x_panic_bind
  | |- hx _ (bind fatal _) _ => apply x_fatal_bind
  | |- hx _ (bind (tget _ _) _) _ => apply x_tget; let x := fresh "x" in let Hi := fresh "Hi" in let Hx := fresh "Hx" in intros x Hi Hx
  | |- hx _ (bind (tset _ _ _) _) _ => apply x_tset; let l := fresh "l" in let Hi := fresh "Hi" in let Hl := fresh "Hl" in intros l Hi Hl
  | |- hx _ (bind (if ?b then _ else _) _) _ => let E := fresh "E" in destruct b eqn:E
  | |- hx _ (if ?b then _ else _) _ => let E := fresh "E" in destruct b eqn:E
  | |- hx _ (bind (match ?o with Some _ => _ | None => _ end) _) _ => let E := fresh "E" in destruct o eqn:E
  | |- hx _ (match ?o with Some _ => _ | None => _ end) _ => let E := fresh "E" in destruct o eqn:E
  | |- hx _ (bind (let _ := _ in _) _) _ => cbv zeta
  | |- hx _ (let _ := _ in _) _ => cbv zeta
  | |- hx _ (modify _) _ => apply x_modify_last
  | |- hx ?st (ask _) _ =>
      apply x_ask_last; let a := fresh "a" in let c := fresh "c" in let Hc := fresh "Hc" in intros a c Hc;
      let Gc := fresh "Gc" in assert (Gc : NoCV st c) by (nocv Hc)
  | |- hx _ (ret _) _ => apply x_ret
  | |- hx _ panic _ => apply x_panic
  | |- hx _ fatal _ => apply x_fatal
  | |- hx _ (bind (broadcast ?m) _) _ =>
      eapply (x_kp TY NoCV); [ apply c_broadcast; first [congruence | cbn; discriminate] | ty_solve | ];
      let a := fresh "a" in let s := fresh "s" in let n := fresh "n" in let Is := fresh "Is" in let Ts := fresh "Ts" in intros a s n Is Ts
  | |- hx _ (broadcast ?m) _ =>
      eapply (x_kp_last TY NoCV); [ apply c_broadcast; first [congruence | cbn; discriminate] | ty_solve | ];
      let a := fresh "a" in let s := fresh "s" in let n := fresh "n" in let Is := fresh "Is" in let Ts := fresh "Ts" in intros a s n Is Ts
  | |- hx _ (bind _ _) _ =>
      eapply (x_kp TY NoCV); [ solve [eauto 3 with kpdb] | ty_solve | ];
      let a := fresh "a" in let s := fresh "s" in let n := fresh "n" in let Is := fresh "Is" in let Ts := fresh "Ts" in intros a s n Is Ts
  | |- hx _ _ _ =>
      eapply (x_kp_last TY NoCV); [ solve [eauto 3 with kpdb] | ty_solve | ];
      let a := fresh "a" in let s := fresh "s" in let n := fresh "n" in let Is := fresh "Is" in let Ts := fresh "Ts" in intros a s n Is Ts
  end.
Ltac kx_fin := cbn beta; lazymatch goal with |- TY _ /\ trG _ _ => split; [ty_solve | trs_c] | |- _ => idtac end.
Ltac kx_go := repeat kx1; kx_fin.

Section ManualC.
Variable cfg : config.
Hint Resolve c_WatchOnly c_RSOR c_own_slot c_ResponseSent c_PreCommitSent c_CommitSent c_ViewChanging c_NotAccepting c_subscribe c_unsubscribe
  c_StopTxFlow c_changeTimer c_getTimestamp c_Fill c_MakePreHeader c_CreatePreBlock c_makePrepareRequest c_rtt c_sendRecoveryMessage
  c_processMissingTx c_sendRecoveryRequest c_sendPrepareResponse c_extendTimer c_GetPrimaryIndex c_onRecoveryRequest c_cache_addMessage
  c_ask_recv c_MakeHeader c_CreateBlock c_checkCommit : kpdb.

(* what makePreCommit / makeCommit return is a PreCommit / a Commit: the stored one (typed by TY) or the one just built *)
Lemma mpc_spec s0 : TY s0 -> hx s0 makePreCommit (fun r s tr => TY s /\ trG NoCV tr /\ forall m, r = Some m -> p_type m = PreCommitT).
Proof.
  intros H0. unfold makePreCommit. repeat kx1; cbn beta.
  all: split; [ty_solve|split; [trs_c|]].
  all: try (intros m' Em; discriminate Em).
  - intros m' [= <-]. unfold TY, TYp in H0. apply (proj1 H0 _ _ Hx).
  - intros m' [= <-]. reflexivity.
Qed.
Lemma c_sendPreCommit : kc sendPreCommit.
Proof.
  intros s0 H0. unfold sendPreCommit. eapply x_call; [apply (mpc_spec s0 H0)|]. intros r s1 n1 (I1 & T1 & Hty). cbn beta.
  destruct r as [msg|]; [specialize (Hty msg eq_refl)|]; kx_go.
Qed.
Lemma mc_spec s0 : TY s0 -> hx s0 (makeCommit cfg) (fun r s tr => TY s /\ trG NoCV tr /\ forall m, r = Some m -> p_type m = CommitT).
Proof.
  intros H0. unfold makeCommit. repeat kx1; cbn beta.
  all: split; [ty_solve|split; [trs_c|]].
  all: try (intros m' Em; discriminate Em).
  - intros m' [= <-]. unfold TY, TYc in H0. apply (proj2 H0 _ _ Hx).
  - intros m' [= <-]. reflexivity.
Qed.
Lemma c_sendCommit : kc (sendCommit cfg).
Proof.
  intros s0 H0. unfold sendCommit. eapply x_call; [apply (mc_spec s0 H0)|]. intros r s1 n1 (I1 & T1 & Hty). cbn beta.
  destruct r as [msg|]; [specialize (Hty msg eq_refl)|]; kx_go.
Qed.
Hint Resolve c_sendPreCommit c_sendCommit : kpdb.

Lemma c_verifyCommits : kc (verifyCommitPayloadsAgainstHeader cfg).
Proof.
  unfold verifyCommitPayloadsAgainstHeader. apply kp_get_bind_u. intros s. apply kp_forM. intros i s1 H1. kx_go.
Qed.
Lemma c_verifyPreCommits : kc verifyPreCommitPayloadsAgainstPreBlock.
Proof.
  unfold verifyPreCommitPayloadsAgainstPreBlock. apply kp_get_bind_u. intros s. destruct (negb _); [apply kp_ret|]. apply kp_forM. intros i s1 H1. kx_go.
Qed.
Hint Resolve c_verifyCommits c_verifyPreCommits : kpdb.
Lemma c_checkPreCommit : kc (checkPreCommit cfg). Proof. unfold checkPreCommit. kc_go. Qed.
Hint Resolve c_checkPreCommit : kpdb.
Lemma c_checkPrepare : kc (checkPrepare cfg). Proof. unfold checkPrepare. kc_go. Qed.
Hint Resolve c_checkPrepare : kpdb.
Lemma c_updateExistingPayloads m : kc (updateExistingPayloads cfg m). Proof. unfold updateExistingPayloads. kc_go. Qed.
Hint Resolve c_updateExistingPayloads : kpdb.
Lemma c_sendPrepareRequest f : kc (sendPrepareRequest cfg f). Proof. unfold sendPrepareRequest, makePrepareRequest. kc_go. Qed.
Lemma c_onPrepareResponse m : kc (onPrepareResponse cfg m).
Proof. unfold onPrepareResponse. kc_go. all: try (match goal with |- context[p_body ?p] => destruct (p_body p) as [[]|] end; kc_go). Qed.

(* a received PreCommit / Commit is stored as what it is *)
Lemma c_onPreCommit msg : p_type msg = PreCommitT -> kc (onPreCommit cfg msg).
Proof. intros Ty s0 H0. unfold onPreCommit. kx_go. Qed.
Lemma c_onCommit msg : p_type msg = CommitT -> kc (onCommit cfg msg).
Proof. intros Ty s0 H0. unfold onCommit. kx_go. Qed.
End ManualC.

(* ---------------- the functions that can reach initializeConsensus, the API, every reachable state ---------------- *)
Section RecT.
Variable cfg : config.
Hint Resolve c_WatchOnly c_RSOR c_own_slot c_ResponseSent c_PreCommitSent c_CommitSent c_ViewChanging c_NotAccepting c_subscribe c_unsubscribe
  c_StopTxFlow c_changeTimer c_getTimestamp c_Fill c_MakePreHeader c_CreatePreBlock c_makePrepareRequest c_rtt c_sendRecoveryMessage
  c_processMissingTx c_sendRecoveryRequest c_sendPrepareResponse c_extendTimer c_GetPrimaryIndex c_onRecoveryRequest c_cache_addMessage
  c_ask_recv c_MakeHeader c_CreateBlock c_checkCommit c_sendPreCommit c_sendCommit c_verifyCommits c_verifyPreCommits c_checkPreCommit
  c_checkPrepare c_updateExistingPayloads c_sendPrepareRequest c_onPrepareResponse c_onPreCommit c_onCommit y_broadcast : kpdb.
Hint Extern 5 (kp TY AnyC _) => (apply kt_of_kc; solve [eauto 3 with kpdb]) : kpdb.
Ltac T_go := kn_go leafc.

Lemma c_makeChangeView ts r : kc (makeChangeView ts r). Proof. unfold makeChangeView. kc_go. Qed.
Hint Resolve c_makeChangeView : kpdb.
Lemma c_keep_changeviews n : forall i v a b, kc (keep_changeviews i n v a b).
Proof. induction n as [|n IH]; intros i v a b; cbn [keep_changeviews]; kc_go. Qed.
Hint Resolve c_keep_changeviews : kpdb.
Lemma c_reset view ts : kc (reset cfg view ts).
Proof. intros s0 H0. unfold reset, unsubscribeFromTransactions, GetPrimaryIndex. kx_go. Qed.

Section WithIcT.
Variable ic : Z -> Z -> M unit.
Hypothesis Hict : forall v t, kt (ic v t).
Hint Resolve Hict : kpdb.
Lemma T_checkChangeView view : kt (checkChangeView ic view). Proof. unfold checkChangeView. T_go. Qed.
Hint Resolve T_checkChangeView : kpdb.
Lemma T_sendChangeView r : kt (sendChangeView ic r). Proof. unfold sendChangeView. T_go. Qed.
Hint Resolve T_sendChangeView : kpdb.
Lemma T_createAndCheckBlock : kt (createAndCheckBlock cfg ic). Proof. unfold createAndCheckBlock. T_go. Qed.
Hint Resolve T_createAndCheckBlock : kpdb.
Lemma T_addTransaction t : kt (addTransaction cfg ic t). Proof. unfold addTransaction. T_go. Qed.
Hint Resolve T_addTransaction : kpdb.
Lemma T_onPrepareRequest m : kt (onPrepareRequest cfg ic m).
Proof. unfold onPrepareRequest. T_go. all: try (destruct (p_body m) as [[]|]; T_go). Qed.
Lemma T_onChangeView m : kt (onChangeView cfg ic m). Proof. unfold onChangeView. T_go. Qed.
Hint Resolve T_onPrepareRequest T_onChangeView : kpdb.
Lemma T_receive_common d m : (forall x, kt (d x)) -> kt (receive_common d m).
Proof. intros Hd. unfold receive_common. T_go. Qed.
Lemma T_dispatch0 m : kt (dispatch0 cfg ic m). Proof. unfold dispatch0. destruct (p_type m) eqn:Ty; T_go. Qed.
Hint Resolve T_dispatch0 : kpdb.
Lemma T_nestedReceive0 m : kt (nestedReceive0 cfg ic m).
Proof. unfold nestedReceive0. apply kp_bind; [T_go|intros _]. apply T_receive_common. intros x. apply T_dispatch0. Qed.
Hint Resolve T_nestedReceive0 : kpdb.
Lemma T_onRecoveryMessage m : kt (onRecoveryMessage cfg ic m).
Proof. unfold onRecoveryMessage. destruct (p_body m); [apply kp_panic|]. cbv zeta. T_go. Qed.
Hint Resolve T_onRecoveryMessage : kpdb.
Lemma T_dispatch m : kt (dispatch cfg ic m). Proof. unfold dispatch. destruct (p_type m) eqn:Ty; T_go. Qed.
Lemma T_OnReceive m : kt (OnReceive cfg ic m). Proof. unfold OnReceive. apply T_receive_common. apply T_dispatch. Qed.
Hint Resolve T_OnReceive : kpdb.
Lemma T_replay_map n : forall entries, kt (replay_map cfg ic n entries).
Proof. induction n as [|n IH]; intros entries; destruct entries as [|e entries]; cbn [replay_map]; try apply kp_ret. T_go. Qed.
Lemma T_ic_rest view : kt (ic_rest cfg ic view).
Proof. pose proof T_replay_map as Hr. unfold ic_rest. T_go. Qed.
Lemma T_ic_body view ts : kt (initializeConsensus_body cfg ic view ts).
Proof. rewrite ic_body_unfold. apply kp_bind; [apply kt_of_kc, c_reset|intros _; apply T_ic_rest]. Qed.
End WithIcT.

Lemma T_initializeConsensus fuel : forall v t, kt (initializeConsensus cfg fuel v t).
Proof. induction fuel as [|f IH]; intros v t; cbn [initializeConsensus]; [apply kp_oof|]. apply T_ic_body. exact IH. Qed.
Lemma T_init v t : kt (init cfg v t). Proof. apply T_initializeConsensus. Qed.
Hint Resolve T_init : kpdb.
Lemma T_Start ts : kt (Start cfg ts). Proof. unfold Start. T_go. Qed.
Lemma T_Reset ts : kt (Reset cfg ts). Proof. apply T_init. Qed.
Lemma T_OnTransaction t : kt (OnTransaction cfg t).
Proof. unfold OnTransaction. pose proof (T_addTransaction (init cfg) T_init) as Ha. T_go. Qed.
Lemma T_onTimeout h v f : kt (onTimeout cfg h v f).
Proof. unfold onTimeout. pose proof (T_sendChangeView (init cfg) T_init) as Hs. T_go. Qed.
Lemma T_OnNewTransaction : kt (OnNewTransaction cfg).
Proof. unfold OnNewTransaction. pose proof T_onTimeout as Ht. T_go. Qed.
Lemma T_run_event e : kt (run_event cfg e).
Proof.
  destruct e; cbn [run_event].
  - apply T_Start. - apply T_Reset. - apply T_OnReceive, T_init. - apply T_onTimeout. - apply T_OnTransaction. - apply T_OnNewTransaction.
Qed.

Lemma TY_fresh_state : TY fresh_state.
Proof. split; intros i p H; destruct i; discriminate H. Qed.
Theorem typed_step st ev sc st' tr : TY st -> step cfg st ev sc = Ok (st', tr) -> TY st'.
Proof.
  intros HI Hs. apply (step_hx cfg st ev sc st' tr (fun s _ => TY s)); [|exact Hs].
  eapply x_conseq; [apply (T_run_event ev st HI)|]. cbn. intros _ s n [A _]. exact A.
Qed.
(* in every reachable state the PreCommit table holds PreCommits only and the Commit table Commits only *)
Theorem typed_reach st : Reach cfg st -> TY st.
Proof. induction 1 as [|st ev sc st' tr HR IH Hs]; [apply TY_fresh_state|]. apply (typed_step _ _ _ _ _ IH Hs). Qed.
End RecT.
