(* C03, "once it has broadcast a commit it never asks for a view change": over every history of an epoch, from the moment the
   node has asked for its block signature the table of view-change requests - its own request included - is never written
   again: it stays what it was at the instant of the signature.  Every ChangeView the model broadcasts is first recorded in the
   node's own slot of that table (makeChangeView), and every ChangeView it follows is recorded in the sender's slot
   (onChangeView); both are reached only while nothing is signed.
   Ghost: the table at the first signature request of the history (the trace carries the state at each callback). *)
From DbftV Require Export SignLApi.

Fixpoint signed_cvt (g : tr_t) : option (list (option payload)) :=
  match g with
  | [] => None
  | (s, c) :: r => if is_sign c then Some (ChangeViewPayloads s) else signed_cvt r
  end.
Lemma signed_cvt_app_signed g tr : nsign g <> 0%nat -> signed_cvt (g ++ tr) = signed_cvt g.
Proof.
  induction g as [|[s c] r IH]; [intros H; exfalso; apply H; reflexivity|]. cbn [app signed_cvt]. unfold nsign. cbn [filter snd].
  destruct (is_sign c); [reflexivity|exact IH].
Qed.
Lemma signed_cvt_app_unsigned g tr : nsign g = 0%nat -> signed_cvt (g ++ tr) = signed_cvt tr.
Proof.
  induction g as [|[s c] r IH]; [reflexivity|]. cbn [app signed_cvt]. unfold nsign. cbn [filter snd].
  destruct (is_sign c); [discriminate|exact IH].
Qed.
Definition CvAt (T : list (option payload)) (s : nstate) (c : call) : Prop := ChangeViewPayloads s = T.
Lemma signed_cvt_frame T tr : trG (CvAt T) tr -> nsign tr <> 0%nat -> signed_cvt tr = Some T.
Proof.
  unfold trG. induction 1 as [|[s c] r H _ IH]; [intros H; exfalso; apply H; reflexivity|]. cbn [signed_cvt]. unfold nsign. cbn [filter snd].
  destruct (is_sign c); [intros _; cbn in H; unfold CvAt in H; rewrite H; reflexivity|exact IH].
Qed.

(* level 0: functions that leave the table alone, at every callback instant and at the end *)
Notation kf x := (forall T, kp (fun s => ChangeViewPayloads s = T) (CvAt T) x).
Ltac leaff :=
  cbv beta in *; unfold CvAt in *;
  first [ assumption
        | cbn [ChangeViewPayloads set]; assumption
        | repeat match goal with |- context[if ?b then _ else _] => destruct b end; cbn [ChangeViewPayloads set]; assumption
        | cbn; assumption ].
Ltac kf_go := let T := fresh "T" in intros T; kp_go leaff.

Section AutoF.
Variable cfg : config.
Lemma f_WatchOnly : kf WatchOnly. Proof. unfold WatchOnly. kf_go. Qed.
Lemma f_RSOR : kf RequestSentOrReceived. Proof. unfold RequestSentOrReceived. kf_go. Qed.
Hint Resolve f_WatchOnly f_RSOR : kpdb.
Lemma f_own_slot tbl : kf (own_slot tbl). Proof. unfold own_slot. kf_go. Qed.
Lemma f_ResponseSent : kf ResponseSent. Proof. apply f_own_slot. Qed.
Lemma f_PreCommitSent : kf PreCommitSent. Proof. apply f_own_slot. Qed.
Lemma f_CommitSent : kf CommitSent. Proof. apply f_own_slot. Qed.
Lemma f_ViewChanging : kf ViewChanging. Proof. unfold ViewChanging. kf_go. Qed.
Hint Resolve f_own_slot f_ResponseSent f_PreCommitSent f_CommitSent f_ViewChanging : kpdb.
Lemma f_NotAccepting : kf NotAcceptingPayloadsDueToViewChanging. Proof. unfold NotAcceptingPayloadsDueToViewChanging. kf_go. Qed.
Lemma f_subscribe : kf subscribeForTransactions. Proof. unfold subscribeForTransactions. kf_go. Qed.
Lemma f_unsubscribe : kf unsubscribeFromTransactions. Proof. unfold unsubscribeFromTransactions. kf_go. Qed.
Lemma f_StopTxFlow : kf StopTxFlow. Proof. unfold StopTxFlow. kf_go. Qed.
Lemma f_changeTimer d : kf (changeTimer d). Proof. unfold changeTimer. kf_go. Qed.
Hint Resolve f_NotAccepting f_subscribe f_unsubscribe f_StopTxFlow f_changeTimer : kpdb.
Lemma f_getTimestamp : kf (getTimestamp cfg). Proof. unfold getTimestamp. kf_go. Qed.
Hint Resolve f_getTimestamp : kpdb.
Lemma f_Fill f : kf (Fill cfg f). Proof. unfold Fill. kf_go. Qed.
Lemma f_MakePreHeader : kf MakePreHeader. Proof. unfold MakePreHeader. kf_go. Qed.
Hint Resolve f_Fill f_MakePreHeader : kpdb.
Lemma f_CreatePreBlock : kf CreatePreBlock. Proof. unfold CreatePreBlock. kf_go. Qed.
Lemma f_broadcast m : kf (broadcast m). Proof. unfold broadcast. kf_go. Qed.
Lemma f_makePrepareRequest f : kf (makePrepareRequest cfg f). Proof. unfold makePrepareRequest. kf_go. Qed.
Lemma f_rtt t : kf (rtt_addTime t). Proof. unfold rtt_addTime. kf_go. Qed.
Hint Resolve f_CreatePreBlock f_broadcast f_makePrepareRequest f_rtt : kpdb.
Lemma f_makeRecoveryMessage : kf makeRecoveryMessage. Proof. unfold makeRecoveryMessage. kf_go. Qed.
Hint Resolve f_makeRecoveryMessage : kpdb.
Lemma f_sendRecoveryMessage : kf sendRecoveryMessage. Proof. unfold sendRecoveryMessage. kf_go. Qed.
Lemma f_processMissingTx : kf processMissingTx. Proof. unfold processMissingTx. kf_go. Qed.
Hint Resolve f_sendRecoveryMessage f_processMissingTx : kpdb.
Lemma f_sendRecoveryRequest : kf sendRecoveryRequest. Proof. unfold sendRecoveryRequest. kf_go. Qed.
Lemma f_makePrepareResponse : kf makePrepareResponse. Proof. unfold makePrepareResponse. kf_go. Qed.
Hint Resolve f_sendRecoveryRequest f_makePrepareResponse : kpdb.
Lemma f_sendPrepareResponse : kf sendPrepareResponse. Proof. unfold sendPrepareResponse. kf_go. Qed.
Lemma f_makePreCommit : kf makePreCommit. Proof. unfold makePreCommit. kf_go. Qed.
Hint Resolve f_sendPrepareResponse f_makePreCommit : kpdb.
Lemma f_sendPreCommit : kf sendPreCommit. Proof. unfold sendPreCommit. kf_go. Qed.
Lemma f_verifyPreCommits : kf verifyPreCommitPayloadsAgainstPreBlock. Proof. unfold verifyPreCommitPayloadsAgainstPreBlock. kf_go. Qed.
Hint Resolve f_sendPreCommit f_verifyPreCommits : kpdb.
Lemma f_extendTimer c : kf (extendTimer cfg c). Proof. unfold extendTimer. kf_go. Qed.
Lemma f_GetPrimaryIndex s v : kf (GetPrimaryIndex s v). Proof. unfold GetPrimaryIndex. kf_go. Qed.
Hint Resolve f_extendTimer f_GetPrimaryIndex : kpdb.
Lemma f_onRecoveryRequest m : kf (onRecoveryRequest cfg m). Proof. unfold onRecoveryRequest. kf_go. Qed.
Lemma f_cache_addMessage m : kf (cache_addMessage m). Proof. unfold cache_addMessage. kf_go. Qed.
Lemma f_ask_recv m : kf (ask_recv m). Proof. unfold ask_recv. kf_go. Qed.
Hint Resolve f_onRecoveryRequest f_cache_addMessage f_ask_recv : kpdb.
Lemma f_MakeHeader : kf (MakeHeader cfg). Proof. unfold MakeHeader. kf_go. Qed.
Hint Resolve f_MakeHeader : kpdb.
Lemma f_CreateBlock : kf (CreateBlock cfg). Proof. unfold CreateBlock. kf_go. Qed.
Lemma f_makeCommit : kf (makeCommit cfg). Proof. unfold makeCommit. kf_go. Qed.
Hint Resolve f_CreateBlock f_makeCommit : kpdb.
Lemma f_sendCommit : kf (sendCommit cfg). Proof. unfold sendCommit. kf_go. Qed.
Lemma f_verifyCommits : kf (verifyCommitPayloadsAgainstHeader cfg). Proof. unfold verifyCommitPayloadsAgainstHeader. kf_go. Qed.
Hint Resolve f_sendCommit f_verifyCommits : kpdb.
Lemma f_checkCommit : kf (checkCommit cfg). Proof. unfold checkCommit. kf_go. Qed.
Hint Resolve f_checkCommit : kpdb.
Lemma f_checkPreCommit : kf (checkPreCommit cfg). Proof. unfold checkPreCommit. kf_go. Qed.
Hint Resolve f_checkPreCommit : kpdb.
Lemma f_checkPrepare : kf (checkPrepare cfg). Proof. unfold checkPrepare. kf_go. Qed.
Hint Resolve f_checkPrepare : kpdb.
Lemma f_updateExistingPayloads m : kf (updateExistingPayloads cfg m). Proof. unfold updateExistingPayloads. kf_go. Qed.
Hint Resolve f_updateExistingPayloads : kpdb.
Lemma f_onCommit m : kf (onCommit cfg m). Proof. unfold onCommit. kf_go. Qed.
Lemma f_onPreCommit m : kf (onPreCommit cfg m). Proof. unfold onPreCommit. kf_go. Qed.
Lemma f_sendPrepareRequest f : kf (sendPrepareRequest cfg f). Proof. unfold sendPrepareRequest. kf_go. Qed.
Lemma f_onPrepareResponse m : kf (onPrepareResponse cfg m).
Proof. unfold onPrepareResponse. kf_go. all: try (match goal with |- context[p_body ?p] => destruct (p_body p) as [[]|] end; kp_go leaff). Qed.
End AutoF.

(* ---------------- level 1: over the history so far ---------------- *)
Definition I4g (vs : list key) (mi : Z) (g : tr_t) (s : nstate) : Prop :=
  KS mi g -> zlen vs <= 65536 -> nsign g <> 0%nat -> signed_cvt g = Some (ChangeViewPayloads s).
Definition kvq {A} (x : M A) : Prop :=
  forall vs mi g0 s0, I3g vs mi g0 s0 -> I4g vs mi g0 s0 -> hx s0 x (fun _ s tr => I4g vs mi (g0 ++ tr) s).
(* run only while nothing is signed *)
Definition kvz {A} (x : M A) : Prop :=
  forall vs mi g0 s0, I3g vs mi g0 s0 -> Z0 vs mi g0 -> hx s0 x (fun _ s tr => I4g vs mi (g0 ++ tr) s).
(* with Inv2 as a precondition *)
Definition kv {A} (x : M A) : Prop :=
  forall vs mi g0 s0, Inv2 s0 -> I3g vs mi g0 s0 -> I4g vs mi g0 s0 -> hx s0 x (fun _ s tr => I4g vs mi (g0 ++ tr) s).
Definition ICv (ic : Z -> Z -> M unit) : Prop :=
  forall v t vs mi g0 s0, I3g vs mi g0 s0 -> (KS mi g0 -> 0 < v /\ (zlen vs <= 65536 -> nsign g0 = 0%nat)) ->
  hx s0 (ic v t) (fun _ s tr => I4g vs mi (g0 ++ tr) s).

Lemma I4g_unsigned vs mi g s : Z0 vs mi g -> I4g vs mi g s.
Proof. intros Hz Hk Hs Hn. exfalso. apply Hn. apply (Hz Hk Hs). Qed.
Lemma I4g_pad vs mi g n s : I4g vs mi g s -> nsign n = 0%nat -> I4g vs mi (g ++ n) s.
Proof.
  intros H Hn Hk Hs Hne. apply KS_app in Hk. destruct Hk as [Hk _]. rewrite nsign_app, Hn, Nat.add_0_r in Hne.
  rewrite (signed_cvt_app_signed _ _ Hne). apply (H Hk Hs Hne).
Qed.
Lemma Z0_pad vs mi g n : Z0 vs mi g -> nsign n = 0%nat -> Z0 vs mi (g ++ n).
Proof. intros Hz Hn Hk Hs. apply KS_app in Hk. destruct Hk as [Hk _]. rewrite nsign_app, Hn, (Hz Hk Hs). reflexivity. Qed.

Lemma kvq_of_kf {A} (x : M A) : kf x -> kvq x.
Proof.
  intros Hx vs mi g0 s0 _ H4. eapply x_conseq; [apply (Hx (ChangeViewPayloads s0) s0 eq_refl)|].
  cbn. intros _ s n [E T] Hk Hs Hn. pose proof Hk as Hk'. apply KS_app in Hk'. destruct Hk' as [Hk0 _].
  destruct (Nat.eq_dec (nsign g0) 0) as [E0|N0].
  - rewrite (signed_cvt_app_unsigned _ _ E0). rewrite nsign_app, E0 in Hn. rewrite (signed_cvt_frame _ _ T Hn), E. reflexivity.
  - rewrite (signed_cvt_app_signed _ _ N0), E. apply (H4 Hk0 Hs N0).
Qed.
Lemma kvq_ret {A} (a : A) : kvq (ret a).
Proof. intros vs mi g0 s0 _ H. apply x_ret. rewrite app_nil_r. exact H. Qed.
Lemma kvq_panic {A} : kvq (@panic A). Proof. intros vs mi g0 s0 _ _. apply x_panic. Qed.
Lemma kvq_fatal {A} : kvq (@fatal A). Proof. intros vs mi g0 s0 _ _. apply x_fatal. Qed.
Lemma kvq_oof {A} : kvq (@out_of_fuel A). Proof. intros vs mi g0 s0 _ _. apply x_oof. Qed.
Lemma kvq_bind {A B} (x : M A) (f : A -> M B) : kq x -> kvq x -> (forall a, kvq (f a)) -> kvq (bind x f).
Proof.
  intros Hq Hx Hf vs mi g0 s0 H3 H4. eapply x_call; [apply (x_conj _ _ _ _ (Hq vs mi g0 s0 H3) (Hx vs mi g0 s0 H3 H4))|].
  intros a s1 n1 [P3 P4]. cbn beta. eapply x_conseq; [apply (Hf a vs mi (g0 ++ n1) s1 P3 P4)|]. cbn. intros b s n P. rewrite app_assoc. exact P.
Qed.
Lemma kvq_assoc {A B C} (x : M A) (g : A -> M B) (f : B -> M C) : kvq (bind x (fun a => bind (g a) f)) -> kvq (bind (bind x g) f).
Proof. intros H vs mi g0 s0 H3 H4. apply x_assoc. apply H; assumption. Qed.
Lemma kvq_ret_bind {A B} (a : A) (f : A -> M B) : kvq (f a) -> kvq (bind (ret a) f).
Proof. intros H vs mi g0 s0 H3 H4. apply x_ret_bind. apply H; assumption. Qed.
Lemma kvq_get_bind {B} (f : nstate -> M B) : (forall s, kvq (f s)) -> kvq (bind get f).
Proof. intros H vs mi g0 s0 H3 H4. apply x_get. apply H; assumption. Qed.
Lemma kvq_forM {T} (l : list T) (f : T -> M unit) : (forall a, kq (f a)) -> (forall a, kvq (f a)) -> kvq (forM l f).
Proof. intros Hq Hf. induction l as [|a l IH]; cbn [forM]; [apply kvq_ret|]. apply kvq_bind; auto. Qed.

Lemma kvz_of_kvq {A} (x : M A) : kvq x -> kvz x.
Proof. intros H vs mi g0 s0 H3 Hz. apply (H vs mi g0 s0 H3). apply I4g_unsigned. exact Hz. Qed.
Lemma kvz_of_k3 {A} (x : M A) : k3 x -> kvz x.
Proof.
  intros Hx vs mi g0 s0 H3 Hz. eapply x_conseq; [apply (k3_frame vs mi g0 s0 x Hx H3)|].
  cbn. intros _ s n [_ N]. apply I4g_unsigned. apply Z0_pad; assumption.
Qed.
Lemma kvz_ret {A} (a : A) : kvz (ret a). Proof. apply kvz_of_kvq, kvq_ret. Qed.
Lemma kvz_panic {A} : kvz (@panic A). Proof. apply kvz_of_kvq, kvq_panic. Qed.
Lemma kvz_bind0 {A B} (x : M A) (f : A -> M B) : k3 x -> (forall a, kvz (f a)) -> kvz (bind x f).
Proof.
  intros Hx Hf vs mi g0 s0 H3 Hz. eapply x_call; [apply (k3_frame vs mi g0 s0 x Hx H3)|]. intros a s1 n1 [P1 N1]. cbn beta.
  eapply x_conseq; [apply (Hf a vs mi (g0 ++ n1) s1 P1 (Z0_pad _ _ _ _ Hz N1))|]. cbn. intros b s n P. rewrite app_assoc. exact P.
Qed.
Lemma kvz_bindz {A B} (x : M A) (f : A -> M B) : kz x -> kvz x -> (forall a, kvq (f a)) -> kvz (bind x f).
Proof.
  intros Hq Hx Hf vs mi g0 s0 H3 Hz. eapply x_call; [apply (x_conj _ _ _ _ (Hq vs mi g0 s0 H3 Hz) (Hx vs mi g0 s0 H3 Hz))|].
  intros a s1 n1 [P3 P4]. cbn beta. eapply x_conseq; [apply (Hf a vs mi (g0 ++ n1) s1 P3 P4)|]. cbn. intros b s n P. rewrite app_assoc. exact P.
Qed.
Lemma kvz_assoc {A B C} (x : M A) (g : A -> M B) (f : B -> M C) : kvz (bind x (fun a => bind (g a) f)) -> kvz (bind (bind x g) f).
Proof. intros H vs mi g0 s0 H3 Hz. apply x_assoc. apply H; assumption. Qed.
Lemma kvz_ret_bind {A B} (a : A) (f : A -> M B) : kvz (f a) -> kvz (bind (ret a) f).
Proof. intros H vs mi g0 s0 H3 Hz. apply x_ret_bind. apply H; assumption. Qed.
Lemma kvz_get_bind {B} (f : nstate -> M B) : (forall s, kvz (f s)) -> kvz (bind get f).
Proof. intros H vs mi g0 s0 H3 Hz. apply x_get. apply H; assumption. Qed.

Lemma kv_of_kvq {A} (x : M A) : kvq x -> kv x.
Proof. intros H vs mi g0 s0 _ H3 H4. apply (H vs mi g0 s0 H3 H4). Qed.
Lemma kv_ret {A} (a : A) : kv (ret a). Proof. apply kv_of_kvq, kvq_ret. Qed.
Lemma kv_panic {A} : kv (@panic A). Proof. apply kv_of_kvq, kvq_panic. Qed.
Lemma kv_bind {A B} (x : M A) (f : A -> M B) : K2 x -> kqi x -> kv x -> (forall a, kv (f a)) -> kv (bind x f).
Proof.
  intros HK Hq Hx Hf vs mi g0 s0 J0 H3 H4.
  eapply x_call; [apply (x_conj _ _ _ _ (HK s0 J0) (x_conj _ _ _ _ (Hq vs mi g0 s0 J0 H3) (Hx vs mi g0 s0 J0 H3 H4)))|].
  intros a s1 n1 [[J1 _] [P3 P4]]. cbn beta.
  eapply x_conseq; [apply (Hf a vs mi (g0 ++ n1) s1 J1 P3 P4)|]. cbn. intros b s n P. rewrite app_assoc. exact P.
Qed.
Lemma kv_assoc {A B C} (x : M A) (g : A -> M B) (f : B -> M C) : kv (bind x (fun a => bind (g a) f)) -> kv (bind (bind x g) f).
Proof. intros H vs mi g0 s0 J0 H3 H4. apply x_assoc. apply H; assumption. Qed.
Lemma kv_ret_bind {A B} (a : A) (f : A -> M B) : kv (f a) -> kv (bind (ret a) f).
Proof. intros H vs mi g0 s0 J0 H3 H4. apply x_ret_bind. apply H; assumption. Qed.
Lemma kv_get_bind {B} (f : nstate -> M B) : (forall s, kv (f s)) -> kv (bind get f).
Proof. intros H vs mi g0 s0 J0 H3 H4. apply x_get. apply H; assumption. Qed.
Lemma kv_forM {T} (l : list T) (f : T -> M unit) : (forall a, K2 (f a)) -> (forall a, kqi (f a)) -> (forall a, kv (f a)) -> kv (forM l f).
Proof. intros HK Hq Hf. induction l as [|a l IH]; cbn [forM]; [apply kv_ret|]. apply kv_bind; auto. Qed.

Create HintDb kvqdb discriminated.
Create HintDb kvzdb discriminated.
Create HintDb kvdb discriminated.
Ltac solvekf := solve [ eauto 3 with kpdb | kf_go ].
Ltac solvekq := solve [ eauto 3 with kqdb | apply kq_of_k3; solvek3 | kq_go ].
Ltac kvq_leaf := first [ solve [eauto 3 with kvqdb] | solve [apply kvq_of_kf; solvekf] ].
Ltac kvq_go :=
  lazymatch goal with
  | |- kvq (bind (bind _ _) _) => apply kvq_assoc; kvq_go
  | |- kvq (bind (ret _) _) => apply kvq_ret_bind; kvq_go
  | |- kvq (bind get _) => apply kvq_get_bind; intro; kvq_go
  | |- kvq (bind (if ?b then _ else _) _) => destruct b; kvq_go
  | |- kvq (bind (match ?o with Some _ => _ | None => _ end) _) => destruct o; kvq_go
  | |- kvq (bind _ _) => first [ kvq_leaf | apply kvq_bind; [ solvekq | first [kvq_leaf | solve [kvq_go]] | intro; kvq_go ] ]
  | |- kvq (ret _) => apply kvq_ret
  | |- kvq panic => apply kvq_panic
  | |- kvq fatal => apply kvq_fatal
  | |- kvq out_of_fuel => apply kvq_oof
  | |- kvq (forM _ _) => apply kvq_forM; [ intro; solvekq | intro; kvq_go ]
  | |- kvq (if ?b then _ else _) => destruct b; kvq_go
  | |- kvq (match ?o with Some _ => _ | None => _ end) => destruct o; kvq_go
  | |- kvq (match ?o with nil => _ | cons _ _ => _ end) => destruct o; kvq_go
  | |- kvq (let _ := _ in _) => cbv zeta; kvq_go
  | |- kvq _ => first [ kvq_leaf | idtac ]
  end.
Ltac solvekz := solve [ eauto 3 with kzdb | apply kz_of_kq; solvekq | kz_go ].
Ltac kvz_leaf := first [ solve [eauto 3 with kvzdb] | solve [apply kvz_of_k3; solvek3] | solve [apply kvz_of_kvq; kvq_leaf] ].
Ltac kvz_go :=
  lazymatch goal with
  | |- kvz (bind (bind _ _) _) => apply kvz_assoc; kvz_go
  | |- kvz (bind (ret _) _) => apply kvz_ret_bind; kvz_go
  | |- kvz (bind get _) => apply kvz_get_bind; intro; kvz_go
  | |- kvz (bind (if ?b then _ else _) _) => destruct b; kvz_go
  | |- kvz (bind (match ?o with Some _ => _ | None => _ end) _) => destruct o; kvz_go
  | |- kvz (bind _ _) =>
      first [ apply kvz_bind0; [ solvek3 | intro; kvz_go ]
            | apply kvz_bindz; [ solvekz | solve [eauto 3 with kvzdb] | intro; solve [kvq_go] ]
            | solve [apply kvz_of_kvq; kvq_go] ]
  | |- kvz (ret _) => apply kvz_ret
  | |- kvz panic => apply kvz_panic
  | |- kvz (if ?b then _ else _) => destruct b; kvz_go
  | |- kvz (match ?o with Some _ => _ | None => _ end) => destruct o; kvz_go
  | |- kvz (let _ := _ in _) => cbv zeta; kvz_go
  | |- kvz _ => first [ kvz_leaf | idtac ]
  end.
Ltac solvekqi := first [ kqi_leaf | solve [kqi_go] ].
Ltac kv_leaf := first [ solve [eauto 3 with kvdb] | solve [apply kv_of_kvq; kvq_leaf] ].
Ltac kv_go :=
  lazymatch goal with
  | |- kv (bind (bind _ _) _) => apply kv_assoc; kv_go
  | |- kv (bind (ret _) _) => apply kv_ret_bind; kv_go
  | |- kv (bind get _) => apply kv_get_bind; intro; kv_go
  | |- kv (bind (if ?b then _ else _) _) => destruct b; kv_go
  | |- kv (bind (match ?o with Some _ => _ | None => _ end) _) => destruct o; kv_go
  | |- kv (bind _ _) => first [ solve [apply kv_of_kvq; kvq_go] | apply kv_bind; [ solveK2 | solvekqi | first [kv_leaf | solve [kv_go]] | intro; kv_go ] ]
  | |- kv (ret _) => apply kv_ret
  | |- kv panic => apply kv_panic
  | |- kv (forM _ _) => apply kv_forM; [ intro; solveK2 | intro; solvekqi | intro; kv_go ]
  | |- kv (if ?b then _ else _) => destruct b; kv_go
  | |- kv (match ?o with Some _ => _ | None => _ end) => destruct o; kv_go
  | |- kv (match ?o with nil => _ | cons _ _ => _ end) => destruct o; kv_go
  | |- kv (let _ := _ in _) => cbv zeta; kv_go
  | |- kv _ => first [ kv_leaf | idtac ]
  end.

Section RecV.
Variable cfg : config.
Hint Resolve h_WatchOnly h_RSOR h_own_slot h_ResponseSent h_PreCommitSent h_CommitSent h_ViewChanging h_NotAccepting h_subscribe h_unsubscribe
  h_StopTxFlow h_changeTimer h_getTimestamp h_MakePreHeader h_CreatePreBlock h_broadcast h_rtt h_makeRecoveryMessage h_sendRecoveryMessage
  h_processMissingTx h_sendRecoveryRequest h_makeChangeView h_makePreCommit h_sendPreCommit h_verifyPreCommits h_extendTimer h_GetPrimaryIndex
  h_onRecoveryRequest h_cache_addMessage h_ask_recv h_MakeHeader h_CreateBlock h_makeCommit h_sendCommit h_verifyCommits h_checkCommit
  h_checkPreCommit h_checkPrepare h_onCommit h_onPreCommit h_updateExistingPayloads : kpdb.
Hint Extern 4 (kp Inv2 G2 _) => (apply K2_of_k2; intros; solve [eauto 3 with kpdb]) : kpdb.
Hint Resolve t_WatchOnly t_RSOR t_own_slot t_ResponseSent t_PreCommitSent t_CommitSent t_ViewChanging t_NotAccepting t_subscribe t_unsubscribe
  t_StopTxFlow t_changeTimer t_getTimestamp t_Fill t_MakePreHeader t_CreatePreBlock t_broadcast t_makePrepareRequest t_rtt
  t_makeRecoveryMessage t_sendRecoveryMessage t_processMissingTx t_sendRecoveryRequest t_makeChangeView t_makePrepareResponse
  t_sendPrepareResponse t_makePreCommit t_sendPreCommit t_verifyPreCommits t_extendTimer t_GetPrimaryIndex t_onRecoveryRequest
  t_cache_addMessage t_ask_recv t_MakeHeader t_CreateBlock t_checkCommit t_verifyCommits t_updateExistingPayloads t_onCommit : kpdb.
Hint Resolve q_sendCommit q_checkPreCommit q_checkPrepare q_sendPrepareRequest q_onPrepareResponse q_onPreCommit : kqdb.
Hint Resolve K_onPrepareResponse : kpdb.
Hint Resolve f_WatchOnly f_RSOR f_own_slot f_ResponseSent f_PreCommitSent f_CommitSent f_ViewChanging f_NotAccepting f_subscribe f_unsubscribe
  f_StopTxFlow f_changeTimer f_getTimestamp f_Fill f_MakePreHeader f_CreatePreBlock f_broadcast f_makePrepareRequest f_rtt
  f_makeRecoveryMessage f_sendRecoveryMessage f_processMissingTx f_sendRecoveryRequest f_makePrepareResponse
  f_sendPrepareResponse f_makePreCommit f_sendPreCommit f_verifyPreCommits f_extendTimer f_GetPrimaryIndex f_onRecoveryRequest
  f_cache_addMessage f_ask_recv f_MakeHeader f_CreateBlock f_makeCommit f_sendCommit f_verifyCommits f_checkCommit f_checkPreCommit
  f_checkPrepare f_updateExistingPayloads f_onCommit f_onPreCommit f_sendPrepareRequest f_onPrepareResponse : kpdb.
Ltac fixapp := cbn; let s := fresh "s" in let n := fresh "n" in let P := fresh "P" in intros _ s n P; rewrite <- ?app_assoc in *; cbn [app] in *; exact P.

Section WithIcV.
Variable ic : Z -> Z -> M unit.
Hypothesis HicK : forall v t, K2 (ic v t).
Hypothesis Hic3 : ICq ic.
Hypothesis Hic4 : ICv ic.
Let Kccv := K_checkChangeView ic HicK.
Let Kscv := K_sendChangeView ic HicK.
Let Kcab := K_createAndCheckBlock cfg ic HicK.
Let Kadd := K_addTransaction cfg ic HicK.
Let Kopr := K_onPrepareRequest cfg ic HicK.
Let Kocv := K_onChangeView cfg ic HicK.
Let Kd0 := K_dispatch0 cfg ic HicK.
Let Knr0 := K_nestedReceive0 cfg ic HicK.
Let Korm := K_onRecoveryMessage cfg ic HicK.
Let Kdis := K_dispatch cfg ic HicK.
Let Korc := K_OnReceive cfg ic HicK.
Hint Resolve HicK Kccv Kscv Kcab Kadd Kopr Kocv Kd0 Knr0 Korm Kdis Korc : kpdb.
Let Zccv := z_checkChangeView cfg ic HicK Hic3.
Let Zscv := z_sendChangeView cfg ic HicK Hic3.
Let Zcab := z_createAndCheckBlock cfg ic HicK Hic3.
Let Zadd := z_addTransaction cfg ic HicK Hic3.
Hint Resolve Zccv Zscv Zcab Zadd : kzdb.
Let Qocv := q_onChangeView cfg ic HicK Hic3.
Hint Resolve Qocv : kqdb.
Let Iopr := i_onPrepareRequest cfg ic HicK Hic3.
Let Id0 := i_dispatch0 cfg ic HicK Hic3.
Let Inr0 := i_nestedReceive0 cfg ic HicK Hic3.
Let Iorm := i_onRecoveryMessage cfg ic HicK Hic3.
Let Idis := i_dispatch cfg ic HicK Hic3.
Let Iorc := i_OnReceive cfg ic HicK Hic3.
Hint Resolve Iopr Id0 Inr0 Iorm Idis Iorc : kqidb.

(* a view change is entered only while nothing is signed *)
Lemma vz_checkChangeView view : kvz (checkChangeView ic view).
Proof.
  intros vs mi g0 s0 H0 Hz. unfold checkChangeView. apply x_get.
  destruct (ViewNumber s0 >=? view) eqn:Ev; [apply x_ret; rewrite app_nil_r; apply I4g_unsigned; exact Hz|]. cbv zeta.
  destruct (_ <? _); [apply x_ret; rewrite app_nil_r; apply I4g_unsigned; exact Hz|].
  rewrite Z.geb_leb in Ev. apply Z.leb_gt in Ev.
  assert (Hpos : KS mi g0 -> 0 < view) by (intros Hk; pose proof (H0 Hk) as (_ & _ & A3 & _); lia).
  eapply x_call; [apply (k3_frame vs mi g0 s0 _ t_WatchOnly H0)|]. intros wo s1 n1 [I1 N1]. cbn beta.
  match goal with |- hx _ (bind ?blk _) _ => assert (Hpre : k3 blk) by (destruct wo; k3_go) end.
  eapply x_call; [apply (k3_frame vs mi (g0 ++ n1) s1 _ Hpre I1)|]. intros [] s2 n2 [I2 N2]. cbn beta. apply x_get.
  eapply x_conseq; [apply (Hic4 view (lastBlockTimestamp s2) vs mi ((g0 ++ n1) ++ n2) s2 I2)|fixapp].
  intros Hk. pose proof Hk as Hk'. apply KS_app in Hk'. destruct Hk' as [Hk1 _]. apply KS_app in Hk1. destruct Hk1 as [Hk0 _].
  split; [exact (Hpos Hk0)|]. intros Hs. rewrite !nsign_app, N1, N2, (Hz Hk0 Hs). reflexivity.
Qed.
Hint Resolve vz_checkChangeView : kvzdb.
Lemma vz_sendChangeView r : kvz (sendChangeView ic r). Proof. unfold sendChangeView. kvz_go. Qed.
Hint Resolve vz_sendChangeView : kvzdb.
Lemma vz_createAndCheckBlock : kvz (createAndCheckBlock cfg ic). Proof. unfold createAndCheckBlock. kvz_go. Qed.
Hint Resolve vz_createAndCheckBlock : kvzdb.
Lemma vz_addTransaction t : kvz (addTransaction cfg ic t). Proof. unfold addTransaction. kvz_go. Qed.
Hint Resolve vz_addTransaction : kvzdb.

(* a ChangeView of a peer is recorded only while the node holds no Commit of its own *)
Lemma vq_onChangeView m : kvq (onChangeView cfg ic m).
Proof.
  intros vs mi g0 s0 H0 H4. unfold onChangeView. apply x_get. cbv zeta.
  destruct (cv_newview m <=? ViewNumber s0); [apply (kvq_of_kf _ (f_onRecoveryRequest cfg m) vs mi g0 s0 H0 H4)|].
  eapply x_call; [apply (os_spec CommitPayloads s0)|]. intros cs s1 n1 (-> & N1 & Hcs). cbn beta.
  eapply x_call with (Qx := fun ps s tr => s = s0 /\ nsign tr = 0%nat).
  { destruct cs; [apply x_ret; split; reflexivity|]. eapply x_conseq; [apply (os_spec PreCommitPayloads s0)|]. cbn. intros r s n (A & B & _). auto. }
  intros ps s2 n2 (-> & N2). cbn beta.
  assert (I2 : I3g vs mi ((g0 ++ n1) ++ n2) s0) by (apply I3g_pad; [apply I3g_pad; assumption|assumption]).
  assert (V2 : I4g vs mi ((g0 ++ n1) ++ n2) s0) by (apply I4g_pad; [apply I4g_pad; assumption|assumption]).
  destruct (cs || ps) eqn:Ecp.
  { eapply x_conseq; [apply (kvq_of_kf _ f_sendRecoveryMessage vs mi ((g0 ++ n1) ++ n2) s0 I2 V2)|fixapp]. }
  apply orb_false_iff in Ecp. destruct Ecp as [-> _].
  assert (Hz : Z0 vs mi ((g0 ++ n1) ++ n2)).
  { intros Hk Hs. pose proof Hk as Hk'. apply KS_app in Hk'. destruct Hk' as [Hk1 _]. apply KS_app in Hk1. destruct Hk1 as [Hk0 Hkn1].
    rewrite !nsign_app, N1, N2, !Nat.add_0_r. apply (unsigned_when_no_own_commit vs mi g0 s0 H0 Hk0); [|exact Hs].
    specialize (Hcs mi Hkn1). destruct (slot (CommitPayloads s0) (MyIndex s0)); [discriminate Hcs|reflexivity]. }
  match goal with |- hx _ ?prog _ => assert (Hrest : kvz prog) by kvz_go end.
  eapply x_conseq; [apply (Hrest vs mi ((g0 ++ n1) ++ n2) s0 I2 Hz)|fixapp].
Qed.
Hint Resolve vq_onChangeView : kvqdb.

(* a PrepareRequest is acted upon only while no proposal is held: nothing is signed then *)
Lemma v_onPrepareRequest m : kv (onPrepareRequest cfg ic m).
Proof.
  intros vs mi g0 s0 J0 H0 H4. unfold onPrepareRequest.
  eapply x_call; [apply rsor_spec|]. intros rs s1 n1 (-> & -> & Hrs). cbn beta. cbn [app]. destruct rs.
  { assert (Hl : kf (_ <- ViewChanging ;; ret tt)) by kf_go. eapply x_conseq; [apply (kvq_of_kf _ Hl vs mi g0 s0 H0 H4)|fixapp]. }
  specialize (Hrs eq_refl).
  assert (Hh : header s0 = None).
  { destruct (header s0) as [b|] eqn:E; [|reflexivity]. destruct (i_h2 _ J0 b E) as [r Hr]. rewrite Hrs in Hr. discriminate Hr. }
  assert (Hz : Z0 vs mi g0) by (intros Hk Hs; apply (unsigned_when_no_header vs mi g0 s0 H0 Hk Hh Hs)).
  match goal with |- hx _ ?prog _ => assert (Hrest : kvz prog) end.
  { kvz_go. all: try (destruct (p_body m) as [[]|]; kvz_go). }
  eapply x_conseq; [apply (Hrest vs mi g0 s0 H0 Hz)|fixapp].
Qed.
Hint Resolve v_onPrepareRequest : kvdb.

Lemma v_receive_common d m : (forall x, K2 (d x)) -> (forall x, kqi (d x)) -> (forall x, kv (d x)) -> kv (receive_common d m).
Proof. intros HdK Hdq Hd. unfold receive_common. kv_go. Qed.
Lemma v_dispatch0 m : kv (dispatch0 cfg ic m). Proof. unfold dispatch0. destruct (p_type m); kv_go. Qed.
Hint Resolve v_dispatch0 : kvdb.
Lemma v_nestedReceive0 m : kv (nestedReceive0 cfg ic m).
Proof.
  unfold nestedReceive0. apply kv_bind; [solveK2|solvekqi|kv_leaf|intros _].
  apply v_receive_common; [intros x; apply Kd0|intros x; apply Id0|intros x; apply v_dispatch0].
Qed.
Hint Resolve v_nestedReceive0 : kvdb.
Lemma v_onRecoveryMessage m : kv (onRecoveryMessage cfg ic m).
Proof. unfold onRecoveryMessage. destruct (p_body m); [apply kv_panic|]. cbv zeta. kv_go. Qed.
Hint Resolve v_onRecoveryMessage : kvdb.
Lemma v_dispatch m : kv (dispatch cfg ic m). Proof. unfold dispatch. destruct (p_type m); kv_go. Qed.
Lemma v_OnReceive m : kv (OnReceive cfg ic m).
Proof. unfold OnReceive. apply v_receive_common; [intros x; apply Kdis|intros x; apply Idis|intros x; apply v_dispatch]. Qed.
Hint Resolve v_OnReceive : kvdb.
Lemma v_replay_map n : forall entries, kv (replay_map cfg ic n entries).
Proof.
  pose proof (K_replay_map cfg ic HicK) as HKr. pose proof (i_replay_map cfg ic HicK Hic3) as Hqr.
  induction n as [|n IH]; intros entries; destruct entries as [|e entries]; cbn [replay_map]; try apply kv_ret. kv_go.
Qed.
End WithIcV.
End RecV.

Section ApiV.
Variable cfg : config.
Hint Resolve h_WatchOnly h_RSOR h_own_slot h_ResponseSent h_PreCommitSent h_CommitSent h_ViewChanging h_NotAccepting h_subscribe h_unsubscribe
  h_StopTxFlow h_changeTimer h_getTimestamp h_MakePreHeader h_CreatePreBlock h_broadcast h_rtt h_makeRecoveryMessage h_sendRecoveryMessage
  h_processMissingTx h_sendRecoveryRequest h_makeChangeView h_makePreCommit h_sendPreCommit h_verifyPreCommits h_extendTimer h_GetPrimaryIndex
  h_onRecoveryRequest h_cache_addMessage h_ask_recv h_MakeHeader h_CreateBlock h_makeCommit h_sendCommit h_verifyCommits h_checkCommit
  h_checkPreCommit h_checkPrepare h_onCommit h_onPreCommit h_updateExistingPayloads : kpdb.
Hint Extern 4 (kp Inv2 G2 _) => (apply K2_of_k2; intros; solve [eauto 3 with kpdb]) : kpdb.
Hint Resolve t_WatchOnly t_RSOR t_own_slot t_ResponseSent t_PreCommitSent t_CommitSent t_ViewChanging t_NotAccepting t_subscribe t_unsubscribe
  t_StopTxFlow t_changeTimer t_getTimestamp t_Fill t_MakePreHeader t_CreatePreBlock t_broadcast t_makePrepareRequest t_rtt
  t_makeRecoveryMessage t_sendRecoveryMessage t_processMissingTx t_sendRecoveryRequest t_makeChangeView t_makePrepareResponse
  t_sendPrepareResponse t_makePreCommit t_sendPreCommit t_verifyPreCommits t_extendTimer t_GetPrimaryIndex t_onRecoveryRequest
  t_cache_addMessage t_ask_recv t_MakeHeader t_CreateBlock t_checkCommit t_verifyCommits t_updateExistingPayloads t_onCommit : kpdb.
Hint Resolve q_sendCommit q_checkPreCommit q_checkPrepare q_sendPrepareRequest q_onPrepareResponse q_onPreCommit : kqdb.
Hint Resolve K_onPrepareResponse : kpdb.
Hint Resolve f_WatchOnly f_RSOR f_own_slot f_ResponseSent f_PreCommitSent f_CommitSent f_ViewChanging f_NotAccepting f_subscribe f_unsubscribe
  f_StopTxFlow f_changeTimer f_getTimestamp f_Fill f_MakePreHeader f_CreatePreBlock f_broadcast f_makePrepareRequest f_rtt
  f_makeRecoveryMessage f_sendRecoveryMessage f_processMissingTx f_sendRecoveryRequest f_makePrepareResponse
  f_sendPrepareResponse f_makePreCommit f_sendPreCommit f_verifyPreCommits f_extendTimer f_GetPrimaryIndex f_onRecoveryRequest
  f_cache_addMessage f_ask_recv f_MakeHeader f_CreateBlock f_makeCommit f_sendCommit f_verifyCommits f_checkCommit f_checkPreCommit
  f_checkPrepare f_updateExistingPayloads f_onCommit f_onPreCommit f_sendPrepareRequest f_onPrepareResponse : kpdb.

Lemma v_ic_rest ic view : (forall v t, K2 (ic v t)) -> ICq ic -> ICv ic -> kv (ic_rest cfg ic view).
Proof.
  intros HicK Hic Hic4. pose proof (i_replay_map cfg ic HicK Hic) as Hr. pose proof (K_replay_map cfg ic HicK) as HKr.
  pose proof (v_replay_map cfg ic HicK Hic Hic4) as Hvr.
  unfold ic_rest. kv_go.
Qed.
Lemma v_ic_body ic : (forall v t, K2 (ic v t)) -> ICq ic -> ICv ic -> ICv (initializeConsensus_body cfg ic).
Proof.
  intros HicK Hic Hic4 view ts vs mi g0 s0 H0 Hv. rewrite ic_body_unfold.
  eapply x_call; [apply (x_conj _ _ _ _ (reset_spec cfg view ts s0) (reset_q cfg view ts vs mi g0 s0 H0 Hv))|].
  intros [] s1 n1 [(J1 & _) (I1 & N1)]. cbn beta.
  assert (V1 : I4g vs mi (g0 ++ n1) s1).
  { apply I4g_unsigned. intros Hk Hs. apply KS_app in Hk. destruct Hk as [Hk0 _]. destruct (Hv Hk0) as [_ Hz]. rewrite nsign_app, N1, (Hz Hs). reflexivity. }
  eapply x_conseq; [apply (v_ic_rest ic view HicK Hic Hic4 vs mi (g0 ++ n1) s1 J1 I1 V1)|]. cbn. intros _ s n P. rewrite app_assoc. exact P.
Qed.
Lemma v_initializeConsensus fuel : ICv (initializeConsensus cfg fuel).
Proof.
  induction fuel as [|f IH]; [intros v t vs mi g0 s0 _ _; apply x_oof|]. cbn [initializeConsensus].
  apply v_ic_body; [intros v t; apply K2_initializeConsensus|apply q_initializeConsensus|exact IH].
Qed.
Lemma v_init : ICv (init cfg). Proof. apply v_initializeConsensus. Qed.
Let HK := fun v t => K_init cfg v t.
Let HQ := q_init cfg.
Let HV := v_init.

Definition Fresh4 (s : nstate) (tr : tr_t) : Prop := forall mi, I4g (Validators s) mi tr s.
Lemma I4g_Fresh4 s tr : (forall mi, exists vs, I3g vs mi tr s /\ I4g vs mi tr s) -> Fresh4 s tr.
Proof.
  intros H mi Hk Hs Hn. destruct (H mi) as (vs & H3 & H4). pose proof (H3 Hk) as HI. assert (E : Validators s = vs) by apply HI.
  rewrite E in Hs. apply (H4 Hk Hs Hn).
Qed.

Lemma init_0v ts s0 : hx s0 (init cfg 0 ts) (fun _ s tr => Fresh4 s tr).
Proof.
  rewrite init_unfold. pose proof (q_initializeConsensus cfg 257) as Hic. pose proof (K2_initializeConsensus cfg 257) as HicK.
  pose proof (v_initializeConsensus 257) as Hic4.
  revert Hic HicK Hic4. generalize (initializeConsensus cfg 257) as ic. intros ic Hic HicK Hic4. rewrite ic_body_unfold.
  eapply x_call; [apply (x_conj _ _ _ _ (reset_spec cfg 0 ts s0) (reset_0 cfg ts s0))|]. intros [] s1 n1 [(J1 & _) (N1 & P1)]. cbn beta.
  assert (HF : hx s1 (ic_rest cfg ic 0) (fun _ s tr => forall mi, I3g (Validators s1) mi (n1 ++ tr) s /\ I4g (Validators s1) mi (n1 ++ tr) s)).
  { apply (x_forall 0 s1 _ (fun mi _ s tr => I3g (Validators s1) mi (n1 ++ tr) s /\ I4g (Validators s1) mi (n1 ++ tr) s)). intros mi.
    assert (I1 : I3g (Validators s1) mi n1 s1) by (intros Hk; rewrite N1; apply (P1 mi _ Hk)).
    assert (V1 : I4g (Validators s1) mi n1 s1) by (apply I4g_unsigned; intros _ _; exact N1).
    apply (x_conj _ _ _ _ (i_ic_rest cfg ic 0 HicK Hic (Validators s1) mi n1 s1 J1 I1) (v_ic_rest ic 0 HicK Hic Hic4 (Validators s1) mi n1 s1 J1 I1 V1)). }
  eapply x_conseq; [apply HF|]. cbn. intros _ s n P. apply I4g_Fresh4. intros mi. exists (Validators s1). apply P.
Qed.

Lemma fresh_Start4 ts s0 : hx s0 (Start cfg ts) (fun _ s tr => Fresh4 s tr).
Proof.
  unfold Start. apply x_modify.
  eapply x_call; [apply (x_conj _ _ _ _ (init_0 cfg ts _) (init_0v ts _))|]. intros [] s1 n1 [[J1 F1] F4]. cbn beta.
  match goal with |- hx _ ?prog _ => assert (Hq : kq prog) by kq_go; assert (Hv : kvq prog) by kvq_go end.
  eapply x_conseq; [apply (x_forall 0 s1 _ (fun mi _ s tr => I3g (Validators s1) mi (n1 ++ tr) s /\ I4g (Validators s1) mi (n1 ++ tr) s))|].
  - intros mi. apply (x_conj _ _ _ _ (Hq (Validators s1) mi n1 s1 (Fresh3_I3g _ _ _ F1)) (Hv (Validators s1) mi n1 s1 (Fresh3_I3g _ _ _ F1) (F4 mi))).
  - cbn. intros _ s n P. apply I4g_Fresh4. intros mi. exists (Validators s1). apply P.
Qed.

Lemma kvq_os_commit {B} (f : bool -> M B) : kvq (f true) -> kvz (f false) -> kvq (bind CommitSent f).
Proof.
  intros Ht Hf vs mi g0 s0 H0 H4. eapply x_call; [apply (os_spec CommitPayloads s0)|]. intros cs s1 n1 (-> & N1 & Hcs). cbn beta.
  assert (I1 : I3g vs mi (g0 ++ n1) s0) by (apply I3g_pad; assumption).
  assert (V1 : I4g vs mi (g0 ++ n1) s0) by (apply I4g_pad; assumption).
  destruct cs.
  - eapply x_conseq; [apply (Ht vs mi (g0 ++ n1) s0 I1 V1)|]. cbn. intros b s n P. rewrite app_assoc. exact P.
  - eapply x_conseq; [apply (Hf vs mi (g0 ++ n1) s0 I1)|].
    + intros Hk Hs. apply KS_app in Hk. destruct Hk as [Hk0 Hk1]. rewrite nsign_app, N1, Nat.add_0_r.
      apply (unsigned_when_no_own_commit vs mi g0 s0 H0 Hk0); [|exact Hs].
      specialize (Hcs mi Hk1). destruct (slot (CommitPayloads s0) (MyIndex s0)); [discriminate Hcs|reflexivity].
    + cbn. intros b s n P. rewrite app_assoc. exact P.
Qed.
Ltac lvl0 := apply kq_of_k3; solvek3.
Ltac lvl0v := apply kvq_of_kf; solvekf.
Lemma vq_OnTransaction t : kvq (OnTransaction cfg t).
Proof.
  assert (Ha : forall t, kvz (addTransaction cfg (init cfg) t)) by (exact (vz_addTransaction cfg (init cfg) HK HQ HV)).
  assert (Haz : forall t, kz (addTransaction cfg (init cfg) t)) by (exact (z_addTransaction cfg (init cfg) HK HQ)).
  unfold OnTransaction. apply kvq_get_bind; intro s. destruct (negb (IsBackup s)); [apply kvq_ret|].
  apply kvq_bind; [lvl0|lvl0v|intro na]. destruct na; [apply kvq_ret|].
  apply kvq_bind; [lvl0|lvl0v|intro rs]. destruct (negb rs); [apply kvq_ret|].
  apply kvq_bind; [lvl0|lvl0v|intro x1]. destruct x1; [apply kvq_ret|].
  apply kvq_bind; [lvl0|lvl0v|intro x2]. destruct x2; [apply kvq_ret|].
  apply kvq_os_commit; [cbv beta iota; apply kvq_ret|cbv beta iota; kvz_go].
Qed.
Lemma vq_onTimeout h v f : kvq (onTimeout cfg h v f).
Proof.
  assert (Hs : forall r, kvz (sendChangeView (init cfg) r)) by (exact (vz_sendChangeView cfg (init cfg) HK HQ HV)).
  assert (Hsz : forall r, kz (sendChangeView (init cfg) r)) by (exact (z_sendChangeView cfg (init cfg) HK HQ)).
  unfold onTimeout. apply kvq_bind; [lvl0|lvl0v|intro wo]. apply kvq_get_bind; intro s.
  destruct (wo || blockProcessed s); [apply kvq_ret|]. destruct (_ || _); [apply kvq_ret|].
  apply kvq_bind; [destruct (IsPrimary s); [lvl0|apply kq_ret]|destruct (IsPrimary s); [lvl0v|apply kvq_ret]|intro rs].
  destruct (IsPrimary s && negb rs); [apply kvq_of_kf, f_sendPrepareRequest|].
  destruct (_ || _); [|apply kvq_ret].
  apply kvq_os_commit; [cbv beta iota; cbn [orb]; kvq_go|cbv beta iota; cbn [orb]; kvz_go].
Qed.
Lemma vq_OnNewTransaction : kvq (OnNewTransaction cfg).
Proof. unfold OnNewTransaction. pose proof (q_onTimeout cfg) as Ht. pose proof vq_onTimeout as Hv. kvq_go. Qed.

Lemma v_run_event e : continues e -> kv (run_event cfg e).
Proof.
  destruct e; cbn [run_event continues]; intros Hc; try contradiction.
  - apply (v_OnReceive cfg (init cfg) HK HQ HV). - apply kv_of_kvq, vq_onTimeout. - apply kv_of_kvq, vq_OnTransaction. - apply kv_of_kvq, vq_OnNewTransaction.
Qed.

Theorem epoch_inv4 st g : Epoch cfg st g -> Fresh4 st g.
Proof.
  induction 1 as [st ts sc st' tr HR Hs|st ts sc st' tr HR Hs|st g ev sc st' tr HE IH Hc Hs].
  - apply (step_hx cfg st (EStart ts) sc st' tr (fun s n => Fresh4 s n) (fresh_Start4 ts st) Hs).
  - apply (step_hx cfg st (EReset ts) sc st' tr (fun s n => Fresh4 s n) (init_0v ts st) Hs).
  - apply I4g_Fresh4. intros mi. exists (Validators st).
    apply (step_hx cfg st ev sc st' tr (fun s n => I3g (Validators st) mi (g ++ n) s /\ I4g (Validators st) mi (g ++ n) s)); [|exact Hs].
    pose proof (proposal_reach cfg st (epoch_reach cfg st g HE)) as J.
    pose proof (Fresh3_I3g _ _ mi (epoch_inv cfg st g HE)) as H3.
    apply (x_conj _ _ _ _ (i_run_event cfg ev Hc (Validators st) mi g st J H3) (v_run_event ev Hc (Validators st) mi g st J H3 (IH mi))).
Qed.

(* from the first signature request on, the table of view-change requests is the one of that instant *)
Theorem change_view_table_frozen st g mi :
  Epoch cfg st g -> KS mi g -> zlen (Validators st) <= 65536 -> nsign g <> 0%nat -> signed_cvt g = Some (ChangeViewPayloads st).
Proof. intros HE Hk Hs Hn. apply (epoch_inv4 st g HE mi Hk Hs Hn). Qed.

(* ... so no later call of the epoch records a view-change request, the node's own included *)
Theorem no_view_change_request_after_the_signature st g ev sc st' tr mi :
  Epoch cfg st g -> continues ev -> step cfg st ev sc = Ok (st', tr) -> KS mi (g ++ tr) -> zlen (Validators st) <= 65536 -> nsign g <> 0%nat ->
  ChangeViewPayloads st' = ChangeViewPayloads st.
Proof.
  intros HE Hc Hs Hk Hsm Hn. pose proof Hk as Hk'. apply KS_app in Hk'. destruct Hk' as [Hk0 _].
  assert (HE' : Epoch cfg st' (g ++ tr)) by (eapply EpochStep; eauto).
  assert (Hsm' : zlen (Validators st') <= 65536) by (rewrite (epoch_validators cfg st g ev sc st' tr mi HE Hc Hs Hk); exact Hsm).
  assert (Hn' : nsign (g ++ tr) <> 0%nat) by (rewrite nsign_app; lia).
  pose proof (change_view_table_frozen st g mi HE Hk0 Hsm Hn) as E1.
  pose proof (change_view_table_frozen st' (g ++ tr) mi HE' Hk Hsm' Hn') as E2.
  rewrite (signed_cvt_app_signed _ _ Hn), E1 in E2. injection E2 as E2. symmetry. exact E2.
Qed.
End ApiV.
