(* C13 Watch-only nodes are silent, over the whole node model.
   Judgement [W seen x]: in every run of x from every state, if no watch-only query was answered "false" in this segment
   (and none was answered so before it: seen = false), the segment contains no Broadcast, no Sign and no SetData.
   The flag is consulted only when the node is in the validator list ([WatchOnly] answers true without a callback when
   MyIndex < 0), so "every CWatchOnly answer is true" covers both kinds of watch-only node of the property. *)
From DbftV Require Export RT.

Definition emit (c : call) : Prop := match c with CBroadcast _ | CSign _ | CSetData _ => True | _ => False end.
Definition AllWo (tr : tr_t) : Prop := Forall (fun sc => match snd sc with CWatchOnly b => b = true | _ => True end) tr.
Definition NoEmit (tr : tr_t) : Prop := Forall (fun sc => ~ emit (snd sc)) tr.
Definition T (seen : bool) (tr : tr_t) : Prop := seen = false -> AllWo tr -> NoEmit tr.

Lemma T_nil b : T b []. Proof. intros _ _. constructor. Qed.
Lemma T_app b t1 t2 : T b t1 -> T b t2 -> T b (t1 ++ t2).
Proof. intros H1 H2 Hb Ha. unfold AllWo in Ha. apply Forall_app in Ha. destruct Ha as [Ha1 Ha2]. apply Forall_app. split; [apply H1|apply H2]; auto. Qed.
Lemma T_true tr : T true tr. Proof. intros [=]. Qed.
Lemma T_weaken b tr : T false tr -> T b tr. Proof. intros H Hb. apply H. reflexivity. Qed.
Lemma T_cons_quiet b s c tr : ~ emit c -> T b tr -> T b ((s, c) :: tr).
Proof. intros Hc H Hb Ha. unfold AllWo in Ha. apply Forall_cons_iff in Ha. destruct Ha as [Hx Hl]. constructor; [exact Hc|apply H; [exact Hb|exact Hl]]. Qed.
Lemma T_cons_false b s tr : T b ((s, CWatchOnly false) :: tr).
Proof. intros _ Ha. unfold AllWo in Ha. apply Forall_cons_iff in Ha. destruct Ha as [Hx Hl]. discriminate Hx. Qed.

(* the flag is consulted only while the node is in the validator list *)
Definition Gwo (s : nstate) (c : call) : Prop := match c with CWatchOnly _ => 0 <= MyIndex s | _ => True end.
Definition TT (seen : bool) (tr : tr_t) : Prop := T seen tr /\ trG Gwo tr.
Lemma TT_nil b : TT b []. Proof. split; [apply T_nil|apply trG_nil]. Qed.
Lemma TT_app b t1 t2 : TT b t1 -> TT b t2 -> TT b (t1 ++ t2).
Proof. intros [A1 B1] [A2 B2]. split; [apply T_app|apply trG_app]; auto. Qed.

Definition W (seen : bool) {A} (x : M A) : Prop := forall s0, hx s0 x (fun _ _ tr => TT seen tr).

Section Rules.
Variable b : bool.
Lemma W_ret {A} (a : A) : W b (ret a). Proof. intros s0. apply x_ret. apply TT_nil. Qed.
Lemma W_bind {A B} (x : M A) (f : A -> M B) : W b x -> (forall a, W b (f a)) -> W b (bind x f).
Proof.
  intros Hx Hf s0. eapply x_call; [apply Hx|]. intros a s1 n1 T1. eapply x_conseq; [apply Hf|]. cbn. intros _ _ n2 T2. apply TT_app; auto.
Qed.
Lemma W_assoc {A B C} (x : M A) (g : A -> M B) (f : B -> M C) : W b (bind x (fun a => bind (g a) f)) -> W b (bind (bind x g) f).
Proof. intros H s0. apply x_assoc. apply H. Qed.
Lemma W_ret_bind {A B} (a : A) (f : A -> M B) : W b (f a) -> W b (bind (ret a) f).
Proof. intros H s0. apply x_ret_bind. apply H. Qed.
Lemma W_get_bind {B} (f : nstate -> M B) : (forall s, W b (f s)) -> W b (bind get f).
Proof. intros H s0. apply x_get. apply H. Qed.
Lemma W_get : W b get. Proof. intros s0. apply x_get_last. apply TT_nil. Qed.
Lemma W_gets {A} (f : nstate -> A) : W b (gets f).
Proof. intros s0 m Hm. cbn. exists []. rewrite app_nil_r. subst. split; [reflexivity|]. split; [reflexivity|]. apply TT_nil. Qed.
Lemma W_modify g : W b (modify g). Proof. intros s0. apply x_modify_last. apply TT_nil. Qed.
Lemma W_ask {A} (sel : call -> option A) :
  (forall c a, sel c = Some a -> (b = false -> ~ emit c) /\ match c with CWatchOnly _ => False | _ => True end) -> W b (ask sel).
Proof.
  intros H s0. apply x_ask_last. intros a c Hc. destruct (H c a Hc) as [H1 H2]. split.
  - destruct b eqn:E; [apply T_true|]. apply T_cons_quiet; [auto|apply T_nil].
  - apply trG_cons; [|apply trG_nil]. destruct c; try exact I. destruct H2.
Qed.
Lemma W_panic {A} : W b (@panic A). Proof. intros s0. apply x_panic. Qed.
Lemma W_fatal {A} : W b (@fatal A). Proof. intros s0. apply x_fatal. Qed.
Lemma W_oof {A} : W b (@out_of_fuel A). Proof. intros s0. apply x_oof. Qed.
Lemma W_tget {X} (l : list X) i : W b (tget l i).
Proof. intros s0. unfold tget. destruct (i <? 0); [apply x_panic|]. destruct (nth_chk _ _); [apply x_ret; apply TT_nil|apply x_panic]. Qed.
Lemma W_tset {X} (l : list X) i v : W b (tset l i v).
Proof. intros s0. unfold tset. destruct (i <? 0); [apply x_panic|]. destruct (set_chk _ _ _); [apply x_ret; apply TT_nil|apply x_panic]. Qed.
Lemma W_when c x : W b x -> W b (when c x).
Proof. intros H. unfold when. destruct c; [exact H|apply W_ret]. Qed.
Lemma W_forM {X} (l : list X) (f : X -> M unit) : (forall a, W b (f a)) -> W b (forM l f).
Proof. intros H. induction l as [|a l IH]; cbn [forM]; [apply W_ret|]. apply W_bind; [apply H|intros _; exact IH]. Qed.
End Rules.

Lemma W_weaken b {A} (x : M A) : W false x -> W b x.
Proof. intros H s0. eapply x_conseq; [apply H|]. cbn. intros _ _ n [H1 H2]. split; [apply T_weaken; exact H1|exact H2]. Qed.

Lemma sel_WatchOnly c a : match c with CWatchOnly b => Some b | _ => None end = Some a -> c = CWatchOnly a.
Proof. destruct c; try discriminate. intros [= ->]. reflexivity. Qed.

(* the watch-only query: the continuation after a "false" answer is unconstrained *)
Lemma W_wo b {B} (f : bool -> M B) : W b (f true) -> W true (f false) -> W b (bind WatchOnly f).
Proof.
  intros H1 H2 s0. unfold WatchOnly. apply x_assoc. apply x_get. destruct (MyIndex s0 <? 0) eqn:E.
  - apply x_ret_bind. apply H1.
  - apply Z.ltb_ge in E. unfold ask_watchonly. apply x_ask. intros a c Hc. apply sel_WatchOnly in Hc. subst c. destruct a.
    + eapply x_conseq; [apply H1|]. cbn. intros _ _ n [Hn Gn]. split; [apply T_cons_quiet; [exact (fun x => x)|exact Hn]|apply trG_cons; [exact E|exact Gn]].
    + eapply x_conseq; [apply H2|]. cbn. intros _ _ n [_ Gn]. split; [apply T_cons_false|apply trG_cons; [exact E|exact Gn]].
Qed.
Lemma W_WatchOnly b : W b WatchOnly.
Proof. intros s0. apply x_bind_unit_r. apply W_wo; apply W_ret. Qed.

(* own_slot (ResponseSent / PreCommitSent / CommitSent) answers true only after a "false" watch-only answer *)
Lemma W_own b tbl {B} (f : bool -> M B) : W b (f false) -> W true (f true) -> W b (bind (own_slot tbl) f).
Proof.
  intros H1 H2. unfold own_slot. apply W_assoc. apply W_wo.
  - apply W_ret_bind. exact H1.
  - assert (H1' : W true (f false)) by (destruct b; [exact H1|apply W_weaken; exact H1]).
    apply W_assoc. apply W_get_bind. intros s. apply W_assoc. apply W_bind; [apply W_tget|]. intros x. apply W_ret_bind.
    destruct (isSome x); assumption.
Qed.

Create HintDb wdb discriminated.
#[export] Hint Resolve W_WatchOnly : wdb.

Ltac w_leaf :=
  lazymatch goal with
  | |- _ => let c := fresh "c" in let a := fresh "a" in let Hc := fresh "Hc" in
            intros c a Hc; destruct c; try discriminate Hc; try (split; [intros _; exact (fun x : False => x)|exact I]);
            cbn in Hc; try discriminate Hc; try (split; [intros [=]|exact I])
  end.

Ltac w_go :=
  lazymatch goal with
  | |- W _ (bind (bind _ _) _) => apply W_assoc; w_go
  | |- W _ (bind (ret _) _) => apply W_ret_bind; w_go
  | |- W _ (bind get _) => apply W_get_bind; intro; w_go
  | |- W _ (bind WatchOnly _) => apply W_wo; cbn [negb andb orb]; w_go
  | |- W _ (bind (own_slot _) _) => apply W_own; cbn [negb andb orb]; w_go
  | |- W _ (bind ResponseSent _) => unfold ResponseSent at 1; apply W_own; cbn [negb andb orb]; w_go
  | |- W _ (bind PreCommitSent _) => unfold PreCommitSent at 1; apply W_own; cbn [negb andb orb]; w_go
  | |- W _ (bind CommitSent _) => unfold CommitSent at 1; apply W_own; cbn [negb andb orb]; w_go
  | |- W _ (bind (if ?b then _ else _) _) => destruct b; w_go
  | |- W _ (bind (match ?o with Some _ => _ | None => _ end) _) => destruct o; w_go
  | |- W _ (bind _ _) => apply W_bind; [ | intro]; w_go
  | |- W _ (ret _) => apply W_ret
  | |- W _ get => apply W_get
  | |- W _ (gets _) => apply W_gets
  | |- W _ (modify _) => apply W_modify
  | |- W _ (ask _) => apply W_ask; w_leaf
  | |- W _ (ask_unit _) => unfold ask_unit; w_go
  | |- W _ ask_now => unfold ask_now; w_go
  | |- W _ panic => apply W_panic
  | |- W _ fatal => apply W_fatal
  | |- W _ out_of_fuel => apply W_oof
  | |- W _ (tget _ _) => apply W_tget
  | |- W _ (tset _ _ _) => apply W_tset
  | |- W _ (when _ _) => apply W_when; w_go
  | |- W _ (forM _ _) => apply W_forM; intro; w_go
  | |- W _ (if ?b then _ else _) => destruct b; w_go
  | |- W _ (match ?o with Some _ => _ | None => _ end) => destruct o; w_go
  | |- W _ (match ?o with nil => _ | cons _ _ => _ end) => destruct o; w_go
  | |- W _ (match ?o with (_, _) => _ end) => destruct o; w_go
  | |- W _ (let _ := _ in _) => cbv zeta; w_go
  | |- W true _ => first [ solve [eauto 3 with wdb] | solve [apply W_weaken; eauto 3 with wdb] | idtac ]
  | |- W _ _ => first [ solve [eauto 3 with wdb] | idtac ]
  end.

Section Silent.
Variable cfg : config.

(* ---- functions that never emit ---- *)
Lemma w_GetPrimaryIndex s v : W false (GetPrimaryIndex s v). Proof. unfold GetPrimaryIndex. w_go. Qed.
Lemma w_RequestSentOrReceived : W false RequestSentOrReceived. Proof. unfold RequestSentOrReceived. w_go. Qed.
Lemma w_own_slot tbl : W false (own_slot tbl). Proof. unfold own_slot. w_go. Qed.
Lemma w_ResponseSent : W false ResponseSent. Proof. apply w_own_slot. Qed.
Lemma w_PreCommitSent : W false PreCommitSent. Proof. apply w_own_slot. Qed.
Lemma w_CommitSent : W false CommitSent. Proof. apply w_own_slot. Qed.
Lemma w_ViewChanging : W false ViewChanging. Proof. unfold ViewChanging. w_go. Qed.
Hint Resolve w_GetPrimaryIndex w_RequestSentOrReceived w_own_slot w_ResponseSent w_PreCommitSent w_CommitSent w_ViewChanging : wdb.
Lemma w_NotAccepting : W false NotAcceptingPayloadsDueToViewChanging. Proof. unfold NotAcceptingPayloadsDueToViewChanging. w_go. Qed.
Lemma w_subscribe : W false subscribeForTransactions. Proof. unfold subscribeForTransactions. w_go. Qed.
Lemma w_unsubscribe : W false unsubscribeFromTransactions. Proof. unfold unsubscribeFromTransactions. w_go. Qed.
Lemma w_StopTxFlow : W false StopTxFlow. Proof. unfold StopTxFlow. w_go. Qed.
Lemma w_changeTimer d : W false (changeTimer d). Proof. unfold changeTimer. w_go. Qed.
Hint Resolve w_NotAccepting w_subscribe w_unsubscribe w_StopTxFlow w_changeTimer : wdb.
Lemma w_keep_changeviews n : forall i view cvs last, W false (keep_changeviews i n view cvs last).
Proof. induction n as [|n IH]; intros; cbn [keep_changeviews]; [apply W_ret|]. w_go. Qed.
Hint Resolve w_keep_changeviews : wdb.
Lemma w_reset view ts : W false (reset cfg view ts). Proof. unfold reset. w_go. Qed.
Lemma w_getTimestamp : W false (getTimestamp cfg). Proof. unfold getTimestamp. w_go. Qed.
Hint Resolve w_reset w_getTimestamp : wdb.
Lemma w_Fill force : W false (Fill cfg force). Proof. unfold Fill. w_go. Qed.
Lemma w_MakeHeader : W false (MakeHeader cfg). Proof. unfold MakeHeader. w_go. Qed.
Lemma w_MakePreHeader : W false MakePreHeader. Proof. unfold MakePreHeader. w_go. Qed.
Hint Resolve w_Fill w_MakeHeader w_MakePreHeader : wdb.
Lemma w_CreateBlock : W false (CreateBlock cfg). Proof. unfold CreateBlock. w_go. Qed.
Lemma w_CreatePreBlock : W false CreatePreBlock. Proof. unfold CreatePreBlock. w_go. Qed.
Lemma w_makePrepareRequest force : W false (makePrepareRequest cfg force). Proof. unfold makePrepareRequest. w_go. Qed.
Lemma w_rtt_addTime t : W false (rtt_addTime t). Proof. unfold rtt_addTime. w_go. Qed.
Hint Resolve w_CreateBlock w_CreatePreBlock w_makePrepareRequest w_rtt_addTime : wdb.
Lemma w_makeRecoveryMessage : W false makeRecoveryMessage. Proof. unfold makeRecoveryMessage. w_go. Qed.
Lemma w_processMissingTx : W false processMissingTx. Proof. unfold processMissingTx. w_go. Qed.
Lemma w_makeChangeView ts r : W false (makeChangeView ts r). Proof. unfold makeChangeView. w_go. Qed.
Lemma w_makePrepareResponse : W false makePrepareResponse. Proof. unfold makePrepareResponse. w_go. Qed.
Hint Resolve w_makeRecoveryMessage w_processMissingTx w_makeChangeView w_makePrepareResponse : wdb.
Lemma w_verifyCommits : W false (verifyCommitPayloadsAgainstHeader cfg). Proof. unfold verifyCommitPayloadsAgainstHeader. w_go. Qed.
Lemma w_verifyPreCommits : W false verifyPreCommitPayloadsAgainstPreBlock. Proof. unfold verifyPreCommitPayloadsAgainstPreBlock. w_go. Qed.
Lemma w_checkCommit : W false (checkCommit cfg). Proof. unfold checkCommit. w_go. Qed.
Lemma w_extendTimer c : W false (extendTimer cfg c). Proof. unfold extendTimer. w_go. Qed.
Hint Resolve w_verifyCommits w_verifyPreCommits w_checkCommit w_extendTimer : wdb.
Lemma w_updateExistingPayloads m : W false (updateExistingPayloads cfg m). Proof. unfold updateExistingPayloads. w_go. Qed.
Lemma w_cache_addMessage m : W false (cache_addMessage m). Proof. unfold cache_addMessage. w_go. Qed.
Lemma w_ask_recv m : W false (ask_recv m). Proof. unfold ask_recv. w_go. Qed.
Hint Resolve w_updateExistingPayloads w_cache_addMessage w_ask_recv : wdb.

(* ---- emitters: only well-formedness (the "false already seen" mode) ---- *)
Lemma e_broadcast m : W true (broadcast m). Proof. unfold broadcast. w_go. Qed.
Hint Resolve e_broadcast : wdb.
Lemma e_sendRecoveryMessage : W true sendRecoveryMessage. Proof. unfold sendRecoveryMessage. w_go. Qed.
Lemma e_sendRecoveryRequest : W true sendRecoveryRequest. Proof. unfold sendRecoveryRequest. w_go. Qed.
Lemma e_sendPrepareResponse : W true sendPrepareResponse. Proof. unfold sendPrepareResponse. w_go. Qed.
Lemma e_makePreCommit : W true makePreCommit. Proof. unfold makePreCommit. w_go. Qed.
Lemma e_makeCommit : W true (makeCommit cfg). Proof. unfold makeCommit. w_go. Qed.
Hint Resolve e_sendRecoveryMessage e_sendRecoveryRequest e_sendPrepareResponse e_makePreCommit e_makeCommit : wdb.
Lemma e_sendPreCommit : W true sendPreCommit. Proof. unfold sendPreCommit. w_go. Qed.
Lemma e_sendCommit : W true (sendCommit cfg). Proof. unfold sendCommit. w_go. Qed.
Hint Resolve e_sendPreCommit e_sendCommit : wdb.

Lemma w_checkPreCommit : W false (checkPreCommit cfg).
Proof.
  unfold checkPreCommit. apply W_get_bind. intros s. destruct (negb _); [apply W_ret|]. cbv zeta. destruct (_ <? _); [apply W_ret|].
  apply W_bind; [w_go|]. intros [b|]; [|apply W_ret]. apply W_get_bind. intros s1. apply W_bind; [w_go|]. intros cont.
  destruct (negb cont); [apply W_ret|]. unfold PreCommitSent. apply W_own; w_go.
Qed.
Hint Resolve w_checkPreCommit : wdb.
Lemma e_checkPrepare : W true (checkPrepare cfg). Proof. unfold checkPrepare. w_go. Qed.
Hint Resolve e_checkPrepare : wdb.
Lemma e_sendPrepareRequest force : W true (sendPrepareRequest cfg force). Proof. unfold sendPrepareRequest. w_go. Qed.
Hint Resolve e_sendPrepareRequest : wdb.

Section Rec.
Variable ic : Z -> Z -> M unit.
Hypothesis Hic : forall v ts, W false (ic v ts).
Local Hint Resolve Hic : wdb.

Lemma w_checkChangeView view : W false (checkChangeView ic view). Proof. unfold checkChangeView. w_go. Qed.
Local Hint Resolve w_checkChangeView : wdb.
Lemma w_sendChangeView r : W false (sendChangeView ic r). Proof. unfold sendChangeView. w_go. Qed.
Local Hint Resolve w_sendChangeView : wdb.
Lemma w_createAndCheckBlock : W false (createAndCheckBlock cfg ic). Proof. unfold createAndCheckBlock. w_go. Qed.
Local Hint Resolve w_createAndCheckBlock : wdb.
Lemma w_addTransaction t : W false (addTransaction cfg ic t). Proof. unfold addTransaction. w_go. Qed.
Lemma w_onPrepareRequest m : W false (onPrepareRequest cfg ic m). Proof. unfold onPrepareRequest. w_go. destruct (p_body m) as [[]|]; w_go. Qed.
Lemma w_onCommit m : W false (onCommit cfg m). Proof. unfold onCommit. w_go. Qed.
Lemma w_onPreCommit m : W false (onPreCommit cfg m). Proof. unfold onPreCommit. w_go. Qed.
Lemma w_onPrepareResponse m : W false (onPrepareResponse cfg m). Proof. unfold onPrepareResponse. w_go. all: match goal with |- context[p_body ?p] => destruct (p_body p) as [[]|] end; w_go. Qed.
Lemma w_onRecoveryRequest m : W false (onRecoveryRequest cfg m). Proof. unfold onRecoveryRequest. w_go. Qed.
Local Hint Resolve w_addTransaction w_onPrepareRequest w_onCommit w_onPreCommit w_onPrepareResponse w_onRecoveryRequest : wdb.
Lemma w_onChangeView m : W false (onChangeView cfg ic m). Proof. unfold onChangeView. w_go. Qed.
Local Hint Resolve w_onChangeView : wdb.
Lemma w_receive_common d m : (forall x, W false (d x)) -> W false (receive_common d m).
Proof. intros Hd. unfold receive_common. w_go. Qed.
Lemma w_dispatch0 m : W false (dispatch0 cfg ic m). Proof. unfold dispatch0. destruct (p_type m); w_go. Qed.
Local Hint Resolve w_dispatch0 : wdb.
Lemma w_nestedReceive0 m : W false (nestedReceive0 cfg ic m).
Proof. unfold nestedReceive0. apply W_bind; [w_go|intros _]. apply w_receive_common. intros x. apply w_dispatch0. Qed.
Local Hint Resolve w_nestedReceive0 : wdb.
Lemma w_onRecoveryMessage m : W false (onRecoveryMessage cfg ic m).
Proof. unfold onRecoveryMessage. destruct (p_body m); [apply W_panic|]. cbv zeta. w_go. Qed.
Local Hint Resolve w_onRecoveryMessage : wdb.
Lemma w_dispatch m : W false (dispatch cfg ic m). Proof. unfold dispatch. destruct (p_type m); w_go. Qed.
Lemma w_OnReceive m : W false (OnReceive cfg ic m). Proof. unfold OnReceive. apply w_receive_common. apply w_dispatch. Qed.
Local Hint Resolve w_OnReceive : wdb.
Lemma w_replay_map n : forall entries, W false (replay_map cfg ic n entries).
Proof. induction n as [|n IH]; intros entries; destruct entries as [|e entries]; cbn [replay_map]; try apply W_ret. w_go. Qed.
Local Hint Resolve w_replay_map : wdb.
Lemma w_ic_body view ts : W false (initializeConsensus_body cfg ic view ts). Proof. unfold initializeConsensus_body. w_go. Qed.
End Rec.

Lemma w_initializeConsensus fuel : forall view ts, W false (initializeConsensus cfg fuel view ts).
Proof. induction fuel as [|f IH]; intros view ts; cbn [initializeConsensus]; [apply W_oof|]. apply w_ic_body. exact IH. Qed.
Lemma w_init view ts : W false (init cfg view ts). Proof. apply w_initializeConsensus. Qed.
Hint Resolve w_init : wdb.
Lemma w_Start ts : W false (Start cfg ts). Proof. unfold Start. w_go. Qed.
Lemma w_Reset ts : W false (Reset cfg ts). Proof. apply w_init. Qed.
Lemma w_OnTransaction t : W false (OnTransaction cfg t).
Proof. unfold OnTransaction. w_go. all: apply w_addTransaction; apply w_init. Qed.
Lemma w_onTimeout h v force : W false (onTimeout cfg h v force).
Proof. unfold onTimeout. pose proof (w_sendChangeView (init cfg) w_init) as Hs. w_go. Qed.
Lemma w_OnTimeout h v : W false (OnTimeout cfg h v). Proof. apply w_onTimeout. Qed.
Lemma w_OnNewTransaction : W false (OnNewTransaction cfg).
Proof. unfold OnNewTransaction. pose proof w_onTimeout as Ht. w_go. Qed.
Lemma w_run_event e : W false (run_event cfg e).
Proof.
  destruct e; cbn [run_event].
  - apply w_Start. - apply w_Reset. - apply w_OnReceive. apply w_init. - apply w_OnTimeout. - apply w_OnTransaction. - apply w_OnNewTransaction.
Qed.

(* a node whose watch-only flag answers true whenever it is consulted emits nothing, from ANY state *)
Theorem silent_step st ev sc st' tr : step cfg st ev sc = Ok (st', tr) -> AllWo tr -> NoEmit tr.
Proof.
  unfold step. pose proof (w_run_event ev st (mkM st sc []) eq_refl) as H.
  destruct (run_event cfg ev (mkM st sc [])) as [[a m]| | | |]; try discriminate.
  destruct H as (new & Ht & Hs & HT & HG). cbn in Ht. destruct (script m); [|discriminate]. intros [= <- <-]. rewrite Ht. apply HT. reflexivity.
Qed.
Theorem flag_consulted_only_in_list st ev sc st' tr : step cfg st ev sc = Ok (st', tr) -> trG Gwo tr.
Proof.
  unfold step. pose proof (w_run_event ev st (mkM st sc []) eq_refl) as H.
  destruct (run_event cfg ev (mkM st sc [])) as [[a m]| | | |]; try discriminate.
  destruct H as (new & Ht & Hs & HT & HG). cbn in Ht. destruct (script m); [|discriminate]. intros [= <- <-]. rewrite Ht. exact HG.
Qed.
End Silent.
