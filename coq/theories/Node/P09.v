(* C09, node-level fact behind "nodes catch up from recovery messages": a node that has committed answers every
   RecoveryRequest with a recovery message that carries its own Commit and every preparation it holds (every state; scripts
   under which it is a validator that is not watch-only). *)
From DbftV Require Export P03.

Section P09.
Variable cfg : config.

Definition carries (p : payload) (q : payload0) : Prop :=
  match p_body p with BRecoveryMessage inner => In q inner | B0 _ => False end.

Hint Resolve e_WatchOnly e_RSOR e_own_slot e_ResponseSent e_PreCommitSent e_CommitSent e_ViewChanging e_sendRecoveryMessage e_makeRecoveryMessage e_broadcast : kpdb.

Lemma nth_chk_In {T} (l : list T) i x : nth_chk l i = Some x -> In x l.
Proof. revert i; induction l as [|y t IH]; intros i H; destruct i; cbn in H; try discriminate; [injection H as ->; left; reflexivity|right; eapply IH; eauto]. Qed.
Lemma slot_in_somes tbl i x : slot tbl i = Some x -> In x (somes tbl).
Proof.
  unfold slot. destruct (i <? 0); [discriminate|]. destruct (nth_chk tbl (Z.to_nat i)) as [o|] eqn:E; [|discriminate]. intros ->.
  apply nth_chk_In in E. unfold somes. apply in_flat_map. exists (Some x). split; [exact E|left; reflexivity].
Qed.

Theorem committed_node_answers_recovery_requests msg s0 cm :
  0 <= MyIndex s0 -> slot (CommitPayloads s0) (MyIndex s0) = Some cm ->
  hx s0 (onRecoveryRequest cfg msg) (fun _ s tr =>
    Val tr -> s = s0 /\
    exists sb p, In (sb, CBroadcast p) tr /\ p_type p = RecoveryMessageT /\
      (forall q, In q (to_p0 cm) -> carries p q) /\
      (forall x q, In x (somes (PreparationPayloads s0)) -> In q (to_p0 x) -> carries p q)).
Proof.
  intros H0 Hc. unfold onRecoveryRequest.
  apply (x_probe _ _ _ _ _ (d_WatchOnly s0 H0) (ow_WatchOnly s0)). intros wo n1 Hw O1.
  destruct wo. { apply x_ret. intros Hv. rewrite app_nil_r in Hv. discriminate (Hw Hv). }
  apply (x_probe _ _ _ _ _ (d_own_slot CommitPayloads s0 H0) (ow_own_slot CommitPayloads s0)). intros cs n2 Hcs O2. apply x_get.
  destruct cs.
  2:{ (* not reachable: the commit slot is filled *)
    eapply x_conseq with (Q' := fun _ _ _ => True).
    { apply wb_J. j_go. }
    cbn. intros _ s n _ Hv. exfalso. apply Val_app in Hv. destruct Hv as [_ Hv]. apply Val_app in Hv. destruct Hv as [V2 _].
    pose proof (Hcs V2) as Ex. rewrite Hc in Ex. discriminate Ex. }
  apply x_ret_bind. cbn [negb andb].
  unfold sendRecoveryMessage, makeRecoveryMessage. apply x_assoc. apply x_get. cbv zeta. apply x_assoc.
  apply (x_probe _ _ _ _ _ (d_own_slot PreCommitPayloads s0 H0) (ow_own_slot PreCommitPayloads s0)). intros ps n3 Hps O3. apply x_assoc.
  apply (x_probe _ _ _ _ _ (d_own_slot CommitPayloads s0 H0) (ow_own_slot CommitPayloads s0)). intros cs2 n4 Hcs2 O4. apply x_ret_bind.
  unfold broadcast. apply x_get. unfold ask_unit. apply x_ask_last. intros [] c Hcb. apply sel_Broadcast in Hcb. subst c.
  intros Hv. split; [reflexivity|]. eexists _, _. split; [repeat (apply in_or_app; right); left; reflexivity|].
  split; [reflexivity|]. unfold carries, mk_payload. cbn [p_body set].
  assert (E2 : cs2 = true).
  { apply Val_app in Hv. destruct Hv as [_ Hv]. apply Val_app in Hv. destruct Hv as [_ Hv]. apply Val_app in Hv. destruct Hv as [_ Hv]. apply Val_app in Hv. destruct Hv as [V4 _].
    rewrite (Hcs2 V4), Hc. reflexivity. }
  subst cs2. split.
  - intros q Hq. apply in_or_app. right. apply in_or_app. right. apply in_or_app. right. apply in_flat_map. exists cm. split; [apply (slot_in_somes _ _ _ Hc)|exact Hq].
  - intros x q Hx Hq. apply in_or_app. left. apply in_flat_map. exists x. auto.
Qed.
End P09.
