(* C03, partial: the commit lock at the sites that test it directly, and identical retransmission.
   For EVERY state in which the node's own Commit (or PreCommit) slot is filled, under scripts in which the node is a
   validator that is not watch-only ([Val]):
   - makeCommit / makePreCommit return the stored payload unchanged, sign nothing and change nothing;
   - a timeout, a ChangeView asking for a higher view, and a transaction leave the view untouched and broadcast no
     ChangeView (the node answers with a recovery message or not at all).
   NOT proved: the same for a PrepareRequest that arrives after the node committed (that path relies on the invariant
   "own commit implies the proposal is held", whose proof needs an authenticity assumption on payloads carrying the node's
   own index), and the history-level statements (two different commits, view monotonicity): those are decided by the
   monitors on the real library. *)
From DbftV Require Export P12 P11.

Definition NoCV (tr : tr_t) : Prop := forall s p, In (s, CBroadcast p) tr -> p_type p <> ChangeViewT.
Lemma NoCV_nil : NoCV []. Proof. intros s p []. Qed.
Lemma NoCV_app a b : NoCV a -> NoCV b -> NoCV (a ++ b).
Proof. intros Ha Hb s p Hin. apply in_app_or in Hin. destruct Hin; [eapply Ha|eapply Hb]; eauto. Qed.
Lemma NoCV_cons s c tr : (forall p, c = CBroadcast p -> p_type p <> ChangeViewT) -> NoCV tr -> NoCV ((s, c) :: tr).
Proof. intros Hc Ht s' p [E|Hin]; [injection E as _ ->; apply (Hc p eq_refl)|eapply Ht; eauto]. Qed.

Section P03.
Variable cfg : config.
Hint Resolve e_WatchOnly e_RSOR e_own_slot e_ResponseSent e_PreCommitSent e_CommitSent e_ViewChanging e_NotAccepting e_subscribe e_unsubscribe
  e_StopTxFlow e_changeTimer e_getTimestamp e_Fill e_MakeHeader e_MakePreHeader e_CreateBlock e_CreatePreBlock e_broadcast e_makePrepareRequest
  e_rtt e_makeRecoveryMessage e_sendRecoveryMessage e_processMissingTx e_sendRecoveryRequest e_makeChangeView e_makePrepareResponse
  e_sendPrepareResponse e_makePreCommit e_makeCommit e_sendPreCommit e_sendCommit e_verifyCommits e_verifyPreCommits e_checkCommit
  e_checkPreCommit e_checkPrepare e_extendTimer e_updateExistingPayloads e_GetPrimaryIndex e_sendPrepareRequest e_onPrepareResponse
  e_onRecoveryRequest e_onPreCommit e_onCommit e_cache_addMessage e_ask_recv : kpdb.

Theorem commit_retransmission_is_the_stored_commit s0 m :
  slot (CommitPayloads s0) (MyIndex s0) = Some m ->
  hx s0 (makeCommit cfg) (fun r s tr => r = Some m /\ s = s0 /\ tr = []).
Proof.
  intros Hs. unfold makeCommit. apply x_get. apply x_tget. intros own Hi Hx. rewrite (slot_nth _ _ _ Hi Hx) in Hs. subst own.
  apply x_ret. auto.
Qed.
Theorem precommit_retransmission_is_the_stored_precommit s0 m :
  slot (PreCommitPayloads s0) (MyIndex s0) = Some m ->
  hx s0 makePreCommit (fun r s tr => r = Some m /\ s = s0 /\ tr = []).
Proof.
  intros Hs. unfold makePreCommit. apply x_get. apply x_tget. intros own Hi Hx. rewrite (slot_nth _ _ _ Hi Hx) in Hs. subst own.
  apply x_ret. auto.
Qed.

(* committed: the own Commit or PreCommit slot is filled *)
Definition committed (s : nstate) : Prop :=
  isSome (slot (CommitPayloads s) (MyIndex s)) = true \/ isSome (slot (PreCommitPayloads s) (MyIndex s)) = true.

(* sending the recovery message: no ChangeView, same view *)
Lemma lk_sendRecoveryMessage s0 : hx s0 sendRecoveryMessage (fun _ s tr => ViewNumber s = ViewNumber s0 /\ NoCV tr).
Proof.
  unfold sendRecoveryMessage.
  eapply x_call with (Qx := fun m s tr => s = s0 /\ p_type m = RecoveryMessageT /\ NoCV tr).
  { unfold makeRecoveryMessage. apply x_get. cbv zeta.
    eapply x_call; [apply (ow_own_slot PreCommitPayloads s0)|]. intros ps s1 n1 [-> O1].
    eapply x_call; [apply (ow_own_slot CommitPayloads s0)|]. intros cs s2 n2 [-> O2].
    apply x_ret. split; [reflexivity|split; [reflexivity|]]. rewrite app_nil_r.
    intros s p Hin. apply in_app_or in Hin. unfold OnlyWo in O1, O2. rewrite Forall_forall in O1, O2.
    destruct Hin as [Hin|Hin]; [destruct (O1 _ Hin) as [b E]|destruct (O2 _ Hin) as [b E]]; discriminate E. }
  intros m s1 n1 (-> & Ty & N1). unfold broadcast. apply x_get. unfold ask_unit. apply x_ask_last. intros [] c Hc. apply sel_Broadcast in Hc. subst c.
  split; [reflexivity|]. apply NoCV_app; [exact N1|]. apply NoCV_cons; [|apply NoCV_nil]. intros p [= <-]. rewrite p_type_set_idx, Ty. discriminate.
Qed.

Lemma Val_pre' a b : Val (a ++ b) -> Val a. Proof. intros H. apply Val_app in H. apply H. Qed.
Lemma committed_det s0 (cs ps : bool) (n1 n2 : tr_t) : committed s0 ->
  (Val n1 -> cs = isSome (slot (CommitPayloads s0) (MyIndex s0))) ->
  (Val n2 -> ps = isSome (slot (PreCommitPayloads s0) (MyIndex s0))) -> Val n1 -> Val n2 -> cs || ps = true.
Proof. intros [H|H] H1 H2 V1 V2; rewrite (H1 V1), (H2 V2), H; auto using orb_true_r. Qed.

Lemma OnlyWo_NoCV tr : OnlyWo tr -> NoCV tr.
Proof. intros H s p Hin. unfold OnlyWo in H. rewrite Forall_forall in H. destruct (H _ Hin) as [b E]. discriminate E. Qed.
Ltac ncv := repeat (apply NoCV_app); try apply NoCV_nil; try assumption; try (apply OnlyWo_NoCV; assumption).
Lemma x_probe {A B} s0 (x : M A) (v : A) (f : A -> M B) Q :
  hx s0 x (Det s0 v) -> hx s0 x (OW s0) ->
  (forall r n1, (Val n1 -> r = v) -> OnlyWo n1 -> hx s0 (f r) (fun b s n2 => Q b s (n1 ++ n2))) -> hx s0 (bind x f) Q.
Proof.
  intros H1 H2 Hf. eapply x_call; [apply (x_conj _ _ _ _ H1 H2)|]. intros r s1 n1 [[-> Hr] [_ Ho]]. apply Hf; assumption.
Qed.
Lemma ow_RSOR s0 : hx s0 RequestSentOrReceived (OW s0).
Proof. unfold RequestSentOrReceived. xs. split; [reflexivity|constructor]. Qed.
Lemma lk_changeTimer d s0 : hx s0 (changeTimer d) (fun _ s tr => s = s0 /\ NoCV tr).
Proof.
  unfold changeTimer. apply x_get. unfold ask_unit. apply x_ask_last. intros [] c Hc. split; [reflexivity|].
  apply NoCV_cons; [|apply NoCV_nil]. intros p ->. discriminate Hc.
Qed.

(* a timeout after the node committed: recovery message and timer, no ChangeView, same view *)
Theorem timeout_after_own_commit h v force s0 :
  committed s0 -> 0 <= MyIndex s0 -> 0 <= PrimaryIndex s0 ->
  (IsPrimary s0 = true -> isSome (slot (PreparationPayloads s0) (PrimaryIndex s0)) = true) ->
  hx s0 (onTimeout cfg h v force) (fun _ s tr => Val tr -> ViewNumber s = ViewNumber s0 /\ NoCV tr).
Proof.
  intros Hc H0 Hpi Hreq. unfold onTimeout.
  apply (x_probe _ _ _ _ _ (d_WatchOnly s0 H0) (ow_WatchOnly s0)). intros wo n1 Hw O1. apply x_get.
  assert (N1 := OnlyWo_NoCV _ O1).
  destruct (wo || blockProcessed s0); [apply x_ret; intros _; split; [reflexivity|rewrite app_nil_r; exact N1]|].
  destruct (_ || _); [apply x_ret; intros _; split; [reflexivity|rewrite app_nil_r; exact N1]|].
  eapply x_call with (Qx := fun rs s tr => s = s0 /\ tr = [] /\ (IsPrimary s0 = true -> rs = true)).
  { destruct (IsPrimary s0) eqn:Ep.
    - eapply x_conseq; [apply d_RSOR|]. cbn. intros rs s n (-> & -> & Hrs). split; [reflexivity|split; [reflexivity|]]. intros _. rewrite (Hrs Hpi). apply Hreq. reflexivity.
    - apply x_ret. split; [reflexivity|split; [reflexivity|discriminate]]. }
  intros rs s1 n2 (-> & -> & Hrs). cbn beta.
  destruct (IsPrimary s0 && negb rs) eqn:Ea.
  { exfalso. apply andb_true_iff in Ea. destruct Ea as [A B]. rewrite (Hrs A) in B. discriminate B. }
  destruct (_ || _); [|apply x_ret; intros _; split; [reflexivity|rewrite !app_nil_r; exact N1]].
  apply (x_probe _ _ _ _ _ (d_own_slot CommitPayloads s0 H0) (ow_own_slot CommitPayloads s0)). intros cs n3 Hcs O3.
  eapply x_call with (Qx := fun ps s tr => s = s0 /\ OnlyWo tr /\ (cs = false -> Val tr -> ps = isSome (slot (PreCommitPayloads s0) (MyIndex s0)))).
  { destruct cs.
    - apply x_ret. split; [reflexivity|split; [constructor|discriminate]].
    - eapply x_conseq; [apply (x_conj _ _ _ _ (d_own_slot PreCommitPayloads s0 H0) (ow_own_slot PreCommitPayloads s0))|]. cbn.
      intros ps s n [[-> Hps] [_ Ho]]. split; [reflexivity|split; [exact Ho|intros _; exact Hps]]. }
  intros ps s1 n4 (-> & O4 & Hps). cbn beta.
  destruct (cs || ps) eqn:Ecp.
  - eapply x_call; [apply lk_sendRecoveryMessage|]. intros [] s2 n5 [V5 N5]. apply x_get.
    eapply x_conseq; [apply lk_changeTimer|]. cbn. intros _ s n [-> N6] _. split; [exact V5|]. ncv.
  - (* unreachable for a committed node that is not watch-only *)
    eapply x_conseq with (Q' := fun _ _ _ => True).
    { apply wb_J. pose proof (j_sendChangeView (init cfg) (j_init cfg)) as Hs. j_go; try apply Hs. }
    cbn. intros _ s n _ Hv. exfalso.
    apply Val_app in Hv. destruct Hv as [V1 Hv]. cbn in Hv. apply Val_app in Hv. destruct Hv as [V3 Hv]. apply Val_app in Hv. destruct Hv as [V4 _].
    apply orb_false_iff in Ecp. destruct Ecp as [-> ->].
    destruct Hc as [Hc|Hc]; [rewrite <- (Hcs V3) in Hc; discriminate Hc|rewrite <- (Hps eq_refl V4) in Hc; discriminate Hc].
Qed.

(* a ChangeView from a peer after the node committed: answered with a recovery message (or ignored), never followed *)
Theorem changeview_after_own_commit msg s0 :
  committed s0 -> 0 <= MyIndex s0 ->
  hx s0 (onChangeView cfg (init cfg) msg) (fun _ s tr => Val tr -> ViewNumber s = ViewNumber s0 /\ NoCV tr).
Proof.
  intros Hc H0. unfold onChangeView. apply x_get. cbv zeta. destruct (_ <=? _).
  - (* not a higher view: handled as a recovery request *)
    unfold onRecoveryRequest.
    apply (x_probe _ _ _ _ _ (d_WatchOnly s0 H0) (ow_WatchOnly s0)). intros wo n1 Hw O1.
    destruct wo; [apply x_ret; intros _; split; [reflexivity|rewrite app_nil_r; apply OnlyWo_NoCV, O1]|].
    apply (x_probe _ _ _ _ _ (d_own_slot CommitPayloads s0 H0) (ow_own_slot CommitPayloads s0)). intros cs n2 Hcs O2. apply x_get.
    eapply x_call with (Qx := fun _ s tr => s = s0 /\ OnlyWo tr).
    { destruct cs; [apply x_ret; split; [reflexivity|constructor]|]. destruct (amev_on cfg s0); [apply ow_own_slot|apply x_ret; split; [reflexivity|constructor]]. }
    intros ps s1 n3 [-> O3]. cbn beta.
    assert (Hfin : forall pre, NoCV pre -> hx s0 sendRecoveryMessage (fun _ s tr => Val (pre ++ tr) -> ViewNumber s = ViewNumber s0 /\ NoCV (pre ++ tr))).
    { intros pre Np. eapply x_conseq; [apply lk_sendRecoveryMessage|]. cbn. intros _ s n [V N] _. split; [exact V|apply NoCV_app; assumption]. }
    assert (Npre : NoCV (n1 ++ n2 ++ n3)) by ncv.
    destruct (negb cs && negb ps).
    + destruct (N s0 =? 0); [apply x_panic|]. destruct (_ >? _).
      * apply x_ret. intros _. split; [reflexivity|]. rewrite app_nil_r. exact Npre.
      * eapply x_conseq; [apply (Hfin _ Npre)|]. cbn. intros _ s n H Hv. rewrite <- !app_assoc in H. apply H. exact Hv.
    + eapply x_conseq; [apply (Hfin _ Npre)|]. cbn. intros _ s n H Hv. rewrite <- !app_assoc in H. apply H. exact Hv.
  - apply (x_probe _ _ _ _ _ (d_own_slot CommitPayloads s0 H0) (ow_own_slot CommitPayloads s0)). intros cs n1 Hcs O1.
    eapply x_call with (Qx := fun ps s tr => s = s0 /\ OnlyWo tr /\ (cs = false -> Val tr -> ps = isSome (slot (PreCommitPayloads s0) (MyIndex s0)))).
    { destruct cs.
      - apply x_ret. split; [reflexivity|split; [constructor|discriminate]].
      - eapply x_conseq; [apply (x_conj _ _ _ _ (d_own_slot PreCommitPayloads s0 H0) (ow_own_slot PreCommitPayloads s0))|]. cbn.
        intros ps s n [[-> Hps] [_ Ho]]. split; [reflexivity|split; [exact Ho|intros _; exact Hps]]. }
    intros ps s1 n2 (-> & O2 & Hps). cbn beta. destruct (cs || ps) eqn:Ecp.
    + eapply x_conseq; [apply lk_sendRecoveryMessage|]. cbn. intros _ s n [V N] _. split; [exact V|]. ncv.
    + eapply x_conseq with (Q' := fun _ _ _ => True).
      { apply wb_J. pose proof (j_checkChangeView (init cfg) (j_init cfg)) as Hs. j_go; try apply Hs. }
      cbn. intros _ s n _ Hv. exfalso. apply Val_app in Hv. destruct Hv as [V1 Hv]. apply Val_app in Hv. destruct Hv as [V2 _].
      apply orb_false_iff in Ecp. destruct Ecp as [-> ->].
      destruct Hc as [Hc|Hc]; [rewrite <- (Hcs V1) in Hc; discriminate Hc|rewrite <- (Hps eq_refl V2) in Hc; discriminate Hc].
Qed.

(* a transaction after the node committed changes nothing *)
Theorem transaction_after_own_commit t s0 :
  committed s0 -> 0 <= MyIndex s0 ->
  hx s0 (OnTransaction cfg t) (fun _ s tr => Val tr -> s = s0 /\ NoCV tr).
Proof.
  intros Hc H0. unfold OnTransaction. apply x_get. destruct (negb _); [apply x_ret; intros _; split; [reflexivity|apply NoCV_nil]|].
  unfold NotAcceptingPayloadsDueToViewChanging. apply x_assoc.
  eapply x_call; [apply ow_ViewChanging|]. intros vc s1 n1 [-> O1]. apply x_assoc. apply x_get. apply x_ret_bind.
  destruct (vc && _); [apply x_ret; intros _; split; [reflexivity|ncv]|].
  eapply x_call; [apply ow_RSOR|]. intros rs s1 n2 [-> O2]. destruct (negb rs); [apply x_ret; intros _; split; [reflexivity|ncv]|].
  eapply x_call; [apply (ow_own_slot PreparationPayloads)|]. intros x1 s1 n3 [-> O3]. destruct x1; [apply x_ret; intros _; split; [reflexivity|ncv]|].
  apply (x_probe _ _ _ _ _ (d_own_slot PreCommitPayloads s0 H0) (ow_own_slot PreCommitPayloads s0)). intros ps n4 Hps O4.
  destruct ps; [apply x_ret; intros _; split; [reflexivity|ncv]|].
  apply (x_probe _ _ _ _ _ (d_own_slot CommitPayloads s0 H0) (ow_own_slot CommitPayloads s0)). intros cs n5 Hcs O5.
  destruct cs; [apply x_ret; intros _; split; [reflexivity|ncv]|].
  eapply x_conseq with (Q' := fun _ _ _ => True).
  { apply wb_J. pose proof (j_addTransaction cfg (init cfg) (j_init cfg)) as Ha. j_go; try apply Ha. }
  cbn. intros _ s n _ Hv. exfalso.
  apply Val_app in Hv. destruct Hv as [_ Hv]. apply Val_app in Hv. destruct Hv as [_ Hv]. apply Val_app in Hv. destruct Hv as [_ Hv].
  apply Val_app in Hv. destruct Hv as [V4 Hv]. apply Val_app in Hv. destruct Hv as [V5 _].
  destruct Hc as [Hc|Hc]; [rewrite <- (Hcs V5) in Hc; discriminate Hc|rewrite <- (Hps V4) in Hc; discriminate Hc].
Qed.
End P03.
