(* The functions that never broadcast a PreCommit (the family ke); sendPreCommit and its callers are not among them (SignPPM.v). *)
From DbftV Require Export SignLCM SignPNoCV.

Definition is_pm (c : call) : bool := match c with CBroadcast p => mtype_eqb (p_type p) PreCommitT | _ => false end.
Definition NoPM (s : nstate) (c : call) : Prop := is_pm c = false.
Notation ke x := (kp TY NoPM x).
Lemma kt_of_ke {A} (x : M A) : ke x -> kt x.
Proof.
  intros H s0 H0. eapply x_conseq; [apply (H s0 H0)|]. cbn. intros _ s n [P T]. split; [exact P|].
  unfold trG in *. eapply Forall_impl; [|exact T]. intros [s' c] _. exact I.
Qed.
Ltac leafe :=
  cbv beta in *;
  lazymatch goal with
  | |- TY _ =>
      match goal with H : TY _ |- _ =>
        let H1 := fresh in let H2 := fresh in destruct H as [H1 H2];
        repeat match goal with |- context[if ?b then _ else _] => destruct b end;
        split; cbn [PreCommitPayloads CommitPayloads set]; assumption end
  | |- NoPM _ ?c => match goal with H : _ = Some _ |- _ => unfold NoPM; destruct c; try reflexivity; cbn in H; discriminate H end
  | |- AnyC _ _ => exact I
  end.
Ltac ke_go := kn_go leafe.
Lemma e_broadcast m : p_type m <> PreCommitT -> ke (broadcast m).
Proof.
  intros Hm. unfold broadcast. apply kp_get_bind_u. intros s. unfold ask_unit. apply kp_ask. intros s' c a _ Hsel.
  assert (a = tt) by (destruct a; reflexivity). subst a. apply sel_Broadcast in Hsel. subst c. unfold NoPM, is_pm. rewrite p_type_set_idx.
  destruct (p_type m); try reflexivity. exfalso. apply Hm. reflexivity.
Qed.
#[export] Hint Extern 3 (kp TY NoPM (broadcast _)) => (apply e_broadcast; cbn; discriminate) : kpdb.

Section AutoE.
Variable cfg : config.
Lemma e_WatchOnly : ke WatchOnly. Proof. unfold WatchOnly. ke_go. Qed.
Lemma e_RSOR : ke RequestSentOrReceived. Proof. unfold RequestSentOrReceived. ke_go. Qed.
Hint Resolve e_WatchOnly e_RSOR : kpdb.
Lemma e_own_slot tbl : ke (own_slot tbl). Proof. unfold own_slot. ke_go. Qed.
Lemma e_ResponseSent : ke ResponseSent. Proof. apply e_own_slot. Qed.
Lemma e_PreCommitSent : ke PreCommitSent. Proof. apply e_own_slot. Qed.
Lemma e_CommitSent : ke CommitSent. Proof. apply e_own_slot. Qed.
Lemma e_ViewChanging : ke ViewChanging. Proof. unfold ViewChanging. ke_go. Qed.
Hint Resolve e_own_slot e_ResponseSent e_PreCommitSent e_CommitSent e_ViewChanging : kpdb.
Lemma e_NotAccepting : ke NotAcceptingPayloadsDueToViewChanging. Proof. unfold NotAcceptingPayloadsDueToViewChanging. ke_go. Qed.
Lemma e_subscribe : ke subscribeForTransactions. Proof. unfold subscribeForTransactions. ke_go. Qed.
Lemma e_unsubscribe : ke unsubscribeFromTransactions. Proof. unfold unsubscribeFromTransactions. ke_go. Qed.
Lemma e_StopTxFlow : ke StopTxFlow. Proof. unfold StopTxFlow. ke_go. Qed.
Lemma e_changeTimer d : ke (changeTimer d). Proof. unfold changeTimer. ke_go. Qed.
Hint Resolve e_NotAccepting e_subscribe e_unsubscribe e_StopTxFlow e_changeTimer : kpdb.
Lemma e_getTimestamp : ke (getTimestamp cfg). Proof. unfold getTimestamp. ke_go. Qed.
Hint Resolve e_getTimestamp : kpdb.
Lemma e_Fill f : ke (Fill cfg f). Proof. unfold Fill. ke_go. Qed.
Lemma e_MakePreHeader : ke MakePreHeader. Proof. unfold MakePreHeader. ke_go. Qed.
Hint Resolve e_Fill e_MakePreHeader : kpdb.
Lemma e_CreatePreBlock : ke CreatePreBlock. Proof. unfold CreatePreBlock. ke_go. Qed.
Lemma e_makePrepareRequest f : ke (makePrepareRequest cfg f). Proof. unfold makePrepareRequest. ke_go. Qed.
Lemma e_rtt t : ke (rtt_addTime t). Proof. unfold rtt_addTime. ke_go. Qed.
Hint Resolve e_CreatePreBlock e_makePrepareRequest e_rtt : kpdb.
Lemma e_sendRecoveryMessage : ke sendRecoveryMessage. Proof. unfold sendRecoveryMessage, makeRecoveryMessage. ke_go. Qed.
Lemma e_processMissingTx : ke processMissingTx. Proof. unfold processMissingTx. ke_go. Qed.
Hint Resolve e_sendRecoveryMessage e_processMissingTx : kpdb.
Lemma e_sendRecoveryRequest : ke sendRecoveryRequest. Proof. unfold sendRecoveryRequest. ke_go. Qed.
Hint Resolve e_sendRecoveryRequest : kpdb.
Lemma e_sendPrepareResponse : ke sendPrepareResponse. Proof. unfold sendPrepareResponse, makePrepareResponse. ke_go. Qed.
Hint Resolve e_sendPrepareResponse : kpdb.
Lemma e_extendTimer c : ke (extendTimer cfg c). Proof. unfold extendTimer. ke_go. Qed.
Lemma e_GetPrimaryIndex s v : ke (GetPrimaryIndex s v). Proof. unfold GetPrimaryIndex. ke_go. Qed.
Hint Resolve e_extendTimer e_GetPrimaryIndex : kpdb.
Lemma e_onRecoveryRequest m : ke (onRecoveryRequest cfg m). Proof. unfold onRecoveryRequest. ke_go. Qed.
Lemma e_cache_addMessage m : ke (cache_addMessage m). Proof. unfold cache_addMessage. ke_go. Qed.
Lemma e_ask_recv m : ke (ask_recv m). Proof. unfold ask_recv. ke_go. Qed.
Hint Resolve e_onRecoveryRequest e_cache_addMessage e_ask_recv : kpdb.
Lemma e_MakeHeader : ke (MakeHeader cfg). Proof. unfold MakeHeader. ke_go. Qed.
Hint Resolve e_MakeHeader : kpdb.
Lemma e_CreateBlock : ke (CreateBlock cfg). Proof. unfold CreateBlock. ke_go. Qed.
Hint Resolve e_CreateBlock : kpdb.
Lemma e_checkCommit : ke (checkCommit cfg). Proof. unfold checkCommit. ke_go. Qed.
Hint Resolve e_checkCommit : kpdb.
End AutoE.

Ltac nopm Hc := unfold NoPM; match type of Hc with _ = Some _ => idtac end;
  match goal with |- is_pm ?c = false => destruct c; try reflexivity; cbn in Hc; discriminate Hc end.
Ltac trs_e := cbn beta; rewrite ?app_nil_r; repeat first [ assumption | apply trG_nil | apply trG_app | apply trG_cons ].
Ltac kxe1 :=
  lazymatch goal with
  | |- hx _ (bind (bind _ _) _) _ => apply x_assoc
  | |- hx _ (bind get _) _ => apply x_get
  | |- hx _ (bind (ask_unit _) _) _ => unfold ask_unit at 1
  | |- hx _ (bind ask_now _) _ => unfold ask_now at 1
  | |- hx _ (bind ask_watchonly _) _ => unfold ask_watchonly at 1
  | |- hx _ (ask_unit _) _ => unfold ask_unit at 1
  | |- hx _ (bind (modify _) _) _ => apply x_modify
  | |- hx ?st (bind (ask _) _) _ =>
      apply x_ask; let a := fresh "a" in let c := fresh "c" in let Hc := fresh "Hc" in intros a c Hc;
      let Gc := fresh "Gc" in assert (Gc : NoPM st c) by (nopm Hc)
  | |- hx _ (bind (ret _) _) _ => apply x_ret_bind
  | |- hx _ (bind panic _) _ => apply x_panic_bind
  | |- hx _ (bind fatal _) _ => apply x_fatal_bind
  | |- hx _ (bind (tget _ _) _) _ => apply x_tget; let x := fresh "x" in let Hi := fresh "Hi" in let Hx := fresh "Hx" in intros x Hi Hx
  | |- hx _ (bind (tset _ _ _) _) _ => apply x_tset; let l := fresh "l" in let Hi := fresh "Hi" in let Hl := fresh "Hl" in intros l Hi Hl
  | |- hx _ (bind (if ?b then _ else _) _) _ => let E := fresh "E" in destruct b eqn:E
  | |- hx _ (if ?b then _ else _) _ => let E := fresh "E" in destruct b eqn:E
  | |- hx _ (bind (match ?o with Some _ => _ | None => _ end) _) _ => let E := fresh "E" in destruct o eqn:E
  | |- hx _ (match ?o with Some _ => _ | None => _ end) _ => let E := fresh "E" in destruct o eqn:E
  | |- hx _ (bind (let _ := _ in _) _) _ => cbv zeta
  | |- hx _ (let _ := _ in _) _ => cbv zeta
  | |- hx _ (modify _) _ => apply x_modify_last
  | |- hx ?st (ask _) _ =>
      apply x_ask_last; let a := fresh "a" in let c := fresh "c" in let Hc := fresh "Hc" in intros a c Hc;
      let Gc := fresh "Gc" in assert (Gc : NoPM st c) by (nopm Hc)
  | |- hx _ (ret _) _ => apply x_ret
  | |- hx _ panic _ => apply x_panic
  | |- hx _ fatal _ => apply x_fatal
  | |- hx _ (bind (broadcast ?m) _) _ =>
      eapply (x_kp TY NoPM); [ apply e_broadcast; first [congruence | cbn; discriminate] | ty_solve | ];
      let a := fresh "a" in let s := fresh "s" in let n := fresh "n" in let Is := fresh "Is" in let Ts := fresh "Ts" in intros a s n Is Ts
  | |- hx _ (broadcast ?m) _ =>
      eapply (x_kp_last TY NoPM); [ apply e_broadcast; first [congruence | cbn; discriminate] | ty_solve | ];
      let a := fresh "a" in let s := fresh "s" in let n := fresh "n" in let Is := fresh "Is" in let Ts := fresh "Ts" in intros a s n Is Ts
  | |- hx _ (bind _ _) _ =>
      eapply (x_kp TY NoPM); [ solve [eauto 3 with kpdb] | ty_solve | ];
      let a := fresh "a" in let s := fresh "s" in let n := fresh "n" in let Is := fresh "Is" in let Ts := fresh "Ts" in intros a s n Is Ts
  | |- hx _ _ _ =>
      eapply (x_kp_last TY NoPM); [ solve [eauto 3 with kpdb] | ty_solve | ];
      let a := fresh "a" in let s := fresh "s" in let n := fresh "n" in let Is := fresh "Is" in let Ts := fresh "Ts" in intros a s n Is Ts
  end.
Ltac kxe_fin := cbn beta; lazymatch goal with |- TY _ /\ trG _ _ => split; [ty_solve | trs_e] | |- _ => idtac end.
Ltac kxe_go := repeat kxe1; kxe_fin.


Section ManualE.
Variable cfg : config.
Hint Resolve e_WatchOnly e_RSOR e_own_slot e_ResponseSent e_PreCommitSent e_CommitSent e_ViewChanging e_NotAccepting e_subscribe e_unsubscribe
  e_StopTxFlow e_changeTimer e_getTimestamp e_Fill e_MakePreHeader e_CreatePreBlock e_makePrepareRequest e_rtt e_sendRecoveryMessage
  e_processMissingTx e_sendRecoveryRequest e_sendPrepareResponse e_extendTimer e_GetPrimaryIndex e_onRecoveryRequest e_cache_addMessage
  e_ask_recv e_MakeHeader e_CreateBlock e_checkCommit : kpdb.
Lemma mc_spec_e s0 : TY s0 -> hx s0 (makeCommit cfg) (fun r s tr => TY s /\ trG NoPM tr /\ forall m, r = Some m -> p_type m = CommitT).
Proof.
  intros H0. unfold makeCommit. repeat kxe1; cbn beta.
  all: split; [ty_solve|split; [trs_e|]].
  all: try (intros m' Em; discriminate Em).
  - intros m' [= <-]. unfold TY, TYc in H0. apply (proj2 H0 _ _ Hx).
  - intros m' [= <-]. reflexivity.
Qed.
Lemma e_sendCommit : ke (sendCommit cfg).
Proof.
  intros s0 H0. unfold sendCommit. eapply x_call; [apply (mc_spec_e s0 H0)|]. intros r s1 n1 (I1 & T1 & Hty). cbn beta.
  destruct r as [msg|]; [specialize (Hty msg eq_refl)|]; kxe_go.
Qed.
Hint Resolve e_sendCommit : kpdb.
Lemma e_verifyCommits : ke (verifyCommitPayloadsAgainstHeader cfg).
Proof.
  unfold verifyCommitPayloadsAgainstHeader. apply kp_get_bind_u. intros s. apply kp_forM. intros i s1 H1. kxe_go.
Qed.
Lemma e_verifyPreCommits : ke verifyPreCommitPayloadsAgainstPreBlock.
Proof.
  unfold verifyPreCommitPayloadsAgainstPreBlock. apply kp_get_bind_u. intros s. destruct (negb _); [apply kp_ret|]. apply kp_forM. intros i s1 H1. kxe_go.
Qed.
Hint Resolve e_verifyCommits e_verifyPreCommits : kpdb.
Lemma e_checkPreCommit : ke (checkPreCommit cfg). Proof. unfold checkPreCommit. ke_go. Qed.
Hint Resolve e_checkPreCommit : kpdb.
Lemma e_onPreCommit msg : p_type msg = PreCommitT -> ke (onPreCommit cfg msg).
Proof. intros Ty s0 H0. unfold onPreCommit. kxe_go. Qed.
Lemma e_updateExistingPayloads m : ke (updateExistingPayloads cfg m). Proof. unfold updateExistingPayloads. ke_go. Qed.
Lemma e_onCommit msg : p_type msg = CommitT -> ke (onCommit cfg msg).
Proof. intros Ty s0 H0. unfold onCommit. kxe_go. Qed.
Lemma e_makeChangeView ts r : ke (makeChangeView ts r). Proof. unfold makeChangeView. ke_go. Qed.
Hint Resolve e_makeChangeView : kpdb.
Lemma e_keep_changeviews n : forall i v a b, ke (keep_changeviews i n v a b).
Proof. induction n as [|n IH]; intros i v a b; cbn [keep_changeviews]; ke_go. Qed.
Hint Resolve e_keep_changeviews : kpdb.
Lemma e_reset view ts : ke (reset cfg view ts).
Proof. intros s0 H0. unfold reset, unsubscribeFromTransactions, GetPrimaryIndex. kxe_go. Qed.
End ManualE.
