(* C03, the lock after the PreCommit (anti-MEV): the construction of SignL.v once more with the roles of the two phases exchanged -
   the ghost counts the requests for pre-commit data (CSetData) and remembers the PreCommit built at the first; the invariant Sp
   ties it to the node's own PreCommit slot and its pre-header. *)
From DbftV Require Export SignLApi.

Definition is_setd (c : call) : bool := match c with CSetData _ => true | _ => false end.
Definition nset (tr : tr_t) : nat := length (filter (fun sc => is_setd (snd sc)) tr).
Lemma nset_app a b : nset (a ++ b) = (nset a + nset b)%nat.
Proof. unfold nset. rewrite filter_app, app_length. reflexivity. Qed.
Definition NoSetd (s : nstate) (c : call) : Prop := is_setd c = false.
Lemma nosetd_nset tr : trG NoSetd tr -> nset tr = 0%nat.
Proof.
  unfold trG, nset, NoSetd. induction 1 as [|[s c] tr H _ IH]; [reflexivity|]. cbn in *. rewrite H. exact IH.
Qed.

(* the Commit the node built at its first signature request of the history: a ghost of the trace *)
Fixpoint set_precommit (g : tr_t) : option payload :=
  match g with
  | [] => None
  | (s, c) :: r => match c with
                   | CSetData h => Some (mk_payload s (B0 (BPreCommit (mkSig (MyKey s) h))))
                   | _ => set_precommit r end
  end.
Lemma set_precommit_none g : nset g = 0%nat -> set_precommit g = None.
Proof. induction g as [|[s c] r IH]; [reflexivity|]. destruct c; cbn; try exact IH. discriminate. Qed.
Lemma set_precommit_app g tr : nset tr = 0%nat -> set_precommit (g ++ tr) = set_precommit g.
Proof.
  intros H. induction g as [|[s c] r IH]; [apply set_precommit_none; exact H|]. destruct c; cbn; try exact IH. reflexivity.
Qed.
Lemma set_precommit_first g s h r : nset g = 0%nat -> set_precommit (g ++ (s, CSetData h) :: r) = Some (mk_payload s (B0 (BPreCommit (mkSig (MyKey s) h)))).
Proof. induction g as [|[s' c] g' IH]; [reflexivity|]. destruct c; cbn; try exact IH. discriminate. Qed.

Definition ownp (mi : Z) (s : nstate) : option payload := slot (PreCommitPayloads s) mi.
Record Sp (mi : Z) (k : nat) (oc : option payload) (s : nstate) : Prop := {
  p1 : ownp mi s = None -> k = 0%nat;
  p2 : k <> 0%nat -> exists c b, oc = Some c /\ ownp mi s = Some c /\ p_idx c = mi /\ p_view c = ViewNumber s /\ sg_key (precommit_data c) = MyKey s /\
         preheader s = Some b /\ sg_hash (precommit_data c) = preblock_hash b;
  p4 : (k <= 1)%nat }.
Definition I7 (vs : list key) (mi : Z) (k : nat) (oc : option payload) (s : nstate) : Prop :=
  Validators s = vs /\ MyIndex s = mi /\ 0 <= ViewNumber s /\ (0 <= mi -> nth_chk vs (Z.to_nat mi) = Some (MyKey s)) /\
  (zlen vs <= 65536 -> Sp mi k oc s).
Definition I7v (vs : list key) (mi vn : Z) (k : nat) (oc : option payload) (s : nstate) : Prop := I7 vs mi k oc s /\ ViewNumber s = vn.

(* what the invariant reads *)
Definition Same7 (a b : nstate) : Prop :=
  Validators b = Validators a /\ MyIndex b = MyIndex a /\ ViewNumber b = ViewNumber a /\ MyKey b = MyKey a /\
  PreCommitPayloads b = PreCommitPayloads a /\ preheader b = preheader a.
Lemma i7_same vs mi k oc a b : Same7 a b -> I7 vs mi k oc a -> I7 vs mi k oc b.
Proof.
  intros (E1 & E2 & E3 & E4 & E5 & E6) (A1 & A2 & A3 & A4 & A5). unfold I7. rewrite E1, E2, ?E3, E4.
  split; [exact A1|split; [exact A2|split; [exact A3|split; [exact A4|]]]]. intros Hs. destruct (A5 Hs) as [P1 P2 P4].
  constructor; unfold ownp in *; rewrite ?E3, ?E4, ?E5, ?E6; assumption.
Qed.
(* nothing signed yet: the ownp slot and the preheader are free *)
Definition Same7z (a b : nstate) : Prop :=
  Validators b = Validators a /\ MyIndex b = MyIndex a /\ ViewNumber b = ViewNumber a /\ MyKey b = MyKey a.
Lemma i7_zero vs mi oc a b : Same7z a b -> I7 vs mi 0 oc a -> I7 vs mi 0 oc b.
Proof.
  intros (E1 & E2 & E3 & E4) (A1 & A2 & A3 & A4 & A5). unfold I7. rewrite E1, E2, ?E3, E4.
  split; [exact A1|split; [exact A2|split; [exact A3|split; [exact A4|]]]]. intros _.
  constructor; [reflexivity|intros H; exfalso; apply H; reflexivity|auto].
Qed.

(* ---------------- level 0: functions that ask for no signature ----------------
   the usual invariant judgement, with the view frozen as a parameter and a switch: with the switch off the invariant is
   trivial, which gives the frame facts of a function when the environment condition KS has already failed *)
Definition I7s (on : bool) (vs : list key) (mi vn : Z) (k : nat) (oc : option payload) (s : nstate) : Prop := if on then I7v vs mi vn k oc s else True.
Notation k7 x := (forall on vs mi vn k oc, kp (I7s on vs mi vn k oc) NoSetd x).
Ltac leaf7 :=
  idtac; match goal with
  | H : I7s ?on _ _ _ _ _ ?s |- I7s _ _ _ _ _ _ _ =>
      destruct on; [|exact I];
      let HI := fresh in let HV := fresh in destruct H as [HI HV];
      repeat match goal with |- context[if ?b then _ else _] => destruct b end;
      (split; [apply (i7_same _ _ _ _ s); [unfold Same7; cbn; repeat split; reflexivity|exact HI]|exact HV])
  | H : _ = Some _ |- NoSetd _ ?c => destruct c; try reflexivity; cbn in H; discriminate H
  end.
Ltac k7_go := let on := fresh "on" in let vs := fresh "vs" in let mi := fresh "mi" in let vn := fresh "vn" in let k := fresh "k" in let oc := fresh "oc" in
  intros on vs mi vn k oc; kp_go leaf7.

(* ---------------- level 1: the judgement over the history so far ---------------- *)
Definition I7g (vs : list key) (mi : Z) (g : tr_t) (s : nstate) : Prop := KS mi g -> I7 vs mi (nset g) (set_precommit g) s.
Definition kr {A} (x : M A) : Prop := forall vs mi g0 s0, I7g vs mi g0 s0 -> hx s0 x (fun _ s tr => I7g vs mi (g0 ++ tr) s).


Lemma kr_ret {A} (a : A) : kr (ret a).
Proof. intros vs mi g0 s0 H. apply x_ret. rewrite app_nil_r. exact H. Qed.
Lemma kr_bind {A B} (x : M A) (f : A -> M B) : kr x -> (forall a, kr (f a)) -> kr (bind x f).
Proof.
  intros Hx Hf vs mi g0 s0 H0. eapply x_call; [apply (Hx vs mi g0 s0 H0)|]. intros a s1 n1 P1. cbn beta.
  eapply x_conseq; [apply (Hf a vs mi (g0 ++ n1) s1 P1)|]. cbn. intros b s n P. rewrite app_assoc. exact P.
Qed.
Lemma kr_assoc {A B C} (x : M A) (g : A -> M B) (f : B -> M C) : kr (bind x (fun a => bind (g a) f)) -> kr (bind (bind x g) f).
Proof. intros H vs mi g0 s0 H0. apply x_assoc. apply H. exact H0. Qed.
Lemma kr_ret_bind {A B} (a : A) (f : A -> M B) : kr (f a) -> kr (bind (ret a) f).
Proof. intros H vs mi g0 s0 H0. apply x_ret_bind. apply H. exact H0. Qed.
Lemma kr_get_bind {B} (f : nstate -> M B) : (forall s, kr (f s)) -> kr (bind get f).
Proof. intros H vs mi g0 s0 H0. apply x_get. apply H. exact H0. Qed.
Lemma kr_panic {A} : kr (@panic A). Proof. intros vs mi g0 s0 _. apply x_panic. Qed.
Lemma kr_fatal {A} : kr (@fatal A). Proof. intros vs mi g0 s0 _. apply x_fatal. Qed.
Lemma kr_oof {A} : kr (@out_of_fuel A). Proof. intros vs mi g0 s0 _. apply x_oof. Qed.
Lemma kr_forM {T} (l : list T) (f : T -> M unit) : (forall a, kr (f a)) -> kr (forM l f).
Proof. intros Hf. induction l as [|a l IH]; cbn [forM]; [apply kr_ret|]. apply kr_bind; auto. Qed.
(* a function of level 0 *)
Lemma kr_of_k3 {A} (x : M A) : k7 x -> kr x.
Proof.
  intros H vs mi g0 s0 H0. destruct (KS_dec mi g0) as [Hk|Hk].
  - eapply x_conseq; [apply (H true vs mi (ViewNumber s0) (nset g0) (set_precommit g0) s0); split; [exact (H0 Hk)|reflexivity]|].
    cbn. intros _ s n [P T] _. rewrite nset_app, (nosetd_nset _ T), Nat.add_0_r, (set_precommit_app _ _ (nosetd_nset _ T)). apply P.
  - eapply x_conseq; [apply (H false vs mi 0 0%nat None s0); exact I|].
    cbn. intros _ s n _ Hk2. exfalso. apply Hk. apply (KS_app _ _ _ Hk2).
Qed.
(* ... called inside a symbolic execution: its frame, and the view it leaves untouched *)
Lemma x_k7 {A B} vs mi g0 s0 (x : M A) (f : A -> M B) Q : k7 x -> I7g vs mi g0 s0 ->
  (forall a s1 n1, I7g vs mi (g0 ++ n1) s1 -> (KS mi g0 -> ViewNumber s1 = ViewNumber s0) -> nset n1 = 0%nat ->
     hx s1 (f a) (fun b s n2 => Q b s (n1 ++ n2))) -> hx s0 (bind x f) Q.
Proof.
  intros H H0 Hf. destruct (KS_dec mi g0) as [Hk|Hk].
  - eapply x_call; [apply (H true vs mi (ViewNumber s0) (nset g0) (set_precommit g0) s0); split; [exact (H0 Hk)|reflexivity]|].
    intros a s1 n1 [P T]. apply Hf.
    + intros _. rewrite nset_app, (nosetd_nset _ T), Nat.add_0_r, (set_precommit_app _ _ (nosetd_nset _ T)). apply P.
    + intros _. apply P.
    + apply (nosetd_nset _ T).
  - eapply x_call; [apply (H false vs mi 0 0%nat None s0); exact I|].
    intros a s1 n1 [_ T]. apply Hf.
    + intros Hk2. exfalso. apply Hk. apply (KS_app _ _ _ Hk2).
    + intros Hk2. contradiction.
    + apply (nosetd_nset _ T).
Qed.

Create HintDb krdb discriminated.
Ltac kr_go :=
  lazymatch goal with
  | |- kr (bind (bind _ _) _) => apply kr_assoc; kr_go
  | |- kr (bind (ret _) _) => apply kr_ret_bind; kr_go
  | |- kr (bind get _) => apply kr_get_bind; intro; kr_go
  | |- kr (bind (if ?b then _ else _) _) => destruct b; kr_go
  | |- kr (bind (match ?o with Some _ => _ | None => _ end) _) => destruct o; kr_go
  | |- kr (bind _ _) => apply kr_bind; [ | intro]; kr_go
  | |- kr (ret _) => apply kr_ret
  | |- kr panic => apply kr_panic
  | |- kr fatal => apply kr_fatal
  | |- kr out_of_fuel => apply kr_oof
  | |- kr (forM _ _) => apply kr_forM; intro; kr_go
  | |- kr (if ?b then _ else _) => destruct b; kr_go
  | |- kr (match ?o with Some _ => _ | None => _ end) => destruct o; kr_go
  | |- kr (match ?o with nil => _ | cons _ _ => _ end) => destruct o; kr_go
  | |- kr (match ?o with (_, _) => _ end) => destruct o; kr_go
  | |- kr (let _ := _ in _) => cbv zeta; kr_go
  | |- kr _ => first [ solve [eauto 3 with krdb] | solve [apply kr_of_k3; first [solve [eauto 3 with kpdb] | k7_go]] | idtac ]
  end.

(* ---------------- level 0: the helpers ---------------- *)
Section Auto7.
Variable cfg : config.
Lemma u_WatchOnly : k7 WatchOnly. Proof. unfold WatchOnly. k7_go. Qed.
Lemma u_RSOR : k7 RequestSentOrReceived. Proof. unfold RequestSentOrReceived. k7_go. Qed.
Hint Resolve u_WatchOnly u_RSOR : kpdb.
Lemma u_own_slot tbl : k7 (own_slot tbl). Proof. unfold own_slot. k7_go. Qed.
Lemma u_ResponseSent : k7 ResponseSent. Proof. apply u_own_slot. Qed.
Lemma u_PreCommitSent : k7 PreCommitSent. Proof. apply u_own_slot. Qed.
Lemma u_CommitSent : k7 CommitSent. Proof. apply u_own_slot. Qed.
Lemma u_ViewChanging : k7 ViewChanging. Proof. unfold ViewChanging. k7_go. Qed.
Hint Resolve u_own_slot u_ResponseSent u_PreCommitSent u_CommitSent u_ViewChanging : kpdb.
Lemma u_NotAccepting : k7 NotAcceptingPayloadsDueToViewChanging. Proof. unfold NotAcceptingPayloadsDueToViewChanging. k7_go. Qed.
Lemma u_subscribe : k7 subscribeForTransactions. Proof. unfold subscribeForTransactions. k7_go. Qed.
Lemma u_unsubscribe : k7 unsubscribeFromTransactions. Proof. unfold unsubscribeFromTransactions. k7_go. Qed.
Lemma u_StopTxFlow : k7 StopTxFlow. Proof. unfold StopTxFlow. k7_go. Qed.
Lemma u_changeTimer d : k7 (changeTimer d). Proof. unfold changeTimer. k7_go. Qed.
Hint Resolve u_NotAccepting u_subscribe u_unsubscribe u_StopTxFlow u_changeTimer : kpdb.
Lemma u_getTimestamp : k7 (getTimestamp cfg). Proof. unfold getTimestamp. k7_go. Qed.
Hint Resolve u_getTimestamp : kpdb.
Lemma u_Fill f : k7 (Fill cfg f). Proof. unfold Fill. k7_go. Qed.
Lemma u_MakeHeader : k7 (MakeHeader cfg). Proof. unfold MakeHeader. k7_go. Qed.
Hint Resolve u_Fill u_MakeHeader : kpdb.
Lemma u_CreateBlock : k7 (CreateBlock cfg). Proof. unfold CreateBlock. k7_go. Qed.
Lemma u_broadcast m : k7 (broadcast m). Proof. unfold broadcast. k7_go. Qed.
Lemma u_makePrepareRequest f : k7 (makePrepareRequest cfg f). Proof. unfold makePrepareRequest. k7_go. Qed.
Lemma u_rtt t : k7 (rtt_addTime t). Proof. unfold rtt_addTime. k7_go. Qed.
Hint Resolve u_CreateBlock u_broadcast u_makePrepareRequest u_rtt : kpdb.
Lemma u_makeRecoveryMessage : k7 makeRecoveryMessage. Proof. unfold makeRecoveryMessage. k7_go. Qed.
Hint Resolve u_makeRecoveryMessage : kpdb.
Lemma u_sendRecoveryMessage : k7 sendRecoveryMessage. Proof. unfold sendRecoveryMessage. k7_go. Qed.
Lemma u_processMissingTx : k7 processMissingTx. Proof. unfold processMissingTx. k7_go. Qed.
Hint Resolve u_sendRecoveryMessage u_processMissingTx : kpdb.
Lemma u_sendRecoveryRequest : k7 sendRecoveryRequest. Proof. unfold sendRecoveryRequest. k7_go. Qed.
Lemma u_makeChangeView ts r : k7 (makeChangeView ts r). Proof. unfold makeChangeView. k7_go. Qed.
Lemma u_makePrepareResponse : k7 makePrepareResponse. Proof. unfold makePrepareResponse. k7_go. Qed.
Hint Resolve u_sendRecoveryRequest u_makeChangeView u_makePrepareResponse : kpdb.
Lemma u_sendPrepareResponse : k7 sendPrepareResponse. Proof. unfold sendPrepareResponse. k7_go. Qed.
Lemma u_makeCommit : k7 (makeCommit cfg). Proof. unfold makeCommit. k7_go. Qed.
Hint Resolve u_sendPrepareResponse u_makeCommit : kpdb.
Lemma u_sendCommit : k7 (sendCommit cfg). Proof. unfold sendCommit. k7_go. Qed.
Lemma u_verifyCommits : k7 (verifyCommitPayloadsAgainstHeader cfg). Proof. unfold verifyCommitPayloadsAgainstHeader. k7_go. Qed.
Hint Resolve u_sendCommit u_verifyCommits : kpdb.
Lemma u_extendTimer c : k7 (extendTimer cfg c). Proof. unfold extendTimer. k7_go. Qed.
Lemma u_GetPrimaryIndex s v : k7 (GetPrimaryIndex s v). Proof. unfold GetPrimaryIndex. k7_go. Qed.
Hint Resolve u_extendTimer u_GetPrimaryIndex : kpdb.
Lemma u_onRecoveryRequest m : k7 (onRecoveryRequest cfg m). Proof. unfold onRecoveryRequest. k7_go. Qed.
Lemma u_cache_addMessage m : k7 (cache_addMessage m). Proof. unfold cache_addMessage. k7_go. Qed.
Lemma u_ask_recv m : k7 (ask_recv m). Proof. unfold ask_recv. k7_go. Qed.
End Auto7.

(* ---------------- level 0: the functions that touch the preheader or the Commit table ---------------- *)
Lemma i7_header vs mi k oc s s' :
  I7 vs mi k oc s -> Validators s' = Validators s -> MyIndex s' = MyIndex s -> ViewNumber s' = ViewNumber s -> MyKey s' = MyKey s ->
  PreCommitPayloads s' = PreCommitPayloads s ->
  (forall b, preheader s = Some b -> exists b', preheader s' = Some b' /\ preblock_hash b' = preblock_hash b) -> I7 vs mi k oc s'.
Proof.
  intros (A1 & A2 & A3 & A4 & A5) E1 E2 E3 E4 E5 Hh. unfold I7. rewrite E1, E2, ?E3, E4.
  split; [exact A1|split; [exact A2|split; [exact A3|split; [exact A4|]]]]. intros Hs. destruct (A5 Hs) as [P1 P2 P4].
  constructor; unfold ownp in *; rewrite ?E3, ?E4, ?E5; try assumption.
  intros Hk. destruct (P2 Hk) as (c & b & C0 & C1 & C2 & C3 & C4 & Hb & Hsg). destruct (Hh b Hb) as (b' & Hb' & Eh).
  exists c, b'. repeat (split; [assumption|]). congruence.
Qed.
Lemma i7_unsigned vs mi k oc s s' : I7 vs mi k oc s -> (zlen vs <= 65536 -> k = 0%nat) -> Same7z s s' -> I7 vs mi k oc s'.
Proof.
  intros (A1 & A2 & A3 & A4 & A5) Hk (E1 & E2 & E3 & E4). unfold I7. rewrite E1, E2, ?E3, E4.
  split; [exact A1|split; [exact A2|split; [exact A3|split; [exact A4|]]]]. intros Hs. rewrite (Hk Hs).
  constructor; [reflexivity|intros H; exfalso; apply H; reflexivity|auto].
Qed.
Lemma i7_k0 vs mi k oc s : I7 vs mi k oc s -> ownp mi s = None -> zlen vs <= 65536 -> k = 0%nat.
Proof. intros (_ & _ & _ & _ & A5) Ho Hs. apply (p1 _ _ _ _ (A5 Hs) Ho). Qed.
Lemma i7_commit_other vs mi k oc s l i v : I7 vs mi k oc s -> set_chk (PreCommitPayloads s) (Z.to_nat i) v = Some l -> 0 <= i -> i <> mi ->
  I7 vs mi k oc (s <| PreCommitPayloads := l |>).
Proof.
  intros (A1 & A2 & A3 & A4 & A5) Hl Hi Hne. unfold I7. cbn [Validators MyIndex ViewNumber MyKey set].
  split; [exact A1|split; [exact A2|split; [exact A3|split; [exact A4|]]]]. intros Hs. destruct (A5 Hs) as [P1 P2 P4].
  constructor; unfold ownp in *; cbn [PreCommitPayloads ViewNumber MyKey preheader set]; rewrite ?(slot_set_other _ _ _ _ _ Hl Hi Hne); assumption.
Qed.

Section Manual7.
Variable cfg : config.
Hint Resolve u_WatchOnly u_RSOR u_own_slot u_ResponseSent u_PreCommitSent u_CommitSent u_ViewChanging u_NotAccepting u_subscribe u_unsubscribe
  u_StopTxFlow u_changeTimer u_getTimestamp u_Fill u_MakeHeader u_CreateBlock u_broadcast u_makePrepareRequest u_rtt
  u_makeRecoveryMessage u_sendRecoveryMessage u_processMissingTx u_sendRecoveryRequest u_makeChangeView u_makePrepareResponse
  u_sendPrepareResponse u_makeCommit u_sendCommit u_verifyCommits u_extendTimer u_GetPrimaryIndex u_onRecoveryRequest
  u_cache_addMessage u_ask_recv : kpdb.
Ltac trs4 := rewrite ?app_nil_r; repeat first [ assumption | apply trG_nil | apply trG_app | apply trG_cons; [first [assumption|reflexivity]|] ].
Ltac nosel := match goal with H : _ = Some _ |- NoSetd _ ?c => destruct c; try reflexivity; cbn in H; discriminate H end.

(* MakeHeader: builds the preheader only when there is none; the Commit table is left alone *)
Lemma mph7_spec on vs mi vn k oc s0 : I7s on vs mi vn k oc s0 ->
  hx s0 (MakePreHeader) (fun r s tr => I7s on vs mi vn k oc s /\ trG NoSetd tr /\ PreCommitPayloads s = PreCommitPayloads s0 /\
                                        Validators s = Validators s0 /\ (forall b, r = Some b -> preheader s = Some b)).
Proof.
  intros H0. unfold MakePreHeader. apply x_get. destruct (preheader s0) as [b0|] eqn:Eh.
  { apply x_ret. split; [exact H0|split; [apply trG_nil|split; [reflexivity|split; [reflexivity|intros b [= <-]; exact Eh]]]]. }
  unfold RequestSentOrReceived. apply x_assoc. apply x_get. apply x_assoc. apply x_tget. intros x Hi Hx. apply x_ret_bind.
  destruct (negb (isSome x)). { apply x_ret. split; [exact H0|split; [apply trG_nil|split; [reflexivity|split; [reflexivity|discriminate]]]]. }
  apply x_ask. intros ok c Hc. apply sel_NewPreBlock in Hc. subst c. destruct ok.
  - cbv zeta. apply x_modify. apply x_ret. split; [|split; [trs4|split; [reflexivity|split; [reflexivity|intros b [= <-]; reflexivity]]]].
    destruct on; [|exact I]. destruct H0 as [HI HV]. split; [|exact HV].
    apply (i7_header _ _ _ _ s0); try reflexivity; [exact HI|]. intros b Hb. rewrite Eh in Hb. discriminate Hb.
  - apply x_ret. split; [exact H0|split; [trs4|split; [reflexivity|split; [reflexivity|discriminate]]]].
Qed.
Lemma u_MakePreHeader : k7 (MakePreHeader).
Proof. intros on vs mi vn k oc s0 H0. eapply x_conseq; [apply (mph7_spec _ _ _ _ _ _ s0 H0)|]. cbn. intros r s n (A & B & _). auto. Qed.
Hint Resolve u_MakePreHeader : kpdb.

Lemma cpb7_spec on vs mi vn k oc s0 : I7s on vs mi vn k oc s0 ->
  hx s0 CreatePreBlock (fun r s tr => I7s on vs mi vn k oc s /\ trG NoSetd tr /\ PreCommitPayloads s = PreCommitPayloads s0 /\
                                      Validators s = Validators s0 /\ (forall b, r = Some b -> preheader s = Some b)).
Proof.
  intros H0. unfold CreatePreBlock. apply x_get. destruct (preblock_set s0).
  { apply x_ret. split; [exact H0|split; [apply trG_nil|split; [reflexivity|split; [reflexivity|intros b E; exact E]]]]. }
  eapply x_call; [apply (mph7_spec _ _ _ _ _ _ s0 H0)|]. intros hb s1 n1 (I1 & T1 & C1 & V1 & Hh). cbn beta.
  destruct hb as [b|]; [|apply x_ret; split; [exact I1|split; [trs4|split; [exact C1|split; [exact V1|discriminate]]]]].
  apply x_get. cbv zeta. apply x_modify. apply x_ret. split; [|split; [trs4|split; [exact C1|split; [exact V1|intros b0 [= <-]; reflexivity]]]].
  destruct on; [|exact I]. destruct I1 as [HI HV]. split; [|exact HV].
  apply (i7_header _ _ _ _ s1); try reflexivity; [exact HI|]. intros b0 Hb0. rewrite (Hh b eq_refl) in Hb0. injection Hb0 as <-.
  eexists. split; reflexivity.
Qed.
Lemma u_CreatePreBlock : k7 CreatePreBlock.
Proof. intros on vs mi vn k oc s0 H0. eapply x_conseq; [apply (cpb7_spec _ _ _ _ _ _ s0 H0)|]. cbn. intros r s n (A & B & _). auto. Qed.
Hint Resolve u_CreatePreBlock : kpdb.
Lemma u_checkCommit : k7 (checkCommit cfg). Proof. unfold checkCommit. k7_go. Qed.
Hint Resolve u_checkCommit : kpdb.

(* the re-verification of stored commits never removes the commit the node signed: it still verifies *)
Lemma ownp_verifies vs mi k oc s c b pub : I7 vs mi (S k) oc s -> zlen vs <= 65536 -> ownp mi s = Some c ->
  preheader s = Some b -> nth_chk (Validators s) (Z.to_nat (p_idx c)) = Some pub -> preblock_verify pub b (precommit_data c) = true.
Proof.
  intros (A1 & A2 & A3 & A4 & A5) Hs Ho Hb Hp. destruct (A5 Hs) as [_ P2 _].
  destruct (P2 ltac:(discriminate)) as (c' & b' & C0 & C1 & C2 & C3 & C4 & Hb' & Hsg). rewrite Ho in C1. injection C1 as <-.
  rewrite Hb in Hb'. injection Hb' as <-.
  assert (Hmi : 0 <= mi). { unfold ownp, slot in Ho. destruct (mi <? 0) eqn:E; [discriminate Ho|apply Z.ltb_ge in E; exact E]. }
  rewrite C2, A1, (A4 Hmi) in Hp. injection Hp as <-.
  unfold preblock_verify. rewrite C4, Z.eqb_refl, Hsg, hash_eqb_refl. reflexivity.
Qed.
Lemma u_verifyPreCommits : k7 verifyPreCommitPayloadsAgainstPreBlock.
Proof.
  intros on vs mi vn k oc. unfold verifyPreCommitPayloadsAgainstPreBlock. apply kp_get_bind_u. intros s. destruct (negb (hasAllTransactions s)); [apply kp_ret|]. apply kp_forM. intros i s1 H1.
  apply x_get. apply x_tget. intros m Hi Hm. destruct m as [p|]; [|apply x_ret; split; [exact H1|apply trG_nil]].
  destruct (p_view p =? ViewNumber s1) eqn:Ev; [|apply x_ret; split; [exact H1|apply trG_nil]]. apply Z.eqb_eq in Ev.
  eapply x_call; [apply (cpb7_spec _ _ _ _ _ _ s1 H1)|]. intros hb s2 n2 (I2 & T2 & C2 & V2 & Hh). cbn beta.
  destruct hb as [b|]; [|apply x_ret; split; [exact I2|trs4]]. specialize (Hh b eq_refl).
  apply x_get. apply x_tget. intros pub Hi2 Hpub. destruct (preblock_verify pub b (precommit_data p)) eqn:Ebv; [apply x_ret; split; [exact I2|trs4]|].
  apply x_tset. intros l Hi3 Hl. apply x_modify_last. split; [|trs4].
  destruct on; [|exact I]. destruct I2 as [HI HV]. destruct H1 as [HI1 HV1]. split; [|exact HV].
  destruct (Z.eq_dec (Z.of_nat i) mi) as [E|Hne]; [|apply (i7_commit_other _ _ _ _ s2 l (Z.of_nat i) None HI Hl Hi3 Hne)].
  destruct (Z_le_dec (zlen vs) 65536) as [Hs|Hs]; [|apply (i7_unsigned _ _ _ _ s2); [exact HI|intros X; contradiction|repeat split]].
  destruct k as [|k']; [apply (i7_unsigned _ _ _ _ s2); [exact HI|reflexivity|repeat split]|]. exfalso.
  assert (Ho : ownp mi s2 = Some p). { unfold ownp. rewrite C2, <- E. apply (slot_nth _ _ _ Hi Hm). }
  rewrite (ownp_verifies vs mi k' oc s2 p b pub HI Hs Ho Hh Hpub) in Ebv. discriminate Ebv.
Qed.
Hint Resolve u_verifyPreCommits : kpdb.
Lemma u_updateExistingPayloads m : k7 (updateExistingPayloads cfg m). Proof. unfold updateExistingPayloads. k7_go. Qed.
Hint Resolve u_updateExistingPayloads : kpdb.

Lemma u_checkPreCommit : k7 (checkPreCommit cfg). Proof. unfold checkPreCommit. k7_go. Qed.
Hint Resolve u_checkPreCommit : kpdb.
Lemma u_onCommit m : k7 (onCommit cfg m). Proof. unfold onCommit. k7_go. Qed.
Hint Resolve u_onCommit : kpdb.
(* a received Commit is stored only in an empty slot, and only what was just stored is removed again *)
Lemma u_onPreCommit msg : k7 (onPreCommit cfg msg).
Proof.
  intros on vs mi vn k oc s0 H0. unfold onPreCommit. apply x_get. apply x_tget. intros ex Hi Hex.
  destruct ex as [e|]; cbn [isSome]; [apply x_ret; split; [exact H0|apply trG_nil]|].
  apply x_tset. intros l _ Hl. apply x_modify.
  match goal with |- hx ?st _ _ => set (s1 := st) end.
  (* from here on: either another validator's slot, or nothing has been signed *)
  assert (Hk : on = true -> p_idx msg <> mi \/ (zlen vs <= 65536 -> k = 0%nat)).
  { intros ->. destruct H0 as [HI _]. destruct (Z.eq_dec (p_idx msg) mi) as [E|Hne]; [right|left; exact Hne].
    apply (i7_k0 _ _ _ _ _ HI). unfold ownp. rewrite <- E. apply (slot_nth _ _ _ Hi Hex). }
  assert (Hset : forall s l' v, I7s on vs mi vn k oc s -> set_chk (PreCommitPayloads s) (Z.to_nat (p_idx msg)) v = Some l' ->
                               I7s on vs mi vn k oc (s <| PreCommitPayloads := l' |>)).
  { intros s l' v Hs Hl'. destruct on; [|exact I]. destruct Hs as [HI HV]. split; [|exact HV].
    destruct (Hk eq_refl) as [Hne|Hz]; [apply (i7_commit_other _ _ _ _ s l' (p_idx msg) v HI Hl' Hi Hne)|].
    apply (i7_unsigned _ _ _ _ s); [exact HI|exact Hz|repeat split]. }
  assert (I1 : I7s on vs mi vn k oc s1) by (apply (Hset s0 l _ H0 Hl)).
  destruct (negb _); [apply x_ret; split; [exact I1|apply trG_nil]|].
  apply x_ask. intros ok c Hc. assert (Gc : NoSetd s1 c) by nosel. destruct ok; cbn [negb].
  2:{ apply x_get. apply x_tset. intros l2 _ Hl2. apply x_modify_last. split; [apply (Hset s1 l2 _ I1 Hl2)|trs4]. }
  eapply x_kp; [apply (u_extendTimer cfg 4 on vs mi vn k oc)|exact I1|]. intros [] s2 n2 I2 T2.
  apply x_get. destruct (negb (hasAllTransactions s2)); [apply x_ret; split; [exact I2|trs4]|].
  eapply x_call; [apply (cpb7_spec _ _ _ _ _ _ s2 I2)|]. intros hb s3 n3 (I7' & T3 & _ & _ & _). cbn beta.
  destruct hb as [b|]; [|apply x_ret; split; [exact I7'|trs4]].
  apply x_get. apply x_tget. intros pub _ _. destruct (preblock_verify pub b (precommit_data msg)).
  - eapply x_conseq; [apply (u_checkPreCommit on vs mi vn k oc s3 I7')|]. cbn. intros _ s n [A B]. split; [exact A|trs4].
  - apply x_tset. intros l3 _ Hl3. apply x_modify_last. split; [apply (Hset s3 l3 _ I7' Hl3)|trs4].
Qed.
End Manual7.

(* ---------------- level 1: the signature ---------------- *)
Lemma i7_commit_same vs mi k oc s l : I7 vs mi k oc s -> 0 <= mi -> set_chk (PreCommitPayloads s) (Z.to_nat mi) (ownp mi s) = Some l ->
  I7 vs mi k oc (s <| PreCommitPayloads := l |>).
Proof.
  intros (A1 & A2 & A3 & A4 & A5) Hi Hl. unfold I7. cbn [Validators MyIndex ViewNumber MyKey set].
  split; [exact A1|split; [exact A2|split; [exact A3|split; [exact A4|]]]]. intros Hs. destruct (A5 Hs) as [P1 P2 P4].
  constructor; unfold ownp in *; cbn [PreCommitPayloads ViewNumber MyKey preheader set]; rewrite ?(slot_set_same _ _ _ _ Hl Hi); assumption.
Qed.

Section LevelP1.
Variable cfg : config.
Hint Resolve u_WatchOnly u_RSOR u_own_slot u_ResponseSent u_PreCommitSent u_CommitSent u_ViewChanging u_NotAccepting u_subscribe u_unsubscribe
  u_StopTxFlow u_changeTimer u_getTimestamp u_Fill u_MakeHeader u_CreateBlock u_broadcast u_makePrepareRequest u_rtt
  u_makeRecoveryMessage u_sendRecoveryMessage u_processMissingTx u_sendRecoveryRequest u_makeChangeView u_makePrepareResponse
  u_sendPrepareResponse u_makeCommit u_sendCommit u_verifyCommits u_extendTimer u_GetPrimaryIndex u_onRecoveryRequest
  u_cache_addMessage u_ask_recv u_MakePreHeader u_CreatePreBlock u_checkCommit u_verifyPreCommits u_updateExistingPayloads u_onPreCommit : kpdb.

Lemma x_mph7 {B} vs mi g0 s0 (f : option preblockobj -> M B) Q : I7g vs mi g0 s0 ->
  (forall r s1 n1, I7g vs mi (g0 ++ n1) s1 -> nset n1 = 0%nat -> PreCommitPayloads s1 = PreCommitPayloads s0 ->
     (forall b, r = Some b -> preheader s1 = Some b) -> hx s1 (f r) (fun b s n2 => Q b s (n1 ++ n2))) ->
  hx s0 (bind CreatePreBlock f) Q.
Proof.
  intros H0 Hf. destruct (KS_dec mi g0) as [Hk|Hk].
  - eapply x_call; [apply (cpb7_spec true vs mi (ViewNumber s0) (nset g0) (set_precommit g0) s0); split; [exact (H0 Hk)|reflexivity]|].
    intros r s1 n1 (P & T & C1 & _ & Hh). apply Hf; [|apply (nosetd_nset _ T)|exact C1|exact Hh].
    intros _. rewrite nset_app, (nosetd_nset _ T), Nat.add_0_r, (set_precommit_app _ _ (nosetd_nset _ T)). apply P.
  - eapply x_call; [apply (cpb7_spec false vs mi 0 0%nat None s0); exact I|].
    intros r s1 n1 (_ & T & C1 & _ & Hh). apply Hf; [|apply (nosetd_nset _ T)|exact C1|exact Hh].
    intros Hk2. exfalso. apply Hk. apply (KS_app _ _ _ Hk2).
Qed.

Lemma pq_sendPreCommit : kr (sendPreCommit).
Proof.
  intros vs mi g0 s0 H0. unfold sendPreCommit, makePreCommit. apply x_assoc. apply x_get. apply x_assoc. apply x_tget. intros own0 Hi Hown.
  destruct own0 as [m|].
  - apply x_ret_bind. apply x_get. apply x_tset. intros l _ Hl. apply x_modify.
    eapply x_conseq; [apply (kr_of_k3 _ (u_broadcast m) vs mi g0)|cbn; intros _ s n P; exact P].
    intros Hks. pose proof (H0 Hks) as HI. assert (Emi : MyIndex s0 = mi) by apply HI. rewrite Emi in *.
    apply (i7_commit_same _ _ _ _ s0 l HI Hi). unfold ownp. rewrite (slot_nth _ _ _ Hi Hown). exact Hl.
  - apply x_assoc. apply (x_mph7 vs mi g0 s0 _ _ H0). intros hb s1 n1 I1 N1 C1 Hh. destruct hb as [b|].
    2:{ apply x_ret_bind. apply x_ret. rewrite app_nil_r. exact I1. }
    specialize (Hh b eq_refl). xs.
    match goal with |- hx ?st (broadcast ?msg) _ => set (s3 := st); set (m := msg) end.
    rename Hc into Hsel. cbn [MyIndex PreCommitPayloads set] in Hi0, Hl.
    eapply x_conseq; [apply (kr_of_k3 _ (u_broadcast m) vs mi (g0 ++ n1 ++ [(s1, c)]) s3)|].
    2:{ cbn. intros _ s n P. rewrite <- !app_assoc in P. cbn [app] in P. exact P. }
    intros Hks. apply KS_app in Hks. destruct Hks as [Hk0 Hk1].
    assert (Hk01 : KS mi (g0 ++ n1)) by (apply Forall_app; split; [exact Hk0|apply KS_app in Hk1; apply Hk1]).
    pose proof (I1 Hk01) as HI. pose proof (H0 Hk0) as HI0. clear Hk1.
    assert (Esig : c = CSetData (preblock_hash b)).
    { destruct c; try discriminate Hsel. destruct (hash_eqb bh (preblock_hash b)) eqn:E; [|discriminate Hsel]. apply hash_eqb_eq in E. subst bh. reflexivity. }
    assert (Ens : nset (g0 ++ n1 ++ [(s1, c)]) = S (nset g0)).
    { rewrite !nset_app, N1, Esig. cbn. lia. }
    rewrite Ens. destruct HI as (A1 & A2 & A3 & A4 & A5). destruct HI0 as (B1 & B2 & B3 & B4 & B5).
    remember (set_precommit (g0 ++ n1 ++ [(s1, c)])) as oc eqn:Eoc.
    unfold I7, s3. cbn [Validators MyIndex ViewNumber MyKey set].
    split; [exact A1|split; [exact A2|split; [exact A3|split; [exact A4|]]]]. intros Hs.
    assert (Hn0 : nset g0 = 0%nat).
    { apply (p1 _ _ _ _ (B5 Hs)). unfold ownp. rewrite <- B2. apply (slot_nth _ _ _ Hi Hown). }
    rewrite Hn0.
    assert (Eoc' : oc = Some m).
    { rewrite Eoc, Esig, app_assoc. apply set_precommit_first. rewrite nset_app, Hn0, N1. reflexivity. }
    assert (Hmi : 0 <= mi < 65536).
    { rewrite <- A2. split; [assumption|]. pose proof (nth_chk_lt _ _ _ (A4 ltac:(rewrite <- A2; assumption))) as Hlt.
      unfold zlen in Hs. rewrite A2. lia. }
    assert (Eown : ownp mi s3 = Some m).
    { unfold ownp, s3. cbn [PreCommitPayloads set]. rewrite <- A2. eapply slot_set_same; [exact Hl|exact Hi0]. }
    fold s3. constructor.
    + intros Hnone. rewrite Eown in Hnone. discriminate Hnone.
    + intros _. exists m. eexists. split; [exact Eoc'|]. split; [exact Eown|]. unfold m, mk_payload, s3. cbn.
      rewrite A2, (u16_small _ Hmi). repeat split; reflexivity.
    + lia.
Qed.
End LevelP1.

Section LevelP1b.
Variable cfg : config.
Hint Resolve u_WatchOnly u_RSOR u_own_slot u_ResponseSent u_PreCommitSent u_CommitSent u_ViewChanging u_NotAccepting u_subscribe u_unsubscribe
  u_StopTxFlow u_changeTimer u_getTimestamp u_Fill u_MakeHeader u_CreateBlock u_broadcast u_makePrepareRequest u_rtt
  u_makeRecoveryMessage u_sendRecoveryMessage u_processMissingTx u_sendRecoveryRequest u_makeChangeView u_makePrepareResponse
  u_sendPrepareResponse u_makeCommit u_sendCommit u_verifyCommits u_extendTimer u_GetPrimaryIndex u_onRecoveryRequest
  u_cache_addMessage u_ask_recv u_MakePreHeader u_CreatePreBlock u_checkCommit u_verifyPreCommits u_updateExistingPayloads u_onPreCommit : kpdb.
Hint Resolve pq_sendPreCommit : krdb.
Lemma pq_checkPreCommit : kr (checkPreCommit cfg). Proof. unfold checkPreCommit. kr_go. Qed.
Hint Resolve pq_checkPreCommit : krdb.
Lemma pq_checkPrepare : kr (checkPrepare cfg). Proof. unfold checkPrepare. kr_go. Qed.
Hint Resolve pq_checkPrepare : krdb.
Lemma pq_sendPrepareRequest f : kr (sendPrepareRequest cfg f). Proof. unfold sendPrepareRequest. kr_go. Qed.
Lemma pq_onPrepareResponse m : kr (onPrepareResponse cfg m).
Proof. unfold onPrepareResponse. kr_go. all: match goal with |- context[p_body ?p] => destruct (p_body p) as [[]|] end; kr_go. Qed.
Lemma pq_onPreCommit m : kr (onPreCommit cfg m). Proof. apply kr_of_k3, u_onPreCommit. Qed.
End LevelP1b.

