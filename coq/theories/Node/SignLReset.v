(* C03: (re)initialisation lemmas for SignL.v *)
From DbftV Require Export SignL.

(* ---------------- (re)initialisation ---------------- *)
Lemma sel_KeyPair3 s c ik :
  match c with
  | CKeyPair i k => if i =? -1 then Some (i, k) else
                    if (0 <=? i) && (i <? N s) && match nth_chk (Validators s) (Z.to_nat i) with Some k' => k' =? k | None => false end
                    then Some (i, k) else None
  | _ => None end = Some ik -> c = CKeyPair (fst ik) (snd ik) /\ (0 <= fst ik -> nth_chk (Validators s) (Z.to_nat (fst ik)) = Some (snd ik)).
Proof.
  destruct c; try discriminate. destruct (idx =? -1) eqn:E1.
  - intros [= <-]. apply Z.eqb_eq in E1. split; [reflexivity|]. cbn. lia.
  - destruct (_ && _) eqn:E2; [|discriminate]. intros [= <-]. cbn [fst snd]. split; [reflexivity|]. intros _.
    apply andb_true_iff in E2. destruct E2 as [_ E2]. destruct (nth_chk (Validators s) (Z.to_nat idx)) as [k'|]; [|discriminate E2].
    apply Z.eqb_eq in E2. subst k'. reflexivity.
Qed.
Lemma KS_in mi tr s i k : KS mi tr -> In (s, CKeyPair i k) tr -> i = mi.
Proof. intros H Hin. unfold KS in H. rewrite Forall_forall in H. apply (H _ Hin). Qed.
Lemma KS_wo mi tr s b : KS mi tr -> In (s, CWatchOnly b) tr -> b = false.
Proof. intros H Hin. unfold KS in H. rewrite Forall_forall in H. apply (H _ Hin). Qed.

Section ResetL.
Variable cfg : config.
Hint Resolve t_WatchOnly t_RSOR t_own_slot t_ResponseSent t_PreCommitSent t_CommitSent t_ViewChanging t_NotAccepting t_subscribe t_unsubscribe
  t_StopTxFlow t_changeTimer t_getTimestamp t_Fill t_MakePreHeader t_CreatePreBlock t_broadcast t_makePrepareRequest t_rtt
  t_makeRecoveryMessage t_sendRecoveryMessage t_processMissingTx t_sendRecoveryRequest t_makeChangeView t_makePrepareResponse
  t_sendPrepareResponse t_makePreCommit t_sendPreCommit t_verifyPreCommits t_extendTimer t_GetPrimaryIndex t_onRecoveryRequest
  t_cache_addMessage t_ask_recv t_MakeHeader t_CreateBlock t_checkCommit t_verifyCommits t_updateExistingPayloads t_onCommit : kpdb.
Hint Resolve q_sendCommit q_checkPreCommit q_checkPrepare q_sendPrepareRequest q_onPrepareResponse q_onPreCommit : kqdb.

(* the initialisation at view 0 (Start, Reset) opens a new epoch: from any state, nothing is signed and the Commit table is empty *)
Lemma reset_0 ts s0 : hx s0 (reset cfg 0 ts) (fun _ s tr => nsign tr = 0%nat /\ forall mi oc, KS mi tr -> I3 (Validators s) mi 0 oc s).
Proof.
  unfold reset. cbn [Z.eqb]. unfold unsubscribeFromTransactions, GetPrimaryIndex. xs.
  all: repeat match goal with
       | Hc : _ = Some ?a |- _ =>
           let t := type of a in
           lazymatch t with
           | (Z * key)%type => fail
           | _ => lazymatch type of Hc with
                  | context[match ?c with _ => _ end] =>
                      assert (is_sign c = false) by (destruct c; try reflexivity; discriminate Hc); clear Hc
                  end
           end
       end.
  all: match goal with Hc : _ = Some ?ik |- _ => apply sel_KeyPair3 in Hc; destruct Hc as [-> Hkey] end.
  all: split; [unfold nsign; cbn [filter snd]; repeat match goal with H : is_sign _ = false |- _ => rewrite H; clear H end; reflexivity|].
  all: intros mi oc Hk;
       match type of Hk with context[CKeyPair (fst ?ik) (snd ?ik)] =>
         assert (Emi : fst ik = mi) by (eapply (KS_in _ _ _ _ _ Hk); repeat (first [left; reflexivity | right])) end.
  all: unfold I3; cbn [Validators MyIndex ViewNumber MyKey set]; cbn [Validators set] in Hkey.
  all: (split; [reflexivity|split; [exact Emi|split; [lia|split; [intros Hmi; rewrite <- Emi; apply Hkey; rewrite Emi; exact Hmi|]]]]).
  all: intros _; constructor; [reflexivity|intros Hx; exfalso; apply Hx; reflexivity|auto].
Qed.

(* a view change happens only while nothing is signed: the Commit table is kept, the node's index is the one the application
   reports again *)
Lemma reset_q view ts vs mi g0 s0 : I3g vs mi g0 s0 -> (KS mi g0 -> 0 < view /\ (zlen vs <= 65536 -> nsign g0 = 0%nat)) ->
  hx s0 (reset cfg view ts) (fun _ s tr => I3g vs mi (g0 ++ tr) s /\ nsign tr = 0%nat).
Proof.
  intros H0 Hv. destruct (view =? 0) eqn:Ev0.
  { (* not reachable under the hypothesis *)
    apply Z.eqb_eq in Ev0. subst view. eapply x_conseq; [apply (reset_0 ts s0)|]. cbn. intros _ s n [Hn _]. split; [|exact Hn]. intros Hk. exfalso.
    apply KS_app in Hk. destruct Hk as [Hk _]. pose proof (Hv Hk). lia. }
  unfold reset. apply x_modify. unfold unsubscribeFromTransactions at 1. apply x_modify. rewrite Ev0.
  apply Z.eqb_neq in Ev0.
  apply x_assoc. apply x_get. apply x_assoc. eapply x_call; [apply (keep_changeviews_spec (fun _ => True))|]. intros lk s1 n1 (-> & -> & _). cbn beta.
  unfold GetPrimaryIndex. xs.
  all: match goal with Hc : _ = Some ?ik |- _ => apply sel_KeyPair3 in Hc; destruct Hc as [-> Hkey] end.
  all: split; [|reflexivity].
  all: intros Hk; pose proof Hk as Hk'; apply KS_app in Hk'; destruct Hk' as [Hk0 Hk1]; destruct (Hv Hk0) as [Hlt Hz];
       pose proof (H0 Hk0) as (A1 & A2 & A3 & A4 & A5);
       match type of Hk1 with context[CKeyPair (fst ?ik) (snd ?ik)] =>
         assert (Emi : fst ik = mi) by (eapply (KS_in _ _ _ _ _ Hk1); left; reflexivity) end;
       rewrite nsign_app; cbn [nsign filter is_sign snd length app]; rewrite Nat.add_0_r.
  all: match goal with |- I3 _ _ _ ?o _ => generalize o; intros oc end.
  all: unfold I3; cbn [Validators MyIndex ViewNumber MyKey set]; cbn [Validators set] in Hkey.
  all: (split; [exact A1|split; [exact Emi|split; [lia|split; [intros Hmi; rewrite <- A1, <- Emi; apply Hkey; rewrite Emi; exact Hmi|]]]]).
  all: intros Hs; rewrite (Hz Hs); constructor; [reflexivity|intros Hx; exfalso; apply Hx; reflexivity|auto].
Qed.
End ResetL.
