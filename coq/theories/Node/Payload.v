(* The canonical encoding used as payload hash is injective: equal hashes mean equal payloads (trusted-base item
   "payload hash injective" is thereby a theorem about the model's encoder, which the harness compares token by token
   with the Go mock's). *)
From DbftV Require Export Hoare.

Lemma zlen_eq_length {A} (a b : list A) : zlen a = zlen b -> length a = length b.
Proof. unfold zlen. lia. Qed.

Lemma lenpref_inj (a b x y : list Z) : zlen a :: a ++ x = zlen b :: b ++ y -> a = b /\ x = y.
Proof.
  intros H. injection H as Hl Happ. apply zlen_eq_length in Hl.
  revert b Hl Happ. induction a as [|u a IH]; destruct b as [|v b]; cbn; intros Hl Happ; try discriminate; auto.
  injection Happ as -> Happ. destruct (IH b ltac:(lia) Happ) as [-> ->]. auto.
Qed.

Lemma enc_hashes_inj (l l' : list hash) (x y : list Z) :
  length l = length l' -> enc_hashes l ++ x = enc_hashes l' ++ y -> l = l' /\ x = y.
Proof.
  revert l'. induction l as [|h t IH]; destruct l' as [|h' t']; cbn; intros Hl H; try discriminate; auto.
  rewrite <- !app_assoc in H. apply lenpref_inj in H. destruct H as [-> H].
  destruct (IH t' ltac:(lia) H) as [-> ->]. auto.
Qed.

Lemma enc_body0_inj b b' (x y : list Z) :
  body0_type b = body0_type b' -> enc_body0 b ++ x = enc_body0 b' ++ y -> b = b' /\ x = y.
Proof.
  destruct b, b'; cbn; intros Ht H; try discriminate.
  - injection H as -> -> -> ->. auto.
  - injection H as -> -> Hl H. apply zlen_eq_length in Hl. destruct (enc_hashes_inj _ _ _ _ Hl H) as [-> ->]. auto.
  - apply lenpref_inj in H. destruct H as [-> ->]. auto.
  - destruct sg as [k1 h1], sg0 as [k2 h2]. cbn in H. injection H as -> Hl Happ.
    assert (E : zlen h1 :: h1 ++ x = zlen h2 :: h2 ++ y) by congruence.
    apply lenpref_inj in E. destruct E as [-> ->]. auto.
  - destruct dt as [k1 h1], dt0 as [k2 h2]. cbn in H. injection H as -> Hl Happ.
    assert (E : zlen h1 :: h1 ++ x = zlen h2 :: h2 ++ y) by congruence.
    apply lenpref_inj in E. destruct E as [-> ->]. auto.
  - injection H as -> ->. auto.
Qed.

Lemma mtype_code_inj a b : mtype_code a = mtype_code b -> a = b.
Proof. destruct a, b; cbn; intros H; try reflexivity; discriminate. Qed.

Lemma enc_payload0_inj p q (x y : list Z) : enc_payload0 p ++ x = enc_payload0 q ++ y -> p = q /\ x = y.
Proof.
  destruct p as [h v i b], q as [h' v' i' b']. unfold enc_payload0. cbn [p0_height p0_view p0_idx p0_body].
  cbn [app]. intros H. injection H as Ht -> -> -> H. apply mtype_code_inj in Ht.
  destruct (enc_body0_inj _ _ _ _ Ht H) as [-> ->]. auto.
Qed.

Lemma enc_inner_inj (ps qs : list payload0) :
  length ps = length qs ->
  flat_map (fun q => let e := enc_payload0 q in zlen e :: e) ps = flat_map (fun q => let e := enc_payload0 q in zlen e :: e) qs -> ps = qs.
Proof.
  revert qs. induction ps as [|p t IH]; destruct qs as [|q t']; cbn [length flat_map]; intros Hl H; try discriminate; auto.
  cbv zeta in H. cbn [app] in H.
  apply lenpref_inj in H. destruct H as [He H].
  assert (E : enc_payload0 p ++ [] = enc_payload0 q ++ []) by (rewrite !app_nil_r; exact He).
  apply enc_payload0_inj in E. destruct E as [-> _]. f_equal. apply IH; auto.
Qed.

Theorem payload_hash_inj (a b : payload) : payload_hash a = payload_hash b -> a = b.
Proof.
  destruct a as [h v i ba], b as [h' v' i' bb]. unfold payload_hash. cbn [p_body p_height p_view p_idx].
  destruct ba as [b0|ps], bb as [b0'|qs]; intros H.
  - injection H as Ht -> -> -> H. apply mtype_code_inj in Ht.
    assert (E : enc_body0 b0 ++ [] = enc_body0 b0' ++ []) by (rewrite !app_nil_r; exact H).
    apply (enc_body0_inj _ _ _ _ Ht) in E. destruct E as [-> _]. reflexivity.
  - injection H as Ht _. destruct b0; cbn in Ht; discriminate.
  - injection H as Ht _. destruct b0'; cbn in Ht; discriminate.
  - injection H as -> -> -> Hl H. apply zlen_eq_length in Hl. rewrite (enc_inner_inj _ _ Hl H). reflexivity.
Qed.

Lemma payload_eqb_eq (a b : payload) : payload_eqb a b = true <-> a = b.
Proof.
  unfold payload_eqb. rewrite hash_eqb_eq. split; [apply payload_hash_inj|intros ->; reflexivity].
Qed.

(* the selector of [broadcast] pins the payload *)
Lemma sel_Broadcast c (m : payload) :
  (if match c with CBroadcast p => payload_eqb p m | _ => false end then Some tt else None) = Some tt -> c = CBroadcast m.
Proof. destruct c; try discriminate. destruct (payload_eqb p m) eqn:E; [|discriminate]. apply payload_eqb_eq in E. subst. reflexivity. Qed.
