(* Counting change-view requests: what keep_changeviews computes and how the count behaves under slot updates. *)
From DbftV Require Export Hoare Tables.

Definition cnt_ge (v : Z) (l : list (option payload)) : Z :=
  count (fun o => match o with Some p => cv_newview p >=? v | None => false end) l.

(* counting under a checked update of a slot that was not counted *)
Lemma count_set_ge {T} (f : T -> bool) : forall (t : list T) i v l old,
  set_chk t i v = Some l -> nth_chk t i = Some old -> f old = false -> count f t <= count f l.
Proof.
  unfold count, zlen. induction t as [|y t IH]; intros i v l old Hs Hn Hf; [destruct i; discriminate|].
  destruct i; cbn in *.
  - injection Hs as <-. injection Hn as ->. cbn. rewrite Hf. destruct (f v); cbn; lia.
  - destruct (set_chk t i v) eqn:E; [|discriminate]. injection Hs as <-. cbn. specialize (IH _ _ _ _ E Hn Hf). destruct (f y); cbn; lia.
Qed.

(* what keep_changeviews computes *)
Definition keepf (view : Z) (cvs : list (option payload)) : list (option payload) :=
  map (fun m => match m with Some p => if cv_newview p >=? view then m else None | None => None end) cvs.
Lemma nth_chk_map {S T} (f : S -> T) l i : nth_chk (map f l) i = option_map f (nth_chk l i).
Proof. revert i; induction l as [|y t IH]; intros i; destruct i; cbn; auto. Qed.
Lemma nth_chk_ext {T} : forall (a b : list T), length a = length b -> (forall j, (j < length a)%nat -> nth_chk a j = nth_chk b j) -> a = b.
Proof.
  induction a as [|x a IH]; destruct b as [|y b]; cbn; intros Hl H; try discriminate; [reflexivity|].
  pose proof (H 0%nat ltac:(lia)) as H0. cbn in H0. injection H0 as ->. f_equal. apply IH; [lia|]. intros j Hj. apply (H (S j)). lia.
Qed.
Lemma cnt_keepf view cvs : cnt_ge view (keepf view cvs) = cnt_ge view cvs.
Proof.
  unfold cnt_ge, count, zlen, keepf. induction cvs as [|[p|] r IH]; cbn; auto.
  destruct (cv_newview p >=? view) eqn:E; cbn; [rewrite E; cbn; lia|exact IH].
Qed.
Lemma keep_spec n : forall i view cvs last s0,
  hx s0 (keep_changeviews i n view cvs last)
     (fun l s tr => s = s0 /\ (length last = length cvs -> (forall j, (j < i)%nat -> nth_chk last j = nth_chk (keepf view cvs) j) -> (i + n = length cvs)%nat -> l = keepf view cvs)).
Proof.
  induction n as [|n IH]; intros i view cvs last s0; cbn [keep_changeviews].
  - apply x_ret. split; [reflexivity|]. intros Hl Hj Hi. apply nth_chk_ext; [unfold keepf; rewrite map_length; exact Hl|]. intros j Hlt. apply Hj. lia.
  - apply x_tget. intros m _ Hm. cbv zeta. apply x_tset. intros last' _ Hs. rewrite Nat2Z.id in Hm, Hs.
    eapply x_conseq; [apply IH|]. cbn. intros l s tr [-> H]. split; [reflexivity|]. intros Hl Hj Hi. apply H.
    + rewrite (set_chk_length _ _ _ _ Hs). exact Hl.
    + intros j Hlt. destruct (Nat.eq_dec j i) as [->|Hne].
      * rewrite (nth_set_same _ _ _ _ Hs). unfold keepf. rewrite nth_chk_map, Hm. reflexivity.
      * rewrite (nth_set_other _ _ _ _ _ Hs) by lia. apply Hj. lia.
    + lia.
Qed.

