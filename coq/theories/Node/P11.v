(* C11 Input hygiene: the inadmissible classes, each as a theorem about the API function for EVERY node state satisfying
   the class condition, every continuation of initializeConsensus and every script.
   "Changes nothing beyond noting that the sender is alive": the final state equals the initial one except possibly for
   LastSeenMessage, and the only callbacks made are watch-only queries (no broadcast, no timer, no verification,
   no transaction request). *)
From DbftV Require Export Hoare Payload.

Definition OnlyWo (tr : tr_t) : Prop := Forall (fun sc => exists b, snd sc = CWatchOnly b) tr.
Definition Noted (s0 s : nstate) : Prop := exists l, s = s0 <| LastSeenMessage := l |>.
Definition Unchanged (s0 : nstate) (_ : unit) (s : nstate) (tr : tr_t) : Prop := Noted s0 s /\ OnlyWo tr.

Lemma Noted_refl s : Noted s s. Proof. exists (LastSeenMessage s). destruct s; reflexivity. Qed.
Lemma Noted_set s l : Noted s (s <| LastSeenMessage := l |>). Proof. exists l. reflexivity. Qed.
Lemma OnlyWo_nil : OnlyWo []. Proof. constructor. Qed.
Lemma OnlyWo_cons s b tr : OnlyWo tr -> OnlyWo ((s, CWatchOnly b) :: tr). Proof. intros H. constructor; [exists b; reflexivity|exact H]. Qed.
#[export] Hint Resolve Noted_refl Noted_set OnlyWo_nil OnlyWo_cons : c11.

Section P11.
Variable cfg : config.
Variable ic : Z -> Z -> M unit.

(* validator index outside the current list *)
Theorem index_outside_the_list msg s0 :
  N s0 <= p_idx msg -> hx s0 (OnReceive cfg ic msg) (fun _ s tr => s = s0 /\ tr = []).
Proof.
  intros H. unfold OnReceive, receive_common. apply x_get.
  destruct (p_idx msg >=? N s0) eqn:E; [apply x_ret; auto|]. rewrite Z.geb_leb in E. apply Z.leb_gt in E. lia.
Qed.

(* payload of a past height *)
Theorem past_height msg s0 :
  p_height msg < BlockIndex s0 -> hx s0 (OnReceive cfg ic msg) (fun _ s tr => s = s0 /\ tr = []).
Proof.
  intros H. unfold OnReceive, receive_common. apply x_get.
  destruct (p_idx msg >=? N s0); [apply x_ret; auto|].
  destruct (p_height msg <? BlockIndex s0) eqn:E; [apply x_ret; auto|]. apply Z.ltb_ge in E. lia.
Qed.

(* a payload of the node's height that is not kept for later: receive_common notes the sender and dispatches *)
Lemma rc_current (d : payload -> M unit) msg s0 (Q : unit -> nstate -> tr_t -> Prop) :
  p_idx msg < N s0 -> p_height msg = BlockIndex s0 ->
  ((p_view msg >? ViewNumber s0) && negb (mtype_eqb (p_type msg) ChangeViewT) && negb (mtype_eqb (p_type msg) RecoveryMessageT)) = false ->
  (forall s1, Noted s0 s1 -> if blockProcessed s0 && negb (mtype_eqb (p_type msg) RecoveryRequestT) then Q tt s1 [] else hx s1 (d msg) Q) ->
  hx s0 (receive_common d msg) Q.
Proof.
  intros Hi Hh Hv Hd. unfold receive_common. apply x_get.
  destruct (p_idx msg >=? N s0) eqn:E1; [rewrite Z.geb_leb in E1; apply Z.leb_le in E1; lia|].
  destruct (p_height msg <? BlockIndex s0) eqn:E2; [apply Z.ltb_lt in E2; lia|].
  destruct (p_height msg >? BlockIndex s0) eqn:E3; [apply Z.gtb_lt in E3; lia|]. cbn [orb]. rewrite Hv.
  apply x_tget. intros hv _ _.
  match goal with |- context[if ?b then _ else _] => destruct b end.
  - apply x_assoc. apply x_tset. intros l _ _. apply x_modify. apply x_get.
    specialize (Hd _ (Noted_set s0 l)). cbn [blockProcessed set]. destruct (blockProcessed s0 && _); [apply x_ret; exact Hd|exact Hd].
  - apply x_ret_bind. apply x_get. specialize (Hd _ (Noted_refl s0)). destruct (blockProcessed s0 && _); [apply x_ret; exact Hd|exact Hd].
Qed.

Lemma Noted_N s0 s1 : Noted s0 s1 -> N s1 = N s0 /\ BlockIndex s1 = BlockIndex s0 /\ ViewNumber s1 = ViewNumber s0 /\
  PreparationPayloads s1 = PreparationPayloads s0 /\ PrimaryIndex s1 = PrimaryIndex s0 /\ MyIndex s1 = MyIndex s0 /\ Validators s1 = Validators s0.
Proof. intros [l ->]. repeat split. Qed.
Lemma Noted_trans a b c : Noted a b -> Noted b c -> Noted a c.
Proof. intros [l ->] [l2 ->]. exists l2. destruct a; reflexivity. Qed.

(* helper: the watch-only probes (WatchOnly / ViewChanging used only to fill a log line) *)
Lemma q_WatchOnly {B} s0 (f : bool -> M B) (Q : B -> nstate -> tr_t -> Prop) :
  (forall b, hx s0 (f b) Q) -> (forall b r, hx s0 (f r) (fun x s n => Q x s ((s0, CWatchOnly b) :: n))) -> hx s0 (bind WatchOnly f) Q.
Proof.
  intros H1 H2. unfold WatchOnly. apply x_assoc. apply x_get. destruct (MyIndex s0 <? 0).
  - apply x_ret_bind. apply H1.
  - unfold ask_watchonly. apply x_ask. intros a c Hc. apply sel_WatchOnly in Hc. subst c. apply H2.
Qed.
Lemma q_ViewChanging_probe s0 : hx s0 (_ <- ViewChanging ;; ret tt) (Unchanged s0).
Proof.
  unfold ViewChanging. apply x_assoc. apply q_WatchOnly.
  - intros b. destruct b; xs; split; auto with c11.
  - intros b r. destruct r; xs; split; auto with c11.
Qed.

Definition primary_of (s : nstate) (v : Z) : Z := let p := gorem (BlockIndex s - v) (N s) in if p >=? 0 then p else p + N s.

(* a proposal of the current view that does not come from that view's primary *)
Theorem proposal_not_from_the_primary msg s0 ts nonce hs :
  p_body msg = B0 (BPrepareRequest ts nonce hs) ->
  p_idx msg < N s0 -> p_height msg = BlockIndex s0 -> p_view msg = ViewNumber s0 ->
  p_idx msg <> primary_of s0 (ViewNumber s0) ->
  hx s0 (OnReceive cfg ic msg) (Unchanged s0).
Proof.
  intros Hb Hi Hh Hv Hp. assert (Ty : p_type msg = PrepareRequestT) by (unfold p_type; rewrite Hb; reflexivity).
  unfold OnReceive. apply rc_current; auto.
  { rewrite Hv, Z.gtb_ltb, Z.ltb_irrefl. reflexivity. }
  intros s1 HN. destruct (blockProcessed s0 && _); [split; auto with c11|].
  unfold dispatch. rewrite Ty. unfold dispatch0. rewrite Ty. unfold onPrepareRequest, RequestSentOrReceived.
  xs.
  - eapply x_conseq; [apply q_ViewChanging_probe|]. intros [] s n [A B]. split; [eapply Noted_trans; eauto|exact B].
  - split; auto with c11.
  - unfold GetPrimaryIndex. destruct (N s1 =? 0); [apply x_panic_bind|]. apply x_ret_bind.
    destruct HN as [l ->]. unfold primary_of, N in *. cbn [Validators BlockIndex ViewNumber set] in *.
    match goal with |- context[p_idx msg =? ?pi] => destruct (p_idx msg =? pi) eqn:Ep end.
    + apply Z.eqb_eq in Ep. contradiction.
    + cbn [negb]. apply x_ret. split; auto with c11.
Qed.

Ltac start_current Hv :=
  unfold OnReceive; apply rc_current; auto;
  [ first [ rewrite Hv, Z.gtb_ltb, Z.ltb_irrefl; reflexivity
          | match goal with |- (?a >? ?b) && _ && _ = false => replace (a >? b) with false by (symmetry; rewrite Z.gtb_ltb; apply Z.ltb_ge; lia); reflexivity end ]
  | let s1 := fresh "s1" in let HN := fresh "HN" in intros s1 HN; destruct (blockProcessed _ && _); [split; auto with c11|] ].

(* a proposal for a lower view *)
Theorem proposal_for_a_lower_view msg s0 ts nonce hs :
  p_body msg = B0 (BPrepareRequest ts nonce hs) ->
  p_idx msg < N s0 -> p_height msg = BlockIndex s0 -> p_view msg < ViewNumber s0 ->
  hx s0 (OnReceive cfg ic msg) (Unchanged s0).
Proof.
  intros Hb Hi Hh Hv. assert (Ty : p_type msg = PrepareRequestT) by (unfold p_type; rewrite Hb; reflexivity).
  start_current Hv.
  unfold dispatch. rewrite Ty. unfold dispatch0. rewrite Ty. unfold onPrepareRequest, RequestSentOrReceived.
  xs.
  - eapply x_conseq; [apply q_ViewChanging_probe|]. intros [] s n [A B]. split; [eapply Noted_trans; eauto|exact B].
  - split; auto with c11.
  - destruct HN as [l ->]. cbn [ViewNumber set] in *. match goal with H : negb (_ =? _) = false |- _ => apply negb_false_iff, Z.eqb_eq in H; lia end.
Qed.

(* a prepare response for a lower view *)
Theorem response_for_a_lower_view msg s0 h :
  p_body msg = B0 (BPrepareResponse h) ->
  p_idx msg < N s0 -> p_height msg = BlockIndex s0 -> p_view msg < ViewNumber s0 ->
  hx s0 (OnReceive cfg ic msg) (Unchanged s0).
Proof.
  intros Hb Hi Hh Hv. assert (Ty : p_type msg = PrepareResponseT) by (unfold p_type; rewrite Hb; reflexivity).
  start_current Hv.
  unfold dispatch. rewrite Ty. unfold dispatch0. rewrite Ty. unfold onPrepareResponse. apply x_get.
  destruct HN as [l ->]. cbn [ViewNumber set].
  destruct (ViewNumber s0 =? p_view msg) eqn:E; [apply Z.eqb_eq in E; lia|]. apply x_ret. split; auto with c11.
Qed.

(* a prepare response sent under the primary's index *)
Theorem response_from_the_primary msg s0 h :
  p_body msg = B0 (BPrepareResponse h) ->
  p_idx msg < N s0 -> p_height msg = BlockIndex s0 -> p_view msg = ViewNumber s0 ->
  p_idx msg = primary_of s0 (ViewNumber s0) ->
  hx s0 (OnReceive cfg ic msg) (Unchanged s0).
Proof.
  intros Hb Hi Hh Hv Hp. assert (Ty : p_type msg = PrepareResponseT) by (unfold p_type; rewrite Hb; reflexivity).
  start_current Hv.
  unfold dispatch. rewrite Ty. unfold dispatch0. rewrite Ty. unfold onPrepareResponse. apply x_get.
  destruct (negb (ViewNumber s1 =? p_view msg)); [apply x_ret; split; auto with c11|].
  unfold GetPrimaryIndex. destruct (N s1 =? 0); [apply x_panic_bind|]. apply x_ret_bind.
  destruct HN as [l ->]. unfold primary_of, N in *. cbn [Validators BlockIndex ViewNumber set] in *.
  match goal with |- context[p_idx msg =? ?pi] => destruct (p_idx msg =? pi) eqn:Ep end.
  - apply x_ret. split; auto with c11.
  - apply Z.eqb_neq in Ep. contradiction.
Qed.

(* a pre-commit while the anti-MEV extension is off at this height *)
Theorem precommit_while_antimev_is_off msg s0 d :
  p_body msg = B0 (BPreCommit d) ->
  p_idx msg < N s0 -> p_height msg = BlockIndex s0 -> p_view msg <= ViewNumber s0 ->
  amev_on cfg s0 = false ->
  hx s0 (OnReceive cfg ic msg) (Unchanged s0).
Proof.
  intros Hb Hi Hh Hv Ha. assert (Ty : p_type msg = PreCommitT) by (unfold p_type; rewrite Hb; reflexivity).
  start_current Hv.
  unfold dispatch. rewrite Ty. unfold dispatch0. rewrite Ty. apply x_get.
  destruct HN as [l ->]. unfold amev_on in *. cbn [BlockIndex set]. rewrite Ha. apply x_ret. split; auto with c11.
Qed.

(* re-delivery of a prepare response whose sender already has a preparation stored *)
Theorem response_already_stored msg s0 h old :
  p_body msg = B0 (BPrepareResponse h) ->
  p_idx msg < N s0 -> p_height msg = BlockIndex s0 -> p_view msg = ViewNumber s0 ->
  0 <= p_idx msg -> nth_chk (PreparationPayloads s0) (Z.to_nat (p_idx msg)) = Some (Some old) ->
  hx s0 (OnReceive cfg ic msg) (Unchanged s0).
Proof.
  intros Hb Hi Hh Hv H0 Hold. assert (Ty : p_type msg = PrepareResponseT) by (unfold p_type; rewrite Hb; reflexivity).
  start_current Hv.
  unfold dispatch. rewrite Ty. unfold dispatch0. rewrite Ty. unfold onPrepareResponse. apply x_get.
  destruct (negb (ViewNumber s1 =? p_view msg)); [apply x_ret; split; auto with c11|].
  unfold GetPrimaryIndex. destruct (N s1 =? 0); [apply x_panic_bind|]. apply x_ret_bind.
  match goal with |- context[p_idx msg =? ?pi] => destruct (p_idx msg =? pi) end; [apply x_ret; split; auto with c11|].
  apply x_tget. intros x _ Hx. assert (Ex : x = Some old). { destruct HN as [l ->]. cbn [PreparationPayloads set] in Hx. congruence. }
  subst x. cbn [isSome]. apply x_ret_bind.
  eapply x_conseq; [apply q_ViewChanging_probe|]. intros [] s n [A B]. split; [eapply Noted_trans; eauto|exact B].
Qed.

(* re-delivery of a commit / pre-commit whose sender already has one stored *)
Theorem commit_already_stored msg s0 sg old :
  p_body msg = B0 (BCommit sg) ->
  p_idx msg < N s0 -> p_height msg = BlockIndex s0 -> p_view msg <= ViewNumber s0 ->
  0 <= p_idx msg -> nth_chk (CommitPayloads s0) (Z.to_nat (p_idx msg)) = Some (Some old) ->
  hx s0 (OnReceive cfg ic msg) (Unchanged s0).
Proof.
  intros Hb Hi Hh Hv H0 Hold. assert (Ty : p_type msg = CommitT) by (unfold p_type; rewrite Hb; reflexivity).
  start_current Hv.
  unfold dispatch. rewrite Ty. unfold dispatch0. rewrite Ty. unfold onCommit. apply x_get.
  apply x_tget. intros x _ Hx. assert (Ex : x = Some old). { destruct HN as [l ->]. cbn [CommitPayloads set] in Hx. congruence. }
  subst x. cbn [isSome]. apply x_ret. split; auto with c11.
Qed.
Theorem precommit_already_stored msg s0 d old :
  p_body msg = B0 (BPreCommit d) ->
  p_idx msg < N s0 -> p_height msg = BlockIndex s0 -> p_view msg <= ViewNumber s0 ->
  0 <= p_idx msg -> nth_chk (PreCommitPayloads s0) (Z.to_nat (p_idx msg)) = Some (Some old) ->
  hx s0 (OnReceive cfg ic msg) (Unchanged s0).
Proof.
  intros Hb Hi Hh Hv H0 Hold. assert (Ty : p_type msg = PreCommitT) by (unfold p_type; rewrite Hb; reflexivity).
  start_current Hv.
  unfold dispatch. rewrite Ty. unfold dispatch0. rewrite Ty. apply x_get. destruct (amev_on cfg s1); [|apply x_ret; split; auto with c11].
  unfold onPreCommit. apply x_get.
  apply x_tget. intros x _ Hx. assert (Ex : x = Some old). { destruct HN as [l ->]. cbn [PreCommitPayloads set] in Hx. congruence. }
  subst x. cbn [isSome]. apply x_ret. split; auto with c11.
Qed.

(* re-delivery of a proposal when one is already held for this view *)
Theorem proposal_already_held msg s0 ts nonce hs old :
  p_body msg = B0 (BPrepareRequest ts nonce hs) ->
  p_idx msg < N s0 -> p_height msg = BlockIndex s0 -> p_view msg <= ViewNumber s0 ->
  0 <= PrimaryIndex s0 -> nth_chk (PreparationPayloads s0) (Z.to_nat (PrimaryIndex s0)) = Some (Some old) ->
  hx s0 (OnReceive cfg ic msg) (Unchanged s0).
Proof.
  intros Hb Hi Hh Hv H0 Hold. assert (Ty : p_type msg = PrepareRequestT) by (unfold p_type; rewrite Hb; reflexivity).
  start_current Hv.
  unfold dispatch. rewrite Ty. unfold dispatch0. rewrite Ty. unfold onPrepareRequest, RequestSentOrReceived.
  apply x_assoc. apply x_get. apply x_assoc. apply x_tget. intros x _ Hx.
  assert (Ex : x = Some old). { destruct HN as [l ->]. cbn [PreparationPayloads PrimaryIndex set] in Hx. congruence. }
  subst x. apply x_ret_bind. cbn [isSome].
  eapply x_conseq; [apply q_ViewChanging_probe|]. intros [] s n [A B]. split; [eapply Noted_trans; eauto|exact B].
Qed.

(* a timeout tagged with another height or view *)
Theorem timeout_of_another_epoch h v force s0 :
  h <> BlockIndex s0 \/ v <> ViewNumber s0 ->
  hx s0 (onTimeout cfg h v force) (fun _ s tr => s = s0 /\ OnlyWo tr).
Proof.
  intros Hne. unfold onTimeout.
  assert (Hc : (negb (h =? BlockIndex s0) || negb (v =? ViewNumber s0)) = true).
  { destruct Hne as [H|H]; apply Z.eqb_neq in H; rewrite H; cbn; auto using orb_true_r. }
  apply q_WatchOnly.
  - intros b. apply x_get. destruct (b || blockProcessed s0); [apply x_ret; auto with c11|]. rewrite Hc. apply x_ret; auto with c11.
  - intros b r. apply x_get. destruct (r || blockProcessed s0); [apply x_ret; auto with c11|]. rewrite Hc. apply x_ret; auto with c11.
Qed.
Corollary OnTimeout_of_another_epoch h v s0 :
  h <> BlockIndex s0 \/ v <> ViewNumber s0 -> hx s0 (OnTimeout cfg h v) (fun _ s tr => s = s0 /\ OnlyWo tr).
Proof. apply timeout_of_another_epoch. Qed.

(* a timeout after the block of this height has been accepted (C05 quiescence) *)
Theorem timeout_after_the_decision h v force s0 :
  blockProcessed s0 = true -> hx s0 (onTimeout cfg h v force) (fun _ s tr => s = s0 /\ OnlyWo tr).
Proof.
  intros Hb. unfold onTimeout. apply q_WatchOnly.
  - intros b. apply x_get. rewrite Hb, orb_true_r. apply x_ret; auto with c11.
  - intros b r. apply x_get. rewrite Hb, orb_true_r. apply x_ret; auto with c11.
Qed.

(* a transaction the node did not ask for *)
Lemma index_of_absent h l : ~ In h l -> forall i, (fix go (i : Z) (l : list hash) := match l with [] => -1 | x :: t => if hash_eqb x h then i else go (i + 1) t end) i l = -1.
Proof.
  induction l as [|x t IH]; intros Hn i; [reflexivity|]. cbn in Hn. destruct (hash_eqb x h) eqn:E.
  - apply hash_eqb_eq in E. subst. exfalso. apply Hn. auto.
  - apply IH. intros H. apply Hn. auto.
Qed.
Lemma OnlyWo_app a b : OnlyWo a -> OnlyWo b -> OnlyWo (a ++ b). Proof. intros; apply Forall_app; auto. Qed.

Definition OW {A} (s0 : nstate) : A -> nstate -> tr_t -> Prop := fun _ s tr => s = s0 /\ OnlyWo tr.
Lemma ow_WatchOnly s0 : hx s0 WatchOnly (OW s0).
Proof. apply x_bind_unit_r. apply q_WatchOnly; intros; apply x_ret; split; auto with c11. Qed.
Lemma ow_call {A B} s0 (x : M A) (f : A -> M B) : hx s0 x (OW s0) -> (forall a, hx s0 (f a) (OW s0)) -> hx s0 (bind x f) (OW s0).
Proof.
  intros Hx Hf. eapply x_call; [apply Hx|]. intros a s1 n1 [-> H1]. eapply x_conseq; [apply Hf|]. intros b s n [-> H2]. split; [reflexivity|apply OnlyWo_app; auto].
Qed.
Lemma ow_own_slot tbl s0 : hx s0 (own_slot tbl) (OW s0).
Proof. unfold own_slot. apply ow_call; [apply ow_WatchOnly|]. intros []; xs; split; auto with c11. Qed.
Lemma ow_ViewChanging s0 : hx s0 ViewChanging (OW s0).
Proof. unfold ViewChanging. apply ow_call; [apply ow_WatchOnly|]. intros []; xs; split; auto with c11. Qed.

Theorem transaction_not_requested t s0 :
  ~ In (tx_hash t) (MissingTransactions s0) ->
  hx s0 (OnTransaction cfg t) (fun _ s tr => s = s0 /\ OnlyWo tr).
Proof.
  intros Hn. unfold OnTransaction. apply x_get. destruct (negb (IsBackup s0)); [apply x_ret; auto with c11|].
  unfold NotAcceptingPayloadsDueToViewChanging. apply x_assoc.
  apply ow_call; [apply ow_ViewChanging|]. intros vc. apply x_assoc. apply x_get. apply x_ret_bind.
  destruct (vc && _); [apply x_ret; split; auto with c11|].
  apply ow_call; [unfold RequestSentOrReceived; xs; split; auto with c11|]. intros rs. destruct (negb rs); [apply x_ret; split; auto with c11|].
  apply ow_call; [apply ow_own_slot|]. intros [|]; [apply x_ret; split; auto with c11|].
  apply ow_call; [apply ow_own_slot|]. intros [|]; [apply x_ret; split; auto with c11|].
  apply ow_call; [apply ow_own_slot|]. intros [|]; [apply x_ret; split; auto with c11|].
  apply x_get. destruct (blockProcessed s0 || _); [apply x_ret; split; auto with c11|]. cbv zeta.
  unfold index_of. rewrite index_of_absent by exact Hn. cbn. apply x_ret; split; auto with c11.
Qed.

(* C05 quiescence: after the block of the height was accepted, a consensus payload of that height other than a
   recovery request changes nothing beyond noting the sender, and a transaction changes nothing *)
Theorem payload_after_the_decision msg s0 :
  blockProcessed s0 = true -> p_type msg <> RecoveryRequestT ->
  p_idx msg < N s0 -> p_height msg = BlockIndex s0 ->
  ((p_view msg >? ViewNumber s0) && negb (mtype_eqb (p_type msg) ChangeViewT) && negb (mtype_eqb (p_type msg) RecoveryMessageT)) = false ->
  hx s0 (OnReceive cfg ic msg) (Unchanged s0).
Proof.
  intros Hb Ty Hi Hh Hv. unfold OnReceive. apply rc_current; auto. intros s1 HN. rewrite Hb.
  destruct (p_type msg); try congruence; cbn; split; auto with c11.
Qed.
Theorem transaction_after_the_decision t s0 :
  blockProcessed s0 = true -> hx s0 (OnTransaction cfg t) (fun _ s tr => s = s0 /\ OnlyWo tr).
Proof.
  intros Hb. unfold OnTransaction. apply x_get. destruct (negb (IsBackup s0)); [apply x_ret; auto with c11|].
  unfold NotAcceptingPayloadsDueToViewChanging. apply x_assoc.
  apply ow_call; [apply ow_ViewChanging|]. intros vc. apply x_assoc. apply x_get. apply x_ret_bind.
  destruct (vc && _); [apply x_ret; split; auto with c11|].
  apply ow_call; [unfold RequestSentOrReceived; xs; split; auto with c11|]. intros rs. destruct (negb rs); [apply x_ret; split; auto with c11|].
  apply ow_call; [apply ow_own_slot|]. intros [|]; [apply x_ret; split; auto with c11|].
  apply ow_call; [apply ow_own_slot|]. intros [|]; [apply x_ret; split; auto with c11|].
  apply ow_call; [apply ow_own_slot|]. intros [|]; [apply x_ret; split; auto with c11|].
  apply x_get. rewrite Hb. cbn [orb]. apply x_ret; split; auto with c11.
Qed.
End P11.
