(* C03: one block signature per epoch - initialisation, API, histories (continuation of Sign.v) *)
From DbftV Require Export Sign.
From DbftV Require Import Replay.

Section Api4.
Variable cfg : config.
Hint Resolve t_WatchOnly t_RSOR t_own_slot t_ResponseSent t_PreCommitSent t_CommitSent t_ViewChanging t_NotAccepting t_subscribe t_unsubscribe
  t_StopTxFlow t_changeTimer t_getTimestamp t_Fill t_MakePreHeader t_CreatePreBlock t_broadcast t_makePrepareRequest t_rtt
  t_makeRecoveryMessage t_sendRecoveryMessage t_processMissingTx t_sendRecoveryRequest t_makeChangeView t_makePrepareResponse
  t_sendPrepareResponse t_makePreCommit t_sendPreCommit t_verifyPreCommits t_extendTimer t_GetPrimaryIndex t_onRecoveryRequest
  t_cache_addMessage t_ask_recv t_MakeHeader t_CreateBlock t_checkCommit t_verifyCommits t_updateExistingPayloads t_onCommit : kpdb.
Hint Resolve q_sendCommit q_checkPreCommit q_checkPrepare q_sendPrepareRequest q_onPrepareResponse q_onPreCommit : kqdb.

(* the body of initializeConsensus after the reset *)
Lemma q_ic_rest ic view : ICq ic -> forall vs mi g0 s0, I3g vs mi g0 s0 ->
  hx s0 (s <- get ;;
         (if IsPrimary s then ret tt else _ <- WatchOnly ;; ret tt) ;;;
         StopTxFlow ;;;
         modify (fun s => s <| cache := filter (fun kv => negb (fst kv <? BlockIndex s)) (cache s) |>) ;;;
         s <- get ;;
         (match assoc_get (cache s) (BlockIndex s) with
          | None => ret tt
          | Some ib =>
              modify (fun s => s <| cache := assoc_del (cache s) (BlockIndex s) |>) ;;;
              replay_map cfg ic (length (ib_prepare ib)) (ib_prepare ib) ;;;
              replay_map cfg ic (length (ib_chviews ib)) (ib_chviews ib) ;;;
              replay_map cfg ic (length (ib_precommit ib)) (ib_precommit ib) ;;;
              replay_map cfg ic (length (ib_commit ib)) (ib_commit ib)
          end) ;;;
         wo <- WatchOnly ;;
         if wo then ret tt else
         s <- get ;;
         let timeout := if IsPrimary s && negb (recovering s)
                        then (if view =? 0 then timePerBlock s else 0)
                        else shl64 (timePerBlock s) (u8 (ViewNumber s + 1)) in
         timeout <- (if (u32 (lastBlockIndex s + 1) =? BlockIndex s) && isSome (lastBlockTime s) then
                       t <- ask_now ;;
                       let diff := match lastBlockTime s with Some t0 => sat64 (t - t0) | None => two63 - 1 end in
                       ret (Z.max 0 (wrap64 (wrap64 (timeout - diff) - goquot (rtt_avg s) 2)))
                     else ret timeout) ;;
         changeTimer timeout) (fun _ s tr => I3g vs mi (g0 ++ tr) s).
Proof.
  intros Hic. pose proof (q_replay_map cfg ic Hic) as Hr.
  match goal with |- forall vs mi g0 s0, _ -> hx s0 ?prog _ => change (kq prog) end.
  kq_go. all: try apply Hr.
Qed.

Lemma q_ic_body ic : ICq ic -> ICq (initializeConsensus_body cfg ic).
Proof.
  intros Hic view ts vs mi g0 s0 H0 Hv. unfold initializeConsensus_body.
  eapply x_call; [apply (reset_q cfg view ts vs mi g0 s0 H0 Hv)|]. intros [] s1 n1 I1. cbn beta.
  eapply x_conseq; [apply (q_ic_rest ic view Hic vs mi (g0 ++ n1) s1 I1)|]. cbn. intros _ s n P. rewrite app_assoc. exact P.
Qed.
Lemma q_initializeConsensus fuel : ICq (initializeConsensus cfg fuel).
Proof.
  induction fuel as [|f IH]; [intros v t vs mi g0 s0 _ _; apply x_oof|]. cbn [initializeConsensus]. apply q_ic_body. exact IH.
Qed.
Lemma q_init : ICq (init cfg). Proof. apply q_initializeConsensus. Qed.

(* the first initialisation of an epoch: from any state *)
Lemma x_forall {A T} (i0 : T) s0 (x : M A) (Q : T -> A -> nstate -> tr_t -> Prop) :
  (forall i, hx s0 x (Q i)) -> hx s0 x (fun a s n => forall i, Q i a s n).
Proof.
  intros H m Hm. pose proof (H i0 m Hm) as H0. destruct (x m) as [[a m']| | | |] eqn:E; auto.
  destruct H0 as (n & T1 & S1 & _). exists n. split; [exact T1|split; [exact S1|]]. intros i.
  specialize (H i m Hm). rewrite E in H. destruct H as (n' & T' & S' & Q').
  assert (n' = n) by (rewrite T1 in T'; apply app_inv_head in T'; auto). subst n'. exact Q'.
Qed.
Definition Fresh3 (s : nstate) (tr : tr_t) : Prop := forall mi, KS mi tr -> I3 (Validators s) mi (nsign tr) s.
Lemma Fresh3_I3g s tr mi : Fresh3 s tr -> I3g (Validators s) mi tr s.
Proof. intros H Hk. apply (H mi Hk). Qed.
Lemma I3g_Fresh3 s tr : (forall mi, exists vs, I3g vs mi tr s) -> Fresh3 s tr.
Proof. intros H mi Hk. destruct (H mi) as [vs Hv]. pose proof (Hv Hk) as HI. assert (E : Validators s = vs) by apply HI. rewrite E. exact HI. Qed.

Lemma init_0 ts s0 : hx s0 (init cfg 0 ts) (fun _ s tr => Fresh3 s tr).
Proof.
  rewrite init_unfold. pose proof (q_initializeConsensus 257) as Hic. revert Hic. generalize (initializeConsensus cfg 257) as ic. intros ic Hic.
  unfold initializeConsensus_body.
  eapply x_call; [apply (reset_0 cfg ts s0)|]. intros [] s1 n1 P1. cbn beta.
  eapply x_conseq; [apply (x_forall 0 s1 _ (fun mi _ s tr => I3g (Validators s1) mi (n1 ++ tr) s))|].
  - intros mi. apply (q_ic_rest ic 0 Hic (Validators s1) mi n1 s1). intros Hk. destruct (P1 mi Hk) as [HI Hn]. rewrite Hn. exact HI.
  - cbn. intros _ s n P. apply I3g_Fresh3. intros mi. exists (Validators s1). apply P.
Qed.

(* the API: Start and Reset open an epoch; every other call continues it *)
Lemma fresh_Start ts s0 : hx s0 (Start cfg ts) (fun _ s tr => Fresh3 s tr).
Proof.
  unfold Start. apply x_modify.
  eapply x_call; [apply init_0|]. intros [] s1 n1 F1. cbn beta.
  eapply x_conseq; [apply (x_forall 0 s1 _ (fun mi _ s tr => I3g (Validators s1) mi (n1 ++ tr) s))|].
  - intros mi.
    assert (Hrest : kq (s <- get ;; if IsPrimary s then (wo <- WatchOnly ;; if wo then ret tt else sendPrepareRequest cfg true) else ret tt)) by kq_go.
    apply (Hrest (Validators s1) mi n1 s1). apply Fresh3_I3g. exact F1.
  - cbn. intros _ s n P. apply I3g_Fresh3. intros mi. exists (Validators s1). apply P.
Qed.
Lemma fresh_Reset ts s0 : hx s0 (Reset cfg ts) (fun _ s tr => Fresh3 s tr).
Proof. apply init_0. Qed.

Lemma q_OnTransaction t : kq (OnTransaction cfg t).
Proof. unfold OnTransaction. pose proof (q_addTransaction cfg (init cfg) q_init) as Ha. kq_go. Qed.
Lemma q_onTimeout h v f : kq (onTimeout cfg h v f).
Proof. unfold onTimeout. pose proof (q_sendChangeView (init cfg) q_init) as Hs. kq_go. Qed.
Lemma q_OnNewTransaction : kq (OnNewTransaction cfg).
Proof. unfold OnNewTransaction. pose proof q_onTimeout as Ht. kq_go. Qed.

Definition continues (e : event) : Prop := match e with EStart _ | EReset _ => False | _ => True end.
Lemma q_run_event e : continues e -> kq (run_event cfg e).
Proof.
  destruct e; cbn [run_event continues]; intros Hc; try contradiction.
  - apply q_OnReceive, q_init. - apply q_onTimeout. - apply q_OnTransaction. - apply q_OnNewTransaction.
Qed.

(* histories of one epoch: the trace since the initialisation *)
Inductive Epoch : nstate -> tr_t -> Prop :=
| EpochStart st ts sc st' tr : step cfg st (EStart ts) sc = Ok (st', tr) -> Epoch st' tr
| EpochReset st ts sc st' tr : step cfg st (EReset ts) sc = Ok (st', tr) -> Epoch st' tr
| EpochStep st g ev sc st' tr : Epoch st g -> continues ev -> step cfg st ev sc = Ok (st', tr) -> Epoch st' (g ++ tr).

Lemma step_hx st ev sc st' tr (Q : nstate -> tr_t -> Prop) :
  hx st (run_event cfg ev) (fun _ s n => Q s n) -> step cfg st ev sc = Ok (st', tr) -> Q st' tr.
Proof.
  intros H Hs. unfold step in Hs. specialize (H (mkM st sc []) eq_refl).
  destruct (run_event cfg ev (mkM st sc [])) as [[a m']| | | |]; try discriminate Hs.
  destruct H as (new & Ht & _ & HQ). destruct (script m'); [|discriminate Hs]. injection Hs as <- <-. cbn in Ht. rewrite Ht. exact HQ.
Qed.

Theorem epoch_inv st g : Epoch st g -> Fresh3 st g.
Proof.
  induction 1 as [st ts sc st' tr Hs|st ts sc st' tr Hs|st g ev sc st' tr HE IH Hc Hs].
  - apply (step_hx st (EStart ts) sc st' tr Fresh3 (fresh_Start ts st) Hs).
  - apply (step_hx st (EReset ts) sc st' tr Fresh3 (fresh_Reset ts st) Hs).
  - apply I3g_Fresh3. intros mi. exists (Validators st).
    apply (step_hx st ev sc st' tr (fun s n => I3g (Validators st) mi (g ++ n) s)); [|exact Hs].
    apply (q_run_event ev Hc (Validators st) mi g st). apply Fresh3_I3g. exact IH.
Qed.

(* an honest node signs at most one block per epoch *)
Theorem one_signature_per_epoch st g mi :
  Epoch st g -> KS mi g -> zlen (Validators st) <= 65536 -> (nsign g <= 1)%nat.
Proof. intros HE Hk Hs. destruct (epoch_inv st g HE mi Hk) as (_ & _ & _ & _ & A5). apply (o4 _ _ _ (A5 Hs)). Qed.
(* ... and once it has signed, its own Commit slot holds that commit for the rest of the epoch: it carries the node's index
   and key, its view is not ahead of the node's, and while its view is the current one it is a signature of the header *)
Theorem signed_commit_is_kept st g mi :
  Epoch st g -> KS mi g -> zlen (Validators st) <= 65536 -> nsign g <> 0%nat ->
  exists c, slot (CommitPayloads st) mi = Some c /\ MyIndex st = mi /\ p_idx c = mi /\ p_view c <= ViewNumber st /\
            sg_key (commit_sig c) = MyKey st /\
            (p_view c = ViewNumber st -> exists b, header st = Some b /\ sg_hash (commit_sig c) = block_hash b).
Proof.
  intros HE Hk Hs Hn. destruct (epoch_inv st g HE mi Hk) as (_ & A2 & _ & _ & A5).
  destruct (o2 _ _ _ (A5 Hs) Hn) as (c & C1 & C2 & C3 & C4 & C5). exists c. auto 10.
Qed.
End Api4.

(* a replayed history that starts an epoch and continues it is an epoch (for the non-vacuity examples) *)
Definition continuesb (e : event) : bool := match e with EStart _ | EReset _ => false | _ => true end.
Lemma replay_epoch cfg : forall h s sf l g, Epoch cfg s g -> forallb continuesb (map fst h) = true -> replay cfg s h = Some (sf, l) ->
  Epoch cfg sf (g ++ concat (map snd l)).
Proof.
  induction h as [|[ev sc] r IH]; intros s sf l g HE Hc; cbn.
  - intros [= <- <-]. cbn. rewrite app_nil_r. exact HE.
  - cbn in Hc. apply andb_true_iff in Hc. destruct Hc as [Hc1 Hc2].
    destruct (step cfg s ev sc) as [[s' tr]| | | |] eqn:Es; try discriminate.
    destruct (replay cfg s' r) as [[sf' l']|] eqn:Er; [|discriminate]. intros [= <- <-]. cbn [map snd concat].
    rewrite app_assoc. apply (IH s' sf' l' (g ++ tr)); [|exact Hc2|exact Er].
    eapply EpochStep; [exact HE| |exact Es]. destruct ev; try discriminate Hc1; exact I.
Qed.

(* a boolean check of a recorded history against the hypotheses of the theorems, and its soundness *)
Definition epoch_okb (cfg : config) (h : list (event * list call)) (mi : Z) : bool :=
  match h with
  | (EStart ts, sc) :: r =>
      match step cfg fresh_state (EStart ts) sc with
      | Ok (s1, tr1) =>
          match replay cfg s1 r with
          | Some (sf, l) =>
              let g := tr1 ++ concat (map snd l) in
              forallb continuesb (map fst r) &&
              forallb (fun sc => match snd sc with CKeyPair i _ => i =? mi | _ => true end) g &&
              (zlen (Validators sf) <=? 65536) && Nat.eqb (nsign g) 1
          | None => false end
      | _ => false end
  | _ => false end.
Lemma epoch_okb_sound cfg h mi : epoch_okb cfg h mi = true ->
  exists st g, Epoch cfg st g /\ KS mi g /\ zlen (Validators st) <= 65536 /\ nsign g = 1%nat.
Proof.
  unfold epoch_okb. destruct h as [|[ev sc] r]; [discriminate|]. destruct ev; try discriminate.
  destruct (step cfg fresh_state (EStart ts) sc) as [[s1 tr1]| | | |] eqn:Es; try discriminate.
  destruct (replay cfg s1 r) as [[sf l]|] eqn:Er; [|discriminate]. cbv zeta. intros H.
  apply andb_true_iff in H. destruct H as [H H4]. apply andb_true_iff in H. destruct H as [H H3]. apply andb_true_iff in H. destruct H as [H1 H2].
  exists sf, (tr1 ++ concat (map snd l)). split; [|split; [|split]].
  - apply (replay_epoch cfg r s1 sf l tr1); [eapply EpochStart; exact Es|exact H1|exact Er].
  - unfold KS. rewrite Forall_forall. rewrite forallb_forall in H2. intros [s c] Hin. specialize (H2 _ Hin). cbn in *.
    destruct c; try exact I. apply Z.eqb_eq in H2. exact H2.
  - apply Z.leb_le in H3. exact H3.
  - apply Nat.eqb_eq in H4. exact H4.
Qed.
