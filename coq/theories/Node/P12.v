(* C12 A backup that is given every requested transaction answers the proposal: the call of OnTransaction that completes
   the proposal's transaction set broadcasts a PrepareResponse, or a ChangeView when the completed block fails verification.
   For EVERY state that meets the property's conditions, every transaction, every script under which the node is a validator
   that is not watch-only ([Val]). *)
From DbftV Require Export P10.

Definition Answered (tr : tr_t) : Prop :=
  exists s p, In (s, CBroadcast p) tr /\ (p_type p = PrepareResponseT \/ p_type p = ChangeViewT).
Lemma Answered_l a b : Answered a -> Answered (a ++ b). Proof. intros (s & p & H & T). exists s, p. split; [apply in_or_app; auto|exact T]. Qed.
Lemma Answered_r a b : Answered b -> Answered (a ++ b). Proof. intros (s & p & H & T). exists s, p. split; [apply in_or_app; auto|exact T]. Qed.

Section P12.
Variable cfg : config.

(* the probes made before the transaction is accepted: state untouched, results determined by the state under Val *)
Definition Det {A} (s0 : nstate) (v : A) : A -> nstate -> tr_t -> Prop := fun r s tr => s = s0 /\ (Val tr -> r = v).
Lemma d_WatchOnly s0 : 0 <= MyIndex s0 -> hx s0 WatchOnly (Det s0 false).
Proof.
  intros H0. unfold WatchOnly. apply x_get. destruct (MyIndex s0 <? 0) eqn:E; [apply Z.ltb_lt in E; lia|].
  unfold ask_watchonly. apply x_ask_last. intros wo c Hc. apply sel_WatchOnly in Hc. subst c. split; [reflexivity|]. intros Hv.
  apply Forall_cons_iff in Hv. destruct Hv as [Hv _]. exact Hv.
Qed.
Lemma slot_nth tbl i x : 0 <= i -> nth_chk tbl (Z.to_nat i) = Some x -> slot tbl i = x.
Proof. intros Hi Hx. unfold slot. destruct (i <? 0) eqn:E; [apply Z.ltb_lt in E; lia|]. rewrite Hx. reflexivity. Qed.
Lemma d_own_slot tbl s0 : 0 <= MyIndex s0 -> hx s0 (own_slot tbl) (Det s0 (isSome (slot (tbl s0) (MyIndex s0)))).
Proof.
  intros H0. unfold own_slot. eapply x_call; [apply (d_WatchOnly s0 H0)|]. intros wo s1 n1 [-> Hw]. destruct wo.
  - apply x_ret. split; [reflexivity|]. intros Hv. rewrite app_nil_r in Hv. discriminate (Hw Hv).
  - apply x_get. apply x_tget. intros x Hi Hx. apply x_ret. split; [reflexivity|]. intros _. rewrite (slot_nth _ _ _ Hi Hx). reflexivity.
Qed.
Definition vc_of (s : nstate) : bool := match slot (ChangeViewPayloads s) (MyIndex s) with Some p => cv_newview p >? ViewNumber s | None => false end.
Lemma d_ViewChanging s0 : 0 <= MyIndex s0 -> hx s0 ViewChanging (Det s0 (vc_of s0)).
Proof.
  intros H0. unfold ViewChanging. eapply x_call; [apply (d_WatchOnly s0 H0)|]. intros wo s1 n1 [-> Hw]. destruct wo.
  - apply x_ret. split; [reflexivity|]. intros Hv. rewrite app_nil_r in Hv. discriminate (Hw Hv).
  - apply x_get. apply x_tget. intros x Hi Hx. apply x_ret. split; [reflexivity|]. intros _. unfold vc_of. rewrite (slot_nth _ _ _ Hi Hx). reflexivity.
Qed.
Lemma d_RSOR s0 : hx s0 RequestSentOrReceived (fun r s tr => s = s0 /\ tr = [] /\ (0 <= PrimaryIndex s0 -> r = isSome (slot (PreparationPayloads s0) (PrimaryIndex s0)))).
Proof.
  unfold RequestSentOrReceived. apply x_get. apply x_tget. intros x Hi Hx. apply x_ret. split; [reflexivity|split; [reflexivity|]]. intros _.
  rewrite (slot_nth _ _ _ Hi Hx). reflexivity.
Qed.

Lemma ty_makePrepareResponse s0 : hx s0 makePrepareResponse (fun m s _ => p_type m = PrepareResponseT /\ MyIndex s = MyIndex s0).
Proof. unfold makePrepareResponse. xs. split; reflexivity. Qed.
Lemma ty_makeChangeView ts r s0 : hx s0 (makeChangeView ts r) (fun m s _ => p_type m = ChangeViewT).
Proof. unfold makeChangeView. xs. reflexivity. Qed.
Lemma Answered_bcast (pre : tr_t) s m i post : p_type m = PrepareResponseT \/ p_type m = ChangeViewT ->
  Answered (pre ++ (s, CBroadcast (m <| p_idx := i |>)) :: post).
Proof. intros Ty. exists s, (m <| p_idx := i |>). split; [apply in_or_app; right; left; reflexivity|]. rewrite p_type_set_idx. exact Ty. Qed.

(* the answer once the block is complete: response, or change view when the block check fails *)
Lemma answer_tail t s1 : 0 <= MyIndex s1 -> IsPrimary s1 = false -> hasAllTransactions (s1 <| Transactions := tx_put (Transactions s1) (tx_hash t) t |>) = true ->
  hx s1 (addTransaction cfg (init cfg) t) (fun _ _ tr => Val tr -> Answered tr).
Proof.
  intros H0 Hp Ha. unfold addTransaction. apply x_modify. apply x_get. rewrite Ha. cbn [negb].
  replace (IsPrimary (s1 <| Transactions := tx_put (Transactions s1) (tx_hash t) t |>)) with false by (symmetry; exact Hp).
  match goal with |- hx ?st _ _ => set (s2 := st) end. assert (H2 : 0 <= MyIndex s2) by exact H0.
  eapply x_call; [apply (d_WatchOnly s2 H2)|]. intros wo s3 n3 [-> Hw]. destruct wo.
  { apply x_ret. intros Hv. rewrite app_nil_r in Hv. discriminate (Hw Hv). }
  unfold createAndCheckBlock. apply x_assoc. apply x_get. apply x_assoc.
  eapply x_call with (Qx := fun _ s _ => MyIndex s = MyIndex s2).
  { destruct (amev_on cfg s2).
    - apply x_st; [apply e_CreatePreBlock|]. intros b s4 n4 M4. apply x_ask_last. intros ok c Hc. exact M4.
    - apply x_st; [apply e_CreateBlock|]. intros b s4 n4 M4. apply x_ask_last. intros ok c Hc. exact M4. }
  intros ok s4 n4 M4. destruct ok.
  - (* verified: respond *)
    apply x_ret_bind. cbn [negb].
    apply x_wb; [apply wb_st, e_verifyPreCommits|]. intros [] s5 n5. apply x_wb; [apply wb_st, e_extendTimer|]. intros [] s6 n6.
    unfold sendPrepareResponse. apply x_assoc. eapply x_call; [apply ty_makePrepareResponse|]. intros m s7 n7 [Ty _].
    apply x_assoc. apply x_wb; [apply wb_st, e_StopTxFlow|]. intros [] s8 n8.
    unfold broadcast. apply x_assoc. apply x_get. unfold ask_unit. apply x_ask. intros [] c Hc. apply sel_Broadcast in Hc. subst c.
    eapply x_conseq; [apply (wb_st _ (e_checkPrepare cfg))|]. cbn. intros _ _ n _ _.
    match goal with |- Answered ?l => replace l with ((n3 ++ n4 ++ n5 ++ n6 ++ n7 ++ n8) ++ (s8, CBroadcast (m <| p_idx := u16 (MyIndex s8) |>)) :: n) by (rewrite <- ?app_assoc; reflexivity) end.
    apply Answered_bcast. left. exact Ty.
  - (* the block check failed: ask for a view change *)
    apply x_assoc. unfold sendChangeView. apply x_assoc.
    eapply x_call; [apply (d_WatchOnly s4); rewrite M4; exact H2|]. intros wo s5 n5 [-> Hw5]. destruct wo.
    { apply x_ret_bind. apply x_ret_bind. cbn [negb]. apply x_ret. intros Hv. exfalso.
      apply Val_app in Hv. destruct Hv as [_ Hv]. apply Val_app in Hv. destruct Hv as [_ Hv]. apply Val_app in Hv. destruct Hv as [Hv _]. discriminate (Hw5 Hv). }
    apply x_assoc. apply x_get. cbv zeta. apply x_assoc. apply x_wb; [apply wb_st, e_changeTimer|]. intros [] s6 n6.
    change (CVTxInvalid =? CVTimeout) with false. cbn [andb]. apply x_assoc. unfold ask_now at 1. apply x_ask. intros tm c Hc.
    apply x_assoc. eapply x_call; [apply ty_makeChangeView|]. intros m s7 n7 Ty.
    apply x_assoc. apply x_wb; [apply wb_st, e_StopTxFlow|]. intros [] s8 n8. apply x_assoc.
    unfold broadcast. apply x_assoc. apply x_get. unfold ask_unit. apply x_ask. intros [] c2 Hc2. apply sel_Broadcast in Hc2. subst c2.
    eapply x_conseq with (Q' := fun _ _ _ => True).
    { apply x_wb; [apply wb_J, (j_checkChangeView (init cfg) (j_init cfg))|]. intros [] s9 n9. apply x_ret_bind. cbn [negb]. apply x_ret. exact I. }
    cbn. intros _ _ n _ _.
    match goal with |- Answered ?l => replace l with ((n3 ++ n4 ++ n5 ++ n6 ++ (s6, c) :: n7 ++ n8) ++ (s8, CBroadcast (m <| p_idx := u16 (MyIndex s8) |>)) :: n) by (rewrite <- ?app_assoc; cbn; rewrite <- ?app_assoc; reflexivity) end.
    apply Answered_bcast. right. exact Ty.
Qed.

Lemma index_of_present h l : In h l -> 0 <= index_of h l.
Proof.
  unfold index_of. intros Hin. assert (G : forall i, 0 <= i -> 0 <= (fix go (i : Z) (l : list hash) := match l with [] => -1 | x :: t => if hash_eqb x h then i else go (i + 1) t end) i l).
  { induction l as [|x r IH]; intros i Hi; [destruct Hin|]. destruct (hash_eqb x h) eqn:E; [exact Hi|]. apply IH; [|lia].
    destruct Hin as [->|Hin]; [rewrite hash_eqb_refl in E; discriminate|exact Hin]. }
  apply G. lia.
Qed.
Lemma Val_pre a b : Val (a ++ b) -> Val a. Proof. intros H. apply Val_app in H. apply H. Qed.

Theorem last_requested_transaction_is_answered t s0 :
  IsBackup s0 = true -> vc_of s0 = false -> 0 <= PrimaryIndex s0 ->
  isSome (slot (PreparationPayloads s0) (PrimaryIndex s0)) = true ->
  slot (PreparationPayloads s0) (MyIndex s0) = None -> slot (PreCommitPayloads s0) (MyIndex s0) = None -> slot (CommitPayloads s0) (MyIndex s0) = None ->
  blockProcessed s0 = false -> In (tx_hash t) (MissingTransactions s0) ->
  hasAllTransactions (s0 <| Transactions := tx_put (Transactions s0) (tx_hash t) t |>) = true ->
  hx s0 (OnTransaction cfg t) (fun _ _ tr => Val tr -> Answered tr).
Proof.
  intros Hb Hvc Hpi Hreq Hr1 Hr2 Hr3 Hbp Hin Hall.
  assert (H0 : 0 <= MyIndex s0 /\ IsPrimary s0 = false).
  { unfold IsBackup in Hb. apply andb_true_iff in Hb. destruct Hb as [A B]. rewrite Z.geb_leb in A. apply Z.leb_le in A. apply negb_true_iff in B. auto. }
  destruct H0 as [H0 Hnp].
  unfold OnTransaction. apply x_get. rewrite Hb. cbn [negb].
  unfold NotAcceptingPayloadsDueToViewChanging. apply x_assoc.
  eapply x_call; [apply (d_ViewChanging s0 H0)|]. intros vc s1 n1 [-> Hv1]. apply x_assoc. apply x_get. apply x_ret_bind.
  destruct (vc && _) eqn:Ena.
  { apply x_ret. intros Hv. exfalso. rewrite app_nil_r in Hv. rewrite (Hv1 Hv), Hvc in Ena. discriminate Ena. }
  eapply x_call; [apply d_RSOR|]. intros rs s1 n2 (-> & -> & Hrs). rewrite (Hrs Hpi), Hreq. cbn [negb].
  eapply x_call; [apply (d_own_slot PreparationPayloads s0 H0)|]. intros x1 s1 n3 [-> Hx1]. destruct x1.
  { apply x_ret. intros Hv. exfalso. apply Val_app in Hv. destruct Hv as [_ Hv]. cbn in Hv. apply Val_pre in Hv. specialize (Hx1 Hv). rewrite Hr1 in Hx1. discriminate Hx1. }
  eapply x_call; [apply (d_own_slot PreCommitPayloads s0 H0)|]. intros x2 s1 n4 [-> Hx2]. destruct x2.
  { apply x_ret. intros Hv. exfalso. apply Val_app in Hv. destruct Hv as [_ Hv]. cbn in Hv. apply Val_app in Hv. destruct Hv as [_ Hv]. apply Val_pre in Hv. specialize (Hx2 Hv). rewrite Hr2 in Hx2. discriminate Hx2. }
  eapply x_call; [apply (d_own_slot CommitPayloads s0 H0)|]. intros x3 s1 n5 [-> Hx3]. destruct x3.
  { apply x_ret. intros Hv. exfalso. apply Val_app in Hv. destruct Hv as [_ Hv]. cbn in Hv. apply Val_app in Hv. destruct Hv as [_ Hv]. apply Val_app in Hv. destruct Hv as [_ Hv]. apply Val_pre in Hv.
    specialize (Hx3 Hv). rewrite Hr3 in Hx3. discriminate Hx3. }
  apply x_get. rewrite Hbp. cbn [orb].
  destruct (zlen (MissingTransactions s0) =? 0) eqn:Ez.
  { exfalso. apply Z.eqb_eq in Ez. unfold zlen in Ez. destruct (MissingTransactions s0); [destruct Hin|cbn in Ez; lia]. }
  cbv zeta. pose proof (index_of_present _ _ Hin) as Hidx. destruct (index_of (tx_hash t) (MissingTransactions s0) <? 0) eqn:Ei; [apply Z.ltb_lt in Ei; lia|].
  apply x_modify.
  eapply x_conseq; [apply answer_tail; [exact H0|exact Hnp|exact Hall]|]. cbn. intros _ _ n H Hv.
  apply Answered_r. cbn. apply Answered_r, Answered_r, Answered_r. apply H.
  apply Val_app in Hv. destruct Hv as [_ Hv]. cbn in Hv. repeat (apply Val_app in Hv; destruct Hv as [_ Hv]). exact Hv.
Qed.
End P12.
