(* C03 (commit lock included) / the OneSign premise of C01, "an honest node signs at most one block per height": in every history that starts
   with Start or Reset and continues with any other API calls, the node asks the application for at most one block
   signature, provided the application reports the same validator index in all key-pair callbacks of that history and the
   validator list has at most 2^16 entries (the payload's index field is 16 bits wide).
   The number of signatures so far is a ghost of the history (nsign of the trace); the invariant Sg ties it to the node's own
   Commit slot: empty slot -> nothing signed; something signed -> the slot holds that commit, which still verifies against
   the header while its view is current, so that neither the re-verification of stored commits nor a view change nor a
   restart of the view removes it. *)
From DbftV Require Export P02.

Definition is_sign (c : call) : bool := match c with CSign _ => true | _ => false end.
Definition nsign (tr : tr_t) : nat := length (filter (fun sc => is_sign (snd sc)) tr).
Lemma nsign_app a b : nsign (a ++ b) = (nsign a + nsign b)%nat.
Proof. unfold nsign. rewrite filter_app, app_length. reflexivity. Qed.
Definition KS (mi : Z) (tr : tr_t) : Prop :=
  Forall (fun sc => match snd sc with CKeyPair i _ => i = mi | CWatchOnly b => b = false | _ => True end) tr.
Lemma KS_app mi a b : KS mi (a ++ b) -> KS mi a /\ KS mi b. Proof. apply Forall_app. Qed.
Definition NoSign (s : nstate) (c : call) : Prop := is_sign c = false.
Lemma nosign_nsign tr : trG NoSign tr -> nsign tr = 0%nat.
Proof.
  unfold trG, nsign, NoSign. induction 1 as [|[s c] tr H _ IH]; [reflexivity|]. cbn in *. rewrite H. exact IH.
Qed.

(* the Commit the node built at its first signature request of the history: a ghost of the trace *)
Fixpoint signed_commit (g : tr_t) : option payload :=
  match g with
  | [] => None
  | (s, c) :: r => match c with
                   | CSign h => Some (mk_payload s (B0 (BCommit (mkSig (MyKey s) h))))
                   | _ => signed_commit r end
  end.
Lemma signed_commit_none g : nsign g = 0%nat -> signed_commit g = None.
Proof. induction g as [|[s c] r IH]; [reflexivity|]. destruct c; cbn; try exact IH. discriminate. Qed.
Lemma signed_commit_app g tr : nsign tr = 0%nat -> signed_commit (g ++ tr) = signed_commit g.
Proof.
  intros H. induction g as [|[s c] r IH]; [apply signed_commit_none; exact H|]. destruct c; cbn; try exact IH. reflexivity.
Qed.
Lemma signed_commit_first g s h r : nsign g = 0%nat -> signed_commit (g ++ (s, CSign h) :: r) = Some (mk_payload s (B0 (BCommit (mkSig (MyKey s) h)))).
Proof. induction g as [|[s' c] g' IH]; [reflexivity|]. destruct c; cbn; try exact IH. discriminate. Qed.

Definition own (mi : Z) (s : nstate) : option payload := slot (CommitPayloads s) mi.
Record Sg (mi : Z) (k : nat) (oc : option payload) (s : nstate) : Prop := {
  o1 : own mi s = None -> k = 0%nat;
  o2 : k <> 0%nat -> exists c b, oc = Some c /\ own mi s = Some c /\ p_idx c = mi /\ p_view c = ViewNumber s /\ sg_key (commit_sig c) = MyKey s /\
         header s = Some b /\ sg_hash (commit_sig c) = block_hash b;
  o4 : (k <= 1)%nat }.
Definition I3 (vs : list key) (mi : Z) (k : nat) (oc : option payload) (s : nstate) : Prop :=
  Validators s = vs /\ MyIndex s = mi /\ 0 <= ViewNumber s /\ (0 <= mi -> nth_chk vs (Z.to_nat mi) = Some (MyKey s)) /\
  (zlen vs <= 65536 -> Sg mi k oc s).
Definition I3v (vs : list key) (mi vn : Z) (k : nat) (oc : option payload) (s : nstate) : Prop := I3 vs mi k oc s /\ ViewNumber s = vn.

(* what the invariant reads *)
Definition Same3 (a b : nstate) : Prop :=
  Validators b = Validators a /\ MyIndex b = MyIndex a /\ ViewNumber b = ViewNumber a /\ MyKey b = MyKey a /\
  CommitPayloads b = CommitPayloads a /\ header b = header a.
Lemma i3_same vs mi k oc a b : Same3 a b -> I3 vs mi k oc a -> I3 vs mi k oc b.
Proof.
  intros (E1 & E2 & E3 & E4 & E5 & E6) (A1 & A2 & A3 & A4 & A5). unfold I3. rewrite E1, E2, ?E3, E4.
  split; [exact A1|split; [exact A2|split; [exact A3|split; [exact A4|]]]]. intros Hs. destruct (A5 Hs) as [P1 P2 P4].
  constructor; unfold own in *; rewrite ?E3, ?E4, ?E5, ?E6; assumption.
Qed.
(* nothing signed yet: the own slot and the header are free *)
Definition Same3z (a b : nstate) : Prop :=
  Validators b = Validators a /\ MyIndex b = MyIndex a /\ ViewNumber b = ViewNumber a /\ MyKey b = MyKey a.
Lemma i3_zero vs mi oc a b : Same3z a b -> I3 vs mi 0 oc a -> I3 vs mi 0 oc b.
Proof.
  intros (E1 & E2 & E3 & E4) (A1 & A2 & A3 & A4 & A5). unfold I3. rewrite E1, E2, ?E3, E4.
  split; [exact A1|split; [exact A2|split; [exact A3|split; [exact A4|]]]]. intros _.
  constructor; [reflexivity|intros H; exfalso; apply H; reflexivity|auto].
Qed.

(* ---------------- level 0: functions that ask for no signature ----------------
   the usual invariant judgement, with the view frozen as a parameter and a switch: with the switch off the invariant is
   trivial, which gives the frame facts of a function when the environment condition KS has already failed *)
Definition I3s (on : bool) (vs : list key) (mi vn : Z) (k : nat) (oc : option payload) (s : nstate) : Prop := if on then I3v vs mi vn k oc s else True.
Notation k3 x := (forall on vs mi vn k oc, kp (I3s on vs mi vn k oc) NoSign x).
Ltac leaf3 :=
  idtac; match goal with
  | H : I3s ?on _ _ _ _ _ ?s |- I3s _ _ _ _ _ _ _ =>
      destruct on; [|exact I];
      let HI := fresh in let HV := fresh in destruct H as [HI HV];
      repeat match goal with |- context[if ?b then _ else _] => destruct b end;
      (split; [apply (i3_same _ _ _ _ s); [unfold Same3; cbn; repeat split; reflexivity|exact HI]|exact HV])
  | H : _ = Some _ |- NoSign _ ?c => destruct c; try reflexivity; cbn in H; discriminate H
  end.
Ltac k3_go := let on := fresh "on" in let vs := fresh "vs" in let mi := fresh "mi" in let vn := fresh "vn" in let k := fresh "k" in let oc := fresh "oc" in
  intros on vs mi vn k oc; kp_go leaf3.

(* ---------------- level 1: the judgement over the history so far ---------------- *)
Definition I3g (vs : list key) (mi : Z) (g : tr_t) (s : nstate) : Prop := KS mi g -> I3 vs mi (nsign g) (signed_commit g) s.
Definition kq {A} (x : M A) : Prop := forall vs mi g0 s0, I3g vs mi g0 s0 -> hx s0 x (fun _ s tr => I3g vs mi (g0 ++ tr) s).

Lemma KS_dec mi g : {KS mi g} + {~ KS mi g}.
Proof. apply Forall_dec. intros [s c]. cbn. destruct c; try (left; exact I); [apply Z.eq_dec|apply Bool.bool_dec]. Qed.

Lemma kq_ret {A} (a : A) : kq (ret a).
Proof. intros vs mi g0 s0 H. apply x_ret. rewrite app_nil_r. exact H. Qed.
Lemma kq_bind {A B} (x : M A) (f : A -> M B) : kq x -> (forall a, kq (f a)) -> kq (bind x f).
Proof.
  intros Hx Hf vs mi g0 s0 H0. eapply x_call; [apply (Hx vs mi g0 s0 H0)|]. intros a s1 n1 P1. cbn beta.
  eapply x_conseq; [apply (Hf a vs mi (g0 ++ n1) s1 P1)|]. cbn. intros b s n P. rewrite app_assoc. exact P.
Qed.
Lemma kq_assoc {A B C} (x : M A) (g : A -> M B) (f : B -> M C) : kq (bind x (fun a => bind (g a) f)) -> kq (bind (bind x g) f).
Proof. intros H vs mi g0 s0 H0. apply x_assoc. apply H. exact H0. Qed.
Lemma kq_ret_bind {A B} (a : A) (f : A -> M B) : kq (f a) -> kq (bind (ret a) f).
Proof. intros H vs mi g0 s0 H0. apply x_ret_bind. apply H. exact H0. Qed.
Lemma kq_get_bind {B} (f : nstate -> M B) : (forall s, kq (f s)) -> kq (bind get f).
Proof. intros H vs mi g0 s0 H0. apply x_get. apply H. exact H0. Qed.
Lemma kq_panic {A} : kq (@panic A). Proof. intros vs mi g0 s0 _. apply x_panic. Qed.
Lemma kq_fatal {A} : kq (@fatal A). Proof. intros vs mi g0 s0 _. apply x_fatal. Qed.
Lemma kq_oof {A} : kq (@out_of_fuel A). Proof. intros vs mi g0 s0 _. apply x_oof. Qed.
Lemma kq_forM {T} (l : list T) (f : T -> M unit) : (forall a, kq (f a)) -> kq (forM l f).
Proof. intros Hf. induction l as [|a l IH]; cbn [forM]; [apply kq_ret|]. apply kq_bind; auto. Qed.
(* a function of level 0 *)
Lemma kq_of_k3 {A} (x : M A) : k3 x -> kq x.
Proof.
  intros H vs mi g0 s0 H0. destruct (KS_dec mi g0) as [Hk|Hk].
  - eapply x_conseq; [apply (H true vs mi (ViewNumber s0) (nsign g0) (signed_commit g0) s0); split; [exact (H0 Hk)|reflexivity]|].
    cbn. intros _ s n [P T] _. rewrite nsign_app, (nosign_nsign _ T), Nat.add_0_r, (signed_commit_app _ _ (nosign_nsign _ T)). apply P.
  - eapply x_conseq; [apply (H false vs mi 0 0%nat None s0); exact I|].
    cbn. intros _ s n _ Hk2. exfalso. apply Hk. apply (KS_app _ _ _ Hk2).
Qed.
(* ... called inside a symbolic execution: its frame, and the view it leaves untouched *)
Lemma x_k3 {A B} vs mi g0 s0 (x : M A) (f : A -> M B) Q : k3 x -> I3g vs mi g0 s0 ->
  (forall a s1 n1, I3g vs mi (g0 ++ n1) s1 -> (KS mi g0 -> ViewNumber s1 = ViewNumber s0) -> nsign n1 = 0%nat ->
     hx s1 (f a) (fun b s n2 => Q b s (n1 ++ n2))) -> hx s0 (bind x f) Q.
Proof.
  intros H H0 Hf. destruct (KS_dec mi g0) as [Hk|Hk].
  - eapply x_call; [apply (H true vs mi (ViewNumber s0) (nsign g0) (signed_commit g0) s0); split; [exact (H0 Hk)|reflexivity]|].
    intros a s1 n1 [P T]. apply Hf.
    + intros _. rewrite nsign_app, (nosign_nsign _ T), Nat.add_0_r, (signed_commit_app _ _ (nosign_nsign _ T)). apply P.
    + intros _. apply P.
    + apply (nosign_nsign _ T).
  - eapply x_call; [apply (H false vs mi 0 0%nat None s0); exact I|].
    intros a s1 n1 [_ T]. apply Hf.
    + intros Hk2. exfalso. apply Hk. apply (KS_app _ _ _ Hk2).
    + intros Hk2. contradiction.
    + apply (nosign_nsign _ T).
Qed.

Create HintDb kqdb discriminated.
Ltac kq_go :=
  lazymatch goal with
  | |- kq (bind (bind _ _) _) => apply kq_assoc; kq_go
  | |- kq (bind (ret _) _) => apply kq_ret_bind; kq_go
  | |- kq (bind get _) => apply kq_get_bind; intro; kq_go
  | |- kq (bind (if ?b then _ else _) _) => destruct b; kq_go
  | |- kq (bind (match ?o with Some _ => _ | None => _ end) _) => destruct o; kq_go
  | |- kq (bind _ _) => apply kq_bind; [ | intro]; kq_go
  | |- kq (ret _) => apply kq_ret
  | |- kq panic => apply kq_panic
  | |- kq fatal => apply kq_fatal
  | |- kq out_of_fuel => apply kq_oof
  | |- kq (forM _ _) => apply kq_forM; intro; kq_go
  | |- kq (if ?b then _ else _) => destruct b; kq_go
  | |- kq (match ?o with Some _ => _ | None => _ end) => destruct o; kq_go
  | |- kq (match ?o with nil => _ | cons _ _ => _ end) => destruct o; kq_go
  | |- kq (match ?o with (_, _) => _ end) => destruct o; kq_go
  | |- kq (let _ := _ in _) => cbv zeta; kq_go
  | |- kq _ => first [ solve [eauto 3 with kqdb] | solve [apply kq_of_k3; first [solve [eauto 3 with kpdb] | k3_go]] | idtac ]
  end.

(* ---------------- level 0: the helpers ---------------- *)
Section Auto3.
Variable cfg : config.
Lemma t_WatchOnly : k3 WatchOnly. Proof. unfold WatchOnly. k3_go. Qed.
Lemma t_RSOR : k3 RequestSentOrReceived. Proof. unfold RequestSentOrReceived. k3_go. Qed.
Hint Resolve t_WatchOnly t_RSOR : kpdb.
Lemma t_own_slot tbl : k3 (own_slot tbl). Proof. unfold own_slot. k3_go. Qed.
Lemma t_ResponseSent : k3 ResponseSent. Proof. apply t_own_slot. Qed.
Lemma t_PreCommitSent : k3 PreCommitSent. Proof. apply t_own_slot. Qed.
Lemma t_CommitSent : k3 CommitSent. Proof. apply t_own_slot. Qed.
Lemma t_ViewChanging : k3 ViewChanging. Proof. unfold ViewChanging. k3_go. Qed.
Hint Resolve t_own_slot t_ResponseSent t_PreCommitSent t_CommitSent t_ViewChanging : kpdb.
Lemma t_NotAccepting : k3 NotAcceptingPayloadsDueToViewChanging. Proof. unfold NotAcceptingPayloadsDueToViewChanging. k3_go. Qed.
Lemma t_subscribe : k3 subscribeForTransactions. Proof. unfold subscribeForTransactions. k3_go. Qed.
Lemma t_unsubscribe : k3 unsubscribeFromTransactions. Proof. unfold unsubscribeFromTransactions. k3_go. Qed.
Lemma t_StopTxFlow : k3 StopTxFlow. Proof. unfold StopTxFlow. k3_go. Qed.
Lemma t_changeTimer d : k3 (changeTimer d). Proof. unfold changeTimer. k3_go. Qed.
Hint Resolve t_NotAccepting t_subscribe t_unsubscribe t_StopTxFlow t_changeTimer : kpdb.
Lemma t_getTimestamp : k3 (getTimestamp cfg). Proof. unfold getTimestamp. k3_go. Qed.
Hint Resolve t_getTimestamp : kpdb.
Lemma t_Fill f : k3 (Fill cfg f). Proof. unfold Fill. k3_go. Qed.
Lemma t_MakePreHeader : k3 MakePreHeader. Proof. unfold MakePreHeader. k3_go. Qed.
Hint Resolve t_Fill t_MakePreHeader : kpdb.
Lemma t_CreatePreBlock : k3 CreatePreBlock. Proof. unfold CreatePreBlock. k3_go. Qed.
Lemma t_broadcast m : k3 (broadcast m). Proof. unfold broadcast. k3_go. Qed.
Lemma t_makePrepareRequest f : k3 (makePrepareRequest cfg f). Proof. unfold makePrepareRequest. k3_go. Qed.
Lemma t_rtt t : k3 (rtt_addTime t). Proof. unfold rtt_addTime. k3_go. Qed.
Hint Resolve t_CreatePreBlock t_broadcast t_makePrepareRequest t_rtt : kpdb.
Lemma t_makeRecoveryMessage : k3 makeRecoveryMessage. Proof. unfold makeRecoveryMessage. k3_go. Qed.
Hint Resolve t_makeRecoveryMessage : kpdb.
Lemma t_sendRecoveryMessage : k3 sendRecoveryMessage. Proof. unfold sendRecoveryMessage. k3_go. Qed.
Lemma t_processMissingTx : k3 processMissingTx. Proof. unfold processMissingTx. k3_go. Qed.
Hint Resolve t_sendRecoveryMessage t_processMissingTx : kpdb.
Lemma t_sendRecoveryRequest : k3 sendRecoveryRequest. Proof. unfold sendRecoveryRequest. k3_go. Qed.
Lemma t_makeChangeView ts r : k3 (makeChangeView ts r). Proof. unfold makeChangeView. k3_go. Qed.
Lemma t_makePrepareResponse : k3 makePrepareResponse. Proof. unfold makePrepareResponse. k3_go. Qed.
Hint Resolve t_sendRecoveryRequest t_makeChangeView t_makePrepareResponse : kpdb.
Lemma t_sendPrepareResponse : k3 sendPrepareResponse. Proof. unfold sendPrepareResponse. k3_go. Qed.
Lemma t_makePreCommit : k3 makePreCommit. Proof. unfold makePreCommit. k3_go. Qed.
Hint Resolve t_sendPrepareResponse t_makePreCommit : kpdb.
Lemma t_sendPreCommit : k3 sendPreCommit. Proof. unfold sendPreCommit. k3_go. Qed.
Lemma t_verifyPreCommits : k3 verifyPreCommitPayloadsAgainstPreBlock. Proof. unfold verifyPreCommitPayloadsAgainstPreBlock. k3_go. Qed.
Hint Resolve t_sendPreCommit t_verifyPreCommits : kpdb.
Lemma t_extendTimer c : k3 (extendTimer cfg c). Proof. unfold extendTimer. k3_go. Qed.
Lemma t_GetPrimaryIndex s v : k3 (GetPrimaryIndex s v). Proof. unfold GetPrimaryIndex. k3_go. Qed.
Hint Resolve t_extendTimer t_GetPrimaryIndex : kpdb.
Lemma t_onRecoveryRequest m : k3 (onRecoveryRequest cfg m). Proof. unfold onRecoveryRequest. k3_go. Qed.
Lemma t_cache_addMessage m : k3 (cache_addMessage m). Proof. unfold cache_addMessage. k3_go. Qed.
Lemma t_ask_recv m : k3 (ask_recv m). Proof. unfold ask_recv. k3_go. Qed.
End Auto3.

(* ---------------- level 0: the functions that touch the header or the Commit table ---------------- *)
Lemma i3_header vs mi k oc s s' :
  I3 vs mi k oc s -> Validators s' = Validators s -> MyIndex s' = MyIndex s -> ViewNumber s' = ViewNumber s -> MyKey s' = MyKey s ->
  CommitPayloads s' = CommitPayloads s ->
  (forall b, header s = Some b -> exists b', header s' = Some b' /\ block_hash b' = block_hash b) -> I3 vs mi k oc s'.
Proof.
  intros (A1 & A2 & A3 & A4 & A5) E1 E2 E3 E4 E5 Hh. unfold I3. rewrite E1, E2, ?E3, E4.
  split; [exact A1|split; [exact A2|split; [exact A3|split; [exact A4|]]]]. intros Hs. destruct (A5 Hs) as [P1 P2 P4].
  constructor; unfold own in *; rewrite ?E3, ?E4, ?E5; try assumption.
  intros Hk. destruct (P2 Hk) as (c & b & C0 & C1 & C2 & C3 & C4 & Hb & Hsg). destruct (Hh b Hb) as (b' & Hb' & Eh).
  exists c, b'. repeat (split; [assumption|]). congruence.
Qed.
Lemma i3_unsigned vs mi k oc s s' : I3 vs mi k oc s -> (zlen vs <= 65536 -> k = 0%nat) -> Same3z s s' -> I3 vs mi k oc s'.
Proof.
  intros (A1 & A2 & A3 & A4 & A5) Hk (E1 & E2 & E3 & E4). unfold I3. rewrite E1, E2, ?E3, E4.
  split; [exact A1|split; [exact A2|split; [exact A3|split; [exact A4|]]]]. intros Hs. rewrite (Hk Hs).
  constructor; [reflexivity|intros H; exfalso; apply H; reflexivity|auto].
Qed.
Lemma i3_k0 vs mi k oc s : I3 vs mi k oc s -> own mi s = None -> zlen vs <= 65536 -> k = 0%nat.
Proof. intros (_ & _ & _ & _ & A5) Ho Hs. apply (o1 _ _ _ _ (A5 Hs) Ho). Qed.
Lemma i3_commit_other vs mi k oc s l i v : I3 vs mi k oc s -> set_chk (CommitPayloads s) (Z.to_nat i) v = Some l -> 0 <= i -> i <> mi ->
  I3 vs mi k oc (s <| CommitPayloads := l |>).
Proof.
  intros (A1 & A2 & A3 & A4 & A5) Hl Hi Hne. unfold I3. cbn [Validators MyIndex ViewNumber MyKey set].
  split; [exact A1|split; [exact A2|split; [exact A3|split; [exact A4|]]]]. intros Hs. destruct (A5 Hs) as [P1 P2 P4].
  constructor; unfold own in *; cbn [CommitPayloads ViewNumber MyKey header set]; rewrite ?(slot_set_other _ _ _ _ _ Hl Hi Hne); assumption.
Qed.

Section Manual3.
Variable cfg : config.
Hint Resolve t_WatchOnly t_RSOR t_own_slot t_ResponseSent t_PreCommitSent t_CommitSent t_ViewChanging t_NotAccepting t_subscribe t_unsubscribe
  t_StopTxFlow t_changeTimer t_getTimestamp t_Fill t_MakePreHeader t_CreatePreBlock t_broadcast t_makePrepareRequest t_rtt
  t_makeRecoveryMessage t_sendRecoveryMessage t_processMissingTx t_sendRecoveryRequest t_makeChangeView t_makePrepareResponse
  t_sendPrepareResponse t_makePreCommit t_sendPreCommit t_verifyPreCommits t_extendTimer t_GetPrimaryIndex t_onRecoveryRequest
  t_cache_addMessage t_ask_recv : kpdb.
Ltac trs4 := rewrite ?app_nil_r; repeat first [ assumption | apply trG_nil | apply trG_app | apply trG_cons; [first [assumption|reflexivity]|] ].
Ltac nosel := match goal with H : _ = Some _ |- NoSign _ ?c => destruct c; try reflexivity; cbn in H; discriminate H end.

(* MakeHeader: builds the header only when there is none; the Commit table is left alone *)
Lemma mh3_spec on vs mi vn k oc s0 : I3s on vs mi vn k oc s0 ->
  hx s0 (MakeHeader cfg) (fun r s tr => I3s on vs mi vn k oc s /\ trG NoSign tr /\ CommitPayloads s = CommitPayloads s0 /\
                                        Validators s = Validators s0 /\ (forall b, r = Some b -> header s = Some b)).
Proof.
  intros H0. unfold MakeHeader. apply x_get. destruct (header s0) as [b0|] eqn:Eh.
  { apply x_ret. split; [exact H0|split; [apply trG_nil|split; [reflexivity|split; [reflexivity|intros b [= <-]; exact Eh]]]]. }
  unfold RequestSentOrReceived. apply x_assoc. apply x_get. apply x_assoc. apply x_tget. intros x Hi Hx. apply x_ret_bind.
  destruct (negb (isSome x)). { apply x_ret. split; [exact H0|split; [apply trG_nil|split; [reflexivity|split; [reflexivity|discriminate]]]]. }
  destruct (_ && _). { apply x_ret. split; [exact H0|split; [apply trG_nil|split; [reflexivity|split; [reflexivity|discriminate]]]]. }
  apply x_ask. intros ok c Hc. apply sel_NewBlock in Hc. subst c. destruct ok.
  - apply x_modify. apply x_ret. split; [|split; [trs4|split; [reflexivity|split; [reflexivity|intros b [= <-]; reflexivity]]]].
    destruct on; [|exact I]. destruct H0 as [HI HV]. split; [|exact HV].
    apply (i3_header _ _ _ _ s0); try reflexivity; [exact HI|]. intros b Hb. rewrite Eh in Hb. discriminate Hb.
  - apply x_ret. split; [exact H0|split; [trs4|split; [reflexivity|split; [reflexivity|discriminate]]]].
Qed.
Lemma t_MakeHeader : k3 (MakeHeader cfg).
Proof. intros on vs mi vn k oc s0 H0. eapply x_conseq; [apply (mh3_spec _ _ _ _ _ _ s0 H0)|]. cbn. intros r s n (A & B & _). auto. Qed.
Hint Resolve t_MakeHeader : kpdb.

Lemma t_CreateBlock : k3 (CreateBlock cfg).
Proof.
  intros on vs mi vn k oc s0 H0. unfold CreateBlock. apply x_get. destruct (block_set s0); [apply x_ret; split; [exact H0|apply trG_nil]|].
  eapply x_call; [apply (mh3_spec _ _ _ _ _ _ s0 H0)|]. intros hb s1 n1 (I1 & T1 & _ & _ & Hh). cbn beta. destruct hb as [b|]; [|apply x_ret; split; [exact I1|trs4]].
  apply x_get. cbv zeta. apply x_modify. apply x_ret. split; [|trs4].
  destruct on; [|exact I]. destruct I1 as [HI HV]. split; [|exact HV].
  apply (i3_header _ _ _ _ s1); try reflexivity; [exact HI|]. intros b0 Hb0. rewrite (Hh b eq_refl) in Hb0. injection Hb0 as <-.
  eexists. split; reflexivity.
Qed.
Hint Resolve t_CreateBlock : kpdb.
Lemma t_checkCommit : k3 (checkCommit cfg). Proof. unfold checkCommit. k3_go. Qed.
Hint Resolve t_checkCommit : kpdb.

(* the re-verification of stored commits never removes the commit the node signed: it still verifies *)
Lemma own_verifies vs mi k oc s c b pub : I3 vs mi (S k) oc s -> zlen vs <= 65536 -> own mi s = Some c ->
  header s = Some b -> nth_chk (Validators s) (Z.to_nat (p_idx c)) = Some pub -> block_verify pub b (commit_sig c) = true.
Proof.
  intros (A1 & A2 & A3 & A4 & A5) Hs Ho Hb Hp. destruct (A5 Hs) as [_ P2 _].
  destruct (P2 ltac:(discriminate)) as (c' & b' & C0 & C1 & C2 & C3 & C4 & Hb' & Hsg). rewrite Ho in C1. injection C1 as <-.
  rewrite Hb in Hb'. injection Hb' as <-.
  assert (Hmi : 0 <= mi). { unfold own, slot in Ho. destruct (mi <? 0) eqn:E; [discriminate Ho|apply Z.ltb_ge in E; exact E]. }
  rewrite C2, A1, (A4 Hmi) in Hp. injection Hp as <-.
  unfold block_verify. rewrite C4, Z.eqb_refl, Hsg, hash_eqb_refl. reflexivity.
Qed.
Lemma t_verifyCommits : k3 (verifyCommitPayloadsAgainstHeader cfg).
Proof.
  intros on vs mi vn k oc. unfold verifyCommitPayloadsAgainstHeader. apply kp_get_bind_u. intros s. apply kp_forM. intros i s1 H1.
  apply x_get. apply x_tget. intros m Hi Hm. destruct m as [p|]; [|apply x_ret; split; [exact H1|apply trG_nil]].
  destruct (p_view p =? ViewNumber s1) eqn:Ev; [|apply x_ret; split; [exact H1|apply trG_nil]]. apply Z.eqb_eq in Ev.
  eapply x_call; [apply (mh3_spec _ _ _ _ _ _ s1 H1)|]. intros hb s2 n2 (I2 & T2 & C2 & V2 & Hh). cbn beta.
  destruct hb as [b|]; [|apply x_ret; split; [exact I2|trs4]]. specialize (Hh b eq_refl).
  apply x_get. apply x_tget. intros pub Hi2 Hpub. destruct (block_verify pub b (commit_sig p)) eqn:Ebv; [apply x_ret; split; [exact I2|trs4]|].
  apply x_tset. intros l Hi3 Hl. apply x_modify_last. split; [|trs4].
  destruct on; [|exact I]. destruct I2 as [HI HV]. destruct H1 as [HI1 HV1]. split; [|exact HV].
  destruct (Z.eq_dec (Z.of_nat i) mi) as [E|Hne]; [|apply (i3_commit_other _ _ _ _ s2 l (Z.of_nat i) None HI Hl Hi3 Hne)].
  destruct (Z_le_dec (zlen vs) 65536) as [Hs|Hs]; [|apply (i3_unsigned _ _ _ _ s2); [exact HI|intros X; contradiction|repeat split]].
  destruct k as [|k']; [apply (i3_unsigned _ _ _ _ s2); [exact HI|reflexivity|repeat split]|]. exfalso.
  assert (Ho : own mi s2 = Some p). { unfold own. rewrite C2, <- E. apply (slot_nth _ _ _ Hi Hm). }
  rewrite (own_verifies vs mi k' oc s2 p b pub HI Hs Ho Hh Hpub) in Ebv. discriminate Ebv.
Qed.
Hint Resolve t_verifyCommits : kpdb.
Lemma t_updateExistingPayloads m : k3 (updateExistingPayloads cfg m). Proof. unfold updateExistingPayloads. k3_go. Qed.
Hint Resolve t_updateExistingPayloads : kpdb.

(* a received Commit is stored only in an empty slot, and only what was just stored is removed again *)
Lemma t_onCommit msg : k3 (onCommit cfg msg).
Proof.
  intros on vs mi vn k oc s0 H0. unfold onCommit. apply x_get. apply x_tget. intros ex Hi Hex.
  destruct ex as [e|]; cbn [isSome]; [apply x_ret; split; [exact H0|apply trG_nil]|].
  apply x_tset. intros l _ Hl. apply x_modify.
  match goal with |- hx ?st _ _ => set (s1 := st) end.
  (* from here on: either another validator's slot, or nothing has been signed *)
  assert (Hk : on = true -> p_idx msg <> mi \/ (zlen vs <= 65536 -> k = 0%nat)).
  { intros ->. destruct H0 as [HI _]. destruct (Z.eq_dec (p_idx msg) mi) as [E|Hne]; [right|left; exact Hne].
    apply (i3_k0 _ _ _ _ _ HI). unfold own. rewrite <- E. apply (slot_nth _ _ _ Hi Hex). }
  assert (Hset : forall s l' v, I3s on vs mi vn k oc s -> set_chk (CommitPayloads s) (Z.to_nat (p_idx msg)) v = Some l' ->
                               I3s on vs mi vn k oc (s <| CommitPayloads := l' |>)).
  { intros s l' v Hs Hl'. destruct on; [|exact I]. destruct Hs as [HI HV]. split; [|exact HV].
    destruct (Hk eq_refl) as [Hne|Hz]; [apply (i3_commit_other _ _ _ _ s l' (p_idx msg) v HI Hl' Hi Hne)|].
    apply (i3_unsigned _ _ _ _ s); [exact HI|exact Hz|repeat split]. }
  assert (I1 : I3s on vs mi vn k oc s1) by (apply (Hset s0 l _ H0 Hl)).
  destruct (negb _); [apply x_ret; split; [exact I1|apply trG_nil]|].
  apply x_ask. intros ok c Hc. assert (Gc : NoSign s1 c) by nosel. destruct ok; cbn [negb].
  2:{ apply x_get. apply x_tset. intros l2 _ Hl2. apply x_modify_last. split; [apply (Hset s1 l2 _ I1 Hl2)|trs4]. }
  eapply x_kp; [apply (t_extendTimer cfg 4 on vs mi vn k oc)|exact I1|]. intros [] s2 n2 I2 T2.
  eapply x_call; [apply (mh3_spec _ _ _ _ _ _ s2 I2)|]. intros hb s3 n3 (I3' & T3 & _ & _ & _). cbn beta.
  destruct hb as [b|]; [|apply x_ret; split; [exact I3'|trs4]].
  apply x_get. apply x_tget. intros pub _ _. destruct (block_verify pub b (commit_sig msg)).
  - eapply x_conseq; [apply (t_checkCommit on vs mi vn k oc s3 I3')|]. cbn. intros _ s n [A B]. split; [exact A|trs4].
  - apply x_tset. intros l3 _ Hl3. apply x_modify_last. split; [apply (Hset s3 l3 _ I3' Hl3)|trs4].
Qed.
End Manual3.

(* ---------------- level 1: the signature ---------------- *)
Lemma u16_small x : 0 <= x < 65536 -> u16 x = x.
Proof. intros H. unfold u16. apply Z.mod_small. exact H. Qed.
Lemma i3_commit_same vs mi k oc s l : I3 vs mi k oc s -> 0 <= mi -> set_chk (CommitPayloads s) (Z.to_nat mi) (own mi s) = Some l ->
  I3 vs mi k oc (s <| CommitPayloads := l |>).
Proof.
  intros (A1 & A2 & A3 & A4 & A5) Hi Hl. unfold I3. cbn [Validators MyIndex ViewNumber MyKey set].
  split; [exact A1|split; [exact A2|split; [exact A3|split; [exact A4|]]]]. intros Hs. destruct (A5 Hs) as [P1 P2 P4].
  constructor; unfold own in *; cbn [CommitPayloads ViewNumber MyKey header set]; rewrite ?(slot_set_same _ _ _ _ Hl Hi); assumption.
Qed.

Section Level1.
Variable cfg : config.
Hint Resolve t_WatchOnly t_RSOR t_own_slot t_ResponseSent t_PreCommitSent t_CommitSent t_ViewChanging t_NotAccepting t_subscribe t_unsubscribe
  t_StopTxFlow t_changeTimer t_getTimestamp t_Fill t_MakePreHeader t_CreatePreBlock t_broadcast t_makePrepareRequest t_rtt
  t_makeRecoveryMessage t_sendRecoveryMessage t_processMissingTx t_sendRecoveryRequest t_makeChangeView t_makePrepareResponse
  t_sendPrepareResponse t_makePreCommit t_sendPreCommit t_verifyPreCommits t_extendTimer t_GetPrimaryIndex t_onRecoveryRequest
  t_cache_addMessage t_ask_recv t_MakeHeader t_CreateBlock t_checkCommit t_verifyCommits t_updateExistingPayloads t_onCommit : kpdb.

Lemma x_mh3 {B} vs mi g0 s0 (f : option blockobj -> M B) Q : I3g vs mi g0 s0 ->
  (forall r s1 n1, I3g vs mi (g0 ++ n1) s1 -> nsign n1 = 0%nat -> CommitPayloads s1 = CommitPayloads s0 ->
     (forall b, r = Some b -> header s1 = Some b) -> hx s1 (f r) (fun b s n2 => Q b s (n1 ++ n2))) ->
  hx s0 (bind (MakeHeader cfg) f) Q.
Proof.
  intros H0 Hf. destruct (KS_dec mi g0) as [Hk|Hk].
  - eapply x_call; [apply (mh3_spec cfg true vs mi (ViewNumber s0) (nsign g0) (signed_commit g0) s0); split; [exact (H0 Hk)|reflexivity]|].
    intros r s1 n1 (P & T & C1 & _ & Hh). apply Hf; [|apply (nosign_nsign _ T)|exact C1|exact Hh].
    intros _. rewrite nsign_app, (nosign_nsign _ T), Nat.add_0_r, (signed_commit_app _ _ (nosign_nsign _ T)). apply P.
  - eapply x_call; [apply (mh3_spec cfg false vs mi 0 0%nat None s0); exact I|].
    intros r s1 n1 (_ & T & C1 & _ & Hh). apply Hf; [|apply (nosign_nsign _ T)|exact C1|exact Hh].
    intros Hk2. exfalso. apply Hk. apply (KS_app _ _ _ Hk2).
Qed.

Lemma q_sendCommit : kq (sendCommit cfg).
Proof.
  intros vs mi g0 s0 H0. unfold sendCommit, makeCommit. apply x_assoc. apply x_get. apply x_assoc. apply x_tget. intros own0 Hi Hown.
  destruct own0 as [m|].
  - apply x_ret_bind. apply x_get. apply x_tset. intros l _ Hl. apply x_modify.
    eapply x_conseq; [apply (kq_of_k3 _ (t_broadcast m) vs mi g0)|cbn; intros _ s n P; exact P].
    intros Hks. pose proof (H0 Hks) as HI. assert (Emi : MyIndex s0 = mi) by apply HI. rewrite Emi in *.
    apply (i3_commit_same _ _ _ _ s0 l HI Hi). unfold own. rewrite (slot_nth _ _ _ Hi Hown). exact Hl.
  - apply x_assoc. apply (x_mh3 vs mi g0 s0 _ _ H0). intros hb s1 n1 I1 N1 C1 Hh. destruct hb as [b|].
    2:{ apply x_ret_bind. apply x_ret. rewrite app_nil_r. exact I1. }
    specialize (Hh b eq_refl). xs.
    match goal with |- hx ?st (broadcast ?msg) _ => set (s3 := st); set (m := msg) end.
    rename Hc into Hsel. cbn [MyIndex CommitPayloads set] in Hi0, Hl.
    eapply x_conseq; [apply (kq_of_k3 _ (t_broadcast m) vs mi (g0 ++ n1 ++ [(s1, c)]) s3)|].
    2:{ cbn. intros _ s n P. rewrite <- !app_assoc in P. cbn [app] in P. exact P. }
    intros Hks. apply KS_app in Hks. destruct Hks as [Hk0 Hk1].
    assert (Hk01 : KS mi (g0 ++ n1)) by (apply Forall_app; split; [exact Hk0|apply KS_app in Hk1; apply Hk1]).
    pose proof (I1 Hk01) as HI. pose proof (H0 Hk0) as HI0. clear Hk1.
    assert (Esig : c = CSign (block_hash b)).
    { destruct c; try discriminate Hsel. destruct (hash_eqb bh (block_hash b)) eqn:E; [|discriminate Hsel]. apply hash_eqb_eq in E. subst bh. reflexivity. }
    assert (Ens : nsign (g0 ++ n1 ++ [(s1, c)]) = S (nsign g0)).
    { rewrite !nsign_app, N1, Esig. cbn. lia. }
    rewrite Ens. destruct HI as (A1 & A2 & A3 & A4 & A5). destruct HI0 as (B1 & B2 & B3 & B4 & B5).
    remember (signed_commit (g0 ++ n1 ++ [(s1, c)])) as oc eqn:Eoc.
    unfold I3, s3. cbn [Validators MyIndex ViewNumber MyKey set].
    split; [exact A1|split; [exact A2|split; [exact A3|split; [exact A4|]]]]. intros Hs.
    assert (Hn0 : nsign g0 = 0%nat).
    { apply (o1 _ _ _ _ (B5 Hs)). unfold own. rewrite <- B2. apply (slot_nth _ _ _ Hi Hown). }
    rewrite Hn0.
    assert (Eoc' : oc = Some m).
    { rewrite Eoc, Esig, app_assoc. apply signed_commit_first. rewrite nsign_app, Hn0, N1. reflexivity. }
    assert (Hmi : 0 <= mi < 65536).
    { rewrite <- A2. split; [assumption|]. pose proof (nth_chk_lt _ _ _ (A4 ltac:(rewrite <- A2; assumption))) as Hlt.
      unfold zlen in Hs. rewrite A2. lia. }
    assert (Eown : own mi s3 = Some m).
    { unfold own, s3. cbn [CommitPayloads set]. rewrite <- A2. eapply slot_set_same; [exact Hl|exact Hi0]. }
    fold s3. constructor.
    + intros Hnone. rewrite Eown in Hnone. discriminate Hnone.
    + intros _. exists m. eexists. split; [exact Eoc'|]. split; [exact Eown|]. unfold m, mk_payload, s3. cbn.
      rewrite A2, (u16_small _ Hmi). repeat split; reflexivity.
    + lia.
Qed.
End Level1.

Section Level1b.
Variable cfg : config.
Hint Resolve t_WatchOnly t_RSOR t_own_slot t_ResponseSent t_PreCommitSent t_CommitSent t_ViewChanging t_NotAccepting t_subscribe t_unsubscribe
  t_StopTxFlow t_changeTimer t_getTimestamp t_Fill t_MakePreHeader t_CreatePreBlock t_broadcast t_makePrepareRequest t_rtt
  t_makeRecoveryMessage t_sendRecoveryMessage t_processMissingTx t_sendRecoveryRequest t_makeChangeView t_makePrepareResponse
  t_sendPrepareResponse t_makePreCommit t_sendPreCommit t_verifyPreCommits t_extendTimer t_GetPrimaryIndex t_onRecoveryRequest
  t_cache_addMessage t_ask_recv t_MakeHeader t_CreateBlock t_checkCommit t_verifyCommits t_updateExistingPayloads t_onCommit : kpdb.
Hint Resolve q_sendCommit : kqdb.
Lemma q_checkPreCommit : kq (checkPreCommit cfg). Proof. unfold checkPreCommit. kq_go. Qed.
Hint Resolve q_checkPreCommit : kqdb.
Lemma q_checkPrepare : kq (checkPrepare cfg). Proof. unfold checkPrepare. kq_go. Qed.
Hint Resolve q_checkPrepare : kqdb.
Lemma q_sendPrepareRequest f : kq (sendPrepareRequest cfg f). Proof. unfold sendPrepareRequest. kq_go. Qed.
Lemma q_onPrepareResponse m : kq (onPrepareResponse cfg m).
Proof. unfold onPrepareResponse. kq_go. all: match goal with |- context[p_body ?p] => destruct (p_body p) as [[]|] end; kq_go. Qed.
Lemma q_onPreCommit m : kq (onPreCommit cfg m). Proof. unfold onPreCommit. kq_go. Qed.
End Level1b.

