(* C03, "never broadcasts two different commits ... every retransmission of it is identical to the original": in every history of
   an epoch, from the first block-signature request on, every Commit payload the node broadcasts is the Commit built at that
   request (with the sender field that broadcast fills in) - the first broadcast and every later re-broadcast alike.
   Lc g: every Commit broadcast of the trace g that is preceded by a signature request is the commit of the first request.
   (Before the node has signed, a Commit found in its own slot can only be one received under its own index - the library does
   not check the sender of what it is given - and sendCommit would re-broadcast that; the statement starts at the signature.) *)
From DbftV Require Import Replay.
From DbftV Require Export TypedCM.

Definition ncm (tr : tr_t) : nat := length (filter (fun sc => is_cm (snd sc)) tr).
Lemma nocm_ncm tr : trG NoCM tr -> ncm tr = 0%nat.
Proof. unfold trG, ncm, NoCM. induction 1 as [|[s c] tr H _ IH]; [reflexivity|]. cbn in *. rewrite H. exact IH. Qed.
Lemma ncm_in tr sc : ncm tr = 0%nat -> In sc tr -> is_cm (snd sc) = false.
Proof.
  unfold ncm. induction tr as [|x r IH]; [intros _ []|]. cbn [filter]. destruct (is_cm (snd x)) eqn:E; [discriminate|].
  intros H [<-|Hin]; [exact E|apply IH; assumption].
Qed.
Definition Lc (g : tr_t) : Prop :=
  forall g1 s p g2, g = g1 ++ (s, CBroadcast p) :: g2 -> p_type p = CommitT -> nsign g1 <> 0%nat ->
  exists c, signed_commit g1 = Some c /\ p = c <| p_idx := u16 (MyIndex s) |>.
Lemma Lc_unsigned g : nsign g = 0%nat -> Lc g.
Proof. intros H g1 s p g2 -> _ Hn. exfalso. apply Hn. rewrite nsign_app in H. lia. Qed.
Lemma is_cm_bcast p : p_type p = CommitT -> is_cm (CBroadcast p) = true.
Proof. intros H. cbn. rewrite H. reflexivity. Qed.
Lemma Lc_app g n : Lc g -> ncm n = 0%nat -> Lc (g ++ n).
Proof.
  intros HL Hn g1 s p g2 E Ty Hs. apply app_eq_app in E. destruct E as (l & [[E1 E2]|[E1 E2]]).
  - destruct l as [|x l'].
    + cbn in E2. assert (Hin : In (s, CBroadcast p) n) by (rewrite <- E2; left; reflexivity).
      pose proof (ncm_in _ _ Hn Hin) as F. cbn [snd] in F. rewrite (is_cm_bcast _ Ty) in F. discriminate F.
    + injection E2 as <- E2. apply (HL g1 s p l'); [rewrite E1; reflexivity|exact Ty|exact Hs].
  - assert (Hin : In (s, CBroadcast p) n) by (rewrite E2; apply in_or_app; right; left; reflexivity).
    pose proof (ncm_in _ _ Hn Hin) as F. cbn [snd] in F. rewrite (is_cm_bcast _ Ty) in F. discriminate F.
Qed.
Lemma Lc_snoc g s c : Lc g ->
  (forall p, c = CBroadcast p -> p_type p = CommitT -> nsign g <> 0%nat -> exists c0, signed_commit g = Some c0 /\ p = c0 <| p_idx := u16 (MyIndex s) |>) ->
  Lc (g ++ [(s, c)]).
Proof.
  intros HL Hc g1 s' p g2 E Ty Hs. apply app_eq_app in E. destruct E as (l & [[E1 E2]|[E1 E2]]).
  - destruct l as [|x l'].
    + cbn in E2. injection E2 as Es Ec _. subst s' c. rewrite app_nil_r in E1. subst g1. apply (Hc p eq_refl Ty Hs).
    + injection E2 as <- E2. apply (HL g1 s' p l'); [rewrite E1; reflexivity|exact Ty|exact Hs].
  - destruct l as [|x l']; [|destruct l'; discriminate E2]. cbn in E2. injection E2 as Es Ec. subst s c. rewrite app_nil_r in E1. subst g1. apply (Hc p eq_refl Ty Hs).
Qed.

Definition L6g (vs : list key) (mi : Z) (g : tr_t) : Prop := KS mi g -> zlen vs <= 65536 -> Lc g.
Definition kmq {A} (x : M A) : Prop :=
  forall vs mi g0 s0, TY s0 -> I3g vs mi g0 s0 -> L6g vs mi g0 -> hx s0 x (fun _ s tr => L6g vs mi (g0 ++ tr)).
Definition kmz {A} (x : M A) : Prop :=
  forall vs mi g0 s0, TY s0 -> I3g vs mi g0 s0 -> Z0 vs mi g0 -> hx s0 x (fun _ s tr => L6g vs mi (g0 ++ tr)).
Definition km {A} (x : M A) : Prop :=
  forall vs mi g0 s0, Inv2 s0 -> TY s0 -> I3g vs mi g0 s0 -> L6g vs mi g0 -> hx s0 x (fun _ s tr => L6g vs mi (g0 ++ tr)).
Definition ICm (ic : Z -> Z -> M unit) : Prop :=
  forall v t vs mi g0 s0, TY s0 -> I3g vs mi g0 s0 -> (KS mi g0 -> 0 < v /\ (zlen vs <= 65536 -> nsign g0 = 0%nat)) ->
  hx s0 (ic v t) (fun _ s tr => L6g vs mi (g0 ++ tr)).

Lemma L6g_unsigned vs mi g : Z0 vs mi g -> L6g vs mi g.
Proof. intros Hz Hk Hs. apply Lc_unsigned. apply (Hz Hk Hs). Qed.
Lemma L6g_pad vs mi g n : L6g vs mi g -> ncm n = 0%nat -> L6g vs mi (g ++ n).
Proof. intros H Hn Hk Hs. apply KS_app in Hk. destruct Hk as [Hk _]. apply Lc_app; [apply (H Hk Hs)|exact Hn]. Qed.

Lemma kmq_of_kd {A} (x : M A) : kd x -> kmq x.
Proof.
  intros Hx vs mi g0 s0 HT _ H5. eapply x_conseq; [apply (Hx s0 HT)|]. cbn. intros _ s n [_ T]. apply L6g_pad; [exact H5|apply nocm_ncm; exact T].
Qed.
Lemma kmq_ret {A} (a : A) : kmq (ret a).
Proof. intros vs mi g0 s0 _ _ H. apply x_ret. rewrite app_nil_r. exact H. Qed.
Lemma kmq_modify g : kmq (modify g).
Proof. intros vs mi g0 s0 _ _ H. apply x_modify_last. rewrite app_nil_r. exact H. Qed.
Lemma kmq_panic {A} : kmq (@panic A). Proof. intros vs mi g0 s0 _ _ _. apply x_panic. Qed.
Lemma kmq_fatal {A} : kmq (@fatal A). Proof. intros vs mi g0 s0 _ _ _. apply x_fatal. Qed.
Lemma kmq_oof {A} : kmq (@out_of_fuel A). Proof. intros vs mi g0 s0 _ _ _. apply x_oof. Qed.
Lemma kmq_bind {A B} (x : M A) (f : A -> M B) : kq x -> kt x -> kmq x -> (forall a, kmq (f a)) -> kmq (bind x f).
Proof.
  intros Hq Ht Hx Hf vs mi g0 s0 HT H3 H5.
  eapply x_call; [apply (x_conj _ _ _ _ (Ht s0 HT) (x_conj _ _ _ _ (Hq vs mi g0 s0 H3) (Hx vs mi g0 s0 HT H3 H5)))|].
  intros a s1 n1 [[T1 _] [P3 P5]]. cbn beta. eapply x_conseq; [apply (Hf a vs mi (g0 ++ n1) s1 T1 P3 P5)|]. cbn. intros b s n P. rewrite app_assoc. exact P.
Qed.
Lemma kmq_assoc {A B C} (x : M A) (g : A -> M B) (f : B -> M C) : kmq (bind x (fun a => bind (g a) f)) -> kmq (bind (bind x g) f).
Proof. intros H vs mi g0 s0 HT H3 H5. apply x_assoc. apply H; assumption. Qed.
Lemma kmq_ret_bind {A B} (a : A) (f : A -> M B) : kmq (f a) -> kmq (bind (ret a) f).
Proof. intros H vs mi g0 s0 HT H3 H5. apply x_ret_bind. apply H; assumption. Qed.
Lemma kmq_get_bind {B} (f : nstate -> M B) : (forall s, kmq (f s)) -> kmq (bind get f).
Proof. intros H vs mi g0 s0 HT H3 H5. apply x_get. apply H; assumption. Qed.
Lemma kmq_forM {T} (l : list T) (f : T -> M unit) : (forall a, kq (f a)) -> (forall a, kt (f a)) -> (forall a, kmq (f a)) -> kmq (forM l f).
Proof. intros Hq Ht Hf. induction l as [|a l IH]; cbn [forM]; [apply kmq_ret|]. apply kmq_bind; auto. Qed.

Lemma kmz_of_klq {A} (x : M A) : kmq x -> kmz x.
Proof. intros H vs mi g0 s0 HT H3 Hz. apply (H vs mi g0 s0 HT H3). apply L6g_unsigned. exact Hz. Qed.
Lemma kmz_of_k3 {A} (x : M A) : k3 x -> kmz x.
Proof.
  intros Hx vs mi g0 s0 _ H3 Hz. eapply x_conseq; [apply (k3_frame vs mi g0 s0 x Hx H3)|].
  cbn. intros _ s n [_ N]. apply L6g_unsigned. apply Z0_pad; assumption.
Qed.
Lemma kmz_ret {A} (a : A) : kmz (ret a). Proof. apply kmz_of_klq, kmq_ret. Qed.
Lemma kmz_panic {A} : kmz (@panic A). Proof. apply kmz_of_klq, kmq_panic. Qed.
Lemma kmz_bind0 {A B} (x : M A) (f : A -> M B) : k3 x -> kt x -> (forall a, kmz (f a)) -> kmz (bind x f).
Proof.
  intros Hx Ht Hf vs mi g0 s0 HT H3 Hz. eapply x_call; [apply (x_conj _ _ _ _ (Ht s0 HT) (k3_frame vs mi g0 s0 x Hx H3))|].
  intros a s1 n1 [[T1 _] [P1 N1]]. cbn beta.
  eapply x_conseq; [apply (Hf a vs mi (g0 ++ n1) s1 T1 P1 (Z0_pad _ _ _ _ Hz N1))|]. cbn. intros b s n P. rewrite app_assoc. exact P.
Qed.
Lemma kmz_bindz {A B} (x : M A) (f : A -> M B) : kz x -> kt x -> kmz x -> (forall a, kmq (f a)) -> kmz (bind x f).
Proof.
  intros Hq Ht Hx Hf vs mi g0 s0 HT H3 Hz.
  eapply x_call; [apply (x_conj _ _ _ _ (Ht s0 HT) (x_conj _ _ _ _ (Hq vs mi g0 s0 H3 Hz) (Hx vs mi g0 s0 HT H3 Hz)))|].
  intros a s1 n1 [[T1 _] [P3 P5]]. cbn beta. eapply x_conseq; [apply (Hf a vs mi (g0 ++ n1) s1 T1 P3 P5)|]. cbn. intros b s n P. rewrite app_assoc. exact P.
Qed.
Lemma kmz_assoc {A B C} (x : M A) (g : A -> M B) (f : B -> M C) : kmz (bind x (fun a => bind (g a) f)) -> kmz (bind (bind x g) f).
Proof. intros H vs mi g0 s0 HT H3 Hz. apply x_assoc. apply H; assumption. Qed.
Lemma kmz_ret_bind {A B} (a : A) (f : A -> M B) : kmz (f a) -> kmz (bind (ret a) f).
Proof. intros H vs mi g0 s0 HT H3 Hz. apply x_ret_bind. apply H; assumption. Qed.
Lemma kmz_get_bind {B} (f : nstate -> M B) : (forall s, kmz (f s)) -> kmz (bind get f).
Proof. intros H vs mi g0 s0 HT H3 Hz. apply x_get. apply H; assumption. Qed.

Lemma km_of_klq {A} (x : M A) : kmq x -> km x.
Proof. intros H vs mi g0 s0 _ HT H3 H5. apply (H vs mi g0 s0 HT H3 H5). Qed.
Lemma km_ret {A} (a : A) : km (ret a). Proof. apply km_of_klq, kmq_ret. Qed.
Lemma km_panic {A} : km (@panic A). Proof. apply km_of_klq, kmq_panic. Qed.
Lemma km_bind {A B} (x : M A) (f : A -> M B) : K2 x -> kqi x -> kt x -> km x -> (forall a, km (f a)) -> km (bind x f).
Proof.
  intros HK Hq Ht Hx Hf vs mi g0 s0 J0 HT H3 H5.
  eapply x_call; [apply (x_conj _ _ _ _ (x_conj _ _ _ _ (HK s0 J0) (Ht s0 HT)) (x_conj _ _ _ _ (Hq vs mi g0 s0 J0 H3) (Hx vs mi g0 s0 J0 HT H3 H5)))|].
  intros a s1 n1 [[[J1 _] [T1 _]] [P3 P5]]. cbn beta.
  eapply x_conseq; [apply (Hf a vs mi (g0 ++ n1) s1 J1 T1 P3 P5)|]. cbn. intros b s n P. rewrite app_assoc. exact P.
Qed.
Lemma km_assoc {A B C} (x : M A) (g : A -> M B) (f : B -> M C) : km (bind x (fun a => bind (g a) f)) -> km (bind (bind x g) f).
Proof. intros H vs mi g0 s0 J0 HT H3 H5. apply x_assoc. apply H; assumption. Qed.
Lemma km_ret_bind {A B} (a : A) (f : A -> M B) : km (f a) -> km (bind (ret a) f).
Proof. intros H vs mi g0 s0 J0 HT H3 H5. apply x_ret_bind. apply H; assumption. Qed.
Lemma km_get_bind {B} (f : nstate -> M B) : (forall s, km (f s)) -> km (bind get f).
Proof. intros H vs mi g0 s0 J0 HT H3 H5. apply x_get. apply H; assumption. Qed.
Lemma km_forM {T} (l : list T) (f : T -> M unit) :
  (forall a, K2 (f a)) -> (forall a, kqi (f a)) -> (forall a, kt (f a)) -> (forall a, km (f a)) -> km (forM l f).
Proof. intros HK Hq Ht Hf. induction l as [|a l IH]; cbn [forM]; [apply km_ret|]. apply km_bind; auto. Qed.

Create HintDb kmqdb discriminated.
Create HintDb kmzdb discriminated.
Create HintDb kmdb discriminated.
Ltac solvekd := solve [ eauto 3 with kpdb | kd_go ].
Ltac solvekt := solve [ eauto 3 with kpdb | apply kt_of_kc; solvekc | kn_go leafc ].
Ltac kmq_leaf := first [ solve [eauto 3 with kmqdb] | solve [apply kmq_of_kd; solvekd] ].
Ltac kmq_go :=
  cbv beta iota zeta;
  lazymatch goal with
  | |- kmq (bind (bind _ _) _) => apply kmq_assoc; kmq_go
  | |- kmq (bind (ret _) _) => apply kmq_ret_bind; kmq_go
  | |- kmq (bind get _) => apply kmq_get_bind; intro; kmq_go
  | |- kmq (bind (if ?b then _ else _) _) => destruct b; kmq_go
  | |- kmq (bind (match ?o with Some _ => _ | None => _ end) _) => destruct o; kmq_go
  | |- kmq (bind _ _) => first [ kmq_leaf | apply kmq_bind; [ try solvekq | try solvekt | try first [kmq_leaf | solve [kmq_go]] | intro; kmq_go ] ]
  | |- kmq (ret _) => apply kmq_ret
  | |- kmq (modify _) => apply kmq_modify
  | |- kmq panic => apply kmq_panic
  | |- kmq fatal => apply kmq_fatal
  | |- kmq out_of_fuel => apply kmq_oof
  | |- kmq (forM _ _) => apply kmq_forM; [ intro; solvekq | intro; solvekt | intro; kmq_go ]
  | |- kmq (if ?b then _ else _) => destruct b; kmq_go
  | |- kmq (match ?o with Some _ => _ | None => _ end) => destruct o; kmq_go
  | |- kmq (match ?o with nil => _ | cons _ _ => _ end) => destruct o; kmq_go
  | |- kmq (let _ := _ in _) => cbv zeta; kmq_go
  | |- kmq _ => first [ kmq_leaf | idtac ]
  end.
Ltac kmz_leaf := first [ solve [eauto 3 with kmzdb] | solve [apply kmz_of_k3; solvek3] | solve [apply kmz_of_klq; kmq_leaf] ].
Ltac kmz_go :=
  lazymatch goal with
  | |- kmz (bind (bind _ _) _) => apply kmz_assoc; kmz_go
  | |- kmz (bind (ret _) _) => apply kmz_ret_bind; kmz_go
  | |- kmz (bind get _) => apply kmz_get_bind; intro; kmz_go
  | |- kmz (bind (if ?b then _ else _) _) => destruct b; kmz_go
  | |- kmz (bind (match ?o with Some _ => _ | None => _ end) _) => destruct o; kmz_go
  | |- kmz (bind _ _) =>
      first [ apply kmz_bind0; [ solvek3 | solvekt | intro; kmz_go ]
            | apply kmz_bindz; [ solvekz | solvekt | solve [eauto 3 with kmzdb] | intro; solve [kmq_go] ]
            | solve [apply kmz_of_klq; kmq_go] ]
  | |- kmz (ret _) => apply kmz_ret
  | |- kmz panic => apply kmz_panic
  | |- kmz (if ?b then _ else _) => destruct b; kmz_go
  | |- kmz (match ?o with Some _ => _ | None => _ end) => destruct o; kmz_go
  | |- kmz (let _ := _ in _) => cbv zeta; kmz_go
  | |- kmz _ => first [ kmz_leaf | idtac ]
  end.
Ltac km_leaf := first [ solve [eauto 3 with kmdb] | solve [apply km_of_klq; kmq_leaf] ].
Ltac km_go :=
  lazymatch goal with
  | |- km (bind (bind _ _) _) => apply km_assoc; km_go
  | |- km (bind (ret _) _) => apply km_ret_bind; km_go
  | |- km (bind get _) => apply km_get_bind; intro; km_go
  | |- km (bind (if ?b then _ else _) _) => destruct b; km_go
  | |- km (bind (match ?o with Some _ => _ | None => _ end) _) => destruct o; km_go
  | |- km (bind _ _) => first [ solve [apply km_of_klq; kmq_go] | apply km_bind; [ solveK2 | solvekqi | solvekt | first [km_leaf | solve [km_go]] | intro; km_go ] ]
  | |- km (ret _) => apply km_ret
  | |- km panic => apply km_panic
  | |- km (forM _ _) => apply km_forM; [ intro; solveK2 | intro; solvekqi | intro; solvekt | intro; km_go ]
  | |- km (if ?b then _ else _) => destruct b; km_go
  | |- km (match ?o with Some _ => _ | None => _ end) => destruct o; km_go
  | |- km (match ?o with nil => _ | cons _ _ => _ end) => destruct o; km_go
  | |- km (let _ := _ in _) => cbv zeta; km_go
  | |- km _ => first [ km_leaf | idtac ]
  end.

Section RecM.
Variable cfg : config.
Hint Resolve h_WatchOnly h_RSOR h_own_slot h_ResponseSent h_PreCommitSent h_CommitSent h_ViewChanging h_NotAccepting h_subscribe h_unsubscribe
  h_StopTxFlow h_changeTimer h_getTimestamp h_MakePreHeader h_CreatePreBlock h_broadcast h_rtt h_makeRecoveryMessage h_sendRecoveryMessage
  h_processMissingTx h_sendRecoveryRequest h_makeChangeView h_makePreCommit h_sendPreCommit h_verifyPreCommits h_extendTimer h_GetPrimaryIndex
  h_onRecoveryRequest h_cache_addMessage h_ask_recv h_MakeHeader h_CreateBlock h_makeCommit h_sendCommit h_verifyCommits h_checkCommit
  h_checkPreCommit h_checkPrepare h_onCommit h_onPreCommit h_updateExistingPayloads : kpdb.
Hint Extern 4 (kp Inv2 G2 _) => (apply K2_of_k2; intros; solve [eauto 3 with kpdb]) : kpdb.
Hint Resolve t_WatchOnly t_RSOR t_own_slot t_ResponseSent t_PreCommitSent t_CommitSent t_ViewChanging t_NotAccepting t_subscribe t_unsubscribe
  t_StopTxFlow t_changeTimer t_getTimestamp t_Fill t_MakePreHeader t_CreatePreBlock t_broadcast t_makePrepareRequest t_rtt
  t_makeRecoveryMessage t_sendRecoveryMessage t_processMissingTx t_sendRecoveryRequest t_makeChangeView t_makePrepareResponse
  t_sendPrepareResponse t_makePreCommit t_sendPreCommit t_verifyPreCommits t_extendTimer t_GetPrimaryIndex t_onRecoveryRequest
  t_cache_addMessage t_ask_recv t_MakeHeader t_CreateBlock t_checkCommit t_verifyCommits t_updateExistingPayloads t_onCommit : kpdb.
Hint Resolve q_sendCommit q_checkPreCommit q_checkPrepare q_sendPrepareRequest q_onPrepareResponse q_onPreCommit : kqdb.
Hint Resolve K_onPrepareResponse : kpdb.
Hint Resolve c_WatchOnly c_RSOR c_own_slot c_ResponseSent c_PreCommitSent c_CommitSent c_ViewChanging c_NotAccepting c_subscribe c_unsubscribe
  c_StopTxFlow c_changeTimer c_getTimestamp c_Fill c_MakePreHeader c_CreatePreBlock c_makePrepareRequest c_rtt c_sendRecoveryMessage
  c_processMissingTx c_sendRecoveryRequest c_sendPrepareResponse c_extendTimer c_GetPrimaryIndex c_onRecoveryRequest c_cache_addMessage
  c_ask_recv c_MakeHeader c_CreateBlock c_checkCommit c_sendPreCommit c_sendCommit c_verifyCommits c_verifyPreCommits c_checkPreCommit
  c_checkPrepare c_updateExistingPayloads c_sendPrepareRequest c_onPrepareResponse c_onPreCommit c_onCommit c_makeChangeView y_broadcast : kpdb.
Hint Extern 5 (kp TY AnyC _) => (apply kt_of_kc; solve [eauto 3 with kpdb]) : kpdb.
Hint Resolve d_WatchOnly d_RSOR d_own_slot d_ResponseSent d_PreCommitSent d_CommitSent d_ViewChanging d_NotAccepting d_subscribe d_unsubscribe
  d_StopTxFlow d_changeTimer d_getTimestamp d_Fill d_MakePreHeader d_CreatePreBlock d_makePrepareRequest d_rtt d_sendRecoveryMessage
  d_processMissingTx d_sendRecoveryRequest d_sendPrepareResponse d_extendTimer d_GetPrimaryIndex d_onRecoveryRequest d_cache_addMessage
  d_ask_recv d_MakeHeader d_CreateBlock d_checkCommit d_sendPreCommit d_verifyCommits d_verifyPreCommits d_updateExistingPayloads d_onCommit
  d_makeChangeView : kpdb.
Ltac fixapp := cbn; let s := fresh "s" in let n := fresh "n" in let P := fresh "P" in intros _ s n P; rewrite <- ?app_assoc in *; cbn [app] in *; exact P.

(* what broadcast puts on the trace *)
Lemma bc_spec m s0 : hx s0 (broadcast m) (fun _ s tr => s = s0 /\ tr = [(s0, CBroadcast (m <| p_idx := u16 (MyIndex s0) |>))]).
Proof.
  unfold broadcast. apply x_get. unfold ask_unit. apply x_ask_last. intros a c Hc. destruct a. apply sel_Broadcast in Hc. subst c. split; reflexivity.
Qed.

(* sendCommit: the stored commit is the signed one once something is signed; the commit just built is the one of the signature *)
Lemma mq_sendCommit : kmq (sendCommit cfg).
Proof.
  intros vs mi g0 s0 HT H0 H6. unfold sendCommit, makeCommit. apply x_assoc. apply x_get. apply x_assoc. apply x_tget. intros own0 Hi Hown.
  destruct own0 as [m|].
  - apply x_ret_bind. apply x_get. apply x_tset. intros l _ Hl. apply x_modify.
    eapply x_conseq; [apply bc_spec|]. cbn. intros _ s n [-> ->]. intros Hk Hs. apply KS_app in Hk. destruct Hk as [Hk0 _].
    apply Lc_snoc; [apply (H6 Hk0 Hs)|]. intros p [= <-] _ Hn. cbn [MyIndex set].
    destruct (H0 Hk0) as (A1 & A2 & A3 & A4 & A5). destruct (o2 _ _ _ _ (A5 Hs) Hn) as (c & b & C0 & C1 & _).
    exists c. split; [exact C0|]. unfold own in C1. rewrite <- A2, (slot_nth _ _ _ Hi Hown) in C1. injection C1 as <-. reflexivity.
  - apply x_assoc.
    eapply x_call; [apply (x_conj _ _ _ _ (d_MakeHeader cfg s0 HT) (k3_frame vs mi g0 s0 _ (t_MakeHeader cfg) H0))|]. intros hb s1 n1 [[T1 C1] [I1 N1]]. cbn beta.
    destruct hb as [b|].
    2:{ apply x_ret_bind. apply x_ret. rewrite app_nil_r. apply L6g_pad; [exact H6|apply nocm_ncm; exact C1]. }
    unfold ask_unit at 1. apply x_assoc. apply x_ask. intros [] c Hc. apply x_assoc. apply x_get. apply x_assoc. apply x_modify. apply x_ret_bind.
    apply x_get. apply x_tset. intros l _ Hl. apply x_modify.
    eapply x_conseq; [apply bc_spec|]. cbn. intros _ s n [-> ->]. cbn [MyIndex set]. intros Hk Hs.
    assert (Esig : c = CSign (block_hash b)).
    { destruct c; try discriminate Hc. destruct (hash_eqb bh (block_hash b)) eqn:E; [|discriminate Hc]. apply hash_eqb_eq in E. subst bh. reflexivity. }
    subst c. pose proof Hk as Hk'. apply KS_app in Hk'. destruct Hk' as [Hk0 Hk1]. apply KS_app in Hk1. destruct Hk1 as [Hk1 _].
    assert (Hk01 : KS mi (g0 ++ n1)) by (apply Forall_app; split; assumption).
    match goal with |- Lc (g0 ++ n1 ++ [?a; ?b]) => replace (g0 ++ n1 ++ [a; b]) with (((g0 ++ n1) ++ [a]) ++ [b]) by (rewrite <- !app_assoc; reflexivity) end.
    assert (Hn0 : nsign (g0 ++ n1) = 0%nat).
    { rewrite nsign_app, N1, Nat.add_0_r. destruct (H0 Hk0) as (A1 & A2 & A3 & A4 & A5). apply (o1 _ _ _ _ (A5 Hs)). unfold own. rewrite <- A2. apply (slot_nth _ _ _ Hi Hown). }
    apply Lc_snoc.
    + apply Lc_snoc; [apply (L6g_pad vs mi g0 n1 H6 (nocm_ncm _ C1) Hk01 Hs)|]. intros p Ep. discriminate Ep.
    + intros p [= <-] _ _. eexists. split; [apply signed_commit_first; exact Hn0|]. reflexivity.
Qed.
Hint Resolve mq_sendCommit : kmqdb.
Lemma mq_checkPreCommit : kmq (checkPreCommit cfg). Proof. unfold checkPreCommit. kmq_go. Qed.
Hint Resolve mq_checkPreCommit : kmqdb.
Lemma mq_checkPrepare : kmq (checkPrepare cfg). Proof. unfold checkPrepare. kmq_go. Qed.
Hint Resolve mq_checkPrepare : kmqdb.
Lemma mq_sendPrepareRequest f : kmq (sendPrepareRequest cfg f). Proof. unfold sendPrepareRequest, makePrepareRequest. kmq_go. Qed.
Lemma mq_onPrepareResponse m : kmq (onPrepareResponse cfg m).
Proof.
  unfold onPrepareResponse. kmq_go.
  all: try (match goal with |- context[p_body ?p] => destruct (p_body p) as [[]|] end;
            first [ solve [kmq_go] | solve [kq_go] | solve [kn_go leafc] ]).
Qed.
Lemma mq_onPreCommit m : p_type m = PreCommitT -> kmq (onPreCommit cfg m).
Proof.
  intros Ty vs mi g0 s0 HT H0 H6. unfold onPreCommit. apply x_get. apply x_tget. intros ex Hi Hex.
  destruct (isSome ex); [apply x_ret; rewrite app_nil_r; exact H6|].
  apply x_tset. intros l _ Hl. apply x_modify.
  match goal with |- hx ?st _ _ => set (s1 := st) end.
  assert (T1 : TY s1) by (unfold s1; ty_solve).
  assert (I1 : I3g vs mi g0 s1) by (intros Hk; apply (i3_same _ _ _ _ s0); [unfold Same3, s1; cbn; repeat split; reflexivity|exact (H0 Hk)]).
  match goal with |- hx _ ?prog _ => assert (Hrest : kmq prog) by kmq_go end.
  eapply x_conseq; [apply (Hrest vs mi g0 s1 T1 I1 H6)|]. cbn. intros _ s n P. exact P.
Qed.
Hint Resolve mq_sendPrepareRequest mq_onPrepareResponse mq_onPreCommit : kmqdb.

Section WithIcM.
Variable ic : Z -> Z -> M unit.
Hypothesis HicK : forall v t, K2 (ic v t).
Hypothesis Hic3 : ICq ic.
Hypothesis Hict : forall v t, kt (ic v t).
Hypothesis Hic6 : ICm ic.
Let Kccv := K_checkChangeView ic HicK.
Let Kscv := K_sendChangeView ic HicK.
Let Kcab := K_createAndCheckBlock cfg ic HicK.
Let Kadd := K_addTransaction cfg ic HicK.
Let Kopr := K_onPrepareRequest cfg ic HicK.
Let Kocv := K_onChangeView cfg ic HicK.
Let Kd0 := K_dispatch0 cfg ic HicK.
Let Knr0 := K_nestedReceive0 cfg ic HicK.
Let Korm := K_onRecoveryMessage cfg ic HicK.
Let Kdis := K_dispatch cfg ic HicK.
Let Korc := K_OnReceive cfg ic HicK.
Hint Resolve HicK Kccv Kscv Kcab Kadd Kopr Kocv Kd0 Knr0 Korm Kdis Korc : kpdb.
Let Tccv := T_checkChangeView ic Hict.
Let Tscv := T_sendChangeView ic Hict.
Let Tcab := T_createAndCheckBlock cfg ic Hict.
Let Tadd := T_addTransaction cfg ic Hict.
Let Topr := T_onPrepareRequest cfg ic Hict.
Let Tocv := T_onChangeView cfg ic Hict.
Let Td0 := T_dispatch0 cfg ic Hict.
Let Tnr0 := T_nestedReceive0 cfg ic Hict.
Let Torm := T_onRecoveryMessage cfg ic Hict.
Let Tdis := T_dispatch cfg ic Hict.
Let Torc := T_OnReceive cfg ic Hict.
Hint Resolve Hict Tccv Tscv Tcab Tadd Topr Tocv Td0 Tnr0 Torm Tdis Torc : kpdb.
Let Zccv := z_checkChangeView cfg ic HicK Hic3.
Let Zscv := z_sendChangeView cfg ic HicK Hic3.
Let Zcab := z_createAndCheckBlock cfg ic HicK Hic3.
Let Zadd := z_addTransaction cfg ic HicK Hic3.
Hint Resolve Zccv Zscv Zcab Zadd : kzdb.
Let Qocv := q_onChangeView cfg ic HicK Hic3.
Hint Resolve Qocv : kqdb.
Let Iopr := i_onPrepareRequest cfg ic HicK Hic3.
Let Id0 := i_dispatch0 cfg ic HicK Hic3.
Let Inr0 := i_nestedReceive0 cfg ic HicK Hic3.
Let Iorm := i_onRecoveryMessage cfg ic HicK Hic3.
Let Idis := i_dispatch cfg ic HicK Hic3.
Let Iorc := i_OnReceive cfg ic HicK Hic3.
Hint Resolve Iopr Id0 Inr0 Iorm Idis Iorc : kqidb.

(* the ChangeView of checkChangeView ("agreement") and the view change itself happen only while nothing is signed *)
Lemma mz_checkChangeView view : kmz (checkChangeView ic view).
Proof.
  intros vs mi g0 s0 HT H0 Hz. unfold checkChangeView. apply x_get.
  destruct (ViewNumber s0 >=? view) eqn:Ev; [apply x_ret; rewrite app_nil_r; apply L6g_unsigned; exact Hz|]. cbv zeta.
  destruct (_ <? _); [apply x_ret; rewrite app_nil_r; apply L6g_unsigned; exact Hz|].
  rewrite Z.geb_leb in Ev. apply Z.leb_gt in Ev.
  assert (Hpos : KS mi g0 -> 0 < view) by (intros Hk; pose proof (H0 Hk) as (_ & _ & A3 & _); lia).
  eapply x_call; [apply (x_conj _ _ _ _ (c_WatchOnly s0 HT) (k3_frame vs mi g0 s0 _ t_WatchOnly H0))|]. intros wo s1 n1 [[T1 _] [I1 N1]]. cbn beta.
  match goal with |- hx _ (bind ?blk _) _ => assert (Hpre : k3 blk) by (destruct wo; k3_go); assert (Hpt : kt blk) by (destruct wo; kn_go leafc) end.
  eapply x_call; [apply (x_conj _ _ _ _ (Hpt s1 T1) (k3_frame vs mi (g0 ++ n1) s1 _ Hpre I1))|]. intros [] s2 n2 [[T2 _] [I2 N2]]. cbn beta. apply x_get.
  eapply x_conseq; [apply (Hic6 view (lastBlockTimestamp s2) vs mi ((g0 ++ n1) ++ n2) s2 T2 I2)|fixapp].
  intros Hk. pose proof Hk as Hk'. apply KS_app in Hk'. destruct Hk' as [Hk1 _]. apply KS_app in Hk1. destruct Hk1 as [Hk0 _].
  split; [exact (Hpos Hk0)|]. intros Hs. rewrite !nsign_app, N1, N2, (Hz Hk0 Hs). reflexivity.
Qed.
Hint Resolve mz_checkChangeView : kmzdb.
Lemma mz_sendChangeView r : kmz (sendChangeView ic r). Proof. unfold sendChangeView. kmz_go. Qed.
Hint Resolve mz_sendChangeView : kmzdb.
Lemma mz_createAndCheckBlock : kmz (createAndCheckBlock cfg ic). Proof. unfold createAndCheckBlock. kmz_go. Qed.
Hint Resolve mz_createAndCheckBlock : kmzdb.
Lemma mz_addTransaction t : kmz (addTransaction cfg ic t). Proof. unfold addTransaction. kmz_go. Qed.
Hint Resolve mz_addTransaction : kmzdb.

Lemma mq_onChangeView m : kmq (onChangeView cfg ic m).
Proof.
  intros vs mi g0 s0 HT H0 H5. unfold onChangeView. apply x_get. cbv zeta.
  destruct (cv_newview m <=? ViewNumber s0); [apply (kmq_of_kd _ (d_onRecoveryRequest cfg m) vs mi g0 s0 HT H0 H5)|].
  eapply x_call; [apply (x_conj _ _ _ _ (d_CommitSent s0 HT) (os_spec CommitPayloads s0))|]. intros cs s1 n1 [[_ C1] (-> & N1 & Hcs)]. cbn beta.
  eapply x_call with (Qx := fun ps s tr => s = s0 /\ nsign tr = 0%nat /\ ncm tr = 0%nat).
  { destruct cs; [apply x_ret; repeat split; reflexivity|].
    eapply x_conseq; [apply (x_conj _ _ _ _ (d_PreCommitSent s0 HT) (os_spec PreCommitPayloads s0))|]. cbn. intros r s n [[_ C] (A & B & _)]. split; [exact A|split; [exact B|apply nocm_ncm; exact C]]. }
  intros ps s2 n2 (-> & N2 & C2). cbn beta.
  assert (I2 : I3g vs mi ((g0 ++ n1) ++ n2) s0) by (apply I3g_pad; [apply I3g_pad; assumption|assumption]).
  assert (V2 : L6g vs mi ((g0 ++ n1) ++ n2)) by (apply L6g_pad; [apply L6g_pad; [assumption|apply nocm_ncm; exact C1]|assumption]).
  destruct (cs || ps) eqn:Ecp.
  { eapply x_conseq; [apply (kmq_of_kd _ d_sendRecoveryMessage vs mi ((g0 ++ n1) ++ n2) s0 HT I2 V2)|fixapp]. }
  apply orb_false_iff in Ecp. destruct Ecp as [-> _].
  assert (Hz : Z0 vs mi ((g0 ++ n1) ++ n2)).
  { intros Hk Hs. pose proof Hk as Hk'. apply KS_app in Hk'. destruct Hk' as [Hk1 _]. apply KS_app in Hk1. destruct Hk1 as [Hk0 Hkn1].
    rewrite !nsign_app, N1, N2, !Nat.add_0_r. apply (unsigned_when_no_own_commit vs mi g0 s0 H0 Hk0); [|exact Hs].
    specialize (Hcs mi Hkn1). destruct (slot (CommitPayloads s0) (MyIndex s0)); [discriminate Hcs|reflexivity]. }
  match goal with |- hx _ ?prog _ => assert (Hrest : kmz prog) by kmz_go end.
  eapply x_conseq; [apply (Hrest vs mi ((g0 ++ n1) ++ n2) s0 HT I2 Hz)|fixapp].
Qed.
Hint Resolve mq_onChangeView : kmqdb.

Lemma m_onPrepareRequest m : km (onPrepareRequest cfg ic m).
Proof.
  intros vs mi g0 s0 J0 HT H0 H5. unfold onPrepareRequest.
  eapply x_call; [apply rsor_spec|]. intros rs s1 n1 (-> & -> & Hrs). cbn beta. cbn [app]. destruct rs.
  { assert (Hl : kd (_ <- ViewChanging ;; ret tt)) by kd_go. eapply x_conseq; [apply (kmq_of_kd _ Hl vs mi g0 s0 HT H0 H5)|fixapp]. }
  specialize (Hrs eq_refl).
  assert (Hh : header s0 = None).
  { destruct (header s0) as [b|] eqn:E; [|reflexivity]. destruct (i_h2 _ J0 b E) as [r Hr]. rewrite Hrs in Hr. discriminate Hr. }
  assert (Hz : Z0 vs mi g0) by (intros Hk Hs; apply (unsigned_when_no_header vs mi g0 s0 H0 Hk Hh Hs)).
  match goal with |- hx _ ?prog _ => assert (Hrest : kmz prog) end.
  { kmz_go. all: try (destruct (p_body m) as [[]|]; kmz_go). }
  eapply x_conseq; [apply (Hrest vs mi g0 s0 HT H0 Hz)|fixapp].
Qed.
Hint Resolve m_onPrepareRequest : kmdb.

Lemma m_receive_common d m : (forall x, K2 (d x)) -> (forall x, kqi (d x)) -> (forall x, kt (d x)) -> (forall x, km (d x)) -> km (receive_common d m).
Proof. intros HdK Hdq Hdt Hd. unfold receive_common. km_go. Qed.
Lemma m_dispatch0 m : km (dispatch0 cfg ic m). Proof. unfold dispatch0. destruct (p_type m) eqn:Ty; km_go. Qed.
Hint Resolve m_dispatch0 : kmdb.
Lemma m_nestedReceive0 m : km (nestedReceive0 cfg ic m).
Proof.
  unfold nestedReceive0. apply km_bind; [solveK2|solvekqi|solvekt|km_leaf|intros _].
  apply m_receive_common; [intros x; apply Kd0|intros x; apply Id0|intros x; apply Td0|intros x; apply m_dispatch0].
Qed.
Hint Resolve m_nestedReceive0 : kmdb.
Lemma m_onRecoveryMessage m : km (onRecoveryMessage cfg ic m).
Proof. unfold onRecoveryMessage. destruct (p_body m); [apply km_panic|]. cbv zeta. km_go. Qed.
Hint Resolve m_onRecoveryMessage : kmdb.
Lemma m_dispatch m : km (dispatch cfg ic m). Proof. unfold dispatch. destruct (p_type m) eqn:Ty; km_go. Qed.
Lemma m_OnReceive m : km (OnReceive cfg ic m).
Proof. unfold OnReceive. apply m_receive_common; [intros x; apply Kdis|intros x; apply Idis|intros x; apply Tdis|intros x; apply m_dispatch]. Qed.
Hint Resolve m_OnReceive : kmdb.
Lemma m_replay_map n : forall entries, km (replay_map cfg ic n entries).
Proof.
  pose proof (K_replay_map cfg ic HicK) as HKr. pose proof (i_replay_map cfg ic HicK Hic3) as Hqr. pose proof (T_replay_map cfg ic Hict) as Htr.
  induction n as [|n IH]; intros entries; destruct entries as [|e entries]; cbn [replay_map]; try apply km_ret. km_go.
Qed.
End WithIcM.
End RecM.

Section ApiM.
Variable cfg : config.
Hint Resolve h_WatchOnly h_RSOR h_own_slot h_ResponseSent h_PreCommitSent h_CommitSent h_ViewChanging h_NotAccepting h_subscribe h_unsubscribe
  h_StopTxFlow h_changeTimer h_getTimestamp h_MakePreHeader h_CreatePreBlock h_broadcast h_rtt h_makeRecoveryMessage h_sendRecoveryMessage
  h_processMissingTx h_sendRecoveryRequest h_makeChangeView h_makePreCommit h_sendPreCommit h_verifyPreCommits h_extendTimer h_GetPrimaryIndex
  h_onRecoveryRequest h_cache_addMessage h_ask_recv h_MakeHeader h_CreateBlock h_makeCommit h_sendCommit h_verifyCommits h_checkCommit
  h_checkPreCommit h_checkPrepare h_onCommit h_onPreCommit h_updateExistingPayloads : kpdb.
Hint Extern 4 (kp Inv2 G2 _) => (apply K2_of_k2; intros; solve [eauto 3 with kpdb]) : kpdb.
Hint Resolve t_WatchOnly t_RSOR t_own_slot t_ResponseSent t_PreCommitSent t_CommitSent t_ViewChanging t_NotAccepting t_subscribe t_unsubscribe
  t_StopTxFlow t_changeTimer t_getTimestamp t_Fill t_MakePreHeader t_CreatePreBlock t_broadcast t_makePrepareRequest t_rtt
  t_makeRecoveryMessage t_sendRecoveryMessage t_processMissingTx t_sendRecoveryRequest t_makeChangeView t_makePrepareResponse
  t_sendPrepareResponse t_makePreCommit t_sendPreCommit t_verifyPreCommits t_extendTimer t_GetPrimaryIndex t_onRecoveryRequest
  t_cache_addMessage t_ask_recv t_MakeHeader t_CreateBlock t_checkCommit t_verifyCommits t_updateExistingPayloads t_onCommit : kpdb.
Hint Resolve q_sendCommit q_checkPreCommit q_checkPrepare q_sendPrepareRequest q_onPrepareResponse q_onPreCommit : kqdb.
Hint Resolve K_onPrepareResponse : kpdb.
Hint Resolve c_WatchOnly c_RSOR c_own_slot c_ResponseSent c_PreCommitSent c_CommitSent c_ViewChanging c_NotAccepting c_subscribe c_unsubscribe
  c_StopTxFlow c_changeTimer c_getTimestamp c_Fill c_MakePreHeader c_CreatePreBlock c_makePrepareRequest c_rtt c_sendRecoveryMessage
  c_processMissingTx c_sendRecoveryRequest c_sendPrepareResponse c_extendTimer c_GetPrimaryIndex c_onRecoveryRequest c_cache_addMessage
  c_ask_recv c_MakeHeader c_CreateBlock c_checkCommit c_sendPreCommit c_sendCommit c_verifyCommits c_verifyPreCommits c_checkPreCommit
  c_checkPrepare c_updateExistingPayloads c_sendPrepareRequest c_onPrepareResponse c_onPreCommit c_onCommit c_makeChangeView y_broadcast : kpdb.
Hint Extern 5 (kp TY AnyC _) => (apply kt_of_kc; solve [eauto 3 with kpdb]) : kpdb.
Hint Resolve d_WatchOnly d_RSOR d_own_slot d_ResponseSent d_PreCommitSent d_CommitSent d_ViewChanging d_NotAccepting d_subscribe d_unsubscribe
  d_StopTxFlow d_changeTimer d_getTimestamp d_Fill d_MakePreHeader d_CreatePreBlock d_makePrepareRequest d_rtt d_sendRecoveryMessage
  d_processMissingTx d_sendRecoveryRequest d_sendPrepareResponse d_extendTimer d_GetPrimaryIndex d_onRecoveryRequest d_cache_addMessage
  d_ask_recv d_MakeHeader d_CreateBlock d_checkCommit d_sendPreCommit d_verifyCommits d_verifyPreCommits d_updateExistingPayloads d_onCommit
  d_makeChangeView : kpdb.

Hint Resolve mq_sendCommit mq_checkPreCommit mq_checkPrepare mq_sendPrepareRequest mq_onPrepareResponse mq_onPreCommit : kmqdb.
Lemma m_ic_rest ic view : (forall v t, K2 (ic v t)) -> ICq ic -> (forall v t, kt (ic v t)) -> ICm ic -> km (ic_rest cfg ic view).
Proof.
  intros HicK Hic Hict Hic6. pose proof (i_replay_map cfg ic HicK Hic) as Hr. pose proof (K_replay_map cfg ic HicK) as HKr.
  pose proof (T_replay_map cfg ic Hict) as Htr. pose proof (m_replay_map cfg ic HicK Hic Hict Hic6) as Hlr.
  unfold ic_rest. km_go.
Qed.
Lemma m_ic_body ic : (forall v t, K2 (ic v t)) -> ICq ic -> (forall v t, kt (ic v t)) -> ICm ic -> ICm (initializeConsensus_body cfg ic).
Proof.
  intros HicK Hic Hict Hic6 view ts vs mi g0 s0 HT H0 Hv. rewrite ic_body_unfold.
  eapply x_call; [apply (x_conj _ _ _ _ (x_conj _ _ _ _ (reset_spec cfg view ts s0) (c_reset cfg view ts s0 HT)) (reset_q cfg view ts vs mi g0 s0 H0 Hv))|].
  intros [] s1 n1 [[(J1 & _) (T1 & _)] (I1 & N1)]. cbn beta.
  assert (V1 : L6g vs mi (g0 ++ n1)).
  { apply L6g_unsigned. intros Hk Hs. apply KS_app in Hk. destruct Hk as [Hk0 _]. destruct (Hv Hk0) as [_ Hz]. rewrite nsign_app, N1, (Hz Hs). reflexivity. }
  eapply x_conseq; [apply (m_ic_rest ic view HicK Hic Hict Hic6 vs mi (g0 ++ n1) s1 J1 T1 I1 V1)|]. cbn. intros _ s n P. rewrite app_assoc. exact P.
Qed.
Lemma m_initializeConsensus fuel : ICm (initializeConsensus cfg fuel).
Proof.
  induction fuel as [|f IH]; [intros v t vs mi g0 s0 _ _ _; apply x_oof|]. cbn [initializeConsensus].
  apply m_ic_body; [intros v t; apply K2_initializeConsensus|apply q_initializeConsensus|intros v t; apply T_initializeConsensus|exact IH].
Qed.
Lemma m_init : ICm (init cfg). Proof. apply m_initializeConsensus. Qed.
Let HK := fun v t => K_init cfg v t.
Let HQ := q_init cfg.
Let HT := fun v t => T_init cfg v t.
Let HM := m_init.

Definition Fresh6 (s : nstate) (tr : tr_t) : Prop := forall mi, L6g (Validators s) mi tr.
Lemma L6g_Fresh5 s tr : (forall mi, exists vs, I3g vs mi tr s /\ L6g vs mi tr) -> Fresh6 s tr.
Proof.
  intros H mi Hk Hs. destruct (H mi) as (vs & H3 & H5). pose proof (H3 Hk) as HI. assert (E : Validators s = vs) by apply HI.
  rewrite E in Hs. apply (H5 Hk Hs).
Qed.

Lemma init_0m ts s0 : TY s0 -> hx s0 (init cfg 0 ts) (fun _ s tr => Fresh6 s tr).
Proof.
  intros HT0. rewrite init_unfold. pose proof (q_initializeConsensus cfg 257) as Hic. pose proof (K2_initializeConsensus cfg 257) as HicK.
  pose proof (T_initializeConsensus cfg 257) as Hict. pose proof (m_initializeConsensus 257) as Hic6.
  revert Hic HicK Hict Hic6. generalize (initializeConsensus cfg 257) as ic. intros ic Hic HicK Hict Hic6. rewrite ic_body_unfold.
  eapply x_call; [apply (x_conj _ _ _ _ (x_conj _ _ _ _ (reset_spec cfg 0 ts s0) (c_reset cfg 0 ts s0 HT0)) (reset_0 cfg ts s0))|].
  intros [] s1 n1 [[(J1 & _) (T1 & _)] (N1 & P1)]. cbn beta.
  assert (HF : hx s1 (ic_rest cfg ic 0) (fun _ s tr => forall mi, I3g (Validators s1) mi (n1 ++ tr) s /\ L6g (Validators s1) mi (n1 ++ tr))).
  { apply (x_forall 0 s1 _ (fun mi _ s tr => I3g (Validators s1) mi (n1 ++ tr) s /\ L6g (Validators s1) mi (n1 ++ tr))). intros mi.
    assert (I1 : I3g (Validators s1) mi n1 s1) by (intros Hk; rewrite N1; apply (P1 mi _ Hk)).
    assert (V1 : L6g (Validators s1) mi n1) by (apply L6g_unsigned; intros _ _; exact N1).
    apply (x_conj _ _ _ _ (i_ic_rest cfg ic 0 HicK Hic (Validators s1) mi n1 s1 J1 I1) (m_ic_rest ic 0 HicK Hic Hict Hic6 (Validators s1) mi n1 s1 J1 T1 I1 V1)). }
  eapply x_conseq; [apply HF|]. cbn. intros _ s n P. apply L6g_Fresh5. intros mi. exists (Validators s1). apply P.
Qed.

Lemma fresh_Start6 ts s0 : TY s0 -> hx s0 (Start cfg ts) (fun _ s tr => Fresh6 s tr).
Proof.
  intros HT0. unfold Start. apply x_modify.
  match goal with |- hx ?st _ _ => assert (HT1 : TY st) by (destruct HT0; split; assumption) end.
  eapply x_call; [apply (x_conj _ _ _ _ (x_conj _ _ _ _ (init_0 cfg ts _) (T_init cfg 0 ts _ HT1)) (init_0m ts _ HT1))|]. intros [] s1 n1 [[[J1 F1] [T1 _]] F5]. cbn beta.
  match goal with |- hx _ ?prog _ => assert (Hq : kq prog) by kq_go; assert (Hv : kmq prog) by kmq_go end.
  eapply x_conseq; [apply (x_forall 0 s1 _ (fun mi _ s tr => I3g (Validators s1) mi (n1 ++ tr) s /\ L6g (Validators s1) mi (n1 ++ tr)))|].
  - intros mi. apply (x_conj _ _ _ _ (Hq (Validators s1) mi n1 s1 (Fresh3_I3g _ _ _ F1)) (Hv (Validators s1) mi n1 s1 T1 (Fresh3_I3g _ _ _ F1) (F5 mi))).
  - cbn. intros _ s n P. apply L6g_Fresh5. intros mi. exists (Validators s1). apply P.
Qed.

Lemma kmq_os_commit {B} (f : bool -> M B) : kmq (f true) -> kmz (f false) -> kmq (bind CommitSent f).
Proof.
  intros Ht Hf vs mi g0 s0 HT0 H0 H5. eapply x_call; [apply (x_conj _ _ _ _ (d_CommitSent s0 HT0) (os_spec CommitPayloads s0))|].
  intros cs s1 n1 [[_ C1] (-> & N1 & Hcs)]. cbn beta.
  assert (I1 : I3g vs mi (g0 ++ n1) s0) by (apply I3g_pad; assumption).
  assert (V1 : L6g vs mi (g0 ++ n1)) by (apply L6g_pad; [assumption|apply nocm_ncm; exact C1]).
  destruct cs.
  - eapply x_conseq; [apply (Ht vs mi (g0 ++ n1) s0 HT0 I1 V1)|]. cbn. intros b s n P. rewrite app_assoc. exact P.
  - eapply x_conseq; [apply (Hf vs mi (g0 ++ n1) s0 HT0 I1)|].
    + intros Hk Hs. apply KS_app in Hk. destruct Hk as [Hk0 Hk1]. rewrite nsign_app, N1, Nat.add_0_r.
      apply (unsigned_when_no_own_commit vs mi g0 s0 H0 Hk0); [|exact Hs].
      specialize (Hcs mi Hk1). destruct (slot (CommitPayloads s0) (MyIndex s0)); [discriminate Hcs|reflexivity].
    + cbn. intros b s n P. rewrite app_assoc. exact P.
Qed.
Ltac lvl0 := apply kq_of_k3; solvek3.
Ltac lvl0t := apply kt_of_kc; solvekc.
Ltac lvl0m := apply kmq_of_kd; solvekd.
Lemma mq_OnTransaction t : kmq (OnTransaction cfg t).
Proof.
  assert (Ha : forall t, kmz (addTransaction cfg (init cfg) t)) by (exact (mz_addTransaction cfg (init cfg) HK HQ HT HM)).
  assert (Haz : forall t, kz (addTransaction cfg (init cfg) t)) by (exact (z_addTransaction cfg (init cfg) HK HQ)).
  assert (Hat : forall t, kt (addTransaction cfg (init cfg) t)) by (exact (T_addTransaction cfg (init cfg) HT)).
  unfold OnTransaction. apply kmq_get_bind; intro s. destruct (negb (IsBackup s)); [apply kmq_ret|].
  apply kmq_bind; [lvl0|lvl0t|lvl0m|intro na]. destruct na; [apply kmq_ret|].
  apply kmq_bind; [lvl0|lvl0t|lvl0m|intro rs]. destruct (negb rs); [apply kmq_ret|].
  apply kmq_bind; [lvl0|lvl0t|lvl0m|intro x1]. destruct x1; [apply kmq_ret|].
  apply kmq_bind; [lvl0|lvl0t|lvl0m|intro x2]. destruct x2; [apply kmq_ret|].
  apply kmq_os_commit; [cbv beta iota; apply kmq_ret|cbv beta iota; kmz_go].
Qed.
Lemma mq_onTimeout h v f : kmq (onTimeout cfg h v f).
Proof.
  assert (Hs : forall r, kmz (sendChangeView (init cfg) r)) by (exact (mz_sendChangeView cfg (init cfg) HK HQ HT HM)).
  assert (Hsz : forall r, kz (sendChangeView (init cfg) r)) by (exact (z_sendChangeView cfg (init cfg) HK HQ)).
  assert (Hst : forall r, kt (sendChangeView (init cfg) r)) by (exact (T_sendChangeView (init cfg) HT)).
  unfold onTimeout. apply kmq_bind; [lvl0|lvl0t|lvl0m|intro wo]. apply kmq_get_bind; intro s.
  destruct (wo || blockProcessed s); [apply kmq_ret|]. destruct (_ || _); [apply kmq_ret|].
  apply kmq_bind; [destruct (IsPrimary s); [lvl0|apply kq_ret]|destruct (IsPrimary s); [lvl0t|apply kp_ret]|destruct (IsPrimary s); [lvl0m|apply kmq_ret]|intro rs].
  destruct (IsPrimary s && negb rs); [apply mq_sendPrepareRequest|].
  destruct (_ || _); [|apply kmq_ret].
  apply kmq_os_commit; [cbv beta iota; cbn [orb]; kmq_go|cbv beta iota; cbn [orb]; kmz_go].
Qed.
Lemma mq_OnNewTransaction : kmq (OnNewTransaction cfg).
Proof. unfold OnNewTransaction. pose proof (q_onTimeout cfg) as Ht. pose proof mq_onTimeout as Hv. pose proof (T_onTimeout cfg) as Htt. kmq_go. Qed.

Lemma m_run_event e : continues e -> km (run_event cfg e).
Proof.
  destruct e; cbn [run_event continues]; intros Hc; try contradiction.
  - apply (m_OnReceive cfg (init cfg) HK HQ HT HM). - apply km_of_klq, mq_onTimeout. - apply km_of_klq, mq_OnTransaction. - apply km_of_klq, mq_OnNewTransaction.
Qed.

Theorem epoch_inv6 st g : Epoch cfg st g -> Fresh6 st g.
Proof.
  induction 1 as [st ts sc st' tr HR Hs|st ts sc st' tr HR Hs|st g ev sc st' tr HE IH Hc Hs].
  - apply (step_hx cfg st (EStart ts) sc st' tr (fun s n => Fresh6 s n) (fresh_Start6 ts st (typed_reach cfg st HR)) Hs).
  - apply (step_hx cfg st (EReset ts) sc st' tr (fun s n => Fresh6 s n) (init_0m ts st (typed_reach cfg st HR)) Hs).
  - apply L6g_Fresh5. intros mi. exists (Validators st).
    apply (step_hx cfg st ev sc st' tr (fun s n => I3g (Validators st) mi (g ++ n) s /\ L6g (Validators st) mi (g ++ n))); [|exact Hs].
    pose proof (epoch_reach cfg st g HE) as HR.
    pose proof (proposal_reach cfg st HR) as J. pose proof (typed_reach cfg st HR) as HTy.
    pose proof (Fresh3_I3g _ _ mi (epoch_inv cfg st g HE)) as H3.
    apply (x_conj _ _ _ _ (i_run_event cfg ev Hc (Validators st) mi g st J H3) (m_run_event ev Hc (Validators st) mi g st J HTy H3 (IH mi))).
Qed.

(* from the first signature request on, every Commit the node broadcasts is the commit built at that request *)
Theorem every_commit_broadcast_is_the_signed_commit st g mi g1 s p g2 :
  Epoch cfg st g -> KS mi g -> zlen (Validators st) <= 65536 ->
  g = g1 ++ (s, CBroadcast p) :: g2 -> p_type p = CommitT -> nsign g1 <> 0%nat ->
  exists c, signed_commit g1 = Some c /\ p = c <| p_idx := u16 (MyIndex s) |>.
Proof. intros HE Hk Hs E Ty Hn. apply (epoch_inv6 st g HE mi Hk Hs g1 s p g2 E Ty Hn). Qed.
(* ... so two Commit broadcasts made after the signature - in the same call or in different calls of the epoch, at moments when
   the node reports the same index - carry the same payload *)
Corollary commit_broadcasts_after_the_signature_are_identical st g mi g1 s p g2 g1' s' p' g2' :
  Epoch cfg st g -> KS mi g -> zlen (Validators st) <= 65536 ->
  g = g1 ++ (s, CBroadcast p) :: g2 -> p_type p = CommitT -> nsign g1 <> 0%nat ->
  g = g1' ++ (s', CBroadcast p') :: g2' -> p_type p' = CommitT -> nsign g1' <> 0%nat ->
  MyIndex s = MyIndex s' -> p = p'.
Proof.
  intros HE Hk Hs E Ty Hn E' Ty' Hn' Hi.
  destruct (every_commit_broadcast_is_the_signed_commit st g mi g1 s p g2 HE Hk Hs E Ty Hn) as (c & C1 & ->).
  destruct (every_commit_broadcast_is_the_signed_commit st g mi g1' s' p' g2' HE Hk Hs E' Ty' Hn') as (c' & C1' & ->).
  assert (Ec : c = c').
  { assert (P1 : signed_commit g = Some c) by (rewrite E; rewrite (signed_commit_prefix g1 _ Hn); exact C1).
    assert (P2 : signed_commit g = Some c') by (rewrite E'; rewrite (signed_commit_prefix g1' _ Hn'); exact C1').
    rewrite P1 in P2. injection P2 as P2. exact P2. }
  rewrite Ec, Hi. reflexivity.
Qed.
End ApiM.


(* boolean checks of a recorded history against the hypotheses of the theorem (non-vacuity example): an epoch with one signature
   request whose trace satisfies a computable condition - here: a Commit broadcast preceded by a signature request *)
Definition epoch_with_okb (cfg : config) (h : list (event * list call)) (mi : Z) (f : tr_t -> bool) : bool :=
  match h with
  | (EStart ts, sc) :: r =>
      match step cfg fresh_state (EStart ts) sc with
      | Ok (s1, tr1) =>
          match replay cfg s1 r with
          | Some (sf, l) =>
              let g := tr1 ++ concat (map snd l) in
              forallb continuesb (map fst r) && KSb mi g && (zlen (Validators sf) <=? 65536) && Nat.eqb (nsign g) 1 && f g
          | None => false end
      | _ => false end
  | _ => false end.
Lemma epoch_with_okb_sound cfg h mi f : epoch_with_okb cfg h mi f = true ->
  exists st g, Epoch cfg st g /\ KS mi g /\ zlen (Validators st) <= 65536 /\ nsign g = 1%nat /\ f g = true.
Proof.
  unfold epoch_with_okb. destruct h as [|[ev sc] r]; [discriminate|]. destruct ev; try discriminate.
  destruct (step cfg fresh_state (EStart ts) sc) as [[s1 tr1]| | | |] eqn:Es; try discriminate.
  destruct (replay cfg s1 r) as [[sf l]|] eqn:Er; [|discriminate]. cbv zeta. intros H.
  apply andb_true_iff in H. destruct H as [H H5]. apply andb_true_iff in H. destruct H as [H H4]. apply andb_true_iff in H. destruct H as [H H3].
  apply andb_true_iff in H. destruct H as [H1 H2].
  exists sf, (tr1 ++ concat (map snd l)). split; [|split; [|split; [|split]]].
  - apply (replay_epoch cfg r s1 sf l tr1); [eapply EpochStart; [apply Reach0|exact Es]|exact H1|exact Er].
  - apply KSb_sound. exact H2.
  - apply Z.leb_le in H3. exact H3.
  - apply Nat.eqb_eq in H4. exact H4.
  - exact H5.
Qed.
Fixpoint cm_after_sign (k : nat) (g : tr_t) : bool :=
  match g with
  | [] => false
  | (s, c) :: r => (is_cm c && negb (Nat.eqb k 0)) || cm_after_sign (k + (if is_sign c then 1 else 0)) r
  end.
Lemma cm_after_sign_sound g : forall k, cm_after_sign k g = true ->
  exists g1 s p g2, g = g1 ++ (s, CBroadcast p) :: g2 /\ p_type p = CommitT /\ (k + nsign g1 <> 0)%nat.
Proof.
  induction g as [|[s c] r IH]; intros k H; [discriminate H|]. cbn [cm_after_sign] in H. apply orb_true_iff in H. destruct H as [H|H].
  - apply andb_true_iff in H. destruct H as [Hc Hk]. apply negb_true_iff, Nat.eqb_neq in Hk.
    destruct c; try discriminate Hc. exists [], s, p, r. split; [reflexivity|split; [|cbn; lia]].
    cbn in Hc. destruct (p_type p); try discriminate Hc. reflexivity.
  - destruct (IH _ H) as (g1 & s' & p & g2 & E & Ty & Hn). exists ((s, c) :: g1), s', p, g2. split; [rewrite E; reflexivity|split; [exact Ty|]].
    unfold nsign in *. cbn [filter snd]. destruct (is_sign c); cbn [length]; lia.
Qed.
