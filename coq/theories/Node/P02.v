(* C02, "the accepted block contains exactly the view's primary proposal": at every ProcessBlock callback of every history the
   block handed over is the node's header, whose timestamp, nonce and transaction list (in order) are those of the
   PrepareRequest stored in the primary's slot.  Whole-model invariant Inv2 + gate G2. *)
From DbftV Require Export NoPanic.

Record Inv2 (s : nstate) : Prop := {
  i_h1 : forall b, header s = Some b -> b_ts b = Timestamp s /\ b_nonce b = Nonce s /\ b_hashes b = TransactionHashes s;
  i_h0 : forall b, header s = Some b -> b_index b = BlockIndex s /\ b_prev b = PrevHash s;
  i_h2 : forall b, header s = Some b -> exists r, slot (PreparationPayloads s) (PrimaryIndex s) = Some r;
  i_k4 : forall r, slot (PreparationPayloads s) (PrimaryIndex s) = Some r -> p_type r = PrepareRequestT;
  i_rc : forall r ts n hs, slot (PreparationPayloads s) (PrimaryIndex s) = Some r -> p_body r = B0 (BPrepareRequest ts n hs) ->
         ts = Timestamp s /\ n = Nonce s /\ hs = TransactionHashes s;
  i_who : forall r, slot (PreparationPayloads s) (PrimaryIndex s) = Some r -> p_view r = ViewNumber s;
  i_pf : 0 < N s -> PrimaryIndex s = primary_of s (ViewNumber s);
  i_p1 : forall pb, preheader s = Some pb -> pb_ts pb = Timestamp s /\ pb_nonce pb = Nonce s /\ pb_hashes pb = TransactionHashes s /\
                                             pb_index pb = BlockIndex s /\ pb_prev pb = PrevHash s;
  i_p2 : forall pb, preheader s = Some pb -> exists r, slot (PreparationPayloads s) (PrimaryIndex s) = Some r }.

Definition HdrIsProposal (s : nstate) (h : hash) : Prop :=
  exists b r, header s = Some b /\ h = block_hash b /\ slot (PreparationPayloads s) (PrimaryIndex s) = Some r /\
              p_body r = B0 (BPrepareRequest (b_ts b) (b_nonce b) (b_hashes b)) /\
              p_view r = ViewNumber s /\ b_index b = BlockIndex s /\ b_prev b = PrevHash s.
Definition PreHdrIsProposal (s : nstate) (h : hash) : Prop :=
  exists pb r, preheader s = Some pb /\ h = preblock_hash pb /\ slot (PreparationPayloads s) (PrimaryIndex s) = Some r /\
               p_body r = B0 (BPrepareRequest (pb_ts pb) (pb_nonce pb) (pb_hashes pb)) /\
               p_view r = ViewNumber s /\ pb_index pb = BlockIndex s /\ pb_prev pb = PrevHash s.
Definition G2 (s : nstate) (c : call) : Prop :=
  match c with
  | CProcessBlock h _ => HdrIsProposal s h
  | CSign h => HdrIsProposal s h /\ slot (CommitPayloads s) (MyIndex s) = None
  | CProcessPreBlock h _ => PreHdrIsProposal s h
  | CSetData h => PreHdrIsProposal s h /\ slot (PreCommitPayloads s) (MyIndex s) = None
  | _ => True end.

(* the invariant with the node's position and the view's primary frozen (every function outside the open recursion keeps them),
   with the primary's slot still empty (Inv4), and with the values of the proposal frozen as well (Inv5) *)
Definition Inv2c (mi pi vn : Z) (s : nstate) : Prop := Inv2 s /\ MyIndex s = mi /\ PrimaryIndex s = pi /\ ViewNumber s = vn.
Definition Inv4 (mi pi vn : Z) (s : nstate) : Prop :=
  Inv2 s /\ MyIndex s = mi /\ PrimaryIndex s = pi /\ ViewNumber s = vn /\ slot (PreparationPayloads s) (PrimaryIndex s) = None.
Definition Inv5 (mi pi vn ts n : Z) (hs : list hash) (s : nstate) : Prop :=
  Inv4 mi pi vn s /\ Timestamp s = ts /\ Nonce s = n /\ TransactionHashes s = hs.
Notation K2 x := (kp Inv2 G2 x).
Notation k2 x := (forall mi pi vn, kp (Inv2c mi pi vn) G2 x).
Notation k4 x := (forall mi pi vn, kp (Inv4 mi pi vn) G2 x).
Notation k5 x := (forall mi pi vn ts n hs, kp (Inv5 mi pi vn ts n hs) G2 x).

Definition Same2 (a b : nstate) : Prop :=
  header b = header a /\ Timestamp b = Timestamp a /\ Nonce b = Nonce a /\ TransactionHashes b = TransactionHashes a /\
  PreparationPayloads b = PreparationPayloads a /\ PrimaryIndex b = PrimaryIndex a /\ Validators b = Validators a /\
  BlockIndex b = BlockIndex a /\ ViewNumber b = ViewNumber a /\ PrevHash b = PrevHash a /\ preheader b = preheader a.
Lemma inv2_same a b : Same2 a b -> Inv2 a -> Inv2 b.
Proof.
  intros (E1 & E2 & E3 & E4 & E5 & E6 & E7 & E8 & E9 & E10 & E11) [J1 J0 J2 J3 J4 J6 J5 J7 J8].
  constructor; unfold N, primary_of, N in *; rewrite ?E1, ?E2, ?E3, ?E4, ?E5, ?E6, ?E7, ?E8, ?E9, ?E10, ?E11; assumption.
Qed.
(* while the primary's slot is empty there is no header, and the proposal fields are free *)
Definition Same4 (a b : nstate) : Prop :=
  header b = header a /\ PreparationPayloads b = PreparationPayloads a /\ PrimaryIndex b = PrimaryIndex a /\ Validators b = Validators a /\
  BlockIndex b = BlockIndex a /\ ViewNumber b = ViewNumber a /\ PrevHash b = PrevHash a /\ preheader b = preheader a.
Lemma inv2_none a b : Inv2 a -> slot (PreparationPayloads a) (PrimaryIndex a) = None -> Same4 a b -> Inv2 b.
Proof.
  intros [J1 J0 J2 J3 J4 J6 J5 J7 J8] Hn (E1 & E5 & E6 & E7 & E8 & E9 & E10 & E11).
  constructor; unfold N, primary_of, N in *; rewrite ?E1, ?E5, ?E6, ?E7, ?E8, ?E9, ?E10, ?E11; try assumption.
  - intros b0 Hb. destruct (J2 b0 Hb) as [r Hr]. rewrite Hn in Hr. discriminate Hr.
  - rewrite Hn. discriminate.
  - intros b0 Hb. destruct (J8 b0 Hb) as [r Hr]. rewrite Hn in Hr. discriminate Hr.
Qed.

Ltac leafG2 :=
  idtac; match goal with
  | H : _ = Some _ |- G2 _ ?c => destruct c; try exact I; cbn in H; discriminate H
  end.
Ltac leaf2 :=
  idtac; match goal with
  | H : Inv2c _ _ _ ?s |- Inv2c _ _ _ _ =>
      let HI := fresh in let E1 := fresh in let E2 := fresh in let E0 := fresh in destruct H as (HI & E1 & E2 & E0);
      split; [apply (inv2_same s); [unfold Same2; cbn; repeat split; reflexivity|exact HI]|split; [exact E1|split; [exact E2|exact E0]]]
  | _ => leafG2
  end.
Ltac leaf4 :=
  idtac; match goal with
  | H : Inv4 _ _ _ ?s |- Inv4 _ _ _ _ =>
      let HI := fresh in let E1 := fresh in let E2 := fresh in let E3 := fresh in let E0 := fresh in destruct H as (HI & E1 & E2 & E0 & E3);
      repeat match goal with |- context[if ?b then _ else _] => destruct b end;
      (split; [apply (inv2_none s); [exact HI|exact E3|unfold Same4; cbn; repeat split; reflexivity]|split; [exact E1|split; [exact E2|split; [exact E0|exact E3]]]])
  | _ => leafG2
  end.
Ltac leaf5 :=
  idtac; match goal with
  | H : Inv5 _ _ _ _ _ _ ?s |- Inv5 _ _ _ _ _ _ _ =>
      let H4 := fresh in let F1 := fresh in let F2 := fresh in let F3 := fresh in destruct H as (H4 & F1 & F2 & F3);
      split; [leaf4|split; [exact F1|split; [exact F2|exact F3]]]
  | _ => leafG2
  end.
Ltac k2_go := let mi := fresh "mi" in let pi := fresh "pi" in let vn := fresh "vn" in intros mi pi vn; kp_go leaf2.
Ltac k4_go := let mi := fresh "mi" in let pi := fresh "pi" in let vn := fresh "vn" in intros mi pi vn; kp_go leaf4.
Ltac k5_go := let mi := fresh "mi" in let pi := fresh "pi" in let vn := fresh "vn" in let ts := fresh "ts" in let n := fresh "n" in let hs := fresh "hs" in
  intros mi pi vn ts n hs; kp_go leaf5.
Ltac leafK :=
  idtac; match goal with
  | H : Inv2 ?s |- Inv2 _ => apply (inv2_same s); [unfold Same2; cbn; repeat split; reflexivity|exact H]
  | _ => leafG2
  end.

Section Auto2.
Variable cfg : config.
Lemma h_WatchOnly : k2 WatchOnly. Proof. unfold WatchOnly. k2_go. Qed.
Lemma h_RSOR : k2 RequestSentOrReceived. Proof. unfold RequestSentOrReceived. k2_go. Qed.
Hint Resolve h_WatchOnly h_RSOR : kpdb.
Lemma h_own_slot tbl : k2 (own_slot tbl). Proof. unfold own_slot. k2_go. Qed.
Lemma h_ResponseSent : k2 ResponseSent. Proof. apply h_own_slot. Qed.
Lemma h_PreCommitSent : k2 PreCommitSent. Proof. apply h_own_slot. Qed.
Lemma h_CommitSent : k2 CommitSent. Proof. apply h_own_slot. Qed.
Lemma h_ViewChanging : k2 ViewChanging. Proof. unfold ViewChanging. k2_go. Qed.
Hint Resolve h_own_slot h_ResponseSent h_PreCommitSent h_CommitSent h_ViewChanging : kpdb.
Lemma h_NotAccepting : k2 NotAcceptingPayloadsDueToViewChanging. Proof. unfold NotAcceptingPayloadsDueToViewChanging. k2_go. Qed.
Lemma h_subscribe : k2 subscribeForTransactions. Proof. unfold subscribeForTransactions. k2_go. Qed.
Lemma h_unsubscribe : k2 unsubscribeFromTransactions. Proof. unfold unsubscribeFromTransactions. k2_go. Qed.
Lemma h_StopTxFlow : k2 StopTxFlow. Proof. unfold StopTxFlow. k2_go. Qed.
Lemma h_changeTimer d : k2 (changeTimer d). Proof. unfold changeTimer. k2_go. Qed.
Hint Resolve h_NotAccepting h_subscribe h_unsubscribe h_StopTxFlow h_changeTimer : kpdb.
Lemma h_getTimestamp : k2 (getTimestamp cfg). Proof. unfold getTimestamp. k2_go. Qed.
Hint Resolve h_getTimestamp : kpdb.
Lemma h_broadcast m : k2 (broadcast m). Proof. unfold broadcast. k2_go. Qed.
Lemma h_rtt t : k2 (rtt_addTime t). Proof. unfold rtt_addTime. k2_go. Qed.
Hint Resolve h_broadcast h_rtt : kpdb.
Lemma h_makeRecoveryMessage : k2 makeRecoveryMessage. Proof. unfold makeRecoveryMessage. k2_go. Qed.
Hint Resolve h_makeRecoveryMessage : kpdb.
Lemma h_sendRecoveryMessage : k2 sendRecoveryMessage. Proof. unfold sendRecoveryMessage. k2_go. Qed.
Lemma h_processMissingTx : k2 processMissingTx. Proof. unfold processMissingTx. k2_go. Qed.
Hint Resolve h_sendRecoveryMessage h_processMissingTx : kpdb.
Lemma h_sendRecoveryRequest : k2 sendRecoveryRequest. Proof. unfold sendRecoveryRequest. k2_go. Qed.
Lemma h_makeChangeView ts r : k2 (makeChangeView ts r). Proof. unfold makeChangeView. k2_go. Qed.
Hint Resolve h_sendRecoveryRequest h_makeChangeView : kpdb.
Lemma h_extendTimer c : k2 (extendTimer cfg c). Proof. unfold extendTimer. k2_go. Qed.
Hint Resolve h_extendTimer : kpdb.
Lemma h_GetPrimaryIndex s v : k2 (GetPrimaryIndex s v). Proof. unfold GetPrimaryIndex. k2_go. Qed.
Hint Resolve h_GetPrimaryIndex : kpdb.
Lemma h_onRecoveryRequest m : k2 (onRecoveryRequest cfg m). Proof. unfold onRecoveryRequest. k2_go. Qed.
Lemma h_cache_addMessage m : k2 (cache_addMessage m). Proof. unfold cache_addMessage. k2_go. Qed.
Lemma h_ask_recv m : k2 (ask_recv m). Proof. unfold ask_recv. k2_go. Qed.

(* the helpers that run while the primary's slot is still empty *)
Lemma q_WatchOnly : k4 WatchOnly. Proof. unfold WatchOnly. k4_go. Qed.
Lemma q_StopTxFlow : k4 StopTxFlow. Proof. unfold StopTxFlow. k4_go. Qed.
Lemma q_changeTimer d : k4 (changeTimer d). Proof. unfold changeTimer. k4_go. Qed.
Lemma q_subscribe : k4 subscribeForTransactions. Proof. unfold subscribeForTransactions. k4_go. Qed.
Lemma q_getTimestamp : k4 (getTimestamp cfg). Proof. unfold getTimestamp. k4_go. Qed.
Hint Resolve q_WatchOnly q_StopTxFlow q_changeTimer q_subscribe q_getTimestamp : kpdb.
Lemma q_own_slot tbl : k4 (own_slot tbl). Proof. unfold own_slot. k4_go. Qed.
Lemma q_PreCommitSent : k4 PreCommitSent. Proof. apply q_own_slot. Qed.
Lemma q_CommitSent : k4 CommitSent. Proof. apply q_own_slot. Qed.
Lemma q_ViewChanging : k4 ViewChanging. Proof. unfold ViewChanging. k4_go. Qed.
Hint Resolve q_own_slot q_PreCommitSent q_CommitSent q_ViewChanging : kpdb.
Lemma q_Fill f : k4 (Fill cfg f). Proof. unfold Fill. k4_go. Qed.
Lemma q_extendTimer c : k4 (extendTimer cfg c). Proof. unfold extendTimer. k4_go. Qed.
Lemma r_unsubscribe : k5 unsubscribeFromTransactions. Proof. unfold unsubscribeFromTransactions. k5_go. Qed.
Lemma r_processMissingTx : k5 processMissingTx. Proof. unfold processMissingTx. k5_go. Qed.
End Auto2.

(* ---- slots under checked updates ---- *)
Lemma slot_set_same t i v l : set_chk t (Z.to_nat i) v = Some l -> 0 <= i -> slot l i = v.
Proof. intros H Hi. unfold slot. destruct (i <? 0) eqn:E; [apply Z.ltb_lt in E; lia|]. rewrite (nth_set_same _ _ _ _ H). reflexivity. Qed.
Lemma slot_set_other t i j v l : set_chk t (Z.to_nat i) v = Some l -> 0 <= i -> i <> j -> slot l j = slot t j.
Proof.
  intros H Hi Hne. unfold slot. destruct (j <? 0) eqn:E; [reflexivity|]. apply Z.ltb_ge in E.
  rewrite (nth_set_other _ _ _ _ _ H) by lia. reflexivity.
Qed.
Lemma slot_nth tbl i x : 0 <= i -> nth_chk tbl (Z.to_nat i) = Some x -> slot tbl i = x.
Proof. intros Hi Hx. unfold slot. destruct (i <? 0) eqn:E; [apply Z.ltb_lt in E; lia|]. rewrite Hx. reflexivity. Qed.
Lemma slot_empty n i : slot (replicate n None) i = None.
Proof. unfold slot, replicate. destruct (i <? 0); [reflexivity|]. destruct (nth_chk (repeat None (Z.to_nat n)) (Z.to_nat i)) as [o|] eqn:E; [|reflexivity]. apply nth_chk_repeat in E. exact E. Qed.
Lemma slot_map (f : option payload -> option payload) t i : f None = None -> slot (map f t) i = f (slot t i).
Proof. intros Hf. unfold slot. destruct (i <? 0); [symmetry; exact Hf|]. rewrite nth_chk_map'. destruct (nth_chk t (Z.to_nat i)); cbn; [reflexivity|symmetry; exact Hf]. Qed.
Lemma req_body r : p_type r = PrepareRequestT -> exists ts n hs, p_body r = B0 (BPrepareRequest ts n hs).
Proof. unfold p_type. destruct (p_body r) as [[]|]; try discriminate. eauto. Qed.
Lemma body_req r ts n hs : p_body r = B0 (BPrepareRequest ts n hs) -> p_type r = PrepareRequestT.
Proof. unfold p_type. intros ->. reflexivity. Qed.

(* storing the proposal whose values are the context's while the primary's slot is empty; storing anything in another slot *)
Lemma inv2_store s l i msg : Inv2 s -> slot (PreparationPayloads s) (PrimaryIndex s) = None ->
  set_chk (PreparationPayloads s) (Z.to_nat i) (Some msg) = Some l -> 0 <= i ->
  p_body msg = B0 (BPrepareRequest (Timestamp s) (Nonce s) (TransactionHashes s)) -> p_view msg = ViewNumber s ->
  Inv2 (s <| PreparationPayloads := l |>).
Proof.
  intros [J1 J0 J2 J3 J4 J6 J5 J7 J8] Hn Hl Hi Hb Hv.
  assert (Hs : forall r, slot l (PrimaryIndex s) = Some r -> r = msg).
  { intros r Hr. destruct (Z.eq_dec i (PrimaryIndex s)) as [E|Hne].
    - subst i. rewrite (slot_set_same _ _ _ _ Hl Hi) in Hr. congruence.
    - rewrite (slot_set_other _ _ _ _ _ Hl Hi Hne), Hn in Hr. discriminate Hr. }
  constructor; unfold N, primary_of, N in *; cbn [header preheader Timestamp Nonce TransactionHashes PreparationPayloads PrimaryIndex Validators BlockIndex ViewNumber PrevHash set] in *.
  - intros b Hb'. destruct (J2 b Hb') as [r Hr]. rewrite Hn in Hr. discriminate Hr.
  - intros b Hb'. destruct (J2 b Hb') as [r Hr]. rewrite Hn in Hr. discriminate Hr.
  - intros b Hb'. destruct (J2 b Hb') as [r Hr]. rewrite Hn in Hr. discriminate Hr.
  - intros r Hr. rewrite (Hs r Hr). eapply body_req. exact Hb.
  - intros r ts n hs Hr Hrb. rewrite (Hs r Hr), Hb in Hrb. injection Hrb as <- <- <-. auto.
  - intros r Hr. rewrite (Hs r Hr). exact Hv.
  - exact J5.
  - intros b Hb'. destruct (J8 b Hb') as [r Hr]. rewrite Hn in Hr. discriminate Hr.
  - intros b Hb'. destruct (J8 b Hb') as [r Hr]. rewrite Hn in Hr. discriminate Hr.
Qed.
Lemma inv2_store_other s l i v : Inv2 s -> set_chk (PreparationPayloads s) (Z.to_nat i) v = Some l -> 0 <= i -> i <> PrimaryIndex s ->
  Inv2 (s <| PreparationPayloads := l |>).
Proof.
  intros [J1 J0 J2 J3 J4 J6 J5 J7 J8] Hl Hi Hne.
  constructor; unfold N, primary_of, N in *; cbn [header preheader Timestamp Nonce TransactionHashes PreparationPayloads PrimaryIndex Validators BlockIndex ViewNumber PrevHash set] in *;
    rewrite ?(slot_set_other _ _ _ _ _ Hl Hi Hne); assumption.
Qed.
Lemma N_pos s : (N s =? 0) = false -> 0 < N s.
Proof. intros H. apply Z.eqb_neq in H. unfold N in *. pose proof (zlen_nonneg (Validators s)). lia. Qed.

Section Manual2.
Variable cfg : config.
Hint Resolve h_WatchOnly h_RSOR h_own_slot h_ResponseSent h_PreCommitSent h_CommitSent h_ViewChanging h_NotAccepting h_subscribe h_unsubscribe
  h_StopTxFlow h_changeTimer h_getTimestamp h_broadcast h_rtt h_makeRecoveryMessage h_sendRecoveryMessage
  h_processMissingTx h_sendRecoveryRequest h_makeChangeView h_extendTimer h_GetPrimaryIndex
  h_onRecoveryRequest h_cache_addMessage h_ask_recv
  q_WatchOnly q_StopTxFlow q_changeTimer q_subscribe q_getTimestamp q_own_slot q_PreCommitSent q_CommitSent q_ViewChanging q_Fill q_extendTimer
  r_unsubscribe r_processMissingTx : kpdb.

Ltac trs2 := rewrite ?app_nil_r; repeat first [ assumption | apply trG_nil | apply trG_app | apply trG_cons; [first [assumption|exact I]|] ].
(* a function specified with explicit frames is in the k2 class *)
Definition Fr (s0 s : nstate) : Prop := MyIndex s = MyIndex s0 /\ PrimaryIndex s = PrimaryIndex s0 /\ ViewNumber s = ViewNumber s0.
Lemma k2_of_spec {A} (x : M A) :
  (forall s0, Inv2 s0 -> hx s0 x (fun _ s tr => Inv2 s /\ trG G2 tr /\ Fr s0 s)) -> k2 x.
Proof. intros H mi pi vn s0 (H0 & E1 & E2 & E0). eapply x_conseq; [apply (H s0 H0)|]. cbn. intros _ s n (A1 & B1 & C1 & D1 & D0). split; [|exact B1]. split; [exact A1|split; [congruence|split; congruence]]. Qed.
(* calling a k2 function inside a symbolic execution *)
Lemma x_k2 {A B} s0 (x : M A) (f : A -> M B) Q : k2 x -> Inv2 s0 ->
  (forall a s1 n1, Inv2 s1 -> Fr s0 s1 -> trG G2 n1 -> hx s1 (f a) (fun b s n2 => Q b s (n1 ++ n2))) -> hx s0 (bind x f) Q.
Proof.
  intros Hx H0 Hf. eapply x_call; [apply (Hx (MyIndex s0) (PrimaryIndex s0) (ViewNumber s0) s0); split; [exact H0|repeat split]|].
  intros a s1 n1 [(I1 & E1 & E2 & E0) T1]. apply Hf; [exact I1|split; [|split]; assumption|exact T1].
Qed.
Lemma x_k2_last {A} s0 (x : M A) (Q : A -> nstate -> tr_t -> Prop) : k2 x -> Inv2 s0 ->
  (forall a s1 n1, Inv2 s1 -> Fr s0 s1 -> trG G2 n1 -> Q a s1 n1) -> hx s0 x Q.
Proof.
  intros Hx H0 Hq. eapply x_conseq; [apply (Hx (MyIndex s0) (PrimaryIndex s0) (ViewNumber s0) s0); split; [exact H0|repeat split]|].
  cbn. intros a s1 n1 [(I1 & E1 & E2 & E0) T1]. apply Hq; [exact I1|split; [|split]; assumption|exact T1].
Qed.
Lemma K2_of_k2 {A} (x : M A) : k2 x -> K2 x.
Proof. intros H s0 H0. apply (x_k2_last s0 x _ H H0). auto. Qed.
Lemma Fr_refl s : Fr s s. Proof. repeat split. Qed.
Lemma Fr_trans a b c : Fr a b -> Fr b c -> Fr a c. Proof. intros (?&?&?) (?&?&?). repeat split; congruence. Qed.

(* the gate: the block handed over is the header, and the header carries the stored proposal's values *)
Lemma G2_of_inv s b h : Inv2 s -> header s = Some b -> h = block_hash b -> HdrIsProposal s h.
Proof.
  intros [J1 J0 J2 J3 J4 J6 J5] Hh ->. destruct (J2 b Hh) as [r Hr]. destruct (req_body r (J3 r Hr)) as (ts & n & hs & Hb).
  destruct (J4 r ts n hs Hr Hb) as (-> & -> & ->). destruct (J1 b Hh) as (E1 & E2 & E3). destruct (J0 b Hh) as (E4 & E5).
  exists b, r. rewrite E1, E2, E3. pose proof (J6 r Hr). auto 10.
Qed.
(* MakeHeader: the header it returns is the node's header, built from the context while the proposal is held *)
Lemma mh_spec s0 : Inv2 s0 ->
  hx s0 (MakeHeader cfg) (fun r s tr => Inv2 s /\ trG G2 tr /\ Fr s0 s /\ (forall b, r = Some b -> header s = Some b) /\
                                        CommitPayloads s = CommitPayloads s0).
Proof.
  intros H0. unfold MakeHeader. apply x_get. destruct (header s0) as [b0|] eqn:Eh.
  { apply x_ret. split; [exact H0|split; [apply trG_nil|split; [apply Fr_refl|split; [intros b [= <-]; exact Eh|reflexivity]]]]. }
  unfold RequestSentOrReceived. apply x_assoc. apply x_get. apply x_assoc. apply x_tget. intros x Hi Hx. apply x_ret_bind.
  destruct (negb (isSome x)) eqn:Er. { apply x_ret. split; [exact H0|split; [apply trG_nil|split; [apply Fr_refl|split; [discriminate|reflexivity]]]]. }
  destruct (_ && _). { apply x_ret. split; [exact H0|split; [apply trG_nil|split; [apply Fr_refl|split; [discriminate|reflexivity]]]]. }
  apply x_ask. intros ok c Hc. apply sel_NewBlock in Hc. subst c. destruct ok.
  - apply x_modify. apply x_ret. split; [|split; [trs2|split; [repeat split|split; [intros b [= <-]; reflexivity|reflexivity]]]].
    destruct H0 as [J1 J0 J2 J3 J4 J6 J5]. constructor; unfold N, primary_of in *; cbn in *; try assumption.
    + intros b [= <-]. cbn. auto.
    + intros b [= <-]. cbn. auto.
    + intros b _. destruct x as [r|]; [|discriminate Er]. exists r. apply (slot_nth _ _ _ Hi Hx).
  - apply x_ret. split; [exact H0|split; [trs2|split; [apply Fr_refl|split; [discriminate|reflexivity]]]].
Qed.
Lemma h_MakeHeader : k2 (MakeHeader cfg).
Proof. apply k2_of_spec. intros s0 H0. eapply x_conseq; [apply (mh_spec s0 H0)|]. cbn. intros r s n (A & B & C & _). auto. Qed.
Hint Resolve h_MakeHeader : kpdb.

Lemma cb_spec s0 : Inv2 s0 ->
  hx s0 (CreateBlock cfg) (fun r s tr => Inv2 s /\ trG G2 tr /\ Fr s0 s /\ (forall b, r = Some b -> header s = Some b)).
Proof.
  intros H0. unfold CreateBlock. apply x_get. destruct (block_set s0).
  { apply x_ret. split; [exact H0|split; [apply trG_nil|split; [apply Fr_refl|intros b Hb; exact Hb]]]. }
  eapply x_call; [apply (mh_spec s0 H0)|]. intros hb s1 n1 (I1 & T1 & F1 & Hh & _). cbn beta. destruct hb as [b|].
  - apply x_get. cbv zeta. apply x_modify. apply x_ret. split; [|split; [trs2|split; [exact F1|intros b' [= <-]; reflexivity]]].
    specialize (Hh b eq_refl). destruct I1 as [J1 J0 J2 J3 J4 J6 J5]. constructor; unfold N, primary_of in *; cbn in *; try assumption.
    + intros b' [= <-]. cbn. apply (J1 b Hh).
    + intros b' [= <-]. cbn. apply (J0 b Hh).
    + intros b' _. apply (J2 b Hh).
  - apply x_ret. split; [exact I1|split; [trs2|split; [exact F1|discriminate]]].
Qed.
Lemma h_CreateBlock : k2 (CreateBlock cfg).
Proof. apply k2_of_spec. intros s0 H0. eapply x_conseq; [apply (cb_spec s0 H0)|]. cbn. intros r s n (A & B & C & _). auto. Qed.
Hint Resolve h_CreateBlock : kpdb.

(* the only signature request: for the hash of the node's header, while the node's own Commit slot is empty *)
Lemma h_makeCommit : k2 (makeCommit cfg).
Proof.
  apply k2_of_spec. intros s0 H0. unfold makeCommit. apply x_get. apply x_tget. intros own Hi Hown.
  destruct own as [m|]; [apply x_ret; split; [exact H0|split; [apply trG_nil|apply Fr_refl]]|].
  eapply x_call; [apply (mh_spec s0 H0)|]. intros hb s1 n1 (I1 & T1 & F1 & Hh & C1). cbn beta. destruct hb as [b|]; [|apply x_ret; split; [exact I1|split; [trs2|exact F1]]].
  specialize (Hh b eq_refl).
  unfold ask_unit. apply x_ask. intros [] c Hc.
  assert (Gc : G2 s1 c).
  { destruct c; try discriminate Hc. cbn. destruct (hash_eqb bh (block_hash b)) eqn:E; [|discriminate Hc]. apply hash_eqb_eq in E.
    split; [apply (G2_of_inv s1 b _ I1 Hh E)|]. destruct F1 as (F1a & _). rewrite C1, F1a. apply (slot_nth _ _ _ Hi Hown). }
  apply x_get. cbv zeta. apply x_modify. apply x_ret.
  split; [|split; [trs2|exact F1]].
  destruct I1 as [J1 J0 J2 J3 J4 J6 J5]. constructor; unfold N, primary_of in *; cbn in *; try assumption.
  - intros b' [= <-]. cbn. apply (J1 b Hh).
  - intros b' [= <-]. cbn. apply (J0 b Hh).
  - intros b' _. apply (J2 b Hh).
Qed.
Hint Resolve h_makeCommit : kpdb.
Lemma h_sendCommit : k2 (sendCommit cfg). Proof. unfold sendCommit. k2_go. Qed.
Lemma h_verifyCommits : k2 (verifyCommitPayloadsAgainstHeader cfg). Proof. unfold verifyCommitPayloadsAgainstHeader. k2_go. Qed.
Hint Resolve h_sendCommit h_verifyCommits : kpdb.

(* ---- the pre-block (anti-MEV): the same for the pre-header ---- *)
Lemma PG2_of_inv s pb h : Inv2 s -> preheader s = Some pb -> h = preblock_hash pb -> PreHdrIsProposal s h.
Proof.
  intros HI Hh ->. destruct (i_p2 _ HI pb Hh) as [r Hr]. destruct (req_body r (i_k4 _ HI r Hr)) as (ts & n & hs & Hb).
  destruct (i_rc _ HI r ts n hs Hr Hb) as (-> & -> & ->). destruct (i_p1 _ HI pb Hh) as (E1 & E2 & E3 & E4 & E5).
  exists pb, r. rewrite E1, E2, E3. pose proof (i_who _ HI r Hr). auto 10.
Qed.
Lemma pmh_spec s0 : Inv2 s0 ->
  hx s0 MakePreHeader (fun r s tr => Inv2 s /\ trG G2 tr /\ Fr s0 s /\ (forall b, r = Some b -> preheader s = Some b) /\
                                     PreCommitPayloads s = PreCommitPayloads s0).
Proof.
  intros H0. unfold MakePreHeader. apply x_get. destruct (preheader s0) as [b0|] eqn:Eh.
  { apply x_ret. split; [exact H0|split; [apply trG_nil|split; [apply Fr_refl|split; [intros b [= <-]; exact Eh|reflexivity]]]]. }
  unfold RequestSentOrReceived. apply x_assoc. apply x_get. apply x_assoc. apply x_tget. intros x Hi Hx. apply x_ret_bind.
  destruct (negb (isSome x)) eqn:Er. { apply x_ret. split; [exact H0|split; [apply trG_nil|split; [apply Fr_refl|split; [discriminate|reflexivity]]]]. }
  apply x_ask. intros ok c Hc. apply sel_NewPreBlock in Hc. subst c. destruct ok.
  - apply x_modify. apply x_ret. split; [|split; [trs2|split; [repeat split|split; [intros b [= <-]; reflexivity|reflexivity]]]].
    destruct H0 as [J1 J0 J2 J3 J4 J6 J5 J7 J8]. constructor; unfold N, primary_of in *; cbn in *; try assumption.
    + intros b [= <-]. cbn. auto 10.
    + intros b _. destruct x as [r|]; [|discriminate Er]. exists r. apply (slot_nth _ _ _ Hi Hx).
  - apply x_ret. split; [exact H0|split; [trs2|split; [apply Fr_refl|split; [discriminate|reflexivity]]]].
Qed.
Lemma h_MakePreHeader : k2 MakePreHeader.
Proof. apply k2_of_spec. intros s0 H0. eapply x_conseq; [apply (pmh_spec s0 H0)|]. cbn. intros r s n (A & B & C & _). auto. Qed.
Hint Resolve h_MakePreHeader : kpdb.
Lemma pcb_spec s0 : Inv2 s0 ->
  hx s0 CreatePreBlock (fun r s tr => Inv2 s /\ trG G2 tr /\ Fr s0 s /\ (forall b, r = Some b -> preheader s = Some b) /\
                                      PreCommitPayloads s = PreCommitPayloads s0).
Proof.
  intros H0. unfold CreatePreBlock. apply x_get. destruct (preblock_set s0).
  { apply x_ret. split; [exact H0|split; [apply trG_nil|split; [apply Fr_refl|split; [intros b Hb; exact Hb|reflexivity]]]]. }
  eapply x_call; [apply (pmh_spec s0 H0)|]. intros hb s1 n1 (I1 & T1 & F1 & Hh & C1). cbn beta. destruct hb as [b|].
  - apply x_get. cbv zeta. apply x_modify. apply x_ret. split; [|split; [trs2|split; [exact F1|split; [intros b' [= <-]; reflexivity|exact C1]]]].
    specialize (Hh b eq_refl). destruct I1 as [J1 J0 J2 J3 J4 J6 J5 J7 J8]. constructor; unfold N, primary_of in *; cbn in *; try assumption.
    + intros b' [= <-]. cbn. apply (J7 b Hh).
    + intros b' _. apply (J8 b Hh).
  - apply x_ret. split; [exact I1|split; [trs2|split; [exact F1|split; [discriminate|exact C1]]]].
Qed.
Lemma h_CreatePreBlock : k2 CreatePreBlock.
Proof. apply k2_of_spec. intros s0 H0. eapply x_conseq; [apply (pcb_spec s0 H0)|]. cbn. intros r s n (A & B & C & _). auto. Qed.
Hint Resolve h_CreatePreBlock : kpdb.
(* the only request for pre-commit data: for the hash of the node's pre-header, while the node's own PreCommit slot is empty *)
Lemma h_makePreCommit : k2 makePreCommit.
Proof.
  apply k2_of_spec. intros s0 H0. unfold makePreCommit. apply x_get. apply x_tget. intros own Hi Hown.
  destruct own as [m|]; [apply x_ret; split; [exact H0|split; [apply trG_nil|apply Fr_refl]]|].
  eapply x_call; [apply (pcb_spec s0 H0)|]. intros hb s1 n1 (I1 & T1 & F1 & Hh & C1). cbn beta. destruct hb as [b|]; [|apply x_ret; split; [exact I1|split; [trs2|exact F1]]].
  specialize (Hh b eq_refl).
  unfold ask_unit. apply x_ask. intros [] c Hc.
  assert (Gc : G2 s1 c).
  { destruct c; try discriminate Hc. cbn. destruct (hash_eqb bh (preblock_hash b)) eqn:E; [|discriminate Hc]. apply hash_eqb_eq in E.
    split; [apply (PG2_of_inv s1 b _ I1 Hh E)|]. destruct F1 as (F1a & _). rewrite C1, F1a. apply (slot_nth _ _ _ Hi Hown). }
  apply x_get. cbv zeta. apply x_modify. apply x_ret.
  split; [|split; [trs2|exact F1]].
  destruct I1 as [J1 J0 J2 J3 J4 J6 J5 J7 J8]. constructor; unfold N, primary_of in *; cbn in *; try assumption.
  - intros b' [= <-]. cbn. apply (J7 b Hh).
  - intros b' _. apply (J8 b Hh).
Qed.
Hint Resolve h_makePreCommit : kpdb.
Lemma h_sendPreCommit : k2 sendPreCommit. Proof. unfold sendPreCommit. k2_go. Qed.
Lemma h_verifyPreCommits : k2 verifyPreCommitPayloadsAgainstPreBlock. Proof. unfold verifyPreCommitPayloadsAgainstPreBlock. k2_go. Qed.
Hint Resolve h_sendPreCommit h_verifyPreCommits : kpdb.

Lemma h_checkCommit : k2 (checkCommit cfg).
Proof.
  apply k2_of_spec. intros s0 H0. unfold checkCommit. apply x_get.
  destruct (negb _); [apply x_ret; split; [exact H0|split; [apply trG_nil|apply Fr_refl]]|]. cbv zeta.
  destruct (_ <? _); [apply x_ret; split; [exact H0|split; [apply trG_nil|apply Fr_refl]]|].
  eapply x_call; [apply (cb_spec s0 H0)|]. intros ob s1 n1 (I1 & T1 & F1 & Hh). cbn beta. destruct ob as [blk|]; [|apply x_ret; split; [exact I1|split; [trs2|exact F1]]].
  specialize (Hh blk eq_refl).
  apply x_ask. intros err c Hc.
  assert (Gc : G2 s1 c).
  { destruct c; try discriminate Hc. destruct (hash_eqb bh (block_hash blk)) eqn:E; [|discriminate Hc]. apply hash_eqb_eq in E. eapply G2_of_inv; eauto. }
  assert (TG : trG G2 (n1 ++ [(s1, c)])) by (apply trG_app; [exact T1|apply trG_cons; [exact Gc|apply trG_nil]]).
  xs.
  all: rewrite ?app_nil_r.
  all: try (split; [exact I1|split; [exact TG|exact F1]]).
  split; [|split; [exact TG|exact F1]]. apply (inv2_same s1); [unfold Same2; cbn; repeat split; reflexivity|exact I1].
Qed.
Hint Resolve h_checkCommit : kpdb.
Lemma h_checkPreCommit : k2 (checkPreCommit cfg).
Proof.
  apply k2_of_spec. intros s0 H0. unfold checkPreCommit. apply x_get.
  destruct (negb _); [apply x_ret; split; [exact H0|split; [apply trG_nil|apply Fr_refl]]|]. cbv zeta.
  destruct (_ <? _); [apply x_ret; split; [exact H0|split; [apply trG_nil|apply Fr_refl]]|].
  eapply x_call; [apply (pcb_spec s0 H0)|]. intros ob s1 n1 (I1 & T1 & F1 & Hh & _). cbn beta. destruct ob as [pb|]; [|apply x_ret; split; [exact I1|split; [trs2|exact F1]]].
  specialize (Hh pb eq_refl). apply x_get.
  eapply x_call with (Qx := fun _ s tr => Inv2 s /\ trG G2 tr /\ Fr s1 s).
  { destruct (negb (preBlockProcessed s1)); [|apply x_ret; split; [exact I1|split; [apply trG_nil|apply Fr_refl]]].
    apply x_ask. intros err c Hc.
    assert (Gc : G2 s1 c).
    { destruct c; try discriminate Hc. destruct (hash_eqb bh (preblock_hash pb)) eqn:E; [|discriminate Hc]. apply hash_eqb_eq in E. eapply PG2_of_inv; eauto. }
    destruct err; [apply x_ret; split; [exact I1|split; [trs2|apply Fr_refl]]|].
    apply x_modify. apply x_ret. split; [apply (inv2_same s1); [unfold Same2; cbn; repeat split; reflexivity|exact I1]|split; [trs2|repeat split]]. }
  intros cont s2 n2 (I2 & T2 & F2). cbn beta.
  match goal with |- hx _ ?prog _ => assert (Hrest : k2 prog) by (destruct cont; k2_go) end.
  apply (x_k2_last s2 _ _ Hrest I2). intros [] s3 n3 I3 F3 T3. split; [exact I3|split; [trs2|eapply Fr_trans; [eapply Fr_trans; eassumption|exact F3]]].
Qed.
Hint Resolve h_checkPreCommit : kpdb.
Lemma h_checkPrepare : k2 (checkPrepare cfg). Proof. unfold checkPrepare. k2_go. Qed.
Lemma h_onCommit m : k2 (onCommit cfg m). Proof. unfold onCommit. k2_go. Qed.
Lemma h_onPreCommit m : k2 (onPreCommit cfg m). Proof. unfold onPreCommit. k2_go. Qed.
Hint Resolve h_checkPrepare h_onCommit h_onPreCommit : kpdb.

(* the filter of responses keeps whatever is in the primary's slot (a request or nothing) *)
Definition uep_f (m : payload) (o : option payload) : option payload :=
  match o with
  | Some m0 => if mtype_eqb (p_type m0) PrepareResponseT && negb (hash_eqb (resp_prephash m0) (payload_hash m)) then None else Some m0
  | None => None end.
Lemma uep_slot m s : Inv2 s -> slot (map (uep_f m) (PreparationPayloads s)) (PrimaryIndex s) = slot (PreparationPayloads s) (PrimaryIndex s).
Proof.
  intros HI. rewrite (slot_map (uep_f m)) by reflexivity. destruct (slot (PreparationPayloads s) (PrimaryIndex s)) as [r|] eqn:E; [|reflexivity].
  cbn. rewrite (i_k4 _ HI r E). reflexivity.
Qed.
Lemma uep_inv m s : Inv2 s -> Inv2 (s <| PreparationPayloads := map (uep_f m) (PreparationPayloads s) |>).
Proof.
  intros HI. pose proof (uep_slot m s HI) as Hs. destruct HI as [J1 J0 J2 J3 J4 J6 J5].
  constructor; unfold N, primary_of, N in *; cbn [header Timestamp Nonce TransactionHashes PreparationPayloads PrimaryIndex Validators BlockIndex ViewNumber PrevHash set] in *;
    rewrite ?Hs; assumption.
Qed.
Lemma uep_unfold m : updateExistingPayloads cfg m =
  (modify (fun s => s <| PreparationPayloads := map (uep_f m) (PreparationPayloads s) |>) ;;;
   s <- get ;; if amev_on cfg s then verifyPreCommitPayloadsAgainstPreBlock else verifyCommitPayloadsAgainstHeader cfg).
Proof. reflexivity. Qed.
Lemma h_updateExistingPayloads m : k2 (updateExistingPayloads cfg m).
Proof.
  rewrite uep_unfold. intros mi pi vn. apply kp_bind; [|intros _; kp_go leaf2].
  apply kp_modify. intros s (HI & E1 & E2 & E0). split; [apply uep_inv; exact HI|split; [exact E1|split; [exact E2|exact E0]]].
Qed.
(* ... and, run while the primary's slot is empty, keeps it empty together with the proposal fields: no header can be built *)
Lemma r_RSOR : k5 RequestSentOrReceived. Proof. unfold RequestSentOrReceived. k5_go. Qed.
Hint Resolve r_RSOR : kpdb.
Lemma r_mph_spec mi pi vn ts n hs s0 : Inv5 mi pi vn ts n hs s0 ->
  hx s0 MakePreHeader (fun r s tr => Inv5 mi pi vn ts n hs s /\ trG G2 tr /\ r = None).
Proof.
  intros H5. pose proof H5 as ((HI & E1 & E2 & E0 & E3) & F). unfold MakePreHeader. apply x_get.
  destruct (preheader s0) as [b|] eqn:Eh. { exfalso. destruct (i_p2 _ HI b Eh) as [r Hr]. rewrite E3 in Hr. discriminate Hr. }
  unfold RequestSentOrReceived. apply x_assoc. apply x_get. apply x_assoc. apply x_tget. intros x Hi Hx. apply x_ret_bind.
  pose proof (slot_nth _ _ _ Hi Hx) as Hs. rewrite E3 in Hs. subst x. cbn [isSome negb]. apply x_ret. split; [exact H5|split; [apply trG_nil|reflexivity]].
Qed.
Lemma r_MakePreHeader : k5 MakePreHeader.
Proof. intros mi pi vn ts n hs s0 H5. eapply x_conseq; [apply (r_mph_spec _ _ _ _ _ _ s0 H5)|]. cbn. intros r s tr (A & B & _). auto. Qed.
Hint Resolve r_MakePreHeader : kpdb.
Lemma r_CreatePreBlock : k5 CreatePreBlock.
Proof.
  intros mi pi vn ts n hs s0 H5. unfold CreatePreBlock. apply x_get. destruct (preblock_set s0); [apply x_ret; split; [exact H5|apply trG_nil]|].
  eapply x_call; [apply (r_mph_spec _ _ _ _ _ _ s0 H5)|]. intros hb s1 n1 (I1 & T1 & ->). cbn beta. apply x_ret. split; [exact I1|rewrite app_nil_r; exact T1].
Qed.
Hint Resolve r_CreatePreBlock : kpdb.
Lemma r_verifyPreCommits : k5 verifyPreCommitPayloadsAgainstPreBlock. Proof. unfold verifyPreCommitPayloadsAgainstPreBlock. k5_go. Qed.
Lemma r_MakeHeader : k5 (MakeHeader cfg).
Proof.
  intros mi pi vn ts n hs s0 H5. pose proof H5 as ((HI & E1 & E2 & E0 & E3) & F). unfold MakeHeader. apply x_get.
  destruct (header s0) as [b|] eqn:Eh. { exfalso. destruct (i_h2 _ HI b Eh) as [r Hr]. rewrite E3 in Hr. discriminate Hr. }
  unfold RequestSentOrReceived. apply x_assoc. apply x_get. apply x_assoc. apply x_tget. intros x Hi Hx. apply x_ret_bind.
  pose proof (slot_nth _ _ _ Hi Hx) as Hs. rewrite E3 in Hs. subst x. cbn [isSome negb]. apply x_ret. split; [exact H5|apply trG_nil].
Qed.
Hint Resolve r_verifyPreCommits r_MakeHeader : kpdb.
Lemma r_verifyCommits : k5 (verifyCommitPayloadsAgainstHeader cfg). Proof. unfold verifyCommitPayloadsAgainstHeader. k5_go. Qed.
Hint Resolve r_verifyCommits : kpdb.
Lemma r_updateExistingPayloads m : k5 (updateExistingPayloads cfg m).
Proof.
  rewrite uep_unfold. intros mi pi vn ts n hs. apply kp_bind; [|intros _; kp_go leaf5].
  apply kp_modify. intros s ((HI & E1 & E2 & E0 & E3) & F1 & F2 & F3).
  split; [split; [apply uep_inv; exact HI|split; [exact E1|split; [exact E2|split; [exact E0|]]]]|split; [exact F1|split; [exact F2|exact F3]]].
  cbn [PreparationPayloads PrimaryIndex set]. rewrite (uep_slot m s HI). exact E3.
Qed.
Hint Resolve h_updateExistingPayloads : kpdb.

(* calling k4 / k5 functions inside a symbolic execution *)
Lemma x_k4 {A B} s0 (x : M A) (f : A -> M B) Q : k4 x -> Inv2 s0 -> slot (PreparationPayloads s0) (PrimaryIndex s0) = None ->
  (forall a s1 n1, Inv2 s1 -> Fr s0 s1 -> slot (PreparationPayloads s1) (PrimaryIndex s1) = None -> trG G2 n1 ->
     hx s1 (f a) (fun b s n2 => Q b s (n1 ++ n2))) -> hx s0 (bind x f) Q.
Proof.
  intros Hx H0 Hn Hf. eapply x_call; [apply (Hx (MyIndex s0) (PrimaryIndex s0) (ViewNumber s0) s0); split; [exact H0|split; [reflexivity|split; [reflexivity|split; [reflexivity|exact Hn]]]]|].
  intros a s1 n1 [(I1 & E1 & E2 & E0 & E3) T1]. apply Hf; [exact I1|split; [|split]; assumption|exact E3|exact T1].
Qed.
Definition Pr (s0 s : nstate) : Prop := Timestamp s = Timestamp s0 /\ Nonce s = Nonce s0 /\ TransactionHashes s = TransactionHashes s0.
Lemma x_k5 {A B} s0 (x : M A) (f : A -> M B) Q : k5 x -> Inv2 s0 -> slot (PreparationPayloads s0) (PrimaryIndex s0) = None ->
  (forall a s1 n1, Inv2 s1 -> Fr s0 s1 -> Pr s0 s1 -> slot (PreparationPayloads s1) (PrimaryIndex s1) = None -> trG G2 n1 ->
     hx s1 (f a) (fun b s n2 => Q b s (n1 ++ n2))) -> hx s0 (bind x f) Q.
Proof.
  intros Hx H0 Hn Hf. eapply x_call.
  { apply (Hx (MyIndex s0) (PrimaryIndex s0) (ViewNumber s0) (Timestamp s0) (Nonce s0) (TransactionHashes s0) s0).
    split; [split; [exact H0|split; [reflexivity|split; [reflexivity|split; [reflexivity|exact Hn]]]]|split; [reflexivity|split; reflexivity]]. }
  intros a s1 n1 [((I1 & E1 & E2 & E0 & E3) & F1 & F2 & F3) T1]. apply Hf; [exact I1|split; [|split]; assumption|split; [exact F1|split; assumption]|exact E3|exact T1].
Qed.

(* the proposal made by the primary carries the context's values; the slot is still empty *)
Definition MprPost (s0 : nstate) (r : option payload) (s : nstate) (tr : tr_t) : Prop :=
  Inv2 s /\ trG G2 tr /\ Fr s0 s /\ slot (PreparationPayloads s) (PrimaryIndex s) = None /\
  (forall m, r = Some m -> p_body m = B0 (BPrepareRequest (Timestamp s) (Nonce s) (TransactionHashes s)) /\ p_view m = ViewNumber s).
Lemma mpr_spec f s0 : Inv2 s0 -> slot (PreparationPayloads s0) (PrimaryIndex s0) = None -> hx s0 (makePrepareRequest cfg f) (MprPost s0).
Proof.
  intros H0 Hn. unfold makePrepareRequest. apply (x_k4 s0 _ _ _ (q_Fill cfg f) H0 Hn). intros ok s1 n1 I1 F1 N1 T1.
  destruct ok; cbn [negb].
  - apply x_get. apply x_ret. split; [exact I1|split; [trs2|split; [exact F1|split; [exact N1|]]]]. intros m [= <-]. split; reflexivity.
  - apply x_ret. split; [exact I1|split; [trs2|split; [exact F1|split; [exact N1|discriminate]]]].
Qed.

Lemma spr_spec f s0 : Inv2 s0 -> slot (PreparationPayloads s0) (PrimaryIndex s0) = None ->
  hx s0 (sendPrepareRequest cfg f) (fun _ s tr => Inv2 s /\ trG G2 tr).
Proof.
  intros H0 Hn. unfold sendPrepareRequest.
  eapply x_call; [apply (mpr_spec f s0 H0 Hn)|]. intros m s1 n1 (I1 & T1 & F1 & N1 & B1). cbn beta.
  eapply x_call with (Qx := MprPost s1).
  { destruct m as [x|].
    - apply x_ret. split; [exact I1|split; [apply trG_nil|split; [apply Fr_refl|split; [exact N1|exact B1]]]].
    - apply (x_k4 s1 _ _ _ q_subscribe I1 N1). intros [] s2 n2 I2 F2 N2 T2.
      eapply x_conseq; [apply (mpr_spec f s2 I2 N2)|]. cbn. intros r s n (A1 & A2 & A3 & A4 & A5).
      split; [exact A1|split; [apply trG_app; assumption|split; [eapply Fr_trans; eassumption|split; assumption]]]. }
  intros m2 s2 n2 (I2 & T2 & F2 & N2 & B2). cbn beta. destruct m2 as [msg|].
  - destruct (B2 msg eq_refl) as [B2b B2v].
    apply (x_k5 s2 _ _ _ r_unsubscribe I2 N2). intros [] s3 n3 I3 (F3a & F3b & F3c) (P1 & P2 & P3) N3 T3.
    apply x_get. apply x_tset. intros l Hi Hl. apply x_modify.
    match goal with |- hx ?st ?prog _ => set (s4 := st); assert (Hrest : K2 prog) by (apply K2_of_k2; k2_go) end.
    assert (I4 : Inv2 s4). { apply (inv2_store s3 l (MyIndex s3) msg I3 N3 Hl Hi); [rewrite P1, P2, P3; exact B2b|rewrite F3c; exact B2v]. }
    eapply x_conseq; [apply (Hrest s4 I4)|]. cbn. intros _ s n [A1 A2]. split; [exact A1|]. rewrite ?app_nil_r. repeat (apply trG_app; [assumption|]). exact A2.
  - apply x_get. eapply x_conseq; [apply (K2_of_k2 _ (h_changeTimer _) s2 I2)|]. cbn. intros _ s n [A1 A2]. split; [exact A1|]. rewrite ?app_nil_r. repeat (apply trG_app; [assumption|]). exact A2.
Qed.

(* a backup's response goes to its own slot, which is not the primary's *)
Lemma mresp_spec s0 : Inv2 s0 -> MyIndex s0 <> PrimaryIndex s0 ->
  hx s0 makePrepareResponse (fun _ s tr => Inv2 s /\ trG G2 tr /\ Fr s0 s).
Proof.
  intros H0 Hne. unfold makePrepareResponse. apply x_get. apply x_tget. intros req _ _. destruct req as [r|]; [|apply x_panic].
  cbv zeta. apply x_tset. intros l Hi Hl. apply x_modify. apply x_ret.
  split; [apply (inv2_store_other s0 l (MyIndex s0) _ H0 Hl Hi Hne)|split; [apply trG_nil|repeat split]].
Qed.
Lemma sresp_spec s0 : Inv2 s0 -> MyIndex s0 <> PrimaryIndex s0 ->
  hx s0 sendPrepareResponse (fun _ s tr => Inv2 s /\ trG G2 tr /\ Fr s0 s).
Proof.
  intros H0 Hne. unfold sendPrepareResponse. eapply x_call; [apply (mresp_spec s0 H0 Hne)|]. intros m s1 n1 (I1 & T1 & F1). cbn beta.
  assert (Hrest : k2 (StopTxFlow ;;; broadcast m)) by k2_go.
  apply (x_k2_last s1 _ _ Hrest I1). intros [] s2 n2 I2 F2 T2. split; [exact I2|split; [apply trG_app; assumption|eapply Fr_trans; eassumption]].
Qed.

(* a response is stored in its sender's slot, never the primary's *)
Lemma K_onPrepareResponse m : K2 (onPrepareResponse cfg m).
Proof.
  intros s0 H0. unfold onPrepareResponse. apply x_get. destruct (negb _); [apply x_ret; split; [exact H0|apply trG_nil]|].
  destruct (N s0 =? 0) eqn:EN; [unfold GetPrimaryIndex; rewrite EN; apply x_panic_bind|].
  rewrite (GetPrimaryIndex_eq' _ _ (N_pos _ EN)). apply x_ret_bind. rewrite <- (i_pf _ H0 (N_pos _ EN)).
  destruct (p_idx m =? PrimaryIndex s0) eqn:Epi; [apply x_ret; split; [exact H0|apply trG_nil]|]. apply Z.eqb_neq in Epi.
  apply x_tget. intros x _ _.
  assert (Hskip : k2 (if isSome x then ret true else vc <- ViewChanging ;; s <- get ;; ret (vc && negb (MoreThanFNodesCommittedOrLost s)))) by k2_go.
  apply (x_k2 s0 _ _ _ Hskip H0). intros skip s1 n1 I1 (F1a & F1b & F1c) T1. destruct skip.
  { eapply x_conseq; [apply (K2_of_k2 (_ <- ViewChanging ;; ret tt) ltac:(k2_go) s1 I1)|]. cbn. intros _ s n [A1 A2]. split; [exact A1|apply trG_app; assumption]. }
  apply x_ask. intros ok c Hc. assert (Gc : G2 s1 c) by (destruct c; try discriminate Hc; exact I).
  destruct ok; cbn [negb]; [|apply x_ret; split; [exact I1|trs2]].
  apply x_get. apply x_tset. intros l Hi Hl. apply x_modify. apply x_get.
  match goal with |- hx ?st _ _ => set (s2 := st) end.
  assert (I2 : Inv2 s2) by (apply (inv2_store_other s1 l (p_idx m) _ I1 Hl Hi); rewrite F1b; exact Epi).
  apply x_tget. intros req _ _.
  eapply x_call with (Qx := fun _ s tr => Inv2 s /\ trG G2 tr).
  { destruct req as [r|]; [|apply x_ret; split; [exact I2|apply trG_nil]].
    destruct (p_body r) as [[]|]; try apply x_panic.
    destruct (negb _); [|apply x_ret; split; [exact I2|apply trG_nil]].
    apply x_tset. intros l2 Hi2 Hl2. apply x_modify. apply x_ret. split; [|apply trG_nil].
    apply (inv2_store_other s2 l2 (p_idx m) _ I2 Hl2 Hi2). unfold s2. cbn [PrimaryIndex set]. rewrite F1b. exact Epi. }
  intros mism s3 n3 [I3 T3]. cbn beta.
  match goal with |- hx _ ?prog _ => assert (Hrest : K2 prog) by (destruct mism; apply K2_of_k2; k2_go) end.
  eapply x_conseq; [apply (Hrest s3 I3)|]. cbn. intros _ s n [A1 A2]. split; [exact A1|].
  trs2.
Qed.
End Manual2.

(* ================= the functions that can reach initializeConsensus ================= *)
Lemma rsor_spec s0 : hx s0 RequestSentOrReceived
  (fun rs s tr => s = s0 /\ tr = [] /\ (rs = false -> slot (PreparationPayloads s0) (PrimaryIndex s0) = None)).
Proof.
  unfold RequestSentOrReceived. apply x_get. apply x_tget. intros x Hi Hx. apply x_ret. split; [reflexivity|split; [reflexivity|]].
  intros E. rewrite (slot_nth _ _ _ Hi Hx). destruct x; [discriminate E|reflexivity].
Qed.
Lemma inv2_fresh s : header s = None -> preheader s = None -> (exists n, PreparationPayloads s = empty_tbl n) ->
  (0 < N s -> PrimaryIndex s = primary_of s (ViewNumber s)) -> Inv2 s /\ slot (PreparationPayloads s) (PrimaryIndex s) = None.
Proof.
  intros Hh Hph [n Hp] Hpf. assert (Hs : slot (PreparationPayloads s) (PrimaryIndex s) = None) by (rewrite Hp; apply slot_empty).
  split; [|exact Hs]. constructor; rewrite ?Hh, ?Hph, ?Hs; try discriminate. exact Hpf.
Qed.
Ltac g2sel := match goal with H : _ = Some _ |- G2 _ ?c => destruct c; try exact I; discriminate H end.
Ltac trs3 := rewrite ?app_nil_r; repeat first [ assumption | apply trG_nil | apply trG_app | apply trG_cons; [first [assumption|exact I|g2sel]|] ].

Section Rec2.
Variable cfg : config.
Hint Resolve h_WatchOnly h_RSOR h_own_slot h_ResponseSent h_PreCommitSent h_CommitSent h_ViewChanging h_NotAccepting h_subscribe h_unsubscribe
  h_StopTxFlow h_changeTimer h_getTimestamp h_MakePreHeader h_CreatePreBlock h_broadcast h_rtt h_makeRecoveryMessage h_sendRecoveryMessage
  h_processMissingTx h_sendRecoveryRequest h_makeChangeView h_makePreCommit h_sendPreCommit h_verifyPreCommits h_extendTimer h_GetPrimaryIndex
  h_onRecoveryRequest h_cache_addMessage h_ask_recv h_MakeHeader h_CreateBlock h_makeCommit h_sendCommit h_verifyCommits h_checkCommit
  h_checkPreCommit h_checkPrepare h_onCommit h_onPreCommit h_updateExistingPayloads : kpdb.
Hint Extern 4 (kp Inv2 G2 _) => (apply K2_of_k2; intros; solve [eauto 3 with kpdb]) : kpdb.
Ltac K_go := kp_go leafK.
Ltac kret := apply x_ret; split; [assumption|trs3].
(* finish with a K2 program from a state satisfying Inv2 *)
Ltac kfin H := eapply x_conseq; [apply H; assumption|]; cbn; let s := fresh "s" in let n := fresh "n" in let A1 := fresh in let A2 := fresh in
  intros _ s n [A1 A2]; split; [exact A1|trs3].

Section WithIc.
Variable ic : Z -> Z -> M unit.
Hypothesis Hic : forall v t, K2 (ic v t).
Hint Resolve Hic : kpdb.

Lemma K_checkChangeView view : K2 (checkChangeView ic view). Proof. unfold checkChangeView. K_go. Qed.
Hint Resolve K_checkChangeView : kpdb.
Lemma K_sendChangeView r : K2 (sendChangeView ic r). Proof. unfold sendChangeView. K_go. Qed.
Hint Resolve K_sendChangeView : kpdb.

Lemma cacb_spec s0 : Inv2 s0 -> hx s0 (createAndCheckBlock cfg ic) (fun ok s tr => Inv2 s /\ trG G2 tr /\ (ok = true -> Fr s0 s)).
Proof.
  intros H0. unfold createAndCheckBlock. apply x_get.
  eapply x_call with (Qx := fun _ s tr => Inv2 s /\ trG G2 tr /\ Fr s0 s).
  { destruct (amev_on cfg s0).
    - apply (x_k2 s0 _ _ _ h_CreatePreBlock H0). intros b s1 n1 I1 F1 T1. apply x_ask_last. intros r c Hc. split; [exact I1|split; [trs3|exact F1]].
    - apply (x_k2 s0 _ _ _ (h_CreateBlock cfg) H0). intros b s1 n1 I1 F1 T1. apply x_ask_last. intros r c Hc. split; [exact I1|split; [trs3|exact F1]]. }
  intros ok s1 n1 (I1 & T1 & F1). cbn beta. destruct ok.
  - apply x_ret. split; [exact I1|split; [trs3|intros _; exact F1]].
  - eapply x_call; [apply (K_sendChangeView CVTxInvalid s1 I1)|]. intros [] s2 n2 [I2 T2]. apply x_ret. split; [exact I2|split; [trs3|discriminate]].
Qed.
Lemma K_createAndCheckBlock : K2 (createAndCheckBlock cfg ic).
Proof. intros s0 H0. eapply x_conseq; [apply (cacb_spec s0 H0)|]. cbn. intros ok s n (A & B & _). auto. Qed.

Lemma IsPrimary_false s : IsPrimary s = false -> MyIndex s <> PrimaryIndex s.
Proof. unfold IsPrimary. intros H. apply Z.eqb_neq in H. exact H. Qed.

Lemma K_addTransaction t : K2 (addTransaction cfg ic t).
Proof.
  intros s0 H0. unfold addTransaction. apply x_modify.
  match goal with |- hx ?st _ _ => set (s1 := st) end.
  assert (I1 : Inv2 s1) by (apply (inv2_same s0); [unfold Same2, s1; cbn; repeat split; reflexivity|exact H0]).
  apply x_get. destruct (negb _); [kret|]. destruct (IsPrimary s1) eqn:Ep; [kret|]. apply IsPrimary_false in Ep.
  apply (x_k2 s1 _ _ _ h_WatchOnly I1). intros wo s2 n2 I2 (F2a & F2b & F2c) T2. destruct wo; [kret|].
  eapply x_call; [apply (cacb_spec s2 I2)|]. intros ok s3 n3 (I3 & T3 & F3). cbn beta. destruct ok; cbn [negb]; [|kret].
  destruct (F3 eq_refl) as (F3a & F3b & F3c).
  apply (x_k2 s3 _ _ _ h_verifyPreCommits I3). intros [] s4 n4 I4 (F4a & F4b & F4c) T4.
  apply (x_k2 s4 _ _ _ (h_extendTimer cfg 2) I4). intros [] s5 n5 I5 (F5a & F5b & F5c) T5.
  eapply x_call; [apply (sresp_spec s5 I5); congruence|]. intros [] s6 n6 (I6 & T6 & F6). cbn beta.
  kfin (K2_of_k2 _ (h_checkPrepare cfg)).
Qed.

Lemma K_onPrepareRequest msg : K2 (onPrepareRequest cfg ic msg).
Proof.
  intros s0 H0. unfold onPrepareRequest.
  eapply x_call; [apply rsor_spec|]. intros rs s1 n1 (-> & -> & Hrs). cbn beta. destruct rs.
  { kfin (K2_of_k2 (_ <- ViewChanging ;; ret tt) ltac:(k2_go)). }
  specialize (Hrs eq_refl). apply x_get. destruct (ViewNumber s0 =? p_view msg) eqn:Ev; cbn [negb]; [|kret]. apply Z.eqb_eq in Ev.
  destruct (N s0 =? 0) eqn:EN; [unfold GetPrimaryIndex; rewrite EN; apply x_panic_bind|].
  rewrite (GetPrimaryIndex_eq' _ _ (N_pos _ EN)). apply x_ret_bind. rewrite <- (i_pf _ H0 (N_pos _ EN)).
  destruct (p_idx msg =? PrimaryIndex s0) eqn:Ep; cbn [negb]; [|kret]. apply Z.eqb_eq in Ep.
  apply x_ask. intros ok c Hc. assert (Gc : G2 s0 c) by g2sel. destruct ok; cbn [negb].
  2:{ kfin (K_sendChangeView CVBlockRejectedByPolicy). }
  apply (x_k4 s0 _ _ _ (q_extendTimer cfg 2) H0 Hrs). intros [] s2 n2 I2 (F2a & F2b & F2c) N2 T2.
  destruct (p_body msg) as [[]|] eqn:Eb; try apply x_panic.
  apply x_modify. match goal with |- hx ?st _ _ => set (s3 := st) end.
  assert (Eb3 : p_body msg = B0 (BPrepareRequest (Timestamp s3) (Nonce s3) (TransactionHashes s3))) by exact Eb.
  assert (I3 : Inv2 s3) by (apply (inv2_none s2 s3 I2 N2); unfold Same4, s3; cbn; repeat split; reflexivity).
  assert (N3 : slot (PreparationPayloads s3) (PrimaryIndex s3) = None) by exact N2.
  apply (x_k5 s3 _ _ _ r_processMissingTx I3 N3). intros [] s4 n4 I4 (F4a & F4b & F4c) (P4a & P4b & P4c) N4 T4.
  apply (x_k5 s4 _ _ _ (r_updateExistingPayloads cfg msg) I4 N4). intros [] s5 n5 I5 (F5a & F5b & F5c) (P5a & P5b & P5c) N5 T5.
  apply x_get. apply x_tset. intros l Hi Hl. apply x_modify. apply x_get.
  match goal with |- hx ?st _ _ => set (s6 := st) end.
  assert (I6 : Inv2 s6).
  { apply (inv2_store s5 l (p_idx msg) msg I5 N5 Hl Hi); [rewrite P5a, P5b, P5c, P4a, P4b, P4c; exact Eb3|].
    rewrite F5c, F4c. change (ViewNumber s3) with (ViewNumber s2). rewrite F2c. symmetry. exact Ev. }
  destruct (negb _); [kret|].
  eapply x_call; [apply (cacb_spec s6 I6)|]. intros ok s7 n7 (I7 & T7 & F7). cbn beta. destruct ok; cbn [negb]; [|kret].
  apply (x_k2 s7 _ _ _ h_WatchOnly I7). intros wo s8 n8 I8 F8 T8. destruct wo; [kret|].
  apply x_get. destruct (IsPrimary s8) eqn:Ep8.
  - apply x_ret_bind. kfin (K2_of_k2 _ (h_checkPrepare cfg)).
  - eapply x_call; [apply (sresp_spec s8 I8 (IsPrimary_false _ Ep8))|]. intros [] s9 n9 (I9 & T9 & F9). cbn beta.
    kfin (K2_of_k2 _ (h_checkPrepare cfg)).
Qed.
Hint Resolve K_createAndCheckBlock K_addTransaction K_onPrepareRequest K_onPrepareResponse : kpdb.

Lemma K_onChangeView m : K2 (onChangeView cfg ic m). Proof. unfold onChangeView. K_go. Qed.
Hint Resolve K_onChangeView : kpdb.
Lemma K_receive_common d m : (forall x, K2 (d x)) -> K2 (receive_common d m).
Proof. intros Hd. unfold receive_common. K_go. Qed.
Lemma K_dispatch0 m : K2 (dispatch0 cfg ic m). Proof. unfold dispatch0. destruct (p_type m); K_go. Qed.
Hint Resolve K_dispatch0 : kpdb.
Lemma K_nestedReceive0 m : K2 (nestedReceive0 cfg ic m).
Proof. unfold nestedReceive0. apply kp_bind; [K_go|intros _]. apply K_receive_common. intros x. apply K_dispatch0. Qed.
Hint Resolve K_nestedReceive0 : kpdb.
Lemma K_onRecoveryMessage m : K2 (onRecoveryMessage cfg ic m).
Proof. unfold onRecoveryMessage. destruct (p_body m); [apply kp_panic|]. cbv zeta. K_go. Qed.
Hint Resolve K_onRecoveryMessage : kpdb.
Lemma K_dispatch m : K2 (dispatch cfg ic m). Proof. unfold dispatch. destruct (p_type m); K_go. Qed.
Lemma K_OnReceive m : K2 (OnReceive cfg ic m). Proof. unfold OnReceive. apply K_receive_common. apply K_dispatch. Qed.
Hint Resolve K_OnReceive : kpdb.
Lemma K_replay_map n : forall entries, K2 (replay_map cfg ic n entries).
Proof. induction n as [|n IH]; intros entries; destruct entries as [|e entries]; cbn [replay_map]; try apply kp_ret. K_go. Qed.
End WithIc.
End Rec2.

(* ================= initialisation, the API, histories ================= *)
Section Api2.
Variable cfg : config.
Hint Resolve h_WatchOnly h_RSOR h_own_slot h_ResponseSent h_PreCommitSent h_CommitSent h_ViewChanging h_NotAccepting h_subscribe h_unsubscribe
  h_StopTxFlow h_changeTimer h_getTimestamp h_MakePreHeader h_CreatePreBlock h_broadcast h_rtt h_makeRecoveryMessage h_sendRecoveryMessage
  h_processMissingTx h_sendRecoveryRequest h_makeChangeView h_makePreCommit h_sendPreCommit h_verifyPreCommits h_extendTimer h_GetPrimaryIndex
  h_onRecoveryRequest h_cache_addMessage h_ask_recv h_MakeHeader h_CreateBlock h_makeCommit h_sendCommit h_verifyCommits h_checkCommit
  h_checkPreCommit h_checkPrepare h_onCommit h_onPreCommit h_updateExistingPayloads
  q_WatchOnly q_StopTxFlow q_changeTimer : kpdb.
Hint Extern 4 (kp Inv2 G2 _) => (apply K2_of_k2; intros; solve [eauto 3 with kpdb]) : kpdb.
Ltac K_go := kp_go leafK.
Ltac kret := apply x_ret; split; [assumption|trs3].
Ltac kfin H := eapply x_conseq; [apply H; assumption|]; cbn; let s := fresh "s" in let n := fresh "n" in let A1 := fresh in let A2 := fresh in
  intros _ s n [A1 A2]; split; [exact A1|trs3].

(* reset: no block is handed over; whatever the state before, the one after has no header and an empty primary slot *)
Lemma reset_trace view ts : kp (fun _ => True) G2 (reset cfg view ts).
Proof.
  unfold reset, unsubscribeFromTransactions, GetPrimaryIndex.
  assert (Hk : forall i n v a b, kp (fun _ : nstate => True) G2 (keep_changeviews i n v a b)).
  { intros i n v a b s0 _. eapply x_conseq; [apply (keep_changeviews_spec (fun _ => True))|]. cbn. intros l s tr (-> & -> & _). split; [exact I|apply trG_nil]. }
  kp_go ltac:(first [exact I | leafG2]). all: apply Hk.
Qed.
Lemma reset_state view ts s0 : hx s0 (reset cfg view ts)
  (fun _ s _ => Inv2 s /\ slot (PreparationPayloads s) (PrimaryIndex s) = None /\ cache s = cache s0).
Proof.
  unfold reset. apply x_modify. unfold unsubscribeFromTransactions at 1. apply x_modify.
  eapply x_call with (Qx := fun _ s _ => cache s = cache s0).
  { destruct (view =? 0).
    - xs; reflexivity.
    - apply x_get. eapply x_call; [apply (keep_changeviews_spec (fun _ => True))|]. intros l s1 n1 (-> & -> & _). apply x_modify_last. reflexivity. }
  intros [] s1 n1 C1. cbn beta. unfold GetPrimaryIndex. xs.
  all: match goal with |- _ /\ _ /\ _ => idtac end.
  all: rewrite <- and_assoc; split; [apply inv2_fresh; [reflexivity|reflexivity|eexists; reflexivity|intros _; unfold primary_of, N; cbn; reflexivity]|cbn; exact C1].
Qed.
Lemma reset_spec view ts s0 : hx s0 (reset cfg view ts)
  (fun _ s tr => Inv2 s /\ trG G2 tr /\ slot (PreparationPayloads s) (PrimaryIndex s) = None /\ cache s = cache s0).
Proof.
  eapply x_conseq; [apply (x_conj _ _ _ _ (reset_trace view ts s0 I) (reset_state view ts s0))|]. cbn.
  intros _ s n [[_ T] (A & B & C)]. auto.
Qed.

Lemma K_ic_body ic view ts : (forall v t, K2 (ic v t)) -> forall s0, hx s0 (initializeConsensus_body cfg ic view ts) (fun _ s tr => Inv2 s /\ trG G2 tr).
Proof.
  intros Hic s0. unfold initializeConsensus_body.
  eapply x_call; [apply (reset_spec view ts s0)|]. intros [] s1 n1 (I1 & T1 & _ & _). cbn beta.
  match goal with |- hx _ ?prog _ => assert (Hrest : K2 prog) end.
  { pose proof (K_replay_map cfg ic Hic) as Hr. K_go. all: try apply Hr. }
  kfin Hrest.
Qed.
Lemma K_initializeConsensus fuel : forall v t s0, hx s0 (initializeConsensus cfg fuel v t) (fun _ s tr => Inv2 s /\ trG G2 tr).
Proof.
  induction fuel as [|f IH]; intros v t s0; cbn [initializeConsensus]; [apply x_oof|].
  apply K_ic_body. intros v' t' s _. apply IH.
Qed.
Lemma K_init v t : K2 (init cfg v t). Proof. intros s0 _. apply K_initializeConsensus. Qed.
Hint Resolve K_init : kpdb.

(* Start: the cache is new, nothing is replayed, so the primary's slot is empty when the first proposal is made *)
Lemma start_init2 ts s0 : cache s0 = [] ->
  hx s0 (init cfg 0 ts) (fun _ s tr => Inv2 s /\ trG G2 tr /\ slot (PreparationPayloads s) (PrimaryIndex s) = None).
Proof.
  intros C0. rewrite init_unfold. generalize (initializeConsensus cfg 257) as ic. intros ic. unfold initializeConsensus_body.
  eapply x_call; [apply (reset_spec 0 ts s0)|]. intros [] s1 n1 (I1 & T1 & N1 & C1). cbn beta. rewrite C0 in C1.
  apply x_get.
  eapply x_call with (Qx := fun _ s tr => s = s1 /\ trG G2 tr).
  { destruct (IsPrimary s1); [apply x_ret; split; [reflexivity|apply trG_nil]|]. unfold WatchOnly. xs; split; auto; trs3. }
  intros [] s3 n3 (-> & T3). cbn beta.
  unfold StopTxFlow at 1. unfold ask_unit at 1. apply x_ask. intros [] c Hc. assert (Gc : G2 s1 c) by g2sel. apply x_modify. apply x_get.
  cbn [cache set]. rewrite C1. cbn [filter assoc_get]. apply x_ret_bind.
  match goal with |- hx ?st _ _ => set (s4 := st) end.
  assert (I4 : Inv2 s4) by (apply (inv2_same s1); [unfold Same2, s4; cbn; repeat split; reflexivity|exact I1]).
  assert (N4 : slot (PreparationPayloads s4) (PrimaryIndex s4) = None) by exact N1.
  match goal with |- hx _ ?prog _ => assert (Hrest : k4 prog) by k4_go end.
  eapply x_conseq; [apply (Hrest (MyIndex s4) (PrimaryIndex s4) (ViewNumber s4) s4); split; [exact I4|split; [reflexivity|split; [reflexivity|split; [reflexivity|exact N4]]]]|].
  cbn. intros _ s n [(A1 & _ & _ & _ & A4) A5]. split; [exact A1|split; [trs3|exact A4]].
Qed.

Lemma K_Start ts : K2 (Start cfg ts).
Proof.
  intros s0 _. unfold Start. apply x_modify.
  eapply x_call; [apply (start_init2 ts); reflexivity|]. intros [] s2 n2 (I2 & T2 & N2). cbn beta.
  apply x_get. destruct (IsPrimary s2); [|kret].
  apply (x_k4 s2 _ _ _ q_WatchOnly I2 N2). intros wo s3 n3 I3 F3 N3 T3. destruct wo; [kret|].
  eapply x_conseq; [apply (spr_spec cfg true s3 I3 N3)|]. cbn. intros _ s n [A1 A2]. split; [exact A1|trs3].
Qed.
Lemma K_Reset ts : K2 (Reset cfg ts). Proof. apply K_init. Qed.
Lemma K_OnTransaction t : K2 (OnTransaction cfg t).
Proof. unfold OnTransaction. pose proof (K_addTransaction cfg (init cfg) K_init) as Ha. K_go. Qed.
Lemma K_onTimeout h v f : K2 (onTimeout cfg h v f).
Proof.
  intros s0 H0. unfold onTimeout.
  apply (x_k2 s0 _ _ _ h_WatchOnly H0). intros wo s1 n1 I1 F1 T1. apply x_get.
  destruct (wo || blockProcessed s1); [kret|]. destruct (negb _ || negb _); [kret|].
  eapply x_call with (Qx := fun rs s tr => s = s1 /\ tr = [] /\ (IsPrimary s1 && negb rs = true -> slot (PreparationPayloads s1) (PrimaryIndex s1) = None)).
  { destruct (IsPrimary s1).
    - eapply x_conseq; [apply rsor_spec|]. cbn. intros rs s n (-> & -> & Hrs). split; [reflexivity|split; [reflexivity|]]. intros E. apply Hrs. destruct rs; [discriminate E|reflexivity].
    - apply x_ret. split; [reflexivity|split; [reflexivity|discriminate]]. }
  intros rs s2 n2 (-> & -> & Hrs). cbn beta.
  destruct (IsPrimary s1 && negb rs) eqn:E1.
  { eapply x_conseq; [apply (spr_spec cfg _ s1 I1 (Hrs eq_refl))|]. cbn. intros _ s n [A1 A2]. split; [exact A1|trs3]. }
  match goal with |- hx _ ?prog _ => assert (Hrest : K2 prog) end.
  { pose proof (K_sendChangeView (init cfg) K_init) as Hs. K_go. }
  kfin Hrest.
Qed.
Lemma K_OnNewTransaction : K2 (OnNewTransaction cfg).
Proof. unfold OnNewTransaction. pose proof K_onTimeout as Ht. K_go. Qed.
Lemma K_run_event e : K2 (run_event cfg e).
Proof.
  destruct e; cbn [run_event].
  - apply K_Start. - apply K_Reset. - apply K_OnReceive, K_init. - apply K_onTimeout. - apply K_OnTransaction. - apply K_OnNewTransaction.
Qed.

Lemma Inv2_fresh_state : Inv2 fresh_state.
Proof. constructor; cbn; discriminate. Qed.

(* one API call from a state satisfying the invariant: the invariant again, and every block handed over is the proposal's *)
Theorem proposal_step st ev sc st' tr : Inv2 st -> step cfg st ev sc = Ok (st', tr) -> Inv2 st' /\ trG G2 tr.
Proof.
  intros HI Hs. unfold step in Hs. pose proof (K_run_event ev st HI (mkM st sc []) eq_refl) as H.
  destruct (run_event cfg ev (mkM st sc [])) as [[a m']| | | |]; try discriminate Hs.
  destruct H as (new & Ht & _ & I' & T'). destruct (script m'); [|discriminate Hs]. injection Hs as <- <-.
  cbn in Ht. rewrite Ht. auto.
Qed.
Theorem proposal_reach st : Reach cfg st -> Inv2 st.
Proof. induction 1 as [|st ev sc st' tr HR IH Hs]; [apply Inv2_fresh_state|]. apply (proposal_step _ _ _ _ _ IH Hs). Qed.
Theorem proposal_history st ev sc st' tr : Reach cfg st -> step cfg st ev sc = Ok (st', tr) -> trG G2 tr.
Proof. intros HR Hs. apply (proposal_step _ _ _ _ _ (proposal_reach _ HR) Hs). Qed.

(* the gate spelled out: at the callback handing over the block, the block is the node's header; its timestamp, nonce and
   transaction list are those of the PrepareRequest of the node's current view held in the primary's slot, and its index and
   previous hash are the context's (the values read from the application at the height's initialisation) *)
Corollary accepted_block_is_the_primary_proposal st ev sc st' tr s h e :
  Reach cfg st -> step cfg st ev sc = Ok (st', tr) -> In (s, CProcessBlock h e) tr ->
  exists b r, header s = Some b /\ h = block_hash b /\ slot (PreparationPayloads s) (PrimaryIndex s) = Some r /\
              p_type r = PrepareRequestT /\ p_view r = ViewNumber s /\
              p_body r = B0 (BPrepareRequest (b_ts b) (b_nonce b) (b_hashes b)) /\
              b_index b = BlockIndex s /\ b_prev b = PrevHash s.
Proof.
  intros HR Hs Hin. pose proof (proposal_history _ _ _ _ _ HR Hs) as HT.
  unfold trG in HT. rewrite Forall_forall in HT. pose proof (HT _ Hin) as Hg. cbn in Hg. destruct Hg as (b & r & A & B & C & D & E & F & G).
  exists b, r. split; [exact A|split; [exact B|split; [exact C|split; [eapply body_req; exact D|auto]]]].
Qed.
(* the node asks for a signature only for the hash of its header, which is the proposal of its view, and only while its
   own Commit slot is empty *)
Corollary signature_only_for_the_proposal_while_uncommitted st ev sc st' tr s h :
  Reach cfg st -> step cfg st ev sc = Ok (st', tr) -> In (s, CSign h) tr ->
  HdrIsProposal s h /\ slot (CommitPayloads s) (MyIndex s) = None.
Proof.
  intros HR Hs Hin. pose proof (proposal_history _ _ _ _ _ HR Hs) as HT.
  unfold trG in HT. rewrite Forall_forall in HT. exact (HT _ Hin).
Qed.
(* anti-MEV: the pre-block handed over is the node's pre-header = the proposal of its view; pre-commit data is requested only for
   it and only while the node's own PreCommit slot is empty *)
Corollary accepted_preblock_is_the_primary_proposal st ev sc st' tr s h e :
  Reach cfg st -> step cfg st ev sc = Ok (st', tr) -> In (s, CProcessPreBlock h e) tr -> PreHdrIsProposal s h.
Proof.
  intros HR Hs Hin. pose proof (proposal_history _ _ _ _ _ HR Hs) as HT.
  unfold trG in HT. rewrite Forall_forall in HT. exact (HT _ Hin).
Qed.
Corollary precommit_data_only_for_the_proposal_while_no_own_precommit st ev sc st' tr s h :
  Reach cfg st -> step cfg st ev sc = Ok (st', tr) -> In (s, CSetData h) tr ->
  PreHdrIsProposal s h /\ slot (PreCommitPayloads s) (MyIndex s) = None.
Proof.
  intros HR Hs Hin. pose proof (proposal_history _ _ _ _ _ HR Hs) as HT.
  unfold trG in HT. rewrite Forall_forall in HT. exact (HT _ Hin).
Qed.
(* the primary's slot is the one of the view's primary *)
Corollary primary_slot_is_the_view_primary st : Reach cfg st -> 0 < N st -> PrimaryIndex st = primary_of st (ViewNumber st).
Proof. intros HR. apply (i_pf _ (proposal_reach _ HR)). Qed.
End Api2.

Lemma primary_of_is_quorum_primary s v : primary_of s v = Quorum.primary (BlockIndex s) v (N s).
Proof. unfold primary_of, Quorum.primary, gorem. rewrite Z.geb_leb. reflexivity. Qed.
