(* Facts about the checked payload tables (list (option payload) with nth_chk / set_chk). *)
From DbftV Require Export Hoare.

Definition tall (P : payload -> Prop) (t : list (option payload)) : Prop := forall i p, nth_chk t i = Some (Some p) -> P p.

Lemma nth_set_same {A} (t : list A) i v l : set_chk t i v = Some l -> nth_chk l i = Some v.
Proof. revert i l. induction t as [|a t IH]; destruct i; cbn; intros l H; try discriminate.
  - injection H as <-. reflexivity.
  - destruct (set_chk t i v) eqn:E; [|discriminate]. injection H as <-. cbn. eauto. Qed.
Lemma nth_set_other {A} (t : list A) i j v l : set_chk t i v = Some l -> i <> j -> nth_chk l j = nth_chk t j.
Proof. revert i j l. induction t as [|a t IH]; destruct i; cbn; intros j l H Hn; try discriminate.
  - injection H as <-. destruct j; [congruence|reflexivity].
  - destruct (set_chk t i v) eqn:E; [|discriminate]. injection H as <-. destruct j; cbn; [reflexivity|]. eapply IH; eauto. Qed.
Lemma set_chk_length {A} (t : list A) i v l : set_chk t i v = Some l -> length l = length t.
Proof. revert i l. induction t as [|a t IH]; destruct i; cbn; intros l H; try discriminate.
  - injection H as <-. reflexivity.
  - destruct (set_chk t i v) eqn:E; [|discriminate]. injection H as <-. cbn. f_equal. eauto. Qed.
Lemma nth_chk_lt {A} (t : list A) i x : nth_chk t i = Some x -> (i < length t)%nat.
Proof. revert i. induction t as [|a t IH]; destruct i; cbn; intros H; try discriminate; try lia. apply IH in H. lia. Qed.

Lemma tall_set P t i v l : tall P t -> (forall p, v = Some p -> P p) -> set_chk t i v = Some l -> tall P l.
Proof.
  intros Ht Hv Hs j p Hj. destruct (Nat.eq_dec i j) as [->|Hn].
  - rewrite (nth_set_same _ _ _ _ Hs) in Hj. injection Hj as Hj. auto.
  - rewrite (nth_set_other _ _ _ _ _ Hs Hn) in Hj. eapply Ht; eauto.
Qed.
Lemma nth_chk_repeat {A} (x y : A) n i : nth_chk (repeat x n) i = Some y -> y = x.
Proof. revert i. induction n; destruct i; cbn; intros H; try discriminate; [congruence|eauto]. Qed.
Lemma tall_empty P n : tall P (replicate n None).
Proof. intros i p H. unfold replicate in H. apply nth_chk_repeat in H. discriminate. Qed.
Lemma tall_map P (f : option payload -> option payload) t :
  (forall o p, f o = Some p -> o = Some p) -> tall P t -> tall P (map f t).
Proof.
  intros Hf Ht i p H. assert (Hex : exists o, nth_chk t i = Some o /\ f o = Some p).
  { clear Ht. revert i H. induction t as [|a t IH]; intros i H; destruct i; cbn in H; try discriminate.
    - injection H as H. exists a. split; [reflexivity|exact H].
    - destruct (IH i H) as (o & Ho & Hfo). exists o. split; [exact Ho|exact Hfo]. }
  destruct Hex as (o & Ho & Hfo). apply Hf in Hfo. subst. eapply Ht; eauto.
Qed.
Lemma tall_weaken (P Q : payload -> Prop) t : (forall p, P p -> Q p) -> tall P t -> tall Q t.
Proof. intros H Ht i p Hi. apply H. eapply Ht; eauto. Qed.
