(* Uniform judgement for the node model: from ANY state, every callback a computation makes satisfies a guard G evaluated
   on the state at the instant of the callback, and the final state is related to the initial one by a preorder R.
   It composes without path conditions, so it is proved mechanically (tactic [rt]) for every function that contains no
   guard site of the property at hand; guard sites are proved by symbolic execution ([hx]/[xs]) and plugged in as hints. *)
From DbftV Require Export Hoare.

Definition trG (G : nstate -> call -> Prop) (tr : tr_t) : Prop := Forall (fun sc => G (fst sc) (snd sc)) tr.
Lemma trG_nil (G : nstate -> call -> Prop) : trG G []. Proof. constructor. Qed.
Lemma trG_app (G : nstate -> call -> Prop) a b : trG G a -> trG G b -> trG G (a ++ b). Proof. intros; apply Forall_app; auto. Qed.
Lemma trG_cons (G : nstate -> call -> Prop) s c n : G s c -> trG G n -> trG G ((s, c) :: n). Proof. intros; constructor; auto. Qed.
Lemma trG_app_inv (G : nstate -> call -> Prop) a b : trG G (a ++ b) -> trG G a /\ trG G b. Proof. apply Forall_app. Qed.
Lemma trG_mono (G G' : nstate -> call -> Prop) tr : (forall s c, G s c -> G' s c) -> trG G tr -> trG G' tr.
Proof. intros H. unfold trG. apply Forall_impl. intros [s c]; cbn; auto. Qed.

(* a preorder on node states, bundled with its proofs *)
Record rel := mkRel { rel_R :> nstate -> nstate -> Prop; R_refl : forall s, rel_R s s; R_trans : forall a b c, rel_R a b -> rel_R b c -> rel_R a c }.
Definition relT : rel := mkRel (fun _ _ => True) (fun _ => I) (fun _ _ _ _ _ => I).

Section RT.
Variable G : nstate -> call -> Prop.
Variable R : rel.

Definition rt {A} (x : M A) : Prop := forall s0, hx s0 x (fun _ s tr => R s0 s /\ trG G tr).

Lemma rt_ret {A} (a : A) : rt (ret a).
Proof. intros s0. apply x_ret. split; [apply R_refl|apply trG_nil]. Qed.
Lemma rt_bind {A B} (x : M A) (f : A -> M B) : rt x -> (forall a, rt (f a)) -> rt (bind x f).
Proof.
  intros Hx Hf s0. eapply x_call; [apply Hx|]. intros a s1 n1 [R1 T1]. cbn beta.
  eapply x_conseq; [apply (Hf a s1)|]. cbn. intros b s2 n2 [R2 T2]. split; [eapply R_trans; eauto|apply trG_app; auto].
Qed.
Lemma rt_get : rt get.
Proof. intros s0. apply x_get_last. split; [apply R_refl|apply trG_nil]. Qed.
Lemma rt_gets {A} (f : nstate -> A) : rt (gets f).
Proof. intros s0 m Hm. cbn. exists []. rewrite app_nil_r. subst. split; [reflexivity|]. split; [reflexivity|]. split; [apply R_refl|apply trG_nil]. Qed.
Lemma rt_modify g : (forall s, R s (g s)) -> rt (modify g).
Proof. intros H s0. apply x_modify_last. split; [apply H|apply trG_nil]. Qed.
Lemma rt_ask {A} (sel : call -> option A) : (forall s c a, sel c = Some a -> G s c) -> rt (ask sel).
Proof. intros H s0. apply x_ask_last. intros a c Hc. split; [apply R_refl|]. apply trG_cons; [eapply H; eauto|apply trG_nil]. Qed.
Lemma rt_panic {A} : rt (@panic A). Proof. intros s0. apply x_panic. Qed.
Lemma rt_fatal {A} : rt (@fatal A). Proof. intros s0. apply x_fatal. Qed.
Lemma rt_oof {A} : rt (@out_of_fuel A). Proof. intros s0. apply x_oof. Qed.
Lemma rt_tget {T} (l : list T) i : rt (tget l i).
Proof. intros s0. apply x_tget_last. intros. split; [apply R_refl|apply trG_nil]. Qed.
Lemma rt_tset {T} (l : list T) i v : rt (tset l i v).
Proof.
  intros s0 m Hm. unfold tset. destruct (i <? 0); [exact I|]. destruct (set_chk l (Z.to_nat i) v); [|exact I].
  cbn. exists []. rewrite app_nil_r. subst. split; [reflexivity|]. split; [reflexivity|]. split; [apply R_refl|apply trG_nil].
Qed.
Lemma rt_when b x : rt x -> rt (when b x).
Proof. intros H. unfold when. destruct b; [exact H|apply rt_ret]. Qed.
Lemma rt_forM {T} (l : list T) (f : T -> M unit) : (forall a, rt (f a)) -> rt (forM l f).
Proof. intros Hf. induction l as [|a l IH]; cbn [forM]; [apply rt_ret|]. apply rt_bind; auto. Qed.

Lemma rt_assoc {A B C} (x : M A) (g : A -> M B) (f : B -> M C) : rt (bind x (fun a => bind (g a) f)) -> rt (bind (bind x g) f).
Proof. intros H s0. apply x_assoc. apply H. Qed.
Lemma rt_ret_bind {A B} (a : A) (f : A -> M B) : rt (f a) -> rt (bind (ret a) f).
Proof. intros H s0. apply x_ret_bind. apply H. Qed.
Lemma rt_get_bind {B} (f : nstate -> M B) : (forall s, rt (f s)) -> rt (bind get f).
Proof. intros H s0. apply x_get. apply H. Qed.

(* use inside symbolic execution: call a function known to be rt, continue from the (abstract) state it leaves *)
Lemma x_rt {A B} s0 (x : M A) (f : A -> M B) Q :
  rt x -> (forall a s1 n1, R s0 s1 -> trG G n1 -> hx s1 (f a) (fun b s n2 => Q b s (n1 ++ n2))) -> hx s0 (bind x f) Q.
Proof. intros Hx Hf. eapply x_call; [apply Hx|]. intros a s1 n1 [R1 T1]. apply Hf; auto. Qed.
Lemma x_rt_last {A} s0 (x : M A) (Q : A -> nstate -> tr_t -> Prop) :
  rt x -> (forall a s1 n1, R s0 s1 -> trG G n1 -> Q a s1 n1) -> hx s0 x Q.
Proof. intros Hx Hq. eapply x_conseq; [apply Hx|]. cbn. intros a s n [R1 T1]. auto. Qed.
End RT.

(* weakening *)
Lemma rt_weaken (G G' : nstate -> call -> Prop) (R R' : rel) {A} (x : M A) :
  (forall s c, G s c -> G' s c) -> (forall a b, R a b -> R' a b) -> rt G R x -> rt G' R' x.
Proof.
  intros HG HR H s0. eapply x_conseq; [apply H|]. cbn. intros a s n [R1 T1]. split; auto. eapply trG_mono; eauto.
Qed.

(* ---------------- the decomposition tactic ----------------
   [rt_go leaf] decomposes a goal [rt G R prog] along the syntax of prog; calls to defined functions are closed with the
   hint database [rtdb]; [leaf] must solve the side conditions of modify (R s (g s)) and ask (G s c). *)
Create HintDb rtdb discriminated.

Ltac rt_go leaf :=
  lazymatch goal with
  | |- rt _ _ (bind (bind _ _) _) => apply rt_assoc; rt_go leaf
  | |- rt _ _ (bind (ret _) _) => apply rt_ret_bind; rt_go leaf
  | |- rt _ _ (bind get _) => apply rt_get_bind; intro; rt_go leaf
  | |- rt _ _ (bind (if ?b then _ else _) _) => destruct b; rt_go leaf
  | |- rt _ _ (bind (match ?o with Some _ => _ | None => _ end) _) => destruct o; rt_go leaf
  | |- rt _ _ (bind _ _) => apply rt_bind; [ | intro]; rt_go leaf
  | |- rt _ _ (ret _) => apply rt_ret
  | |- rt _ _ get => apply rt_get
  | |- rt _ _ (gets _) => apply rt_gets
  | |- rt _ _ (modify _) => apply rt_modify; intros; leaf
  | |- rt _ _ (ask _) => apply rt_ask; intros; leaf
  | |- rt _ _ (ask_unit _) => unfold ask_unit; rt_go leaf
  | |- rt _ _ ask_now => unfold ask_now; rt_go leaf
  | |- rt _ _ ask_watchonly => unfold ask_watchonly; rt_go leaf
  | |- rt _ _ panic => apply rt_panic
  | |- rt _ _ fatal => apply rt_fatal
  | |- rt _ _ out_of_fuel => apply rt_oof
  | |- rt _ _ (tget _ _) => apply rt_tget
  | |- rt _ _ (tset _ _ _) => apply rt_tset
  | |- rt _ _ (when _ _) => apply rt_when; rt_go leaf
  | |- rt _ _ (forM _ _) => apply rt_forM; intro; rt_go leaf
  | |- rt _ _ (if ?b then _ else _) => destruct b; rt_go leaf
  | |- rt _ _ (match ?o with Some _ => _ | None => _ end) => destruct o; rt_go leaf
  | |- rt _ _ (match ?o with nil => _ | cons _ _ => _ end) => destruct o; rt_go leaf
  | |- rt _ _ (match ?o with (_, _) => _ end) => destruct o; rt_go leaf
  | |- rt _ _ (let _ := _ in _) => cbv zeta; rt_go leaf
  | |- rt _ _ _ => first [ solve [eauto 3 with rtdb] | idtac ]
  end.

(* ---------------- invariant-carrying variant ----------------
   [kp I G x]: from every state satisfying I, x preserves I and every callback satisfies G at its instant. *)
Section KP.
Variable I : nstate -> Prop.
Variable G : nstate -> call -> Prop.

Definition kp {A} (x : M A) : Prop := forall s0, I s0 -> hx s0 x (fun _ s tr => I s /\ trG G tr).

Lemma kp_ret {A} (a : A) : kp (ret a).
Proof. intros s0 H. apply x_ret. split; [exact H|apply trG_nil]. Qed.
Lemma kp_bind {A B} (x : M A) (f : A -> M B) : kp x -> (forall a, kp (f a)) -> kp (bind x f).
Proof.
  intros Hx Hf s0 H0. eapply x_call; [apply (Hx s0 H0)|]. intros a s1 n1 [I1 T1]. cbn beta.
  eapply x_conseq; [apply (Hf a s1 I1)|]. cbn. intros b s2 n2 [I2 T2]. split; [exact I2|apply trG_app; auto].
Qed.
Lemma kp_assoc {A B C} (x : M A) (g : A -> M B) (f : B -> M C) : kp (bind x (fun a => bind (g a) f)) -> kp (bind (bind x g) f).
Proof. intros H s0 H0. apply x_assoc. apply H. exact H0. Qed.
Lemma kp_ret_bind {A B} (a : A) (f : A -> M B) : kp (f a) -> kp (bind (ret a) f).
Proof. intros H s0 H0. apply x_ret_bind. apply H. exact H0. Qed.
(* the state read by [get] is the current one and satisfies I *)
Lemma kp_get_bind {B} (f : nstate -> M B) : (forall s, I s -> hx s (f s) (fun _ s' tr => I s' /\ trG G tr)) -> kp (bind get f).
Proof. intros H s0 H0. apply x_get. apply H. exact H0. Qed.
Lemma kp_get_bind_u {B} (f : nstate -> M B) : (forall s, kp (f s)) -> kp (bind get f).
Proof. intros H s0 H0. apply x_get. apply H. exact H0. Qed.
Lemma kp_get : kp get.
Proof. intros s0 H. apply x_get_last. split; [exact H|apply trG_nil]. Qed.
Lemma kp_gets {A} (f : nstate -> A) : kp (gets f).
Proof. intros s0 H m Hm. cbn. exists []. rewrite app_nil_r. subst. split; [reflexivity|]. split; [reflexivity|]. split; [exact H|apply trG_nil]. Qed.
Lemma kp_modify g : (forall s, I s -> I (g s)) -> kp (modify g).
Proof. intros H s0 H0. apply x_modify_last. split; [apply H; exact H0|apply trG_nil]. Qed.
Lemma kp_ask {A} (sel : call -> option A) : (forall s c a, I s -> sel c = Some a -> G s c) -> kp (ask sel).
Proof. intros H s0 H0. apply x_ask_last. intros a c Hc. split; [exact H0|]. apply trG_cons; [eapply H; eauto|apply trG_nil]. Qed.
Lemma kp_panic {A} : kp (@panic A). Proof. intros s0 _. apply x_panic. Qed.
Lemma kp_fatal {A} : kp (@fatal A). Proof. intros s0 _. apply x_fatal. Qed.
Lemma kp_oof {A} : kp (@out_of_fuel A). Proof. intros s0 _. apply x_oof. Qed.
Lemma kp_tget {T} (l : list T) i : kp (tget l i).
Proof. intros s0 H. apply x_tget_last. intros. split; [exact H|apply trG_nil]. Qed.
Lemma kp_tset {T} (l : list T) i v : kp (tset l i v).
Proof.
  intros s0 H m Hm. unfold tset. destruct (i <? 0); [exact Logic.I|]. destruct (set_chk l (Z.to_nat i) v); [|exact Logic.I].
  cbn. exists []. rewrite app_nil_r. subst. split; [reflexivity|]. split; [reflexivity|]. split; [exact H|apply trG_nil].
Qed.
Lemma kp_when b x : kp x -> kp (when b x).
Proof. intros H. unfold when. destruct b; [exact H|apply kp_ret]. Qed.
Lemma kp_forM {T} (l : list T) (f : T -> M unit) : (forall a, kp (f a)) -> kp (forM l f).
Proof. intros Hf. induction l as [|a l IH]; cbn [forM]; [apply kp_ret|]. apply kp_bind; auto. Qed.
Lemma kp_of_hx {A} (x : M A) : (forall s0, I s0 -> hx s0 x (fun _ s tr => I s /\ trG G tr)) -> kp x.
Proof. auto. Qed.
Lemma x_kp {A B} s0 (x : M A) (f : A -> M B) Q :
  kp x -> I s0 -> (forall a s1 n1, I s1 -> trG G n1 -> hx s1 (f a) (fun b s n2 => Q b s (n1 ++ n2))) -> hx s0 (bind x f) Q.
Proof. intros Hx H0 Hf. eapply x_call; [apply (Hx s0 H0)|]. intros a s1 n1 [I1 T1]. apply Hf; auto. Qed.
Lemma x_kp_last {A} s0 (x : M A) (Q : A -> nstate -> tr_t -> Prop) :
  kp x -> I s0 -> (forall a s1 n1, I s1 -> trG G n1 -> Q a s1 n1) -> hx s0 x Q.
Proof. intros Hx H0 Hq. eapply x_conseq; [apply (Hx s0 H0)|]. cbn. intros a s n [I1 T1]. auto. Qed.
End KP.

Lemma rt_kp (I : nstate -> Prop) (G : nstate -> call -> Prop) (R : rel) {A} (x : M A) :
  (forall a b, I a -> R a b -> I b) -> rt G R x -> kp I G x.
Proof. intros HIR H s0 H0. eapply x_conseq; [apply H|]. cbn. intros a s n [R1 T1]. split; [eapply HIR; eauto|exact T1]. Qed.

Create HintDb kpdb discriminated.
Ltac kp_go leaf :=
  lazymatch goal with
  | |- kp _ _ (bind (bind _ _) _) => apply kp_assoc; kp_go leaf
  | |- kp _ _ (bind (ret _) _) => apply kp_ret_bind; kp_go leaf
  | |- kp _ _ (bind get _) => apply kp_get_bind_u; intro; kp_go leaf
  | |- kp _ _ (bind (if ?b then _ else _) _) => destruct b; kp_go leaf
  | |- kp _ _ (bind (match ?o with Some _ => _ | None => _ end) _) => destruct o; kp_go leaf
  | |- kp _ _ (bind _ _) => apply kp_bind; [ | intro]; kp_go leaf
  | |- kp _ _ (ret _) => apply kp_ret
  | |- kp _ _ get => apply kp_get
  | |- kp _ _ (gets _) => apply kp_gets
  | |- kp _ _ (modify _) => apply kp_modify; intros; leaf
  | |- kp _ _ (ask _) => apply kp_ask; intros; leaf
  | |- kp _ _ (ask_unit _) => unfold ask_unit; kp_go leaf
  | |- kp _ _ ask_now => unfold ask_now; kp_go leaf
  | |- kp _ _ ask_watchonly => unfold ask_watchonly; kp_go leaf
  | |- kp _ _ panic => apply kp_panic
  | |- kp _ _ fatal => apply kp_fatal
  | |- kp _ _ out_of_fuel => apply kp_oof
  | |- kp _ _ (tget _ _) => apply kp_tget
  | |- kp _ _ (tset _ _ _) => apply kp_tset
  | |- kp _ _ (when _ _) => apply kp_when; kp_go leaf
  | |- kp _ _ (forM _ _) => apply kp_forM; intro; kp_go leaf
  | |- kp _ _ (if ?b then _ else _) => destruct b; kp_go leaf
  | |- kp _ _ (match ?o with Some _ => _ | None => _ end) => destruct o; kp_go leaf
  | |- kp _ _ (match ?o with nil => _ | cons _ _ => _ end) => destruct o; kp_go leaf
  | |- kp _ _ (match ?o with (_, _) => _ end) => destruct o; kp_go leaf
  | |- kp _ _ (let _ := _ in _) => cbv zeta; kp_go leaf
  | |- kp _ _ _ => first [ solve [eauto 3 with kpdb] | idtac ]
  end.
